/-
C06 — property theorems. Statement of the property:

  For the brick-sequence and character-inclusion string domains, normalizing a value does not
  change the set of strings it represents, appending two values represents every concatenation
  of their members, and merging two values represents every member of either input.

All theorems are about the model in `Model.lean` (of the repaired code, see there) and hold for
ALL values: arbitrary alphabets, string sets, list lengths and bounds.
-/
import CweModel.C06.Model
namespace CweModel.C06

theorem mem_insBy {α} [DecidableEq α] (lt : α → α → Bool) (x a : α) (l : List α) :
    a ∈ insBy lt x l ↔ a = x ∨ a ∈ l := by
  induction l with
  | nil => simp [insBy]
  | cons y ys ih =>
    simp only [insBy]
    split
    · subst_vars; simp
    · split
      · simp
      · simp only [List.mem_cons, ih]; grind

theorem mem_canonBy {α} [DecidableEq α] (lt : α → α → Bool) (a : α) (l : List α) :
    a ∈ canonBy lt l ↔ a ∈ l := by
  induction l with
  | nil => simp [canonBy]
  | cons x xs ih =>
    have : canonBy lt (x :: xs) = insBy lt x (canonBy lt xs) := rfl
    rw [this, mem_insBy, ih]; simp

theorem mem_canon (a : Str) (l : List Str) : a ∈ canon l ↔ a ∈ l := mem_canonBy _ _ _
theorem mem_canonC (a : Char) (l : List Char) : a ∈ canonC l ↔ a ∈ l := mem_canonBy _ _ _

/-! Reps -/
theorem reps_zero {S : List Str} {u : Str} : Reps S 0 u ↔ u = [] := by
  constructor
  · intro h; cases h; rfl
  · rintro rfl; exact .zero

theorem reps_succ {S : List Str} {n : Nat} {u : Str} :
    Reps S (n + 1) u ↔ ∃ s t, u = s ++ t ∧ Reps S n s ∧ t ∈ S := by
  constructor
  · intro h; cases h with
    | succ h1 h2 => exact ⟨_, _, rfl, h1, h2⟩
  · rintro ⟨s, t, rfl, h1, h2⟩; exact .succ h1 h2

theorem reps_one {S : List Str} {t : Str} : Reps S 1 t ↔ t ∈ S := by
  rw [reps_succ]
  constructor
  · rintro ⟨s, t, rfl, h1, h2⟩; rw [reps_zero] at h1; subst h1; simpa using h2
  · intro h; exact ⟨[], t, rfl, .zero, h⟩

theorem Reps.append {S : List Str} {j k : Nat} {s t : Str} (h1 : Reps S j s) (h2 : Reps S k t) :
    Reps S (j + k) (s ++ t) := by
  induction h2 with
  | zero => simpa using h1
  | succ _ hm ih => rw [← List.append_assoc, ← Nat.add_assoc]; exact .succ ih hm

theorem Reps.split {S : List Str} {j k : Nat} {u : Str} (h : Reps S (j + k) u) :
    ∃ s t, u = s ++ t ∧ Reps S j s ∧ Reps S k t := by
  induction k generalizing u with
  | zero => exact ⟨u, [], by simp, h, .zero⟩
  | succ k ih =>
    rw [← Nat.add_assoc, reps_succ] at h
    obtain ⟨s', t', rfl, h1, h2⟩ := h
    obtain ⟨s, t, rfl, hs, ht⟩ := ih h1
    exact ⟨s, t ++ t', by simp, hs, .succ ht h2⟩

theorem reps_add {S : List Str} {j k : Nat} {u : Str} :
    Reps S (j + k) u ↔ ∃ s t, u = s ++ t ∧ Reps S j s ∧ Reps S k t :=
  ⟨Reps.split, by rintro ⟨s, t, rfl, h1, h2⟩; exact h1.append h2⟩

theorem Reps.mono {S S' : List Str} (hs : ∀ t ∈ S, t ∈ S') {k : Nat} {s : Str} (h : Reps S k s) :
    Reps S' k s := by
  induction h with
  | zero => exact .zero
  | succ _ hm ih => exact .succ ih (hs _ hm)

theorem Reps.exists_of_mem {S : List Str} {t : Str} (ht : t ∈ S) (k : Nat) : ∃ s, Reps S k s := by
  induction k with
  | zero => exact ⟨[], .zero⟩
  | succ k ih => obtain ⟨s, hs⟩ := ih; exact ⟨s ++ t, .succ hs ht⟩


/-! ### languages of single bricks -/

theorem lang_of_isEmptyString {b : Brick} (h : b.isEmptyString = true) (s : Str) :
    b.lang s ↔ s = [] := by
  obtain ⟨seq, mn, mx⟩ := b
  simp only [Brick.isEmptyString, Bool.and_eq_true, decide_eq_true_eq, List.isEmpty_iff] at h
  obtain ⟨⟨rfl, rfl⟩, rfl⟩ := h
  simp only [Brick.lang]
  constructor
  · rintro ⟨k, _, hk, hr⟩
    have : k = 0 := by omega
    subst this; exact reps_zero.mp hr
  · rintro rfl; exact ⟨0, Nat.le_refl _, Nat.le_refl _, .zero⟩

theorem emptyBD_lang (s : Str) : emptyBD.lang s ↔ s = [] :=
  lang_of_isEmptyString (b := Brick.empty) rfl s

/-- a brick `[S]^{1,1}` denotes `S` -/
theorem lang_one_one (S : List Str) (s : Str) : (Brick.mk S 1 1).lang s ↔ s ∈ S := by
  simp only [Brick.lang]
  constructor
  · rintro ⟨k, h1, h2, hr⟩
    have : k = 1 := by omega
    subst this; exact reps_one.mp hr
  · intro h; exact ⟨1, Nat.le_refl _, Nat.le_refl _, reps_one.mpr h⟩

theorem mem_newGen_nil (S : List Str) (t : Str) : t ∈ newGen S [] ↔ t ∈ S := by
  simp [newGen]

theorem mem_newGen_ne (S gen : List Str) (hg : gen ≠ []) (t : Str) :
    t ∈ newGen S gen ↔ ∃ s ∈ S, ∃ g ∈ gen, t = g ++ s := by
  have : gen.isEmpty = false := by cases gen <;> simp_all
  simp only [newGen, this, Bool.false_eq_true, if_false, List.mem_flatMap, List.mem_map]
  constructor
  · rintro ⟨s, hs, g, hg, rfl⟩; exact ⟨s, hs, g, hg, rfl⟩
  · rintro ⟨s, hs, g, hg, rfl⟩; exact ⟨s, hs, g, hg, rfl⟩

/-- invariant of `generate_permutations_of_fixed_length`: after `j` rounds `generated` holds the
`j`-fold concatenations (and is the empty `Vec` before the first round) -/
def GenInv (S : List Str) (j : Nat) (gen : List Str) : Prop :=
  (j = 0 ∧ gen = []) ∨ (1 ≤ j ∧ ∀ t, t ∈ gen ↔ Reps S j t)

theorem GenInv.step {S : List Str} {j : Nat} {gen : List Str} (h : GenInv S j gen) :
    GenInv S (j + 1) (newGen S gen) := by
  refine Or.inr ⟨by omega, fun t => ?_⟩
  rcases h with ⟨rfl, rfl⟩ | ⟨hj, hmem⟩
  · rw [mem_newGen_nil, reps_one]
  · by_cases hg : gen = []
    · subst hg
      rw [mem_newGen_nil]
      constructor
      · intro ht
        obtain ⟨s, hs⟩ := Reps.exists_of_mem ht j
        exact absurd ((hmem s).mpr hs) (by simp)
      · intro ht
        rw [reps_succ] at ht
        obtain ⟨s, _, _, hs, _⟩ := ht
        exact absurd ((hmem s).mpr hs) (by simp)
    · rw [mem_newGen_ne S gen hg, reps_succ]
      constructor
      · rintro ⟨s, hs, g, hg, rfl⟩; exact ⟨g, s, rfl, (hmem g).mp hg, hs⟩
      · rintro ⟨g, s, rfl, hg, hs⟩; exact ⟨s, hs, g, (hmem g).mpr hg, rfl⟩

theorem mem_genPermsAux {S : List Str} (r : Nat) {j : Nat} {gen : List Str} (h : GenInv S j gen)
    (t : Str) : t ∈ genPermsAux S r gen ↔ Reps S (j + r + 1) t := by
  induction r generalizing j gen with
  | zero =>
    rcases h.step with ⟨h0, _⟩ | ⟨_, hm⟩
    · omega
    · simpa [genPermsAux] using hm t
  | succ r ih =>
    have := ih h.step
    simp only [genPermsAux]
    rw [this]
    have : j + 1 + r + 1 = j + (r + 1) + 1 := by omega
    rw [this]

/-- `generate_permutations_of_fixed_length(n, S, [], 1)` is the set of `n`-fold concatenations -/
theorem mem_genPerms {S : List Str} {n : Nat} (hn : 1 ≤ n) (t : Str) :
    t ∈ genPerms n S [] 1 ↔ Reps S n t := by
  have := mem_genPermsAux (S := S) (n - 1) (j := 0) (gen := []) (Or.inl ⟨rfl, rfl⟩) t
  simp only [genPerms]
  rw [this]
  have : 0 + (n - 1) + 1 = n := by omega
  rw [this]

theorem transform_lang (b : Brick) {n : Nat} (hn : 1 ≤ n) (s : Str) :
    (b.transformMinMaxEqual n).lang s ↔ Reps b.seq n s := by
  simp only [Brick.transformMinMaxEqual]
  rw [lang_one_one, mem_canon, mem_genPerms hn]

/-- rule 3: `[S]^{n,n} = [S^n]^{1,1}` -/
theorem rule3_lang (b : Brick) (h : b.min = b.max) (h1 : b.min > 1) (s : Str) :
    (b.transformMinMaxEqual b.min).lang s ↔ b.lang s := by
  rw [transform_lang b (by omega)]
  simp only [Brick.lang]
  constructor
  · intro hr; exact ⟨b.min, Nat.le_refl _, by omega, hr⟩
  · rintro ⟨k, hk1, hk2, hr⟩
    have : k = b.min := by omega
    subst this; exact hr

/-- rule 5: `[S]^{m,M} = [S^m]^{1,1} [S]^{0,M-m}` for `1 ≤ m < M` -/
theorem rule5_lang (b : Brick) (h1 : b.min ≥ 1) (h2 : b.max > b.min) (s : Str) :
    (∃ u v, s = u ++ v ∧ b.breakSimpler.1.lang u ∧ b.breakSimpler.2.lang v) ↔ b.lang s := by
  simp only [Brick.breakSimpler]
  constructor
  · rintro ⟨u, v, rfl, hu, hv⟩
    rw [transform_lang b h1] at hu
    obtain ⟨k, _, hk, hr⟩ := hv
    exact ⟨b.min + k, by omega, by simp only at hk; omega, hu.append hr⟩
  · rintro ⟨k, hk1, hk2, hr⟩
    have : k = b.min + (k - b.min) := by omega
    rw [this] at hr
    obtain ⟨u, v, rfl, hu, hv⟩ := hr.split
    refine ⟨u, v, rfl, (transform_lang b h1 u).mpr hu, k - b.min, Nat.zero_le _, ?_, hv⟩
    simp only; omega

/-- rule 2: `[S₁]^{1,1} [S₂]^{1,1} = [S₁·S₂]^{1,1}` -/
theorem rule2_lang (b n : Brick) (hb : b.min = 1 ∧ b.max = 1) (hn : n.min = 1 ∧ n.max = 1) (s : Str) :
    (∃ u v, s = u ++ v ∧ b.lang u ∧ n.lang v) ↔ (b.mergeBoundOne n).lang s := by
  obtain ⟨S1, m1, M1⟩ := b
  obtain ⟨S2, m2, M2⟩ := n
  simp only at hb hn
  obtain ⟨rfl, rfl⟩ := hb
  obtain ⟨rfl, rfl⟩ := hn
  simp only [Brick.mergeBoundOne, lang_one_one, mem_canon, List.mem_flatMap, List.mem_map]
  constructor
  · rintro ⟨u, v, rfl, hu, hv⟩; exact ⟨u, hu, v, hv, rfl⟩
  · rintro ⟨u, hu, v, hv, rfl⟩; exact ⟨u, v, rfl, hu, hv⟩

/-- rule 4 (as repaired): `[S]^{0,M₁} [S]^{0,M₂} = [S]^{0,M₁+M₂}` if the sum fits into `u32` -/
theorem rule4_lang (b n : Brick) (h : step4Cond b n = true) (s : Str) :
    (∃ u v, s = u ++ v ∧ b.lang u ∧ n.lang v) ↔ (b.mergeEqualContent n).lang s := by
  obtain ⟨S1, m1, M1⟩ := b
  obtain ⟨S2, m2, M2⟩ := n
  simp only [step4Cond, Bool.and_eq_true, decide_eq_true_eq] at h
  obtain ⟨⟨⟨rfl, rfl⟩, rfl⟩, hlt⟩ := h
  simp only [Brick.mergeEqualContent, Brick.lang, Nat.add_zero, Nat.zero_mod, Nat.mod_eq_of_lt hlt]
  constructor
  · rintro ⟨u, v, rfl, ⟨k1, _, hk1, hr1⟩, ⟨k2, _, hk2, hr2⟩⟩
    exact ⟨k1 + k2, Nat.zero_le _, by omega, hr1.append hr2⟩
  · rintro ⟨k, _, hk, hr⟩
    rcases Nat.le_total k M1 with h | h
    · exact ⟨s, [], by simp, ⟨k, Nat.zero_le _, h, hr⟩, ⟨0, Nat.le_refl _, Nat.zero_le _, .zero⟩⟩
    · have : k = M1 + (k - M1) := by omega
      rw [this] at hr
      obtain ⟨u, v, rfl, hu, hv⟩ := hr.split
      exact ⟨u, v, rfl, ⟨M1, Nat.zero_le _, Nat.le_refl _, hu⟩, ⟨k - M1, Nat.zero_le _, by omega, hv⟩⟩


/-! ### languages of brick lists -/

theorem langList_cons_congr {x y : BrickDomain} {xs ys : List BrickDomain}
    (hx : ∀ s, x.lang s ↔ y.lang s) (hxs : ∀ s, langList xs s ↔ langList ys s) (s : Str) :
    langList (x :: xs) s ↔ langList (y :: ys) s := by
  simp only [langList]
  constructor
  · rintro ⟨u, v, rfl, hu, hv⟩; exact ⟨u, v, rfl, (hx u).mp hu, (hxs v).mp hv⟩
  · rintro ⟨u, v, rfl, hu, hv⟩; exact ⟨u, v, rfl, (hx u).mpr hu, (hxs v).mpr hv⟩

theorem langList_tail_congr (x : BrickDomain) {xs ys : List BrickDomain}
    (hxs : ∀ s, langList xs s ↔ langList ys s) (s : Str) :
    langList (x :: xs) s ↔ langList (x :: ys) s :=
  langList_cons_congr (fun _ => Iff.rfl) hxs s

theorem langList_append (l m : List BrickDomain) (s : Str) :
    langList (l ++ m) s ↔ ∃ u v, s = u ++ v ∧ langList l u ∧ langList m v := by
  induction l generalizing s with
  | nil =>
    simp only [List.nil_append, langList]
    constructor
    · intro h; exact ⟨[], s, rfl, rfl, h⟩
    · rintro ⟨u, v, rfl, rfl, h⟩; exact h
  | cons x xs ih =>
    simp only [List.cons_append, langList]
    constructor
    · rintro ⟨u, v, rfl, hu, hv⟩
      obtain ⟨v1, v2, rfl, h1, h2⟩ := (ih v).mp hv
      exact ⟨u ++ v1, v2, by simp, ⟨u, v1, rfl, hu, h1⟩, h2⟩
    · rintro ⟨u, v, rfl, ⟨u1, u2, rfl, h1, h2⟩, hv⟩
      exact ⟨u1, u2 ++ v, by simp, h1, (ih _).mpr ⟨u2, v, rfl, h2, hv⟩⟩

/-- an empty-string brick can be dropped -/
theorem langList_drop_empty {x : BrickDomain} (hx : ∀ s, x.lang s ↔ s = []) (rest : List BrickDomain)
    (s : Str) : langList (x :: rest) s ↔ langList rest s := by
  simp only [langList]
  constructor
  · rintro ⟨u, v, rfl, hu, hv⟩; rw [(hx u).mp hu]; simpa using hv
  · intro h; exact ⟨[], s, rfl, (hx []).mpr rfl, h⟩

/-- two successive bricks can be replaced by one with the language of their concatenation -/
theorem langList_pair {x y z : BrickDomain}
    (h : ∀ s, (∃ u v, s = u ++ v ∧ x.lang u ∧ y.lang v) ↔ z.lang s) (rest : List BrickDomain) (s : Str) :
    langList (x :: y :: rest) s ↔ langList (z :: rest) s := by
  simp only [langList]
  constructor
  · rintro ⟨u, w, rfl, hu, v, r, rfl, hv, hr⟩
    exact ⟨u ++ v, r, by simp, (h _).mp ⟨u, v, rfl, hu, hv⟩, hr⟩
  · rintro ⟨uv, r, rfl, huv, hr⟩
    obtain ⟨u, v, rfl, hu, hv⟩ := (h _).mpr huv
    exact ⟨u, v ++ r, by simp, hu, v, r, rfl, hv, hr⟩

/-- **C06-normalize-step.** One pass of the rewrite loop of `normalize` (whichever of the five rules
fires, at whichever position) does not change the represented set of strings. -/
theorem normStep_lang {l l' : List BrickDomain} (h : normStep l = some l') (s : Str) :
    langList l' s ↔ langList l s := by
  induction l generalizing l' s with
  | nil => simp [normStep] at h
  | cons x rest ih =>
    cases x with
    | top =>
      simp only [normStep, Option.map_eq_some_iff] at h
      obtain ⟨r, hr, rfl⟩ := h
      exact langList_tail_congr _ (fun s => ih hr s) s
    | val b =>
      have fall : ∀ {l'}, (normStep rest).map (fun r => BrickDomain.val b :: r) = some l' →
          (langList l' s ↔ langList (.val b :: rest) s) := by
        intro l' h
        simp only [Option.map_eq_some_iff] at h
        obtain ⟨r, hr, rfl⟩ := h
        exact langList_tail_congr _ (fun s => ih hr s) s
      unfold normStep at h
      split at h
      · -- step 1
        rename_i he
        cases h
        exact (langList_drop_empty (x := .val b) (lang_of_isEmptyString he) rest s).symm
      · split at h
        · -- step 3
          rename_i h3
          cases h
          exact langList_cons_congr (x := .val _) (y := .val b) (rule3_lang b h3.1 h3.2) (fun _ => Iff.rfl) s
        · split at h
          · -- step 5
            rename_i h5
            cases h
            exact langList_pair (x := .val _) (y := .val _) (z := .val b) (rule5_lang b h5.1 h5.2) rest s
          · split at h
            · rename_i n rest'
              split at h
              · -- step 2
                rename_i h2
                cases h
                exact (langList_pair (x := .val b) (y := .val n) (z := .val _)
                  (rule2_lang b n ⟨h2.1, h2.2.1⟩ ⟨h2.2.2.1, h2.2.2.2⟩) rest' s).symm
              · split at h
                · -- step 4
                  rename_i h4
                  cases h
                  exact (langList_pair (x := .val b) (y := .val n) (z := .val _)
                    (rule4_lang b n h4) rest' s).symm
                · exact fall h
            · exact fall h

/-- **C06-normalize (list level).** Whatever the step budget, if the loop of `normalize` returns a
list, it represents the same set of strings as the input. -/
theorem normalizeFuel_lang {f : Nat} {l l' : List BrickDomain} (h : normalizeFuel f l = some l')
    (s : Str) : langList l' s ↔ langList l s := by
  induction f generalizing l with
  | zero => simp [normalizeFuel] at h
  | succ f ih =>
    simp only [normalizeFuel] at h
    split at h
    · cases h; exact Iff.rfl
    · rename_i l1 h1
      split at h
      · cases h; exact Iff.rfl
      · exact (ih h).trans (normStep_lang h1 s)

/-- **C06-normalize.** Normalizing a value does not change the set of strings it represents. -/
theorem normalize_lang {b b' : BricksDomain} (h : b.normalize = .ok b') (s : Str) :
    b'.lang s ↔ b.lang s := by
  cases b with
  | top => simp [BricksDomain.normalize] at h
  | val l =>
    simp only [BricksDomain.normalize] at h
    split at h
    · rename_i r hr
      cases h
      exact normalizeFuel_lang hr s
    · cases h


/-! ### termination of the `while` loop of `normalize` (after the repair of step 4) -/

theorem mu_cons (x : BrickDomain) (l : List BrickDomain) :
    mu (x :: l) = mu l + 1 + (if x.reducible then 2 else 0) := by
  cases hx : x.reducible <;> simp [mu, hx] <;> omega

/-- every rewrite strictly decreases the measure `mu` -/
theorem normStep_mu {l l' : List BrickDomain} (h : normStep l = some l') : mu l' < mu l := by
  induction l generalizing l' with
  | nil => simp [normStep] at h
  | cons x rest ih =>
    cases x with
    | top =>
      simp only [normStep, Option.map_eq_some_iff] at h
      obtain ⟨r, hr, rfl⟩ := h
      have := ih hr
      simp only [mu_cons]; omega
    | val b =>
      have fall : ∀ {l'}, (normStep rest).map (fun r => BrickDomain.val b :: r) = some l' →
          mu l' < mu (.val b :: rest) := by
        intro l' h
        simp only [Option.map_eq_some_iff] at h
        obtain ⟨r, hr, rfl⟩ := h
        have := ih hr
        simp only [mu_cons]; omega
      unfold normStep at h
      split at h
      · cases h; simp only [mu_cons]; omega
      · split at h
        · rename_i h3
          cases h
          have hb : (BrickDomain.val b).reducible = true := by
            simp only [BrickDomain.reducible, Brick.reducible, Bool.or_eq_true, Bool.and_eq_true,
              decide_eq_true_eq]
            exact Or.inl h3
          have hn : (BrickDomain.val (b.transformMinMaxEqual b.min)).reducible = false := by
            simp [BrickDomain.reducible, Brick.reducible, Brick.transformMinMaxEqual]
          simp only [mu_cons, hb, hn]; simp
        · split at h
          · rename_i h5
            cases h
            have hb : (BrickDomain.val b).reducible = true := by
              simp only [BrickDomain.reducible, Brick.reducible, Bool.or_eq_true, Bool.and_eq_true,
                decide_eq_true_eq]
              exact Or.inr h5
            have h1 : (BrickDomain.val b.breakSimpler.1).reducible = false := by
              simp [BrickDomain.reducible, Brick.reducible, Brick.breakSimpler, Brick.transformMinMaxEqual]
            have h2 : (BrickDomain.val b.breakSimpler.2).reducible = false := by
              simp [BrickDomain.reducible, Brick.reducible, Brick.breakSimpler]
            simp only [mu_cons, hb, h1, h2]; simp
          · split at h
            · rename_i n rest'
              split at h
              · rename_i h2
                cases h
                have hm : (BrickDomain.val (b.mergeBoundOne n)).reducible = false := by
                  simp [BrickDomain.reducible, Brick.reducible, Brick.mergeBoundOne]
                have hb : (BrickDomain.val b).reducible = false := by
                  simp [BrickDomain.reducible, Brick.reducible, h2.1, h2.2.1]
                have hn : (BrickDomain.val n).reducible = false := by
                  simp [BrickDomain.reducible, Brick.reducible, h2.2.2.1, h2.2.2.2]
                simp only [mu_cons, hm, hb, hn]; simp
              · split at h
                · rename_i h4
                  cases h
                  simp only [step4Cond, Bool.and_eq_true, decide_eq_true_eq] at h4
                  have hm : (BrickDomain.val (b.mergeEqualContent n)).reducible = false := by
                    simp [BrickDomain.reducible, Brick.reducible, Brick.mergeEqualContent, h4.1.1.2, h4.1.2]
                  have hb : (BrickDomain.val b).reducible = false := by
                    simp [BrickDomain.reducible, Brick.reducible, h4.1.1.2]
                  have hn : (BrickDomain.val n).reducible = false := by
                    simp [BrickDomain.reducible, Brick.reducible, h4.1.2]
                  simp only [mu_cons, hm, hb, hn]; simp
                · exact fall h
            · exact fall h

theorem normalizeFuel_isSome {f : Nat} {l : List BrickDomain} (h : mu l < f) :
    ∃ l', normalizeFuel f l = some l' := by
  induction f generalizing l with
  | zero => omega
  | succ f ih =>
    simp only [normalizeFuel]
    split
    · exact ⟨_, rfl⟩
    · rename_i l1 h1
      split
      · exact ⟨_, rfl⟩
      · have := normStep_mu h1
        exact ih (by omega)

/-- **C06-normalize-terminates.** The loop of the (repaired) `normalize` reaches its fixpoint within
`mu l + 1` passes, for every list of bricks. -/
theorem normalizeList_terminates (l : List BrickDomain) : ∃ l', normalizeList l = some l' :=
  normalizeFuel_isSome (Nat.lt_succ_self _)

/-- **C06-normalize-total.** `normalize` of a non-`Top` value returns a value with the same strings. -/
theorem normalize_total (l : List BrickDomain) :
    ∃ l', (BricksDomain.val l).normalize = .ok (.val l') ∧ ∀ s, langList l' s ↔ langList l s := by
  obtain ⟨l', h⟩ := normalizeList_terminates l
  exact ⟨l', by simp [BricksDomain.normalize, h], fun s => normalizeFuel_lang h s⟩


/-! ### the `u32` invariant is preserved -/

def WFList (l : List BrickDomain) : Prop := ∀ x ∈ l, BrickDomain.WF x

theorem wfList_cons {x : BrickDomain} {l : List BrickDomain} : WFList (x :: l) ↔ x.WF ∧ WFList l := by
  simp [WFList]

theorem mod_wrap_le (n : Nat) : n % wrap ≤ u32Max := by
  have : n % wrap < wrap := Nat.mod_lt _ (by decide)
  simp only [wrap, u32Max] at *; omega

theorem normStep_wf {l l' : List BrickDomain} (h : normStep l = some l') (hw : WFList l) : WFList l' := by
  induction l generalizing l' with
  | nil => simp [normStep] at h
  | cons x rest ih =>
    rw [wfList_cons] at hw
    cases x with
    | top =>
      simp only [normStep, Option.map_eq_some_iff] at h
      obtain ⟨r, hr, rfl⟩ := h
      exact wfList_cons.mpr ⟨trivial, ih hr hw.2⟩
    | val b =>
      have fall : ∀ {l'}, (normStep rest).map (fun r => BrickDomain.val b :: r) = some l' → WFList l' := by
        intro l' h
        simp only [Option.map_eq_some_iff] at h
        obtain ⟨r, hr, rfl⟩ := h
        exact wfList_cons.mpr ⟨hw.1, ih hr hw.2⟩
      have one : ∀ S : List Str, BrickDomain.WF (.val ⟨S, 1, 1⟩) := by
        intro S; simp [BrickDomain.WF, Brick.WF, u32Max]
      have hb : b.min ≤ u32Max ∧ b.max ≤ u32Max := hw.1
      unfold normStep at h
      split at h
      · cases h; exact hw.2
      · split at h
        · cases h; exact wfList_cons.mpr ⟨one _, hw.2⟩
        · split at h
          · cases h
            refine wfList_cons.mpr ⟨one _, wfList_cons.mpr ⟨?_, hw.2⟩⟩
            simp only [BrickDomain.WF, Brick.WF, Brick.breakSimpler]; omega
          · split at h
            · rename_i n rest'
              rw [wfList_cons] at hw
              split at h
              · cases h; exact wfList_cons.mpr ⟨one _, hw.2.2⟩
              · split at h
                · cases h
                  refine wfList_cons.mpr ⟨?_, hw.2.2⟩
                  exact ⟨mod_wrap_le _, mod_wrap_le _⟩
                · exact fall h
            · exact fall h

theorem normalizeFuel_wf {f : Nat} {l l' : List BrickDomain} (h : normalizeFuel f l = some l')
    (hw : WFList l) : WFList l' := by
  induction f generalizing l with
  | zero => simp [normalizeFuel] at h
  | succ f ih =>
    simp only [normalizeFuel] at h
    split at h
    · cases h; exact hw
    · rename_i l1 h1
      split at h
      · cases h; exact hw
      · exact ih h (normStep_wf h1 hw)

/-! ### `pad_list` -/

theorem padGo_spec (d : Nat) (short long : List BrickDomain) (added : Nat)
    (hlen : short.length + (d - added) = long.length) :
    ∃ l, padGo d short long added = some l ∧ l.length = long.length ∧
      (∀ s, langList l s ↔ langList short s) ∧ (∀ x ∈ l, x = emptyBD ∨ x ∈ short) := by
  induction long generalizing short added with
  | nil =>
    have : short = [] := by
      cases short with
      | nil => rfl
      | cons _ _ => simp at hlen
    subst this
    exact ⟨[], by simp [padGo], rfl, fun _ => Iff.rfl, by simp⟩
  | cons li long ih =>
    unfold padGo
    split
    · rename_i hge
      cases short with
      | nil => simp at hlen; omega
      | cons s0 sr =>
        obtain ⟨l, hl, hlen', hlang, hmem⟩ := ih sr added (by simp at hlen; omega)
        refine ⟨s0 :: l, by simp [hl], by simp [hlen'], langList_tail_congr _ hlang, ?_⟩
        intro x hx
        rcases List.mem_cons.mp hx with rfl | hx
        · exact Or.inr List.mem_cons_self
        · rcases hmem x hx with h | h
          · exact Or.inl h
          · exact Or.inr (List.mem_cons_of_mem _ h)
    · rename_i hlt
      have padE : ∀ sh : List BrickDomain, sh.length + (d - added) = (li :: long).length →
          ∃ l, (padGo d sh long (added + 1)).map (fun r => emptyBD :: r) = some l ∧
            l.length = (li :: long).length ∧ (∀ s, langList l s ↔ langList sh s) ∧
            (∀ x ∈ l, x = emptyBD ∨ x ∈ sh) := by
        intro sh hsh
        obtain ⟨l, hl, hlen', hlang, hmem⟩ := ih sh (added + 1) (by simp at hsh; omega)
        refine ⟨emptyBD :: l, by simp [hl], by simp [hlen'], ?_, ?_⟩
        · intro s
          exact (langList_drop_empty emptyBD_lang l s).trans (hlang s)
        · intro x hx
          rcases List.mem_cons.mp hx with rfl | hx
          · exact Or.inl rfl
          · exact hmem x hx
      cases short with
      | nil => exact padE [] hlen
      | cons s0 sr =>
        simp only
        split
        · exact padE (s0 :: sr) hlen
        · obtain ⟨l, hl, hlen', hlang, hmem⟩ := ih sr added (by simp at hlen; omega)
          refine ⟨s0 :: l, by simp [hl], by simp [hlen'], langList_tail_congr _ hlang, ?_⟩
          intro x hx
          rcases List.mem_cons.mp hx with rfl | hx
          · exact Or.inr List.mem_cons_self
          · rcases hmem x hx with h | h
            · exact Or.inl h
            · exact Or.inr (List.mem_cons_of_mem _ h)

/-- `pad_list` never panics when the first list is not longer than the second; the padded list has
the length of the longer list, represents the strings of the shorter one, and only adds
empty-string bricks. -/
theorem padList_spec (short long : List BrickDomain) (h : short.length ≤ long.length) :
    ∃ l, padList short long = some l ∧ l.length = long.length ∧
      (∀ s, langList l s ↔ langList short s) ∧ (∀ x ∈ l, x = emptyBD ∨ x ∈ short) :=
  padGo_spec _ short long 0 (by omega)


/-! ### widening and merge -/

/-- `BrickDomain::widen` of two values represents every string of the first operand -/
theorem Brick.widen_sound_left (a b : Brick) (ha : a.WF) {s : Str} (h : a.lang s) :
    (a.widen b).lang s := by
  obtain ⟨k, hk1, hk2, hr⟩ := h
  have hr' : Reps (canon (a.seq ++ b.seq)) k s :=
    hr.mono (fun t ht => (mem_canon _ _).mpr (List.mem_append_left _ ht))
  simp only [Brick.widen]
  split
  · trivial
  · split
    · exact ⟨k, Nat.zero_le _, Nat.le_trans hk2 ha.2, hr'⟩
    · exact ⟨k, Nat.le_trans (Nat.min_le_left _ _) hk1, Nat.le_trans hk2 (Nat.le_max_left _ _), hr'⟩

theorem Brick.widen_sound_right (a b : Brick) (hb : b.WF) {s : Str} (h : b.lang s) :
    (a.widen b).lang s := by
  obtain ⟨k, hk1, hk2, hr⟩ := h
  have hr' : Reps (canon (a.seq ++ b.seq)) k s :=
    hr.mono (fun t ht => (mem_canon _ _).mpr (List.mem_append_right _ ht))
  simp only [Brick.widen]
  split
  · trivial
  · split
    · exact ⟨k, Nat.zero_le _, Nat.le_trans hk2 hb.2, hr'⟩
    · exact ⟨k, Nat.le_trans (Nat.min_le_right _ _) hk1, Nat.le_trans hk2 (Nat.le_max_right _ _), hr'⟩

theorem Brick.widen_wf (a b : Brick) (ha : a.WF) (hb : b.WF) : (a.widen b).WF := by
  simp only [Brick.widen]
  split
  · trivial
  · split
    · exact ⟨Nat.zero_le _, Nat.le_refl _⟩
    · exact ⟨Nat.le_trans (Nat.min_le_left _ _) ha.1, Nat.max_le.mpr ⟨ha.2, hb.2⟩⟩

/-- **C06-brick-merge.** Merging two single bricks represents every string of either brick. -/
theorem BrickDomain.merge_sound (x y : BrickDomain) (hx : x.WF) (hy : y.WF) {s : Str}
    (h : x.lang s ∨ y.lang s) : (x.merge y).lang s := by
  cases x <;> cases y <;> simp only [BrickDomain.merge, BrickDomain.lang] <;> try trivial
  rcases h with h | h
  · exact Brick.widen_sound_left _ _ hx h
  · exact Brick.widen_sound_right _ _ hy h

theorem BrickDomain.merge_wf (x y : BrickDomain) (hx : x.WF) (hy : y.WF) : (x.merge y).WF := by
  cases x <;> cases y <;> simp only [BrickDomain.merge] <;> try trivial
  exact Brick.widen_wf _ _ hx hy

theorem zipWith_merge_sound (xs ys : List BrickDomain) (hlen : xs.length = ys.length)
    (hx : WFList xs) (hy : WFList ys) {s : Str} (h : langList xs s ∨ langList ys s) :
    langList (List.zipWith BrickDomain.merge xs ys) s := by
  induction xs generalizing ys s with
  | nil =>
    cases ys with
    | nil => simpa [langList] using h
    | cons _ _ => simp at hlen
  | cons x xs ih =>
    cases ys with
    | nil => simp at hlen
    | cons y ys =>
      rw [wfList_cons] at hx hy
      simp only [List.zipWith_cons_cons, langList]
      rcases h with ⟨u, v, rfl, hu, hv⟩ | ⟨u, v, rfl, hu, hv⟩
      · exact ⟨u, v, rfl, BrickDomain.merge_sound x y hx.1 hy.1 (Or.inl hu),
          ih ys (by simpa using hlen) hx.2 hy.2 (Or.inl hv)⟩
      · exact ⟨u, v, rfl, BrickDomain.merge_sound x y hx.1 hy.1 (Or.inr hu),
          ih ys (by simpa using hlen) hx.2 hy.2 (Or.inr hv)⟩

theorem zipWith_merge_wf (xs ys : List BrickDomain) (hx : WFList xs) (hy : WFList ys) :
    WFList (List.zipWith BrickDomain.merge xs ys) := by
  induction xs generalizing ys with
  | nil => simp [WFList]
  | cons x xs ih =>
    cases ys with
    | nil => simp [WFList]
    | cons y ys =>
      rw [wfList_cons] at hx hy
      simp only [List.zipWith_cons_cons]
      exact wfList_cons.mpr ⟨BrickDomain.merge_wf x y hx.1 hy.1, ih ys hx.2 hy.2⟩

theorem wfList_of_pad {l short : List BrickDomain} (hs : WFList short)
    (h : ∀ x ∈ l, x = emptyBD ∨ x ∈ short) : WFList l := by
  intro x hx
  rcases h x hx with rfl | h
  · exact ⟨Nat.zero_le _, Nat.zero_le _⟩
  · exact hs x h

/-- the two lists that `BricksDomain::widen` zips: same length, same strings, still `u32` -/
theorem widen_operands (a b : List BrickDomain) (ha : WFList a) (hb : WFList b) :
    ∃ na nb, (if a.length < b.length then padList a b else some a) = some na ∧
      (if a.length > b.length then padList b a else some b) = some nb ∧
      na.length = nb.length ∧ (∀ s, langList na s ↔ langList a s) ∧ (∀ s, langList nb s ↔ langList b s) ∧
      WFList na ∧ WFList nb := by
  rcases Nat.lt_trichotomy a.length b.length with h | h | h
  · obtain ⟨l, hl, hlen, hlang, hmem⟩ := padList_spec a b (by omega)
    refine ⟨l, b, by simp [h, hl], ?_, hlen, hlang, fun _ => Iff.rfl, wfList_of_pad ha hmem, hb⟩
    have : ¬ a.length > b.length := by omega
    simp [this]
  · refine ⟨a, b, ?_, ?_, h, fun _ => Iff.rfl, fun _ => Iff.rfl, ha, hb⟩ <;> simp [h]
  · obtain ⟨l, hl, hlen, hlang, hmem⟩ := padList_spec b a (by omega)
    refine ⟨a, l, ?_, by simp [h, hl], hlen.symm, fun _ => Iff.rfl, hlang, ha, wfList_of_pad hb hmem⟩
    have : ¬ a.length < b.length := by omega
    simp [this]

/-- `BricksDomain::widen` on two values never panics, and its result represents every string of
either operand and keeps the `u32` invariant -/
theorem widenList_spec (a b : List BrickDomain) (ha : WFList a) (hb : WFList b) :
    ∃ r, widenList a b = some r ∧ (∀ s, langList a s ∨ langList b s → r.lang s) ∧ r.WF := by
  obtain ⟨na, nb, h1, h2, hlen, hla, hlb, hwa, hwb⟩ := widen_operands a b ha hb
  simp only [widenList, h1, h2]
  split
  · exact ⟨_, rfl, fun _ _ => trivial, trivial⟩
  · split
    · exact ⟨_, rfl, fun _ _ => trivial, trivial⟩
    · refine ⟨_, rfl, fun s hs => ?_, zipWith_merge_wf na nb hwa hwb⟩
      exact zipWith_merge_sound na nb hlen hwa hwb (hs.imp (hla s).mpr (hlb s).mpr)

/-- **C06-widen.** `BricksDomain::widen` of two values over-approximates both. -/
theorem widen_sound (a b : BricksDomain) (ha : a.WF) (hb : b.WF) {r : BricksDomain}
    (h : a.widen b = .ok r) {s : Str} (hs : a.lang s ∨ b.lang s) : r.lang s := by
  cases a <;> cases b <;> simp only [BricksDomain.widen] at h <;> try cases h
  rename_i la lb
  obtain ⟨r', hr', hsound, _⟩ := widenList_spec la lb ha hb
  rw [hr'] at h
  cases h
  exact hsound s hs

/-- **C06-merge-total.** Merging never panics and never runs out of the step budget. -/
theorem merge_total (a b : BricksDomain) (ha : a.WF) (hb : b.WF) : ∃ r, a.merge b = .ok r := by
  cases a <;> cases b <;> simp only [BricksDomain.merge] <;> try exact ⟨_, rfl⟩
  rename_i la lb
  split
  · exact ⟨_, rfl⟩
  · obtain ⟨r', hr', _, _⟩ := widenList_spec la lb ha hb
    rw [hr']
    cases r' with
    | top => exact ⟨_, rfl⟩
    | val w =>
      obtain ⟨n, hn⟩ := normalizeList_terminates w
      simp only [hn]
      exact ⟨_, rfl⟩

/-- **C06-merge.** Merging two values represents every member of either input. -/
theorem merge_sound (a b : BricksDomain) (ha : a.WF) (hb : b.WF) {r : BricksDomain}
    (h : a.merge b = .ok r) {s : Str} (hs : a.lang s ∨ b.lang s) : r.lang s := by
  cases a <;> cases b <;> simp only [BricksDomain.merge] at h <;> try (cases h; trivial)
  rename_i la lb
  split at h
  · rename_i heq
    cases h
    subst heq
    exact hs.elim id id
  · obtain ⟨r', hr', hsound, _⟩ := widenList_spec la lb ha hb
    rw [hr'] at h
    cases r' with
    | top => cases h; trivial
    | val w =>
      simp only at h
      split at h
      · rename_i n hn
        cases h
        exact (normalizeFuel_lang hn s).mpr (hsound s hs)
      · cases h

/-- merging keeps the `u32` invariant -/
theorem merge_wf (a b : BricksDomain) (ha : a.WF) (hb : b.WF) {r : BricksDomain}
    (h : a.merge b = .ok r) : r.WF := by
  cases a <;> cases b <;> simp only [BricksDomain.merge] at h <;> try (cases h; trivial)
  rename_i la lb
  split at h
  · cases h; exact ha
  · obtain ⟨r', hr', _, hwf⟩ := widenList_spec la lb ha hb
    rw [hr'] at h
    cases r' with
    | top => cases h; trivial
    | val w =>
      simp only at h
      split at h
      · rename_i n hn
        cases h
        exact normalizeFuel_wf hn hwf
      · cases h

/-! ### append -/

/-- **C06-append.** Appending two values represents every concatenation of their members. -/
theorem append_sound (a b : BricksDomain) {s t : Str} (hs : a.lang s) (ht : b.lang t) :
    (a.append b).lang (s ++ t) := by
  cases a <;> cases b <;> simp only [BricksDomain.append, BricksDomain.lang] at *
  · exact ⟨s, t, rfl, trivial, ht⟩
  · rw [langList_append]
    exact ⟨s, t, rfl, hs, t, [], by simp, trivial, rfl⟩
  · rw [langList_append]
    exact ⟨s, t, rfl, hs, ht⟩

theorem append_wf (a b : BricksDomain) (ha : a.WF) (hb : b.WF) : (a.append b).WF := by
  cases a <;> cases b <;> simp only [BricksDomain.append, BricksDomain.WF] at * <;> try trivial
  · intro x hx
    rcases List.mem_cons.mp hx with rfl | hx
    · trivial
    · exact hb x hx
  · intro x hx
    rcases List.mem_append.mp hx with hx | hx
    · exact ha x hx
    · simp at hx; subst hx; trivial
  · intro x hx
    rcases List.mem_append.mp hx with hx | hx
    · exact ha x hx
    · exact hb x hx

/-- a string constant is represented exactly -/
theorem ofString_lang (c s : Str) : (BricksDomain.ofString c).lang s ↔ s = c := by
  simp only [BricksDomain.ofString, BrickDomain.new, BricksDomain.lang, langList, BrickDomain.lang]
  constructor
  · rintro ⟨u, v, rfl, hu, rfl⟩
    have := (lang_one_one [c] u).mp hu
    simpa using this
  · rintro rfl
    exact ⟨s, [], by simp, (lang_one_one [s] s).mpr (by simp), rfl⟩

/-! ### character inclusion domain -/

theorem CharSet.union_has (a b : CharSet) (c : Char) : (a.union b).has c ↔ a.has c ∨ b.has c := by
  cases a <;> cases b <;> simp [CharSet.union, CharSet.has, mem_canonC]

theorem CharSet.inter_has {a b r : CharSet} (h : a.inter b = some r) (c : Char) :
    r.has c ↔ a.has c ∧ b.has c := by
  cases a <;> cases b <;> simp only [CharSet.inter] at h <;> try cases h
  simp [CharSet.has, List.mem_filter]

/-- **C06-ci-merge.** Merging two character-inclusion values represents every member of either. -/
theorem ci_merge_sound (a b : CIDomain) {r : CIDomain} (h : a.merge b = .ok r) {s : Str}
    (hs : a.repr s ∨ b.repr s) : r.repr s := by
  cases a <;> cases b <;> simp only [CIDomain.merge] at h <;> try (cases h; trivial)
  rename_i c1 p1 c2 p2
  split at h
  · rename_i heq
    cases h
    obtain ⟨rfl, rfl⟩ := heq
    exact hs.elim id id
  · split at h
    · rename_i ci hci
      cases h
      simp only [CIDomain.repr] at *
      constructor
      · intro c hc
        have := (CharSet.inter_has hci c).mp hc
        rcases hs with hs | hs
        · exact hs.1 c this.1
        · exact hs.1 c this.2
      · intro c hc
        rw [CharSet.union_has]
        rcases hs with hs | hs
        · exact Or.inl (hs.2 c hc)
        · exact Or.inr (hs.2 c hc)
    · cases h

/-- the merge of two reachable values (the set of certain characters is never `Top`) does not panic -/
theorem ci_merge_total (c1 c2 : List Char) (p1 p2 : CharSet) :
    ∃ r, (CIDomain.val (.val c1) p1).merge (.val (.val c2) p2) = .ok r := by
  simp only [CIDomain.merge, CharSet.inter]
  split <;> exact ⟨_, rfl⟩

/-- **C06-ci-append.** Appending two character-inclusion values represents every concatenation. -/
theorem ci_append_sound (a b : CIDomain) {s t : Str} (hs : a.repr s) (ht : b.repr t) :
    (a.append b).repr (s ++ t) := by
  cases a <;> cases b <;> simp only [CIDomain.append, CIDomain.repr] at * <;> try trivial
  · exact ⟨fun c hc => List.mem_append_right _ (ht.1 c hc), fun _ _ => trivial⟩
  · exact ⟨fun c hc => List.mem_append_left _ (hs.1 c hc), fun _ _ => trivial⟩
  · constructor
    · intro c hc
      rw [CharSet.union_has] at hc
      rcases hc with hc | hc
      · exact List.mem_append_left _ (hs.1 c hc)
      · exact List.mem_append_right _ (ht.1 c hc)
    · intro c hc
      rw [CharSet.union_has]
      rcases List.mem_append.mp hc with hc | hc
      · exact Or.inl (hs.2 c hc)
      · exact Or.inr (ht.2 c hc)

/-- a string constant is represented by its character-inclusion abstraction -/
theorem ci_ofString_repr (c : Str) : (CIDomain.ofString c).repr c := by
  simp [CIDomain.ofString, CIDomain.repr, CharSet.has, mem_canonC]


/-! ### the executable specification decides the declarative one -/

theorem stripPrefix_eq_some {t s r : Str} : stripPrefix t s = some r ↔ s = t ++ r := by
  induction t generalizing s with
  | nil => simp [stripPrefix, eq_comm]
  | cons a t ih =>
    cases s with
    | nil => simp [stripPrefix]
    | cons b s =>
      simp only [stripPrefix]
      split
      · rename_i hab; subst hab; simp [ih]
      · rename_i hab
        simp only [List.cons_append, List.cons.injEq, reduceCtorEq, false_iff, not_and]
        intro h; exact absurd h.symm hab

theorem reps_succ_left {S : List Str} {k : Nat} {u : Str} :
    Reps S (k + 1) u ↔ ∃ t ∈ S, ∃ r, u = t ++ r ∧ Reps S k r := by
  rw [Nat.add_comm, reps_add]
  constructor
  · rintro ⟨t, r, rfl, ht, hr⟩; exact ⟨t, reps_one.mp ht, r, rfl, hr⟩
  · rintro ⟨t, ht, r, rfl, hr⟩; exact ⟨t, r, rfl, reps_one.mpr ht, hr⟩

theorem inPow_iff (S : List Str) (k : Nat) (s : Str) : inPow S k s = true ↔ Reps S k s := by
  induction k generalizing s with
  | zero => simp [inPow, reps_zero]
  | succ k ih =>
    rw [reps_succ_left]
    simp only [inPow, List.any_eq_true]
    constructor
    · rintro ⟨t, ht, h⟩
      split at h
      · rename_i r hr
        exact ⟨t, ht, r, stripPrefix_eq_some.mp hr, (ih r).mp h⟩
      · cases h
    · rintro ⟨t, ht, r, rfl, hr⟩
      refine ⟨t, ht, ?_⟩
      rw [stripPrefix_eq_some.mpr rfl]
      exact (ih r).mpr hr

theorem reps_nil_of_mem {S : List Str} (h : [] ∈ S) (j : Nat) : Reps S j [] := by
  induction j with
  | zero => exact .zero
  | succ j ih => simpa using Reps.succ ih h

/-- the empty pieces of a decomposition can be dropped -/
theorem Reps.shrink {S : List Str} {k : Nat} {s : Str} (h : Reps S k s) :
    ∃ k0, k0 ≤ s.length ∧ k0 ≤ k ∧ Reps S k0 s ∧ (k0 < k → [] ∈ S) := by
  induction h with
  | zero => exact ⟨0, Nat.le_refl _, Nat.le_refl _, .zero, fun h => absurd h (Nat.lt_irrefl _)⟩
  | @succ k s t _ ht ih =>
    obtain ⟨k0, h1, h2, h3, h4⟩ := ih
    cases t with
    | nil =>
      refine ⟨k0, by simpa using h1, by omega, by simpa using h3, fun _ => ht⟩
    | cons c t =>
      refine ⟨k0 + 1, by simp; omega, by omega, .succ h3 ht, fun h => h4 (by omega)⟩

theorem memBrick_iff (b : Brick) (s : Str) : memBrick b s = true ↔ b.lang s := by
  simp only [memBrick, List.any_eq_true, List.mem_range, Brick.lang]
  constructor
  · rintro ⟨i, hi, h⟩
    exact ⟨b.min + i, Nat.le_add_right _ _, by omega, (inPow_iff _ _ _).mp h⟩
  · rintro ⟨k, hk1, hk2, hr⟩
    obtain ⟨k0, h1, h2, h3, h4⟩ := hr.shrink
    by_cases hk : k0 = k
    · subst hk
      refine ⟨k0 - b.min, by omega, ?_⟩
      have : b.min + (k0 - b.min) = k0 := by omega
      rw [this]; exact (inPow_iff _ _ _).mpr hr
    · have hnil := h4 (by omega)
      rcases Nat.le_total b.min k0 with hle | hle
      · refine ⟨k0 - b.min, by omega, ?_⟩
        have : b.min + (k0 - b.min) = k0 := by omega
        rw [this]; exact (inPow_iff _ _ _).mpr h3
      · refine ⟨0, by omega, ?_⟩
        have hpad : Reps b.seq (k0 + (b.min - k0)) (s ++ []) := h3.append (reps_nil_of_mem hnil _)
        have : k0 + (b.min - k0) = b.min + 0 := by omega
        rw [this] at hpad
        exact (inPow_iff _ _ _).mpr (by simpa using hpad)

theorem memBD_iff (x : BrickDomain) (s : Str) : memBD x s = true ↔ x.lang s := by
  cases x with
  | top => simp [memBD, BrickDomain.lang]
  | val b => exact memBrick_iff b s

theorem mem_remsAfter (x : BrickDomain) (s r : Str) :
    r ∈ remsAfter x s ↔ ∃ u, s = u ++ r ∧ x.lang u := by
  simp only [remsAfter, List.mem_filterMap, List.mem_range]
  constructor
  · rintro ⟨i, _, h⟩
    split at h
    · rename_i hm
      cases h
      exact ⟨s.take i, (List.take_append_drop i s).symm, (memBD_iff _ _).mp hm⟩
    · cases h
  · rintro ⟨u, rfl, hu⟩
    refine ⟨u.length, by simp; omega, ?_⟩
    have : memBD x u = true := (memBD_iff _ _).mpr hu
    simp [this]

theorem memRems_iff (l : List BrickDomain) (rems : List Str) :
    memRems l rems = true ↔ ∃ r ∈ rems, langList l r := by
  induction l generalizing rems with
  | nil =>
    simp only [memRems, List.any_eq_true, langList]
    constructor
    · rintro ⟨r, hr, h⟩; exact ⟨r, hr, by simpa using h⟩
    · rintro ⟨r, hr, rfl⟩; exact ⟨[], hr, rfl⟩
  | cons x xs ih =>
    simp only [memRems, ih, mem_canon, List.mem_flatMap, mem_remsAfter, langList]
    constructor
    · rintro ⟨r', ⟨r, hr, u, rfl, hu⟩, h⟩; exact ⟨_, hr, u, r', rfl, hu, h⟩
    · rintro ⟨r, hr, u, v, rfl, hu, hv⟩; exact ⟨v, ⟨_, hr, u, rfl, hu⟩, hv⟩

theorem memList_iff (l : List BrickDomain) (s : Str) : memList l s = true ↔ langList l s := by
  simp [memList, memRems_iff]

/-- **C06-spec-exec.** The membership test the driver evaluates on implementation outputs decides
the declarative language. -/
theorem memBricks_iff (b : BricksDomain) (s : Str) : memBricks b s = true ↔ b.lang s := by
  cases b with
  | top => simp [memBricks, BricksDomain.lang]
  | val l => exact memList_iff l s


theorem memCI_iff (l : List Char) (P : CharSet) (s : Str) :
    memCI (.val (.val l) P) s = true ↔ (CIDomain.val (.val l) P).repr s := by
  cases P <;> simp [memCI, CIDomain.repr, CharSet.has, List.all_eq_true]

/-! ### non-vacuity and the two repaired defects on concrete values -/

section Examples
private def a : Str := ['a']
private def b : Str := ['b']

/-- the unit test `test_normalize` of the Rust code, on the model -/
example : normalizeList [.val ⟨[a], 1, 1⟩, .val ⟨[a, b], 2, 3⟩, .val ⟨[a, b], 0, 1⟩]
    = some [.val ⟨[a ++ a ++ a, a ++ a ++ b, a ++ b ++ a, a ++ b ++ b], 1, 1⟩, .val ⟨[a, b], 0, 2⟩] := by
  decide +kernel

/-- `"a" ⊔ "a"·"a"`: the value on which `normalize` used to loop forever (rule 4 merged
`[{a}]^{1,1}[{a}]^{0,1}` into `[{a}]^{1,2}`, which rule 5 breaks into the same two bricks) -/
example : (BricksDomain.ofString a).merge ((BricksDomain.ofString a).append (BricksDomain.ofString a))
    = .ok (.val [.val ⟨[a], 1, 1⟩, .val ⟨[a], 0, 1⟩]) := by decide +kernel

example : (Brick.mk [a] 1 1).mergeEqualContent ⟨[a], 0, 1⟩ = ⟨[a], 1, 2⟩ ∧
    (Brick.mk [a] 1 2).breakSimpler = (⟨[a], 1, 1⟩, ⟨[a], 0, 1⟩) := by decide

/-- D11: without the overflow guard rule 4 turns `[{b}]^{0,u32::MAX}[{b}]^{0,1}` into `[{b}]^{0,0}`,
which no longer contains "b" -/
example : ¬ ((Brick.mk [b] 0 u32Max).mergeEqualContent ⟨[b], 0, 1⟩).lang b := by
  rw [← memBrick_iff]; decide

example : step4Cond ⟨[b], 0, u32Max⟩ ⟨[b], 0, 1⟩ = false := by decide

/-- the hypotheses of `merge_sound` are satisfiable with a non-trivial result -/
example : ∃ r, (BricksDomain.val [.val ⟨[a], 1, 1⟩, .val ⟨[b], 1, 1⟩]).merge (.val [.val ⟨[a], 1, 1⟩]) = .ok r ∧
    r.lang (a ++ b) ∧ r.lang a ∧ ¬ r.lang b := by
  refine ⟨.val [.val ⟨[a], 1, 1⟩, .val ⟨[b], 0, 1⟩], by decide +kernel, ?_, ?_, ?_⟩ <;>
    rw [← memBricks_iff] <;> decide

example : (CIDomain.ofString (a ++ b)).merge (CIDomain.ofString a) = .ok (.val (.val a) (.val (a ++ b))) := by
  decide
end Examples

end CweModel.C06
