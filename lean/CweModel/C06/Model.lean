/-
C06 — model of the brick-sequence string domain
(`src/cwe_checker_lib/src/abstract_domain/bricks.rs`, `bricks/brick.rs`, `bricks/widening.rs`)
and of the character-inclusion domain (`abstract_domain/character_inclusion.rs`).

Every definition names the Rust function it mirrors. Conventions:
* `BTreeSet<String>` / `BTreeSet<char>` ↦ a list kept *canonical* (strictly increasing in the
  order of the Rust type) by `canonBy`; the theorems do not need canonicity, the correspondence
  run does (it compares the structure).
* `u32` bounds ↦ `Nat`; where the Rust code can wrap (`max_bound - min_bound` in
  `BrickDomain::widen`) the wrap is written out; `u32::MAX` is `u32Max`. Well-formedness `WF`
  (every bound `≤ u32Max`) is what the Rust type guarantees; it is preserved by every operation
  (`Props.lean`) and is only needed where widening replaces a bound by `u32::MAX`.
* a panic of the Rust code (`unwrap_value` on `Top`, indexing an empty `Vec`) ↦ `Res.panic`
  / `none`.
* The model is of the REPAIRED code (/repo commits 87b4132 and 3ba7dd6): step 4 of `normalize`
  merges two bricks with equal content only if both minima are 0 and the sum of the maxima
  fits into `u32`.
-/
import CweModel.Gen.C06Thresholds

namespace CweModel.C06
open CweModel.Gen.C06

/-- a Rust `String` as its list of `char`s -/
abbrev Str := List Char

/-- `u32::MAX` -/
def u32Max : Nat := 4294967295
/-- `2^32` -/
def wrap : Nat := 4294967296

theorem wrap_eq : wrap = 2 ^ boundBits ∧ u32Max + 1 = wrap := by decide

/-! ### ordered sets as canonical lists -/

/-- `Ord for char`: by code point -/
def charLt (a b : Char) : Bool := decide (a.toNat < b.toNat)

/-- `Ord for String`: lexicographic by bytes of the UTF-8 encoding, which is the lexicographic
order by code points -/
def strLt : Str → Str → Bool
  | [], [] => false
  | [], _ :: _ => true
  | _ :: _, [] => false
  | a :: as, b :: bs => if a.toNat < b.toNat then true else if a = b then strLt as bs else false

/-- `BTreeSet::insert` into a strictly increasing list -/
def insBy {α} [DecidableEq α] (lt : α → α → Bool) (x : α) : List α → List α
  | [] => [x]
  | y :: ys => if x = y then y :: ys else if lt x y then x :: y :: ys else y :: insBy lt x ys

/-- `iter.collect::<BTreeSet<_>>()` -/
def canonBy {α} [DecidableEq α] (lt : α → α → Bool) (l : List α) : List α := l.foldr (insBy lt) []

def canon (l : List Str) : List Str := canonBy strLt l
def canonC (l : List Char) : List Char := canonBy charLt l

/-- `BTreeSet::is_subset` -/
def subset {α} [DecidableEq α] (a b : List α) : Bool := a.all (fun x => decide (x ∈ b))

/-! ### `Brick` (bricks/brick.rs) -/

structure Brick where
  seq : List Str
  min : Nat
  max : Nat
deriving DecidableEq, Repr

/-- `Brick::new()` -/
def Brick.empty : Brick := ⟨[], 0, 0⟩

/-- `Brick::is_empty_string` -/
def Brick.isEmptyString (b : Brick) : Bool := b.seq.isEmpty && decide (b.min = 0) && decide (b.max = 0)

/-- `Brick::merge_bricks_with_bound_one`: cartesian product of the two sets, concatenated -/
def Brick.mergeBoundOne (a b : Brick) : Brick :=
  ⟨canon (a.seq.flatMap (fun s1 => b.seq.map (fun s2 => s1 ++ s2))), 1, 1⟩

/-- one round of `generate_permutations_of_fixed_length`: the `for s in sequence` loop -/
def newGen (S gen : List Str) : List Str :=
  S.flatMap (fun s => if gen.isEmpty then [s] else gen.map (fun g => g ++ s))

/-- `generate_permutations_of_fixed_length` with `r = max_length - current_length` recursive calls
still to come after this round -/
def genPermsAux (S : List Str) : Nat → List Str → List Str
  | 0, gen => newGen S gen
  | r + 1, gen => genPermsAux S r (newGen S gen)

/-- `Brick::generate_permutations_of_fixed_length(max_length, sequence, generated, current_length)`:
it performs a round, and recurses with `current_length + 1` while `current_length < max_length` -/
def genPerms (maxLength : Nat) (S gen : List Str) (currentLength : Nat) : List Str :=
  genPermsAux S (maxLength - currentLength) gen

/-- `Brick::transform_brick_with_min_max_equal(length)` -/
def Brick.transformMinMaxEqual (b : Brick) (length : Nat) : Brick :=
  ⟨canon (genPerms length b.seq [] 1), 1, 1⟩

/-- `Brick::merge_bricks_with_equal_content`; `u32` addition wraps in release builds -/
def Brick.mergeEqualContent (a b : Brick) : Brick :=
  ⟨a.seq, (a.min + b.min) % wrap, (a.max + b.max) % wrap⟩

/-- `Brick::break_single_brick_into_simpler_bricks` (only called with `max > min`) -/
def Brick.breakSimpler (b : Brick) : Brick × Brick :=
  (b.transformMinMaxEqual b.min, ⟨b.seq, 0, b.max - b.min⟩)

/-! ### `BrickDomain`, `BricksDomain` (bricks.rs) -/

inductive BrickDomain where
  | top
  | val (b : Brick)
deriving DecidableEq, Repr

inductive BricksDomain where
  | top
  | val (l : List BrickDomain)
deriving DecidableEq, Repr

/-- result of an operation that can panic; `fuel` only exists in the model (the `while` loop of
`normalize` is run with a step budget; `Props.normalizeList_terminates` shows it is never hit) -/
inductive Res (α : Type) where
  | ok (a : α)
  | panic
  | fuel
deriving DecidableEq, Repr

def BrickDomain.isTop : BrickDomain → Bool
  | .top => true
  | .val _ => false

/-- `BrickDomain::get_empty_brick_domain` -/
def emptyBD : BrickDomain := .val Brick.empty

/-- `BrickDomain::new(string)` -/
def BrickDomain.new (s : Str) : BrickDomain := .val ⟨[s], 1, 1⟩

/-- `BricksDomain::from(string)` -/
def BricksDomain.ofString (s : Str) : BricksDomain := .val [BrickDomain.new s]

/-- the condition of step 4 of `normalize` (after the two `fix:` commits) -/
def step4Cond (b n : Brick) : Bool :=
  decide (b.seq = n.seq) && decide (b.min = 0) && decide (n.min = 0) && decide (b.max + n.max < wrap)

/-- One pass of the `for (index, brick_domain) in lookup.iter().enumerate()` loop of
`BricksDomain::normalize`, as a function of the remaining suffix of `lookup`: the first brick (in
list order) to which a rule applies is rewritten (rule order 1, 3, 5, 2, 4 as in the code) and the
loop is left (`break`). `none`: the loop ran to its end without a rewrite. -/
def normStep : List BrickDomain → Option (List BrickDomain)
  | [] => none
  | .top :: rest => (normStep rest).map (fun r => .top :: r)          -- `continue`
  | .val b :: rest =>
    if b.isEmptyString then some rest                                  -- step 1
    else if b.min = b.max ∧ b.min > 1 then                             -- step 3
      some (.val (b.transformMinMaxEqual b.min) :: rest)
    else if b.min ≥ 1 ∧ b.max > b.min then                             -- step 5
      some (.val b.breakSimpler.1 :: .val b.breakSimpler.2 :: rest)
    else
      match rest with
      | .val n :: rest' =>
        if b.min = 1 ∧ b.max = 1 ∧ n.min = 1 ∧ n.max = 1 then           -- step 2
          some (.val (b.mergeBoundOne n) :: rest')
        else if step4Cond b n then                                     -- step 4
          some (.val (b.mergeEqualContent n) :: rest')
        else (normStep rest).map (fun r => .val b :: r)
      | _ => (normStep rest).map (fun r => .val b :: r)

/-- the `while !unchanged` loop of `normalize` with a step budget: each iteration starts with
`lookup == normalized`, performs one pass, and stops when the pass changed nothing. -/
def normalizeFuel : Nat → List BrickDomain → Option (List BrickDomain)
  | 0, _ => none
  | f + 1, l =>
    match normStep l with
    | none => some l
    | some l' => if l' = l then some l else normalizeFuel f l'

/-- a brick that steps 3 or 5 rewrite -/
def Brick.reducible (b : Brick) : Bool :=
  (decide (b.min = b.max) && decide (b.min > 1)) || (decide (b.min ≥ 1) && decide (b.max > b.min))

def BrickDomain.reducible : BrickDomain → Bool
  | .top => false
  | .val b => b.reducible

/-- termination measure of the `while` loop: every rewrite decreases it -/
def mu (l : List BrickDomain) : Nat := l.length + 2 * (l.filter BrickDomain.reducible).length

/-- the loop of `normalize` on the unwrapped list, with the budget that always suffices -/
def normalizeList (l : List BrickDomain) : Option (List BrickDomain) := normalizeFuel (mu l + 1) l

/-- `BricksDomain::normalize` (`unwrap_value` panics on `Top`) -/
def BricksDomain.normalize : BricksDomain → Res BricksDomain
  | .top => .panic
  | .val l =>
    match normalizeList l with
    | some r => .ok (.val r)
    | none => .fuel

/-! ### widening (bricks/widening.rs) -/

/-- `BrickDomain::widen` on two values -/
def Brick.widen (a b : Brick) : BrickDomain :=
  let merged := canon (a.seq ++ b.seq)
  if merged.length > sequenceThreshold then .top
  else
    let minB := Nat.min a.min b.min
    let maxB := Nat.max a.max b.max
    if (maxB + wrap - minB) % wrap > intervalThreshold then .val ⟨merged, 0, u32Max⟩
    else .val ⟨merged, minB, maxB⟩

/-- `BrickDomain::widen` (`unwrap_value` panics on `Top`) -/
def BrickDomain.widen : BrickDomain → BrickDomain → Res BrickDomain
  | .val a, .val b => .ok (a.widen b)
  | _, _ => .panic

/-- `<BrickDomain as AbstractDomain>::merge` -/
def BrickDomain.merge : BrickDomain → BrickDomain → BrickDomain
  | .val a, .val b => a.widen b
  | _, _ => .top

/-- `BrickDomain::is_less_or_equal` -/
def BrickDomain.le : BrickDomain → BrickDomain → Bool
  | .val a, .val b =>
    a.isEmptyString || b.isEmptyString ||
      (subset a.seq b.seq && decide (a.min ≥ b.min) && decide (a.max ≤ b.max))
  | .top, .val _ => false
  | _, .top => true

/-- `BricksDomain::is_less_or_equal` on the unwrapped lists: `zip` stops at the shorter list -/
def leList : List BrickDomain → List BrickDomain → Bool
  | x :: xs, y :: ys => x.le y && leList xs ys
  | _, _ => true

/-- the `for i in 0..long_list.len()` loop of `BricksDomain::pad_list`; `none` = `short_list[0]`
on an empty `Vec` -/
def padGo (lenDiff : Nat) : List BrickDomain → List BrickDomain → Nat → Option (List BrickDomain)
  | _, [], _ => some []
  | short, li :: long, added =>
    if added ≥ lenDiff then
      match short with
      | [] => none
      | s0 :: sr => (padGo lenDiff sr long added).map (fun r => s0 :: r)
    else
      match short with
      | [] => (padGo lenDiff [] long (added + 1)).map (fun r => emptyBD :: r)
      | s0 :: sr =>
        if s0 ≠ li then (padGo lenDiff (s0 :: sr) long (added + 1)).map (fun r => emptyBD :: r)
        else (padGo lenDiff sr long added).map (fun r => s0 :: r)

/-- `BricksDomain::pad_list` (private; only called with `short.len() < long.len()`) -/
def padList (short long : List BrickDomain) : Option (List BrickDomain) :=
  padGo (long.length - short.length) short long 0

/-- `BricksDomain::widen` on the unwrapped lists; `none` = panic inside `pad_list` -/
def widenList (a b : List BrickDomain) : Option BricksDomain :=
  let n1 := a.length
  let n2 := b.length
  let newSelf? := if n1 < n2 then padList a b else some a
  let newOther? := if n1 > n2 then padList b a else some b
  match newSelf?, newOther? with
  | some newSelf, some newOther =>
    if (!leList newSelf b && !leList newOther a) || decide (n1 > lengthThreshold)
        || decide (n2 > lengthThreshold) then some .top
    else
      let w := List.zipWith BrickDomain.merge newSelf newOther
      if w.all BrickDomain.isTop then some .top else some (.val w)
  | _, _ => none

/-- `BricksDomain::widen` -/
def BricksDomain.widen : BricksDomain → BricksDomain → Res BricksDomain
  | .val a, .val b =>
    match widenList a b with
    | some r => .ok r
    | none => .panic
  | _, _ => .panic

/-- `BricksDomain::is_less_or_equal` -/
def BricksDomain.le : BricksDomain → BricksDomain → Res Bool
  | .val a, .val b => .ok (leList a b)
  | _, _ => .panic

/-- `<BricksDomain as AbstractDomain>::merge` -/
def BricksDomain.merge : BricksDomain → BricksDomain → Res BricksDomain
  | .val a, .val b =>
    if a = b then .ok (.val a)
    else
      match widenList a b with
      | none => .panic
      | some .top => .ok .top
      | some (.val w) =>
        match normalizeList w with
        | some r => .ok (.val r)
        | none => .fuel
  | _, _ => .ok .top

/-- `<BricksDomain as DomainInsertion>::append_string_domain` -/
def BricksDomain.append : BricksDomain → BricksDomain → BricksDomain
  | .top, .top => .top
  | .top, .val l => .val (.top :: l)
  | .val l, .top => .val (l ++ [.top])
  | .val l, .val m => .val (l ++ m)

/-! ### character inclusion domain (character_inclusion.rs) -/

inductive CharSet where
  | top
  | val (s : List Char)
deriving DecidableEq, Repr

/-- `CharacterSet::union` -/
def CharSet.union : CharSet → CharSet → CharSet
  | .val a, .val b => .val (canonC (a ++ b))
  | _, _ => .top

/-- `CharacterSet::intersection`; panics if either set is `Top` -/
def CharSet.inter : CharSet → CharSet → Option CharSet
  | .val a, .val b => some (.val (a.filter (fun c => decide (c ∈ b))))
  | _, _ => none

inductive CIDomain where
  | top
  | val (certain possible : CharSet)
deriving DecidableEq, Repr

/-- `CharacterInclusionDomain::from(string)` -/
def CIDomain.ofString (s : Str) : CIDomain := .val (.val (canonC s)) (.val (canonC s))

/-- `<CharacterInclusionDomain as DomainInsertion>::append_string_domain` -/
def CIDomain.append : CIDomain → CIDomain → CIDomain
  | .val c1 p1, .val c2 p2 => .val (c1.union c2) (p1.union p2)
  | .val c1 _, .top => .val c1 .top
  | .top, .val c2 _ => .val c2 .top
  | .top, .top => .top

/-- `<CharacterInclusionDomain as AbstractDomain>::merge` -/
def CIDomain.merge : CIDomain → CIDomain → Res CIDomain
  | .val c1 p1, .val c2 p2 =>
    if c1 = c2 ∧ p1 = p2 then .ok (.val c1 p1)
    else
      match c1.inter c2 with
      | some c => .ok (.val c (p1.union p2))
      | none => .panic
  | _, _ => .ok .top

/-! ### Specification: the strings a value represents -/

/-- `Reps S k s`: `s` is a concatenation of `k` members of `S` -/
inductive Reps (S : List Str) : Nat → Str → Prop where
  | zero : Reps S 0 []
  | succ {k : Nat} {s t : Str} : Reps S k s → t ∈ S → Reps S (k + 1) (s ++ t)

/-- a brick `[S]^{min,max}` denotes the concatenations of `k` members of `S`, `min ≤ k ≤ max` -/
def Brick.lang (b : Brick) (s : Str) : Prop := ∃ k, b.min ≤ k ∧ k ≤ b.max ∧ Reps b.seq k s

/-- `Top` denotes every string -/
def BrickDomain.lang : BrickDomain → Str → Prop
  | .top, _ => True
  | .val b, s => b.lang s

/-- a list of bricks denotes the concatenations of one string of each brick -/
def langList : List BrickDomain → Str → Prop
  | [], s => s = []
  | x :: xs, s => ∃ u v, s = u ++ v ∧ x.lang u ∧ langList xs v

def BricksDomain.lang : BricksDomain → Str → Prop
  | .top, _ => True
  | .val l, s => langList l s

/-- what the Rust type `u32` guarantees -/
def Brick.WF (b : Brick) : Prop := b.min ≤ u32Max ∧ b.max ≤ u32Max

def BrickDomain.WF : BrickDomain → Prop
  | .top => True
  | .val b => b.WF

def BricksDomain.WF : BricksDomain → Prop
  | .top => True
  | .val l => ∀ x ∈ l, BrickDomain.WF x

def CharSet.has : CharSet → Char → Prop
  | .top, _ => True
  | .val l, c => c ∈ l

/-- `(C, P)` represents the strings that contain every character of `C` and only characters of `P` -/
def CIDomain.repr : CIDomain → Str → Prop
  | .top, _ => True
  | .val C P, s => (∀ c, C.has c → c ∈ s) ∧ (∀ c ∈ s, P.has c)

/-! ### executable form of the specification (used by the driver on implementation outputs) -/

/-- `stripPrefix t s = some r` iff `s = t ++ r` -/
def stripPrefix : Str → Str → Option Str
  | [], s => some s
  | _ :: _, [] => none
  | a :: t, b :: s => if a = b then stripPrefix t s else none

/-- is `s` a concatenation of `k` members of `S`? -/
def inPow (S : List Str) : Nat → Str → Bool
  | 0, s => s.isEmpty
  | k + 1, s => S.any (fun t => match stripPrefix t s with
                                | some r => inPow S k r
                                | none => false)

/-- membership in `[S]^{min,max}`: only repetition counts up to `max min |s|` have to be tried
(pieces are either empty — then the count can be padded — or consume a character) -/
def memBrick (b : Brick) (s : Str) : Bool :=
  let hi := min b.max (max b.min s.length)
  (List.range (hi + 1 - b.min)).any (fun i => inPow b.seq (b.min + i) s)

def memBD : BrickDomain → Str → Bool
  | .top, _ => true
  | .val b, s => memBrick b s

/-- the remainders `r` of the splits `s = u ++ r` with `u` in the language of `x` -/
def remsAfter (x : BrickDomain) (s : Str) : List Str :=
  (List.range (s.length + 1)).filterMap (fun i => if memBD x (s.take i) then some (s.drop i) else none)

/-- does some string of `rems` belong to the language of the list? (the set of remainders is kept
duplicate-free, so the work is polynomial in the length of the list) -/
def memRems : List BrickDomain → List Str → Bool
  | [], rems => rems.any List.isEmpty
  | x :: xs, rems => memRems xs (canon (rems.flatMap (remsAfter x)))

def memList (l : List BrickDomain) (s : Str) : Bool := memRems l [s]

def memBricks : BricksDomain → Str → Bool
  | .top, _ => true
  | .val l, s => memList l s

/-- executable `CIDomain.repr`; a `Top` set of certain characters is not satisfiable by the short
strings the driver enumerates -/
def memCI : CIDomain → Str → Bool
  | .top, _ => true
  | .val C P, s =>
    (match C with
     | .top => false
     | .val l => l.all (fun c => decide (c ∈ s))) &&
    (match P with
     | .top => true
     | .val l => s.all (fun c => decide (c ∈ l)))

/-- all strings over `alphabet` of length exactly `n` -/
def stringsOfLen (alphabet : List Char) : Nat → List Str
  | 0 => [[]]
  | n + 1 => (stringsOfLen alphabet n).flatMap (fun s => alphabet.map (fun c => c :: s))

/-- all strings over `alphabet` of length `≤ n` -/
def stringsUpTo (alphabet : List Char) (n : Nat) : List Str :=
  (List.range (n + 1)).flatMap (stringsOfLen alphabet)

end CweModel.C06
