/- C23 model driver: all runs of one input must have printed the same bytes; the single output must be
   the canonical arrangement (`sortW`) of its multiset of warnings. -/
import CweModel.Base.Proto
import CweModel.C21.Model
open Lean CweModel.Proto

namespace CweModel.C23
open CweModel.C21

def toStr (s : String) : Str := s.toUTF8.toList.map (·.toNat)

def strList (j : Json) : Except String (List String) := do
  mapM' (fun x => x.getStr?) (← j.getArr?).toList

def parseWarning (j : Json) : Except String Warning := do
  let other ← mapM' strList (← arrF j "other")
  return { name := toStr (← strF j "name"), version := toStr (← strF j "version"),
           addresses := (← strList (← field j "addresses")).map toStr,
           tids := (← strList (← field j "tids")).map toStr,
           symbols := (← strList (← field j "symbols")).map toStr,
           other := other.map (·.map toStr), description := toStr (← strF j "description") }

def parseOutput (stdout : String) : Option (List Warning) :=
  match Json.parse stdout with
  | .ok v => match v.getArr? with
    | .ok a => (mapM' parseWarning a.toList).toOption
    | .error _ => none
  | .error _ => none

/-- multiset equality of warning lists -/
def isPermW : List Warning → List Warning → Bool
  | [], ys => ys.isEmpty
  | x :: xs, ys => ys.contains x && isPermW xs (ys.erase x)

def handleE (line : String) : Except String String := do
  let j ← Json.parse line
  let mode ← strF j "mode"
  let runs ← natF j "runs"
  let ds ← arrF j "distinct"
  let outs ← mapM' (fun d => do return (← intF d "exit", ← strF d "stdout", ← natF d "n")) ds
  if mode == "ir" then
    -- digests of the normalised IR computed in fresh processes
    match outs with
    | [] => throw "no runs"
    | [(exit, _, _)] => return (if exit == 0 then "ok ir deterministic constrained" else "ok ir deterministic nonzero-exit modelonly")
    | _ => return s!"spec class=ir-differs expected=1-distinct-normalised-IR-in-{runs}-processes impl={outs.length}-distinct-digests:{outs.map (fun o => o.2.2)}"
  match outs with
  | [] => throw "no runs"
  | [(exit, stdout, _)] =>
    if exit != 0 then return s!"ok {mode} deterministic nonzero-exit modelonly"
    match parseOutput stdout with
    | none => return s!"ok {mode} deterministic unparsed modelonly"
    | some ws =>
      -- model: the output is `sortW` of its multiset (C21.isSorted_iff_fixed)
      if !(isSorted ws) then return s!"diff class=unsorted model=sorted impl=out-of-order"
      -- coverage tags: warnings that carry multi-element lists (hash-order bugs hide in those)
      let fromStr (s : Str) : String := String.fromUTF8! ⟨(s.map (fun b => UInt8.ofNat b)).toArray⟩
      let multi := ws.filter (fun w => w.addresses.length ≥ 2 || w.tids.length ≥ 2 || w.symbols.length ≥ 2 ||
        w.other.any (fun l => l.length ≥ 2))
      let names := (multi.map (fun w => fromStr w.name)).eraseDups
      let listTags := " ".intercalate (names.map (fun n => "list2+:" ++ n))
      -- CWE416/CWE415 context "Relevant callgraph TIDs: [root, call1, call2, …]" with at least two call TIDs
      let uafMulti := ws.any (fun w => w.other.any (fun l => l.any (fun e =>
        let t := fromStr e
        t.startsWith "Relevant callgraph TIDs:" && (t.splitOn ", ").length ≥ 3)))
      let uafTag := if uafMulti then " uaf-multi-call-tids" else ""
      return s!"ok {mode} deterministic {if ws.isEmpty then "w0" else "w1+"} constrained {listTags}{uafTag}"
  | (e0, o0, _) :: rest =>
    let cls :=
      if rest.any (fun r => r.1 != e0) then "exit-status-differs"
      else match parseOutput o0 with
        | none => "content-differs"
        | some w0 =>
          if rest.all (fun r => match parseOutput r.2.1 with
            | some w => isPermW w0 w
            | none => false) then "order-differs" else "content-differs"
    return s!"spec class={cls} expected=1-distinct-output-in-{runs}-runs impl={outs.length}-distinct-outputs:{outs.map (fun o => o.2.2)}"

end CweModel.C23

def main : IO Unit := CweModel.Proto.runDriver (CweModel.Proto.guarded CweModel.C23.handleE)
