/-
C23 model: the two places where arrival order / iteration order could reach the printed warnings.

(1) `main.rs`: the selected modules run in an arbitrary order (`HashSet` iteration for `--partial`),
    their warnings are concatenated and sorted with the derived order (model: `C21.output`).
(2) `utils/log.rs::LogThread::collect_and_deduplicate`: the PI-based checks send their warnings from
    the fixpoint computation to a collector thread which keeps, per first address, the LAST warning
    received (`BTreeMap<String, CweWarning>::insert`) and returns the values in key order.

Not modelled: `std::collections::HashMap/HashSet` iteration inside the IR passes (block duplication,
expression propagation) — whether it reaches the warnings is explored by repeated real runs.
-/
import CweModel.C21.Model

namespace CweModel.C23
open CweModel.C21

/-- a CWE message as the collector sees it: (first address, warning) -/
abbrev Msg := Str × Warning

/-- `BTreeMap<String, CweWarning>` as an association list sorted strictly by key;
`insertKV` mirrors `BTreeMap::insert` (replace on equal key) -/
def insertKV (k : Str) (v : Warning) : List Msg → List Msg
  | [] => [(k, v)]
  | (k', v') :: rest =>
    if k = k' then (k, v) :: rest
    else if strLe k k' then (k, v) :: (k', v') :: rest
    else (k', v') :: insertKV k v rest

/-- the receive loop of `collect_and_deduplicate` for CWE messages, in arrival order -/
def buildMap (msgs : List Msg) : List Msg := msgs.foldl (fun m kv => insertKV kv.1 kv.2 m) []

/-- `collected_cwes.into_values().collect()` -/
def collect (msgs : List Msg) : List Warning := (buildMap msgs).map (·.2)

/-- `BTreeMap::get` -/
def lookup (k : Str) : List Msg → Option Warning
  | [] => none
  | (k', v) :: rest => if k = k' then some v else lookup k rest

/-- the last message with first address `a` in the arrival sequence -/
def lastFor (a : Str) : List Msg → Option Warning
  | [] => none
  | (k, v) :: rest =>
    match lastFor a rest with
    | some w => some w
    | none => if a = k then some v else none

/-- `[address, ..] => collected_cwes.insert(address.clone(), cwe_warning)`; `[] => panic!` (none) -/
def keyed : List Warning → Option (List Msg)
  | [] => some []
  | w :: rest =>
    match w.addresses, keyed rest with
    | a :: _, some r => some ((a, w) :: r)
    | _, _ => none

end CweModel.C23
