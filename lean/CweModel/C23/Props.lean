/-
C23 — Analysis results do not depend on hashing or scheduling nondeterminism.

"Running the analyzer twice on the same input with the same configuration produces identical warning
output, regardless of per-process hash seeds, check ordering and thread scheduling of the log collector."

PROVED (for ALL warning lists / arrival sequences): the printed list is a function of the MULTISET of
produced warnings (any order of the checks, any order within a check gives the same output); the
collector's result depends on the arrival order only through the last message per first address, in
particular not at all when the messages have pairwise different first addresses.

NOT PROVABLE here: that the IR passes iterating `HashMap`/`HashSet` (block duplication, expression
propagation) produce the same multiset of warnings for every hash seed — a whole-program question.
It is EXPLORED by running the real binary repeatedly in fresh processes. Full statement kept visible:

  theorem analyzer_deterministic (p : PcodeProject) (elf : Elf) (cfg : Config) (sel : Selection)
      (seed₁ seed₂ : HashSeed) (sched₁ sched₂ : Schedule) :
      runCli p elf cfg sel seed₁ sched₁ = runCli p elf cfg sel seed₂ sched₂
-/
import CweModel.C23.Model
import CweModel.C21.Props

namespace CweModel.C23
open CweModel.C21

/-! ### (1) sorting makes the output a function of the multiset -/

/-- **C23-sort.** Sorting any rearrangement of the produced warnings gives the same list. -/
theorem sort_perm_invariant (ws ws' : List Warning) (h : ws'.Perm ws) : sortW ws' = sortW ws :=
  output_unique ws (sortW ws') (output_sorted ws') ((output_perm ws').trans h)

/-- **C23-check-order.** The printed output does not depend on the order in which the selected
checks run (the `HashSet` iteration order of `--partial`). -/
theorem output_check_order_invariant {M : Type} (run : M → List Warning) (sel sel' : List M)
    (h : sel'.Perm sel) : output run sel' = output run sel :=
  sort_perm_invariant _ _ (h.flatMap_right run)

/-- **C23-within-check.** … nor on the order in which each check emits its warnings. -/
theorem output_emit_order_invariant {M : Type} (run run' : M → List Warning) (sel : List M)
    (h : ∀ m, (run' m).Perm (run m)) : output run' sel = output run sel := by
  apply sort_perm_invariant
  induction sel with
  | nil => exact List.Perm.refl _
  | cons m ms ih => simpa [List.flatMap_cons] using (h m).append ih

/-! ### (2) the collector -/

theorem lookup_insertKV (a k : Str) (v : Warning) :
    ∀ m : List Msg, lookup a (insertKV k v m) = if a = k then some v else lookup a m
  | [] => by simp [insertKV, lookup]
  | (k', v') :: rest => by
    have ih := lookup_insertKV a k v rest
    unfold insertKV
    split
    · next h1 => subst h1; simp only [lookup]; split <;> rfl
    · next h1 =>
      split
      · simp only [lookup]
      · simp only [lookup, ih]
        by_cases h3 : a = k' <;> by_cases h4 : a = k <;> simp_all

theorem lookup_foldl (a : Str) : ∀ (msgs m0 : List Msg),
    lookup a (msgs.foldl (fun m kv => insertKV kv.1 kv.2 m) m0) =
      match lastFor a msgs with
      | some w => some w
      | none => lookup a m0
  | [], m0 => by simp [lastFor]
  | (k, v) :: rest, m0 => by
    simp only [List.foldl_cons, lookup_foldl a rest, lastFor]
    cases lastFor a rest with
    | some w => rfl
    | none =>
      simp only [lookup_insertKV]
      by_cases h : a = k <;> simp [h]

/-- the map returns for every address the last message received for it -/
theorem lookup_buildMap (a : Str) (msgs : List Msg) : lookup a (buildMap msgs) = lastFor a msgs := by
  unfold buildMap
  rw [lookup_foldl]
  cases lastFor a msgs <;> simp [lookup]

/-- strict key order -/
def keyLt (x y : Msg) : Prop := strLe x.1 y.1 = true ∧ x.1 ≠ y.1

def SortedMap (m : List Msg) : Prop := m.Pairwise keyLt

theorem keys_insertKV (k : Str) (v : Warning) : ∀ (m : List Msg) (x : Msg),
    x ∈ insertKV k v m → x.1 = k ∨ x ∈ m
  | [], x, h => by simp [insertKV] at h; exact Or.inl (by rw [h])
  | (k', v') :: rest, x, h => by
    unfold insertKV at h
    split at h
    · next h1 =>
      rcases List.mem_cons.mp h with rfl | h
      · exact Or.inl rfl
      · exact Or.inr (List.mem_cons_of_mem _ h)
    · split at h
      · rcases List.mem_cons.mp h with rfl | h
        · exact Or.inl rfl
        · exact Or.inr h
      · rcases List.mem_cons.mp h with rfl | h
        · exact Or.inr List.mem_cons_self
        · rcases keys_insertKV k v rest x h with h' | h'
          · exact Or.inl h'
          · exact Or.inr (List.mem_cons_of_mem _ h')

theorem sorted_insertKV (k : Str) (v : Warning) : ∀ m : List Msg, SortedMap m → SortedMap (insertKV k v m)
  | [], _ => by simp [insertKV, SortedMap]
  | (k', v') :: rest, hs => by
    have ⟨hhead, htail⟩ := List.pairwise_cons.mp hs
    unfold insertKV
    split
    · next h1 =>
      subst h1
      exact List.pairwise_cons.mpr ⟨fun y hy => hhead y hy, htail⟩
    · next h1 =>
      split
      · next h2 =>
        refine List.pairwise_cons.mpr ⟨?_, hs⟩
        intro y hy
        rcases List.mem_cons.mp hy with rfl | hy'
        · exact ⟨h2, h1⟩
        · have hlt := hhead y hy'
          refine ⟨strLe_linear.trans _ _ _ h2 hlt.1, ?_⟩
          intro heq
          have heq' : k = y.1 := heq
          -- k = y.1 and k' ≤ y.1 give k' ≤ k; with k ≤ k' this means k = k'
          have hk'k : strLe k' k = true := by rw [heq']; exact hlt.1
          exact h1 (strLe_linear.antisymm _ _ h2 hk'k)
      · next h2 =>
        refine List.pairwise_cons.mpr ⟨?_, sorted_insertKV k v rest htail⟩
        intro y hy
        rcases keys_insertKV k v rest y hy with hk | hy'
        · have htot := strLe_linear.total k k'
          have h2' : strLe k k' = false := by simpa using h2
          simp only [h2', Bool.false_or] at htot
          have hk' : y.1 = k := hk
          exact ⟨by show strLe k' y.1 = true; rw [hk']; exact htot,
                 by show k' ≠ y.1; rw [hk']; exact fun h => h1 h.symm⟩
        · exact hhead y hy'

theorem sorted_buildMap (msgs : List Msg) : SortedMap (buildMap msgs) := by
  unfold buildMap
  suffices h : ∀ m0 : List Msg, SortedMap m0 → SortedMap (msgs.foldl (fun m kv => insertKV kv.1 kv.2 m) m0) from
    h [] List.Pairwise.nil
  induction msgs with
  | nil => intro m0 h; exact h
  | cons x xs ih => intro m0 h; exact ih _ (sorted_insertKV x.1 x.2 m0 h)

theorem lookup_none_of_lt (k : Str) : ∀ m : List Msg, (∀ y ∈ m, k ≠ y.1) → lookup k m = none
  | [], _ => rfl
  | (k', v) :: rest, h => by
    have h1 : k ≠ k' := h (k', v) List.mem_cons_self
    simp only [lookup, h1, if_false]
    exact lookup_none_of_lt k rest (fun y hy => h y (List.mem_cons_of_mem _ hy))

theorem lookup_some_mem (k : Str) (w : Warning) : ∀ m : List Msg, lookup k m = some w → (k, w) ∈ m
  | [], h => by simp [lookup] at h
  | (k', v) :: rest, h => by
    simp only [lookup] at h
    by_cases h1 : k = k'
    · simp only [h1, if_true, Option.some.injEq] at h; subst h; subst h1; exact List.mem_cons_self
    · simp only [h1, if_false] at h; exact List.mem_cons_of_mem _ (lookup_some_mem k w rest h)

/-- two strictly sorted maps with the same `get` are equal -/
theorem sortedMap_ext : ∀ m1 m2 : List Msg, SortedMap m1 → SortedMap m2 →
    (∀ a, lookup a m1 = lookup a m2) → m1 = m2
  | [], [], _, _, _ => rfl
  | [], (k, v) :: _, _, _, h => by have := h k; simp [lookup] at this
  | (k, v) :: _, [], _, _, h => by have := h k; simp [lookup] at this
  | (k1, v1) :: r1, (k2, v2) :: r2, hs1, hs2, h => by
    have ⟨hh1, ht1⟩ := List.pairwise_cons.mp hs1
    have ⟨hh2, ht2⟩ := List.pairwise_cons.mp hs2
    -- k1 occurs in m2, k2 occurs in m1
    have hk : k1 = k2 := by
      have e1 : lookup k1 ((k2, v2) :: r2) = some v1 := by rw [← h k1]; simp [lookup]
      have e2 : lookup k2 ((k1, v1) :: r1) = some v2 := by rw [h k2]; simp [lookup]
      by_cases hne : k1 = k2
      · exact hne
      · exfalso
        have m1 : (k1, v1) ∈ r2 := by
          have := lookup_some_mem k1 v1 _ e1
          rcases List.mem_cons.mp this with heq | hm
          · exact absurd (congrArg Prod.fst heq) hne
          · exact hm
        have m2 : (k2, v2) ∈ r1 := by
          have := lookup_some_mem k2 v2 _ e2
          rcases List.mem_cons.mp this with heq | hm
          · exact absurd (congrArg Prod.fst heq).symm hne
          · exact hm
        have a := hh2 _ m1
        have b := hh1 _ m2
        exact hne (strLe_linear.antisymm _ _ b.1 a.1)
    subst hk
    have hv : v1 = v2 := by
      have := h k1; simpa [lookup] using this
    subst hv
    have hn1 : lookup k1 r1 = none := lookup_none_of_lt k1 r1 (fun y hy => (hh1 y hy).2)
    have hn2 : lookup k1 r2 = none := lookup_none_of_lt k1 r2 (fun y hy => (hh2 y hy).2)
    have : r1 = r2 := by
      apply sortedMap_ext r1 r2 ht1 ht2
      intro a
      by_cases ha : a = k1
      · rw [ha, hn1, hn2]
      · have := h a; simpa [lookup, ha] using this
    rw [this]

/-- **C23-collector.** The result of `collect_and_deduplicate` depends on the arrival sequence only
through the last message per first address: two arrival sequences (two thread schedules) that agree
on the last message for every address give the same collected warnings, in the same order. -/
theorem collect_last_only (msgs msgs' : List Msg) (h : ∀ a, lastFor a msgs = lastFor a msgs') :
    collect msgs = collect msgs' := by
  unfold collect
  rw [sortedMap_ext (buildMap msgs) (buildMap msgs') (sorted_buildMap _) (sorted_buildMap _)
    (fun a => by rw [lookup_buildMap, lookup_buildMap, h a])]

theorem lastFor_some_of_nodup : ∀ (msgs : List Msg), (msgs.map (·.1)).Nodup →
    ∀ a w, lastFor a msgs = some w ↔ (a, w) ∈ msgs
  | [], _, a, w => by simp [lastFor]
  | (k, v) :: rest, hn, a, w => by
    simp only [List.map_cons, List.nodup_cons, List.mem_map, not_exists, not_and] at hn
    have ih := lastFor_some_of_nodup rest hn.2 a
    simp only [lastFor, List.mem_cons, Prod.mk.injEq]
    cases hl : lastFor a rest with
    | some w' =>
      have hmem := (ih w').mp hl
      have hak : a ≠ k := fun e => hn.1 (a, w') hmem e
      simp only [Option.some.injEq]
      constructor
      · rintro rfl; exact Or.inr hmem
      · rintro (⟨e, _⟩ | hm)
        · exact absurd e hak
        · have := (ih w).mpr hm; rw [hl] at this; exact Option.some.inj this
    | none =>
      have hnot : ∀ w, (a, w) ∉ rest := fun w hm => by have := (ih w).mpr hm; rw [hl] at this; cases this
      by_cases hak : a = k
      · simp only [hak, if_true, Option.some.injEq, true_and]
        constructor
        · intro e; exact Or.inl e.symm
        · rintro (e | hm)
          · exact e.symm
          · exact absurd hm (hak ▸ hnot w)
      · simp only [hak, if_false, false_and, false_or]
        constructor
        · intro e; cases e
        · intro hm; exact absurd hm (hnot w)

/-- **C23-schedule.** If the messages carry pairwise different first addresses (each program point
reports at most once), EVERY interleaving of the sender threads — every permutation of the arrival
sequence — yields the same collected warnings. -/
theorem collect_perm_invariant (msgs msgs' : List Msg) (hn : (msgs.map (·.1)).Nodup) (hp : msgs'.Perm msgs) :
    collect msgs' = collect msgs := by
  apply collect_last_only
  have hn' : (msgs'.map (·.1)).Nodup := (hp.map _).nodup_iff.mpr hn
  intro a
  cases h1 : lastFor a msgs' with
  | some w =>
    have := (lastFor_some_of_nodup msgs' hn' a w).mp h1
    exact ((lastFor_some_of_nodup msgs hn a w).mpr (hp.mem_iff.mp this)).symm
  | none =>
    cases h2 : lastFor a msgs with
    | none => rfl
    | some w =>
      have := (lastFor_some_of_nodup msgs hn a w).mp h2
      have := (lastFor_some_of_nodup msgs' hn' a w).mpr (hp.mem_iff.mpr this)
      rw [h1] at this; cases this

/-- Even when an address receives several different messages (the schedule then decides which one
survives — the documented information loss of the collector), the output is still determined by
the survivors alone. -/
theorem collect_eq_of_same_survivors (msgs msgs' : List Msg)
    (h : ∀ a, lookup a (buildMap msgs) = lookup a (buildMap msgs')) : collect msgs = collect msgs' := by
  apply collect_last_only
  intro a; rw [← lookup_buildMap, ← lookup_buildMap]; exact h a

/-! ### non-vacuity -/

private def wa : Warning := ⟨[67], [48], [[49]], [], [], [], [97]⟩
private def wb : Warning := ⟨[67], [48], [[50]], [], [], [], [98]⟩
private def wa' : Warning := ⟨[67], [48], [[49]], [], [], [], [99]⟩

example : collect [([49], wa), ([50], wb)] = [wa, wb] ∧ collect [([50], wb), ([49], wa)] = [wa, wb] := by decide
-- same address, different messages: the last one wins (order matters here — outside the hypotheses)
example : collect [([49], wa), ([49], wa')] = [wa'] ∧ collect [([49], wa'), ([49], wa)] = [wa] := by decide
example : keyed [wa, wb] = some [([49], wa), ([50], wb)] := by decide

end CweModel.C23
