def hello := "world"
