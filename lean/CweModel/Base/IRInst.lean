/-
Lawfulness of the derived `BEq` instances of `CweModel.Base.IR` (IR.lean derives `BEq` and
`DecidableEq` independently, so `a ∈ l`, `l.contains a`, `a == b` on `Tid`s need `LawfulBEq`
to be decidable / to be rewritten to `=`). Core-only.
-/
import CweModel.Base.IR
namespace CweModel.IR

deriving instance ReflBEq, LawfulBEq for Tid

end CweModel.IR
