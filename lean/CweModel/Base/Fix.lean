/-
Base/Fix — worklist fixpoint solving over join-semilattices (shared library; core Lean only).

Mirrors the structure of `src/cwe_checker_lib/src/analysis/fixpoint.rs`:

* a fixpoint `Problem` is a list of edges `src → dst` with a transfer `V → Option V` (`none` = the edge
  blocks the flow, `Context::update_edge` returning `None`) and a `join` (`Context::merge`);
* a `State` is the map of node values (`node_values`, a node may have no value) plus the worklist;
* `mergeNodeValue`, `updateEdge`, `updateEdges` (= `update_node` for the out-edges of a node) are the
  functions of the same name of `Computation`;
* `Step` is one iteration of the `compute` loop where the node taken from the worklist is chosen by an
  ARBITRARY scheduler and the out-edges are processed in an ARBITRARY order — the real code (largest
  priority of a `BTreeSet`, petgraph edge order) is one admissible choice, so every theorem below
  holds for every priority order;
* `BStep` is one iteration of `compute_with_max_steps` (per-node `steps` counters, `non_stabilized`).

Contents
  §1 problems, order induced by `join`, `Closed`, `Assign.le`
  §2 the machine (`Step`, `Run`, `RunN`)
  §3 invariant ⇒ `closed_of_stabilized`
  §4 `below_of_closed` (every closed assignment above the start dominates all intermediate values),
     `grows`, `run_least`, `run_unique`, `run_least_of_between` (resuming from an intermediate state)
  §5 termination: measure, `runN_bound` (at most `n·(2H+3)` steps), `exists_stabilized_run`,
     `least_solution_exists`
  §6 bounded variant (`BStep`): `BRun.steps_le` (counters ≤ bound), `bounded_closed_of_stabilized`,
     `bounded_between`, `bounded_least_of_stabilized`, `BRun.finish_inv`, `BStep.measure_lt`
  §7 abstract-interpretation meta-theorem `sound_of_closed` (used by C10/C13/C14/C15)
  §8 finite height: ascending chains of bounded length give a rank function (`ranked_of_chains`)

How to use from another property:  `import CweModel.Base.Fix`, build a `Problem V` from your edge
transfers, show `IsSemilattice P.join` and `Monotone P` for the solver theorems; for soundness of
an analysis result only `sound_of_closed` is needed (it asks for no lattice laws at all: only that
`join` over-approximates in the concretisation and that the assignment is `Closed`);
`solver_sound` combines it with `closed_of_stabilized`. Nodes are `Nat`s, a graph with `n` nodes is
`WellFormed P n`. `CweModel.C07.Props` contains worked instantiations (reachability over `Bool`,
bit-set gen/kill systems, a counter analysis for `sound_of_closed`).
Not included: `MOP = MFP` for distributive systems (planned in DESIGN.md, no property needs it).
-/
namespace CweModel.Fix

/-! ## §1 Problems -/

/-- an edge of the graph with its transfer function; `f a = none` means "no information flows". -/
structure Edge (V : Type) where
  src : Nat
  dst : Nat
  f   : V → Option V

/-- a fixpoint problem: the edges (multi-edges and self-loops allowed) and `Context::merge`. -/
structure Problem (V : Type) where
  edges : List (Edge V)
  join  : V → V → V

/-- assignment of (optional) values to nodes: `node_values` -/
abbrev Assign (V : Type) := Nat → Option V

variable {V : Type}

/-- the order the code tests with `merge(x, b) == b` -/
def Problem.le (P : Problem V) (x b : V) : Prop := P.join x b = b

structure IsSemilattice (join : V → V → V) : Prop where
  comm  : ∀ a b, join a b = join b a
  assoc : ∀ a b c, join (join a b) c = join a (join b c)
  idem  : ∀ a, join a a = a

/-- transfers are monotone, including `none ≤ some`: an edge that lets `a` through lets every
larger value through, with a larger result. -/
def Monotone (P : Problem V) : Prop :=
  ∀ e ∈ P.edges, ∀ a b x, P.le a b → e.f a = some x → ∃ y, e.f b = some y ∧ P.le x y

/-- edge `e` is satisfied by the assignment `S`: `e(S(src)) ≤ S(dst)` -/
def Sat (P : Problem V) (S : Assign V) (e : Edge V) : Prop :=
  ∀ a x, S e.src = some a → e.f a = some x → ∃ b, S e.dst = some b ∧ P.le x b

/-- `S` is closed under all edge transfers (a post-fixpoint) -/
def Closed (P : Problem V) (S : Assign V) : Prop := ∀ e ∈ P.edges, Sat P S e

/-- pointwise order on assignments (`none` is below everything) -/
def Assign.le (P : Problem V) (A B : Assign V) : Prop :=
  ∀ i a, A i = some a → ∃ b, B i = some b ∧ P.le a b

namespace IsSemilattice
variable {join : V → V → V} (h : IsSemilattice join)
include h

theorem le_refl (a : V) : join a a = a := h.idem a

theorem le_trans {a b c : V} (hab : join a b = b) (hbc : join b c = c) : join a c = c := by
  rw [← hbc, ← h.assoc, hab]

theorem le_antisymm {a b : V} (hab : join a b = b) (hba : join b a = a) : a = b := by
  rw [← hba, h.comm, hab]

theorem le_join_left (x o : V) : join x (join x o) = join x o := by
  rw [← h.assoc, h.idem]

theorem le_join_right (x o : V) : join o (join x o) = join x o := by
  rw [h.comm x o, ← h.assoc, h.idem]

theorem join_le {x o b : V} (hx : join x b = b) (ho : join o b = b) : join (join x o) b = b := by
  rw [h.assoc, ho, hx]

theorem le_join_of_le_right {y o : V} (x : V) (hy : join y o = o) : join y (join x o) = join x o := by
  rw [← h.assoc, h.comm y x, h.assoc, hy]
end IsSemilattice

theorem Assign.le_refl {P : Problem V} (hL : IsSemilattice P.join) (A : Assign V) : Assign.le P A A :=
  fun _ a ha => ⟨a, ha, hL.idem a⟩

theorem Assign.le_trans {P : Problem V} (hL : IsSemilattice P.join) {A B C : Assign V}
    (h1 : Assign.le P A B) (h2 : Assign.le P B C) : Assign.le P A C := by
  intro i a ha
  obtain ⟨b, hb, hab⟩ := h1 i a ha
  obtain ⟨c, hc, hbc⟩ := h2 i b hb
  exact ⟨c, hc, hL.le_trans hab hbc⟩

theorem Assign.le_antisymm {P : Problem V} (hL : IsSemilattice P.join) {A B : Assign V}
    (h1 : Assign.le P A B) (h2 : Assign.le P B A) : A = B := by
  funext i
  cases hA : A i with
  | none =>
    cases hB : B i with
    | none => rfl
    | some b =>
      obtain ⟨a, ha, _⟩ := h2 i b hB
      rw [hA] at ha; cases ha
  | some a =>
    obtain ⟨b, hb, hab⟩ := h1 i a hA
    obtain ⟨a', ha', hba⟩ := h2 i b hb
    rw [hA] at ha'; cases ha'
    rw [hb, hL.le_antisymm hab hba]

/-! ## §2 The machine -/

/-- solver state: node values and worklist (as membership predicate on nodes) -/
structure State (V : Type) where
  vals : Assign V
  wl   : Nat → Bool

/-- `set_node_value`: store the value and mark the node as not yet stabilized -/
def State.setNodeValue (s : State V) (node : Nat) (v : V) : State V :=
  { vals := fun i => if i = node then some v else s.vals i
    wl   := fun i => if i = node then true else s.wl i }

/-- take a node out of the worklist -/
def State.remove (s : State V) (p : Nat) : State V :=
  { s with wl := fun i => if i = p then false else s.wl i }

variable [DecidableEq V]

/-- `merge_node_value`: note the argument order `merge(&value, old_value)` and that the node is
re-inserted into the worklist only if `merged_value != *old_value`. -/
def mergeNodeValue (P : Problem V) (s : State V) (node : Nat) (value : V) : State V :=
  match s.vals node with
  | some old =>
    let merged := P.join value old
    if merged ≠ old then s.setNodeValue node merged else s
  | none => s.setNodeValue node value

/-- `update_edge`: nothing happens if the start node has no value or the transfer returns `None` -/
def updateEdge (P : Problem V) (s : State V) (e : Edge V) : State V :=
  match s.vals e.src with
  | some a =>
    match e.f a with
    | some x => mergeNodeValue P s e.dst x
    | none => s
  | none => s

/-- the loop of `update_node` over a list of edges -/
def updateEdges (P : Problem V) (s : State V) (es : List (Edge V)) : State V :=
  es.foldl (updateEdge P) s

/-- `es` is an admissible enumeration of the out-edges of `p`: every out-edge occurs (any order,
repetitions allowed) and nothing else. -/
def OutEdges (P : Problem V) (p : Nat) (es : List (Edge V)) : Prop :=
  (∀ e ∈ es, e ∈ P.edges ∧ e.src = p) ∧ (∀ e ∈ P.edges, e.src = p → e ∈ es)

/-- one iteration of `compute`: ANY node of the worklist is taken out and its out-edges updated. -/
inductive Step (P : Problem V) : State V → State V → Prop where
  | mk (s : State V) (p : Nat) (es : List (Edge V)) :
      s.wl p = true → OutEdges P p es → Step P s (updateEdges P (s.remove p) es)

/-- `k` iterations -/
inductive RunN (P : Problem V) : Nat → State V → State V → Prop where
  | refl (s : State V) : RunN P 0 s s
  | step {k : Nat} {s t u : State V} : Step P s t → RunN P k t u → RunN P (k + 1) s u

def Run (P : Problem V) (s t : State V) : Prop := ∃ k, RunN P k s t

def State.stabilized (s : State V) : Prop := ∀ i, s.wl i = false

theorem Run.refl (P : Problem V) (s : State V) : Run P s s := ⟨0, .refl s⟩

theorem Run.head {P : Problem V} {s t u : State V} (h : Step P s t) (r : Run P t u) : Run P s u := by
  obtain ⟨k, hk⟩ := r
  exact ⟨k + 1, .step h hk⟩

/-- a run-invariant is established by showing it for `remove` and for `updateEdge` of problem edges -/
theorem Run.induction {P : Problem V} (I : State V → Prop)
    (hrem : ∀ s p, I s → I (s.remove p))
    (hupd : ∀ s e, e ∈ P.edges → I s → I (updateEdge P s e))
    {s t : State V} (h0 : I s) (r : Run P s t) : I t := by
  obtain ⟨k, hk⟩ := r
  induction hk with
  | refl => exact h0
  | step hst _ ih =>
    apply ih
    cases hst with
    | mk p es hp hes =>
      have : ∀ (es : List (Edge V)) (s : State V), (∀ e ∈ es, e ∈ P.edges) → I s → I (updateEdges P s es) := by
        intro es
        induction es with
        | nil => intro s _ h; exact h
        | cons e es ih2 =>
          intro s hmem h
          exact ih2 (updateEdge P s e) (fun e' he' => hmem e' (List.mem_cons_of_mem _ he'))
            (hupd s e (hmem e (List.mem_cons_self ..)) h)
      exact this es _ (fun e he => (hes.1 e he).1) (hrem _ p h0)

/-! ### what `updateEdge` can do to a state -/

/-- `updateEdge` either leaves the state alone — and then the edge is satisfied — or stores a new,
different value `nv ≥ x, old` at the end node and puts the end node into the worklist. -/
theorem updateEdge_cases (P : Problem V) (hL : IsSemilattice P.join) (s : State V) (e : Edge V) :
    (updateEdge P s e = s ∧ Sat P s.vals e) ∨
    (∃ a x nv, s.vals e.src = some a ∧ e.f a = some x ∧ updateEdge P s e = s.setNodeValue e.dst nv ∧
      P.le x nv ∧
      ((s.vals e.dst = none ∧ nv = x) ∨ (∃ old, s.vals e.dst = some old ∧ nv = P.join x old ∧ nv ≠ old))) := by
  cases hsrc : s.vals e.src with
  | none =>
    left
    refine ⟨by simp only [updateEdge, hsrc], ?_⟩
    intro a x ha; rw [hsrc] at ha; cases ha
  | some a =>
    cases hf : e.f a with
    | none =>
      left
      refine ⟨by simp only [updateEdge, hsrc, hf], ?_⟩
      intro a' x ha' hx
      rw [hsrc] at ha'; cases ha'; rw [hf] at hx; cases hx
    | some x =>
      cases hdst : s.vals e.dst with
      | none =>
        right
        exact ⟨a, x, x, rfl, hf, by simp only [updateEdge, hsrc, hf, mergeNodeValue, hdst],
          hL.idem x, Or.inl ⟨rfl, rfl⟩⟩
      | some old =>
        by_cases hne : P.join x old = old
        · left
          refine ⟨by simp [updateEdge, hsrc, hf, mergeNodeValue, hdst, hne], ?_⟩
          intro a' x' ha' hx'
          rw [hsrc] at ha'; cases ha'; rw [hf] at hx'; cases hx'
          exact ⟨old, hdst, hne⟩
        · right
          exact ⟨a, x, P.join x old, rfl, hf, by simp [updateEdge, hsrc, hf, mergeNodeValue, hdst, hne],
            hL.le_join_left x old, Or.inr ⟨old, rfl, rfl, hne⟩⟩

/-! ## §3 The worklist invariant and closedness at stabilisation -/

/-- Every edge in `D` whose start node is neither in the worklist nor in the exempt set `X` is
satisfied. (`X` is used by the bounded variant for the nodes given up; `D` tracks the out-edges
already handled in the middle of `update_node`.) -/
def InvD (P : Problem V) (X : Nat → Bool) (D : Edge V → Prop) (s : State V) : Prop :=
  ∀ e ∈ P.edges, s.wl e.src = false → X e.src = false → D e → Sat P s.vals e

/-- the loop invariant of `compute` -/
def Inv (P : Problem V) (X : Nat → Bool) (s : State V) : Prop := InvD P X (fun _ => True) s

theorem updateEdge_invD (P : Problem V) (hL : IsSemilattice P.join) (X : Nat → Bool) (D : Edge V → Prop)
    (s : State V) (e : Edge V) (h : InvD P X D s) :
    InvD P X (fun e' => e' = e ∨ D e') (updateEdge P s e) := by
  rcases updateEdge_cases P hL s e with ⟨heq, hsat⟩ | ⟨a, x, nv, hsrc, hf, heq, hxnv, hnv⟩
  · rw [heq]
    intro e' he' hwl hX hD
    rcases hD with rfl | hD
    · exact hsat
    · exact h e' he' hwl hX hD
  · rw [heq]
    intro e' he' hwl hX hD
    have hne : e'.src ≠ e.dst := by
      intro hc
      simp [State.setNodeValue, hc] at hwl
    have hwl' : s.wl e'.src = false := by
      simpa [State.setNodeValue, hne] using hwl
    intro a' x' ha' hx'
    have ha's : s.vals e'.src = some a' := by
      simpa [State.setNodeValue, hne] using ha'
    by_cases hee : e' = e
    · subst hee
      rw [hsrc] at ha's; cases ha's
      rw [hf] at hx'; cases hx'
      exact ⟨nv, by simp [State.setNodeValue], hxnv⟩
    · have hD' : D e' := by
        rcases hD with h1 | h1
        · exact absurd h1 hee
        · exact h1
      obtain ⟨b, hb, hxb⟩ := h e' he' hwl' hX hD' a' x' ha's hx'
      by_cases hd : e'.dst = e.dst
      · rcases hnv with ⟨hnone, _⟩ | ⟨old, hold, hnveq, _⟩
        · rw [hd, hnone] at hb; cases hb
        · rw [hd, hold] at hb; cases hb
          refine ⟨nv, by simp [State.setNodeValue, hd], ?_⟩
          rw [hnveq]
          exact hL.le_join_of_le_right x hxb
      · exact ⟨b, by simpa [State.setNodeValue, hd] using hb, hxb⟩

theorem updateEdges_invD (P : Problem V) (hL : IsSemilattice P.join) (X : Nat → Bool) (es : List (Edge V)) :
    ∀ (D : Edge V → Prop) (s : State V), InvD P X D s →
      InvD P X (fun e' => e' ∈ es ∨ D e') (updateEdges P s es) := by
  induction es with
  | nil =>
    intro D s h e' he' hwl hX hD
    rcases hD with h1 | h1
    · cases h1
    · exact h e' he' hwl hX h1
  | cons e es ih =>
    intro D s h
    have h1 := ih _ _ (updateEdge_invD P hL X D s e h)
    intro e' he' hwl hX hD
    apply h1 e' he' hwl hX
    rcases hD with hm | hD
    · rcases List.mem_cons.mp hm with rfl | hm
      · exact Or.inr (Or.inl rfl)
      · exact Or.inl hm
    · exact Or.inr (Or.inr hD)

/-- one `update_node` of a worklist node re-establishes the invariant -/
theorem updateNode_inv (P : Problem V) (hL : IsSemilattice P.join) (X : Nat → Bool) (s : State V) (p : Nat)
    (es : List (Edge V)) (hes : OutEdges P p es) (h : Inv P X s) :
    Inv P X (updateEdges P (s.remove p) es) := by
  have h0 : InvD P X (fun e => e.src ≠ p) (s.remove p) := by
    intro e he hwl hX hD
    have : s.wl e.src = false := by simpa [State.remove, hD] using hwl
    exact h e he this hX trivial
  have h1 := updateEdges_invD P hL X es _ _ h0
  intro e he hwl hX _
  apply h1 e he hwl hX
  by_cases hp : e.src = p
  · exact Or.inl (hes.2 e he hp)
  · exact Or.inr hp

theorem Step.inv {P : Problem V} (hL : IsSemilattice P.join) {X : Nat → Bool} {s t : State V}
    (hst : Step P s t) (h : Inv P X s) : Inv P X t := by
  cases hst with
  | mk p es _ hes => exact updateNode_inv P hL X _ p es hes h

theorem Run.inv {P : Problem V} (hL : IsSemilattice P.join) {X : Nat → Bool} {s t : State V}
    (r : Run P s t) (h : Inv P X s) : Inv P X t := by
  obtain ⟨k, hk⟩ := r
  induction hk with
  | refl => exact h
  | step hst _ ih => exact ih (hst.inv hL h)

/-- start condition of `compute`: every node that has a value is in the worklist
(`Computation::new/from_node_priority_list` + `set_node_value` guarantee it). -/
def Init (s : State V) : Prop := ∀ i a, s.vals i = some a → s.wl i = true

omit [DecidableEq V] in
theorem Init.inv {P : Problem V} {s : State V} (h : Init s) : Inv P (fun _ => false) s := by
  intro e _ hwl _ _ a x ha _
  rw [h e.src a ha] at hwl; cases hwl

omit [DecidableEq V] in
/-- **closed_of_stabilized**: if the invariant holds and the worklist is empty, the assignment is
closed under all edge transfers. -/
theorem closed_of_inv {P : Problem V} {s : State V} (h : Inv P (fun _ => false) s) (hst : s.stabilized) :
    Closed P s.vals :=
  fun e he => h e he (hst e.src) rfl trivial

theorem closed_of_stabilized {P : Problem V} (hL : IsSemilattice P.join) {s t : State V}
    (h0 : Inv P (fun _ => false) s) (r : Run P s t) (hst : t.stabilized) : Closed P t.vals :=
  closed_of_inv (r.inv hL h0) hst

/-! ## §4 Leastness -/

theorem updateEdge_below (P : Problem V) (hL : IsSemilattice P.join) (hM : Monotone P) (S : Assign V)
    (hS : Closed P S) (s : State V) (e : Edge V) (he : e ∈ P.edges) (h : Assign.le P s.vals S) :
    Assign.le P (updateEdge P s e).vals S := by
  rcases updateEdge_cases P hL s e with ⟨heq, _⟩ | ⟨a, x, nv, hsrc, hf, heq, _, hnv⟩
  · rw [heq]; exact h
  · rw [heq]
    obtain ⟨a', ha', haa'⟩ := h e.src a hsrc
    obtain ⟨y, hy, hxy⟩ := hM e he a a' x haa' hf
    obtain ⟨b, hb, hyb⟩ := hS e he a' y ha' hy
    have hxb : P.le x b := hL.le_trans hxy hyb
    intro i v hv
    by_cases hi : i = e.dst
    · subst hi
      have : v = nv := by simpa [State.setNodeValue] using hv.symm
      subst this
      refine ⟨b, hb, ?_⟩
      rcases hnv with ⟨_, rfl⟩ | ⟨old, hold, rfl, _⟩
      · exact hxb
      · obtain ⟨b', hb', hob⟩ := h e.dst old hold
        rw [hb] at hb'; cases hb'
        exact hL.join_le hxb hob
    · exact h i v (by simpa [State.setNodeValue, hi] using hv)

/-- **least (invariant form)**: every assignment that is closed and above the start values is above
the values of every state of every run. -/
theorem below_of_closed {P : Problem V} (hL : IsSemilattice P.join) (hM : Monotone P) {S : Assign V}
    (hS : Closed P S) {s t : State V} (r : Run P s t) (h : Assign.le P s.vals S) :
    Assign.le P t.vals S :=
  Run.induction (fun u => Assign.le P u.vals S) (fun _ _ h => h)
    (fun u e he h => updateEdge_below P hL hM S hS u e he h) h r

theorem updateEdge_grows (P : Problem V) (hL : IsSemilattice P.join) (s : State V) (e : Edge V) :
    Assign.le P s.vals (updateEdge P s e).vals := by
  rcases updateEdge_cases P hL s e with ⟨heq, _⟩ | ⟨a, x, nv, _, _, heq, _, hnv⟩
  · rw [heq]; exact Assign.le_refl hL _
  · rw [heq]
    intro i v hv
    by_cases hi : i = e.dst
    · subst hi
      refine ⟨nv, by simp [State.setNodeValue], ?_⟩
      rcases hnv with ⟨hnone, _⟩ | ⟨old, hold, rfl, _⟩
      · rw [hnone] at hv; cases hv
      · rw [hold] at hv; cases hv
        exact hL.le_join_right x v
    · exact ⟨v, by simpa [State.setNodeValue, hi] using hv, hL.idem v⟩

/-- values only grow along a run; in particular the result contains the start values -/
theorem grows {P : Problem V} (hL : IsSemilattice P.join) {s t : State V} (r : Run P s t) :
    Assign.le P s.vals t.vals :=
  Run.induction (fun u => Assign.le P s.vals u.vals) (fun _ _ h => h)
    (fun u e _ h => Assign.le_trans hL h (updateEdge_grows P hL u e)) (Assign.le_refl hL _) r

/-- `S` is the least closed assignment above `A` -/
def IsLeastClosedAbove (P : Problem V) (A S : Assign V) : Prop :=
  Closed P S ∧ Assign.le P A S ∧ ∀ S', Closed P S' → Assign.le P A S' → Assign.le P S S'

omit [DecidableEq V] in
theorem IsLeastClosedAbove.unique {P : Problem V} (hL : IsSemilattice P.join) {A S T : Assign V}
    (hS : IsLeastClosedAbove P A S) (hT : IsLeastClosedAbove P A T) : S = T :=
  Assign.le_antisymm hL (hS.2.2 T hT.1 hT.2.1) (hT.2.2 S hS.1 hS.2.1)

/-- **C07 main theorem (abstract machine).** A run of the solver — whatever node is taken from the
worklist in each iteration and in whatever order its out-edges are handled — that ends with an
empty worklist ends in THE least assignment that contains the start values and is closed under all
edge transfers. -/
theorem run_least {P : Problem V} (hL : IsSemilattice P.join) (hM : Monotone P) {s t : State V}
    (h0 : Init s) (r : Run P s t) (hst : t.stabilized) : IsLeastClosedAbove P s.vals t.vals :=
  ⟨closed_of_stabilized hL h0.inv r hst, grows hL r, fun _ hS hA => below_of_closed hL hM hS r hA⟩

/-- the result does not depend on the scheduler or the edge order -/
theorem run_unique {P : Problem V} (hL : IsSemilattice P.join) (hM : Monotone P) {s t t' : State V}
    (h0 : Init s) (r : Run P s t) (hst : t.stabilized) (r' : Run P s t') (hst' : t'.stabilized) :
    t.vals = t'.vals :=
  (run_least hL hM h0 r hst).unique hL (run_least hL hM h0 r' hst')

/-- resuming: a run from any state that satisfies the loop invariant and whose values lie between
`A` and every closed assignment above `A` (e.g. the state left behind by the bounded variant) ends
in the least closed assignment above `A`. -/
theorem run_least_of_between {P : Problem V} (hL : IsSemilattice P.join) (hM : Monotone P) {A : Assign V}
    {s t : State V} (hinv : Inv P (fun _ => false) s) (hA : Assign.le P A s.vals)
    (hbelow : ∀ S, Closed P S → Assign.le P A S → Assign.le P s.vals S)
    (r : Run P s t) (hst : t.stabilized) : IsLeastClosedAbove P A t.vals :=
  ⟨closed_of_stabilized hL hinv r hst, Assign.le_trans hL hA (grows hL r),
   fun S hS hAS => below_of_closed hL hM hS r (hbelow S hS hAS)⟩

/-! ## §5 Termination -/

/-- finite height, given by a rank function: values are ranked `≤ H` and the rank grows strictly
along the order. (§8 derives such a function from "every ascending chain has length ≤ H+1".) -/
structure Ranked (P : Problem V) (H : Nat) (rank : V → Nat) : Prop where
  bound  : ∀ a, rank a ≤ H
  strict : ∀ a b, P.le a b → a ≠ b → rank a < rank b

/-- all edges connect nodes `< n` -/
def WellFormed (P : Problem V) (n : Nat) : Prop := ∀ e ∈ P.edges, e.src < n ∧ e.dst < n

def level (rank : V → Nat) : Option V → Nat
  | none => 0
  | some a => rank a + 1

/-- contribution of node `i` to the termination measure: 1 if it is in the worklist, plus twice
the room that is left above its value -/
def nodeMeasure (H : Nat) (rank : V → Nat) (s : State V) (i : Nat) : Nat :=
  (if s.wl i then 1 else 0) + 2 * (H + 1 - level rank (s.vals i))

def sumTo : Nat → (Nat → Nat) → Nat
  | 0, _ => 0
  | n + 1, g => sumTo n g + g n

def measure (n H : Nat) (rank : V → Nat) (s : State V) : Nat := sumTo n (nodeMeasure H rank s)

theorem sumTo_le {n : Nat} {g g' : Nat → Nat} (h : ∀ i, g' i ≤ g i) : sumTo n g' ≤ sumTo n g := by
  induction n with
  | zero => exact Nat.le_refl _
  | succ n ih => simp only [sumTo]; have := h n; omega

theorem sumTo_lt {n : Nat} {g g' : Nat → Nat} (h : ∀ i, g' i ≤ g i) {p : Nat} (hp : p < n)
    (hlt : g' p + 1 ≤ g p) : sumTo n g' + 1 ≤ sumTo n g := by
  induction n with
  | zero => omega
  | succ n ih =>
    simp only [sumTo]
    by_cases hpn : p = n
    · subst hpn
      have := sumTo_le (n := p) h
      omega
    · have := ih (by omega)
      have := h n
      omega

theorem sumTo_bound {n : Nat} {g : Nat → Nat} {B : Nat} (h : ∀ i, g i ≤ B) : sumTo n g ≤ n * B := by
  induction n with
  | zero => simp [sumTo]
  | succ n ih => simp only [sumTo]; have := h n; rw [Nat.succ_mul]; omega

omit [DecidableEq V] in
theorem measure_le (n H : Nat) (rank : V → Nat) (s : State V) : measure n H rank s ≤ n * (2 * H + 3) := by
  apply sumTo_bound
  intro i
  unfold nodeMeasure
  split <;> omega

theorem updateEdge_nodeMeasure (P : Problem V) (hL : IsSemilattice P.join) {H : Nat} {rank : V → Nat}
    (hR : Ranked P H rank) (s : State V) (e : Edge V) (i : Nat) :
    nodeMeasure H rank (updateEdge P s e) i ≤ nodeMeasure H rank s i := by
  rcases updateEdge_cases P hL s e with ⟨heq, _⟩ | ⟨a, x, nv, _, _, heq, _, hnv⟩
  · rw [heq]; exact Nat.le_refl _
  · rw [heq]
    by_cases hi : i = e.dst
    · subst hi
      have hb := hR.bound nv
      rcases hnv with ⟨hnone, _⟩ | ⟨old, hold, hnveq, hne⟩
      · simp only [nodeMeasure, State.setNodeValue, if_true, hnone, level]
        split <;> omega
      · have hlt : rank old < rank nv := by
          apply hR.strict old nv _ (fun h => hne h.symm)
          rw [hnveq]; exact hL.le_join_right x old
        simp only [nodeMeasure, State.setNodeValue, if_true, hold, level]
        split <;> omega
    · simp [nodeMeasure, State.setNodeValue, hi]

theorem updateEdges_nodeMeasure (P : Problem V) (hL : IsSemilattice P.join) {H : Nat} {rank : V → Nat}
    (hR : Ranked P H rank) (es : List (Edge V)) : ∀ (s : State V) (i : Nat),
    nodeMeasure H rank (updateEdges P s es) i ≤ nodeMeasure H rank s i := by
  induction es with
  | nil => intro s i; exact Nat.le_refl _
  | cons e es ih =>
    intro s i
    exact Nat.le_trans (ih (updateEdge P s e) i) (updateEdge_nodeMeasure P hL hR s e i)

omit [DecidableEq V] in
/-- taking a node out of the worklist decreases the measure by one -/
theorem measure_remove_lt {H : Nat} {rank : V → Nat} {n : Nat} {s : State V} {p : Nat}
    (hp : s.wl p = true) (hpn : p < n) : measure n H rank (s.remove p) + 1 ≤ measure n H rank s := by
  apply sumTo_lt (p := p) _ hpn
  · simp [nodeMeasure, State.remove, hp]; omega
  · intro i
    by_cases hi : i = p
    · subst hi; simp [nodeMeasure, State.remove]
    · simp [nodeMeasure, State.remove, hi]

/-- every iteration of the loop decreases the measure -/
theorem Step.measure_lt {P : Problem V} (hL : IsSemilattice P.join) {H : Nat} {rank : V → Nat}
    (hR : Ranked P H rank) {n : Nat} {s t : State V} (hwl : ∀ i, s.wl i = true → i < n)
    (hst : Step P s t) : measure n H rank t + 1 ≤ measure n H rank s := by
  cases hst with
  | mk p es hp hes =>
    apply sumTo_lt (p := p) _ (hwl p hp)
    · refine Nat.le_trans (Nat.succ_le_succ (updateEdges_nodeMeasure P hL hR es _ p)) ?_
      simp [nodeMeasure, State.remove, hp]
      omega
    · intro i
      refine Nat.le_trans (updateEdges_nodeMeasure P hL hR es _ i) ?_
      by_cases hi : i = p
      · subst hi; simp [nodeMeasure, State.remove]
      · simp [nodeMeasure, State.remove, hi]

/-- the worklist only ever contains nodes of the graph -/
def WlBounded (n : Nat) (s : State V) : Prop := ∀ i, s.wl i = true → i < n

theorem updateEdge_wlBounded (P : Problem V) {n : Nat} (s : State V) (e : Edge V) (he : e.dst < n)
    (h : WlBounded n s) : WlBounded n (updateEdge P s e) := by
  unfold updateEdge mergeNodeValue
  intro i
  dsimp only
  repeat' split
  all_goals
    intro hi
    by_cases hid : i = e.dst
    · omega
    · exact h i (by simpa [State.setNodeValue, hid] using hi)

theorem Run.wlBounded {P : Problem V} {n : Nat} (hW : WellFormed P n) {s t : State V}
    (r : Run P s t) (h : WlBounded n s) : WlBounded n t :=
  Run.induction (WlBounded n)
    (fun u p h i hi => by
      by_cases hip : i = p
      · subst hip; simp [State.remove] at hi
      · exact h i (by simpa [State.remove, hip] using hi))
    (fun u e he h => updateEdge_wlBounded P u e (hW e he).2 h) h r

/-- **terminates**: over a lattice of height `H` a run from any state with a proper worklist has at
most `measure ≤ n·(2H+3)` iterations, whatever the scheduler does. -/
theorem runN_measure {P : Problem V} (hL : IsSemilattice P.join) {H : Nat} {rank : V → Nat}
    (hR : Ranked P H rank) {n : Nat} (hW : WellFormed P n) {k : Nat} {s t : State V}
    (hs : WlBounded n s) (r : RunN P k s t) : measure n H rank t + k ≤ measure n H rank s := by
  induction r with
  | refl => omega
  | step hst _ ih =>
    have h1 := hst.measure_lt hL hR hs
    have h2 := ih (Run.wlBounded hW ⟨1, .step hst (.refl _)⟩ hs)
    omega

theorem runN_bound {P : Problem V} (hL : IsSemilattice P.join) {H : Nat} {rank : V → Nat}
    (hR : Ranked P H rank) {n : Nat} (hW : WellFormed P n) {k : Nat} {s t : State V}
    (hs : WlBounded n s) (r : RunN P k s t) : k ≤ n * (2 * H + 3) := by
  have := runN_measure hL hR hW hs r
  have := measure_le n H rank s
  omega

omit [DecidableEq V] in
/-- an admissible enumeration of the out-edges always exists -/
theorem outEdges_filter (P : Problem V) (p : Nat) : OutEdges P p (P.edges.filter (fun e => e.src = p)) := by
  constructor
  · intro e he
    have := List.mem_filter.mp he
    exact ⟨this.1, by simpa using this.2⟩
  · intro e he hp
    exact List.mem_filter.mpr ⟨he, by simpa using hp⟩

/-- as long as the worklist is not empty the solver can make a step; hence (with the bound) every
run can be extended to a stabilised one, and maximal runs are exactly the stabilised ones. -/
theorem exists_stabilized_run {P : Problem V} (hL : IsSemilattice P.join) {H : Nat} {rank : V → Nat}
    (hR : Ranked P H rank) {n : Nat} (hW : WellFormed P n) :
    ∀ (m : Nat) (s : State V), WlBounded n s → measure n H rank s ≤ m → ∃ t, Run P s t ∧ t.stabilized := by
  intro m
  induction m with
  | zero =>
    intro s hs hm
    refine ⟨s, Run.refl P s, ?_⟩
    intro i
    cases hi : s.wl i with
    | false => rfl
    | true =>
      have hst : Step P s _ := Step.mk s i _ hi (outEdges_filter P i)
      have := hst.measure_lt hL hR hs
      omega
  | succ m ih =>
    intro s hs hm
    by_cases hall : ∀ i, s.wl i = false
    · exact ⟨s, Run.refl P s, hall⟩
    · have ⟨i, hi⟩ : ∃ i, s.wl i = true := by
        apply Classical.byContradiction
        intro hne
        apply hall
        intro i
        cases hi : s.wl i with
        | false => rfl
        | true => exact absurd ⟨i, hi⟩ hne
      have hst : Step P s _ := Step.mk s i _ hi (outEdges_filter P i)
      have hlt := hst.measure_lt hL hR hs
      obtain ⟨t, rt, ht⟩ := ih _ (Run.wlBounded hW ⟨1, .step hst (.refl _)⟩ hs) (by omega)
      exact ⟨t, Run.head hst rt, ht⟩

/-- **C07, existence and uniqueness.** Over a finite-height join-semilattice with monotone
transfers the least closed assignment above the start values exists, and it is what every
stabilised run returns. -/
theorem least_solution_exists {P : Problem V} (hL : IsSemilattice P.join) (hM : Monotone P) {H : Nat}
    {rank : V → Nat} (hR : Ranked P H rank) {n : Nat} (hW : WellFormed P n) (s : State V)
    (h0 : Init s) (hs : WlBounded n s) :
    ∃ L, IsLeastClosedAbove P s.vals L ∧ ∀ t, Run P s t → t.stabilized → t.vals = L := by
  obtain ⟨t, rt, ht⟩ := exists_stabilized_run hL hR hW _ s hs (Nat.le_refl _)
  refine ⟨t.vals, run_least hL hM h0 rt ht, ?_⟩
  intro t' rt' ht'
  exact run_unique hL hM h0 rt' ht' rt ht

/-! ## §6 The bounded variant `compute_with_max_steps` -/

/-- state of the bounded loop: solver state, the per-node `steps` counters and `non_stabilized_nodes` -/
structure BState (V : Type) where
  st      : State V
  steps   : Nat → Nat
  nonStab : Nat → Bool

/-- one iteration of the `while` loop of `compute_with_max_steps(k)`, for ANY choice of the node -/
inductive BStep (P : Problem V) (k : Nat) : BState V → BState V → Prop where
  | process (b : BState V) (p : Nat) (es : List (Edge V)) :
      b.st.wl p = true → b.steps p < k → OutEdges P p es →
      BStep P k b { st := updateEdges P (b.st.remove p) es
                    steps := fun i => if i = p then b.steps i + 1 else b.steps i
                    nonStab := b.nonStab }
  | giveUp (b : BState V) (p : Nat) :
      b.st.wl p = true → ¬ b.steps p < k →
      BStep P k b { st := b.st.remove p
                    steps := b.steps
                    nonStab := fun i => if i = p then true else b.nonStab i }

inductive BRun (P : Problem V) (k : Nat) : BState V → BState V → Prop where
  | refl (b : BState V) : BRun P k b b
  | step {b c d : BState V} : BStep P k b c → BRun P k c d → BRun P k b d

/-- `let mut steps = vec![0; n]; let mut non_stabilized_nodes = BTreeSet::new();` -/
def BState.start (s : State V) : BState V := { st := s, steps := fun _ => 0, nonStab := fun _ => false }

/-- `self.worklist = non_stabilized_nodes;` — the state `compute_with_max_steps` leaves behind -/
def BState.finish (b : BState V) : State V := { vals := b.st.vals, wl := b.nonStab }

theorem updateEdges_induction {P : Problem V} (I : State V → Prop)
    (hupd : ∀ s e, e ∈ P.edges → I s → I (updateEdge P s e)) :
    ∀ (es : List (Edge V)) (s : State V), (∀ e ∈ es, e ∈ P.edges) → I s → I (updateEdges P s es) := by
  intro es
  induction es with
  | nil => intro s _ h; exact h
  | cons e es ih =>
    intro s hmem h
    exact ih (updateEdge P s e) (fun e' he' => hmem e' (List.mem_cons_of_mem _ he'))
      (hupd s e (hmem e (List.mem_cons_self ..)) h)

theorem BRun.induction {P : Problem V} {k : Nat} (I : State V → Prop)
    (hrem : ∀ s p, I s → I (s.remove p))
    (hupd : ∀ s e, e ∈ P.edges → I s → I (updateEdge P s e))
    {b c : BState V} (h0 : I b.st) (r : BRun P k b c) : I c.st := by
  induction r with
  | refl => exact h0
  | step hst _ ih =>
    apply ih
    cases hst with
    | process p es _ _ hes =>
      exact updateEdges_induction I hupd es _ (fun e he => (hes.1 e he).1) (hrem _ p h0)
    | giveUp p _ _ => exact hrem _ p h0

/-- **no node is processed more often than the bound** -/
theorem BRun.steps_le {P : Problem V} {k : Nat} {b c : BState V} (r : BRun P k b c)
    (h : ∀ i, b.steps i ≤ k) : ∀ i, c.steps i ≤ k := by
  induction r with
  | refl => exact h
  | step hst _ ih =>
    apply ih
    cases hst with
    | process p es _ hlt _ =>
      intro i
      by_cases hi : i = p
      · subst hi; simp; omega
      · simp [hi]; exact h i
    | giveUp p _ _ => exact h

/-- the counter of a node is exactly the number of times it was processed: it only changes in
`process`, by one (stated as monotonicity + the bound above). -/
theorem BRun.steps_mono {P : Problem V} {k : Nat} {b c : BState V} (r : BRun P k b c) :
    ∀ i, b.steps i ≤ c.steps i := by
  induction r with
  | refl => intro i; exact Nat.le_refl _
  | step hst _ ih =>
    intro i
    refine Nat.le_trans ?_ (ih i)
    cases hst with
    | process p es _ _ _ => by_cases hi : i = p <;> simp [hi]
    | giveUp p _ _ => exact Nat.le_refl _

/-- loop invariant of the bounded loop: the nodes given up are exempt -/
theorem BRun.inv {P : Problem V} (hL : IsSemilattice P.join) {k : Nat} {b c : BState V}
    (r : BRun P k b c) (h : Inv P b.nonStab b.st) : Inv P c.nonStab c.st := by
  induction r with
  | refl => exact h
  | step hst _ ih =>
    apply ih
    cases hst with
    | process p es _ _ hes => exact updateNode_inv P hL _ _ p es hes h
    | giveUp p _ _ =>
      intro e he hwl hX _
      have hne : e.src ≠ p := by
        intro hc; simp [hc] at hX
      exact h e he (by simpa [State.remove, hne] using hwl) (by simpa [hne] using hX) trivial

omit [DecidableEq V] in
theorem Init.invB {P : Problem V} {s : State V} (h : Init s) :
    Inv P (BState.start s).nonStab (BState.start s).st := h.inv

/-- after the loop (worklist empty) the state left behind satisfies the loop invariant of `compute`
again: the computation can be resumed, and … -/
theorem BRun.finish_inv {P : Problem V} (hL : IsSemilattice P.join) {k : Nat} {s : State V} {c : BState V}
    (h0 : Init s) (r : BRun P k (BState.start s) c) (hdone : c.st.stabilized) :
    Inv P (fun _ => false) c.finish := by
  have h := r.inv hL (Init.invB h0)
  intro e he hwl _ _
  exact h e he (hdone e.src) hwl trivial

/-- **has_stabilized ⇒ closed**: … if no node was given up, the returned assignment is closed under
all edge transfers. -/
theorem bounded_closed_of_stabilized {P : Problem V} (hL : IsSemilattice P.join) {k : Nat} {s : State V}
    {c : BState V} (h0 : Init s) (r : BRun P k (BState.start s) c) (hdone : c.st.stabilized)
    (hstab : c.finish.stabilized) : Closed P c.finish.vals :=
  closed_of_inv (r.finish_inv hL h0 hdone) hstab

/-- **intermediate results lie between the start values and every closed assignment above them**
(in particular below the least solution), stabilised or not. -/
theorem bounded_between {P : Problem V} (hL : IsSemilattice P.join) (hM : Monotone P) {k : Nat}
    {s : State V} {c : BState V} (r : BRun P k (BState.start s) c) :
    Assign.le P s.vals c.finish.vals ∧
    ∀ S, Closed P S → Assign.le P s.vals S → Assign.le P c.finish.vals S := by
  constructor
  · exact BRun.induction (fun u => Assign.le P s.vals u.vals) (fun _ _ h => h)
      (fun u e _ h => Assign.le_trans hL h (updateEdge_grows P hL u e)) (Assign.le_refl hL _) r
  · intro S hS hA
    exact BRun.induction (fun u => Assign.le P u.vals S) (fun _ _ h => h)
      (fun u e he h => updateEdge_below P hL hM S hS u e he h) hA r

/-- **C07, bounded variant.** If `compute_with_max_steps` reports `has_stabilized`, its result is the
least closed assignment above the start values — the same as `compute` — for every scheduler. -/
theorem bounded_least_of_stabilized {P : Problem V} (hL : IsSemilattice P.join) (hM : Monotone P)
    {k : Nat} {s : State V} {c : BState V} (h0 : Init s) (r : BRun P k (BState.start s) c)
    (hdone : c.st.stabilized) (hstab : c.finish.stabilized) :
    IsLeastClosedAbove P s.vals c.finish.vals :=
  ⟨bounded_closed_of_stabilized hL h0 r hdone hstab, (bounded_between hL hM r).1, (bounded_between hL hM r).2⟩

/-- every iteration of the bounded loop decreases the termination measure of §5, too -/
theorem BStep.measure_lt {P : Problem V} (hL : IsSemilattice P.join) {H : Nat} {rank : V → Nat}
    (hR : Ranked P H rank) {n k : Nat} {b c : BState V} (hwl : WlBounded n b.st)
    (hst : BStep P k b c) : measure n H rank c.st + 1 ≤ measure n H rank b.st := by
  cases hst with
  | process p es hp _ hes => exact (Step.mk b.st p es hp hes).measure_lt hL hR hwl
  | giveUp p hp _ => exact measure_remove_lt hp (hwl p hp)

theorem BStep.wlBounded {P : Problem V} {n k : Nat} (hW : WellFormed P n) {b c : BState V}
    (hst : BStep P k b c) (h : WlBounded n b.st) : WlBounded n c.st :=
  BRun.induction (WlBounded n)
    (fun u p h i hi => by
      by_cases hip : i = p
      · subst hip; simp [State.remove] at hi
      · exact h i (by simpa [State.remove, hip] using hi))
    (fun u e he h => updateEdge_wlBounded P u e (hW e he).2 h) h (.step hst (.refl _))

/-! ## §7 Abstract interpretation: closed assignments are sound -/

section Soundness
variable {C : Type}

/-- states reachable in the concrete (collecting) semantics: `init i c` are the concrete start
states at node `i`, `cstep e c c'` the concrete transition along edge `e`. -/
inductive Reach (P : Problem V) (init : Nat → C → Prop) (cstep : Edge V → C → C → Prop) : Nat → C → Prop where
  | start {i : Nat} {c : C} : init i c → Reach P init cstep i c
  | step {e : Edge V} {c c' : C} : e ∈ P.edges → Reach P init cstep e.src c → cstep e c c' →
      Reach P init cstep e.dst c'

omit [DecidableEq V] in
/-- **Meta-theorem of abstract interpretation.** Let `γ` concretise abstract values. If
* `merge` is an upper bound in the concretisation (`γ x ⊆ γ (merge x b)`),
* every edge transfer is sound (a concrete transition from a state described by `a` is not blocked,
  and its target is described by the transfer's result),
* the assignment `S` is closed under the edge transfers and describes all concrete start states,
then every reachable concrete state at node `i` is described by the value `S i`. -/
theorem sound_of_closed {P : Problem V} {γ : V → C → Prop} {init : Nat → C → Prop}
    {cstep : Edge V → C → C → Prop}
    (hjoin : ∀ x b c, γ x c → γ (P.join x b) c)
    (hsound : ∀ e ∈ P.edges, ∀ a c c', γ a c → cstep e c c' → ∃ x, e.f a = some x ∧ γ x c')
    {S : Assign V} (hS : Closed P S) (hinit : ∀ i c, init i c → ∃ a, S i = some a ∧ γ a c)
    {i : Nat} {c : C} (hr : Reach P init cstep i c) : ∃ a, S i = some a ∧ γ a c := by
  induction hr with
  | start h => exact hinit _ _ h
  | step he _ hc ih =>
    obtain ⟨a, ha, hγ⟩ := ih
    obtain ⟨x, hx, hγx⟩ := hsound _ he a _ _ hγ hc
    obtain ⟨b, hb, hxb⟩ := hS _ he a x ha hx
    refine ⟨b, hb, ?_⟩
    have := hjoin x b _ hγx
    rwa [hxb] at this

omit [DecidableEq V] in
/-- … and a node without a value is unreachable. -/
theorem unreachable_of_none {P : Problem V} {γ : V → C → Prop} {init : Nat → C → Prop}
    {cstep : Edge V → C → C → Prop}
    (hjoin : ∀ x b c, γ x c → γ (P.join x b) c)
    (hsound : ∀ e ∈ P.edges, ∀ a c c', γ a c → cstep e c c' → ∃ x, e.f a = some x ∧ γ x c')
    {S : Assign V} (hS : Closed P S) (hinit : ∀ i c, init i c → ∃ a, S i = some a ∧ γ a c)
    {i : Nat} (hnone : S i = none) (c : C) : ¬ Reach P init cstep i c := by
  intro hr
  obtain ⟨a, ha, _⟩ := sound_of_closed hjoin hsound hS hinit hr
  rw [hnone] at ha; cases ha

/-- the result of a stabilised solver run is sound (only the semilattice laws are needed — no
monotonicity, no finite height). -/
theorem solver_sound {P : Problem V} (hL : IsSemilattice P.join) {γ : V → C → Prop}
    {init : Nat → C → Prop} {cstep : Edge V → C → C → Prop}
    (hjoin : ∀ x b c, γ x c → γ (P.join x b) c)
    (hsound : ∀ e ∈ P.edges, ∀ a c c', γ a c → cstep e c c' → ∃ x, e.f a = some x ∧ γ x c')
    {s t : State V} (h0 : Init s) (r : Run P s t) (hst : t.stabilized)
    (hinit : ∀ i c, init i c → ∃ a, s.vals i = some a ∧ γ a c)
    {i : Nat} {c : C} (hr : Reach P init cstep i c) : ∃ a, t.vals i = some a ∧ γ a c := by
  apply sound_of_closed hjoin hsound (closed_of_stabilized hL h0.inv r hst) _ hr
  intro j c' hj
  obtain ⟨a, ha, hγ⟩ := hinit j c' hj
  obtain ⟨b, hb, hab⟩ := grows hL r j a ha
  refine ⟨b, hb, ?_⟩
  have := hjoin a b _ hγ
  rwa [hab] at this

end Soundness

/-! ## §8 Finite height: bounded chains give a rank function -/

/-- strictly descending chain (head is the largest element) -/
def DChain (P : Problem V) : List V → Prop
  | [] => True
  | [_] => True
  | a :: b :: rest => P.le b a ∧ b ≠ a ∧ DChain P (b :: rest)

/-- every strictly ascending chain has at most `H + 1` elements -/
def FiniteHeight (P : Problem V) (H : Nat) : Prop := ∀ l, DChain P l → l.length ≤ H + 1

theorem exists_max (Q : Nat → Prop) (B : Nat) (hb : ∀ k, Q k → k ≤ B) (hex : ∃ k, Q k) :
    ∃ m, Q m ∧ ∀ k, Q k → k ≤ m := by
  induction B with
  | zero =>
    obtain ⟨k, hk⟩ := hex
    have := hb k hk
    have h0 : k = 0 := by omega
    subst h0
    exact ⟨0, hk, hb⟩
  | succ B ih =>
    by_cases hq : Q (B + 1)
    · exact ⟨B + 1, hq, hb⟩
    · apply ih
      intro k hk
      have := hb k hk
      have : k ≠ B + 1 := fun h => hq (h ▸ hk)
      omega

omit [DecidableEq V] in
theorem ranked_of_chains {P : Problem V} {H : Nat} (hH : FiniteHeight P H) : ∃ rank, Ranked P H rank := by
  have hmax : ∀ a : V, ∃ m, (∃ l, DChain P (a :: l) ∧ l.length = m) ∧
      ∀ k, (∃ l, DChain P (a :: l) ∧ l.length = k) → k ≤ m := by
    intro a
    apply exists_max _ H
    · rintro k ⟨l, hl, rfl⟩
      have := hH _ hl
      simp at this; omega
    · exact ⟨0, [], trivial, rfl⟩
  refine ⟨fun a => Classical.choose (hmax a), ?_, ?_⟩
  · intro a
    obtain ⟨⟨l, hl, hlen⟩, _⟩ := Classical.choose_spec (hmax a)
    have := hH _ hl
    simp at this; omega
  · intro a b hab hne
    obtain ⟨⟨l, hl, hlen⟩, _⟩ := Classical.choose_spec (hmax a)
    obtain ⟨_, hmaxb⟩ := Classical.choose_spec (hmax b)
    have := hmaxb (l.length + 1) ⟨a :: l, ⟨hab, hne, hl⟩, rfl⟩
    show Classical.choose (hmax a) < Classical.choose (hmax b)
    omega

end CweModel.Fix
