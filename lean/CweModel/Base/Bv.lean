/-
Sized bit-vectors, the P-Code REFERENCE semantics of every integer operation (`Ref`, written as
arithmetic on `toNat`/`toInt` from the P-Code reference manual) and the MODEL of cwe_checker's
constant folding (`Impl`, mirroring `intermediate_representation/bitvector.rs` call by call with
apint primitives mapped to core `BitVec` primitives).

apint ↔ BitVec primitive correspondence (trusted, exercised by the C01 correspondence run):
  `+ - * & | ^`, `into_bitnot`↔`~~~`, unary `-`↔`-`, `checked_ult/ule/slt/sle`↔`BitVec.ult/ule/slt/sle`,
  `into_checked_shl/lshr/ashr n` (n < width)↔`<<< / >>> / sshiftRight`, `into_zero_extend`/`into_truncate`↔
  `setWidth`, `into_sign_extend`↔`signExtend`, `checked_udiv/urem`↔`/`,`%`, `checked_sdiv/srem`↔
  `BitVec.sdiv/srem`, `count_ones`↔`cpop`, `leading_zeros`↔`clz`, `sign_bit`/`is_negative`↔`msb`.

Core-only.
-/
import CweModel.Base.IR

namespace CweModel

/-- a bit-vector together with its width in bits (`apint::ApInt`) -/
structure Bv where
  w : Nat
  v : BitVec w

namespace Bv

instance : BEq Bv := ⟨fun a b => a.w == b.w && a.v.toNat == b.v.toNat⟩
instance : Inhabited Bv := ⟨⟨8, 0⟩⟩

def ofNat (w n : Nat) : Bv := ⟨w, BitVec.ofNat w n⟩
def ofBytes (bytes n : Nat) : Bv := ofNat (8 * bytes) n
def toNat (b : Bv) : Nat := b.v.toNat
def toInt (b : Bv) : Int := b.v.toInt
/-- `ByteSize::from(BitWidth)`: rounded up -/
def bytes (b : Bv) : Nat := (b.w + 7) / 8
/-- `Bitvector::from(b as u8)`: an 8-bit 0/1 -/
def ofBool (b : Bool) : Bv := ⟨8, if b then 1#8 else 0#8⟩
instance : ToString Bv := ⟨fun b => s!"{b.w}:{b.v.toNat}"⟩

theorem ext' {a b : Bv} (hw : a.w = b.w) (hv : a.v.toNat = b.v.toNat) : a = b := by
  cases a with | mk aw av => cases b with | mk bw bv =>
  simp only at hw; subst hw
  simp only at hv
  rw [BitVec.eq_of_toNat_eq hv]

end Bv

/-- outcome of a constant-folding step: a value, `Err(..)` ("unknown"), or a panic of the real code
(operand sizes outside the operation's domain). -/
inductive Res where
  | val (b : Bv)
  | unknown
  | panic

instance : BEq Res := ⟨fun a b => match a, b with
  | .val x, .val y => x == y
  | .unknown, .unknown => true
  | .panic, .panic => true
  | _, _ => false⟩
instance : ToString Res := ⟨fun r => match r with
  | .val b => s!"v{b}" | .unknown => "u" | .panic => "p"⟩

/-! ## P-Code reference semantics on fixed widths (arithmetic formulas) -/
namespace Ref
variable {w : Nat}

/-- INT_CARRY: unsigned addition overflows -/
def carry (x y : BitVec w) : Bool := decide (x.toNat + y.toNat ≥ 2 ^ w)
/-- INT_SCARRY: signed addition overflows -/
def scarry (x y : BitVec w) : Bool :=
  decide (x.toInt + y.toInt ≥ 2 ^ (w - 1)) || decide (x.toInt + y.toInt < -2 ^ (w - 1))
/-- INT_SBORROW: signed subtraction overflows -/
def sborrow (x y : BitVec w) : Bool :=
  decide (x.toInt - y.toInt ≥ 2 ^ (w - 1)) || decide (x.toInt - y.toInt < -2 ^ (w - 1))
def eq (x y : BitVec w) : Bool := decide (x.toNat = y.toNat)
def less (x y : BitVec w) : Bool := decide (x.toNat < y.toNat)
def lessEq (x y : BitVec w) : Bool := decide (x.toNat ≤ y.toNat)
def sless (x y : BitVec w) : Bool := decide (x.toInt < y.toInt)
def slessEq (x y : BitVec w) : Bool := decide (x.toInt ≤ y.toInt)
def add (x y : BitVec w) : BitVec w := BitVec.ofNat w (x.toNat + y.toNat)
def sub (x y : BitVec w) : BitVec w := BitVec.ofInt w (x.toInt - y.toInt)
def mul (x y : BitVec w) : BitVec w := BitVec.ofNat w (x.toNat * y.toNat)
/-- INT_DIV / INT_REM: unsigned; undefined (unknown) for a zero divisor — decided by the caller -/
def udiv (x y : BitVec w) : BitVec w := BitVec.ofNat w (x.toNat / y.toNat)
def urem (x y : BitVec w) : BitVec w := BitVec.ofNat w (x.toNat % y.toNat)
/-- INT_SDIV / INT_SREM: signed, truncating towards zero, remainder has the sign of the dividend -/
def sdiv (x y : BitVec w) : BitVec w := BitVec.ofInt w (Int.tdiv x.toInt y.toInt)
def srem (x y : BitVec w) : BitVec w := BitVec.ofInt w (Int.tmod x.toInt y.toInt)
/-- INT_LEFT: shifted-out bits are lost; any amount ≥ width gives 0 -/
def shl (x : BitVec w) (n : Nat) : BitVec w := BitVec.ofNat w (x.toNat * 2 ^ n)
/-- INT_RIGHT: unsigned shift -/
def shr (x : BitVec w) (n : Nat) : BitVec w := BitVec.ofNat w (x.toNat / 2 ^ n)
/-- INT_SRIGHT: arithmetic shift = floor division of the signed value -/
def sar (x : BitVec w) (n : Nat) : BitVec w := BitVec.ofInt w (x.toInt / 2 ^ n)
/-- PIECE: concatenation, first operand most significant -/
def piece {w₁ w₂ : Nat} (x : BitVec w₁) (y : BitVec w₂) : BitVec (w₁ + w₂) :=
  BitVec.ofNat (w₁ + w₂) (x.toNat * 2 ^ w₂ + y.toNat)
/-- SUBPIECE: drop `low` least significant bits, keep `size` bits -/
def subpiece (x : BitVec w) (low size : Nat) : BitVec size := BitVec.ofNat size (x.toNat / 2 ^ low)
def zext (x : BitVec w) (v : Nat) : BitVec v := BitVec.ofNat v x.toNat
def sext (x : BitVec w) (v : Nat) : BitVec v := BitVec.ofInt v x.toInt
/-- INT_2COMP -/
def neg (x : BitVec w) : BitVec w := BitVec.ofInt w (-x.toInt)
/-- INT_NEGATE: bitwise complement -/
def not (x : BitVec w) : BitVec w := BitVec.ofNat w (2 ^ w - 1 - x.toNat)
/-- number of set bits / of leading zero bits: core's `cpop`/`clz` are taken as the reference for these
two primitives (apint `count_ones`/`leading_zeros` ↔ `cpop`/`clz` is part of the trusted primitive
correspondence); what is proved is the resize logic around them. -/
def popcount (x : BitVec w) : Nat := x.cpop.toNat
def lzcount (x : BitVec w) : Nat := x.clz.toNat

end Ref

/-! ## Model of `bitvector.rs` on fixed widths -/
namespace Impl
variable {w : Nat}

/-- `IntCarry`: `result.checked_ult(self) || result.checked_ult(rhs)` -/
def carry (x y : BitVec w) : Bool := (x + y).ult x || (x + y).ult y
/-- `IntSCarry` -/
def scarry (x y : BitVec w) : Bool :=
  let r := x + y
  (r.msb && !x.msb && !y.msb) || (!r.msb && x.msb && y.msb)
/-- `IntSBorrow` (after the `fix:` commit: `signed_self.is_positive()` in the first clause) -/
def sborrow (x y : BitVec w) : Bool :=
  let r := x - y
  (r.msb && !x.msb && y.msb) || (!r.msb && x.msb && !y.msb)
/-- `IntLeft`: `if shift_amount < width { shl } else { zero }` -/
def shl (x : BitVec w) (n : Nat) : BitVec w := if n < w then x <<< n else 0#w
def shr (x : BitVec w) (n : Nat) : BitVec w := if n < w then x >>> n else 0#w
/-- `IntSRight`: beyond the width the result is all sign bits -/
def sar (x : BitVec w) (n : Nat) : BitVec w :=
  if n < w then x.sshiftRight n else if x.msb then 0#w - 1#w else 0#w
/-- `Piece`: zero-extend both to the new width, shift the upper part, or -/
def piece {w₁ w₂ : Nat} (x : BitVec w₁) (y : BitVec w₂) : BitVec (w₁ + w₂) :=
  (x.setWidth (w₁ + w₂) <<< w₂) ||| y.setWidth (w₁ + w₂)
/-- `subpiece`: `into_checked_lshr(low).into_truncate(size)` -/
def subpiece (x : BitVec w) (low size : Nat) : BitVec size := (x >>> low).setWidth size
/-- `PopCount` cast: `from_u64(count_ones).into_resize_unsigned(width)` -/
def popcountCast (x : BitVec w) (v : Nat) : BitVec v := (BitVec.ofNat 64 x.cpop.toNat).setWidth v
def lzcountCast (x : BitVec w) (v : Nat) : BitVec v := (BitVec.ofNat 64 x.clz.toNat).setWidth v

/-- `signed_add_overflow_checked`: `None` on signed overflow.
`match (rhs.sign_bit(), self.checked_sle(&result)) { (true,true)|(false,false) => None, _ => Some(result) }` -/
def saddChecked (x y : BitVec w) : Option (BitVec w) :=
  let r := x + y
  match y.msb, x.sle r with
  | true, true | false, false => none
  | _, _ => some r
/-- `signed_sub_overflow_checked` (`self.checked_sge(&result)` is `result ≤ₛ self`) -/
def ssubChecked (x y : BitVec w) : Option (BitVec w) :=
  let r := x - y
  match y.msb, r.sle x with
  | true, true | false, false => none
  | _, _ => some r
/-- `signed_mult_with_overflow_flag` (after the `fix:` commits: `-1 * MIN` is reported as overflow);
`none` = `Err` for widths above 64 bit -/
def smulFlag (x y : BitVec w) : Option (BitVec w × Bool) :=
  if x == 0#w then some (0#w, false)
  else if w > 64 then none
  else
    let r := x * y
    let special := (x == -1#w) && (y == BitVec.intMin w)
    some (r, special || (r.sdiv x != y))

end Impl

/-! ## Dynamic-width operations (the API level of `Bitvector::bin_op/un_op/cast/subpiece`) -/

/-- apply a same-width kernel; different widths make the real code panic (apint `unwrap`) -/
def sameW (a b : Bv) (f : {w : Nat} → BitVec w → BitVec w → Res) : Res :=
  if h : a.w = b.w then f a.v (h ▸ b.v) else .panic

/-- same, for the division arms: `into_checked_udiv(rhs)?` turns apint's width-mismatch error into `Err` -/
def sameWErr (a b : Bv) (f : {w : Nat} → BitVec w → BitVec w → Res) : Res :=
  if h : a.w = b.w then f a.v (h ▸ b.v) else .unknown

def valB (b : Bool) : Res := .val (Bv.ofBool b)
def valV {w : Nat} (v : BitVec w) : Res := .val ⟨w, v⟩

open IR in
/-- **Reference**: the value the P-Code manual defines, `unknown` for float operations,
multiplication/division wider than 64 bit and division by zero. -/
def Ref.binOp (op : BinOpType) (a b : Bv) : Res :=
  match op with
  | .Piece => valV (Ref.piece a.v b.v)
  | .IntEqual => sameW a b fun x y => valB (Ref.eq x y)
  | .IntNotEqual => sameW a b fun x y => valB (!Ref.eq x y)
  | .IntLess => sameW a b fun x y => valB (Ref.less x y)
  | .IntSLess => sameW a b fun x y => valB (Ref.sless x y)
  | .IntLessEqual => sameW a b fun x y => valB (Ref.lessEq x y)
  | .IntSLessEqual => sameW a b fun x y => valB (Ref.slessEq x y)
  | .IntAdd => sameW a b fun x y => valV (Ref.add x y)
  | .IntSub => sameW a b fun x y => valV (Ref.sub x y)
  | .IntCarry => sameW a b fun x y => valB (Ref.carry x y)
  | .IntSCarry => sameW a b fun x y => valB (Ref.scarry x y)
  | .IntSBorrow => sameW a b fun x y => valB (Ref.sborrow x y)
  | .IntXOr | .BoolXOr => sameW a b fun x y => valV (x ^^^ y)
  | .IntAnd | .BoolAnd => sameW a b fun x y => valV (x &&& y)
  | .IntOr | .BoolOr => sameW a b fun x y => valV (x ||| y)
  -- shift amounts are clamped to the width for executability only: by `Ref.shl_clamp` etc. (C01.Props)
  -- `Ref.shl x (min n w) = Ref.shl x n`. Amounts that do not fit a u64 make the real code panic.
  | .IntLeft => if b.toNat < 2 ^ 64 then valV (Ref.shl a.v (min b.toNat a.w)) else .panic
  | .IntRight => if b.toNat < 2 ^ 64 then valV (Ref.shr a.v (min b.toNat a.w)) else .panic
  | .IntSRight => if b.toNat < 2 ^ 64 then valV (Ref.sar a.v (min b.toNat a.w)) else .panic
  | .IntMult => if a.w > 64 then .unknown else sameW a b fun x y => valV (Ref.mul x y)
  | .IntDiv => if a.w > 64 then .unknown else sameW a b fun x y =>
      if y.toNat = 0 then .unknown else valV (Ref.udiv x y)
  | .IntRem => if a.w > 64 then .unknown else sameW a b fun x y =>
      if y.toNat = 0 then .unknown else valV (Ref.urem x y)
  | .IntSDiv => if a.w > 64 then .unknown else sameW a b fun x y =>
      if y.toNat = 0 then .unknown else valV (Ref.sdiv x y)
  | .IntSRem => if a.w > 64 then .unknown else sameW a b fun x y =>
      if y.toNat = 0 then .unknown else valV (Ref.srem x y)
  | .FloatEqual | .FloatNotEqual | .FloatLess | .FloatLessEqual
  | .FloatAdd | .FloatSub | .FloatMult | .FloatDiv => .unknown

open IR in
/-- **Model** of `Bitvector::bin_op` (bitvector.rs), match arm by match arm. -/
def Impl.binOp (op : BinOpType) (a b : Bv) : Res :=
  match op with
  | .Piece => valV (Impl.piece a.v b.v)
  | .IntAdd => sameW a b fun x y => valV (x + y)
  | .IntSub => sameW a b fun x y => valV (x - y)
  | .IntCarry => sameW a b fun x y => valB (Impl.carry x y)
  | .IntSCarry => sameW a b fun x y => valB (Impl.scarry x y)
  | .IntSBorrow => sameW a b fun x y => valB (Impl.sborrow x y)
  | .IntMult => if a.w > 64 then .unknown else sameW a b fun x y => valV (x * y)
  | .IntDiv => if a.w > 64 then .unknown else sameWErr a b fun x y =>
      if y == 0 then .unknown else valV (x / y)
  | .IntSDiv => if a.w > 64 then .unknown else sameWErr a b fun x y =>
      if y == 0 then .unknown else valV (x.sdiv y)
  | .IntRem => if a.w > 64 then .unknown else sameWErr a b fun x y =>
      if y == 0 then .unknown else valV (x % y)
  | .IntSRem => if a.w > 64 then .unknown else sameWErr a b fun x y =>
      if y == 0 then .unknown else valV (x.srem y)
  | .IntLeft => if b.toNat < 2 ^ 64 then valV (Impl.shl a.v b.toNat) else .panic
  | .IntRight => if b.toNat < 2 ^ 64 then valV (Impl.shr a.v b.toNat) else .panic
  | .IntSRight => if b.toNat < 2 ^ 64 then valV (Impl.sar a.v b.toNat) else .panic
  | .IntAnd | .BoolAnd => sameW a b fun x y => valV (x &&& y)
  | .IntOr | .BoolOr => sameW a b fun x y => valV (x ||| y)
  | .IntXOr | .BoolXOr => sameW a b fun x y => valV (x ^^^ y)
  | .IntEqual => sameW a b fun x y => valB (x == y)
  | .IntNotEqual => sameW a b fun x y => valB (x != y)
  | .IntLess => sameW a b fun x y => valB (x.ult y)
  | .IntLessEqual => sameW a b fun x y => valB (x.ule y)
  | .IntSLess => sameW a b fun x y => valB (x.slt y)
  | .IntSLessEqual => sameW a b fun x y => valB (x.sle y)
  | .FloatEqual | .FloatNotEqual | .FloatLess | .FloatLessEqual
  | .FloatAdd | .FloatSub | .FloatMult | .FloatDiv => .unknown

open IR in
def Ref.unOp (op : UnOpType) (a : Bv) : Res :=
  match op with
  | .Int2Comp => valV (Ref.neg a.v)
  | .IntNegate => valV (Ref.not a.v)
  | .BoolNegate =>
    -- BOOL_NEGATE is defined on booleans (0 or 1) only
    if a.toNat = 0 then valB true else if a.w = 8 ∧ a.toNat = 1 then valB false else .panic
  | _ => .unknown

open IR in
/-- model of `Bitvector::un_op` -/
def Impl.unOp (op : UnOpType) (a : Bv) : Res :=
  match op with
  | .Int2Comp => valV (-a.v)
  | .IntNegate => valV (~~~a.v)
  | .BoolNegate =>
    if a.v == 0 then valB true
    else if a == Bv.ofNat 8 1 then valB false else .panic     -- `assert_eq!(self, from_u8(1))`
  | _ => .unknown

open IR in
def Ref.cast (op : CastOpType) (bytes : Nat) (a : Bv) : Res :=
  match op with
  | .IntZExt => if a.w ≤ 8 * bytes then valV (Ref.zext a.v (8 * bytes)) else .panic
  | .IntSExt => if a.w ≤ 8 * bytes then valV (Ref.sext a.v (8 * bytes)) else .panic
  | .PopCount => valV (BitVec.ofNat (8 * bytes) (Ref.popcount a.v))
  | .LzCount => valV (BitVec.ofNat (8 * bytes) (Ref.lzcount a.v))
  | .Int2Float | .Float2Float | .Trunc => .unknown

open IR in
/-- model of `Bitvector::cast`; `into_zero_extend(width).unwrap()` panics when narrowing -/
def Impl.cast (op : CastOpType) (bytes : Nat) (a : Bv) : Res :=
  match op with
  | .IntZExt => if a.w ≤ 8 * bytes then valV (a.v.setWidth (8 * bytes)) else .panic
  | .IntSExt => if a.w ≤ 8 * bytes then valV (a.v.signExtend (8 * bytes)) else .panic
  | .PopCount => valV (Impl.popcountCast a.v (8 * bytes))
  | .LzCount => valV (Impl.lzcountCast a.v (8 * bytes))
  | .Int2Float | .Float2Float | .Trunc => .unknown

/-- SUBPIECE is defined when the extracted bytes lie inside the operand -/
def Ref.subpieceOp (lowByte size : Nat) (a : Bv) : Res :=
  if 8 * lowByte < a.w ∧ 8 * size ≤ a.w then valV (Ref.subpiece a.v (8 * lowByte) (8 * size)) else .panic

/-- model of `Bitvector::subpiece`: `into_checked_lshr` needs shift < width, `into_truncate` needs
target ≤ width -/
def Impl.subpieceOp (lowByte size : Nat) (a : Bv) : Res :=
  if 8 * lowByte < a.w ∧ 8 * size ≤ a.w then valV (Impl.subpiece a.v (8 * lowByte) (8 * size)) else .panic

end CweModel
