/-
Line protocol shared by all model drivers: one case per input line, one verdict per output line.

verdict grammar (first token decides):
  ok [tags…]                     model = implementation and the executable spec holds
  diff class=<c> model=<…> …     model ≠ implementation, spec still holds on the implementation output
  spec class=<c> expected=<…> …  implementation output violates the executable specification
  bad <reason>                   the driver could not interpret the line
-/
import Lean.Data.Json
open Lean

namespace CweModel.Proto

partial def loop (h : IO.FS.Stream) (out : IO.FS.Stream) (handle : String → String) : IO Unit := do
  let line ← h.getLine
  if line.isEmpty then return ()
  let l := if line.back == '\n' then (line.dropEnd 1).toString else line
  out.putStrLn (handle l)
  loop h out handle

def runDriver (handle : String → String) : IO Unit := do
  let stdin ← IO.getStdin
  let stdout ← IO.getStdout
  loop stdin stdout handle
  stdout.flush

/-- run an `Except`-valued handler, mapping errors to `bad …` -/
def guarded (f : String → Except String String) (line : String) : String :=
  match f line with
  | .ok s => s
  | .error e => "bad " ++ (e.replace "\n" " ")

def hexDigit (c : Char) : Option Nat :=
  if '0' ≤ c ∧ c ≤ '9' then some (c.toNat - '0'.toNat)
  else if 'a' ≤ c ∧ c ≤ 'f' then some (c.toNat - 'a'.toNat + 10)
  else if 'A' ≤ c ∧ c ≤ 'F' then some (c.toNat - 'A'.toNat + 10)
  else none

/-- "0aff" ↦ [10, 255] -/
def hexBytes (s : String) : Except String (List Nat) :=
  let rec go : List Char → List Nat → Except String (List Nat)
    | [], acc => .ok acc.reverse
    | [_], _ => .error "odd hex length"
    | a :: b :: rest, acc =>
      match hexDigit a, hexDigit b with
      | some x, some y => go rest ((x * 16 + y) :: acc)
      | _, _ => .error "bad hex digit"
  go s.toList []

def toHex2 (n : Nat) : String :=
  let d (k : Nat) : Char := if k < 10 then Char.ofNat (48 + k) else Char.ofNat (87 + k)
  String.ofList [d (n / 16 % 16), d (n % 16)]

def bytesHex (bs : List Nat) : String := String.join (bs.map toHex2)

def field (j : Json) (k : String) : Except String Json := j.getObjVal? k
def natF (j : Json) (k : String) : Except String Nat := do (← j.getObjVal? k).getNat?
def intF (j : Json) (k : String) : Except String Int := do (← j.getObjVal? k).getInt?
def strF (j : Json) (k : String) : Except String String := do (← j.getObjVal? k).getStr?
def boolF (j : Json) (k : String) : Except String Bool := do (← j.getObjVal? k).getBool?
def arrF (j : Json) (k : String) : Except String (List Json) := do
  return (← (← j.getObjVal? k).getArr?).toList
def optF (j : Json) (k : String) : Option Json := (j.getObjVal? k).toOption

def mapM' {α β} (f : α → Except String β) : List α → Except String (List β)
  | [] => .ok []
  | a :: as => do
    let b ← f a
    let bs ← mapM' f as
    return b :: bs

end CweModel.Proto
