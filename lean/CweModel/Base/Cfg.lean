/-
Model of the interprocedural control flow graph of cwe_checker
(`src/cwe_checker_lib/src/analysis/graph.rs`): `Node`, `Edge` 1:1 with the Rust enums, and
`buildCfg`, which mirrors `GraphBuilder::build` function by function.

Representation choices (all exercised by the C08 correspondence run):
* `petgraph::DiGraph<Node, Edge>` ↔ `Graph`: the list of node weights and the list of edges, both in
  insertion order. An edge names its endpoints by their node *weights* instead of petgraph indices.
  For programs with unique TIDs (`CfgReady`) node weights are pairwise different
  (`C08.Props.buildCfg_nodes_nodup`), so nothing is lost; for other programs the model describes the
  real graph up to identification of equal node weights.
* `HashMap` ↔ association list, newest binding first (`insert` overwrites = shadowing).
  `return_addresses : HashMap<Tid, Vec<_>>` ↔ one flat list of `(callee tid, call source, return-to)`
  in insertion order; `return_addresses[tid]` = the entries with that tid, in order.
* `block_worklist : Vec<NodeIndex>` (a stack of `BlkEnd` nodes) ↔ list of the `(block, sub)` pairs of
  these nodes, top of the stack first.
* `&'a Term<Blk>` / `&'a Term<Sub>` ↔ the terms themselves.
* A Rust panic (`unwrap` of a missing block, more than two jumps) ↔ `Except.error "panic:…"`.
  The `while let Some(..) = worklist.pop()` loop gets fuel `(#blocks + 1) * (#subs + 1)`: every
  iteration consumes one `add_block`, and there is at most one `add_block` per listed block plus one
  per (block tid, sub tid) key. Under `CfgReady` the fuel is proved sufficient.

JSON-free, core only.
-/
import CweModel.Base.IR

namespace CweModel.Cfg
open CweModel.IR

/-- `(&Term<Blk>, &Term<Sub>)` -/
abbrev BlkSub := Term Blk × Term Sub

/-- `analysis::graph::Node` -/
inductive Node where
  | BlkStart (blk : Term Blk) (sub : Term Sub)
  | BlkEnd (blk : Term Blk) (sub : Term Sub)
  | CallReturn (call : BlkSub) (ret : BlkSub)
  | CallSource (source : BlkSub) (target : BlkSub)
deriving DecidableEq, Repr, Inhabited

/-- `analysis::graph::Edge` -/
inductive Edge where
  | Block
  | Jump (jmp : Term Jmp) (untakenConditional : Option (Term Jmp))
  | Call (jmp : Term Jmp)
  | ExternCallStub (jmp : Term Jmp)
  | CrCallStub
  | CrReturnStub
  | CallCombine (jmp : Term Jmp)
  | ReturnCombine (jmp : Term Jmp)
deriving DecidableEq, Repr, Inhabited

/-- an edge of the graph with its endpoints -/
structure EdgeRef where
  src : Node
  dst : Node
  label : Edge
deriving DecidableEq, Repr, Inhabited

/-- `Graph<'a> = DiGraph<Node<'a>, Edge<'a>>`: node weights and edges in insertion order -/
structure Graph where
  nodes : List Node := []
  edges : List EdgeRef := []
deriving DecidableEq, Repr, Inhabited

/-- `Node::get_block` (`none` = the Rust function panics) -/
def Node.getBlock? : Node → Option (Term Blk)
  | .BlkStart b _ | .BlkEnd b _ => some b
  | _ => none

/-- `Node::get_sub` (`none` = the Rust function panics) -/
def Node.getSub? : Node → Option (Term Sub)
  | .BlkStart _ s | .BlkEnd _ s => some s
  | _ => none

/-- `graph.edges(node)`: petgraph walks the outgoing edges newest first. -/
def Graph.outEdges (g : Graph) (n : Node) : List EdgeRef :=
  (g.edges.filter (fun e => decide (e.src = n))).reverse

/-- `graph.neighbors(node)` -/
def Graph.neighbors (g : Graph) (n : Node) : List Node := (g.outEdges n).map (·.dst)

/-! ### small helpers -/

/-- `HashMap::get` on an association list (newest binding first) -/
def lookup {κ ν : Type} [DecidableEq κ] (k : κ) : List (κ × ν) → Option ν
  | [] => none
  | (k', v) :: rest => if k' = k then some v else lookup k rest

def isReturn (j : Term Jmp) : Bool := match j.term with | .Return _ => true | _ => false
def isCall (j : Term Jmp) : Bool := match j.term with | .Call _ _ => true | _ => false

/-- `Program::find_block`: the first block with that TID, subs in key order -/
def findBlock (p : Program) (t : Tid) : Option (Term Blk) :=
  (p.subs.flatMap (·.term.blocks)).find? (fun b => decide (b.tid = t))

/-- `program.term.extern_symbols.keys()` -/
def externTids (p : Program) : List Tid := p.externSymbols.map (·.tid)

/-- `extern_subs.contains(target)` -/
def isExtern (p : Program) (t : Tid) : Bool := (externTids p).any (fun e => decide (e = t))

/-- all `(block, sub)` pairs of the program in the order of
`for sub in subs.values() { for block in sub.term.blocks.iter() {..} }` -/
def pairs (p : Program) : List BlkSub :=
  p.subs.flatMap (fun s => s.term.blocks.map (fun b => (b, s)))

/-! ### `GraphBuilder` -/

structure Builder where
  nodes : List Node := []
  edges : List EdgeRef := []
  /-- `call_targets`: sub tid ↦ the `BlkStart` node (as `(block, sub)`) of its entry -/
  callTargets : List (Tid × BlkSub) := []
  /-- `jump_targets`: (block tid, sub tid) ↦ the `BlkStart`/`BlkEnd` nodes (as `(block, sub)`) -/
  jumpTargets : List ((Tid × Tid) × BlkSub) := []
  /-- `return_addresses`, flattened: (callee tid, CallSource node, return-to node) -/
  returnAddresses : List (Tid × Node × Node) := []
  /-- `block_worklist`, top of the stack first -/
  worklist : List BlkSub := []
deriving Repr, Inhabited

def Builder.addNode (b : Builder) (n : Node) : Builder := { b with nodes := b.nodes ++ [n] }

def Builder.addEdge (b : Builder) (s d : Node) (l : Edge) : Builder :=
  { b with edges := b.edges ++ [⟨s, d, l⟩] }

/-- `GraphBuilder::add_block` -/
def Builder.addBlock (b : Builder) (blk : Term Blk) (sub : Term Sub) : Builder :=
  { b with
    nodes := b.nodes ++ [.BlkStart blk sub, .BlkEnd blk sub]
    jumpTargets := ((blk.tid, sub.tid), (blk, sub)) :: b.jumpTargets
    edges := b.edges ++ [⟨.BlkStart blk sub, .BlkEnd blk sub, .Block⟩]
    worklist := (blk, sub) :: b.worklist }

/-- `GraphBuilder::add_program_blocks` -/
def Builder.addProgramBlocks (p : Program) (b : Builder) : Builder :=
  p.subs.foldl (fun b sub => sub.term.blocks.foldl (fun b blk => b.addBlock blk sub) b) b

/-- body of the loop of `GraphBuilder::add_subs_to_call_targets` (the log message of the
else-branch is not modelled) -/
def Builder.addSubToCallTargets (b : Builder) (sub : Term Sub) : Builder :=
  match sub.term.blocks with
  | start :: _ =>
    match lookup (start.tid, sub.tid) b.jumpTargets with
    | some target => { b with callTargets := (sub.tid, target) :: b.callTargets }
    | none => b   -- unreachable: `add_program_blocks` inserted the key
  | [] => b

/-- `GraphBuilder::add_subs_to_call_targets` -/
def Builder.addSubsToCallTargets (p : Program) (b : Builder) : Builder :=
  p.subs.foldl Builder.addSubToCallTargets b

/-- The expression used three times in `graph.rs`
(`add_intraprocedural_edge`, `Jmp::Call`, `Jmp::CallInd`):
`if let Some((n, _)) = jump_targets.get(&(tid, sub.tid)) { n } else { add_block(find_block(tid).unwrap(), sub).0 }`.
Returns the `(block, sub)` of the `BlkStart` node. -/
def getOrAddTarget (p : Program) (b : Builder) (sub : Term Sub) (t : Tid) :
    Except String (Builder × BlkSub) :=
  match lookup (t, sub.tid) b.jumpTargets with
  | some bs => .ok (b, bs)
  | none =>
    match findBlock p t with
    | some blk => .ok (b.addBlock blk sub, (blk, sub))
    | none => .error "panic:find_block(target).unwrap()"

/-- `GraphBuilder::add_intraprocedural_edge`; `src` is the `(block, sub)` of the `BlkEnd` source. -/
def addIntraproceduralEdge (p : Program) (b : Builder) (src : BlkSub) (t : Tid) (jmp : Term Jmp)
    (untaken : Option (Term Jmp)) : Except String Builder :=
  match getOrAddTarget p b src.2 t with
  | .ok (b', tgt) => .ok (b'.addEdge (.BlkEnd src.1 src.2) (.BlkStart tgt.1 tgt.2) (.Jump jmp untaken))
  | .error e => .error e

/-- `GraphBuilder::add_indirect_jumps`: the loop over `source_block.term.indirect_jmp_targets` -/
def addIndirectJumps (p : Program) (src : BlkSub) (jmp : Term Jmp) (untaken : Option (Term Jmp)) :
    Builder → List Tid → Except String Builder
  | b, [] => .ok b
  | b, t :: ts =>
    match addIntraproceduralEdge p b src t jmp untaken with
    | .ok b' => addIndirectJumps p src jmp untaken b' ts
    | .error e => .error e

/-- `GraphBuilder::add_jump_edge` -/
def addJumpEdge (p : Program) (b : Builder) (src : BlkSub) (jmp : Term Jmp)
    (untaken : Option (Term Jmp)) : Except String Builder :=
  match jmp.term with
  | .Branch t | .CBranch t _ => addIntraproceduralEdge p b src t jmp untaken
  | .BranchInd _ => addIndirectJumps p src jmp untaken b src.1.term.indirectJmpTargets
  | .Call target ret =>
    -- first make sure that the return block exists
    let r : Except String (Builder × Option BlkSub) :=
      match ret with
      | some rt =>
        match getOrAddTarget p b src.2 rt with
        | .ok (b', n) => .ok (b', some n)
        | .error e => .error e
      | none => .ok (b, none)
    match r with
    | .error e => .error e
    | .ok (b, retTo) =>
      if isExtern p target then
        match retTo with
        | some rn => .ok (b.addEdge (.BlkEnd src.1 src.2) (.BlkStart rn.1 rn.2) (.ExternCallStub jmp))
        | none => .ok b
      else
        match lookup target b.callTargets with
        | some tgt =>
          let cs := Node.CallSource src tgt
          let b := ((b.addNode cs).addEdge (.BlkEnd src.1 src.2) cs (.CallCombine jmp)).addEdge cs
            (.BlkStart tgt.1 tgt.2) (.Call jmp)
          match retTo with
          | some rn =>
            .ok { b with returnAddresses := b.returnAddresses ++ [(target, cs, .BlkStart rn.1 rn.2)] }
          | none => .ok b
        | none => .ok b
  | .CallInd _ ret =>
    match ret with
    | some rt =>
      match getOrAddTarget p b src.2 rt with
      | .ok (b', rn) =>
        .ok (b'.addEdge (.BlkEnd src.1 src.2) (.BlkStart rn.1 rn.2) (.ExternCallStub jmp))
      | .error e => .error e
    | none => .ok b
  | .CallOther _ _ => .ok b
  | .Return _ => .ok b

/-- `GraphBuilder::add_outgoing_edges` -/
def addOutgoingEdges (p : Program) (b : Builder) (src : BlkSub) : Except String Builder :=
  match src.1.term.jmps with
  | [] => .ok b
  | [jump] => addJumpEdge p b src jump none
  | [ifJump, elseJump] =>
    match addJumpEdge p b src ifJump none with
    | .ok b' => addJumpEdge p b' src elseJump (some ifJump)
    | .error e => .error e
  | _ => .error "panic:Basic block with more than 2 jumps encountered"

/-- `GraphBuilder::add_jump_and_call_edges`: `while let Some(node) = self.block_worklist.pop()` -/
def addJumpAndCallEdges (p : Program) : Nat → Builder → Except String Builder
  | 0, b => match b.worklist with
    | [] => .ok b
    | _ :: _ => .error "fuel"
  | fuel + 1, b =>
    match b.worklist with
    | [] => .ok b
    | src :: rest =>
      match addOutgoingEdges p { b with worklist := rest } src with
      | .ok b' => addJumpAndCallEdges p fuel b'
      | .error e => .error e

/-- `return_from_vec` of `add_return_edges`: the `BlkEnd` nodes whose block has a `Return` jump -/
def returnFromNodes (nodes : List Node) : List BlkSub :=
  nodes.filterMap (fun n =>
    match n with
    | .BlkEnd blk sub => if blk.term.jmps.any isReturn then some (blk, sub) else none
    | _ => none)

/-- one iteration of the loop in `GraphBuilder::add_call_return_node_and_edges` -/
def addCallReturn (b : Builder) (rf : BlkSub) (ra : Tid × Node × Node) : Except String Builder :=
  match ra.2.1 with
  | .CallSource source _ =>
    match source.1.term.jmps.find? isCall with
    | some callTerm =>
      let cr := Node.CallReturn source rf
      .ok ((((b.addNode cr).addEdge ra.2.1 cr .CrCallStub).addEdge (.BlkEnd rf.1 rf.2) cr .CrReturnStub).addEdge
        cr ra.2.2 (.ReturnCombine callTerm))
    | none => .error "panic:call term not found"
  | _ => .error "panic:call node is not a CallSource"

def foldE {α β : Type} (f : β → α → Except String β) : β → List α → Except String β
  | b, [] => .ok b
  | b, a :: as =>
    match f b a with
    | .ok b' => foldE f b' as
    | .error e => .error e

/-- `GraphBuilder::add_call_return_node_and_edges` -/
def addCallReturnNodeAndEdges (b : Builder) (rf : BlkSub) : Except String Builder :=
  foldE (fun b ra => addCallReturn b rf ra) b
    (b.returnAddresses.filter (fun ra => decide (ra.1 = rf.2.tid)))

/-- `GraphBuilder::add_return_edges` -/
def addReturnEdges (b : Builder) : Except String Builder :=
  foldE addCallReturnNodeAndEdges b (returnFromNodes b.nodes)

def buildFuel (p : Program) : Nat := ((pairs p).length + 1) * (p.subs.length + 1)

/-- `GraphBuilder::build` -/
def buildE (p : Program) : Except String Builder :=
  let b : Builder := {}
  let b := b.addProgramBlocks p
  let b := b.addSubsToCallTargets p
  match addJumpAndCallEdges p (buildFuel p) b with
  | .ok b => addReturnEdges b
  | .error e => .error e

/-- `get_program_cfg`; `error "panic:…"` = the Rust function panics -/
def buildCfgE (p : Program) : Except String Graph :=
  match buildE p with
  | .ok b => .ok ⟨b.nodes, b.edges⟩
  | .error e => .error e

/-- `get_program_cfg` for callers that only deal with programs on which it does not panic
(`CfgReady`, see `C08.Props.buildCfgE_ok`); the empty graph otherwise. -/
def buildCfg (p : Program) : Graph :=
  match buildCfgE p with
  | .ok g => g
  | .error _ => {}

/-- `get_entry_nodes_of_subs`: sub tid ↦ `BlkStart` node of the first block (as an association list,
newest binding first). -/
def entryNodesOfSubs (g : Graph) : List (Tid × Node) :=
  g.nodes.foldl (fun m n =>
    match n with
    | .BlkStart blk sub =>
      match sub.term.blocks with
      | entry :: _ => if blk.tid = entry.tid then (sub.tid, n) :: m else m
      | [] => m
    | _ => m) []

/-! ### well-formedness -/

/-- the jump and return targets of `j` that have to be blocks of the same function -/
def intraTargets (j : Term Jmp) : List Tid :=
  match j.term with
  | .Branch t | .CBranch t _ => [t]
  | .Call _ (some r) | .CallInd _ (some r) | .CallOther _ (some r) => [r]
  | _ => []

def isCBranch (j : Term Jmp) : Bool := match j.term with | .CBranch _ _ => true | _ => false

/-- "each basic block ends with zero, one or two jump instructions; in the case of two the first one
is a conditional jump" (module documentation of `graph.rs`, General assumptions) -/
def jmpShapeOk (b : Term Blk) : Bool :=
  match b.term.jmps with
  | [] | [_] => true
  | [j, _] => isCBranch j
  | _ => false

/-- What the graph construction needs from a program (each item is established by
`Project::normalize_basic` or assumed by `graph.rs`):
function TIDs unique, block TIDs unique inside each function, at most two jumps per block (the first
of two a `CBranch`), and every direct jump target, indirect-jump hint and return site of a block is
a block of the same function. -/
structure CfgReady (p : Program) : Prop where
  subTids : (p.subs.map (·.tid)).Nodup
  blkTids : ∀ s ∈ p.subs, (s.term.blocks.map (·.tid)).Nodup
  shape : ∀ s ∈ p.subs, ∀ b ∈ s.term.blocks, jmpShapeOk b = true
  targets : ∀ s ∈ p.subs, ∀ b ∈ s.term.blocks, ∀ j ∈ b.term.jmps, ∀ t ∈ intraTargets j,
    ∃ tb ∈ s.term.blocks, tb.tid = t
  hints : ∀ s ∈ p.subs, ∀ b ∈ s.term.blocks, ∀ t ∈ b.term.indirectJmpTargets,
    ∃ tb ∈ s.term.blocks, tb.tid = t

instance (p : Program) : Decidable (CfgReady p) :=
  if h : (p.subs.map (·.tid)).Nodup ∧ (∀ s ∈ p.subs, (s.term.blocks.map (·.tid)).Nodup) ∧
      (∀ s ∈ p.subs, ∀ b ∈ s.term.blocks, jmpShapeOk b = true) ∧
      (∀ s ∈ p.subs, ∀ b ∈ s.term.blocks, ∀ j ∈ b.term.jmps, ∀ t ∈ intraTargets j,
        ∃ tb ∈ s.term.blocks, tb.tid = t) ∧
      (∀ s ∈ p.subs, ∀ b ∈ s.term.blocks, ∀ t ∈ b.term.indirectJmpTargets,
        ∃ tb ∈ s.term.blocks, tb.tid = t)
  then isTrue ⟨h.1, h.2.1, h.2.2.1, h.2.2.2.1, h.2.2.2.2⟩
  else isFalse (fun w => h ⟨w.subTids, w.blkTids, w.shape, w.targets, w.hints⟩)

/-- all TIDs of subs, blocks, defs and jumps of the program -/
def allTids (p : Program) : List Tid :=
  p.subs.flatMap (fun s => s.tid :: s.term.blocks.flatMap (fun b =>
    b.tid :: (b.term.defs.map (·.tid) ++ b.term.jmps.map (·.tid))))

def callTargets (j : Term Jmp) : List Tid :=
  match j.term with
  | .Call t _ => [t]
  | _ => []

/-- The invariants of a normalized program (what `Project::normalize_basic` establishes, property C09)
plus the jump-shape assumption of `graph.rs`:
all TIDs of the program are unique (so every block belongs to exactly one function), every block has
at most two jumps (the first of two a `CBranch`), every direct jump target, indirect-jump hint and
return site is a block of the same function, every direct call targets a function or an extern
symbol. -/
structure WellFormedNormalized (p : Program) : Prop where
  tidsUnique : (allTids p).Nodup
  shape : ∀ s ∈ p.subs, ∀ b ∈ s.term.blocks, jmpShapeOk b = true
  targets : ∀ s ∈ p.subs, ∀ b ∈ s.term.blocks, ∀ j ∈ b.term.jmps, ∀ t ∈ intraTargets j,
    ∃ tb ∈ s.term.blocks, tb.tid = t
  hints : ∀ s ∈ p.subs, ∀ b ∈ s.term.blocks, ∀ t ∈ b.term.indirectJmpTargets,
    ∃ tb ∈ s.term.blocks, tb.tid = t
  callTargets : ∀ s ∈ p.subs, ∀ b ∈ s.term.blocks, ∀ j ∈ b.term.jmps, ∀ t ∈ callTargets j,
    isExtern p t = true ∨ ∃ s' ∈ p.subs, s'.tid = t

instance (p : Program) : Decidable (WellFormedNormalized p) :=
  if h : (allTids p).Nodup ∧
      (∀ s ∈ p.subs, ∀ b ∈ s.term.blocks, jmpShapeOk b = true) ∧
      (∀ s ∈ p.subs, ∀ b ∈ s.term.blocks, ∀ j ∈ b.term.jmps, ∀ t ∈ intraTargets j,
        ∃ tb ∈ s.term.blocks, tb.tid = t) ∧
      (∀ s ∈ p.subs, ∀ b ∈ s.term.blocks, ∀ t ∈ b.term.indirectJmpTargets,
        ∃ tb ∈ s.term.blocks, tb.tid = t) ∧
      (∀ s ∈ p.subs, ∀ b ∈ s.term.blocks, ∀ j ∈ b.term.jmps, ∀ t ∈ callTargets j,
        isExtern p t = true ∨ ∃ s' ∈ p.subs, s'.tid = t)
  then isTrue ⟨h.1, h.2.1, h.2.2.1, h.2.2.2.1, h.2.2.2.2⟩
  else isFalse (fun w => h ⟨w.tidsUnique, w.shape, w.targets, w.hints, w.callTargets⟩)

end CweModel.Cfg
