/-
Intermediate representation of cwe_checker, 1:1 with the Rust types of
`src/cwe_checker_lib/src/intermediate_representation/` (`Tid, Variable, Expression, Def, Jmp, Blk,
Sub, ExternSymbol, CallingConvention, Program, Project`), and JSON decoders for the canonical JSON
written by `harness/src/ir.rs` (the repo's own serde derives; `BTreeMap<Tid,_>` as arrays in key order).

Core-only (drivers link against it).
-/
import Lean.Data.Json
import CweModel.Base.Proto
open Lean

namespace CweModel.IR

/-- `Tid { id, address }`. Rust derives `Ord` lexicographically on (id, address). -/
structure Tid where
  id : String
  address : String := "UNKNOWN"
deriving Repr, DecidableEq, BEq, Hashable, Inhabited

instance : ToString Tid := ⟨fun t => t.id⟩

def Tid.lt (a b : Tid) : Bool := a.id < b.id || (a.id == b.id && a.address < b.address)

/-- `Tid::with_id_suffix` -/
def Tid.withIdSuffix (t : Tid) (suffix : String) : Tid := { t with id := t.id ++ suffix }
def Tid.hasIdSuffix (t : Tid) (suffix : String) : Bool := t.id.endsWith suffix

def artificialSinkBlockPrefix : String := "Artificial Sink Block"
def artificialSinkSubId : String := "Artificial Sink Sub"
def Tid.artificialSinkBlock (suffix : String) : Tid := { id := artificialSinkBlockPrefix ++ suffix }
def Tid.artificialSinkSub : Tid := { id := artificialSinkSubId }
def Tid.isArtificialSinkBlock (t : Tid) (suffix : String) : Bool :=
  t.id.startsWith artificialSinkBlockPrefix && t.hasIdSuffix suffix && t.address == "UNKNOWN"
def Tid.isArtificialSinkSub (t : Tid) : Bool := t.id == artificialSinkSubId && t.address == "UNKNOWN"

structure Variable where
  name : String
  size : Nat            -- bytes
  isTemp : Bool := false
deriving Repr, DecidableEq, BEq, Hashable, Inhabited

inductive BinOpType where
  | Piece | IntEqual | IntNotEqual | IntLess | IntSLess | IntLessEqual | IntSLessEqual
  | IntAdd | IntSub | IntCarry | IntSCarry | IntSBorrow | IntXOr | IntAnd | IntOr
  | IntLeft | IntRight | IntSRight | IntMult | IntDiv | IntRem | IntSDiv | IntSRem
  | BoolXOr | BoolAnd | BoolOr
  | FloatEqual | FloatNotEqual | FloatLess | FloatLessEqual | FloatAdd | FloatSub | FloatMult | FloatDiv
deriving Repr, DecidableEq, BEq, Hashable, Inhabited

inductive CastOpType where
  | IntZExt | IntSExt | Int2Float | Float2Float | Trunc | PopCount | LzCount
deriving Repr, DecidableEq, BEq, Hashable, Inhabited

inductive UnOpType where
  | IntNegate | Int2Comp | BoolNegate | FloatNegate | FloatAbs | FloatSqrt | FloatCeil | FloatFloor
  | FloatRound | FloatNaN
deriving Repr, DecidableEq, BEq, Hashable, Inhabited

def BinOpType.all : List BinOpType :=
  [.Piece, .IntEqual, .IntNotEqual, .IntLess, .IntSLess, .IntLessEqual, .IntSLessEqual, .IntAdd, .IntSub,
   .IntCarry, .IntSCarry, .IntSBorrow, .IntXOr, .IntAnd, .IntOr, .IntLeft, .IntRight, .IntSRight, .IntMult,
   .IntDiv, .IntRem, .IntSDiv, .IntSRem, .BoolXOr, .BoolAnd, .BoolOr, .FloatEqual, .FloatNotEqual,
   .FloatLess, .FloatLessEqual, .FloatAdd, .FloatSub, .FloatMult, .FloatDiv]
def CastOpType.all : List CastOpType :=
  [.IntZExt, .IntSExt, .Int2Float, .Float2Float, .Trunc, .PopCount, .LzCount]
def UnOpType.all : List UnOpType :=
  [.IntNegate, .Int2Comp, .BoolNegate, .FloatNegate, .FloatAbs, .FloatSqrt, .FloatCeil, .FloatFloor,
   .FloatRound, .FloatNaN]

def BinOpType.name (o : BinOpType) : String := (reprStr o).replace "CweModel.IR.BinOpType." ""
def CastOpType.name (o : CastOpType) : String := (reprStr o).replace "CweModel.IR.CastOpType." ""
def UnOpType.name (o : UnOpType) : String := (reprStr o).replace "CweModel.IR.UnOpType." ""

def BinOpType.isFloat : BinOpType → Bool
  | .FloatEqual | .FloatNotEqual | .FloatLess | .FloatLessEqual | .FloatAdd | .FloatSub | .FloatMult | .FloatDiv => true
  | _ => false

/-- `Expression`. A constant is (size in bytes, value < 2^(8·size)). -/
inductive Expression where
  | Var (v : Variable)
  | Const (bytes : Nat) (val : Nat)
  | BinOp (op : BinOpType) (lhs rhs : Expression)
  | UnOp (op : UnOpType) (arg : Expression)
  | Cast (op : CastOpType) (size : Nat) (arg : Expression)
  | Unknown (description : String) (size : Nat)
  | Subpiece (lowByte size : Nat) (arg : Expression)
deriving Repr, DecidableEq, BEq, Hashable, Inhabited

/-- `Expression::bytesize` -/
def Expression.bytesize : Expression → Nat
  | .Var v => v.size
  | .Const b _ => b
  | .BinOp op l r =>
    match op with
    | .Piece => l.bytesize + r.bytesize
    | .IntEqual | .IntNotEqual | .IntLess | .IntSLess | .IntLessEqual | .IntSLessEqual
    | .IntCarry | .IntSCarry | .IntSBorrow | .BoolXOr | .BoolOr | .BoolAnd
    | .FloatEqual | .FloatNotEqual | .FloatLess | .FloatLessEqual => 1
    | _ => l.bytesize
  | .UnOp op a => match op with | .FloatNaN => 1 | _ => a.bytesize
  | .Cast _ s _ => s
  | .Unknown _ s => s
  | .Subpiece _ s _ => s

/-- `Expression::input_vars` (with duplicates, left to right) -/
def Expression.inputVars : Expression → List Variable
  | .Var v => [v]
  | .Const _ _ => []
  | .BinOp _ l r => l.inputVars ++ r.inputVars
  | .UnOp _ a => a.inputVars
  | .Cast _ _ a => a.inputVars
  | .Unknown _ _ => []
  | .Subpiece _ _ a => a.inputVars

/-- `Expression::substitute_input_var` -/
def Expression.substVar (e : Expression) (v : Variable) (by_ : Expression) : Expression :=
  match e with
  | .Var w => if w = v then by_ else .Var w
  | .Const b x => .Const b x
  | .BinOp op l r => .BinOp op (l.substVar v by_) (r.substVar v by_)
  | .UnOp op a => .UnOp op (a.substVar v by_)
  | .Cast op s a => .Cast op s (a.substVar v by_)
  | .Unknown d s => .Unknown d s
  | .Subpiece lb s a => .Subpiece lb s (a.substVar v by_)

inductive Def where
  | Load (var : Variable) (address : Expression)
  | Store (address : Expression) (value : Expression)
  | Assign (var : Variable) (value : Expression)
deriving Repr, DecidableEq, BEq, Hashable, Inhabited

inductive Jmp where
  | Branch (target : Tid)
  | BranchInd (target : Expression)
  | CBranch (target : Tid) (condition : Expression)
  | Call (target : Tid) (ret : Option Tid)
  | CallInd (target : Expression) (ret : Option Tid)
  | Return (target : Expression)
  | CallOther (description : String) (ret : Option Tid)
deriving Repr, DecidableEq, BEq, Hashable, Inhabited

structure Term (α : Type) where
  tid : Tid
  term : α
deriving Repr, DecidableEq, BEq, Hashable, Inhabited

structure Blk where
  defs : List (Term Def)
  jmps : List (Term Jmp)
  indirectJmpTargets : List Tid := []
deriving Repr, DecidableEq, BEq, Hashable, Inhabited

structure Sub where
  name : String
  blocks : List (Term Blk)
  callingConvention : Option String := none
deriving Repr, DecidableEq, BEq, Hashable, Inhabited

inductive Datatype where
  | Char | Double | Float | Integer | Long | LongDouble | LongLong | Pointer | Short
deriving Repr, DecidableEq, BEq, Hashable, Inhabited

inductive Arg where
  | Register (expr : Expression) (dataType : Option Datatype)
  | Stack (address : Expression) (size : Nat) (dataType : Option Datatype)
deriving Repr, DecidableEq, BEq, Hashable, Inhabited

structure ExternSymbol where
  tid : Tid
  addresses : List String
  name : String
  callingConvention : Option String
  parameters : List Arg
  returnValues : List Arg
  noReturn : Bool
  hasVarArgs : Bool
deriving Repr, DecidableEq, BEq, Hashable, Inhabited

structure CallingConvention where
  name : String
  integerParameterRegister : List Variable
  floatParameterRegister : List Expression
  integerReturnRegister : List Variable
  floatReturnRegister : List Expression
  calleeSavedRegister : List Variable
deriving Repr, DecidableEq, BEq, Hashable, Inhabited

/-- `Program`; `subs`, `externSymbols`, `entryPoints` are the BTreeMap/BTreeSet contents in key order. -/
structure Program where
  subs : List (Term Sub)
  externSymbols : List ExternSymbol
  entryPoints : List Tid
  addressBaseOffset : Nat := 0
deriving Repr, DecidableEq, BEq, Hashable, Inhabited

structure DatatypeProperties where
  charSize : Nat
  doubleSize : Nat
  floatSize : Nat
  integerSize : Nat
  longDoubleSize : Nat
  longLongSize : Nat
  longSize : Nat
  pointerSize : Nat
  shortSize : Nat
deriving Repr, DecidableEq, BEq, Hashable, Inhabited

structure Project where
  program : Program
  programTid : Tid := { id := "program" }
  cpuArchitecture : String
  stackPointerRegister : Variable
  callingConventions : List CallingConvention
  registerSet : List Variable
  datatypeProperties : DatatypeProperties
deriving Repr, DecidableEq, BEq, Hashable, Inhabited

def Program.findSub (p : Program) (t : Tid) : Option (Term Sub) := p.subs.find? (·.tid == t)
def Program.findExtern (p : Program) (t : Tid) : Option ExternSymbol := p.externSymbols.find? (·.tid == t)
/-- `Program::find_block`: first block with that tid, subs in key order -/
def Program.findBlock (p : Program) (t : Tid) : Option (Term Blk) :=
  (p.subs.flatMap (·.term.blocks)).find? (·.tid == t)
/-- `Project::get_pointer_bytesize` -/
def Project.pointerBytesize (p : Project) : Nat := p.stackPointerRegister.size

/-! ### JSON decoders (serde shapes) -/
open CweModel.Proto

def parseTid (j : Json) : Except String Tid := do
  return { id := ← strF j "id", address := ← strF j "address" }

def parseOptTid (j : Json) : Except String (Option Tid) :=
  if j.isNull then .ok none else do return some (← parseTid j)

def parseVariable (j : Json) : Except String Variable := do
  return { name := ← strF j "name", size := ← natF j "size", isTemp := ← boolF j "is_temp" }

/-- apint: `{"width":[bits],"digits":[u64 limbs, least significant first]}` ↦ (bytes, value) -/
def parseApInt (j : Json) : Except String (Nat × Nat) := do
  let w ← arrF j "width"
  let bits ← match w with
    | [b] => b.getNat?
    | _ => throw "apint width"
  let ds ← mapM' (·.getNat?) (← arrF j "digits")
  let val := ds.foldr (fun d acc => d + 2 ^ 64 * acc) 0
  return ((bits + 7) / 8, val % 2 ^ bits)

def parseBinOpType (s : String) : Except String BinOpType :=
  match BinOpType.all.find? (·.name == s) with
  | some o => .ok o
  | none => .error s!"unknown BinOpType {s}"
def parseCastOpType (s : String) : Except String CastOpType :=
  match CastOpType.all.find? (·.name == s) with
  | some o => .ok o
  | none => .error s!"unknown CastOpType {s}"
def parseUnOpType (s : String) : Except String UnOpType :=
  match UnOpType.all.find? (·.name == s) with
  | some o => .ok o
  | none => .error s!"unknown UnOpType {s}"

/-- the single (tag, payload) of an externally tagged serde enum -/
def tagged (j : Json) : Except String (String × Json) :=
  match j with
  | .obj kvs =>
    match kvs.toList with
    | [(k, v)] => .ok (k, v)
    | _ => .error "expected single-key object"
  | .str s => .ok (s, .null)
  | _ => .error "expected tagged enum"

partial def parseExpression (j : Json) : Except String Expression := do
  let (tag, v) ← tagged j
  match tag with
  | "Var" => return .Var (← parseVariable v)
  | "Const" => let (b, x) ← parseApInt v; return .Const b x
  | "BinOp" =>
    return .BinOp (← parseBinOpType (← strF v "op")) (← parseExpression (← field v "lhs"))
      (← parseExpression (← field v "rhs"))
  | "UnOp" => return .UnOp (← parseUnOpType (← strF v "op")) (← parseExpression (← field v "arg"))
  | "Cast" =>
    return .Cast (← parseCastOpType (← strF v "op")) (← natF v "size") (← parseExpression (← field v "arg"))
  | "Unknown" => return .Unknown (← strF v "description") (← natF v "size")
  | "Subpiece" => return .Subpiece (← natF v "low_byte") (← natF v "size") (← parseExpression (← field v "arg"))
  | t => throw s!"unknown Expression tag {t}"

def parseDef (j : Json) : Except String Def := do
  let (tag, v) ← tagged j
  match tag with
  | "Load" => return .Load (← parseVariable (← field v "var")) (← parseExpression (← field v "address"))
  | "Store" => return .Store (← parseExpression (← field v "address")) (← parseExpression (← field v "value"))
  | "Assign" => return .Assign (← parseVariable (← field v "var")) (← parseExpression (← field v "value"))
  | t => throw s!"unknown Def tag {t}"

def parseJmp (j : Json) : Except String Jmp := do
  let (tag, v) ← tagged j
  match tag with
  | "Branch" => return .Branch (← parseTid v)
  | "BranchInd" => return .BranchInd (← parseExpression v)
  | "CBranch" => return .CBranch (← parseTid (← field v "target")) (← parseExpression (← field v "condition"))
  | "Call" => return .Call (← parseTid (← field v "target")) (← parseOptTid (← field v "return_"))
  | "CallInd" => return .CallInd (← parseExpression (← field v "target")) (← parseOptTid (← field v "return_"))
  | "Return" => return .Return (← parseExpression v)
  | "CallOther" => return .CallOther (← strF v "description") (← parseOptTid (← field v "return_"))
  | t => throw s!"unknown Jmp tag {t}"

def parseTerm {α} (f : Json → Except String α) (j : Json) : Except String (Term α) := do
  return { tid := ← parseTid (← field j "tid"), term := ← f (← field j "term") }

def parseBlk (j : Json) : Except String Blk := do
  return { defs := ← mapM' (parseTerm parseDef) (← arrF j "defs"),
           jmps := ← mapM' (parseTerm parseJmp) (← arrF j "jmps"),
           indirectJmpTargets := ← mapM' parseTid (← arrF j "indirect_jmp_targets") }

def parseOptStr (j : Json) (k : String) : Except String (Option String) := do
  let v ← field j k
  if v.isNull then return none else return some (← v.getStr?)

def parseSub (j : Json) : Except String Sub := do
  return { name := ← strF j "name", blocks := ← mapM' (parseTerm parseBlk) (← arrF j "blocks"),
           callingConvention := ← parseOptStr j "calling_convention" }

def parseDatatype (j : Json) : Except String (Option Datatype) := do
  if j.isNull then return none
  match ← j.getStr? with
  | "Char" => return some .Char | "Double" => return some .Double | "Float" => return some .Float
  | "Integer" => return some .Integer | "Long" => return some .Long | "LongDouble" => return some .LongDouble
  | "LongLong" => return some .LongLong | "Pointer" => return some .Pointer | "Short" => return some .Short
  | s => throw s!"unknown Datatype {s}"

def parseArg (j : Json) : Except String Arg := do
  let (tag, v) ← tagged j
  match tag with
  | "Register" => return .Register (← parseExpression (← field v "expr")) (← parseDatatype (← field v "data_type"))
  | "Stack" => return .Stack (← parseExpression (← field v "address")) (← natF v "size") (← parseDatatype (← field v "data_type"))
  | t => throw s!"unknown Arg tag {t}"

def parseExternSymbol (j : Json) : Except String ExternSymbol := do
  return { tid := ← parseTid (← field j "tid"),
           addresses := ← mapM' (·.getStr?) (← arrF j "addresses"),
           name := ← strF j "name",
           callingConvention := ← parseOptStr j "calling_convention",
           parameters := ← mapM' parseArg (← arrF j "parameters"),
           returnValues := ← mapM' parseArg (← arrF j "return_values"),
           noReturn := ← boolF j "no_return",
           hasVarArgs := ← boolF j "has_var_args" }

def parseCallingConvention (j : Json) : Except String CallingConvention := do
  return { name := ← strF j "calling_convention",
           integerParameterRegister := ← mapM' parseVariable (← arrF j "integer_parameter_register"),
           floatParameterRegister := ← mapM' parseExpression (← arrF j "float_parameter_register"),
           integerReturnRegister := ← mapM' parseVariable (← arrF j "integer_return_register"),
           floatReturnRegister := ← mapM' parseExpression (← arrF j "float_return_register"),
           calleeSavedRegister := ← mapM' parseVariable (← arrF j "callee_saved_register") }

def parseProgram (j : Json) : Except String Program := do
  return { subs := ← mapM' (parseTerm parseSub) (← arrF j "subs"),
           externSymbols := ← mapM' parseExternSymbol (← arrF j "extern_symbols"),
           entryPoints := ← mapM' parseTid (← arrF j "entry_points"),
           addressBaseOffset := (natF j "address_base_offset").toOption.getD 0 }

def parseDatatypeProperties (j : Json) : Except String DatatypeProperties := do
  return { charSize := ← natF j "char_size", doubleSize := ← natF j "double_size", floatSize := ← natF j "float_size",
           integerSize := ← natF j "integer_size", longDoubleSize := ← natF j "long_double_size",
           longLongSize := ← natF j "long_long_size", longSize := ← natF j "long_size",
           pointerSize := ← natF j "pointer_size", shortSize := ← natF j "short_size" }

def parseProject (j : Json) : Except String Project := do
  return { program := ← parseProgram (← field j "program"),
           programTid := ← parseTid (← field j "program_tid"),
           cpuArchitecture := ← strF j "cpu_architecture",
           stackPointerRegister := ← parseVariable (← field j "stack_pointer_register"),
           callingConventions := ← mapM' parseCallingConvention (← arrF j "calling_conventions"),
           registerSet := ← mapM' parseVariable (← arrF j "register_set"),
           datatypeProperties := ← parseDatatypeProperties (← field j "datatype_properties") }

end CweModel.IR
