/-
Shared model library: the strided-interval value domain of
`src/cwe_checker_lib/src/abstract_domain/interval.rs` and `interval/simple_interval.rs`
(used by C02, C03, C04, C13). Core Lean only, no JSON.

Representation
* a bit-vector (`apint::ApInt`) of width `w` bits is modelled by its **signed value**, an `Int`
  in `[-2^(w-1), 2^(w-1))` (`InRange w`); the width travels separately (`Interval.w`),
* machine arithmetic is made explicit: `wrap w` (two's complement wrap to `w` bits, it is
  `Int.bmod · (2^w)`, the same function core's `BitVec.toInt_add/_sub/_mul/_neg` use),
  `toU w` (the unsigned reading), `u64`/`i128` wrap for the primitive-integer computations,
* the stride is a `Nat` (`u64` in Rust; every operation that can leave the `u64` range wraps
  explicitly).

Every definition names the Rust function it mirrors. The Rust code is compiled in release mode
(no overflow checks), so primitive arithmetic wraps.
-/
namespace CweModel.Itv

/-! ## machine arithmetic -/

/-- `2^w` as an integer. Kept as an opaque atom in proofs (`omega` treats `pow2 w` as a variable; the
facts needed are `pow2_pos` and `pow2_eq : pow2 w = 2 * pow2 (w - 1)`). -/
def pow2 (w : Nat) : Int := ((2 ^ w : Nat) : Int)

/-- two's complement wrap of an integer to `w` bits, signed reading -/
def wrap (w : Nat) (x : Int) : Int := x.bmod (2 ^ w)

/-- unsigned reading of (the `w`-bit pattern of) `x` -/
def toU (w : Nat) (x : Int) : Nat := (x % pow2 w).toNat

/-- `Bitvector::signed_min_value(w)` -/
def smin (w : Nat) : Int := -(pow2 (w - 1))
/-- `Bitvector::signed_max_value(w)` -/
def smax (w : Nat) : Int := pow2 (w - 1) - 1

/-- `x` is the signed value of some `w`-bit vector -/
def InRange (w : Nat) (x : Int) : Prop := smin w ≤ x ∧ x ≤ smax w

instance (w : Nat) (x : Int) : Decidable (InRange w x) := by unfold InRange; exact inferInstance

/-- wrap of a `u64` computation -/
def u64 (n : Nat) : Nat := n % 2 ^ 64
/-- wrap of an `i128` computation -/
def i128 (x : Int) : Int := x.bmod (2 ^ 128)
/-- wrap of an `i64` computation -/
def i64 (x : Int) : Int := x.bmod (2 ^ 64)

/-- Rust `%` on signed primitives (truncated remainder) -/
def trem (a b : Int) : Int := Int.tmod a b
/-- Rust `/` on signed primitives (truncated quotient) -/
def tquot (a b : Int) : Int := Int.tdiv a b

/-- `u64::trailing_zeros` (64 for 0) -/
def trailingZeros64 (n : Nat) : Nat :=
  if n = 0 then 64 else go 64 n 0
where
  go : Nat → Nat → Nat → Nat
    | 0, _, acc => acc
    | fuel + 1, n, acc => if n % 2 = 1 then acc else go fuel (n / 2) (acc + 1)

/-- `ApInt::try_to_u64`: succeeds iff the unsigned value needs at most 64 bits -/
def tryToU64 (w : Nat) (x : Int) : Option Nat :=
  let u := toU w x
  if u < 2 ^ 64 then some u else none

/-- `ApInt::try_to_i64`: succeeds iff the *unsigned* value needs at most 64 bits (apint 0.2);
the low digit is sign extended from `w` if `w < 64`, else reinterpreted as `i64`. -/
def tryToI64 (w : Nat) (x : Int) : Option Int :=
  let u := toU w x
  if u < 2 ^ 64 then some (if w < 64 then wrap w x else i64 u) else none

/-- `ApInt::try_to_i128`: succeeds iff the unsigned value needs at most 128 bits; sign extended
from `w` if `w < 128`. -/
def tryToI128 (w : Nat) (x : Int) : Option Int :=
  let u := toU w x
  if u < 2 ^ 128 then some (if w < 128 then wrap w x else i128 u) else none

/-- `Bitvector::from_u64(n).into_resize_unsigned(w)` as a signed value -/
def fromU64 (w : Nat) (n : Nat) : Int := wrap w (n : Int)

/-- `signed_add_overflow_checked` (intermediate_representation/bitvector.rs) -/
def signedAddOverflowChecked (w : Nat) (x y : Int) : Option Int :=
  let r := wrap w (x + y)
  if decide (y < 0) == decide (x ≤ r) then none else some r

/-- `signed_sub_overflow_checked` -/
def signedSubOverflowChecked (w : Nat) (x y : Int) : Option Int :=
  let r := wrap w (x - y)
  if decide (y < 0) == decide (r ≤ x) then none else some r

/-! ## `Interval` (simple_interval.rs) -/

/-- `struct Interval { start, end, stride }`; `w` is the bit width of `start`/`end`. -/
structure Interval where
  w : Nat
  start : Int
  stop : Int          -- Rust field `end`
  stride : Nat
deriving DecidableEq, Repr, Inhabited

namespace Interval

/-- concretisation: `x ∈ γ I`. `(stride : Int) ∣ x - start` covers both the singleton case
(`0 ∣ d ↔ d = 0`) and the strided case; see `mem_iff`. -/
def Mem (I : Interval) (x : Int) : Prop :=
  I.start ≤ x ∧ x ≤ I.stop ∧ (I.stride : Int) ∣ x - I.start

instance (I : Interval) (x : Int) : Decidable (I.Mem x) := by unfold Mem; exact inferInstance

/-- well-formedness (the invariants in the doc comment of `struct Interval`, plus ranges) -/
def WF (I : Interval) : Prop :=
  0 < I.w ∧ InRange I.w I.start ∧ InRange I.w I.stop ∧ I.start ≤ I.stop ∧
  (I.stride = 0 ↔ I.start = I.stop) ∧ (I.stride : Int) ∣ I.stop - I.start ∧ I.stride < 2 ^ 64

instance (I : Interval) : Decidable I.WF := by unfold WF; exact inferInstance

/-- `Interval::new_top` -/
def newTop (w : Nat) : Interval := { w := w, start := smin w, stop := smax w, stride := 1 }

/-- `Interval::is_top`: `start - 1 == end && stride == 1` -/
def isTop (I : Interval) : Bool := wrap I.w (I.start - 1) == I.stop && I.stride == 1

/-- `impl From<Bitvector> for Interval` -/
def single (w : Nat) (x : Int) : Interval := { w := w, start := x, stop := x, stride := 0 }

/-- `set_stride_to_unknown` -/
def setStrideToUnknown (I : Interval) : Interval :=
  { I with stride := if I.start = I.stop then 0 else 1 }

/-- the common prefix of `adjust_end_to_value_in_stride` / `adjust_start_to_value_in_stride`:
`(end - start) as u64 % stride` with `i64` operands -/
def adjustDiff (I : Interval) : Option Nat :=
  match tryToI64 I.w I.start, tryToI64 I.w I.stop with
  | some s, some e => some (toU 64 (i64 (e - s)) % I.stride)
  | _, _ => none

/-- `adjust_end_to_value_in_stride` -/
def adjustEnd (I : Interval) : Interval :=
  if I.stride = 0 then { I with stop := I.start }
  else if I.stride = 1 ∧ I.start ≠ I.stop then I
  else match I.adjustDiff with
    | some d =>
      let e := wrap I.w (I.stop - fromU64 I.w d)
      { I with stop := e, stride := if I.start = e then 0 else I.stride }
    | none => I.setStrideToUnknown

/-- `adjust_start_to_value_in_stride` -/
def adjustStart (I : Interval) : Interval :=
  if I.stride = 0 then { I with start := I.stop }
  else if I.stride = 1 ∧ I.start ≠ I.stop then I
  else match I.adjustDiff with
    | some d =>
      let s := wrap I.w (I.start + fromU64 I.w d)
      { I with start := s, stride := if s = I.stop then 0 else I.stride }
    | none => I.setStrideToUnknown

/-- `Interval::new` -/
def new (w : Nat) (s e : Int) (stride : Nat) : Interval :=
  adjustEnd { w := w, start := s, stop := e, stride := stride }

/-- `Interval::contains` -/
def contains (I : Interval) (x : Int) : Bool :=
  if I.start = x then true
  else decide (I.start ≤ x) && decide (x ≤ I.stop) &&
    (match tryToU64 I.w (wrap I.w (x - I.start)) with
     | some d => decide (0 < I.stride) && decide (d % I.stride = 0)
     | none => true)

end Interval

/-! ## `StrideRounding for Bitvector` (interval.rs) -/

/-- `round_up_to_stride_of` (after the repair: the rounded value is computed in `i128` and compared
with the maximal signed value; before, a difference ≥ 2^(w-1) was misread as negative) -/
def roundUpToStrideOf (x : Int) (I : Interval) : Option Int :=
  if I.stride = 0 ∨ I.w > 64 then some x
  else
    let diff := i128 ((tryToI128 I.w I.start).getD 0 - (tryToI128 I.w x).getD 0)
    let diff := trem diff I.stride
    let diff := trem (i128 (diff + I.stride)) I.stride
    let rounded := i128 ((tryToI128 I.w x).getD 0 + diff)
    if rounded > smax I.w then none else some (wrap I.w rounded)

/-- `round_down_to_stride_of` (repaired like `round_up_to_stride_of`) -/
def roundDownToStrideOf (x : Int) (I : Interval) : Option Int :=
  if I.stride = 0 ∨ I.w > 64 then some x
  else
    let diff := i128 ((tryToI128 I.w x).getD 0 - (tryToI128 I.w I.stop).getD 0)
    let diff := trem diff I.stride
    let diff := trem (i128 (diff + I.stride)) I.stride
    let rounded := i128 ((tryToI128 I.w x).getD 0 - diff)
    if rounded < smin I.w then none else some (wrap I.w rounded)

/-! ## `IntervalDomain` (interval.rs) -/

/-- `struct IntervalDomain`; hints are signed values of width `interval.w`. -/
structure IntervalDomain where
  interval : Interval
  upper : Option Int      -- `widening_upper_bound`
  lower : Option Int      -- `widening_lower_bound`
  delay : Nat             -- `widening_delay`
deriving DecidableEq, Repr, Inhabited

namespace IntervalDomain

/-- γ of a domain value ignores the hints (as `contains` does) -/
def Mem (a : IntervalDomain) (x : Int) : Prop := a.interval.Mem x

instance (a : IntervalDomain) (x : Int) : Decidable (a.Mem x) := by unfold Mem; exact inferInstance

/-- well-formed: interval well-formed, hints are `w`-bit values, delay is a `u64` -/
def WF (a : IntervalDomain) : Prop :=
  a.interval.WF ∧ (∀ u, a.upper = some u → InRange a.interval.w u) ∧
  (∀ l, a.lower = some l → InRange a.interval.w l) ∧ a.delay < 2 ^ 64

/-- `impl From<Interval> for IntervalDomain` -/
def ofInterval (I : Interval) : IntervalDomain :=
  { interval := I, upper := none, lower := none, delay := 0 }

/-- `impl From<Bitvector> for IntervalDomain` -/
def single (w : Nat) (x : Int) : IntervalDomain := ofInterval (Interval.single w x)

/-- `IntervalDomain::new(start, end)` -/
def new (w : Nat) (s e : Int) : IntervalDomain := ofInterval (Interval.new w s e 1)

/-- `SizedDomain::new_top` -/
def newTop (w : Nat) : IntervalDomain := ofInterval (Interval.newTop w)

def isTop (a : IntervalDomain) : Bool := a.interval.isTop
def w (a : IntervalDomain) : Nat := a.interval.w

/-- `try_to_bitvec` -/
def tryToBitvec (a : IntervalDomain) : Option Int :=
  if a.interval.start = a.interval.stop then some a.interval.start else none

/-- `update_widening_lower_bound` -/
def updateLower (a : IntervalDomain) (bound : Option Int) : IntervalDomain :=
  match bound with
  | none => a
  | some b =>
    match roundUpToStrideOf b a.interval with
    | none => a
    | some b =>
      if b < a.interval.start then
        match a.lower with
        | some prev => if b > prev then { a with lower := some b } else a
        | none => { a with lower := some b }
      else a

/-- `update_widening_upper_bound` -/
def updateUpper (a : IntervalDomain) (bound : Option Int) : IntervalDomain :=
  match bound with
  | none => a
  | some b =>
    match roundDownToStrideOf b a.interval with
    | none => a
    | some b =>
      if b > a.interval.stop then
        match a.upper with
        | some prev => if b < prev then { a with upper := some b } else a
        | none => { a with upper := some b }
      else a

end IntervalDomain

/-! ## basic facts about the machine arithmetic -/

theorem pow2_pos (w : Nat) : 0 < pow2 w := by
  have := Nat.two_pow_pos w; unfold pow2; omega

/-- `2^w = 2 * 2^(w-1)` for positive widths, the only fact about powers most proofs need -/
theorem pow2_eq (w : Nat) (hw : 0 < w) : pow2 w = 2 * pow2 (w - 1) := by
  obtain ⟨k, rfl⟩ : ∃ k, w = k + 1 := ⟨w - 1, by omega⟩
  unfold pow2
  have : 2 ^ (k + 1) = 2 * 2 ^ k := by rw [Nat.pow_succ]; omega
  rw [this]; simp

theorem pow2_add (a b : Nat) : pow2 (a + b) = pow2 a * pow2 b := by
  unfold pow2; rw [Nat.pow_add]; simp

theorem pow2_le_pow2 {a b : Nat} (h : a ≤ b) : pow2 a ≤ pow2 b := by
  unfold pow2
  have := Nat.pow_le_pow_right (by decide : 0 < 2) h
  omega

theorem pow2_lt_pow2 {a b : Nat} (h : a < b) : pow2 a < pow2 b := by
  unfold pow2
  have := Nat.pow_lt_pow_right (by decide : 1 < 2) h
  omega

theorem wrap_def (w : Nat) (x : Int) :
    wrap w x = if x % pow2 w < (pow2 w + 1) / 2 then x % pow2 w else x % pow2 w - pow2 w := by
  simp only [wrap, pow2, Int.bmod_def]; rfl

/-- characterisation of `wrap`: the unique representative in the signed range -/
theorem wrap_spec (w : Nat) (hw : 0 < w) (x : Int) :
    InRange w (wrap w x) ∧ ∃ k : Int, wrap w x = x + k * pow2 w := by
  have hp := pow2_pos (w - 1)
  have h2 := pow2_eq w hw
  rw [wrap_def]
  unfold InRange smin smax
  generalize pow2 w = P at *
  generalize pow2 (w - 1) = M at *
  have hm0 : 0 ≤ x % P := Int.emod_nonneg _ (by omega)
  have hm1 : x % P < P := Int.emod_lt_of_pos _ (by omega)
  have hdiv : x % P = x - P * (x / P) := by have := Int.mul_ediv_add_emod x P; omega
  split
  · refine ⟨⟨by omega, by omega⟩, -(x / P), ?_⟩
    rw [hdiv, Int.neg_mul, Int.mul_comm]; omega
  · refine ⟨⟨by omega, by omega⟩, -(x / P) - 1, ?_⟩
    rw [hdiv, Int.sub_mul, Int.neg_mul, Int.mul_comm]; omega

theorem wrap_inRange (w : Nat) (hw : 0 < w) (x : Int) : InRange w (wrap w x) := (wrap_spec w hw x).1

/-- two values in the signed range that differ by a multiple of `2^w` are equal -/
theorem inRange_unique (w : Nat) (hw : 0 < w) {x y k : Int} (hx : InRange w x) (hy : InRange w y)
    (h : x = y + k * pow2 w) : x = y := by
  have hp := pow2_pos (w - 1)
  have h2 := pow2_eq w hw
  unfold InRange smin smax at hx hy
  generalize pow2 w = P at *
  generalize pow2 (w - 1) = M at *
  subst h2
  have : k = 0 := by
    rcases Int.lt_trichotomy k 0 with hk | hk | hk
    · have : k * (2 * M) ≤ -1 * (2 * M) := Int.mul_le_mul_of_nonneg_right (by omega) (by omega)
      omega
    · exact hk
    · have : 1 * (2 * M) ≤ k * (2 * M) := Int.mul_le_mul_of_nonneg_right (by omega) (by omega)
      omega
  subst this; omega

theorem wrap_of_inRange (w : Nat) (hw : 0 < w) {x : Int} (hx : InRange w x) : wrap w x = x := by
  obtain ⟨hr, k, hk⟩ := wrap_spec w hw x
  exact inRange_unique w hw hr hx hk

/-- `wrap x` is the value in range congruent to `x`: to show `wrap w x = y` give the multiple -/
theorem wrap_eq (w : Nat) (hw : 0 < w) {x y : Int} (k : Int) (hy : InRange w y) (h : x = y + k * pow2 w) :
    wrap w x = y := by
  obtain ⟨hr, k', hk'⟩ := wrap_spec w hw x
  exact inRange_unique w hw hr hy (k := k' + k) (by rw [hk', h, Int.add_mul]; omega)

/-- `wrap` of a value at distance one range from the signed range: the three cases -/
theorem wrap_cases (w : Nat) (hw : 0 < w) (x : Int)
    (h1 : 3 * smin w ≤ x) (h2 : x ≤ 3 * smax w + 2) :
    (InRange w x ∧ wrap w x = x) ∨
    (smax w < x ∧ wrap w x = x - pow2 w) ∨
    (x < smin w ∧ wrap w x = x + pow2 w) := by
  have hp := pow2_pos (w - 1)
  have h2' := pow2_eq w hw
  by_cases hx : InRange w x
  · exact .inl ⟨hx, wrap_of_inRange w hw hx⟩
  · unfold InRange at hx
    by_cases hgt : smax w < x
    · refine .inr (.inl ⟨hgt, ?_⟩)
      exact wrap_eq w hw 1 (by unfold InRange smin smax at *; omega) (by omega)
    · refine .inr (.inr ⟨by omega, ?_⟩)
      exact wrap_eq w hw (-1) (by unfold InRange smin smax at *; omega) (by omega)

/-- the bridge to core's bit-vectors: the signed value of a `BitVec w` is in range -/
theorem inRange_toInt {w : Nat} (x : BitVec w) : InRange w x.toInt := by
  have h1 := @BitVec.le_toInt w x
  have h2 := @BitVec.toInt_lt w x
  have : pow2 (w - 1) = (2 : Int) ^ (w - 1) := by simp [pow2]
  unfold InRange smin smax; omega

/-- unsigned reading of a value in range -/
theorem toU_of_inRange (w : Nat) (hw : 0 < w) {x : Int} (hx : InRange w x) :
    (toU w x : Int) = if x < 0 then x + pow2 w else x := by
  have hp := pow2_pos (w - 1)
  have h2 := pow2_eq w hw
  unfold toU
  unfold InRange smin smax at hx
  have hP : 0 < pow2 w := pow2_pos w
  rw [Int.toNat_of_nonneg (Int.emod_nonneg _ (by omega))]
  split
  · rw [← Int.add_mul_emod_self_left x (pow2 w) 1, Int.mul_one]
    exact Int.emod_eq_of_lt (by omega) (by omega)
  · exact Int.emod_eq_of_lt (by omega) (by omega)

theorem toU_lt (w : Nat) (x : Int) : (toU w x : Int) < pow2 w := by
  unfold toU
  have hP : 0 < pow2 w := pow2_pos w
  rw [Int.toNat_of_nonneg (Int.emod_nonneg _ (by omega))]
  exact Int.emod_lt_of_pos _ hP

namespace Interval

/-- the long form of `γ` as written in the property text -/
theorem mem_iff (I : Interval) (x : Int) :
    I.Mem x ↔ I.start ≤ x ∧ x ≤ I.stop ∧ (I.stride = 0 → x = I.start) ∧
      (0 < I.stride → (I.stride : Int) ∣ x - I.start) := by
  unfold Mem
  constructor
  · rintro ⟨h1, h2, h3⟩
    refine ⟨h1, h2, ?_, fun _ => h3⟩
    intro h0; rw [h0] at h3
    have := Int.zero_dvd.mp h3; omega
  · rintro ⟨h1, h2, h3, h4⟩
    refine ⟨h1, h2, ?_⟩
    rcases Nat.eq_zero_or_pos I.stride with h0 | h0
    · rw [h0, h3 h0]; simp
    · exact h4 h0

theorem start_mem (I : Interval) (h : I.start ≤ I.stop) : I.Mem I.start := ⟨Int.le_refl _, h, by simp⟩

theorem stop_mem (I : Interval) (h : I.WF) : I.Mem I.stop := ⟨h.2.2.2.1, Int.le_refl _, h.2.2.2.2.2.1⟩

theorem mem_inRange {I : Interval} (h : I.WF) {x : Int} (hx : I.Mem x) : InRange I.w x := by
  obtain ⟨_, ⟨h1, _⟩, ⟨_, h2⟩, _⟩ := h
  exact ⟨by have := hx.1; omega, by have := hx.2.1; omega⟩

theorem mem_single (w : Nat) (x y : Int) : (single w x).Mem y ↔ y = x := by
  simp only [Mem, single]
  constructor
  · rintro ⟨h1, h2, _⟩; omega
  · rintro rfl; simp

theorem mem_newTop (w : Nat) (x : Int) : (newTop w).Mem x ↔ InRange w x := by
  simp only [Mem, newTop, InRange]
  constructor
  · rintro ⟨h1, h2, _⟩; exact ⟨h1, h2⟩
  · rintro ⟨h1, h2⟩; exact ⟨h1, h2, by simp [Int.one_dvd]⟩

theorem wf_single (w : Nat) (hw : 0 < w) (x : Int) (hx : InRange w x) : (single w x).WF := by
  simp [WF, single, hw, hx]

theorem wf_newTop (w : Nat) (hw : 1 < w) : (newTop w).WF := by
  have hp : (2:Int) ≤ pow2 (w - 1) := by
    have h1 := pow2_eq (w - 1) (by omega)
    have h2 := pow2_pos (w - 1 - 1)
    omega
  simp only [WF, newTop, InRange, smin, smax]
  refine ⟨by omega, ⟨by omega, by omega⟩, ⟨by omega, by omega⟩, by omega, ?_, by simp [Int.one_dvd], by decide⟩
  constructor <;> intro h <;> omega

end Interval

end CweModel.Itv
