/-
Shared model library: `MemRegion<T>` of
`src/cwe_checker_lib/src/abstract_domain/mem_region.rs`, generic over the value domain `T`.

* `ValueDomain V` — the operations of the Rust traits `AbstractDomain + SizedDomain + HasTop`
  that `MemRegion` uses: `bytesize`, `is_top`, `new_top(bytesize)`, `top(&self)`, `merge`.
  `LawfulValueDomain V` — the only facts about these operations that the theorems of C05 need.
* `BMap α` — `BTreeMap<i64, α>` as a list of `(key, value)` pairs in strictly increasing key
  order; only the BTreeMap operations that `mem_region.rs` calls.
* `Region V := BMap V` and one definition per Rust function, mirrored statement by statement
  (`&mut self` ↦ the new region is returned; a `panic!`/failed `assert!` ↦ `none`).

i64 arithmetic is modelled in `Int`. Interval ends (`prev_pos + prev_size`, `position + size`,
`end + elem_size`, `index + max(sizes)`) are computed by the code in i128 (`interval_end`, since the
repair of the position-overflow panic), i.e. exactly as here, and the successor lookup of
`merge_inner` uses the bound `Excluded(index)` instead of `index + 1`. `BMap.range m lo hi` stands
for `range(interval_bounds(lo, hi))`, which has no upper bound when `hi > i64::MAX`: the same
entries on every map whose keys are i64 values (`CweModel.C05.rangeI64_eq`; the literal model of
that code path is `CweModel.C05.stepI64`, equal to the definitions below by
`CweModel.C05.stepI64_eq_step`). What is left of the NO-OVERFLOW PRECONDITION: position arguments
and stored positions are i64 values, and `index + offset` (`add_offset_to_all_indices`) lies in
`[-2^63, 2^63)`; `Bounded`/`i64Min` below are used where the code mentions `i64::MIN`.

Core Lean only (no Std/Batteries/Mathlib): this file is linked into model drivers.
Theorems about these definitions live in `CweModel/C05/*.lean`.
-/
namespace CweModel.MemRegion

/-! ### value domain -/

/-- The operations `MemRegion<T>` uses of its value type `T`. -/
class ValueDomain (V : Type) where
  /-- `SizedDomain::bytesize` (in bytes) -/
  size : V → Nat
  /-- `AbstractDomain::is_top` -/
  isTop : V → Bool
  /-- `SizedDomain::new_top(bytesize)` -/
  newTop : Nat → V
  /-- `HasTop::top(&self)` -/
  topOf : V → V
  /-- `AbstractDomain::merge` -/
  merge : V → V → V

export ValueDomain (size isTop newTop topOf merge)

/-- What the C05 theorems assume about the value domain (true for `BitvectorDomain`, `Taint`,
`DataDomain`, `IntervalDomain`): tops are top and have the requested size, `top(&self)` is the
top of the own size, merging equal-sized values keeps the size. -/
class LawfulValueDomain (V : Type) [ValueDomain V] : Prop where
  size_newTop : ∀ n : Nat, size (newTop n : V) = n
  isTop_newTop : ∀ n : Nat, isTop (newTop n : V) = true
  topOf_eq : ∀ v : V, topOf v = newTop (size v)
  size_merge : ∀ a b : V, size a = size b → size (merge a b) = size a

/-! ### `BTreeMap<i64, α>` -/

/-- `BTreeMap<i64, α>`: association list, strictly increasing in the key (see `BMap.Sorted`). -/
abbrev BMap (α : Type) := List (Int × α)

namespace BMap
variable {α : Type}

/-- representation invariant of a BTreeMap: iteration order = strictly increasing keys -/
def Sorted (m : BMap α) : Prop := m.Pairwise (fun a b => a.1 < b.1)

/-- `map.get(&k)` -/
def get : BMap α → Int → Option α
  | [], _ => none
  | (k', v) :: rest, k => if k' = k then some v else get rest k

/-- `map.contains_key(&k)` -/
def containsKey (m : BMap α) (k : Int) : Bool := (get m k).isSome

/-- `map.remove(&k)` -/
def remove (m : BMap α) (k : Int) : BMap α := m.filter (fun c => c.1 != k)

/-- `map.insert(k, v)` (replaces the value of an existing key) -/
def insert : BMap α → Int → α → BMap α
  | [], k, v => [(k, v)]
  | (k', v') :: rest, k, v =>
    if k < k' then (k, v) :: (k', v') :: rest
    else if k = k' then (k, v) :: rest
    else (k', v') :: insert rest k v

/-- `map.range(..p).last()`: the entry with the greatest key `< p` -/
def lastBelow (m : BMap α) (p : Int) : Option (Int × α) := (m.filter (fun c => c.1 < p)).getLast?

/-- `map.range(lo..hi)` (the caller guarantees `lo ≤ hi`, otherwise BTreeMap panics) -/
def range (m : BMap α) (lo hi : Int) : BMap α := m.filter (fun c => decide (lo ≤ c.1) && decide (c.1 < hi))

/-- `map.range(lo..).next()`: the entry with the least key `≥ lo` -/
def firstFrom (m : BMap α) (lo : Int) : Option (Int × α) := m.find? (fun c => decide (lo ≤ c.1))

/-- `map.retain(|_, v| p v)` -/
def retain (m : BMap α) (p : α → Bool) : BMap α := m.filter (fun c => p c.2)

end BMap

/-! ### `MemRegion<T>` -/

/-- `MemRegion<T>` = `inner.values : BTreeMap<i64, T>` (`address_bytesize` plays no role in any
operation below except in `assert_eq!`s on the width of position arguments, which the model
does not represent: positions are `Int`s). A cell `(o, v)` occupies the bytes `[o, o + size v)`. -/
abbrev Region (V : Type) := BMap V

variable {V : Type} [ValueDomain V]

/-- `u64::from(elem.bytesize()) as i64` -/
def isize (v : V) : Int := (size v : Int)

/-- `i64::MIN` -/
def i64Min : Int := -9223372036854775808
/-- `i64::MAX` -/
def i64Max : Int := 9223372036854775807

/-- `MemRegion::new` -/
def new : Region V := []

/-- first block of `clear_interval`: "If the previous element intersects the range, remove it".
Looks at the ONE entry immediately before `position`. -/
def clearPrev (r : Region V) (position : Int) : Region V :=
  match BMap.lastBelow r position with
  | some (prevPos, elem) => if prevPos + isize elem > position then BMap.remove r prevPos else r
  | none => r

/-- `MemRegion::clear_interval(position, size)`: `clearPrev`, then "remove all other intersecting
elements", i.e. the entries starting inside `[position, position + size)`. -/
def clearInterval (r : Region V) (position size : Int) : Region V :=
  let r1 := clearPrev r position
  let intersecting : List Int := (BMap.range r1 position (position + size)).map (·.1)
  intersecting.foldl (fun m index => BMap.remove m index) r1

/-- `MemRegion::insert_at_byte_index(value, position)`; `none` = `assert!(size_in_bytes > 0)` fails.
`MemRegion::add(value, position)` is this function after converting the position bitvector. -/
def insertAtByteIndex (r : Region V) (value : V) (position : Int) : Option (Region V) :=
  let sizeInBytes := isize value
  if sizeInBytes > 0 then
    let r := clearInterval r position sizeInBytes
    if !isTop value then some (BMap.insert r position value) else some r
  else none

/-- `MemRegion::get(position, size_in_bytes)` -/
def get (r : Region V) (position : Int) (sizeInBytes : Nat) : V :=
  match BMap.get r position with
  | some elem => if size elem = sizeInBytes then elem else newTop sizeInBytes
  | none => newTop sizeInBytes

/-- `MemRegion::get_unsized(position)` -/
def getUnsized (r : Region V) (position : Int) : Option V := BMap.get r position

/-- `MemRegion::remove(position, size_in_bytes)`; `none` = `assert!(size > 0)` fails -/
def remove (r : Region V) (position size : Int) : Option (Region V) :=
  if size > 0 then some (clearInterval r position size) else none

/-- `value.merge(&value.top())` followed by "remove if top, else insert" at `position`
(the shared tail of `merge_write_top` and `merge_values_intersecting_range_with_top`) -/
def storeMerged (m : Region V) (position : Int) (merged : V) : Region V :=
  if isTop merged then BMap.remove m position else BMap.insert m position merged

/-- `MemRegion::merge_write_top(position, size)` -/
def mergeWriteTop (r : Region V) (position : Int) (sz : Nat) : Region V :=
  match BMap.get r position with
  | some prev =>
    if size prev = sz then storeMerged r position (merge prev (topOf prev))
    else clearInterval r position (sz : Int)
  | none => clearInterval r position (sz : Int)

/-- first block of `merge_values_intersecting_range_with_top`: "If the previous element
intersects the range, merge it with Top" -/
def mergePrevWithTop (r : Region V) (start : Int) : Region V :=
  match BMap.lastBelow r start with
  | some (prevPos, elem) =>
    if prevPos + isize elem > start then
      match BMap.get r prevPos with          -- `.unwrap()`
      | some value => storeMerged r prevPos (merge value (topOf value))
      | none => r
    else r
  | none => r

/-- `MemRegion::merge_values_intersecting_range_with_top(start, end)`;
`none` = `BTreeMap::range(start..end)` panics because `start > end`. (std's BTreeMap performs
that check only if the map has a root node; a map that never held an entry has none and returns
the empty range. A map that was emptied again keeps its root and panics — the model cannot see
that from the content and answers "unchanged" for every empty map; the driver accepts a panic
there. This is outside the hypotheses of C05, which require `start < end`.) -/
def mergeValuesIntersectingRangeWithTop (r : Region V) (start end_ : Int) : Option (Region V) :=
  let r1 := mergePrevWithTop r start
  if end_ < start then (if r1.isEmpty then some r1 else none)
  else
    -- Merge all other intersecting elements with Top
    let intersecting : List (Int × V) :=
      (BMap.range r1 start end_).map (fun c => (c.1, merge c.2 (topOf c.2)))
    some (intersecting.foldl (fun m c => storeMerged m c.1 c.2) r1)

/-- `MemRegion::mark_interval_values_as_top(start, end, elem_size)` -/
def markIntervalValuesAsTop (r : Region V) (start end_ : Int) (elemSize : Nat) : Option (Region V) :=
  mergeValuesIntersectingRangeWithTop r start (end_ + (elemSize : Int))

/-- `MemRegion::clear_top_values` -/
def clearTopValues (r : Region V) : Region V := BMap.retain r (fun v => !isTop v)

/-- `MemRegion::mark_all_values_as_top` -/
def markAllValuesAsTop (r : Region V) : Region V :=
  clearTopValues (r.map (fun c => (c.1, merge c.2 (topOf c.2))))

/-- `MemRegion::add_offset_to_all_indices(offset)` -/
def addOffsetToAllIndices (r : Region V) (offset : Int) : Region V :=
  if offset = 0 then r
  else r.foldl (fun newValues c => BMap.insert newValues (c.1 + offset) c.2) []

/-- `merge_or_merge_with_top(left, right)`; `(None, None)` is `panic!()` in Rust and never
occurs (every zipped entry has at least one side); the model answers `none` there. -/
def mergeOrMergeWithTop : Option V → Option V → Option V
  | some l, some r =>
    if size l = size r then
      let merged := merge l r
      if !isTop merged then some merged else none
    else none
  | some e, none | none, some e =>
    let merged := merge e (newTop (size e))
    if !isTop merged then some merged else none
  | none, none => none

/-- `compute_range_end(index, left, right)`; `(None, None)` (a `panic!()`, unreachable) ↦ `index` -/
def computeRangeEnd (index : Int) : Option V → Option V → Int
  | some l, some r => index + max (isize l) (isize r)
  | some e, none | none, some e => index + isize e
  | none, none => index

/-- first half of `merge_inner`: the `zipped` map `index ↦ (left?, right?)` over the union of keys -/
def zipRegions (a b : Region V) : BMap (Option V × Option V) :=
  let zipped := a.foldl (fun z c => BMap.insert z c.1 (some c.2, BMap.get b c.1)) []
  b.foldl (fun z c => if !BMap.containsKey a c.1 then BMap.insert z c.1 (none, some c.2) else z) zipped

/-- one iteration of the second loop of `merge_inner`: returns the new `merged_values`;
`zipped` is the whole map (for `zipped.range((index + 1)..).next()`). -/
def mergeStep (zipped : BMap (Option V × Option V)) (mergedRangeEnd : Int)
    (e : Int × (Option V × Option V)) (mergedValues : Region V) : Region V :=
  let index := e.1
  let elemRangeEnd := computeRangeEnd index e.2.1 e.2.2
  if index ≥ mergedRangeEnd then
    -- The element does not overlap a previous element
    match BMap.firstFrom zipped (index + 1) with
    | some (nextIndex, _) =>
      if nextIndex ≥ elemRangeEnd then
        -- The element does not overlap a subsequent element
        match mergeOrMergeWithTop e.2.1 e.2.2 with
        | some merged => BMap.insert mergedValues index merged
        | none => mergedValues
      else mergedValues
    | none =>
      match mergeOrMergeWithTop e.2.1 e.2.2 with
      | some merged => BMap.insert mergedValues index merged
      | none => mergedValues
  else mergedValues

/-- second loop of `merge_inner` over the not yet visited entries `todo` of `zipped` -/
def mergeLoop (zipped : BMap (Option V × Option V)) :
    List (Int × (Option V × Option V)) → Int → Region V → Region V
  | [], _, mergedValues => mergedValues
  | e :: todo, mergedRangeEnd, mergedValues =>
    mergeLoop zipped todo (max mergedRangeEnd (computeRangeEnd e.1 e.2.1 e.2.2))
      (mergeStep zipped mergedRangeEnd e mergedValues)

/-- `MemRegion::merge_inner(other)` -/
def mergeInner (a b : Region V) : Region V :=
  let zipped := zipRegions a b
  mergeLoop zipped zipped i64Min []

/-- `<MemRegion<T> as AbstractDomain>::merge`: short-circuits on `self == other` -/
def mergeRegions [DecidableEq V] (a b : Region V) : Region V :=
  if a = b then a else mergeInner a b

/-- `<MemRegion<T> as AbstractDomain>::is_top` -/
def regionIsTop (r : Region V) : Bool := r.isEmpty

/-- `MemRegion::iter()`: the cells in increasing offset order -/
def iter (r : Region V) : List (Int × V) := r

/-! ### the invariant (property C05, first sentence) -/

/-- no two stored cells overlap: a cell ends before every later cell starts -/
def NoOverlap (r : Region V) : Prop := r.Pairwise (fun a b => a.1 + isize a.2 ≤ b.1)

/-- every stored cell has a positive size (`insert_at_byte_index` asserts it) -/
def PosSizes (r : Region V) : Prop := ∀ c ∈ r, 0 < size c.2

/-- no stored cell is the unknown value -/
def NoTopStored (r : Region V) : Prop := ∀ c ∈ r, isTop c.2 = false

/-- The region invariant. `BMap.Sorted` (the BTreeMap representation invariant) follows from
`NoOverlap` and `PosSizes` (`sorted_of_noOverlap` in C05/Lemmas) but is kept for readability. -/
structure Inv (r : Region V) : Prop where
  sorted : BMap.Sorted r
  noOverlap : NoOverlap r
  posSizes : PosSizes r
  noTop : NoTopStored r

/-- all offsets and cell ends are representable in i64 (no-overflow precondition on a region) -/
def Bounded (r : Region V) : Prop := ∀ c ∈ r, i64Min ≤ c.1 ∧ c.1 + isize c.2 ≤ i64Max

end CweModel.MemRegion
