/-
Reachability in finite directed multigraphs (shared library; core-only, drivers may link it).

* `Reach next a b`  — inductive reflexive-transitive closure of the successor function
  `next : ν → List ν` (`b ∈ next a` is one step).
* `dfs next fuel stack visited` — the stack-based depth-first search with a visited set that the
  Rust code writes as
  ```
  while let Some(node) = stack.pop() {
      if visited.insert(node) { for n in successors(node) { stack.push(n) } }
  }
  ```
  It returns the remaining stack and the visited list after at most `fuel` iterations.
* `dfs_sound`, `dfs_complete`, `dfs_closed`, `dfs_nodup`, `mem_dfs_iff` — the visited set of a finished run
  is exactly the set of nodes reachable from the start nodes.
* `dfs_fuel_sufficient` — if the successor lists are bounded by an edge list `E`
  (`(next n).length ≤ #{e ∈ E | src e = n}`), then `stack.length + E.length + 1` iterations finish.
* Edge lists: `Edge ν ω` (`src`, `dst`, weight `w`), `succs`, `preds`, `reachable`, `coreachable`
  with `mem_reachable_iff`, `mem_coreachable_iff`; `reach_preds_iff` relates the reversed graph;
  explicit edge chains `Path` with `reach_iff_path` and `on_path_iff` (an edge lies on some path from
  `a` to `b` iff `a` reaches its source and its target reaches `b`).
-/
namespace CweModel.Reach

/-! ### Reachability over a successor function -/
section Generic
variable {ν : Type}

/-- reflexive-transitive closure of "`b ∈ next a`" -/
inductive Reach (next : ν → List ν) : ν → ν → Prop where
  | refl (a : ν) : Reach next a a
  | tail {a b c : ν} : Reach next a b → c ∈ next b → Reach next a c

theorem Reach.single {next : ν → List ν} {a b : ν} (h : b ∈ next a) : Reach next a b :=
  .tail (.refl a) h

theorem Reach.trans {next : ν → List ν} {a b c : ν} (h1 : Reach next a b) (h2 : Reach next b c) :
    Reach next a c := by
  induction h2 with
  | refl => exact h1
  | tail _ hs ih => exact .tail ih hs

theorem Reach.head {next : ν → List ν} {a b c : ν} (h : b ∈ next a) (h2 : Reach next b c) :
    Reach next a c := (Reach.single h).trans h2

/-- a path is empty or starts with a step -/
theorem Reach.cases_head {next : ν → List ν} {a c : ν} (h : Reach next a c) :
    a = c ∨ ∃ b, b ∈ next a ∧ Reach next b c := by
  induction h with
  | refl => exact .inl rfl
  | tail _ hs ih =>
    rcases ih with rfl | ⟨b, hb, hr⟩
    · exact .inr ⟨_, hs, .refl _⟩
    · exact .inr ⟨b, hb, .tail hr hs⟩

/-- a set closed under `next` contains everything reachable from its members -/
theorem Reach.closed {next : ν → List ν} {P : ν → Prop} (hcl : ∀ a b, P a → b ∈ next a → P b)
    {a b : ν} (h : Reach next a b) (ha : P a) : P b := by
  induction h with
  | refl => exact ha
  | tail _ hs ih => exact hcl _ _ ih hs

/-- reachability only depends on the successor *sets* -/
theorem Reach.congr {next next' : ν → List ν} (h : ∀ a b, b ∈ next a → b ∈ next' a) {a b : ν}
    (hr : Reach next a b) : Reach next' a b := by
  induction hr with
  | refl => exact .refl _
  | tail _ hs ih => exact .tail ih (h _ _ hs)

/-- reversing every edge reverses reachability -/
theorem Reach.reverse {next prev : ν → List ν} (h : ∀ a b, b ∈ next a → a ∈ prev b) {a b : ν}
    (hr : Reach next a b) : Reach prev b a := by
  induction hr with
  | refl => exact .refl _
  | tail _ hs ih => exact Reach.head (h _ _ hs) ih

variable [DecidableEq ν]

/-- Stack DFS with visited set; returns `(remaining stack, visited)` after at most `fuel`
iterations of the loop. The run is finished iff the remaining stack is empty. -/
def dfs (next : ν → List ν) : Nat → List ν → List ν → List ν × List ν
  | 0, st, vis => (st, vis)
  | _ + 1, [], vis => ([], vis)
  | f + 1, n :: st, vis =>
    if n ∈ vis then dfs next f st vis else dfs next f (next n ++ st) (n :: vis)

theorem dfs_vis_mono (next : ν → List ν) (f : Nat) (st vis : List ν) :
    ∀ x ∈ vis, x ∈ (dfs next f st vis).2 := by
  induction f generalizing st vis with
  | zero => intro x hx; simpa [dfs] using hx
  | succ f ih =>
    cases st with
    | nil => intro x hx; simpa [dfs] using hx
    | cons n st =>
      intro x hx
      simp only [dfs]
      split
      · exact ih _ _ x hx
      · exact ih _ _ x (List.mem_cons_of_mem _ hx)

/-- **DFS soundness**: every visited node was visited before or is reachable from a node of the
initial stack. Holds for every amount of fuel. -/
theorem dfs_sound (next : ν → List ν) (f : Nat) (st vis : List ν) :
    ∀ x ∈ (dfs next f st vis).2, x ∈ vis ∨ ∃ s ∈ st, Reach next s x := by
  induction f generalizing st vis with
  | zero => intro x hx; exact .inl (by simpa [dfs] using hx)
  | succ f ih =>
    cases st with
    | nil => intro x hx; exact .inl (by simpa [dfs] using hx)
    | cons n st =>
      intro x hx
      simp only [dfs] at hx
      split at hx
      · rcases ih _ _ x hx with h | ⟨s, hs, hr⟩
        · exact .inl h
        · exact .inr ⟨s, List.mem_cons_of_mem _ hs, hr⟩
      · rcases ih _ _ x hx with h | ⟨s, hs, hr⟩
        · rcases List.mem_cons.mp h with rfl | h
          · exact .inr ⟨x, List.mem_cons_self .., .refl x⟩
          · exact .inl h
        · rcases List.mem_append.mp hs with h | h
          · exact .inr ⟨n, List.mem_cons_self .., Reach.head h hr⟩
          · exact .inr ⟨s, List.mem_cons_of_mem _ h, hr⟩

/-- the stack of a run stays within "initial stack or successor of something" -- and what matters:
a finished run has visited the whole initial stack, kept the visited nodes, and its visited set is
closed under `next` provided the successors of the initially visited nodes were visited or on the
stack. -/
theorem dfs_closed (next : ν → List ν) (f : Nat) (st vis : List ν)
    (hfin : (dfs next f st vis).1 = [])
    (hinv : ∀ a ∈ vis, ∀ b ∈ next a, b ∈ vis ∨ b ∈ st) :
    (∀ x ∈ st, x ∈ (dfs next f st vis).2) ∧
    (∀ a ∈ (dfs next f st vis).2, ∀ b ∈ next a, b ∈ (dfs next f st vis).2) := by
  induction f generalizing st vis with
  | zero =>
    simp only [dfs] at hfin
    subst hfin
    refine ⟨by simp, ?_⟩
    intro a ha b hb
    simp only [dfs] at ha ⊢
    rcases hinv a ha b hb with h | h
    · exact h
    · simp at h
  | succ f ih =>
    cases st with
    | nil =>
      refine ⟨by simp, ?_⟩
      intro a ha b hb
      simp only [dfs] at ha ⊢
      rcases hinv a ha b hb with h | h
      · exact h
      · simp at h
    | cons n st =>
      simp only [dfs] at hfin ⊢
      split
      next hn =>
        rw [if_pos hn] at hfin
        have hinv' : ∀ a ∈ vis, ∀ b ∈ next a, b ∈ vis ∨ b ∈ st := by
          intro a ha b hb
          rcases hinv a ha b hb with h | h
          · exact .inl h
          · rcases List.mem_cons.mp h with rfl | h
            · exact .inl hn
            · exact .inr h
        have ⟨h1, h2⟩ := ih st vis hfin hinv'
        refine ⟨?_, h2⟩
        intro x hx
        rcases List.mem_cons.mp hx with rfl | h
        · exact dfs_vis_mono next f st vis _ hn
        · exact h1 x h
      next hn =>
        rw [if_neg hn] at hfin
        have hinv' : ∀ a ∈ n :: vis, ∀ b ∈ next a, b ∈ n :: vis ∨ b ∈ next n ++ st := by
          intro a ha b hb
          rcases List.mem_cons.mp ha with rfl | ha
          · exact .inr (List.mem_append_left _ hb)
          · rcases hinv a ha b hb with h | h
            · exact .inl (List.mem_cons_of_mem _ h)
            · rcases List.mem_cons.mp h with rfl | h
              · exact .inl (List.mem_cons_self ..)
              · exact .inr (List.mem_append_right _ h)
        have ⟨h1, h2⟩ := ih (next n ++ st) (n :: vis) hfin hinv'
        refine ⟨?_, h2⟩
        intro x hx
        rcases List.mem_cons.mp hx with rfl | h
        · exact dfs_vis_mono next f _ _ _ (List.mem_cons_self ..)
        · exact h1 x (List.mem_append_right _ h)

/-- **DFS completeness**: a finished run started with an empty visited set has visited every
node reachable from a node of the initial stack. -/
theorem dfs_complete (next : ν → List ν) (f : Nat) (st : List ν)
    (hfin : (dfs next f st []).1 = []) {s x : ν} (hs : s ∈ st) (hr : Reach next s x) :
    x ∈ (dfs next f st []).2 := by
  have ⟨h1, h2⟩ := dfs_closed next f st [] hfin (by simp)
  exact Reach.closed (P := fun y => y ∈ (dfs next f st []).2) (fun a b ha hb => h2 a ha b hb) hr (h1 s hs)

/-- soundness and completeness together -/
theorem mem_dfs_iff (next : ν → List ν) (f : Nat) (st : List ν)
    (hfin : (dfs next f st []).1 = []) (x : ν) :
    x ∈ (dfs next f st []).2 ↔ ∃ s ∈ st, Reach next s x := by
  constructor
  · intro hx
    rcases dfs_sound next f st [] x hx with h | h
    · simp at h
    · exact h
  · rintro ⟨s, hs, hr⟩
    exact dfs_complete next f st hfin hs hr

/-- the visited list never holds a node twice -/
theorem dfs_nodup (next : ν → List ν) (f : Nat) (st vis : List ν) (h : vis.Nodup) :
    (dfs next f st vis).2.Nodup := by
  induction f generalizing st vis with
  | zero => simpa [dfs] using h
  | succ f ih =>
    cases st with
    | nil => simpa [dfs] using h
    | cons n st =>
      simp only [dfs]
      split
      · exact ih _ _ h
      next hn => exact ih _ _ (List.nodup_cons.mpr ⟨hn, h⟩)

/-! ### Fuel -/

/-- number of edges of `E` whose source is not yet visited -/
def openEdges {ε : Type} (E : List ε) (src : ε → ν) (vis : List ν) : Nat :=
  (E.filter (fun e => decide (src e ∉ vis))).length

theorem openEdges_le {ε : Type} (E : List ε) (src : ε → ν) (vis : List ν) :
    openEdges E src vis ≤ E.length := List.length_filter_le ..

theorem openEdges_visit {ε : Type} (E : List ε) (src : ε → ν) (vis : List ν) (n : ν) (hn : n ∉ vis) :
    openEdges E src (n :: vis) + (E.filter (fun e => decide (src e = n))).length = openEdges E src vis := by
  induction E with
  | nil => simp [openEdges]
  | cons e E ih =>
    simp only [openEdges] at ih ⊢
    by_cases h1 : src e = n
    · have h2 : src e ∉ vis := h1 ▸ hn
      simp [h1, hn] at ih ⊢
      omega
    · by_cases h2 : src e ∈ vis
      · simp [h1, h2] at ih ⊢
        omega
      · simp [h1, h2] at ih ⊢
        omega

/-- **Fuel sufficiency**: if every successor list is bounded by the number of edges of `E` leaving
that node, then every iteration decreases `stack.length + openEdges` by at least one; hence
`stack.length + E.length + 1` iterations finish the run. -/
theorem dfs_fuel_sufficient_aux {ε : Type} (E : List ε) (src : ε → ν) (next : ν → List ν)
    (hdeg : ∀ n, (next n).length ≤ (E.filter (fun e => decide (src e = n))).length)
    (f : Nat) (st vis : List ν) (hf : st.length + openEdges E src vis < f) :
    (dfs next f st vis).1 = [] := by
  induction f generalizing st vis with
  | zero => omega
  | succ f ih =>
    cases st with
    | nil => simp [dfs]
    | cons n st =>
      simp only [dfs]
      split
      · apply ih; simp at hf; omega
      next hn =>
        apply ih
        have := openEdges_visit E src vis n hn
        have := hdeg n
        simp at hf ⊢
        omega

theorem dfs_fuel_sufficient {ε : Type} (E : List ε) (src : ε → ν) (next : ν → List ν)
    (hdeg : ∀ n, (next n).length ≤ (E.filter (fun e => decide (src e = n))).length)
    (st : List ν) (f : Nat) (hf : st.length + E.length < f) :
    (dfs next f st []).1 = [] :=
  dfs_fuel_sufficient_aux E src next hdeg f st [] (by have := openEdges_le E src []; omega)

end Generic

/-! ### Edge lists -/

/-- an edge of a directed multigraph with weight `w` -/
structure Edge (ν ω : Type) where
  src : ν
  dst : ν
  w : ω
deriving Repr, DecidableEq

/-- a finite directed multigraph is its list of edges (isolated nodes need no representation:
every node reaches itself) -/
abbrev Graph (ν ω : Type) := List (Edge ν ω)

section EdgeList
variable {ν ω : Type} [DecidableEq ν]

/-- targets of the edges leaving `n`, in edge-list order -/
def succs (g : Graph ν ω) (n : ν) : List ν := (g.filter (fun e => decide (e.src = n))).map (·.dst)
/-- sources of the edges entering `n` -/
def preds (g : Graph ν ω) (n : ν) : List ν := (g.filter (fun e => decide (e.dst = n))).map (·.src)

theorem mem_succs {g : Graph ν ω} {a b : ν} : b ∈ succs g a ↔ ∃ e ∈ g, e.src = a ∧ e.dst = b := by
  simp [succs, List.mem_map, List.mem_filter, and_assoc]

theorem mem_preds {g : Graph ν ω} {a b : ν} : a ∈ preds g b ↔ ∃ e ∈ g, e.src = a ∧ e.dst = b := by
  simp only [preds, List.mem_map, List.mem_filter, decide_eq_true_eq]
  constructor
  · rintro ⟨e, ⟨he, h1⟩, h2⟩; exact ⟨e, he, h2, h1⟩
  · rintro ⟨e, he, h1, h2⟩; exact ⟨e, ⟨he, h2⟩, h1⟩

/-- `b` is reachable from `a` along edges of `g` (paths of length ≥ 0) -/
abbrev GReach (g : Graph ν ω) (a b : ν) : Prop := Reach (succs g) a b

/-- reachability in the reversed graph -/
theorem reach_preds_iff (g : Graph ν ω) (a b : ν) : Reach (preds g) b a ↔ Reach (succs g) a b := by
  constructor
  · exact Reach.reverse (fun x y h => by
      rcases mem_preds.mp h with ⟨e, he, h1, h2⟩; exact mem_succs.mpr ⟨e, he, h1, h2⟩)
  · exact Reach.reverse (fun x y h => by
      rcases mem_succs.mp h with ⟨e, he, h1, h2⟩; exact mem_preds.mpr ⟨e, he, h1, h2⟩)

/-- an edge extends a path -/
theorem GReach.edge {g : Graph ν ω} {a : ν} {e : Edge ν ω} (he : e ∈ g) (h : GReach g a e.src) :
    GReach g a e.dst := .tail h (mem_succs.mpr ⟨e, he, rfl, rfl⟩)

/-- fuel that always suffices for a DFS over `g` from `starts` -/
def fuelFor (g : Graph ν ω) (starts : List ν) : Nat := starts.length + g.length + 1

/-- nodes reachable from one of `starts` (DFS along the edges) -/
def reachable (g : Graph ν ω) (starts : List ν) : List ν :=
  (dfs (succs g) (fuelFor g starts) starts []).2
/-- nodes from which one of `targets` is reachable (DFS against the edges) -/
def coreachable (g : Graph ν ω) (targets : List ν) : List ν :=
  (dfs (preds g) (fuelFor g targets) targets []).2

theorem reachable_finished (g : Graph ν ω) (starts : List ν) :
    (dfs (succs g) (fuelFor g starts) starts []).1 = [] :=
  dfs_fuel_sufficient g (·.src) (succs g) (fun n => by simp [succs]) starts _ (by simp [fuelFor])

theorem coreachable_finished (g : Graph ν ω) (targets : List ν) :
    (dfs (preds g) (fuelFor g targets) targets []).1 = [] :=
  dfs_fuel_sufficient g (·.dst) (preds g) (fun n => by simp [preds]) targets _ (by simp [fuelFor])

theorem mem_reachable_iff (g : Graph ν ω) (starts : List ν) (x : ν) :
    x ∈ reachable g starts ↔ ∃ s ∈ starts, GReach g s x :=
  mem_dfs_iff _ _ _ (reachable_finished g starts) x

theorem mem_coreachable_iff (g : Graph ν ω) (targets : List ν) (x : ν) :
    x ∈ coreachable g targets ↔ ∃ t ∈ targets, GReach g x t := by
  rw [coreachable, mem_dfs_iff _ _ _ (coreachable_finished g targets) x]
  simp only [reach_preds_iff]

/-! ### Explicit paths -/

/-- `Path g a es b`: `es` is a chain of edges of `g` leading from `a` to `b` -/
inductive Path (g : Graph ν ω) : ν → List (Edge ν ω) → ν → Prop where
  | nil (a : ν) : Path g a [] a
  | cons {e : Edge ν ω} {es : List (Edge ν ω)} {b : ν} :
      e ∈ g → Path g e.dst es b → Path g e.src (e :: es) b

theorem Path.reach {g : Graph ν ω} {a b : ν} {es : List (Edge ν ω)} (h : Path g a es b) :
    GReach g a b := by
  induction h with
  | nil => exact .refl _
  | cons he _ ih => exact Reach.head (mem_succs.mpr ⟨_, he, rfl, rfl⟩) ih

omit [DecidableEq ν] in
theorem Path.append {g : Graph ν ω} {a b c : ν} {es es' : List (Edge ν ω)}
    (h1 : Path g a es b) (h2 : Path g b es' c) : Path g a (es ++ es') c := by
  induction h1 with
  | nil => simpa using h2
  | cons he _ ih => exact .cons he (ih h2)

theorem GReach.exists_path {g : Graph ν ω} {a b : ν} (h : GReach g a b) : ∃ es, Path g a es b := by
  induction h with
  | refl => exact ⟨[], .nil _⟩
  | tail _ hs ih =>
    obtain ⟨es, hp⟩ := ih
    obtain ⟨e, he, h1, h2⟩ := mem_succs.mp hs
    subst h1; subst h2
    exact ⟨es ++ [e], hp.append (.cons he (.nil _))⟩

theorem reach_iff_path {g : Graph ν ω} {a b : ν} : GReach g a b ↔ ∃ es, Path g a es b :=
  ⟨GReach.exists_path, fun ⟨_, h⟩ => h.reach⟩

/-- an edge of a path splits it -/
theorem Path.split {g : Graph ν ω} {a b : ν} {es : List (Edge ν ω)} (h : Path g a es b)
    {e : Edge ν ω} (he : e ∈ es) : e ∈ g ∧ GReach g a e.src ∧ GReach g e.dst b := by
  induction h with
  | nil => simp at he
  | @cons e' es' b' he' hp ih =>
    rcases List.mem_cons.mp he with rfl | h
    · exact ⟨he', .refl _, hp.reach⟩
    · have ⟨h1, h2, h3⟩ := ih h
      exact ⟨h1, Reach.head (mem_succs.mpr ⟨_, he', rfl, rfl⟩) h2, h3⟩

/-- **An edge lies on some path from `a` to `b`** iff its source is reachable from `a` and `b` is
reachable from its target. -/
theorem on_path_iff {g : Graph ν ω} {a b : ν} {e : Edge ν ω} :
    (∃ es, Path g a es b ∧ e ∈ es) ↔ e ∈ g ∧ GReach g a e.src ∧ GReach g e.dst b := by
  constructor
  · rintro ⟨es, hp, he⟩; exact hp.split he
  · rintro ⟨he, h1, h2⟩
    obtain ⟨es1, p1⟩ := h1.exists_path
    obtain ⟨es2, p2⟩ := h2.exists_path
    exact ⟨es1 ++ e :: es2, p1.append (.cons he p2), by simp⟩

end EdgeList

/-! non-vacuity: a 4-node graph with a cycle, a self-loop and an unreachable node -/
section Example
def exG : Graph Nat Unit := [⟨0, 1, ()⟩, ⟨1, 2, ()⟩, ⟨2, 0, ()⟩, ⟨2, 2, ()⟩, ⟨3, 0, ()⟩]
example : reachable exG [0] = [2, 1, 0] := by decide
example : coreachable exG [0] = [3, 1, 2, 0] := by decide
example : GReach exG 0 2 := by
  have ⟨s, hs, h⟩ := (mem_reachable_iff exG [0] 2).mp (by decide)
  simp at hs; exact hs ▸ h
example : ¬ GReach exG 0 3 := fun h => absurd ((mem_reachable_iff exG [0] 3).mpr ⟨0, by simp, h⟩) (by decide)
end Example

end CweModel.Reach
