/-
Reference interpreter of the IR (an independent SPECIFICATION written from the IR doc comments and
the P-Code manual; it is the oracle of C10, C11, C13, C18 — see DESIGN.md section 4).

* `Expression.eval`: evaluation with the P-Code reference semantics `CweModel.Ref` (Base/Bv.lean).
  `Unknown{description,size}` is an uninterpreted, side-effect-free function of its description and
  size (the IR doc: "computation of an unknown value is still required to be side-effect-free").
* machine state: register file (total: a default assignment plus overrides) and byte-addressed memory
  (total: default bytes plus overrides), little or big endian.
* `runSub`: executes one function from an initial state with fuel and produces the observable trace:
  loads/stores (address, size, value), calls / indirect jumps / returns with their targets and the
  physical-register + memory state at every call, return and dead end. Callee effects are modelled by
  a deterministic havoc: after a call every physical register except the stack pointer receives a
  fresh oracle value (so that nothing may be assumed to survive a call); memory is left unchanged.

Core-only.
-/
import CweModel.Base.Bv

namespace CweModel.Sem
open CweModel CweModel.IR

/-- deterministic "random" source for defaults, Unknown expressions and call havoc -/
def mix (a b : Nat) : Nat := ((a + 0x9E3779B97F4A7C15) * 0xBF58476D1CE4E5B9 + b * 0x94D049BB133111EB + (a / 8191)) % 2 ^ 64

def strHash (s : String) : Nat := s.toList.foldl (fun h c => mix h c.toNat) 7

structure State where
  seed : Nat
  regs : List (Variable × Bv) := []          -- overrides, most recent first
  mem : List (Nat × Nat) := []               -- byte overrides, most recent first
  littleEndian : Bool := true
  ptrBytes : Nat := 8

/-- default (initial) value of a register -/
def State.regDefault (σ : State) (v : Variable) : Bv :=
  let h := mix (mix σ.seed (strHash v.name)) v.size
  -- bias towards small / boundary values so that branches and flags are exercised
  let raw := match h % 7 with
    | 0 => 0 | 1 => 1 | 2 => 2 ^ (8 * v.size) - 1 | 3 => 2 ^ (8 * v.size - 1)
    | 4 => (h / 7) % 16 | _ => (h / 7) + (h / 7) * 2 ^ 61
  Bv.ofBytes v.size raw

def State.getReg (σ : State) (v : Variable) : Bv :=
  match σ.regs.find? (fun p => p.1 == v) with
  | some p => p.2
  | none => σ.regDefault v

def State.setReg (σ : State) (v : Variable) (x : Bv) : State :=
  { σ with regs := (v, x) :: σ.regs.filter (fun p => p.1 != v) }

def State.memDefault (σ : State) (a : Nat) : Nat := mix (mix σ.seed 0xABCD) a % 256

def State.getByte (σ : State) (a : Nat) : Nat :=
  match σ.mem.find? (fun p => p.1 == a) with
  | some p => p.2
  | none => σ.memDefault a

def State.setByte (σ : State) (a b : Nat) : State :=
  { σ with mem := (a, b) :: σ.mem.filter (fun p => p.1 != a) }

/-- addresses wrap at the pointer size -/
def State.wrapAddr (σ : State) (a : Nat) : Nat := a % 2 ^ (8 * σ.ptrBytes)

/-- read `n` bytes at `a` as a number in the state's byte order -/
def State.readMem (σ : State) (a n : Nat) : Nat :=
  let bytes := (List.range n).map (fun i => σ.getByte (σ.wrapAddr (a + i)))
  let bytes := if σ.littleEndian then bytes.reverse else bytes
  bytes.foldl (fun acc b => acc * 256 + b) 0

def State.writeMem (σ : State) (a n val : Nat) : State :=
  (List.range n).foldl (fun s i =>
    let k := if σ.littleEndian then i else n - 1 - i
    s.setByte (σ.wrapAddr (a + i)) (val / 256 ^ k % 256)) σ

/-- value of an `Unknown` expression: a function of description and size only -/
def unknownValue (seed : Nat) (description : String) (size : Nat) : Bv :=
  Bv.ofBytes size (mix (mix seed (strHash description)) size)

def resToOpt : Res → Option Bv
  | .val b => some b
  | _ => none

/-- evaluate an expression; `none` = ill-sized operands or an unsupported (float / wide mult) operation -/
def eval (σ : State) : Expression → Option Bv
  | .Var v => some (σ.getReg v)
  | .Const b x => some (Bv.ofBytes b x)
  | .BinOp op l r => do
    let a ← eval σ l
    let b ← eval σ r
    resToOpt (Ref.binOp op a b)
  | .UnOp op a => do resToOpt (Ref.unOp op (← eval σ a))
  | .Cast op s a => do resToOpt (Ref.cast op s (← eval σ a))
  | .Unknown d s => some (unknownValue σ.seed d s)
  | .Subpiece lb s a => do resToOpt (Ref.subpieceOp lb s (← eval σ a))

/-- observable events -/
inductive Event where
  | load (addr size val : Nat)
  | store (addr size val : Nat)
  | call (jmpTid : String) (target : String) (snapshot : String)        -- direct call: target tid
  | callInd (jmpTid : String) (target : Nat) (snapshot : String)
  | callOther (jmpTid : String) (description : String) (snapshot : String)
  | jumpInd (jmpTid : String) (target : Nat) (snapshot : String)
  | ret (target : Nat) (snapshot : String)
  | deadEnd (snapshot : String)
  | stuck (reason : String)
  | outOfFuel
deriving Repr, DecidableEq, BEq

def Event.render : Event → String
  | .load a s v => s!"L {a} {s} {v}"
  | .store a s v => s!"S {a} {s} {v}"
  | .call j t sn => s!"C {j} {t} {sn}"
  | .callInd j t sn => s!"CI {j} {t} {sn}"
  | .callOther j d sn => s!"CO {j} {d} {sn}"
  | .jumpInd j t sn => s!"JI {j} {t} {sn}"
  | .ret t sn => s!"R {t} {sn}"
  | .deadEnd sn => s!"D {sn}"
  | .stuck r => s!"X {r}"
  | .outOfFuel => "F"

/-- the observable part of a state: the physical registers `regs` (in the given order) and the
memory overrides that differ from the default, sorted by address -/
def State.snapshot (σ : State) (physRegs : List Variable) : String :=
  let rs := physRegs.map (fun v => s!"{v.name}={(σ.getReg v).toNat}")
  let ms := (σ.mem.filter (fun p => p.2 != σ.memDefault p.1)).toArray.qsort (fun a b => a.1 < b.1)
  let msS := ms.toList.map (fun p => s!"{p.1}:{p.2}")
  String.intercalate "," rs ++ "|" ++ String.intercalate "," msS

/-- execute one `Def`; returns the new state and the memory event, or `none` if stuck -/
def execDef (σ : State) (d : Def) : Option (State × List Event) :=
  match d with
  | .Assign v e => do
    let x ← eval σ e
    if x.w != 8 * v.size then none else
    some (σ.setReg v x, [])
  | .Load v a => do
    let addr ← eval σ a
    let val := σ.readMem addr.toNat v.size
    some (σ.setReg v (Bv.ofBytes v.size val), [.load addr.toNat v.size val])
  | .Store a e => do
    let addr ← eval σ a
    let x ← eval σ e
    let n := x.bytes
    some (σ.writeMem addr.toNat n x.toNat, [.store addr.toNat n x.toNat])

def execDefs (σ : State) : List (Term Def) → Option (State × List Event)
  | [] => some (σ, [])
  | d :: ds => do
    let (σ₁, e₁) ← execDef σ d.term
    let (σ₂, e₂) ← execDefs σ₁ ds
    some (σ₂, e₁ ++ e₂)

/-- effect of an unknown callee: every physical register except the stack pointer gets a fresh value
derived from the call site and the number of calls so far -/
def havoc (σ : State) (physRegs : List Variable) (sp : Variable) (site : String) (nth : Nat) : State :=
  physRegs.foldl (fun s v =>
    if v == sp then s
    else s.setReg v (Bv.ofBytes v.size (mix (mix (mix σ.seed (strHash site)) nth) (strHash v.name)))) σ

structure Env where
  physRegs : List Variable
  sp : Variable

/-- what the jumps of a block decide -/
inductive Next where
  | goto (blk : Tid) (σ : State) (calls : Nat)
  | stop

/-- execute the jump list of a block (CBranch falls through to the next jump when not taken) -/
def execJmps (env : Env) (σ : State) (calls : Nat) : List (Term Jmp) → (List Event × Next)
  | [] => ([.deadEnd (σ.snapshot env.physRegs)], .stop)
  | j :: rest =>
    match j.term with
    | .Branch t => ([], .goto t σ calls)
    | .CBranch t c =>
      match eval σ c with
      | none => ([.stuck s!"cond {j.tid.id}"], .stop)
      | some v => if v.toNat != 0 then ([], .goto t σ calls) else execJmps env σ calls rest
    | .BranchInd e =>
      match eval σ e with
      | none => ([.stuck s!"branchind {j.tid.id}"], .stop)
      | some v => ([.jumpInd j.tid.id v.toNat (σ.snapshot env.physRegs)], .stop)
    | .Call t r =>
      let ev := Event.call j.tid.id t.id (σ.snapshot env.physRegs)
      match r with
      | none => ([ev, .deadEnd (σ.snapshot env.physRegs)], .stop)
      | some rt => ([ev], .goto rt (havoc σ env.physRegs env.sp j.tid.id calls) (calls + 1))
    | .CallInd e r =>
      match eval σ e with
      | none => ([.stuck s!"callind {j.tid.id}"], .stop)
      | some v =>
        let ev := Event.callInd j.tid.id v.toNat (σ.snapshot env.physRegs)
        match r with
        | none => ([ev, .deadEnd (σ.snapshot env.physRegs)], .stop)
        | some rt => ([ev], .goto rt (havoc σ env.physRegs env.sp j.tid.id calls) (calls + 1))
    | .CallOther d r =>
      let ev := Event.callOther j.tid.id d (σ.snapshot env.physRegs)
      match r with
      | none => ([ev, .deadEnd (σ.snapshot env.physRegs)], .stop)
      | some rt => ([ev], .goto rt (havoc σ env.physRegs env.sp j.tid.id calls) (calls + 1))
    | .Return e =>
      match eval σ e with
      | none => ([.stuck s!"return {j.tid.id}"], .stop)
      | some v => ([.ret v.toNat (σ.snapshot env.physRegs)], .stop)

/-- run a function: `fuel` bounds the number of executed blocks -/
def runBlocks (env : Env) (blocks : List (Term Blk)) : Nat → Tid → State → Nat → List Event
  | 0, _, _, _ => [.outOfFuel]
  | fuel + 1, cur, σ, calls =>
    match blocks.find? (fun b => b.tid == cur) with
    | none => [.stuck s!"no block {cur.id}"]
    | some b =>
      match execDefs σ b.term.defs with
      | none => [.stuck s!"def in {cur.id}"]
      | some (σ₁, evs) =>
        match execJmps env σ₁ calls b.term.jmps with
        | (evs₂, .stop) => evs ++ evs₂
        | (evs₂, .goto t σ₂ calls₂) => evs ++ evs₂ ++ runBlocks env blocks fuel t σ₂ calls₂

/-- trace of a function started at its first block -/
def runSub (env : Env) (s : Sub) (σ : State) (fuel : Nat) : List Event :=
  match s.blocks with
  | [] => [.deadEnd (σ.snapshot env.physRegs)]
  | b :: _ => runBlocks env s.blocks fuel b.tid σ 0

/-- two traces agree observably: equal if both complete, otherwise (fuel ran out in one of them) one
is a prefix of the other up to the fuel marker -/
def tracesAgree (a b : List Event) : Bool :=
  let cut (l : List Event) := l.takeWhile (· != .outOfFuel)
  let ca := cut a
  let cb := cut b
  if ca.length == a.length && cb.length == b.length then a == b
  else
    let n := min ca.length cb.length
    ca.take n == cb.take n

end CweModel.Sem
