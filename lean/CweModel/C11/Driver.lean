/- C11 model driver: model of the lifting vs. the real lifted IR (syntactic), and the executable
specification on the REAL lifted IR: P-Code reference interpreter vs. IR reference interpreter from the
same initial states, per block; plus the size-consistency checker of property C12 (`C12.WellSizedBlk`,
C12/Model.lean) on the REAL lifted blocks (theorem: `C12.liftBlk_wellSized`). -/
import CweModel.Base.Proto
import CweModel.C11.Lift
import CweModel.C11.Sized
import CweModel.C12.Model
open Lean CweModel.Proto

namespace CweModel.C11
open CweModel CweModel.IR CweModel.Sem

def defKind : Def → String
  | .Assign _ _ => "Assign"
  | .Load _ _ => "Load"
  | .Store _ _ => "Store"

/-- where two programs differ first (canonical token for `class=`) -/
def firstDiff (m i : Program) : String :=
  if m.subs.length != i.subs.length then "subs-count"
  else if m.entryPoints != i.entryPoints then "entry-points"
  else
    let rec blks : List (Term Blk) → List (Term Blk) → Option String
      | [], [] => none
      | a :: as, b :: bs =>
        if a == b then blks as bs
        else if a.tid != b.tid then some "block-order"
        else if a.term.indirectJmpTargets != b.term.indirectJmpTargets then some "indirect-jmp-targets"
        else if a.term.jmps != b.term.jmps then some "jmp"
        else if a.term.defs.length != b.term.defs.length then some "def-count"
        else
          match (a.term.defs.zip b.term.defs).find? (fun p => p.1 != p.2) with
          | some (x, y) =>
            if x.tid != y.tid then some "def-tid" else some s!"def-{defKind x.term}-{defKind y.term}"
          | none => some "blk"
      | _, _ => some "block-count"
    let rec subs : List (Term Sub) → List (Term Sub) → Option String
      | [], [] => none
      | a :: as, b :: bs =>
        if a == b then subs as bs
        else if a.tid != b.tid then some "sub-order"
        else if a.term.name != b.term.name || a.term.callingConvention != b.term.callingConvention then some "sub-attrs"
        else match blks a.term.blocks b.term.blocks with
          | some s => some s
          | none => some "sub"
      | _, _ => some "subs-count"
    (subs m.subs i.subs).getD "program"

def nextTag : Next → String
  | .goto t _ c => s!"goto:{t.id}:{c}"
  | .stop => "stop"

def renderEvents (es : List Event) : String := String.intercalate ";" (es.map Event.render)

/-- a short description of the first P-Code instruction features of a block (for `class=`) -/
def blkFeature (tbl : RegTable) (b : Pcode.Blk) : String :=
  let subOut := b.defs.any (fun d => match d.term.lhs with
    | some v => (match v.kind with
      | .reg n => (match regGet tbl n with
        | some r => r.register != r.baseRegister || v.size < r.size
        | none => false)
      | _ => false)
    | none => false)
  let ram := b.defs.any (fun d => [d.term.lhs, d.term.rhs.input0, d.term.rhs.input1, d.term.rhs.input2].any
    (fun o => match o with | some v => v.isRam | none => false))
  (if subOut then "subreg-write" else "plain") ++ (if ram then "+ram" else "")

structure SemResult where
  checked : Nat := 0
  undef : Nat := 0
  failure : Option (String × String × String) := none     -- class, expected, observed

/-- the executable specification on one block: run the P-Code reference interpreter on the P-Code block
and the IR reference interpreter on the lifted block from the same state and compare observables -/
def checkBlock (tbl : RegTable) (env : Env) (ptr : Nat) (seeds : List Nat) (pb : Term Pcode.Blk) (ib : Term Blk)
    (acc : SemResult) : SemResult :=
  seeds.foldl (fun acc seed =>
    if acc.failure.isSome then acc else
    let σ₀ : State := { seed := seed, ptrBytes := ptr }
    match execBlk tbl env σ₀ pb.term with
    | none => { acc with undef := acc.undef + 1 }
    | some eff =>
      let feat := blkFeature tbl pb.term
      let expSnap := eff.after.snapshot env.physRegs
      let expected := s!"[{renderEvents (eff.events ++ eff.jmpEvents)}|{expSnap}|{nextTag eff.next}]"
      match Sem.execDefs σ₀ ib.term.defs with
      | none => { acc with failure := some (s!"sem-stuck-{feat}", expected, s!"stuck-in-defs@{pb.tid.id}:seed={seed}") }
      | some (ρ₁, ev₁) =>
        let (ev₂, n) := Sem.execJmps env ρ₁ 0 ib.term.jmps
        let obsSnap := ρ₁.snapshot env.physRegs
        let observed := s!"[{renderEvents (ev₁ ++ ev₂)}|{obsSnap}|{nextTag n}]"
        if expSnap != obsSnap then
          { acc with failure := some (s!"sem-registers-{feat}", expected, observed ++ s!"@{pb.tid.id}:seed={seed}") }
        else if eff.events ++ eff.jmpEvents != ev₁ ++ ev₂ then
          { acc with failure := some (s!"sem-events-{feat}", expected, observed ++ s!"@{pb.tid.id}:seed={seed}") }
        else if nextTag eff.next != nextTag n then
          { acc with failure := some (s!"sem-branch-{feat}", expected, observed ++ s!"@{pb.tid.id}:seed={seed}") }
        else { acc with checked := acc.checked + 1 }) acc

def handleE (line : String) : Except String String := do
  let j ← Json.parse line
  let p ← Pcode.parseProject (← field j "pcode")
  let seeds ← mapM' (·.getNat?) (← arrF j "seeds")
  let implJ ← field j "impl"
  let model := Lift.liftProject p
  let tbl := p.registerProperties
  let ptr := p.pointerSize
  let dom := projectOk p
  match implJ with
  | .str s =>
    -- the real code panicked
    let cls := "panic"
    match model with
    | none =>
      if dom then return s!"spec class=lift-panic-in-domain expected=lifted-program impl={s.replace " " "_"}"
      else return s!"ok {cls} modelonly"
    | some _ =>
      if dom then return s!"spec class=lift-panic-in-domain expected=lifted-program impl={s.replace " " "_"}"
      else return s!"diff class=lift-panic model=lifted impl={s.replace " " "_"}"
  | _ =>
    let impl ← parseProgram implJ
    -- executable specification on the implementation output
    let env : Env := { physRegs := baseRegs tbl, sp := ⟨(p.stackPointerRegister.name.getD ""), ptr, false⟩ }
    let mut res : SemResult := {}
    let mut sizeFail : Option String := none
    let mut dropped := false
    let mut sized := 0
    if dom then
      for s in p.program.subs do
        if !subHasEntry s then dropped := true
        else
          match impl.subs.find? (fun t => t.tid == s.tid) with
          | none => res := { res with failure := some ("sub-missing", s.tid.id, "none") }
          | some is =>
            -- function level: the trace of the whole function, started at the block at the function's address
            match s.term.blocks.find? (fun b => b.tid.address == s.tid.address) with
            | none => pure ()
            | some entry =>
              for seed in seeds.take 2 do
                let σ₀ : State := { seed := seed, ptrBytes := ptr }
                match runBlocks tbl env s.term.blocks 6 entry.tid σ₀ 0 with
                | none => res := { res with undef := res.undef + 1 }
                | some tr =>
                  let itr := Sem.runSub env is.term σ₀ 6
                  if itr != tr && res.failure.isNone then
                    res := { res with failure := some ("sem-function-trace", renderEvents tr,
                      renderEvents itr ++ s!"@{s.tid.id}:seed={seed}") }
                  else res := { res with checked := res.checked + 1 }
            for pb in s.term.blocks do
              match is.term.blocks.find? (fun b => b.tid == pb.tid) with
              | none => res := { res with failure := some ("block-missing", pb.tid.id, "none") }
              | some ib =>
                res := checkBlock tbl env ptr seeds pb ib res
                if pcodeBlkSized ptr pb.term && sizeFail.isNone && !decide (C12.WellSizedBlk ptr ib.term) then
                  sized := sized + 1
                  sizeFail := some s!"{blkFeature tbl pb.term}@{pb.tid.id}"
                else if pcodeBlkSized ptr pb.term then sized := sized + 1
    match res.failure, sizeFail with
    | some (cls, expected, observed), _ =>
      return s!"spec class={cls} expected={expected.replace " " "_"} impl={observed.replace " " "_"}"
    | none, some w =>
      return s!"spec class=ill-sized-{(w.splitOn "@").headD ""} expected=well-sized-lifted-block impl=ill-sized@{w}"
    | none, none =>
      match model with
      | none => return s!"diff class=lift-panic model=panic impl=lifted"
      | some m =>
        if m != impl then return s!"diff class=lift-{firstDiff m impl} model=… impl=…"
        else
          let tags := (if dom then "constrained" else "modelonly") ++
            (if res.checked > 0 then " sem-checked" else "") ++ (if res.undef > 0 then " sem-undefined" else "") ++
            (if dropped then " blocks-dropped" else "") ++ (if sized > 0 then " size-checked" else "")
          return s!"ok lifted {tags}"

end CweModel.C11

def main : IO Unit := CweModel.Proto.runDriver (CweModel.Proto.guarded CweModel.C11.handleE)
