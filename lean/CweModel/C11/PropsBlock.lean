/-
C11 — lists of instructions through the three layers (normalize, into_ir, sub-register substitution) and
the jumps of a block.
-/
import CweModel.C11.PropsNorm
set_option linter.unusedSimpArgs false
set_option linter.unusedVariables false
namespace CweModel.C11
open CweModel CweModel.IR CweModel.Sem CweModel.Gen.PcodeOps CweModel.C11.Lift

variable {T : Variable → Prop}

/-! ### the pointer size is never changed -/

theorem foldSetByte_ptr (f g : Nat → Nat) :
    ∀ (l : List Nat) (σ : State), (l.foldl (fun s i => s.setByte (f i) (g i)) σ).ptrBytes = σ.ptrBytes := by
  intro l
  induction l with
  | nil => intro σ; rfl
  | cons i l ih => intro σ; simp only [List.foldl_cons]; rw [ih]; rfl

theorem ptr_writeMem (σ : State) (a n val : Nat) : (σ.writeMem a n val).ptrBytes = σ.ptrBytes := by
  unfold State.writeMem; exact foldSetByte_ptr _ _ _ _

theorem writeVar_ptr {tbl : RegTable} {σ σ' : State} {out : Pcode.Var} {x : Bv} {ev : List Event}
    (h : writeVar tbl σ out x = some (σ', ev)) : σ'.ptrBytes = σ.ptrBytes := by
  unfold writeVar at h
  by_cases hxw : (x.w != 8 * out.size) = true
  · simp [hxw] at h
  · simp only [hxw, Bool.false_eq_true, if_false] at h
    cases hk : out.kind with
    | bad => simp [hk] at h
    | const c => simp [hk] at h
    | tmp n => simp [hk] at h; rw [← h.1]; rfl
    | ram a => simp [hk] at h; rw [← h.1]; exact ptr_writeMem _ _ _ _
    | reg n =>
      simp only [hk, Option.bind_eq_bind] at h
      cases hl : regLoc tbl n out.size with
      | none => simp [hl] at h
      | some l => simp [hl] at h; rw [← h.1]; rfl

theorem execDef_ptr {tbl : RegTable} {σ σ' : State} {d : Pcode.Def} {ev : List Event}
    (h : execDef tbl σ d = some (σ', ev)) : σ'.ptrBytes = σ.ptrBytes := by
  simp only [execDef, Option.bind_eq_bind] at h
  cases hr₀ : readOpt tbl σ d.rhs.input0 with
  | none => simp [hr₀] at h
  | some q₀ =>
  cases hr₁ : readOpt tbl σ d.rhs.input1 with
  | none => simp [hr₀, hr₁] at h
  | some q₁ =>
  cases hr₂ : readOpt tbl σ d.rhs.input2 with
  | none => simp [hr₀, hr₁, hr₂] at h
  | some q₂ =>
  cases hc : compute d q₀.1 q₁.1 q₂.1 with
  | none => simp [hr₀, hr₁, hr₂, hc] at h
  | some act =>
  cases hp : perform tbl σ act with
  | none => simp [hr₀, hr₁, hr₂, hc, hp] at h
  | some qp =>
  simp only [hr₀, hr₁, hr₂, hc, hp, Option.bind_some, Option.some.injEq, Prod.mk.injEq] at h
  rw [← h.1]
  cases act with
  | write out x => exact writeVar_ptr hp
  | store addr x => simp [perform] at hp; rw [← hp]; exact ptr_writeMem _ _ _ _
  | load out addr =>
    simp only [perform, Option.bind_eq_bind] at hp
    cases hw : writeVar tbl σ out (Bv.ofBytes out.size (σ.readMem addr.toNat out.size)) with
    | none => simp [hw] at hp
    | some q => obtain ⟨q1, q2⟩ := q; simp [hw] at hp; rw [← hp]; exact writeVar_ptr hw

/-! ### lists of instructions through the three layers -/

/-- **C11-normalize (instruction lists).** -/
theorem normDefs_sim {tbl : RegTable} (ht : tableOk tbl = true) {ptr : Nat} (hp0 : 0 < ptr) :
    ∀ (ds : List (Term Pcode.Def)) {σ τ σ' : State} {ev : List Event},
      (∀ d ∈ ds, defOk tbl d.term = true) → Agree IsLoadTemp σ τ → σ.ptrBytes = ptr →
      execDefs tbl σ ds = some (σ', ev) →
      ∃ nss τ', mapOpt (addLoadsDef ptr) ds = some nss ∧ execDefs tbl τ nss.flatten = some (τ', ev) ∧
        Agree IsLoadTemp σ' τ' ∧ (∀ d' ∈ nss.flatten, defOkN tbl d'.term = true) ∧ σ'.ptrBytes = ptr := by
  intro ds
  induction ds with
  | nil =>
    intro σ τ σ' ev _ hag hptr hx
    simp [execDefs] at hx
    obtain ⟨rfl, rfl⟩ := hx
    exact ⟨[], τ, rfl, rfl, hag, by simp, hptr⟩
  | cons d ds ih =>
    intro σ τ σ' ev hok hag hptr hx
    simp only [execDefs, Option.bind_eq_bind] at hx
    cases hd : execDef tbl σ d.term with
    | none => simp [hd] at hx
    | some p =>
      obtain ⟨σ₁, e₁⟩ := p
      cases hr : execDefs tbl σ₁ ds with
      | none => simp [hd, hr] at hx
      | some q =>
        obtain ⟨σ₂, e₂⟩ := q
        simp only [hd, hr, Option.bind_some, Option.some.injEq, Prod.mk.injEq] at hx
        obtain ⟨rfl, rfl⟩ := hx
        obtain ⟨ns, τ₁, h1, h2, h3, h4⟩ := addLoads_sim ht hp0 hptr hag d (hok d (by simp)) hd
        have hptr₁ : σ₁.ptrBytes = ptr := by rw [execDef_ptr hd]; exact hptr
        obtain ⟨nss, τ₂, g1, g2, g3, g4, g5⟩ := ih (fun d' hd' => hok d' (by simp [hd'])) h3 hptr₁ hr
        refine ⟨ns :: nss, τ₂, by simp [mapOpt, h1, g1], ?_, g3, ?_, g5⟩
        · simp only [List.flatten_cons]; exact execDefs_app h2 g2
        · intro d' hd'
          simp only [List.flatten_cons, List.mem_append] at hd'
          rcases hd' with hd' | hd'
          · exact h4 d' hd'
          · exact g4 d' hd'

/-- `into_ir_blk` on the defs -/
def rawDefs (ptr : Nat) (ds : List (Term Pcode.Def)) : Option (List (Term Def)) :=
  mapOpt (fun d : Term Pcode.Def => do some (⟨d.tid, ← defToIr ptr d.term⟩ : Term Def)) ds

/-- **C11-def (instruction lists).** -/
theorem rawDefs_sim {tbl : RegTable} {ptr : Nat} :
    ∀ (nds : List (Term Pcode.Def)) {τ τ' : State} {ev : List Event},
      (∀ d ∈ nds, defOkN tbl d.term = true) → τ.ptrBytes = ptr → execDefs tbl τ nds = some (τ', ev) →
      ∃ raw, rawDefs ptr nds = some raw ∧ execDefsA tbl τ raw = some (τ', ev) ∧ ∀ r ∈ raw, DefOkA tbl r.term := by
  intro nds
  induction nds with
  | nil =>
    intro τ τ' ev _ _ hx
    simp [execDefs] at hx
    obtain ⟨rfl, rfl⟩ := hx
    exact ⟨[], rfl, rfl, by simp⟩
  | cons d ds ih =>
    intro τ τ' ev hok hptr hx
    simp only [execDefs, Option.bind_eq_bind] at hx
    cases hd : execDef tbl τ d.term with
    | none => simp [hd] at hx
    | some p =>
      obtain ⟨τ₁, e₁⟩ := p
      cases hr : execDefs tbl τ₁ ds with
      | none => simp [hd, hr] at hx
      | some q =>
        obtain ⟨τ₂, e₂⟩ := q
        simp only [hd, hr, Option.bind_some, Option.some.injEq, Prod.mk.injEq] at hx
        obtain ⟨rfl, rfl⟩ := hx
        obtain ⟨d', h1, h2, h3⟩ := defToIr_sim ptr hptr (hok d (by simp)) hd
        have hptr₁ : τ₁.ptrBytes = ptr := by rw [execDef_ptr hd]; exact hptr
        obtain ⟨raw, g1, g2, g3⟩ := ih (fun d' hd' => hok d' (by simp [hd'])) hptr₁ hr
        refine ⟨⟨d.tid, d'⟩ :: raw, ?_, ?_, ?_⟩
        · simp only [rawDefs, Option.bind_eq_bind] at g1
          simp only [rawDefs, mapOpt, h1, Option.bind_eq_bind, Option.bind_some, g1]
        · simp [execDefsA, h2, g2]
        · intro r hr'
          rcases List.mem_cons.mp hr' with rfl | hr'
          · exact h3
          · exact g3 r hr'


/-! ### jumps -/

theorem evalA_congrT (hT : ∀ u, T u → u.isTemp = true) {tbl : RegTable} {σ ρ : State} (h : Agree T σ ρ) :
    ∀ e : Expression, (∀ v ∈ e.inputVars, ¬ T v) → evalA tbl σ e = evalA tbl ρ e := by
  intro e
  induction e with
  | Var v =>
    intro hv
    have hnl := hv v (by simp [Expression.inputVars])
    simp only [evalA, readVarA]
    by_cases ht : v.isTemp = true
    · simp [ht, h.regs v hnl]
    · simp only [ht, Bool.false_eq_true, if_false]
      cases hl : regLoc tbl v.name v.size with
      | none => simp
      | some l =>
        simp only [Option.map_some, readLoc]
        rw [h.regs l.base (regLoc_nontemp_notT hT hl)]
  | Const b x => intro _; rfl
  | Unknown d s => intro _; simp [evalA, h.seed]
  | BinOp op l r ihl ihr =>
    intro hv
    simp only [evalA]
    rw [ihl (fun v hv' => hv v (by simp [Expression.inputVars, hv'])),
      ihr (fun v hv' => hv v (by simp [Expression.inputVars, hv']))]
  | UnOp op a ih => intro hv; simp only [evalA]; rw [ih (fun v hv' => hv v (by simpa [Expression.inputVars] using hv'))]
  | Cast op s a ih => intro hv; simp only [evalA]; rw [ih (fun v hv' => hv v (by simpa [Expression.inputVars] using hv'))]
  | Subpiece lb s a ih => intro hv; simp only [evalA]; rw [ih (fun v hv' => hv v (by simpa [Expression.inputVars] using hv'))]

theorem varToIrExpr_avoids (hT : ∀ u, T u → u.isTemp = true) {tbl : RegTable} {v : Pcode.Var}
    (hok : varOkN tbl v = true) (hv : VarAvoids T v)
    {ex : Expression} (h : varToIrExpr v = some ex) : ∀ u ∈ ex.inputVars, ¬ T u := by
  intro u hu htu
  have hut := hT u htu
  unfold varOkN at hok
  cases hk : v.kind with
  | bad => simp [hk] at hok
  | ram a => obtain ⟨h1, h2, _⟩ := kind_ram hk; simp [varToIrExpr, h1, h2] at h
  | const c =>
    obtain ⟨h1, h3, s, h2, hs⟩ := kind_const hk
    simp [varToIrExpr, parseConst, h1, h2, hs] at h
    subst h; simp [Expression.inputVars] at hu
  | reg n =>
    obtain ⟨h1, h2, h3, h4⟩ := kind_reg hk
    simp [varToIrExpr, varToIrVar, h1, h2, h4] at h
    subst h
    simp only [Expression.inputVars, List.mem_singleton] at hu
    subst hu
    simp at hut
  | tmp n =>
    obtain ⟨h1, h2, h3, h4⟩ := kind_tmp hk
    simp [varToIrExpr, varToIrVar, h1, h2, h4] at h
    subst h
    simp only [Expression.inputVars, List.mem_singleton] at hu
    subst hu
    exact hv n hk htu

/-- **C11-operand.** A register / temporary / constant operand of a jump (or instruction): the lifted and
sub-register-substituted expression evaluates, over base registers, to the value of the varnode. -/
theorem operand_sound {tbl : RegTable} (ht : tableOk tbl = true) (hT : ∀ u, T u → u.isTemp = true)
    {σ ρ : State} (hag : Agree T σ ρ) (hρ : WellTyped ρ) {v : Pcode.Var} (hok : varOkN tbl v = true)
    (hnr : v.isRam = false) (hv : VarAvoids T v) {x : Bv} {e : List Event}
    (h : readVar tbl σ v = some (x, e)) :
    e = [] ∧ ∃ ex ex', varToIrExpr v = some ex ∧ replaceInputSubregister tbl ex = some ex' ∧ eval ρ ex' = some x := by
  obtain ⟨he, ex, h1, h2, h3⟩ := readVar_A hok hnr h
  rw [evalA_congrT hT hag ex (varToIrExpr_avoids hT hok hv h1)] at h2
  obtain ⟨ex', g1, g2⟩ := substAll_sound ht hρ ex h3.exprOk h2
  exact ⟨he, ex, ex', h1, replaceInputSubregister_eq ht ex g1, g2⟩

/-! snapshots, call havoc -/

theorem snapshot_agree {σ ρ : State} (h : Agree T σ ρ) (regs : List Variable) (hr : ∀ v ∈ regs, ¬ T v) :
    σ.snapshot regs = ρ.snapshot regs := by
  unfold State.snapshot State.memDefault
  have : regs.map (fun v => s!"{v.name}={(σ.getReg v).toNat}") = regs.map (fun v => s!"{v.name}={(ρ.getReg v).toNat}") := by
    apply List.map_congr_left
    intro v hv
    rw [h.regs v (hr v hv)]
  rw [this, h.mem, h.seed]

theorem havoc_agree {σ ρ : State} (h : Agree T σ ρ) (regs : List Variable) (sp : Variable) (site : String) (n : Nat) :
    Agree T (havoc σ regs sp site n) (havoc ρ regs sp site n) := by
  unfold havoc
  rw [← h.seed]
  generalize σ.seed = sd
  induction regs generalizing σ ρ with
  | nil => exact h
  | cons v vs ih =>
    simp only [List.foldl_cons]
    by_cases hv : v == sp
    · simp only [hv, if_true]; exact ih h
    · simp only [hv, Bool.false_eq_true, if_false]; exact ih (h.setReg _ _)

/-- the decisions of two jump lists agree: same target, same call count, agreeing states -/
inductive NextAgree (T : Variable → Prop) : Next → Next → Prop where
  | goto {t : Tid} {σ ρ : State} {c : Nat} : Agree T σ ρ → NextAgree T (.goto t σ c) (.goto t ρ c)
  | stop : NextAgree T .stop .stop


theorem labelDirect_eq (l : Pcode.Label) : labelDirect l = l.direct? := by cases l <;> rfl
theorem labelIndirect_eq (l : Pcode.Label) : labelIndirect l = l.indirect? := by cases l <;> rfl
theorem returnLabel_eq (c : Pcode.Call) : returnLabel c.ret = callReturn c := by
  unfold returnLabel callReturn
  cases c.ret with
  | none => rfl
  | some l => simp [labelDirect_eq]

/-- the varnode a jump reads -/
def jmpOperand (j : Pcode.Jmp) : Option Pcode.Var :=
  match j.mnemonic with
  | .CBRANCH => j.condition
  | .BRANCHIND => j.goto.bind Pcode.Label.indirect?
  | .RETURN => j.goto.bind Pcode.Label.indirect?
  | .CALLIND => (j.call.bind (·.target)).bind Pcode.Label.indirect?
  | _ => none

/-- a jump of normalized P-Code: its operand is a well formed non-RAM varnode outside `T` -/
def JmpOkN (tbl : RegTable) (T : Variable → Prop) (j : Pcode.Jmp) : Prop :=
  ∀ v, jmpOperand j = some v → varOkN tbl v = true ∧ v.isRam = false ∧ VarAvoids T v

/-- `into_ir_blk` and `replace_subregister_in_block` on one jump -/
def liftJmp (tbl : RegTable) (j : Term Pcode.Jmp) : Option (Term Jmp) := do
  some ⟨j.tid, ← replaceSubregisterInJump tbl (← jmpToIr j.term)⟩

/-- a single jump that is not a conditional branch -/
theorem single_sim {tbl : RegTable} (ht : tableOk tbl = true) (hT : ∀ u, T u → u.isTemp = true)
    (env : Env) (hphys : ∀ v ∈ env.physRegs, ¬ T v) {σ ρ : State} (hag : Agree T σ ρ) (hρ : WellTyped ρ)
    (j : Term Pcode.Jmp) (hnc : j.term.mnemonic ≠ .CBRANCH) (hok : JmpOkN tbl T j.term) (c : Nat)
    {ev : List Event} {n : Next} (hx : execJmps tbl env σ c [j] = some (ev, n)) :
    ∃ ij n', liftJmp tbl j = some ij ∧ Sem.execJmps env ρ c [ij] = (ev, n') ∧ NextAgree T n n' := by
  have hsnap := snapshot_agree hag env.physRegs hphys
  unfold execJmps at hx
  cases hm : j.term.mnemonic with
  | CBRANCH => exact absurd hm hnc
  | BRANCH =>
    simp only [hm, Option.bind_eq_bind] at hx
    cases hg : j.term.goto with
    | none => simp [hg] at hx
    | some l =>
      cases hd : l.direct? with
      | none => simp [hg, hd] at hx
      | some t =>
        simp only [hg, hd, Option.bind_some, Option.some.injEq, Prod.mk.injEq] at hx
        obtain ⟨rfl, rfl⟩ := hx
        refine ⟨⟨j.tid, .Branch t⟩, .goto t ρ c, ?_, by simp [Sem.execJmps], .goto hag⟩
        simp [liftJmp, jmpToIr, hm, hg, labelDirect_eq, hd, replaceSubregisterInJump]
  | BRANCHIND =>
    simp only [hm, Option.bind_eq_bind] at hx
    cases hg : j.term.goto with
    | none => simp [hg] at hx
    | some l =>
      cases hd : l.indirect? with
      | none => simp [hg, hd] at hx
      | some v =>
        simp only [hg, hd, Option.bind_some] at hx
        cases hr : readVar tbl σ v with
        | none => simp [hr] at hx
        | some q =>
          obtain ⟨x, e⟩ := q
          simp only [hr, Option.bind_some, Option.some.injEq, Prod.mk.injEq] at hx
          obtain ⟨rfl, rfl⟩ := hx
          obtain ⟨h1, h2, h3⟩ := hok v (by simp [jmpOperand, hm, hg, hd])
          obtain ⟨rfl, ex, ex', g1, g2, g3⟩ := operand_sound ht hT hag hρ h1 h2 h3 hr
          refine ⟨⟨j.tid, .BranchInd ex'⟩, .stop, ?_, ?_, .stop⟩
          · simp [liftJmp, jmpToIr, hm, hg, labelIndirect_eq, hd, g1, replaceSubregisterInJump, g2]
          · simp [Sem.execJmps, g3, hsnap]
  | RETURN =>
    simp only [hm, Option.bind_eq_bind] at hx
    cases hg : j.term.goto with
    | none => simp [hg] at hx
    | some l =>
      cases hd : l.indirect? with
      | none => simp [hg, hd] at hx
      | some v =>
        simp only [hg, hd, Option.bind_some] at hx
        cases hr : readVar tbl σ v with
        | none => simp [hr] at hx
        | some q =>
          obtain ⟨x, e⟩ := q
          simp only [hr, Option.bind_some, Option.some.injEq, Prod.mk.injEq] at hx
          obtain ⟨rfl, rfl⟩ := hx
          obtain ⟨h1, h2, h3⟩ := hok v (by simp [jmpOperand, hm, hg, hd])
          obtain ⟨rfl, ex, ex', g1, g2, g3⟩ := operand_sound ht hT hag hρ h1 h2 h3 hr
          refine ⟨⟨j.tid, .Return ex'⟩, .stop, ?_, ?_, .stop⟩
          · simp [liftJmp, jmpToIr, hm, hg, labelIndirect_eq, hd, g1, replaceSubregisterInJump, g2]
          · simp [Sem.execJmps, g3, hsnap]
  | CALL =>
    simp only [hm, Option.bind_eq_bind] at hx
    cases hc : j.term.call with
    | none => simp [hc] at hx
    | some cl =>
      cases htg : cl.target with
      | none => simp [hc, htg] at hx
      | some l =>
        cases hd : l.direct? with
        | none => simp [hc, htg, hd] at hx
        | some t =>
          cases hret : callReturn cl with
          | none => simp [hc, htg, hd, hret] at hx
          | some r =>
            simp only [hc, htg, hd, hret, Option.bind_some, Option.some.injEq] at hx
            have hl : liftJmp tbl j = some ⟨j.tid, .Call t r⟩ := by
              simp [liftJmp, jmpToIr, hm, hc, htg, labelDirect_eq, hd, returnLabel_eq, hret, replaceSubregisterInJump]
            cases r with
            | none =>
              simp only [Prod.mk.injEq] at hx
              obtain ⟨rfl, rfl⟩ := hx
              exact ⟨_, .stop, hl, by simp [Sem.execJmps, hsnap], .stop⟩
            | some rt =>
              simp only [Prod.mk.injEq] at hx
              obtain ⟨rfl, rfl⟩ := hx
              exact ⟨_, _, hl, by simp [Sem.execJmps, hsnap], .goto (havoc_agree hag _ _ _ _)⟩
  | CALLIND =>
    simp only [hm, Option.bind_eq_bind] at hx
    cases hc : j.term.call with
    | none => simp [hc] at hx
    | some cl =>
      cases htg : cl.target with
      | none => simp [hc, htg] at hx
      | some l =>
        cases hd : l.indirect? with
        | none => simp [hc, htg, hd] at hx
        | some v =>
          simp only [hc, htg, hd, Option.bind_some] at hx
          cases hr : readVar tbl σ v with
          | none => simp [hr] at hx
          | some q =>
            obtain ⟨x, e⟩ := q
            cases hret : callReturn cl with
            | none => simp [hr, hret] at hx
            | some r =>
              simp only [hr, hret, Option.bind_some, Option.some.injEq] at hx
              obtain ⟨h1, h2, h3⟩ := hok v (by simp [jmpOperand, hm, hc, htg, hd])
              obtain ⟨rfl, ex, ex', g1, g2, g3⟩ := operand_sound ht hT hag hρ h1 h2 h3 hr
              have hl : liftJmp tbl j = some ⟨j.tid, .CallInd ex' r⟩ := by
                simp [liftJmp, jmpToIr, hm, hc, htg, labelIndirect_eq, hd, g1, returnLabel_eq, hret,
                  replaceSubregisterInJump, g2]
              cases r with
              | none =>
                simp only [List.nil_append, Prod.mk.injEq] at hx
                obtain ⟨rfl, rfl⟩ := hx
                exact ⟨_, .stop, hl, by simp [Sem.execJmps, g3, hsnap], .stop⟩
              | some rt =>
                simp only [List.nil_append, Prod.mk.injEq] at hx
                obtain ⟨rfl, rfl⟩ := hx
                exact ⟨_, _, hl, by simp [Sem.execJmps, g3, hsnap], .goto (havoc_agree hag _ _ _ _)⟩
  | CALLOTHER =>
    simp only [hm, Option.bind_eq_bind] at hx
    cases hc : j.term.call with
    | none => simp [hc] at hx
    | some cl =>
      cases hret : callReturn cl with
      | none => simp [hc, hret] at hx
      | some r =>
        cases hcs : cl.callString with
        | none => simp [hc, hret, hcs] at hx
        | some desc =>
          simp only [hc, hret, hcs, Option.bind_some, Option.some.injEq] at hx
          have hl : liftJmp tbl j = some ⟨j.tid, .CallOther desc r⟩ := by
            simp [liftJmp, jmpToIr, hm, hc, hcs, returnLabel_eq, hret, replaceSubregisterInJump]
          cases r with
          | none =>
            simp only [Prod.mk.injEq] at hx
            obtain ⟨rfl, rfl⟩ := hx
            exact ⟨_, .stop, hl, by simp [Sem.execJmps, hsnap], .stop⟩
          | some rt =>
            simp only [Prod.mk.injEq] at hx
            obtain ⟨rfl, rfl⟩ := hx
            exact ⟨_, _, hl, by simp [Sem.execJmps, hsnap], .goto (havoc_agree hag _ _ _ _)⟩


/-- a conditional branch followed by the fall-through branch the plugin adds -/
theorem cbranch_sim {tbl : RegTable} (ht : tableOk tbl = true) (hT : ∀ u, T u → u.isTemp = true)
    (env : Env) (hphys : ∀ v ∈ env.physRegs, ¬ T v) {σ ρ : State} (hag : Agree T σ ρ) (hρ : WellTyped ρ)
    (cj bj : Term Pcode.Jmp) (hmc : cj.term.mnemonic = .CBRANCH) (hmb : bj.term.mnemonic = .BRANCH)
    {t₂ : Tid} (hbg : bj.term.goto = some (.Direct t₂))
    (hok : JmpOkN tbl T cj.term) (c : Nat)
    {ev : List Event} {n : Next} (hx : execJmps tbl env σ c [cj, bj] = some (ev, n)) :
    ∃ ic ib n', liftJmp tbl cj = some ic ∧ liftJmp tbl bj = some ib ∧
      Sem.execJmps env ρ c [ic, ib] = (ev, n') ∧ NextAgree T n n' := by
  have hlb : liftJmp tbl bj = some ⟨bj.tid, .Branch t₂⟩ := by
    simp [liftJmp, jmpToIr, hmb, hbg, labelDirect, replaceSubregisterInJump]
  unfold execJmps at hx
  simp only [hmc, Option.bind_eq_bind] at hx
  cases hg : cj.term.goto with
  | none => simp [hg] at hx
  | some l =>
    cases hd : l.direct? with
    | none => simp [hg, hd] at hx
    | some t =>
      cases hcnd : cj.term.condition with
      | none => simp [hg, hd, hcnd] at hx
      | some v =>
        simp only [hg, hd, hcnd, Option.bind_some] at hx
        cases hr : readVar tbl σ v with
        | none => simp [hr] at hx
        | some q =>
          obtain ⟨x, e⟩ := q
          simp only [hr, Option.bind_some] at hx
          obtain ⟨h1, h2, h3⟩ := hok v (by simp [jmpOperand, hmc, hcnd])
          obtain ⟨rfl, ex, ex', g1, g2, g3⟩ := operand_sound ht hT hag hρ h1 h2 h3 hr
          have hlc : liftJmp tbl cj = some ⟨cj.tid, .CBranch t ex'⟩ := by
            simp [liftJmp, jmpToIr, hmc, hg, labelDirect_eq, hd, hcnd, g1, replaceSubregisterInJump, g2]
          by_cases htaken : (x.toNat != 0) = true
          · simp only [htaken, if_true, Option.some.injEq, Prod.mk.injEq] at hx
            obtain ⟨rfl, rfl⟩ := hx
            exact ⟨_, _, .goto t ρ c, hlc, hlb, by simp [Sem.execJmps, g3, htaken], .goto hag⟩
          · simp only [htaken, Bool.false_eq_true, if_false] at hx
            unfold execJmps at hx
            simp only [hmb, hbg, Pcode.Label.direct?, Option.bind_eq_bind, Option.bind_some, List.nil_append,
              Option.some.injEq, Prod.mk.injEq] at hx
            obtain ⟨rfl, rfl⟩ := hx
            exact ⟨_, _, .goto t₂ ρ c, hlc, hlb, by simp [Sem.execJmps, g3, htaken], .goto hag⟩

end CweModel.C11
