/-
C11 — MODEL of the lifting of P-Code to the IR, function by function:

  pcode/expressions.rs   `From<Variable> for IrVariable / IrExpression`, `parse_const_to_bitvector`,
                         `parse_address_to_bitvector`, `to_load_def`, `parse_to_bytesize`,
                         `From<Expression> for IrExpression` (mnemonic tables: GENERATED, `Gen.PcodeOps`)
  pcode/term.rs          `Blk::add_load_defs_for_implicit_ram_access`, `Project::normalize`,
                         `Def::into_ir_def`, `From<Jmp> for IrJmp`, `Blk::into_ir_blk`,
                         `Term<Sub>::into_ir_sub_term`, `Program::into_ir_program`, `Project::into_ir_project`
  pcode/subregister_substitution/mod.rs   everything
  utils/ghidra.rs        `parse_pcode_project_to_ir_project` (normalize, then into_ir_project)

`Option`: `none` = the Rust code panics (`unwrap` on `None`, `panic!()`, failed `assert!`).
Extern symbols and calling conventions are not modelled (not part of the property; the harness emits none).

Core-only.
-/
import CweModel.C11.PcodeSem

namespace CweModel.C11.Lift
open CweModel CweModel.IR CweModel.Gen.PcodeOps CweModel.C11

/-! ## pcode/expressions.rs -/

/-- `impl From<Variable> for IrVariable` (`name.unwrap()`) -/
def varToIrVar (v : Pcode.Var) : Option Variable := do
  some ⟨← v.name, v.size, v.isVirtual⟩

/-- `Variable::parse_const_to_bitvector`: `Bitvector::from_str_radix(16, value)`, truncated or
zero-extended to `size` -/
def parseConst (v : Pcode.Var) : Option Expression := do
  let x ← parseHex (← v.value)
  some (.Const v.size (x % 2 ^ (8 * v.size)))

/-- `Variable::parse_address_to_bitvector` -/
def parseAddress (v : Pcode.Var) (ptr : Nat) : Option Expression := do
  let x ← parseHex (← v.address)
  some (.Const ptr (x % 2 ^ (8 * ptr)))

/-- `impl From<Variable> for IrExpression` -/
def varToIrExpr (v : Pcode.Var) : Option Expression :=
  match v.name, v.value with
  | some _, none => do some (.Var (← varToIrVar v))
  | none, some _ => parseConst v
  | _, _ => none

/-- `Variable::parse_to_bytesize` -/
def parseToBytesize (v : Pcode.Var) : Option Nat :=
  match v.name, v.value with
  | none, some h => if v.size ≤ 8 then parseHexU64 h else none
  | _, _ => none

/-- `Variable::to_load_def` (`self.address.as_ref().unwrap()`) -/
def toLoadDef (v : Pcode.Var) (tmpName : String) (ptr : Nat) : Option Pcode.Def := do
  let a ← v.address
  some { lhs := some { name := some tmpName, size := v.size, isVirtual := true },
         rhs := { mnemonic := .LOAD, input1 := some { value := some a, size := ptr, isVirtual := false } } }

/-- `impl From<Expression> for IrExpression` -/
def exprToIr (e : Pcode.Expression) : Option Expression :=
  match exprArm e.mnemonic with
  | .copy => do varToIrExpr (← e.input0)
  | .binOp => do
    let op ← binOpMap e.mnemonic
    some (.BinOp op (← varToIrExpr (← e.input0)) (← varToIrExpr (← e.input1)))
  | .unOp => do
    let op ← unOpMap e.mnemonic
    some (.UnOp op (← varToIrExpr (← e.input0)))
  | .panic => none

/-! ## pcode/term.rs -/

/-- `Def::into_ir_def` -/
def defToIr (ptr : Nat) (d : Pcode.Def) : Option Def :=
  match defArm d.rhs.mnemonic with
  | .load => do some (.Load (← varToIrVar (← d.lhs)) (← varToIrExpr (← d.rhs.input1)))
  | .store => do some (.Store (← varToIrExpr (← d.rhs.input1)) (← varToIrExpr (← d.rhs.input2)))
  | .panic => none
  | arm => do
    let target ← d.lhs
    let value ← match arm with
      | .subpiece => do
        some (Expression.Subpiece (← parseToBytesize (← d.rhs.input1)) target.size (← varToIrExpr (← d.rhs.input0)))
      | .cast => do
        some (Expression.Cast (← castMap d.rhs.mnemonic) target.size (← varToIrExpr (← d.rhs.input0)))
      | _ => exprToIr d.rhs
    if target.address.isSome then some (.Store (← parseAddress target ptr) value)
    else some (.Assign (← varToIrVar target) value)

def labelDirect : Pcode.Label → Option Tid
  | .Direct t => some t
  | .Indirect _ => none

def labelIndirect : Pcode.Label → Option Pcode.Var
  | .Direct _ => none
  | .Indirect v => some v

/-- `call.return_.map(unwrap_label_direct)` -/
def returnLabel (r : Option Pcode.Label) : Option (Option Tid) :=
  match r with
  | none => some none
  | some l => do some (some (← labelDirect l))

/-- `impl From<Jmp> for IrJmp` -/
def jmpToIr (j : Pcode.Jmp) : Option Jmp :=
  match j.mnemonic with
  | .BRANCH => do some (.Branch (← labelDirect (← j.goto)))
  | .CBRANCH => do some (.CBranch (← labelDirect (← j.goto)) (← varToIrExpr (← j.condition)))
  | .BRANCHIND => do some (.BranchInd (← varToIrExpr (← labelIndirect (← j.goto))))
  | .CALL => do
    let c ← j.call
    some (.Call (← labelDirect (← c.target)) (← returnLabel c.ret))
  | .CALLIND => do
    let c ← j.call
    some (.CallInd (← varToIrExpr (← labelIndirect (← c.target))) (← returnLabel c.ret))
  | .CALLOTHER => do
    let c ← j.call
    some (.CallOther (← c.callString) (← returnLabel c.ret))
  | .RETURN => do some (.Return (← varToIrExpr (← labelIndirect (← j.goto))))

def mapOpt {α β} (f : α → Option β) : List α → Option (List β)
  | [] => some []
  | a :: as => do
    let b ← f a
    let bs ← mapOpt f as
    some (b :: bs)

/-- `Tid::blk_id_at_address` -/
def blkIdAtAddress (address : String) : Tid := { id := "blk_" ++ address, address := address }

/-- `Blk::into_ir_blk` -/
def blkToIr (ptr : Nat) (b : Pcode.Blk) : Option Blk := do
  let defs ← mapOpt (fun d : Term Pcode.Def => do some (⟨d.tid, ← defToIr ptr d.term⟩ : Term Def)) b.defs
  let hints := (b.jmps.findSome? (fun j => j.term.targetHints)).getD []
  let jmps ← mapOpt (fun j : Term Pcode.Jmp => do some (⟨j.tid, ← jmpToIr j.term⟩ : Term Jmp)) b.jmps
  some { defs := defs, jmps := jmps, indirectJmpTargets := hints.map blkIdAtAddress }

/-- the load inserted for one input varnode: `(load def, replacement input)` -/
def loadFor (tid : Tid) (inp : Option Pcode.Var) (tmpName suffix : String) (ptr : Nat) :
    Option (List (Term Pcode.Def) × Option Pcode.Var) :=
  match inp with
  | none => some ([], none)
  | some v =>
    if v.address.isSome then do
      let ld ← toLoadDef v tmpName ptr
      some ([⟨tid.withIdSuffix suffix, ld⟩], ld.lhs)
    else some ([], some v)

/-- the loop body over `self.defs` of `add_load_defs_for_implicit_ram_access` -/
def addLoadsDef (ptr : Nat) (d : Term Pcode.Def) : Option (List (Term Pcode.Def)) := do
  let (l₀, i₀) ← loadFor d.tid d.term.rhs.input0 "$load_temp0" "_load0" ptr
  let (l₁, i₁) ← loadFor d.tid d.term.rhs.input1 "$load_temp1" "_load1" ptr
  let (l₂, i₂) ← loadFor d.tid d.term.rhs.input2 "$load_temp2" "_load2" ptr
  some (l₀ ++ l₁ ++ l₂ ++
    [⟨d.tid, { d.term with rhs := { d.term.rhs with input0 := i₀, input1 := i₁, input2 := i₂ } }⟩])

/-- the loop body over `self.jmps`: `(appended load defs, rewritten jump)` -/
def addLoadsJmp (ptr : Nat) (index : Nat) (j : Term Pcode.Jmp) :
    Option (List (Term Pcode.Def) × Term Pcode.Jmp) :=
  let tmpName := "$load_temp" ++ toString index
  match j.term.mnemonic with
  | .BRANCHIND => do
    let v ← labelIndirect (← j.term.goto)
    if v.address.isSome then do
      let ld ← toLoadDef v tmpName ptr
      some ([⟨j.tid.withIdSuffix "_load", ld⟩],
        { j with term := { j.term with goto := some (.Indirect (← ld.lhs)) } })
    else some ([], j)
  | .CALLIND => do
    let c ← j.term.call
    let v ← labelIndirect (← c.target)
    if v.address.isSome then do
      let ld ← toLoadDef v tmpName ptr
      some ([⟨j.tid.withIdSuffix "_load", ld⟩],
        { j with term := { j.term with call := some { c with target := some (.Indirect (← ld.lhs)) } } })
    else some ([], j)
  | _ => some ([], j)

def addLoadsJmps (ptr : Nat) : Nat → List (Term Pcode.Jmp) → Option (List (Term Pcode.Def) × List (Term Pcode.Jmp))
  | _, [] => some ([], [])
  | i, j :: js => do
    let (l, j') ← addLoadsJmp ptr i j
    let (ls, js') ← addLoadsJmps ptr (i + 1) js
    some (l ++ ls, j' :: js')

/-- `Blk::add_load_defs_for_implicit_ram_access` -/
def addLoadDefs (ptr : Nat) (b : Pcode.Blk) : Option Pcode.Blk := do
  let ds ← mapOpt (addLoadsDef ptr) b.defs
  let (ls, js) ← addLoadsJmps ptr 0 b.jmps
  some { defs := ds.flatten ++ ls, jmps := js }

/-- `Project::normalize`, second loop: a function none of whose blocks starts at the function's address -/
def noEntryBlock (tid : Tid) (blocks : List (Term Pcode.Blk)) : Bool :=
  match blocks with
  | [] => false
  | b :: _ => tid.address != b.tid.address && !blocks.any (fun b => b.tid.address == tid.address)

/-- `Project::normalize`: explicit loads, then blocks of functions without a starting block are dropped -/
def normalizeSub (ptr : Nat) (s : Term Pcode.Sub) : Option (Term Pcode.Sub) := do
  let blocks ← mapOpt (fun b : Term Pcode.Blk => do some (⟨b.tid, ← addLoadDefs ptr b.term⟩ : Term Pcode.Blk)) s.term.blocks
  some { s with term := { s.term with blocks := if noEntryBlock s.tid blocks then [] else blocks } }

/-- `Term<Sub>::into_ir_sub_term`: the starting block is swapped to the front -/
def swapToFront {α} (l : List α) (i : Nat) : List α :=
  match l, l[i]? with
  | a :: _, some b => (l.set i a).set 0 b
  | _, _ => l

/-- the blocks of a function with the entry block first (`none`: the panic of `into_ir_sub_term`) -/
def entryFirst (s : Term Pcode.Sub) : Option (List (Term Pcode.Blk)) :=
  match s.term.blocks with
  | [] => some []
  | b :: _ =>
    if s.tid.address != b.tid.address then
      match s.term.blocks.findIdx? (fun b => b.tid.address == s.tid.address) with
      | some i => some (swapToFront s.term.blocks i)
      | none => none
    else some s.term.blocks

def subToIr (ptr : Nat) (s : Term Pcode.Sub) : Option (Term Sub) := do
  let blocks ← entryFirst s
  let irBlocks ← mapOpt (fun b : Term Pcode.Blk => do some (⟨b.tid, ← blkToIr ptr b.term⟩ : Term Blk)) blocks
  some ⟨s.tid, { name := s.term.name, blocks := irBlocks, callingConvention := s.term.callingConvention }⟩

/-- insertion into a `BTreeMap<Tid, _>` kept as a list in key order (a later equal key overwrites) -/
def btreeInsert (m : List (Term Sub)) (s : Term Sub) : List (Term Sub) :=
  match m with
  | [] => [s]
  | x :: xs =>
    if x.tid == s.tid then s :: xs
    else if s.tid.lt x.tid then s :: x :: xs
    else x :: btreeInsert xs s

def btreeInsertTid (m : List Tid) (t : Tid) : List Tid :=
  match m with
  | [] => [t]
  | x :: xs => if x == t then x :: xs else if t.lt x then t :: x :: xs else x :: btreeInsertTid xs t

/-! ## pcode/subregister_substitution/mod.rs -/

/-- `create_subpiece_from_sub_register` (`register_map.get(&base).unwrap()`) -/
def createSubpiece (tbl : RegTable) (base : String) (size lsb : Nat) : Option Expression := do
  let b ← regGet tbl base
  some (.Subpiece lsb size (.Var ⟨base, b.size, false⟩))

/-- the replacement pair pushed for one input variable of `replace_input_subregister` -/
def replacementFor (tbl : RegTable) (v : Variable) : Option (Option (Variable × Expression)) :=
  match regGet tbl v.name with
  | none => some none
  | some r =>
    if v.name != r.baseRegister || v.size < r.size then do
      some (some (v, ← createSubpiece tbl r.baseRegister v.size r.lsb))
    else some none

/-- one iteration of the second loop of `replace_input_subregister` -/
def substStep (acc : Expression) (p : Option (Variable × Expression)) : Expression :=
  match p with
  | some (v, r) => acc.substVar v r
  | none => acc

/-- `replace_input_subregister` -/
def replaceInputSubregister (tbl : RegTable) (e : Expression) : Option Expression := do
  let pairs ← mapOpt (replacementFor tbl) e.inputVars
  some (pairs.foldl substStep e)

/-- `piece_base_register_assignment_expression_together` (sub_register = `into_subregister(register, var)`:
the table entry with its size replaced by the size of the assigned variable) -/
def pieceTogether (input : Expression) (baseName : String) (baseSize subLsb subSize : Nat) : Expression :=
  let base := Expression.Var ⟨baseName, baseSize, false⟩
  if subLsb > 0 && subLsb + subSize == baseSize then
    .BinOp .Piece input (.Subpiece 0 subLsb base)
  else if subLsb > 0 then
    .BinOp .Piece (.BinOp .Piece (.Subpiece (subLsb + subSize) (baseSize - (subLsb + subSize)) base) input)
      (.Subpiece 0 subLsb base)
  else
    .BinOp .Piece (.Subpiece subSize (baseSize - subSize) base) input

/-- `is_subregister_assignment` -/
def isSubregisterAssignment (v : Variable) (base : Pcode.RegisterProperties) : Bool :=
  v.name != base.register || v.size < base.size

/-- `is_next_def_cast_to_base_register` (after the `fix:` commit: the cast must assign the FULL base
register, `var.size == reg.size`; a cast into a smaller varnode named after the base register is an
ordinary sub-register assignment) -/
def isNextDefCastToBase (tbl : RegTable) (inputVar : Variable) (next : Option (Term Def)) : Bool :=
  match next with
  | some ⟨_, .Assign var (.Cast _ _ (.Var castVar))⟩ =>
    match regGet tbl var.name, regGet tbl inputVar.name with
    | some reg, some inputReg =>
      castVar == inputVar && inputReg.register != inputReg.baseRegister && inputReg.baseRegister == reg.register
        && var.size == reg.size
    | _, _ => false
  | _ => false

/-- the sub-register an output variable denotes: `(table entry, base register entry)` if it has to be replaced -/
def outputSubregister (tbl : RegTable) (v : Variable) :
    Option (Option (Pcode.RegisterProperties × Pcode.RegisterProperties)) :=
  match regGet tbl v.name with
  | none => some none
  | some r => do
    let b ← regGet tbl r.baseRegister
    if isSubregisterAssignment v b then some (some (r, b)) else some none

/-- `Def` with `replace_input_subregister` applied to its expressions (`replace_subregister`) -/
def replaceInputsDef (tbl : RegTable) (d : Def) : Option Def :=
  match d with
  | .Assign v e => do some (.Assign v (← replaceInputSubregister tbl e))
  | .Load v a => do some (.Load v (← replaceInputSubregister tbl a))
  | .Store a e => do some (.Store (← replaceInputSubregister tbl a) (← replaceInputSubregister tbl e))

/-- one iteration of the loop of `compute_replacement_defs_for_block` (`replace_subregister` +
`replace_output_subregister`) on the def `d` with the peeked next def `next`:
`(defs pushed to output_defs, whether the next def was consumed by a cast-to-base fusion)` -/
def replaceStep (tbl : RegTable) (d : Term Def) (next : Option (Term Def)) : Option (List (Term Def) × Bool) := do
  let d' ← replaceInputsDef tbl d.term
  match d' with
  | .Assign var value =>
    match ← outputSubregister tbl var with
    | some (r, b) =>
      if isNextDefCastToBase tbl var next then
        match next with
        | some ⟨t, .Assign w castExpr⟩ => some ([⟨t, .Assign w (castExpr.substVar var value)⟩], true)
        | _ => none
      else
        some ([⟨d.tid, .Assign ⟨b.register, b.size, false⟩
          (pieceTogether value b.register b.size r.lsb var.size)⟩], false)
    | none => some ([⟨d.tid, d'⟩], false)
  | .Load var address =>
    match ← outputSubregister tbl var with
    | some (r, b) =>
      let tempReg : Variable := ⟨"loaded_value", var.size, true⟩
      let load : Term Def := ⟨d.tid, .Load tempReg address⟩
      if isNextDefCastToBase tbl var next then
        match next with
        | some ⟨t, .Assign w castExpr⟩ =>
          some ([load, ⟨t, .Assign w (castExpr.substVar var (.Var tempReg))⟩], true)
        | _ => none
      else
        some ([load, ⟨d.tid.withIdSuffix "_cast_to_base", .Assign ⟨b.register, b.size, false⟩
          (pieceTogether (.Var tempReg) b.register b.size r.lsb var.size)⟩], false)
    | none => some ([⟨d.tid, d'⟩], false)
  | .Store _ _ => some ([⟨d.tid, d'⟩], false)

/-- `SubregisterSubstitutionBuilder::compute_replacement_defs_for_block` -/
def replaceDefs (tbl : RegTable) : List (Term Def) → Option (List (Term Def))
  | [] => some []
  | d :: rest => do
    let (out, consumed) ← replaceStep tbl d rest.head?
    let tail ← replaceDefs tbl (if consumed then rest.tail else rest)
    some (out ++ tail)
termination_by l => l.length
decreasing_by
  simp only [List.length_cons]
  split <;> simp <;> omega

/-- `replace_subregister_in_jump` -/
def replaceSubregisterInJump (tbl : RegTable) (j : Jmp) : Option Jmp :=
  match j with
  | .BranchInd e => do some (.BranchInd (← replaceInputSubregister tbl e))
  | .CBranch t c => do some (.CBranch t (← replaceInputSubregister tbl c))
  | .CallInd e r => do some (.CallInd (← replaceInputSubregister tbl e) r)
  | .Return e => do some (.Return (← replaceInputSubregister tbl e))
  | j => some j

/-- `replace_subregister_in_block` -/
def replaceSubregisterInBlock (tbl : RegTable) (b : Blk) : Option Blk := do
  let jmps ← mapOpt (fun j : Term Jmp => do some (⟨j.tid, ← replaceSubregisterInJump tbl j.term⟩ : Term Jmp)) b.jmps
  let defs ← replaceDefs tbl b.defs
  some { b with defs := defs, jmps := jmps }

/-! ## the whole lifting -/

/-- one block: `add_load_defs_for_implicit_ram_access`, `into_ir_blk`, `replace_subregister_in_block` -/
def liftBlk (tbl : RegTable) (ptr : Nat) (b : Pcode.Blk) : Option Blk := do
  replaceSubregisterInBlock tbl (← blkToIr ptr (← addLoadDefs ptr b))

/-- the loop over the blocks of one function in `into_ir_project` -/
def replaceSubregisterInSub (tbl : RegTable) (s : Term Sub) : Option (Term Sub) := do
  let blocks ← mapOpt (fun b : Term Blk => do
    some (⟨b.tid, ← replaceSubregisterInBlock tbl b.term⟩ : Term Blk)) s.term.blocks
  some ⟨s.tid, { s.term with blocks := blocks }⟩

/-- all blocks of a function lifted one by one (term identifiers are kept) -/
def liftBlocks (tbl : RegTable) (ptr : Nat) (blocks : List (Term Pcode.Blk)) : Option (List (Term Blk)) :=
  mapOpt (fun b : Term Pcode.Blk => do some (⟨b.tid, ← liftBlk tbl ptr b.term⟩ : Term Blk)) blocks

/-- `parse_pcode_project_to_ir_project`: `normalize()`, `into_ir_project(..)` (the program part) -/
def liftProject (p : Pcode.Project) : Option Program := do
  let ptr := p.pointerSize
  let subs ← mapOpt (normalizeSub ptr) p.program.subs
  let irSubs ← mapOpt (subToIr ptr) subs
  let irSubs ← mapOpt (replaceSubregisterInSub p.registerProperties) irSubs
  some { subs := irSubs.foldl btreeInsert [],
         externSymbols := [],
         entryPoints := p.program.entryPoints.foldl btreeInsertTid [] }

end CweModel.C11.Lift
