/-
C11 — layer `normalize`: `add_load_defs_for_implicit_ram_access` on instructions. Implicit loads through RAM
operands become explicit `LOAD`s of the same address and size into `$load_temp0..2`; events and effect are
preserved (`addLoads_sim`).
-/
import CweModel.C11.PropsLift
set_option linter.unusedSimpArgs false
set_option linter.unusedVariables false
namespace CweModel.C11
open CweModel CweModel.IR CweModel.Sem CweModel.Gen.PcodeOps CweModel.C11.Lift

variable {T : Variable → Prop}

/-- a varnode does not denote a temporary in `T` -/
def VarAvoids (T : Variable → Prop) (v : Pcode.Var) : Prop := ∀ n, v.kind = .tmp n → ¬ T ⟨n, v.size, true⟩

theorem regLoc_nontemp_notT (hT : ∀ u, T u → u.isTemp = true) {tbl : RegTable} {n : String} {s : Nat} {l : Loc}
    (h : regLoc tbl n s = some l) : ¬ T l.base := by
  intro ht
  have := hT _ ht
  rw [regLoc_base_nontemp h] at this
  simp at this

theorem readVar_congr (hT : ∀ u, T u → u.isTemp = true) {tbl : RegTable} {σ τ : State} (h : Agree T σ τ)
    {v : Pcode.Var} (hv : VarAvoids T v) : readVar tbl σ v = readVar tbl τ v := by
  unfold readVar
  cases hk : v.kind with
  | bad => rfl
  | const c => rfl
  | tmp n => simp only; rw [h.regs _ (hv n hk)]
  | ram a => simp only [h.wrapAddr, h.readMem]
  | reg n =>
    simp only [Option.bind_eq_bind]
    cases hl : regLoc tbl n v.size with
    | none => simp
    | some l => simp only [Option.bind_some, readLoc]; rw [h.regs _ (regLoc_nontemp_notT hT hl)]

def OptAvoids (T : Variable → Prop) (o : Option Pcode.Var) : Prop := ∀ v, o = some v → VarAvoids T v

theorem readOpt_congr (hT : ∀ u, T u → u.isTemp = true) {tbl : RegTable} {σ τ : State} (h : Agree T σ τ)
    {o : Option Pcode.Var} (ho : OptAvoids T o) : readOpt tbl σ o = readOpt tbl τ o := by
  cases o with
  | none => rfl
  | some v => simp only [readOpt]; rw [readVar_congr hT h (ho v rfl)]

theorem writeVar_congr (hT : ∀ u, T u → u.isTemp = true) {tbl : RegTable} {σ τ : State} (h : Agree T σ τ)
    {out : Pcode.Var} {x : Bv} {σ' : State} {ev : List Event}
    (hw : writeVar tbl σ out x = some (σ', ev)) :
    ∃ τ', writeVar tbl τ out x = some (τ', ev) ∧ Agree T σ' τ' := by
  unfold writeVar at hw ⊢
  by_cases hxw : (x.w != 8 * out.size) = true
  · simp [hxw] at hw
  · simp only [hxw, Bool.false_eq_true, if_false] at hw ⊢
    cases hk : out.kind with
    | bad => simp [hk] at hw
    | const c => simp [hk] at hw
    | tmp n =>
      simp only [hk, Option.some.injEq, Prod.mk.injEq] at hw ⊢
      obtain ⟨rfl, rfl⟩ := hw
      exact ⟨_, ⟨rfl, rfl⟩, h.setReg _ _⟩
    | ram a =>
      simp only [hk, Option.some.injEq, Prod.mk.injEq] at hw ⊢
      obtain ⟨rfl, rfl⟩ := hw
      rw [← h.wrapAddr]
      exact ⟨_, ⟨rfl, rfl⟩, h.writeMem _ _ _⟩
    | reg n =>
      simp only [hk, Option.bind_eq_bind] at hw ⊢
      cases hl : regLoc tbl n out.size with
      | none => simp [hl] at hw
      | some l =>
        simp only [hl, Option.bind_some, Option.some.injEq, Prod.mk.injEq] at hw ⊢
        obtain ⟨rfl, rfl⟩ := hw
        refine ⟨_, ⟨rfl, rfl⟩, ?_⟩
        unfold writeLoc
        rw [h.regs _ (regLoc_nontemp_notT hT hl)]
        exact h.setReg _ _

theorem perform_congr (hT : ∀ u, T u → u.isTemp = true) {tbl : RegTable} {σ τ : State} (h : Agree T σ τ)
    {act : Action} {σ' : State} {ev : List Event} (hp : perform tbl σ act = some (σ', ev)) :
    ∃ τ', perform tbl τ act = some (τ', ev) ∧ Agree T σ' τ' := by
  cases act with
  | write out x => exact writeVar_congr hT h hp
  | store addr x =>
    simp only [perform, Option.some.injEq, Prod.mk.injEq] at hp ⊢
    obtain ⟨rfl, rfl⟩ := hp
    exact ⟨_, ⟨rfl, rfl⟩, h.writeMem _ _ _⟩
  | load out addr =>
    simp only [perform, Option.bind_eq_bind] at hp ⊢
    cases hw : writeVar tbl σ out (Bv.ofBytes out.size (σ.readMem addr.toNat out.size)) with
    | none => simp [hw] at hp
    | some q =>
      obtain ⟨σw, ew⟩ := q
      simp only [hw, Option.bind_some, Option.some.injEq, Prod.mk.injEq] at hp
      obtain ⟨rfl, rfl⟩ := hp
      obtain ⟨τ', hτ, hag⟩ := writeVar_congr hT h hw
      rw [← h.readMem]
      exact ⟨τ', by simp [hτ], hag⟩


theorem isLoadTemp_temp : ∀ u, IsLoadTemp u → u.isTemp = true := fun _ h => h.1

theorem loadTemp_lift {n : String} (h : n ∈ ["$load_temp0", "$load_temp1", "$load_temp2"]) : n ∈ liftTempNames := by
  simp [liftTempNames] at h ⊢; rcases h with h | h | h <;> simp [h]

theorem varOk_avoids {tbl : RegTable} {v : Pcode.Var} (h : varOk tbl v = true) : VarAvoids IsLoadTemp v := by
  intro n hk hT
  unfold varOk at h
  simp only [hk, Bool.and_eq_true, Bool.not_eq_true', decide_eq_true_eq] at h
  have := loadTemp_lift hT.2
  simp only at this
  have h2 := h.2.1
  simp [List.contains_iff_mem] at h2
  exact h2 this

theorem optVarOk_avoids {tbl : RegTable} {o : Option Pcode.Var} (h : optVarOk? tbl o = true) : OptAvoids IsLoadTemp o := by
  intro v hv; subst hv; exact varOk_avoids h

/-- reading a non-RAM varnode produces no event -/
theorem readVar_nonram_events {tbl : RegTable} {σ : State} {v : Pcode.Var} (hnr : v.isRam = false)
    {x : Bv} {e : List Event} (h : readVar tbl σ v = some (x, e)) : e = [] := by
  unfold readVar at h
  cases hk : v.kind with
  | bad => simp [hk] at h
  | ram a => simp [Pcode.Var.isRam, hk] at hnr
  | const c => simp [hk] at h; exact h.2
  | tmp n => simp [hk] at h; exact h.2
  | reg n =>
    simp only [hk, Option.bind_eq_bind] at h
    cases hl : regLoc tbl n v.size with
    | none => simp [hl] at h
    | some l => simp [hl] at h; exact h.2

theorem address_isSome_iff_ram {tbl : RegTable} {v : Pcode.Var} (h : varOk tbl v = true) :
    v.address.isSome = v.isRam := by
  unfold varOk at h
  unfold Pcode.Var.isRam
  cases hk : v.kind with
  | bad => simp [hk] at h
  | ram a => obtain ⟨_, _, s, hs, _⟩ := kind_ram hk; simp [hs]
  | const c => obtain ⟨_, ha, _⟩ := kind_const hk; simp [ha]
  | tmp n => obtain ⟨_, _, ha, _⟩ := kind_tmp hk; simp [ha]
  | reg n => obtain ⟨_, _, ha, _⟩ := kind_reg hk; simp [ha]

theorem execDefs_one {tbl : RegTable} {τ τ' : State} {d : Term Pcode.Def} {e : List Event}
    (h : execDef tbl τ d.term = some (τ', e)) : execDefs tbl τ [d] = some (τ', e) := by
  simp [execDefs, h]

/-- one operand slot of `add_load_defs_for_implicit_ram_access` -/
theorem slot_sim {tbl : RegTable} (ht : tableOk tbl = true) {ptr : Nat} (hp0 : 0 < ptr) {σ τ : State}
    (hptr : σ.ptrBytes = ptr) (hag : Agree IsLoadTemp σ τ)
    {o : Option Pcode.Var} (hok : optVarOk? tbl o = true) {a : Option Bv} {e : List Event}
    (hr : readOpt tbl σ o = some (a, e)) (tid : Tid) (name suffix : String)
    (hname : name ∈ ["$load_temp0", "$load_temp1", "$load_temp2"]) :
    ∃ l o' τ', loadFor tid o name suffix ptr = some (l, o') ∧ execDefs tbl τ l = some (τ', e) ∧
      Agree IsLoadTemp σ τ' ∧ inOkN tbl o' = true ∧ (∀ d' ∈ l, defOkN tbl d'.term = true) ∧
      o'.isSome = o.isSome ∧
      (∀ other, other ≠ name → ∀ sz, τ'.getReg ⟨other, sz, true⟩ = τ.getReg ⟨other, sz, true⟩) ∧
      (∀ τ'', Agree IsLoadTemp σ τ'' → (∀ sz, τ''.getReg ⟨name, sz, true⟩ = τ'.getReg ⟨name, sz, true⟩) →
        readOpt tbl τ'' o' = some (a, [])) ∧
      ((∀ v, o = some v → v.isRam = false) → o' = o) := by
  cases o with
  | none =>
    simp only [readOpt, Option.some.injEq, Prod.mk.injEq] at hr
    obtain ⟨rfl, rfl⟩ := hr
    exact ⟨[], none, τ, rfl, rfl, hag, rfl, by simp, rfl, fun _ _ _ => rfl, fun _ _ _ => rfl, fun _ => rfl⟩
  | some v =>
    simp only [optVarOk?] at hok
    simp only [readOpt, Option.bind_eq_bind] at hr
    cases hrv : readVar tbl σ v with
    | none => simp [hrv] at hr
    | some q =>
      obtain ⟨x, ex⟩ := q
      simp only [hrv, Option.bind_some, Option.some.injEq, Prod.mk.injEq] at hr
      obtain ⟨rfl, rfl⟩ := hr
      have hadr := address_isSome_iff_ram hok
      by_cases hram : v.isRam = true
      · -- RAM operand: an explicit load into the temporary
        unfold Pcode.Var.isRam at hram
        cases hk : v.kind with
        | ram addr =>
          obtain ⟨h1, h2, s, h3, hs⟩ := kind_ram hk
          have hvs : 0 < v.size := by
            unfold varOk at hok; simp only [Bool.and_eq_true, decide_eq_true_eq] at hok; exact hok.1
          let tmp : Pcode.Var := { name := some name, size := v.size, isVirtual := true }
          let cst : Pcode.Var := { value := some s, size := ptr, isVirtual := false }
          let ld : Pcode.Def := { lhs := some tmp, rhs := { mnemonic := .LOAD, input1 := some cst } }
          have hktmp : tmp.kind = .tmp name := by simp [Pcode.Var.kind, tmp]
          have hkcst : cst.kind = .const addr := by simp [Pcode.Var.kind, cst, hs]
          have hnl : name ≠ "loaded_value" := by
            intro e; rw [e] at hname; simp at hname
          have hfresh : regGet tbl name = none := tableOk_fresh ht (loadTemp_lift hname)
          -- the value read
          simp only [readVar, hk, Option.some.injEq, Prod.mk.injEq] at hrv
          obtain ⟨rfl, rfl⟩ := hrv
          have haddr : (Bv.ofBytes ptr addr).toNat = σ.wrapAddr addr := by simp [State.wrapAddr, hptr]
          have hexec : execDef tbl τ ld = some (τ.setReg ⟨name, v.size, true⟩
              (Bv.ofBytes v.size (σ.readMem (σ.wrapAddr addr) v.size)),
              [.load (σ.wrapAddr addr) v.size (σ.readMem (σ.wrapAddr addr) v.size)]) := by
            have hw : addr % 2 ^ (8 * ptr) = σ.wrapAddr addr := by simp [State.wrapAddr, hptr]
            simp [execDef, readOpt, readVar, hkcst, compute, opKind, perform, writeVar, hktmp, ld, haddr,
              ← hag.readMem]
            simp [tmp, cst, hw]
          refine ⟨[⟨tid.withIdSuffix suffix, ld⟩], some tmp, _, ?_, execDefs_one hexec,
            hag.setTempRight _ ⟨rfl, hname⟩ _, ?_, ?_, rfl, ?_, ?_, ?_⟩
          · simp [loadFor, h3, toLoadDef, ld, tmp, cst]
          · simp [inOkN, varOkN, hktmp, hvs, hnl, hfresh, Pcode.Var.isRam, tmp]
          · intro d' hd'
            simp only [List.mem_singleton] at hd'
            subst hd'
            simp [defOkN, inOkN, ld, opKind, varOkN, hktmp, hkcst, hvs, hnl, hfresh, Pcode.Var.isRam, hp0, tmp, cst]
          · intro other hne sz
            rw [getReg_setReg]
            have : (⟨other, sz, true⟩ : Variable) ≠ ⟨name, v.size, true⟩ := by
              intro e; injection e with e1; exact hne e1
            simp [this]
          · intro τ'' _ hsame
            simp only [readOpt, readVar, hktmp, Option.bind_eq_bind, Option.bind_some]
            rw [show tmp.size = v.size from rfl, hsame, getReg_setReg]
            simp
          · intro hall; have := hall v rfl; simp [Pcode.Var.isRam, hk] at this
        | reg n => simp [hk] at hram
        | tmp n => simp [hk] at hram
        | const c => simp [hk] at hram
        | bad => simp [hk] at hram
      · -- any other operand is left alone
        have hnr : v.isRam = false := by simpa using hram
        have hex := readVar_nonram_events hnr hrv
        subst hex
        refine ⟨[], some v, τ, by simp [loadFor, hadr, hnr], rfl, hag, ?_, by simp, rfl,
          fun _ _ _ => rfl, ?_, fun _ => rfl⟩
        · simp [inOkN, varOk_varOkN hok, hnr]
        · intro τ'' hag'' _
          simp only [readOpt]
          rw [← readVar_congr isLoadTemp_temp hag'' (varOk_avoids hok), hrv]
          rfl


theorem execDefs_app {tbl : RegTable} {τ τ₁ τ₂ : State} {a b : List (Term Pcode.Def)} {e₁ e₂ : List Event}
    (h₁ : execDefs tbl τ a = some (τ₁, e₁)) (h₂ : execDefs tbl τ₁ b = some (τ₂, e₂)) :
    execDefs tbl τ (a ++ b) = some (τ₂, e₁ ++ e₂) := by
  induction a generalizing τ e₁ with
  | nil => simp [execDefs] at h₁; obtain ⟨rfl, rfl⟩ := h₁; simpa using h₂
  | cons d ds ih =>
    simp only [execDefs, Option.bind_eq_bind] at h₁
    cases hd : execDef tbl τ d.term with
    | none => simp [hd] at h₁
    | some p =>
      obtain ⟨τa, ea⟩ := p
      cases hds : execDefs tbl τa ds with
      | none => simp [hd, hds] at h₁
      | some q =>
        obtain ⟨τb, eb⟩ := q
        simp [hd, hds] at h₁
        obtain ⟨rfl, rfl⟩ := h₁
        have := ih hds
        simp [execDefs, hd, this, List.append_assoc]

theorem varOk_size_pos {tbl : RegTable} {v : Pcode.Var} (h : varOk tbl v = true) : 0 < v.size := by
  unfold varOk at h; simp only [Bool.and_eq_true, decide_eq_true_eq] at h; exact h.1

/-- `compute` only looks at the mnemonic, the output and (for SUBPIECE) the constant offset operand -/
theorem compute_clean (d : Pcode.Def) (i₀ i₁ i₂ : Option Pcode.Var) (a₀ a₁ a₂ : Option Bv)
    (h1 : opKind d.rhs.mnemonic = .subpiece → i₁ = d.rhs.input1) :
    compute { d with rhs := { d.rhs with input0 := i₀, input1 := i₁, input2 := i₂ } } a₀ a₁ a₂ = compute d a₀ a₁ a₂ := by
  unfold compute
  cases hk : opKind d.rhs.mnemonic <;> simp [hk]
  rw [h1 hk]

/-- **C11-normalize (instructions).** `add_load_defs_for_implicit_ram_access` on one instruction: the
inserted `LOAD`s into `$load_temp0..2` followed by the cleaned instruction have the same events and the same
effect on every register except those temporaries and on memory. -/
theorem addLoads_sim {tbl : RegTable} (ht : tableOk tbl = true) {ptr : Nat} (hp0 : 0 < ptr) {σ τ : State}
    (hptr : σ.ptrBytes = ptr) (hag : Agree IsLoadTemp σ τ) (d : Term Pcode.Def) (hok : defOk tbl d.term = true)
    {σ' : State} {ev : List Event} (hx : execDef tbl σ d.term = some (σ', ev)) :
    ∃ ds τ', addLoadsDef ptr d = some ds ∧ execDefs tbl τ ds = some (τ', ev) ∧ Agree IsLoadTemp σ' τ' ∧
      ∀ d' ∈ ds, defOkN tbl d'.term = true := by
  unfold defOk at hok
  simp only [Bool.and_eq_true] at hok
  obtain ⟨⟨⟨hi₀, hi₁⟩, hi₂⟩, hkind⟩ := hok
  simp only [execDef, Option.bind_eq_bind] at hx
  cases hr₀ : readOpt tbl σ d.term.rhs.input0 with
  | none => simp [hr₀] at hx
  | some q₀ =>
  obtain ⟨a₀, e₀⟩ := q₀
  cases hr₁ : readOpt tbl σ d.term.rhs.input1 with
  | none => simp [hr₀, hr₁] at hx
  | some q₁ =>
  obtain ⟨a₁, e₁⟩ := q₁
  cases hr₂ : readOpt tbl σ d.term.rhs.input2 with
  | none => simp [hr₀, hr₁, hr₂] at hx
  | some q₂ =>
  obtain ⟨a₂, e₂⟩ := q₂
  cases hc : compute d.term a₀ a₁ a₂ with
  | none => simp [hr₀, hr₁, hr₂, hc] at hx
  | some act =>
  cases hp : perform tbl σ act with
  | none => simp [hr₀, hr₁, hr₂, hc, hp] at hx
  | some qp =>
  obtain ⟨σp, ep⟩ := qp
  simp only [hr₀, hr₁, hr₂, hc, hp, Option.bind_some, Option.some.injEq, Prod.mk.injEq] at hx
  obtain ⟨rfl, rfl⟩ := hx
  obtain ⟨l₀, o₀, τ₁, hl₀, hx₀, hag₁, hin₀, hdok₀, hs₀, hoth₀, hpers₀, hsame₀⟩ :=
    slot_sim ht hp0 hptr hag hi₀ hr₀ d.tid "$load_temp0" "_load0" (by simp)
  obtain ⟨l₁, o₁, τ₂, hl₁, hx₁, hag₂, hin₁, hdok₁, hs₁, hoth₁, hpers₁, hsame₁⟩ :=
    slot_sim ht hp0 hptr hag₁ hi₁ hr₁ d.tid "$load_temp1" "_load1" (by simp)
  obtain ⟨l₂, o₂, τ₃, hl₂, hx₂, hag₃, hin₂, hdok₂, hs₂, hoth₂, hpers₂, hsame₂⟩ :=
    slot_sim ht hp0 hptr hag₂ hi₂ hr₂ d.tid "$load_temp2" "_load2" (by simp)
  -- the cleaned instruction reads the same operand values, without events
  have hq₀ : readOpt tbl τ₃ o₀ = some (a₀, []) := hpers₀ τ₃ hag₃ (fun sz => by
    rw [hoth₂ "$load_temp0" (by decide) sz, hoth₁ "$load_temp0" (by decide) sz])
  have hq₁ : readOpt tbl τ₃ o₁ = some (a₁, []) := hpers₁ τ₃ hag₃ (fun sz => by
    rw [hoth₂ "$load_temp1" (by decide) sz])
  have hq₂ : readOpt tbl τ₃ o₂ = some (a₂, []) := hpers₂ τ₃ hag₃ (fun _ => rfl)
  obtain ⟨τ', hpτ, hag'⟩ := perform_congr isLoadTemp_temp hag₃ hp
  -- a SUBPIECE offset is a constant, hence untouched
  have hsub : opKind d.term.rhs.mnemonic = .subpiece → o₁ = d.term.rhs.input1 := by
    intro hk
    apply hsame₁
    intro v hv
    simp only [hk, hv, Bool.and_eq_true] at hkind
    have := hkind.2
    unfold subpieceOffsetOk at this
    simp only [Bool.and_eq_true] at this
    have hco := this.1.2
    unfold constOperand at hco
    unfold Pcode.Var.isRam
    cases hkv : v.kind <;> simp [hkv] at hco ⊢
  let dc : Term Pcode.Def := ⟨d.tid, { d.term with rhs := { d.term.rhs with input0 := o₀, input1 := o₁, input2 := o₂ } }⟩
  have hxc : execDef tbl τ₃ dc.term = some (τ', ep) := by
    simp only [execDef, dc, hq₀, hq₁, hq₂, Option.bind_eq_bind, Option.bind_some]
    rw [compute_clean d.term o₀ o₁ o₂ a₀ a₁ a₂ hsub, hc]
    simp [hpτ]
  refine ⟨l₀ ++ l₁ ++ l₂ ++ [dc], τ', ?_, ?_, hag', ?_⟩
  · simp [addLoadsDef, hl₀, hl₁, hl₂, dc]
  · have h01 := execDefs_app hx₀ hx₁
    have h012 := execDefs_app h01 hx₂
    have := execDefs_app h012 (execDefs_one hxc)
    simpa [List.append_assoc] using this
  · intro d' hd'
    simp only [List.mem_append, List.mem_singleton] at hd'
    rcases hd' with ((hd' | hd') | hd') | hd'
    · exact hdok₀ d' hd'
    · exact hdok₁ d' hd'
    · exact hdok₂ d' hd'
    · subst hd'
      simp only [defOkN, dc, hin₀, hin₁, hin₂, Bool.true_and, Bool.and_eq_true]
      cases hk : opKind d.term.rhs.mnemonic with
      | load =>
        simp only [hk, Bool.and_eq_true] at hkind ⊢
        obtain ⟨out, hout, hoo⟩ := lhs_some hkind.1
        simp only [Bool.and_eq_true] at hoo
        simp [hout, varOk_varOkN hoo.1, hoo.2, hs₁, hkind.2]
      | store =>
        simp only [hk, Bool.and_eq_true] at hkind ⊢
        simp [hs₁, hs₂, hkind.1, hkind.2]
      | copy =>
        simp only [hk, Bool.and_eq_true] at hkind ⊢
        obtain ⟨out, hout, hoo⟩ := lhs_some hkind.1.1
        simp [hout, varOk_varOkN hoo, hs₀, hkind.1.2]
      | subpiece =>
        simp only [hk, Bool.and_eq_true] at hkind ⊢
        obtain ⟨out, hout, hoo⟩ := lhs_some hkind.1.1
        rw [hsub hk]
        simp [hout, varOk_varOkN hoo, hs₀, hkind.1.2]
        exact hkind.2
      | bin op =>
        simp only [hk, Bool.and_eq_true] at hkind ⊢
        obtain ⟨out, hout, hoo⟩ := lhs_some hkind.1.1
        simp [hout, varOk_varOkN hoo, hs₀, hs₁, hkind.1.2, hkind.2]
      | un op =>
        simp only [hk, Bool.and_eq_true] at hkind ⊢
        obtain ⟨out, hout, hoo⟩ := lhs_some hkind.1.1
        simp [hout, varOk_varOkN hoo, hs₀, hkind.1.2]
      | cast op =>
        simp only [hk, Bool.and_eq_true] at hkind ⊢
        obtain ⟨out, hout, hoo⟩ := lhs_some hkind.1.1
        simp [hout, varOk_varOkN hoo, hs₀, hkind.1.2]

end CweModel.C11
