/-
C11 — theorems: lifting P-Code to the IR preserves the behaviour of every block.

Structure of the proof (one file per layer):
  PropsTables  the generated mnemonic tables are total and semantics-preserving        (`liftedKind_eq_opKind`)
  PropsBytes   SUBPIECE reads bytes; the three PIECE shapes replace exactly the bytes [lsb, lsb+size)
  PropsExpr    `replace_input_subregister` = simultaneous substitution, sound           (`substAll_sound`, …)
  PropsState   agreement of states up to lifting temporaries; `eval_pieceTogether`
  PropsDef     `replace_subregister_in_block` on defs incl. cast-to-base fusion          (`replaceDefs_sim`)
  PropsLift    `Def::into_ir_def`                                                        (`defToIr_sim`)
  PropsNorm    `add_load_defs_for_implicit_ram_access` on instructions                   (`addLoads_sim`)
  PropsBlock   instruction lists through the layers, jumps                               (`single_sim`, `cbranch_sim`)
  Props        jumps with RAM targets, and the block theorem                             (`liftBlk_sim`)
-/
import CweModel.C11.PropsBlock
import CweModel.C11.Sized
set_option linter.unusedSimpArgs false
set_option linter.unusedVariables false
namespace CweModel.C11
open CweModel CweModel.IR CweModel.Sem CweModel.Gen.PcodeOps CweModel.C11.Lift

theorem NextAgree.mono {T T' : Variable → Prop} {n n' : Next} (h : NextAgree T n n') (hT : ∀ v, T v → T' v) :
    NextAgree T' n n' := by
  cases h with
  | goto hag => exact .goto (hag.mono hT)
  | stop => exact .stop

theorem NextAgree.trans {T₁ T₂ : Variable → Prop} {a b c : Next} (h₁ : NextAgree T₁ a b) (h₂ : NextAgree T₂ b c) :
    NextAgree (fun v => T₁ v ∨ T₂ v) a c := by
  cases h₁ with
  | goto hag₁ => cases h₂ with | goto hag₂ => exact .goto (hag₁.trans hag₂)
  | stop => cases h₂ with | stop => exact .stop

/-- the temporaries the whole lifting may leave behind -/
def IsBothTemp (v : Variable) : Prop := IsLoadTemp v ∨ IsLoadedValue v

theorem isBothTemp_temp : ∀ u, IsBothTemp u → u.isTemp = true := fun u h => h.elim (fun h => h.1) (fun h => h.1)
theorem isLoadedValue_temp : ∀ u, IsLoadedValue u → u.isTemp = true := fun _ h => h.1

theorem isBothTemp_lift {v : Variable} (h : IsBothTemp v) : IsLiftTemp v := by
  rcases h with h | h
  · exact ⟨h.1, loadTemp_lift h.2⟩
  · exact ⟨h.1, by rw [h.2]; simp [liftTempNames]⟩

theorem varOk_avoids_both {tbl : RegTable} {v : Pcode.Var} (h : varOk tbl v = true) : VarAvoids IsBothTemp v := by
  intro n hk hT
  have hl := isBothTemp_lift hT
  unfold varOk at h
  simp only [hk, Bool.and_eq_true, Bool.not_eq_true', decide_eq_true_eq] at h
  have h2 := h.2.1
  simp [List.contains_iff_mem] at h2
  exact h2 hl.2

/-- in-domain jumps whose operand is not in RAM are normalized jumps -/
theorem jmpOk_JmpOkN {tbl : RegTable} {j : Pcode.Jmp} (h : jmpOk tbl j = true)
    (hnr : ∀ v, jmpOperand j = some v → v.isRam = false) : JmpOkN tbl IsBothTemp j := by
  intro v hv
  have hr := hnr v hv
  unfold jmpOperand at hv
  unfold jmpOk at h
  cases hm : j.mnemonic <;> simp only [hm] at hv h
  · simp at hv
  · -- CBRANCH
    simp only [Bool.and_eq_true] at h
    rw [hv] at h
    simp only [Bool.and_eq_true] at h
    exact ⟨varOk_varOkN h.2.1, hr, varOk_avoids_both h.2.1⟩
  · -- BRANCHIND
    cases hg : j.goto with
    | none => simp [hg] at hv
    | some l =>
      cases l with
      | Direct t => simp [hg, Pcode.Label.indirect?] at hv
      | Indirect w =>
        simp [hg, Pcode.Label.indirect?] at hv h
        subst hv
        exact ⟨varOk_varOkN h, hr, varOk_avoids_both h⟩
  · simp at hv
  · -- CALLIND
    cases hc : j.call with
    | none => simp [hc] at hv
    | some cl =>
      cases ht : cl.target with
      | none => simp [hc, ht] at hv
      | some l =>
        cases l with
        | Direct t => simp [hc, ht, Pcode.Label.indirect?] at hv
        | Indirect w =>
          simp [hc, ht, Pcode.Label.indirect?] at hv h
          subst hv
          exact ⟨varOk_varOkN h.1, hr, varOk_avoids_both h.1⟩
  · simp at hv
  · -- RETURN
    cases hg : j.goto with
    | none => simp [hg] at hv
    | some l =>
      cases l with
      | Direct t => simp [hg, Pcode.Label.indirect?] at hv
      | Indirect w =>
        simp [hg, Pcode.Label.indirect?] at hv h
        subst hv
        exact ⟨varOk_varOkN h.1, hr, varOk_avoids_both h.1⟩


/-- a jump without a RAM operand is left alone by `add_load_defs_for_implicit_ram_access` -/
theorem addLoadsJmp_id {tbl : RegTable} {ptr i : Nat} {j : Term Pcode.Jmp} (h : jmpOk tbl j.term = true)
    (hnr : ∀ v, jmpOperand j.term = some v → v.isRam = false) : addLoadsJmp ptr i j = some ([], j) := by
  unfold addLoadsJmp
  unfold jmpOk at h
  unfold jmpOperand at hnr
  cases hm : j.term.mnemonic <;> simp only [hm] at h hnr ⊢
  · -- BRANCHIND
    cases hg : j.term.goto with
    | none => simp [hg] at h
    | some l =>
      cases l with
      | Direct t => simp [hg] at h
      | Indirect w =>
        simp only [hg] at h
        have := hnr w (by simp [hg, Pcode.Label.indirect?])
        have hadr := address_isSome_iff_ram h
        simp [labelIndirect, hadr, this]
  · -- CALLIND
    cases hc : j.term.call with
    | none => simp [hc] at h
    | some cl =>
      cases ht : cl.target with
      | none => simp [hc, ht] at h
      | some l =>
        cases l with
        | Direct t => simp [hc, ht] at h
        | Indirect w =>
          simp only [hc, ht, Bool.and_eq_true] at h
          have := hnr w (by simp [hc, ht, Pcode.Label.indirect?])
          have hadr := address_isSome_iff_ram h.1
          simp [hc, ht, labelIndirect, hadr, this]

/-- jumps without RAM operands: nothing is inserted -/
theorem addLoadsJmps_plain {tbl : RegTable} {ptr : Nat} (js : List (Term Pcode.Jmp))
    (hok : ∀ j ∈ js, jmpOk tbl j.term = true) (hshape : jmpsShapeOk js = true)
    (hnr : ∀ j ∈ js, ∀ v, jmpOperand j.term = some v → v.isRam = false) :
    addLoadsJmps ptr 0 js = some ([], js) := by
  match js, hshape with
  | [], _ => rfl
  | [j], _ => simp [addLoadsJmps, addLoadsJmp_id (hok j (by simp)) (hnr j (by simp))]
  | [cj, bj], _ =>
    simp [addLoadsJmps, addLoadsJmp_id (hok cj (by simp)) (hnr cj (by simp)),
      addLoadsJmp_id (hok bj (by simp)) (hnr bj (by simp))]
  | _ :: _ :: _ :: _, hs => simp [jmpsShapeOk] at hs

/-- jumps without RAM operands: the lifted jumps decide like the P-Code jumps -/
theorem jmpPhase_plain {tbl : RegTable} (ht : tableOk tbl = true) (env : Env)
    (hphys : ∀ v ∈ env.physRegs, v.isTemp = false) (js : List (Term Pcode.Jmp))
    (hok : ∀ j ∈ js, jmpOk tbl j.term = true) (hshape : jmpsShapeOk js = true)
    (hnr : ∀ j ∈ js, ∀ v, jmpOperand j.term = some v → v.isRam = false)
    {σ₁ ρ₂ : State} (hag : Agree IsBothTemp σ₁ ρ₂) (hρ : WellTyped ρ₂)
    (c : Nat) {e₂ : List Event} {n : Next} (hx : execJmps tbl env σ₁ c js = some (e₂, n)) :
    ∃ ijs n', mapOpt (liftJmp tbl) js = some ijs ∧ Sem.execJmps env ρ₂ c ijs = (e₂, n') ∧ NextAgree IsBothTemp n n' := by
  have hphys' : ∀ v ∈ env.physRegs, ¬ IsBothTemp v := fun v hv hT => by
    have := isBothTemp_temp v hT; rw [hphys v hv] at this; simp at this
  match js, hshape with
  | [], _ =>
    refine ⟨[], .stop, rfl, ?_, ?_⟩
    · simp only [execJmps, Option.some.injEq, Prod.mk.injEq] at hx
      obtain ⟨rfl, rfl⟩ := hx
      simp [Sem.execJmps, snapshot_agree hag _ hphys']
    · simp only [execJmps, Option.some.injEq, Prod.mk.injEq] at hx
      rw [← hx.2]; exact .stop
  | [j], hs =>
    have hj := hok j (by simp)
    have hnc : j.term.mnemonic ≠ .CBRANCH := by simpa [jmpsShapeOk] using hs
    obtain ⟨ij, n', h1, h2, h3⟩ := single_sim ht isBothTemp_temp env hphys' hag hρ j hnc
      (jmpOk_JmpOkN hj (hnr j (by simp))) c hx
    exact ⟨[ij], n', by simp [mapOpt, h1], h2, h3⟩
  | [cj, bj], hs =>
    have hcj := hok cj (by simp)
    have hbj := hok bj (by simp)
    simp only [jmpsShapeOk, Bool.and_eq_true, decide_eq_true_eq] at hs
    have hbg : ∃ t₂, bj.term.goto = some (.Direct t₂) := by
      unfold jmpOk at hbj
      simp only [hs.2] at hbj
      cases hg : bj.term.goto with
      | none => simp [hg] at hbj
      | some l => cases l with
        | Direct t => exact ⟨t, rfl⟩
        | Indirect w => simp [hg] at hbj
    obtain ⟨t₂, hbg⟩ := hbg
    obtain ⟨ic, ib, n', h1, h2, h3, h4⟩ := cbranch_sim ht isBothTemp_temp env hphys' hag hρ cj bj hs.1 hs.2 hbg
      (jmpOk_JmpOkN hcj (hnr cj (by simp))) c hx
    exact ⟨[ic, ib], n', by simp [mapOpt, h1, h2], h3, h4⟩
  | _ :: _ :: _ :: _, hs => simp [jmpsShapeOk] at hs

/-- unless the block ends in a single jump through a RAM varnode, no jump has a RAM operand -/
theorem plain_of_not_ram {tbl : RegTable} (js : List (Term Pcode.Jmp))
    (hok : ∀ j ∈ js, jmpOk tbl j.term = true) (hshape : jmpsShapeOk js = true)
    (h : ¬ ∃ j v, js = [j] ∧ jmpOperand j.term = some v ∧ v.isRam = true) :
    ∀ j ∈ js, ∀ v, jmpOperand j.term = some v → v.isRam = false := by
  intro j hjm v hv
  cases hvr : v.isRam with
  | false => rfl
  | true =>
    exfalso
    match js, hshape with
    | [], _ => simp at hjm
    | [j₀], _ =>
      simp at hjm; subst hjm
      exact h ⟨j, v, rfl, hv, hvr⟩
    | [cj, bj], hs =>
      simp only [jmpsShapeOk, Bool.and_eq_true, decide_eq_true_eq] at hs
      simp only [List.mem_cons, List.mem_singleton, List.not_mem_nil, or_false] at hjm
      rcases hjm with rfl | rfl
      · have hjok := hok j (by simp)
        unfold jmpOk at hjok
        unfold jmpOperand at hv
        simp only [hs.1] at hjok hv
        simp only [Bool.and_eq_true] at hjok
        rw [hv] at hjok
        simp [hvr] at hjok
      · unfold jmpOperand at hv
        simp [hs.2] at hv
    | _ :: _ :: _ :: _, hs => simp [jmpsShapeOk] at hs

theorem readOpt_some_inv {tbl : RegTable} {σ : State} {v : Pcode.Var} {x : Bv} {e : List Event}
    (h : readOpt tbl σ (some v) = some (some x, e)) : readVar tbl σ v = some (x, e) := by
  simp only [readOpt, Option.bind_eq_bind] at h
  cases hr : readVar tbl σ v with
  | none => simp [hr] at h
  | some q => obtain ⟨a, b⟩ := q; simp [hr] at h; rw [h.1, h.2]

theorem loadTempName0 : "$load_temp" ++ toString (0 : Nat) = "$load_temp0" := by decide
theorem loadTempName0' : "$load_temp" ++ Nat.repr 0 = "$load_temp0" := by decide

/-- an indirect jump or call through a RAM varnode: the target is loaded into `$load_temp0` first -/
theorem jmpPhase_ram {tbl : RegTable} (ht : tableOk tbl = true) {ptr : Nat} (hp0 : 0 < ptr) (env : Env)
    (hphys : ∀ v ∈ env.physRegs, v.isTemp = false) (j : Term Pcode.Jmp) (hok : jmpOk tbl j.term = true)
    {v : Pcode.Var} (hop : jmpOperand j.term = some v) (hram : v.isRam = true)
    {σ₁ τ₁ : State} (hptr : σ₁.ptrBytes = ptr) (hag : Agree IsLoadTemp σ₁ τ₁)
    (c : Nat) {e₂ : List Event} {n : Next} (hx : execJmps tbl env σ₁ c [j] = some (e₂, n)) :
    ∃ ls j' τ₂ el, addLoadsJmps ptr 0 [j] = some (ls, [j']) ∧ execDefs tbl τ₁ ls = some (τ₂, el) ∧
      (∀ d ∈ ls, defOkN tbl d.term = true) ∧ Agree IsLoadTemp σ₁ τ₂ ∧
      ∀ ρ₂, Agree IsLoadedValue τ₂ ρ₂ → WellTyped ρ₂ →
        ∃ ij ev' n', liftJmp tbl j' = some ij ∧ Sem.execJmps env ρ₂ c [ij] = (ev', n') ∧ el ++ ev' = e₂ ∧
          NextAgree IsBothTemp n n' := by
  have hphysL : ∀ u ∈ env.physRegs, ¬ IsLoadTemp u := fun u hu hT => by
    have := hT.1; rw [hphys u hu] at this; simp at this
  have hphysV : ∀ u ∈ env.physRegs, ¬ IsLoadedValue u := fun u hu hT => by
    have := hT.1; rw [hphys u hu] at this; simp at this
  -- the operand and its load
  have hvok : varOk tbl v = true ∧ (j.term.mnemonic = .BRANCHIND ∨ j.term.mnemonic = .CALLIND) := by
    unfold jmpOperand at hop
    unfold jmpOk at hok
    cases hm : j.term.mnemonic <;> simp only [hm] at hop hok
    · simp at hop
    · simp only [Bool.and_eq_true] at hok; rw [hop] at hok; simp [hram] at hok
    · cases hg : j.term.goto with
      | none => simp [hg] at hop
      | some l => cases l with
        | Direct t => simp [hg, Pcode.Label.indirect?] at hop
        | Indirect w => simp [hg, Pcode.Label.indirect?] at hop hok; subst hop; exact ⟨hok, Or.inl rfl⟩
    · simp at hop
    · cases hc : j.term.call with
      | none => simp [hc] at hop
      | some cl => cases htg : cl.target with
        | none => simp [hc, htg] at hop
        | some l => cases l with
          | Direct t => simp [hc, htg, Pcode.Label.indirect?] at hop
          | Indirect w => simp [hc, htg, Pcode.Label.indirect?] at hop hok; subst hop; exact ⟨hok.1, Or.inr rfl⟩
    · simp at hop
    · cases hg : j.term.goto with
      | none => simp [hg] at hop
      | some l => cases l with
        | Direct t => simp [hg, Pcode.Label.indirect?] at hop
        | Indirect w => simp [hg, Pcode.Label.indirect?] at hop hok; subst hop; simp [hram] at hok
  obtain ⟨hvok, hmn⟩ := hvok
  obtain ⟨a, hka⟩ : ∃ a, v.kind = .ram a := by
    unfold Pcode.Var.isRam at hram
    cases hk : v.kind <;> simp [hk] at hram
    exact ⟨_, rfl⟩
  obtain ⟨_, _, s, hadr, hs⟩ := kind_ram hka
  let tmp : Pcode.Var := { name := some "$load_temp0", size := v.size, isVirtual := true }
  let ld : Pcode.Def := { lhs := some tmp, rhs := { mnemonic := .LOAD, input1 := some { value := some s, size := ptr, isVirtual := false } } }
  have htld : toLoadDef v "$load_temp0" ptr = some ld := by simp [toLoadDef, hadr, ld, tmp]
  have hktmp : tmp.kind = .tmp "$load_temp0" := by simp [Pcode.Var.kind, tmp]
  -- every reading of the operand in the original jump
  have hread : ∀ {x : Bv} {e : List Event}, readVar tbl σ₁ v = some (x, e) →
      ∃ τ₂, execDefs tbl τ₁ [⟨j.tid.withIdSuffix "_load", ld⟩] = some (τ₂, e) ∧ Agree IsLoadTemp σ₁ τ₂ ∧
        defOkN tbl ld = true ∧ readVar tbl τ₂ tmp = some (x, []) ∧ varOkN tbl tmp = true := by
    intro x e hr
    have hro : readOpt tbl σ₁ (some v) = some (some x, e) := by simp [readOpt, hr]
    obtain ⟨l, o', τ₂, hl, hxl, hag₂, hin, hdok, _, _, hpers, _⟩ :=
      slot_sim ht hp0 hptr hag (o := some v) (by simpa [optVarOk?] using hvok) hro j.tid "$load_temp0" "_load" (by simp)
    have hlf : loadFor j.tid (some v) "$load_temp0" "_load" ptr = some ([⟨j.tid.withIdSuffix "_load", ld⟩], some tmp) := by
      simp [loadFor, hadr, htld, ld]
    rw [hlf] at hl
    simp only [Option.some.injEq, Prod.mk.injEq] at hl
    obtain ⟨rfl, rfl⟩ := hl
    refine ⟨τ₂, hxl, hag₂, hdok ⟨j.tid.withIdSuffix "_load", ld⟩ (by simp), readOpt_some_inv (hpers τ₂ hag₂ (fun _ => rfl)), ?_⟩
    simp only [inOkN, Bool.and_eq_true] at hin
    exact hin.1
  have hoktmp : ∀ (T : Variable → Prop), (∀ u, T u → u.name = "loaded_value") → VarAvoids T tmp := by
    intro T hT n hk hTn
    rw [hktmp] at hk
    simp only [VarKind.tmp.injEq] at hk
    have := hT _ hTn
    simp only at this
    rw [← hk] at this
    simp at this
  rcases hmn with hm | hm
  · -- BRANCHIND
    have hg : j.term.goto = some (.Indirect v) := by
      unfold jmpOperand at hop
      simp only [hm] at hop
      cases hg : j.term.goto with
      | none => simp [hg] at hop
      | some l => cases l with
        | Direct t => simp [hg, Pcode.Label.indirect?] at hop
        | Indirect w => simp [hg, Pcode.Label.indirect?] at hop; rw [hop]
    unfold execJmps at hx
    simp only [hm, hg, Pcode.Label.indirect?, Option.bind_eq_bind, Option.bind_some] at hx
    cases hr : readVar tbl σ₁ v with
    | none => simp [hr] at hx
    | some q =>
      obtain ⟨x, e⟩ := q
      simp only [hr, Option.bind_some, Option.some.injEq, Prod.mk.injEq] at hx
      obtain ⟨rfl, rfl⟩ := hx
      obtain ⟨τ₂, hxl, hag₂, hdok, hrt, hvn⟩ := hread hr
      let j' : Term Pcode.Jmp := { j with term := { j.term with goto := some (.Indirect tmp) } }
      refine ⟨[⟨j.tid.withIdSuffix "_load", ld⟩], j', τ₂, e, ?_, hxl, by simpa using hdok, hag₂, ?_⟩
      · simp [addLoadsJmps, addLoadsJmp, hm, hg, labelIndirect, hadr, loadTempName0, loadTempName0', htld, ld, j', tmp]
      · intro ρ₂ hagρ hρ
        have hxτ : execJmps tbl env τ₂ c [j'] = some ([.jumpInd j.tid.id x.toNat (τ₂.snapshot env.physRegs)], .stop) := by
          unfold execJmps
          simp [j', hm, Pcode.Label.indirect?, hrt]
        have hjok : JmpOkN tbl IsLoadedValue j'.term := by
          intro w hw
          simp [jmpOperand, j', hm, Pcode.Label.indirect?] at hw
          subst hw
          exact ⟨hvn, by simp [Pcode.Var.isRam, hktmp], hoktmp _ (fun u h => h.2)⟩
        obtain ⟨ij, n', h1, h2, h3⟩ := single_sim ht isLoadedValue_temp env hphysV hagρ hρ j'
          (by simp [j', hm]) hjok c hxτ
        refine ⟨ij, _, n', h1, h2, ?_, (h3.mono (fun _ h => Or.inr h))⟩
        rw [snapshot_agree hag₂ _ hphysL]
  · -- CALLIND
    obtain ⟨cl, hc, htg⟩ : ∃ cl, j.term.call = some cl ∧ cl.target = some (.Indirect v) := by
      unfold jmpOperand at hop
      simp only [hm] at hop
      cases hc : j.term.call with
      | none => simp [hc] at hop
      | some cl => cases htg : cl.target with
        | none => simp [hc, htg] at hop
        | some l => cases l with
          | Direct t => simp [hc, htg, Pcode.Label.indirect?] at hop
          | Indirect w => simp [hc, htg, Pcode.Label.indirect?] at hop; exact ⟨cl, rfl, by rw [htg, hop]⟩
    unfold execJmps at hx
    simp only [hm, hc, htg, Pcode.Label.indirect?, Option.bind_eq_bind, Option.bind_some] at hx
    cases hr : readVar tbl σ₁ v with
    | none => simp [hr] at hx
    | some q =>
      obtain ⟨x, e⟩ := q
      cases hret : callReturn cl with
      | none => simp [hr, hret] at hx
      | some r =>
        simp only [hr, hret, Option.bind_some, Option.some.injEq] at hx
        obtain ⟨τ₂, hxl, hag₂, hdok, hrt, hvn⟩ := hread hr
        let cl' : Pcode.Call := { cl with target := some (.Indirect tmp) }
        let j' : Term Pcode.Jmp := { j with term := { j.term with call := some cl' } }
        have hret' : callReturn cl' = some r := by simpa [callReturn, cl'] using hret
        have hsn := snapshot_agree hag₂ env.physRegs hphysL
        refine ⟨[⟨j.tid.withIdSuffix "_load", ld⟩], j', τ₂, e, ?_, hxl, by simpa using hdok, hag₂, ?_⟩
        · simp [addLoadsJmps, addLoadsJmp, hm, hc, htg, labelIndirect, hadr, loadTempName0, loadTempName0', htld, ld, j', cl', tmp]
        · intro ρ₂ hagρ hρ
          have hjok : JmpOkN tbl IsLoadedValue j'.term := by
            intro w hw
            simp [jmpOperand, j', cl', hm, Pcode.Label.indirect?] at hw
            subst hw
            exact ⟨hvn, by simp [Pcode.Var.isRam, hktmp], hoktmp _ (fun u h => h.2)⟩
          cases r with
          | none =>
            simp only [Prod.mk.injEq] at hx
            obtain ⟨rfl, rfl⟩ := hx
            have hxτ : execJmps tbl env τ₂ c [j'] = some ([.callInd j.tid.id x.toNat (τ₂.snapshot env.physRegs),
                .deadEnd (τ₂.snapshot env.physRegs)], .stop) := by
              unfold execJmps
              simp [j', cl', hm, Pcode.Label.indirect?, hrt, hret']
            obtain ⟨ij, n', h1, h2, h3⟩ := single_sim ht isLoadedValue_temp env hphysV hagρ hρ j'
              (by simp [j', hm]) hjok c hxτ
            exact ⟨ij, _, n', h1, h2, by rw [hsn], (h3.mono (fun _ h => Or.inr h))⟩
          | some rt =>
            simp only [Prod.mk.injEq] at hx
            obtain ⟨rfl, rfl⟩ := hx
            have hxτ : execJmps tbl env τ₂ c [j'] = some ([.callInd j.tid.id x.toNat (τ₂.snapshot env.physRegs)],
                .goto rt (havoc τ₂ env.physRegs env.sp j.tid.id c) (c + 1)) := by
              unfold execJmps
              simp [j', cl', hm, Pcode.Label.indirect?, hrt, hret']
            obtain ⟨ij, n', h1, h2, h3⟩ := single_sim ht isLoadedValue_temp env hphysV hagρ hρ j'
              (by simp [j', hm]) hjok c hxτ
            refine ⟨ij, _, n', h1, h2, by rw [hsn], ?_⟩
            exact NextAgree.trans (.goto (havoc_agree hag₂ _ _ _ _)) h3


theorem mapOpt_liftJmp (tbl : RegTable) : ∀ (js : List (Term Pcode.Jmp)) (ijs : List (Term Jmp)),
    mapOpt (liftJmp tbl) js = some ijs →
    ∃ mid, mapOpt (fun j : Term Pcode.Jmp => do some (⟨j.tid, ← jmpToIr j.term⟩ : Term Jmp)) js = some mid ∧
      mapOpt (fun j : Term Jmp => do some (⟨j.tid, ← replaceSubregisterInJump tbl j.term⟩ : Term Jmp)) mid = some ijs := by
  intro js
  induction js with
  | nil => intro ijs h; simp [mapOpt] at h; subst h; exact ⟨[], rfl, rfl⟩
  | cons j js ih =>
    intro ijs h
    simp only [mapOpt, Option.bind_eq_bind] at h
    cases hj : liftJmp tbl j with
    | none => simp [hj] at h
    | some ij =>
      cases hjs : mapOpt (liftJmp tbl) js with
      | none => simp [hj, hjs] at h
      | some rest =>
        simp [hj, hjs] at h
        subst h
        obtain ⟨mid, m1, m2⟩ := ih rest hjs
        simp only [liftJmp, Option.bind_eq_bind] at hj
        cases h1 : jmpToIr j.term with
        | none => simp [h1] at hj
        | some a =>
          cases h2 : replaceSubregisterInJump tbl a with
          | none => simp [h1, h2] at hj
          | some b =>
            simp [h1, h2] at hj
            subst hj
            simp only [Option.bind_eq_bind] at m1 m2
            exact ⟨⟨j.tid, a⟩ :: mid, by simp [mapOpt, h1, m1], by simp [mapOpt, h2, m2]⟩

/-- `liftBlk_sim` for an arbitrary number of calls executed so far; additionally the IR state after the
defs is well typed and keeps the pointer size (needed to chain blocks) -/
theorem liftBlk_sim_gen {tbl : RegTable} (ht : tableOk tbl = true) {ptr : Nat} (hp0 : 0 < ptr) (env : Env)
    (hphys : ∀ v ∈ env.physRegs, v.isTemp = false) (b : Pcode.Blk) (hb : blkOk tbl b = true)
    {σ : State} (hσ : WellTyped σ) (hptr : σ.ptrBytes = ptr)
    (c : Nat) {eff : BlkEffect} (hx : execBlk tbl env σ b c = some eff) :
    ∃ ib ρ₁ ev₁ ev₂ n', liftBlk tbl ptr b = some ib ∧ Sem.execDefs σ ib.defs = some (ρ₁, ev₁) ∧
      Sem.execJmps env ρ₁ c ib.jmps = (ev₂, n') ∧ ev₁ ++ ev₂ = eff.events ++ eff.jmpEvents ∧
      Agree IsLiftTemp eff.after ρ₁ ∧ NextAgree IsLiftTemp eff.next n' ∧ WellTyped ρ₁ ∧ ρ₁.ptrBytes = ptr := by
  unfold blkOk at hb
  simp only [Bool.and_eq_true, List.all_eq_true] at hb
  obtain ⟨⟨hdefs, hjmps⟩, hshape⟩ := hb
  simp only [execBlk, Option.bind_eq_bind] at hx
  cases hd : execDefs tbl σ b.defs with
  | none => simp [hd] at hx
  | some p =>
  obtain ⟨σ₁, e₁⟩ := p
  cases hj : execJmps tbl env σ₁ c b.jmps with
  | none => simp [hd, hj] at hx
  | some q =>
  obtain ⟨e₂, n⟩ := q
  simp only [hd, hj, Option.bind_some, Option.some.injEq] at hx
  subst hx
  simp only
  obtain ⟨nss, τ₁, hmap, hxn, hag₁, hokn, hptr₁⟩ := normDefs_sim ht hp0 b.defs hdefs (Agree.refl σ) hptr hd
  -- the jump phase, in a common form
  have hJ : ∃ ls js' τ₂ el, addLoadsJmps ptr 0 b.jmps = some (ls, js') ∧ execDefs tbl τ₁ ls = some (τ₂, el) ∧
      (∀ d ∈ ls, defOkN tbl d.term = true) ∧ Agree IsLoadTemp σ₁ τ₂ ∧
      ∀ ρ₂, Agree IsLoadedValue τ₂ ρ₂ → WellTyped ρ₂ →
        ∃ ijs ev' n', mapOpt (liftJmp tbl) js' = some ijs ∧ Sem.execJmps env ρ₂ c ijs = (ev', n') ∧
          el ++ ev' = e₂ ∧ NextAgree IsBothTemp n n' := by
    by_cases hram : ∃ j v, b.jmps = [j] ∧ jmpOperand j.term = some v ∧ v.isRam = true
    · obtain ⟨j, v, hjs, hop, hr⟩ := hram
      rw [hjs] at hj hjmps ⊢
      obtain ⟨ls, j', τ₂, el, h1, h2, h3, h4, h5⟩ := jmpPhase_ram ht hp0 env hphys j (hjmps j (by simp)) hop hr hptr₁ hag₁ c hj
      refine ⟨ls, [j'], τ₂, el, h1, h2, h3, h4, fun ρ₂ hagρ hρ => ?_⟩
      obtain ⟨ij, ev', n', g1, g2, g3, g4⟩ := h5 ρ₂ hagρ hρ
      exact ⟨[ij], ev', n', by simp [mapOpt, g1], g2, g3, g4⟩
    · have hnr := plain_of_not_ram b.jmps hjmps hshape hram
      refine ⟨[], b.jmps, τ₁, [], addLoadsJmps_plain b.jmps hjmps hshape hnr, rfl, by simp, hag₁,
        fun ρ₂ hagρ hρ => ?_⟩
      obtain ⟨ijs, n', g1, g2, g3⟩ := jmpPhase_plain ht env hphys b.jmps hjmps hshape hnr (hag₁.trans hagρ) hρ c hj
      exact ⟨ijs, e₂, n', g1, g2, by simp, g3⟩
  obtain ⟨ls, js', τ₂, el, hlj, hxl, hokl, hag₂, hK⟩ := hJ
  -- all normalized instructions, incl. the load of a jump target
  have hxND : execDefs tbl σ (nss.flatten ++ ls) = some (τ₂, e₁ ++ el) := execDefs_app hxn hxl
  have hokND : ∀ d ∈ nss.flatten ++ ls, defOkN tbl d.term = true := by
    intro d hd'
    rcases List.mem_append.mp hd' with h | h
    · exact hokn d h
    · exact hokl d h
  obtain ⟨raw, hraw, hxraw, hokraw⟩ := rawDefs_sim (nss.flatten ++ ls) hokND hptr hxND
  obtain ⟨final, ρ₂, hfin, hxfin, hagρ, _, hρ₂⟩ :=
    replaceDefs_sim ht raw.length raw (Nat.le_refl _) hokraw (Agree.refl σ) hσ hσ hxraw
  obtain ⟨ijs, ev', n', hlift, hxj, hev, hnext⟩ := hK ρ₂ hagρ hρ₂
  obtain ⟨mid, hm1, hm2⟩ := mapOpt_liftJmp tbl js' ijs hlift
  refine ⟨{ defs := final, jmps := ijs,
            indirectJmpTargets := ((js'.findSome? (fun j => j.term.targetHints)).getD []).map blkIdAtAddress },
    ρ₂, e₁ ++ el, ev', n', ?_, hxfin, hxj, ?_, ?_, hnext.mono (fun _ h => isBothTemp_lift h), hρ₂, ?_⟩
  · simp only [rawDefs] at hraw
    simp only [Option.bind_eq_bind] at hraw hm1 hm2
    simp [liftBlk, addLoadDefs, hmap, hlj, blkToIr, hraw, hm1, replaceSubregisterInBlock, hm2, hfin]
  · rw [List.append_assoc, hev]
  · exact (hag₂.trans hagρ).mono (fun _ h => isBothTemp_lift h)
  · rw [← (hag₂.trans hagρ).ptr]; exact hptr₁


theorem mem_btreeInsert {m : List (Term Sub)} {s x : Term Sub} (h : x ∈ btreeInsert m s) : x = s ∨ x ∈ m := by
  induction m with
  | nil => simp [btreeInsert] at h; exact Or.inl h
  | cons y ys ih =>
    simp only [btreeInsert] at h
    split at h
    · rcases List.mem_cons.mp h with h | h
      · exact Or.inl h
      · exact Or.inr (by simp [h])
    · split at h
      · rcases List.mem_cons.mp h with h | h
        · exact Or.inl h
        · exact Or.inr h
      · rcases List.mem_cons.mp h with h | h
        · exact Or.inr (by simp [h])
        · rcases ih h with h | h
          · exact Or.inl h
          · exact Or.inr (by simp [h])

theorem mem_foldl_btreeInsert {l acc : List (Term Sub)} {x : Term Sub} (h : x ∈ l.foldl btreeInsert acc) :
    x ∈ acc ∨ x ∈ l := by
  induction l generalizing acc with
  | nil => exact Or.inl h
  | cons s l ih =>
    simp only [List.foldl_cons] at h
    rcases ih h with h | h
    · rcases mem_btreeInsert h with h | h
      · exact Or.inr (by simp [h])
      · exact Or.inl h
    · exact Or.inr (by simp [h])

theorem mem_swapToFront {α} {l : List α} {i : Nat} {x : α} (h : x ∈ swapToFront l i) : x ∈ l := by
  unfold swapToFront at h
  split at h
  · rename_i a rest b hb
    rcases List.mem_or_eq_of_mem_set h with h | h
    · rcases List.mem_or_eq_of_mem_set h with h | h
      · exact h
      · rw [h]; simp
    · rw [h]; exact List.mem_of_getElem? hb
  · exact h

/-- **C11-program.** Every block of the program produced by `parse_pcode_project_to_ir_project`
(`normalize` + `into_ir_project`) is the lifting `liftBlk` — the subject of `liftBlk_sim` — of the P-Code
block with the same term identifier, in the function with the same term identifier. -/
theorem liftProject_blocks {p : Pcode.Project} {prog : Program} (h : liftProject p = some prog) :
    ∀ s ∈ prog.subs, ∀ ib ∈ s.term.blocks,
      ∃ ps ∈ p.program.subs, ps.tid = s.tid ∧ ∃ pb ∈ ps.term.blocks, pb.tid = ib.tid ∧
        liftBlk p.registerProperties p.pointerSize pb.term = some ib.term := by
  intro s hs ib hib
  simp only [liftProject, Option.bind_eq_bind] at h
  cases h1 : mapOpt (normalizeSub p.pointerSize) p.program.subs with
  | none => simp [h1] at h
  | some nsubs =>
  cases h2 : mapOpt (subToIr p.pointerSize) nsubs with
  | none => simp [h1, h2] at h
  | some irsubs =>
  cases h3 : mapOpt (replaceSubregisterInSub p.registerProperties) irsubs with
  | none => simp [h1, h2, h3] at h
  | some fsubs =>
  simp only [h1, h2, h3, Option.bind_some, Option.some.injEq] at h
  subst h
  simp only at hs
  have hs' : s ∈ fsubs := by
    rcases mem_foldl_btreeInsert hs with h | h
    · simp at h
    · exact h
  obtain ⟨s1, hs1, hf1⟩ := (mapOpt_some _ _ _ h3).2 s hs'
  simp only [replaceSubregisterInSub, Option.bind_eq_bind] at hf1
  cases hb1 : mapOpt (fun b : Term Blk => (replaceSubregisterInBlock p.registerProperties b.term).bind
      fun r => some (⟨b.tid, r⟩ : Term Blk)) s1.term.blocks with
  | none => simp [hb1] at hf1
  | some fblocks =>
  simp only [hb1, Option.bind_some, Option.some.injEq] at hf1
  subst hf1
  simp only at hib
  obtain ⟨b1, hb1m, hfb1⟩ := (mapOpt_some _ _ _ hb1).2 ib hib
  cases hr : replaceSubregisterInBlock p.registerProperties b1.term with
  | none => simp [hr] at hfb1
  | some rb =>
  simp only [hr, Option.bind_some, Option.some.injEq] at hfb1
  subst hfb1
  -- s1 comes from a normalized P-Code sub
  obtain ⟨s2, hs2, hf2⟩ := (mapOpt_some _ _ _ h2).2 s1 hs1
  simp only [subToIr, Option.bind_eq_bind] at hf2
  cases hblk : entryFirst s2 with
  | none => simp [hblk] at hf2
  | some blocks =>
  simp only [hblk, Option.bind_some] at hf2
  cases hir : mapOpt (fun b : Term Pcode.Blk => (blkToIr p.pointerSize b.term).bind
      fun r => some (⟨b.tid, r⟩ : Term Blk)) blocks with
  | none => simp [hir] at hf2
  | some irBlocks =>
  simp only [hir, Option.bind_some, Option.some.injEq] at hf2
  subst hf2
  simp only at hb1m
  obtain ⟨b2, hb2m, hfb2⟩ := (mapOpt_some _ _ _ hir).2 b1 hb1m
  cases hbi : blkToIr p.pointerSize b2.term with
  | none => simp [hbi] at hfb2
  | some irb =>
  simp only [hbi, Option.bind_some, Option.some.injEq] at hfb2
  subst hfb2
  have hb2s : b2 ∈ s2.term.blocks := by
    unfold entryFirst at hblk
    split at hblk
    · simp at hblk; subst hblk; simp at hb2m
    · split at hblk
      · split at hblk
        · simp at hblk; subst hblk; exact mem_swapToFront hb2m
        · simp at hblk
      · simp at hblk; subst hblk; exact hb2m
  -- s2 comes from a P-Code sub
  obtain ⟨s3, hs3, hf3⟩ := (mapOpt_some _ _ _ h1).2 s2 hs2
  simp only [normalizeSub, Option.bind_eq_bind] at hf3
  cases hnb : mapOpt (fun b : Term Pcode.Blk => (addLoadDefs p.pointerSize b.term).bind
      fun r => some (⟨b.tid, r⟩ : Term Pcode.Blk)) s3.term.blocks with
  | none => simp [hnb] at hf3
  | some nblocks =>
  simp only [hnb, Option.bind_some, Option.some.injEq] at hf3
  subst hf3
  simp only at hb2s
  have hb2n : b2 ∈ nblocks := by
    split at hb2s
    · simp at hb2s
    · exact hb2s
  obtain ⟨b3, hb3m, hfb3⟩ := (mapOpt_some _ _ _ hnb).2 b2 hb2n
  cases hal : addLoadDefs p.pointerSize b3.term with
  | none => simp [hal] at hfb3
  | some nb =>
  simp only [hal, Option.bind_some, Option.some.injEq] at hfb3
  subst hfb3
  refine ⟨s3, hs3, rfl, b3, hb3m, rfl, ?_⟩
  simp only at hbi hr
  simp [liftBlk, hal, hbi, hr]

/-- **C11-block (the property).** For every block of in-domain P-Code, every well-typed initial state and
every execution of the block under the P-Code reference semantics, the block produced by the lifting
(`normalize`, `into_ir_blk`, `replace_subregister_in_block`) exists and, run from the SAME state by the IR
reference interpreter, has

* the same memory accesses (loads and stores: address, size, value) in the same order — implicit accesses
  through RAM varnodes have become explicit ones —,
* a final state that agrees on memory and on every register except the temporaries introduced by the
  lifting (`loaded_value`, `$load_temp0..2`), in particular on all BASE registers,
* the same branch decision: same jump events (with equal snapshots of base registers and memory), same
  successor block, agreeing states after a call. -/
theorem liftBlk_sim {tbl : RegTable} (ht : tableOk tbl = true) {ptr : Nat} (hp0 : 0 < ptr) (env : Env)
    (hphys : ∀ v ∈ env.physRegs, v.isTemp = false) (b : Pcode.Blk) (hb : blkOk tbl b = true)
    {σ : State} (hσ : WellTyped σ) (hptr : σ.ptrBytes = ptr)
    {eff : BlkEffect} (hx : execBlk tbl env σ b = some eff) :
    ∃ ib ρ₁ ev₁ ev₂ n', liftBlk tbl ptr b = some ib ∧ Sem.execDefs σ ib.defs = some (ρ₁, ev₁) ∧
      Sem.execJmps env ρ₁ 0 ib.jmps = (ev₂, n') ∧ ev₁ ++ ev₂ = eff.events ++ eff.jmpEvents ∧
      Agree IsLiftTemp eff.after ρ₁ ∧ NextAgree IsLiftTemp eff.next n' := by
  obtain ⟨ib, ρ₁, ev₁, ev₂, n', h1, h2, h3, h4, h5, h6, _⟩ := liftBlk_sim_gen ht hp0 env hphys b hb hσ hptr 0 hx
  exact ⟨ib, ρ₁, ev₁, ev₂, n', h1, h2, h3, h4, h5, h6⟩

/-- the physical registers the driver observes (the base registers of the table) are not temporaries -/
theorem baseRegs_nontemp (tbl : RegTable) : ∀ v ∈ baseRegs tbl, v.isTemp = false := by
  intro v hv
  simp only [baseRegs, List.mem_map] at hv
  obtain ⟨r, _, rfl⟩ := hv
  rfl

/-- **C11-block, in the setting of the correspondence run**: initial states without register overrides,
observed registers = base registers of the table. -/
theorem liftBlk_sim_driver {tbl : RegTable} (ht : tableOk tbl = true) {ptr : Nat} (hp0 : 0 < ptr) (sp : Variable)
    (b : Pcode.Blk) (hb : blkOk tbl b = true) (seed : Nat)
    {eff : BlkEffect} (hx : execBlk tbl ⟨baseRegs tbl, sp⟩ { seed := seed, ptrBytes := ptr } b = some eff) :
    ∃ ib ρ₁ ev₁ ev₂ n', liftBlk tbl ptr b = some ib ∧
      Sem.execDefs { seed := seed, ptrBytes := ptr } ib.defs = some (ρ₁, ev₁) ∧
      Sem.execJmps ⟨baseRegs tbl, sp⟩ ρ₁ 0 ib.jmps = (ev₂, n') ∧ ev₁ ++ ev₂ = eff.events ++ eff.jmpEvents ∧
      eff.after.snapshot (baseRegs tbl) = ρ₁.snapshot (baseRegs tbl) ∧ NextAgree IsLiftTemp eff.next n' := by
  obtain ⟨ib, ρ₁, ev₁, ev₂, n', h1, h2, h3, h4, h5, h6⟩ :=
    liftBlk_sim ht hp0 ⟨baseRegs tbl, sp⟩ (baseRegs_nontemp tbl) b hb
      (WellTyped.initial { seed := seed, ptrBytes := ptr } rfl) rfl hx
  refine ⟨ib, ρ₁, ev₁, ev₂, n', h1, h2, h3, h4, ?_, h6⟩
  apply snapshot_agree h5
  intro v hv hT
  have := hT.1
  rw [baseRegs_nontemp tbl v hv] at this
  simp at this

/-! ### non-vacuity: the hypotheses of `liftBlk_sim` hold for a concrete block with a sub-register write in
the middle of the base register, a cast-to-base idiom, an implicit RAM load and an indirect jump through RAM -/

def exTbl : RegTable :=
  [⟨"RAX", "RAX", 0, 8⟩, ⟨"EAX", "RAX", 0, 4⟩, ⟨"AH", "RAX", 1, 1⟩, ⟨"AL", "RAX", 0, 1⟩, ⟨"RSP", "RSP", 0, 8⟩]

def rv (n : String) (s : Nat) : Pcode.Var := { name := some n, size := s }
def cv (h : String) (s : Nat) : Pcode.Var := { value := some h, size := s }
def mv (a : String) (s : Nat) : Pcode.Var := { address := some a, size := s }
def ins (t : String) (out : Pcode.Var) (m : ExpressionType) (i0 : Pcode.Var) (i1 : Option Pcode.Var) : Term Pcode.Def :=
  ⟨⟨t, "1000"⟩, { lhs := some out, rhs := { mnemonic := m, input0 := some i0, input1 := i1 } }⟩

def exBlk : Pcode.Blk :=
  { defs := [ins "i0" (rv "AH" 1) .INT_ADD (rv "AL" 1) (some (mv "00404000" 1)),
             ins "i1" (rv "EAX" 4) .INT_SRIGHT (rv "EAX" 4) (some (cv "3" 4)),
             ins "i2" (rv "RAX" 8) .INT_ZEXT (rv "EAX" 4) none],
    jmps := [⟨⟨"i3", "1000"⟩, { mnemonic := .BRANCHIND, goto := some (.Indirect (mv "2000" 8)) }⟩] }

def exEnv : Env := { physRegs := baseRegs exTbl, sp := ⟨"RSP", 8, false⟩ }
def exState : State := { seed := 42 }

theorem exTbl_ok : tableOk exTbl = true := by decide
theorem exBlk_ok : blkOk exTbl exBlk = true := by decide
theorem exExec : (execBlk exTbl exEnv exState exBlk).isSome = true := by decide

example : ∃ ib ρ₁ ev₁ ev₂ n', liftBlk exTbl 8 exBlk = some ib ∧ Sem.execDefs exState ib.defs = some (ρ₁, ev₁) ∧
    Sem.execJmps exEnv ρ₁ 0 ib.jmps = (ev₂, n') := by
  obtain ⟨eff, h⟩ := Option.isSome_iff_exists.mp exExec
  obtain ⟨ib, ρ₁, ev₁, ev₂, n', h1, h2, h3, _⟩ :=
    liftBlk_sim exTbl_ok (by decide : 0 < 8) exEnv (by decide) exBlk exBlk_ok (WellTyped.initial exState rfl) rfl h
  exact ⟨ib, ρ₁, ev₁, ev₂, n', h1, h2, h3⟩


end CweModel.C11
