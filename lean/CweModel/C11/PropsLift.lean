/-
C11 — layer `into_ir_def`: normalized P-Code instructions (no RAM inputs) and their lifted raw IR defs
have exactly the same effect (`defToIr_sim`).
-/
import CweModel.C11.PropsDef
import CweModel.C11.PropsTables
set_option linter.unusedSimpArgs false
set_option linter.unusedVariables false
namespace CweModel.C11
open CweModel CweModel.IR CweModel.Sem CweModel.Gen.PcodeOps CweModel.C11.Lift

theorem tableOk_fresh {tbl : RegTable} (h : tableOk tbl = true) {n : String} (hn : n ∈ liftTempNames) :
    regGet tbl n = none := by
  unfold tableOk at h
  simp only [Bool.and_eq_true, List.all_eq_true] at h
  have := h.1.2 n hn
  simpa using this

/-- a varnode of NORMALIZED P-Code (after `add_load_defs_for_implicit_ram_access`): like `varOk`, but
the `$load_temp` temporaries may occur -/
def varOkN (tbl : RegTable) (v : Pcode.Var) : Bool :=
  decide (0 < v.size) &&
  match v.kind with
  | .bad => false
  | .reg n => (regLoc tbl n v.size).isSome &&
              (match regGet tbl n with | some r => decide (v.size ≤ r.size) | none => true)
  | .tmp n => n != "loaded_value" && (regGet tbl n).isNone
  | .const _ => true
  | .ram _ => true

theorem varOk_varOkN {tbl : RegTable} {v : Pcode.Var} (h : varOk tbl v = true) : varOkN tbl v = true := by
  unfold varOk at h
  unfold varOkN
  cases hk : v.kind <;> simp [hk] at h ⊢
  · exact ⟨h.1, h.2.1.2, h.2.2⟩
  · refine ⟨h.1, ?_, h.2.2⟩
    intro e; apply h.2.1; rw [e]; simp [liftTempNames]
  · exact h
  · exact h

/-- the shape of a varnode by its kind -/
theorem kind_reg {v : Pcode.Var} {n : String} (h : v.kind = .reg n) :
    v.name = some n ∧ v.value = none ∧ v.address = none ∧ v.isVirtual = false := by
  unfold Pcode.Var.kind at h
  split at h
  · split at h <;> simp_all
  · split at h <;> simp at h
  · split at h <;> simp at h
  · simp at h

theorem kind_tmp {v : Pcode.Var} {n : String} (h : v.kind = .tmp n) :
    v.name = some n ∧ v.value = none ∧ v.address = none ∧ v.isVirtual = true := by
  unfold Pcode.Var.kind at h
  split at h
  · split at h <;> simp_all
  · split at h <;> simp at h
  · split at h <;> simp at h
  · simp at h

theorem kind_const {v : Pcode.Var} {x : Nat} (h : v.kind = .const x) :
    v.name = none ∧ v.address = none ∧ ∃ s, v.value = some s ∧ parseHex s = some x := by
  unfold Pcode.Var.kind at h
  split at h
  · split at h <;> simp at h
  · rename_i s _ _ _
    split at h
    · rename_i y hy; simp at h; subst h; simp_all
    · simp at h
  · split at h <;> simp at h
  · simp at h

theorem kind_ram {v : Pcode.Var} {x : Nat} (h : v.kind = .ram x) :
    v.name = none ∧ v.value = none ∧ ∃ s, v.address = some s ∧ parseHex s = some x := by
  unfold Pcode.Var.kind at h
  split at h
  · split at h <;> simp at h
  · split at h <;> simp at h
  · split at h
    · rename_i y hy; simp at h; subst h; simp_all
    · simp at h
  · simp at h

theorem ofBytes_mod (s x : Nat) : Bv.ofBytes s (x % 2 ^ (8 * s)) = Bv.ofBytes s x := by
  apply Bv.ext_nat
  · rfl
  · simp

/-- reading a non-RAM varnode = evaluating its lifted expression under register aliasing -/
theorem readVar_A {tbl : RegTable} {σ : State} {v : Pcode.Var} (hok : varOkN tbl v = true) (hnr : v.isRam = false)
    {x : Bv} {ev : List Event} (h : readVar tbl σ v = some (x, ev)) :
    ev = [] ∧ ∃ e, varToIrExpr v = some e ∧ evalA tbl σ e = some x ∧ ExprOkA tbl e := by
  unfold varOkN at hok
  unfold readVar at h
  cases hk : v.kind with
  | bad => simp [hk] at h
  | ram a => simp [Pcode.Var.isRam, hk] at hnr
  | reg n =>
    obtain ⟨h1, h2, h3, h4⟩ := kind_reg hk
    simp only [hk, Bool.and_eq_true, decide_eq_true_eq] at hok
    simp only [hk, Option.bind_eq_bind] at h
    cases hl : regLoc tbl n v.size with
    | none => simp [hl] at h
    | some l =>
      simp only [hl, Option.bind_some, Option.some.injEq, Prod.mk.injEq] at h
      obtain ⟨rfl, rfl⟩ := h
      refine ⟨rfl, .Var ⟨n, v.size, false⟩, by simp [varToIrExpr, varToIrVar, h1, h2, h4], ?_, ?_⟩
      · simp [evalA, readVarA, hl]
      · intro u hu
        simp only [Expression.inputVars, List.mem_singleton] at hu
        subst hu
        refine ⟨hok.1, by simp, fun hl => by simp [IsLoadedValue] at hl, ?_⟩
        intro r _ hr
        have := hok.2.2
        simp only at hr
        simp [hr] at this
        exact this
  | tmp n =>
    obtain ⟨h1, h2, h3, h4⟩ := kind_tmp hk
    simp only [hk, Bool.and_eq_true, decide_eq_true_eq, bne_iff_ne, ne_eq, Option.isNone_iff_eq_none] at hok
    simp only [hk, Option.some.injEq, Prod.mk.injEq] at h
    obtain ⟨rfl, rfl⟩ := h
    refine ⟨rfl, .Var ⟨n, v.size, true⟩, by simp [varToIrExpr, varToIrVar, h1, h2, h4], ?_, ?_⟩
    · simp [evalA, readVarA]
    · intro u hu
      simp only [Expression.inputVars, List.mem_singleton] at hu
      subst hu
      refine ⟨hok.1, fun _ => hok.2.2, fun hl => hok.2.1 hl.2, ?_⟩
      intro r hr; simp at hr
  | const c =>
    obtain ⟨h1, h3, s, h2, hs⟩ := kind_const hk
    simp only [hk, Option.some.injEq, Prod.mk.injEq] at h
    obtain ⟨rfl, rfl⟩ := h
    refine ⟨rfl, .Const v.size (c % 2 ^ (8 * v.size)), by simp [varToIrExpr, parseConst, h1, h2, hs], ?_, ?_⟩
    · simp [evalA, ofBytes_mod]
    · intro u hu; simp [Expression.inputVars] at hu


/-- writing a register / temporary varnode = `writeVarA` on its lifted variable -/
theorem writeVar_A {tbl : RegTable} {σ : State} {out : Pcode.Var} (hok : varOkN tbl out = true)
    (hnr : out.isRam = false) {x : Bv} {σ' : State} {ev : List Event}
    (h : writeVar tbl σ out x = some (σ', ev)) :
    ev = [] ∧ out.address = none ∧ ∃ v, varToIrVar out = some v ∧ writeVarA tbl σ v x = some σ' ∧ VarOkA tbl v := by
  unfold varOkN at hok
  unfold writeVar at h
  by_cases hw : (x.w != 8 * out.size) = true
  · simp [hw] at h
  · simp only [hw, Bool.false_eq_true, if_false] at h
    cases hk : out.kind with
    | bad => simp [hk] at h
    | const c => simp [hk] at h
    | ram a => simp [Pcode.Var.isRam, hk] at hnr
    | reg n =>
      obtain ⟨h1, h2, h3, h4⟩ := kind_reg hk
      simp only [hk, Bool.and_eq_true, decide_eq_true_eq] at hok
      simp only [hk, Option.bind_eq_bind] at h
      cases hl : regLoc tbl n out.size with
      | none => simp [hl] at h
      | some l =>
        simp only [hl, Option.bind_some, Option.some.injEq, Prod.mk.injEq] at h
        obtain ⟨rfl, rfl⟩ := h
        refine ⟨rfl, h3, ⟨n, out.size, false⟩, by simp [varToIrVar, h1, h4], ?_, ?_⟩
        · simp [writeVarA, hw, hl]
        · refine ⟨hok.1, by simp, fun hl => by simp [IsLoadedValue] at hl, ?_⟩
          intro r _ hr
          have := hok.2.2
          simp only at hr
          simp [hr] at this
          exact this
    | tmp n =>
      obtain ⟨h1, h2, h3, h4⟩ := kind_tmp hk
      simp only [hk, Bool.and_eq_true, decide_eq_true_eq, bne_iff_ne, ne_eq, Option.isNone_iff_eq_none] at hok
      simp only [hk, Option.some.injEq, Prod.mk.injEq] at h
      obtain ⟨rfl, rfl⟩ := h
      refine ⟨rfl, h3, ⟨n, out.size, true⟩, by simp [varToIrVar, h1, h4], ?_, ?_⟩
      · simp [writeVarA, hw]
      · refine ⟨hok.1, fun _ => hok.2.2, fun hl => hok.2.1 hl.2, ?_⟩
        intro r hr; simp at hr

/-- the common tail of `Def::into_ir_def`: assign the value expression to the target variable, or store it
at the constant address of a RAM target -/
theorem finish_def {tbl : RegTable} {σ : State} (ptr : Nat) (hptr : σ.ptrBytes = ptr) {out : Pcode.Var}
    (hok : varOkN tbl out = true) {ve : Expression} {r : Bv} (hve : evalA tbl σ ve = some r)
    (hvok : ExprOkA tbl ve) {σ' : State} {ev : List Event} (h : writeVar tbl σ out r = some (σ', ev)) :
    ∃ d', (if out.address.isSome then (do some (Def.Store (← parseAddress out ptr) ve))
            else (do some (Def.Assign (← varToIrVar out) ve))) = some d' ∧
      execDefA tbl σ d' = some (σ', ev) ∧ DefOkA tbl d' := by
  by_cases hr : out.isRam = true
  · -- RAM target: a store at the constant address
    unfold Pcode.Var.isRam at hr
    cases hk : out.kind with
    | ram a =>
      obtain ⟨h1, h2, s, h3, hs⟩ := kind_ram hk
      unfold writeVar at h
      by_cases hw : (r.w != 8 * out.size) = true
      · simp [hw] at h
      · simp only [hw, Bool.false_eq_true, if_false, hk, Option.some.injEq, Prod.mk.injEq] at h
        obtain ⟨rfl, rfl⟩ := h
        have hw' : r.w = 8 * out.size := by simpa using hw
        have hb : r.bytes = out.size := by unfold Bv.bytes; omega
        refine ⟨.Store (.Const ptr (a % 2 ^ (8 * ptr))) ve, by simp [h3, parseAddress, hs], ?_, ?_⟩
        · simp only [execDefA, evalA, hve, Option.bind_eq_bind, Option.bind_some, hb]
          have : (Bv.ofBytes ptr (a % 2 ^ (8 * ptr))).toNat = σ.wrapAddr a := by
            simp [State.wrapAddr, hptr]
          rw [this]
        · exact ⟨fun u hu => by simp [Expression.inputVars] at hu, hvok⟩
    | reg n => simp [hk] at hr
    | tmp n => simp [hk] at hr
    | const c => simp [hk] at hr
    | bad => simp [hk] at hr
  · have hnr : out.isRam = false := by simpa using hr
    obtain ⟨rfl, hadr, v, hv1, hv2, hv3⟩ := writeVar_A hok hnr h
    refine ⟨.Assign v ve, by simp [hadr, hv1], ?_, ⟨hv3, hvok⟩⟩
    simp [execDefA, hve, hv2]


def inOkN (tbl : RegTable) (v : Option Pcode.Var) : Bool :=
  match v with
  | some v => varOkN tbl v && !v.isRam
  | none => true

/-- an instruction of normalized P-Code: no RAM inputs any more -/
def defOkN (tbl : RegTable) (d : Pcode.Def) : Bool :=
  inOkN tbl d.rhs.input0 && inOkN tbl d.rhs.input1 && inOkN tbl d.rhs.input2 &&
  match opKind d.rhs.mnemonic with
  | .load => (match d.lhs with | some o => varOkN tbl o && !o.isRam | none => false) && d.rhs.input1.isSome
  | .store => d.rhs.input1.isSome && d.rhs.input2.isSome
  | k =>
    (match d.lhs with | some o => varOkN tbl o | none => false) && d.rhs.input0.isSome &&
    (match k with
     | .bin _ => d.rhs.input1.isSome
     | .subpiece => (match d.rhs.input1 with | some c => subpieceOffsetOk c | none => false)
     | _ => true)

theorem lhs_some {o : Option Pcode.Var} {p : Pcode.Var → Bool}
    (h : (match o with | some o => p o | none => false) = true) : ∃ v, o = some v ∧ p v = true := by
  cases o with
  | none => simp at h
  | some v => exact ⟨v, rfl, h⟩

/-- reading a present in-domain non-RAM operand -/
theorem readOpt_A {tbl : RegTable} {σ : State} {o : Option Pcode.Var} (h : inOkN tbl o = true)
    {a : Option Bv} {ev : List Event} (hr : readOpt tbl σ o = some (a, ev)) :
    ev = [] ∧ ∀ v, o = some v → ∃ x e, a = some x ∧ varToIrExpr v = some e ∧ evalA tbl σ e = some x ∧ ExprOkA tbl e := by
  cases o with
  | none => simp [readOpt] at hr; exact ⟨hr.2, fun v hv => by simp at hv⟩
  | some v =>
    simp only [inOkN, Bool.and_eq_true, Bool.not_eq_true'] at h
    simp only [readOpt, Option.bind_eq_bind] at hr
    cases hrv : readVar tbl σ v with
    | none => simp [hrv] at hr
    | some q =>
      obtain ⟨x, e⟩ := q
      simp only [hrv, Option.bind_some, Option.some.injEq, Prod.mk.injEq] at hr
      obtain ⟨rfl, rfl⟩ := hr
      obtain ⟨he, ex, h1, h2, h3⟩ := readVar_A h.1 h.2 hrv
      exact ⟨he, fun v' hv' => by cases hv'; exact ⟨x, ex, rfl, h1, h2, h3⟩⟩

theorem isSome_get {α} {o : Option α} (h : o.isSome = true) : ∃ v, o = some v := by
  cases o with
  | none => simp at h
  | some v => exact ⟨v, rfl⟩

theorem subpiece_offset {c : Pcode.Var} (h : subpieceOffsetOk c = true) {low : Nat} (hl : constOperand c = some low) :
    parseToBytesize c = some low := by
  unfold subpieceOffsetOk at h
  simp only [Bool.and_eq_true, decide_eq_true_eq] at h
  obtain ⟨⟨hsz, _⟩, hv⟩ := h
  unfold constOperand at hl
  cases hk : c.kind with
  | const x =>
    obtain ⟨h1, h3, s, h2, hs⟩ := kind_const hk
    simp only [h2, beq_iff_eq] at hv
    simp [parseToBytesize, h1, h2, hsz, hv, constOperand, hk] at hl ⊢
    exact hl
  | reg n => simp [hk] at hl
  | tmp n => simp [hk] at hl
  | ram a => simp [hk] at hl
  | bad => simp [hk] at hl

theorem varToIrVar_size {out : Pcode.Var} {v : Variable} (h : varToIrVar out = some v) : v.size = out.size := by
  simp only [varToIrVar, Option.bind_eq_bind] at h
  cases hn : out.name with
  | none => simp [hn] at h
  | some n => simp [hn] at h; rw [← h]

/-- a `write` action: the common tail of the value-producing instructions -/
theorem write_sim {tbl : RegTable} {σ : State} (ptr : Nat) (hptr : σ.ptrBytes = ptr) {out : Pcode.Var}
    (hok : varOkN tbl out = true) {ve : Expression} {r : Bv} (hve : evalA tbl σ ve = some r)
    (hvok : ExprOkA tbl ve) {σ' : State} {ev : List Event} (h : perform tbl σ (.write out r) = some (σ', ev)) :
    ∃ d', (if out.address.isSome then (do some (Def.Store (← parseAddress out ptr) ve))
            else (do some (Def.Assign (← varToIrVar out) ve))) = some d' ∧
      execDefA tbl σ d' = some (σ', ev) ∧ DefOkA tbl d' :=
  finish_def ptr hptr hok hve hvok h

/-- **C11-def (layer `into_ir_def`).** One instruction of normalized P-Code (no RAM inputs) and its lifted
raw IR def (register variables still aliasing) have exactly the same effect. -/
theorem defToIr_sim {tbl : RegTable} {σ : State} (ptr : Nat) (hptr : σ.ptrBytes = ptr) {d : Pcode.Def}
    (hok : defOkN tbl d = true) {σ' : State} {ev : List Event} (hx : execDef tbl σ d = some (σ', ev)) :
    ∃ d', defToIr ptr d = some d' ∧ execDefA tbl σ d' = some (σ', ev) ∧ DefOkA tbl d' := by
  unfold defOkN at hok
  simp only [Bool.and_eq_true] at hok
  obtain ⟨⟨⟨hi₀, hi₁⟩, hi₂⟩, hkind⟩ := hok
  simp only [execDef, Option.bind_eq_bind] at hx
  cases hr₀ : readOpt tbl σ d.rhs.input0 with
  | none => simp [hr₀] at hx
  | some q₀ =>
  obtain ⟨a₀, e₀⟩ := q₀
  cases hr₁ : readOpt tbl σ d.rhs.input1 with
  | none => simp [hr₀, hr₁] at hx
  | some q₁ =>
  obtain ⟨a₁, e₁⟩ := q₁
  cases hr₂ : readOpt tbl σ d.rhs.input2 with
  | none => simp [hr₀, hr₁, hr₂] at hx
  | some q₂ =>
  obtain ⟨a₂, e₂⟩ := q₂
  cases hc : compute d a₀ a₁ a₂ with
  | none => simp [hr₀, hr₁, hr₂, hc] at hx
  | some act =>
  cases hp : perform tbl σ act with
  | none => simp [hr₀, hr₁, hr₂, hc, hp] at hx
  | some qp =>
  obtain ⟨σp, ep⟩ := qp
  simp only [hr₀, hr₁, hr₂, hc, hp, Option.bind_some, Option.some.injEq, Prod.mk.injEq] at hx
  obtain ⟨rfl, rfl⟩ := hx
  obtain ⟨rfl, hA₀⟩ := readOpt_A hi₀ hr₀
  obtain ⟨rfl, hA₁⟩ := readOpt_A hi₁ hr₁
  obtain ⟨rfl, hA₂⟩ := readOpt_A hi₂ hr₂
  simp only [List.append_nil, List.nil_append]
  unfold compute at hc
  cases hk : opKind d.rhs.mnemonic with
  | load =>
    simp only [hk, Bool.and_eq_true] at hkind hc
    obtain ⟨out, hout, hoo⟩ := lhs_some hkind.1
    obtain ⟨p, hp1⟩ := isSome_get hkind.2
    obtain ⟨addr, ea, rfl, hea1, hea2, hea3⟩ := hA₁ p hp1
    simp only [Bool.and_eq_true, Bool.not_eq_true'] at hoo
    simp only [hout, Option.bind_eq_bind, Option.bind_some, Option.some.injEq] at hc
    subst hc
    simp only [perform, Option.bind_eq_bind] at hp
    cases hw : writeVar tbl σ out (Bv.ofBytes out.size (σ.readMem addr.toNat out.size)) with
    | none => simp [hw] at hp
    | some qw =>
      obtain ⟨σw, ew⟩ := qw
      simp only [hw, Option.bind_some, Option.some.injEq, Prod.mk.injEq] at hp
      obtain ⟨rfl, rfl⟩ := hp
      obtain ⟨rfl, _, v, hv1, hv2, hv3⟩ := writeVar_A hoo.1 hoo.2 hw
      refine ⟨.Load v ea, by simp [defToIr, arms_load hk, hout, hp1, hv1, hea1], ?_, ⟨hv3, hea3⟩⟩
      simp [execDefA, hea2, varToIrVar_size hv1, hv2]
  | store =>
    simp only [hk, Bool.and_eq_true] at hkind hc
    obtain ⟨p, hp1⟩ := isSome_get hkind.1
    obtain ⟨vv, hvv⟩ := isSome_get hkind.2
    obtain ⟨addr, ea, rfl, hea1, hea2, hea3⟩ := hA₁ p hp1
    obtain ⟨x, ex, rfl, hex1, hex2, hex3⟩ := hA₂ vv hvv
    simp only [Option.bind_eq_bind, Option.bind_some, Option.some.injEq] at hc
    subst hc
    simp only [perform, Option.some.injEq, Prod.mk.injEq] at hp
    obtain ⟨rfl, rfl⟩ := hp
    refine ⟨.Store ea ex, by simp [defToIr, arms_store hk, hp1, hvv, hea1, hex1], ?_, ⟨hea3, hex3⟩⟩
    simp [execDefA, hea2, hex2]
  | copy =>
    simp only [hk, Bool.and_eq_true] at hkind hc
    obtain ⟨out, hout, hoo⟩ := lhs_some hkind.1.1
    obtain ⟨i₀, hi0⟩ := isSome_get hkind.1.2
    obtain ⟨a, ea, rfl, hea1, hea2, hea3⟩ := hA₀ i₀ hi0
    simp only [hout, Option.bind_eq_bind, Option.bind_some, Option.some.injEq] at hc
    subst hc
    obtain ⟨d', hd1, hd2, hd3⟩ := write_sim ptr hptr hoo hea2 hea3 hp
    refine ⟨d', ?_, hd2, hd3⟩
    obtain ⟨h1, h2⟩ := arms_copy hk
    simp only [defToIr, h1, hout, Option.bind_eq_bind, Option.bind_some, exprToIr, h2, hi0, hea1]
    exact hd1
  | subpiece =>
    simp only [hk, Bool.and_eq_true] at hkind hc
    obtain ⟨out, hout, hoo⟩ := lhs_some hkind.1.1
    obtain ⟨i₀, hi0⟩ := isSome_get hkind.1.2
    obtain ⟨c, hcc, hcok⟩ := lhs_some hkind.2
    obtain ⟨a, ea, rfl, hea1, hea2, hea3⟩ := hA₀ i₀ hi0
    simp only [hout, hcc, Option.bind_eq_bind, Option.bind_some] at hc
    cases hlow : constOperand c with
    | none => simp [hlow] at hc
    | some low =>
      cases hres : resToOpt (Ref.subpieceOp low out.size a) with
      | none => simp [hlow, hres] at hc
      | some r =>
        simp only [hlow, hres, Option.bind_some, Option.some.injEq] at hc
        subst hc
        have hve : evalA tbl σ (.Subpiece low out.size ea) = some r := by simp [evalA, hea2, hres]
        have hvok : ExprOkA tbl (.Subpiece low out.size ea) := fun u hu =>
          hea3 u (by simpa [Expression.inputVars] using hu)
        obtain ⟨d', hd1, hd2, hd3⟩ := write_sim ptr hptr hoo hve hvok hp
        refine ⟨d', ?_, hd2, hd3⟩
        simp only [defToIr, arms_subpiece hk, hout, Option.bind_eq_bind, Option.bind_some, hcc, hi0,
          subpiece_offset hcok hlow, hea1]
        exact hd1
  | bin op =>
    simp only [hk, Bool.and_eq_true] at hkind hc
    obtain ⟨out, hout, hoo⟩ := lhs_some hkind.1.1
    obtain ⟨i₀, hi0⟩ := isSome_get hkind.1.2
    obtain ⟨i₁, hi1⟩ := isSome_get hkind.2
    obtain ⟨a, ea, rfl, hea1, hea2, hea3⟩ := hA₀ i₀ hi0
    obtain ⟨b, eb, rfl, heb1, heb2, heb3⟩ := hA₁ i₁ hi1
    simp only [hout, Option.bind_eq_bind, Option.bind_some] at hc
    cases hres : resToOpt (Ref.binOp op a b) with
    | none => simp [hres] at hc
    | some r =>
      simp only [hres, Option.bind_some, Option.some.injEq] at hc
      subst hc
      have hve : evalA tbl σ (.BinOp op ea eb) = some r := by simp [evalA, hea2, heb2, hres]
      have hvok : ExprOkA tbl (.BinOp op ea eb) := fun u hu => by
        simp only [Expression.inputVars, List.mem_append] at hu
        rcases hu with hu | hu
        · exact hea3 u hu
        · exact heb3 u hu
      obtain ⟨d', hd1, hd2, hd3⟩ := write_sim ptr hptr hoo hve hvok hp
      refine ⟨d', ?_, hd2, hd3⟩
      obtain ⟨h1, h2, h3⟩ := arms_bin hk
      simp only [defToIr, h1, hout, Option.bind_eq_bind, Option.bind_some, exprToIr, h2, h3, hi0, hi1, hea1, heb1]
      exact hd1
  | un op =>
    simp only [hk, Bool.and_eq_true] at hkind hc
    obtain ⟨out, hout, hoo⟩ := lhs_some hkind.1.1
    obtain ⟨i₀, hi0⟩ := isSome_get hkind.1.2
    obtain ⟨a, ea, rfl, hea1, hea2, hea3⟩ := hA₀ i₀ hi0
    simp only [hout, Option.bind_eq_bind, Option.bind_some] at hc
    cases hres : resToOpt (Ref.unOp op a) with
    | none => simp [hres] at hc
    | some r =>
      simp only [hres, Option.bind_some, Option.some.injEq] at hc
      subst hc
      have hve : evalA tbl σ (.UnOp op ea) = some r := by simp [evalA, hea2, hres]
      have hvok : ExprOkA tbl (.UnOp op ea) := fun u hu => hea3 u (by simpa [Expression.inputVars] using hu)
      obtain ⟨d', hd1, hd2, hd3⟩ := write_sim ptr hptr hoo hve hvok hp
      refine ⟨d', ?_, hd2, hd3⟩
      obtain ⟨h1, h2, h3⟩ := arms_un hk
      simp only [defToIr, h1, hout, Option.bind_eq_bind, Option.bind_some, exprToIr, h2, h3, hi0, hea1]
      exact hd1
  | cast op =>
    simp only [hk, Bool.and_eq_true] at hkind hc
    obtain ⟨out, hout, hoo⟩ := lhs_some hkind.1.1
    obtain ⟨i₀, hi0⟩ := isSome_get hkind.1.2
    obtain ⟨a, ea, rfl, hea1, hea2, hea3⟩ := hA₀ i₀ hi0
    simp only [hout, Option.bind_eq_bind, Option.bind_some] at hc
    cases hres : resToOpt (Ref.cast op out.size a) with
    | none => simp [hres] at hc
    | some r =>
      simp only [hres, Option.bind_some, Option.some.injEq] at hc
      subst hc
      have hve : evalA tbl σ (.Cast op out.size ea) = some r := by simp [evalA, hea2, hres]
      have hvok : ExprOkA tbl (.Cast op out.size ea) := fun u hu => hea3 u (by simpa [Expression.inputVars] using hu)
      obtain ⟨d', hd1, hd2, hd3⟩ := write_sim ptr hptr hoo hve hvok hp
      refine ⟨d', ?_, hd2, hd3⟩
      obtain ⟨h1, h2⟩ := arms_cast hk
      simp only [defToIr, h1, hout, Option.bind_eq_bind, Option.bind_some, h2, hi0, hea1]
      exact hd1

end CweModel.C11
