/-
C11 — the generated mnemonic tables (`Gen.PcodeOps`, extracted from pcode/expressions.rs and pcode/term.rs)
are total and agree with the P-Code reference meaning of every mnemonic.
-/
import CweModel.C11.Lift

namespace CweModel.C11
open CweModel CweModel.IR CweModel.Sem CweModel.Gen.PcodeOps CweModel.C11.Lift

/-! ## A. the generated mnemonic tables -/

/-- what the lifting code does with a mnemonic, read off the GENERATED tables: the arm of
`Def::into_ir_def`, then the arm of `From<Expression>`, then the operation table; `none` = panic -/
def liftedKind (m : ExpressionType) : Option OpKind :=
  match defArm m with
  | .load => some .load
  | .store => some .store
  | .subpiece => some .subpiece
  | .cast => (castMap m).map .cast
  | .panic => none
  | .expr =>
    match exprArm m with
    | .copy => some .copy
    | .binOp => (binOpMap m).map .bin
    | .unOp => (unOpMap m).map .un
    | .panic => none

/-- **C11-tables.** The mnemonic → IR-operation tables extracted from `pcode/expressions.rs` and
`pcode/term.rs` are TOTAL (no mnemonic reaches a `panic!()` arm) and SEMANTICS-PRESERVING: every mnemonic is
lifted to the IR operation that the P-Code reference semantics (`opKind`, PcodeSem.lean) gives it.
Complete case distinction over the generated enum, re-checked whenever the tables change. -/
theorem liftedKind_eq_opKind (m : ExpressionType) : liftedKind m = some (opKind m) := by
  cases m <;> rfl

/-- **C11-tables (totality, spelled out).** -/
theorem binOpMap_total (m : ExpressionType) (h : exprArm m = .binOp) : (binOpMap m).isSome := by
  cases m <;> first | rfl | (simp [exprArm] at h)
theorem unOpMap_total (m : ExpressionType) (h : exprArm m = .unOp) : (unOpMap m).isSome := by
  cases m <;> first | rfl | (simp [exprArm] at h)
theorem castMap_total (m : ExpressionType) (h : defArm m = .cast) : (castMap m).isSome := by
  cases m <;> first | rfl | (simp [defArm] at h)

/-- non-vacuity: the arithmetic right shift is lifted to `IntSRight` -/
example : liftedKind .INT_SRIGHT = some (.bin .IntSRight) := rfl


/-! the arms taken by a mnemonic of a given meaning (complete case distinctions over the generated tables) -/

theorem arms_load {m : ExpressionType} (h : opKind m = .load) : defArm m = .load := by
  cases m <;> simp_all [opKind, defArm]

theorem arms_store {m : ExpressionType} (h : opKind m = .store) : defArm m = .store := by
  cases m <;> simp_all [opKind, defArm]

theorem arms_subpiece {m : ExpressionType} (h : opKind m = .subpiece) : defArm m = .subpiece := by
  cases m <;> simp_all [opKind, defArm]

theorem arms_cast {m : ExpressionType} {op : CastOpType} (h : opKind m = .cast op) :
    defArm m = .cast ∧ castMap m = some op := by
  cases m <;> simp_all [opKind, defArm, castMap]

theorem arms_copy {m : ExpressionType} (h : opKind m = .copy) : defArm m = .expr ∧ exprArm m = .copy := by
  cases m <;> simp_all [opKind, defArm, exprArm]

theorem arms_bin {m : ExpressionType} {op : BinOpType} (h : opKind m = .bin op) :
    defArm m = .expr ∧ exprArm m = .binOp ∧ binOpMap m = some op := by
  cases m <;> simp_all [opKind, defArm, exprArm, binOpMap]

theorem arms_un {m : ExpressionType} {op : UnOpType} (h : opKind m = .un op) :
    defArm m = .expr ∧ exprArm m = .unOp ∧ unOpMap m = some op := by
  cases m <;> simp_all [opKind, defArm, exprArm, unOpMap]

end CweModel.C11
