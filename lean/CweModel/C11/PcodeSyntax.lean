/-
C11 — P-Code as the extractor emits it: the types of `src/cwe_checker_lib/src/pcode/{expressions,term}.rs`
(`Variable, Expression, Def, Label, Call, Jmp, Blk, Sub, Program, RegisterProperties, Project`) 1:1, and
decoders for their serde JSON (what `serde_json::to_value(&pcode::Project)` writes = what the Ghidra plugin
sends, with absent optional fields as `null`).

The mnemonic enums `ExpressionType` and `JmpType` are GENERATED from the Rust enums
(`CweModel.Gen.PcodeOps`, extract/pcode_ops.py).

Core-only (the driver links against it).
-/
import CweModel.Base.IR
import CweModel.Gen.PcodeOps
open Lean

namespace CweModel.C11
open CweModel.Proto
open CweModel.Gen.PcodeOps
open CweModel.IR (Tid Term)

namespace Pcode

/-- `pcode::Variable`: a varnode. Exactly one of `name` (register / temporary), `value` (constant, hex)
and `address` (RAM varnode = implicit memory access at a constant address, hex) is set in extractor output. -/
structure Var where
  name : Option String := none
  value : Option String := none
  address : Option String := none
  size : Nat
  isVirtual : Bool := false
deriving Repr, DecidableEq, BEq, Inhabited

/-- `pcode::Expression` -/
structure Expression where
  mnemonic : ExpressionType
  input0 : Option Var := none
  input1 : Option Var := none
  input2 : Option Var := none
deriving Repr, DecidableEq, BEq, Inhabited

/-- `pcode::Def` -/
structure Def where
  lhs : Option Var
  rhs : Expression
deriving Repr, DecidableEq, BEq, Inhabited

/-- `pcode::Label` -/
inductive Label where
  | Direct (t : Tid)
  | Indirect (v : Var)
deriving Repr, DecidableEq, BEq, Inhabited

/-- `pcode::Call` -/
structure Call where
  target : Option Label := none
  ret : Option Label := none
  callString : Option String := none
deriving Repr, DecidableEq, BEq, Inhabited

/-- `pcode::Jmp` -/
structure Jmp where
  mnemonic : JmpType
  goto : Option Label := none
  call : Option Call := none
  condition : Option Var := none
  targetHints : Option (List String) := none
deriving Repr, DecidableEq, BEq, Inhabited

/-- `pcode::Blk` -/
structure Blk where
  defs : List (Term Def)
  jmps : List (Term Jmp)
deriving Repr, DecidableEq, BEq, Inhabited

/-- `pcode::Sub` -/
structure Sub where
  name : String
  blocks : List (Term Blk)
  callingConvention : Option String := none
deriving Repr, DecidableEq, BEq, Inhabited

/-- `pcode::RegisterProperties`: `register` is the bytes `[lsb, lsb+size)` of `baseRegister` -/
structure RegisterProperties where
  register : String
  baseRegister : String
  lsb : Nat
  size : Nat
deriving Repr, DecidableEq, BEq, Inhabited

/-- `pcode::Program` (extern symbols are not part of C11: the harness emits none) -/
structure Program where
  subs : List (Term Sub)
  entryPoints : List Tid := []
  imageBase : String := "0"
deriving Repr, DecidableEq, BEq, Inhabited

/-- `pcode::Project`, the parts the lifting of code depends on -/
structure Project where
  programTid : Tid
  program : Program
  cpuArchitecture : String
  stackPointerRegister : Var
  registerProperties : List RegisterProperties
deriving Repr, DecidableEq, BEq, Inhabited

/-- `generic_pointer_size = stack_pointer_register.size` -/
def Project.pointerSize (p : Project) : Nat := p.stackPointerRegister.size

end Pcode

/-! ### JSON decoders -/
namespace Pcode
open CweModel.Gen.PcodeOps

def optStr (j : Json) (k : String) : Except String (Option String) :=
  match j.getObjVal? k with
  | .ok v => if v.isNull then .ok none else do return some (← v.getStr?)
  | .error _ => .ok none

def optObj {α} (f : Json → Except String α) (j : Json) (k : String) : Except String (Option α) :=
  match j.getObjVal? k with
  | .ok v => if v.isNull then .ok none else do return some (← f v)
  | .error _ => .ok none

def parseVar (j : Json) : Except String Var := do
  return { name := ← optStr j "name", value := ← optStr j "value", address := ← optStr j "address",
           size := ← natF j "size", isVirtual := ← boolF j "is_virtual" }

def parseMnemonic (s : String) : Except String ExpressionType :=
  match ExpressionType.all.find? (fun m => m.names.contains s) with
  | some m => .ok m
  | none => .error s!"unknown mnemonic {s}"

def parseJmpType (s : String) : Except String JmpType :=
  match JmpType.all.find? (fun m => m.name == s) with
  | some m => .ok m
  | none => .error s!"unknown jump mnemonic {s}"

def parseExpr (j : Json) : Except String Expression := do
  return { mnemonic := ← parseMnemonic (← strF j "mnemonic"),
           input0 := ← optObj parseVar j "input0", input1 := ← optObj parseVar j "input1",
           input2 := ← optObj parseVar j "input2" }

def parseDef (j : Json) : Except String Def := do
  return { lhs := ← optObj parseVar j "lhs", rhs := ← parseExpr (← field j "rhs") }

def parseLabel (j : Json) : Except String Label := do
  let (tag, v) ← IR.tagged j
  match tag with
  | "Direct" => return .Direct (← IR.parseTid v)
  | "Indirect" => return .Indirect (← parseVar v)
  | t => throw s!"unknown Label tag {t}"

def parseCall (j : Json) : Except String Call := do
  return { target := ← optObj parseLabel j "target", ret := ← optObj parseLabel j "return",
           callString := ← optStr j "call_string" }

def parseJmp (j : Json) : Except String Jmp := do
  return { mnemonic := ← parseJmpType (← strF j "mnemonic"),
           goto := ← optObj parseLabel j "goto", call := ← optObj parseCall j "call",
           condition := ← optObj parseVar j "condition",
           targetHints := ← optObj (fun v => do mapM' (·.getStr?) (← v.getArr?).toList) j "target_hints" }

def parseBlk (j : Json) : Except String Blk := do
  return { defs := ← mapM' (IR.parseTerm parseDef) (← arrF j "defs"),
           jmps := ← mapM' (IR.parseTerm parseJmp) (← arrF j "jmps") }

def parseSub (j : Json) : Except String Sub := do
  return { name := ← strF j "name", blocks := ← mapM' (IR.parseTerm parseBlk) (← arrF j "blocks"),
           callingConvention := ← optStr j "calling_convention" }

def parseRegisterProperties (j : Json) : Except String RegisterProperties := do
  return { register := ← strF j "register", baseRegister := ← strF j "base_register",
           lsb := ← natF j "lsb", size := ← natF j "size" }

def parseProject (j : Json) : Except String Project := do
  let pt ← field j "program"
  let p ← field pt "term"
  return { programTid := ← IR.parseTid (← field pt "tid"),
           program := { subs := ← mapM' (IR.parseTerm parseSub) (← arrF p "subs"),
                        entryPoints := ← mapM' IR.parseTid (← arrF p "entry_points"),
                        imageBase := ← strF p "image_base" },
           cpuArchitecture := ← strF j "cpu_architecture",
           stackPointerRegister := ← parseVar (← field j "stack_pointer_register"),
           registerProperties := ← mapM' parseRegisterProperties (← arrF j "register_properties") }

end Pcode
end CweModel.C11
