/-
C11 — expression layer: `replace_input_subregister` turns the byte-aliasing reading of register variables
(`evalA`) into plain IR evaluation over base registers (`Sem.eval`).
-/
import CweModel.C11.PropsBytes
set_option linter.unusedSimpArgs false
set_option linter.unusedVariables false

namespace CweModel.C11
open CweModel CweModel.IR CweModel.Sem CweModel.Gen.PcodeOps CweModel.C11.Lift

/-! ### facts about the register table -/

theorem regGet_mem {tbl : RegTable} {n : String} {r : Pcode.RegisterProperties}
    (h : regGet tbl n = some r) : r ∈ tbl := by
  have := List.mem_of_find?_eq_some h
  simpa using this

theorem regGet_name {tbl : RegTable} {n : String} {r : Pcode.RegisterProperties}
    (h : regGet tbl n = some r) : r.register = n := by
  have := List.find?_some h
  simpa using this

/-- what `tableOk` says about an entry -/
structure EntryOk (tbl : RegTable) (r b : Pcode.RegisterProperties) : Prop where
  size_pos : 0 < r.size
  base : regGet tbl r.baseRegister = some b
  base_self : b.baseRegister = b.register
  base_lsb : b.lsb = 0
  inside : r.lsb + r.size ≤ b.size
  whole : r.register = r.baseRegister → r.lsb = 0 ∧ r.size = b.size
  proper : r.register ≠ r.baseRegister → r.size < b.size

theorem tableOk_entry {tbl : RegTable} (h : tableOk tbl = true) {r : Pcode.RegisterProperties} (hr : r ∈ tbl) :
    ∃ b, EntryOk tbl r b := by
  unfold tableOk at h
  simp only [Bool.and_eq_true, List.all_eq_true] at h
  have := h.2 r hr
  revert this
  cases hb : regGet tbl r.baseRegister with
  | none => simp
  | some b =>
    intro this
    simp only [Bool.and_eq_true, decide_eq_true_eq, beq_iff_eq] at this
    obtain ⟨hs, ⟨⟨⟨h1, h2⟩, h3⟩, h4⟩⟩ := this
    refine ⟨b, ⟨hs, hb, h1, h2, h3, ?_, ?_⟩⟩
    · intro he; simp [he] at h4; exact h4
    · intro hne; simp [hne] at h4; exact h4

theorem tableOk_get {tbl : RegTable} (h : tableOk tbl = true) {n : String} {r : Pcode.RegisterProperties}
    (hr : regGet tbl n = some r) : ∃ b, EntryOk tbl r b := tableOk_entry h (regGet_mem hr)

/-! ### well-typed states -/

/-- every register holds a value of its own size -/
def WellTyped (σ : State) : Prop := ∀ v : Variable, (σ.getReg v).w = 8 * v.size

deriving instance ReflBEq, LawfulBEq for Variable

/-- searching in a filtered list: the filter does not matter if it keeps everything searched for -/
theorem find_filter {α} (l : List α) (p q : α → Bool) (h : ∀ a, p a = true → q a = true) :
    (l.filter q).find? p = l.find? p := by
  induction l with
  | nil => rfl
  | cons a l ih =>
    cases hq : q a <;> cases hp : p a
    · simp [List.filter_cons, hq, List.find?_cons, hp, ih]
    · have := h a hp; simp [hq] at this
    · simp [List.filter_cons, hq, List.find?_cons, hp, ih]
    · simp [List.filter_cons, hq, List.find?_cons, hp]

theorem getReg_setReg (σ : State) (v u : Variable) (x : Bv) :
    (σ.setReg v x).getReg u = if u = v then x else σ.getReg u := by
  unfold State.setReg State.getReg
  by_cases h : u = v
  · subst h; simp
  · have hne : ((v, x).1 == u) = false := by simp; exact fun e => h e.symm
    simp only [h, if_false, List.find?_cons, hne]
    rw [find_filter]
    · rfl
    · intro a ha
      simp only [beq_iff_eq] at ha
      simp only [bne_iff_ne, ne_eq, decide_eq_true_eq, ha]
      exact h

theorem regDefault_w (σ : State) (v : Variable) : (σ.regDefault v).w = 8 * v.size := rfl

theorem WellTyped.setReg {σ : State} (h : WellTyped σ) (v : Variable) (x : Bv) (hx : x.w = 8 * v.size) :
    WellTyped (σ.setReg v x) := by
  intro u
  rw [getReg_setReg]
  by_cases hu : u = v
  · subst hu; simp [hx]
  · simp [hu, h u]

/-- a state without register overrides (the initial states of the driver) is well typed -/
theorem WellTyped.initial (σ : State) (h : σ.regs = []) : WellTyped σ := by
  intro v; simp [State.getReg, h, regDefault_w]

theorem extractBytes_full (b : Bv) (s : Nat) (h : b.w = 8 * s) : extractBytes b 0 s = b := by
  apply Bv.ext_nat
  · simp [extractBytes_w, h]
  · rw [extractBytes_toNat]
    have := b.toNat_lt; rw [h] at this
    simp [Nat.mod_eq_of_lt this]

/-! ### the aliasing semantics of raw (not yet substituted) IR -/

/-- read a register variable of raw IR like the P-Code varnode it came from -/
def readVarA (tbl : RegTable) (σ : State) (v : Variable) : Option Bv :=
  if v.isTemp then some (σ.getReg v) else (regLoc tbl v.name v.size).map (readLoc σ)

/-- `Sem.eval`, but register variables denote bytes of their base register -/
def evalA (tbl : RegTable) (σ : State) : Expression → Option Bv
  | .Var v => readVarA tbl σ v
  | .Const b x => some (Bv.ofBytes b x)
  | .BinOp op l r => do
    let a ← evalA tbl σ l
    let b ← evalA tbl σ r
    resToOpt (Ref.binOp op a b)
  | .UnOp op a => do resToOpt (Ref.unOp op (← evalA tbl σ a))
  | .Cast op s a => do resToOpt (Ref.cast op s (← evalA tbl σ a))
  | .Unknown d s => some (unknownValue σ.seed d s)
  | .Subpiece lb s a => do resToOpt (Ref.subpieceOp lb s (← evalA tbl σ a))

/-- simultaneous replacement of every sub-register variable (what `replace_input_subregister` computes
by successive substitutions) -/
def substAll (tbl : RegTable) : Expression → Option Expression
  | .Var v =>
    match replacementFor tbl v with
    | none => none
    | some none => some (.Var v)
    | some (some (_, r)) => some r
  | .Const b x => some (.Const b x)
  | .BinOp op l r => do some (.BinOp op (← substAll tbl l) (← substAll tbl r))
  | .UnOp op a => do some (.UnOp op (← substAll tbl a))
  | .Cast op s a => do some (.Cast op s (← substAll tbl a))
  | .Unknown d s => some (.Unknown d s)
  | .Subpiece lb s a => do some (.Subpiece lb s (← substAll tbl a))

/-- variables of an expression are positive-sized; temporaries are not named like registers -/
def ExprOk (tbl : RegTable) (e : Expression) : Prop :=
  ∀ v ∈ e.inputVars, 0 < v.size ∧ (v.isTemp = true → regGet tbl v.name = none)

theorem ExprOk.binop {tbl op l r} (h : ExprOk tbl (.BinOp op l r)) : ExprOk tbl l ∧ ExprOk tbl r :=
  ⟨fun v hv => h v (by simp [Expression.inputVars, hv]), fun v hv => h v (by simp [Expression.inputVars, hv])⟩

/-- the variable case: the replacement (or the untouched variable) evaluates to the aliased bytes -/
theorem substAll_var {tbl : RegTable} (ht : tableOk tbl = true) {σ : State} (hσ : WellTyped σ)
    (v : Variable) (hv : 0 < v.size) (hvt : v.isTemp = true → regGet tbl v.name = none) {x : Bv}
    (h : readVarA tbl σ v = some x) :
    ∃ e', substAll tbl (.Var v) = some e' ∧ eval σ e' = some x := by
  unfold readVarA at h
  by_cases htmp : v.isTemp = true
  · -- temporaries are left alone
    simp only [htmp, if_true, Option.some.injEq] at h
    refine ⟨.Var v, ?_, by simp [eval, h]⟩
    simp [substAll, replacementFor, hvt htmp]
  · simp only [htmp] at h
    have hvf : v.isTemp = false := by simpa using htmp
    have hveq : (⟨v.name, v.size, false⟩ : Variable) = v := by cases v; simp_all
    cases hr : regGet tbl v.name with
    | none =>
      simp only [regLoc, hr, Option.map_some, Option.some.injEq, Bool.false_eq_true, if_false] at h
      refine ⟨.Var v, by simp [substAll, replacementFor, hr], ?_⟩
      simp only [eval]
      rw [← h, readLoc, hveq, extractBytes_full _ _ (hσ v)]
    | some r =>
      obtain ⟨b, hb⟩ := tableOk_get ht hr
      have hrn := regGet_name hr
      have hbn := regGet_name hb.base
      simp only [regLoc, hr, hb.base, Bool.false_eq_true, if_false] at h
      by_cases hin : r.lsb + v.size ≤ b.size
      · simp only [hin, if_true, Option.map_some, Option.some.injEq] at h
        by_cases hrep : (v.name != r.baseRegister || decide (v.size < r.size)) = true
        · -- replaced by a SUBPIECE of the base register
          refine ⟨.Subpiece r.lsb v.size (.Var ⟨r.baseRegister, b.size, false⟩), ?_, ?_⟩
          · simp [substAll, replacementFor, hr, hrep, createSubpiece, hb.base]
          · simp only [eval, Option.bind_eq_bind, Option.bind_some]
            rw [subpieceOp_extract _ _ _ (by rw [hσ]; simp only; omega) (by rw [hσ]; simp only; omega)]
            rw [← h, readLoc, hbn]; rfl
        · -- the full base register itself
          simp only [Bool.or_eq_true, bne_iff_ne, ne_eq, decide_eq_true_eq, not_or, Decidable.not_not,
            Nat.not_lt] at hrep
          have hself : r.register = r.baseRegister := by rw [hrn]; exact hrep.1
          obtain ⟨hl0, hsz⟩ := hb.whole hself
          have hvs : v.size = b.size := by omega
          refine ⟨.Var v, ?_, ?_⟩
          · have : (v.name != r.baseRegister || decide (v.size < r.size)) = false := by
              simp [hrep.1]; omega
            simp [substAll, replacementFor, hr, this]
          · simp only [eval]
            rw [← h, readLoc]
            simp only
            have hbv : (⟨b.register, b.size, false⟩ : Variable) = v := by
              rw [hbn, ← hrep.1, ← hvs]; exact hveq
            rw [hbv, hl0, extractBytes_full _ _ (hσ v)]
      · simp [hin] at h

/-- **C11-subpiece.** After `replace_input_subregister` (in its simultaneous form `substAll`) an
expression evaluates over BASE registers to the value it has when every register variable denotes the bytes
`[lsb, lsb+size)` of its base register — `create_subpiece_from_sub_register` reads exactly those bytes. -/
theorem substAll_sound {tbl : RegTable} (ht : tableOk tbl = true) {σ : State} (hσ : WellTyped σ) :
    ∀ (e : Expression), ExprOk tbl e → ∀ {x : Bv}, evalA tbl σ e = some x →
      ∃ e', substAll tbl e = some e' ∧ eval σ e' = some x := by
  intro e
  induction e with
  | Var v =>
    intro hok x h
    have := hok v (by simp [Expression.inputVars])
    exact substAll_var ht hσ v this.1 this.2 h
  | Const b c => intro _ x h; exact ⟨.Const b c, rfl, by simpa [evalA, eval] using h⟩
  | Unknown d s => intro _ x h; exact ⟨.Unknown d s, rfl, by simpa [evalA, eval] using h⟩
  | BinOp op l r ihl ihr =>
    intro hok x h
    simp only [evalA, Option.bind_eq_bind] at h
    cases hl : evalA tbl σ l with
    | none => simp [hl] at h
    | some a =>
      cases hr : evalA tbl σ r with
      | none => simp [hl, hr] at h
      | some b =>
        simp only [hl, hr, Option.bind_some] at h
        obtain ⟨l', hl1, hl2⟩ := ihl hok.binop.1 hl
        obtain ⟨r', hr1, hr2⟩ := ihr hok.binop.2 hr
        exact ⟨.BinOp op l' r', by simp [substAll, hl1, hr1], by simp [eval, hl2, hr2, h]⟩
  | UnOp op a ih =>
    intro hok x h
    simp only [evalA, Option.bind_eq_bind] at h
    cases ha : evalA tbl σ a with
    | none => simp [ha] at h
    | some va =>
      simp only [ha, Option.bind_some] at h
      obtain ⟨a', h1, h2⟩ := ih (fun v hv => hok v (by simpa [Expression.inputVars] using hv)) ha
      exact ⟨.UnOp op a', by simp [substAll, h1], by simp [eval, h2, h]⟩
  | Cast op s a ih =>
    intro hok x h
    simp only [evalA, Option.bind_eq_bind] at h
    cases ha : evalA tbl σ a with
    | none => simp [ha] at h
    | some va =>
      simp only [ha, Option.bind_some] at h
      obtain ⟨a', h1, h2⟩ := ih (fun v hv => hok v (by simpa [Expression.inputVars] using hv)) ha
      exact ⟨.Cast op s a', by simp [substAll, h1], by simp [eval, h2, h]⟩
  | Subpiece lb s a ih =>
    intro hok x h
    simp only [evalA, Option.bind_eq_bind] at h
    cases ha : evalA tbl σ a with
    | none => simp [ha] at h
    | some va =>
      simp only [ha, Option.bind_some] at h
      obtain ⟨a', h1, h2⟩ := ih (fun v hv => hok v (by simpa [Expression.inputVars] using hv)) ha
      exact ⟨.Subpiece lb s a', by simp [substAll, h1], by simp [eval, h2, h]⟩


/-! ### successive substitution = simultaneous substitution -/

/-- simultaneous substitution by an association list (first match) -/
def substSim (S : List (Variable × Expression)) : Expression → Expression
  | .Var w => match S.find? (fun p => p.1 == w) with
    | some p => p.2
    | none => .Var w
  | .Const b x => .Const b x
  | .BinOp op l r => .BinOp op (substSim S l) (substSim S r)
  | .UnOp op a => .UnOp op (substSim S a)
  | .Cast op s a => .Cast op s (substSim S a)
  | .Unknown d s => .Unknown d s
  | .Subpiece lb s a => .Subpiece lb s (substSim S a)

theorem substSim_id (S : List (Variable × Expression)) :
    ∀ e : Expression, (∀ u ∈ e.inputVars, ∀ q ∈ S, q.1 ≠ u) → substSim S e = e := by
  intro e
  induction e with
  | Var w =>
    intro h
    have : S.find? (fun p => p.1 == w) = none := by
      rw [List.find?_eq_none]
      intro q hq
      simpa using h w (by simp [Expression.inputVars]) q hq
    simp [substSim, this]
  | Const b x => intro _; rfl
  | Unknown d s => intro _; rfl
  | BinOp op l r ihl ihr =>
    intro h
    simp only [substSim]
    rw [ihl (fun u hu => h u (by simp [Expression.inputVars, hu])),
      ihr (fun u hu => h u (by simp [Expression.inputVars, hu]))]
  | UnOp op a ih => intro h; simp only [substSim]; rw [ih (fun u hu => h u (by simpa [Expression.inputVars] using hu))]
  | Cast op s a ih => intro h; simp only [substSim]; rw [ih (fun u hu => h u (by simpa [Expression.inputVars] using hu))]
  | Subpiece lb s a ih => intro h; simp only [substSim]; rw [ih (fun u hu => h u (by simpa [Expression.inputVars] using hu))]

theorem substSim_substVar (S : List (Variable × Expression)) (v : Variable) (r : Expression)
    (hr : substSim S r = r) : ∀ e : Expression, substSim S (e.substVar v r) = substSim ((v, r) :: S) e := by
  intro e
  induction e with
  | Var w =>
    by_cases h : w = v
    · subst h; simp [Expression.substVar, substSim, hr]
    · have hne : ((v, r).1 == w) = false := by simp; exact fun e => h e.symm
      simp [Expression.substVar, h, substSim, List.find?_cons, hne]
  | Const b x => rfl
  | Unknown d s => rfl
  | BinOp op l r ihl ihr => simp [Expression.substVar, substSim, ihl, ihr]
  | UnOp op a ih => simp [Expression.substVar, substSim, ih]
  | Cast op s a ih => simp [Expression.substVar, substSim, ih]
  | Subpiece lb s a ih => simp [Expression.substVar, substSim, ih]

/-- no key of the list occurs in a replacement expression of the list -/
def KeysFresh (S : List (Variable × Expression)) : Prop :=
  ∀ p ∈ S, ∀ u ∈ p.2.inputVars, ∀ q ∈ S, q.1 ≠ u

theorem foldl_substVar (S : List (Variable × Expression)) (hS : KeysFresh S) :
    ∀ e : Expression, S.foldl (fun acc p => acc.substVar p.1 p.2) e = substSim S e := by
  induction S with
  | nil =>
    intro e
    simp only [List.foldl_nil]
    exact (substSim_id [] e (by simp)).symm
  | cons p S ih =>
    intro e
    have hS' : KeysFresh S := fun a ha u hu q hq => hS a (by simp [ha]) u hu q (by simp [hq])
    simp only [List.foldl_cons]
    rw [ih hS', substSim_substVar]
    apply substSim_id
    intro u hu q hq
    exact hS p (by simp) u hu q (by simp [hq])

theorem foldl_option (pairs : List (Option (Variable × Expression))) :
    ∀ e : Expression, pairs.foldl substStep e
      = (pairs.filterMap id).foldl (fun acc p => acc.substVar p.1 p.2) e := by
  induction pairs with
  | nil => intro e; rfl
  | cons p ps ih =>
    intro e
    cases p with
    | none => simp [ih, substStep]
    | some q => obtain ⟨v, r⟩ := q; simp [ih, substStep]

theorem mapOpt_some {α β} (f : α → Option β) :
    ∀ (l : List α) (ys : List β), mapOpt f l = some ys →
      (∀ a ∈ l, ∃ y ∈ ys, f a = some y) ∧ (∀ y ∈ ys, ∃ a ∈ l, f a = some y) := by
  intro l
  induction l with
  | nil => intro ys h; simp [mapOpt] at h; subst h; simp
  | cons a l ih =>
    intro ys h
    simp only [mapOpt, Option.bind_eq_bind] at h
    cases ha : f a with
    | none => simp [ha] at h
    | some b =>
      cases hl : mapOpt f l with
      | none => simp [ha, hl] at h
      | some bs =>
        simp [ha, hl] at h
        subst h
        obtain ⟨h1, h2⟩ := ih bs hl
        constructor
        · intro x hx
          rcases List.mem_cons.mp hx with rfl | hx
          · exact ⟨b, by simp, ha⟩
          · obtain ⟨y, hy, hfy⟩ := h1 x hx; exact ⟨y, by simp [hy], hfy⟩
        · intro y hy
          rcases List.mem_cons.mp hy with rfl | hy
          · exact ⟨a, by simp, ha⟩
          · obtain ⟨x, hx, hfx⟩ := h2 y hy; exact ⟨x, by simp [hx], hfx⟩

theorem mapOpt_isSome {α β} (f : α → Option β) :
    ∀ (l : List α), (∀ a ∈ l, (f a).isSome) → ∃ ys, mapOpt f l = some ys := by
  intro l
  induction l with
  | nil => intro _; exact ⟨[], rfl⟩
  | cons a l ih =>
    intro h
    obtain ⟨ys, hys⟩ := ih (fun x hx => h x (by simp [hx]))
    have ha := h a (by simp)
    cases hfa : f a with
    | none => simp [hfa] at ha
    | some b => exact ⟨b :: ys, by simp [mapOpt, hfa, hys]⟩

theorem replacementFor_key {tbl : RegTable} {v k : Variable} {r : Expression}
    (h : replacementFor tbl v = some (some (k, r))) : k = v := by
  unfold replacementFor at h
  cases hr : regGet tbl v.name with
  | none => simp [hr] at h
  | some rr =>
    simp only [hr] at h
    split at h
    · cases hc : createSubpiece tbl rr.baseRegister v.size rr.lsb with
      | none => simp [hc] at h
      | some c => simp [hc] at h; exact h.1.symm
    · simp at h

/-- the base register variable inside a replacement is itself never replaced -/
theorem replacement_base_fixed {tbl : RegTable} (ht : tableOk tbl = true) {v k : Variable} {r : Expression}
    (h : replacementFor tbl v = some (some (k, r))) : ∀ u ∈ r.inputVars, replacementFor tbl u = some none := by
  unfold replacementFor at h
  cases hr : regGet tbl v.name with
  | none => simp [hr] at h
  | some rr =>
    obtain ⟨b, hb⟩ := tableOk_get ht hr
    simp only [hr] at h
    split at h
    · simp only [createSubpiece, hb.base, Option.bind_eq_bind, Option.bind_some, Option.some.injEq,
        Prod.mk.injEq] at h
      obtain ⟨_, rfl⟩ := h
      intro u hu
      simp only [Expression.inputVars, List.mem_singleton] at hu
      subst hu
      have hbn := regGet_name hb.base
      have : ((rr.baseRegister != b.baseRegister) || decide (b.size < b.size)) = false := by
        simp [hb.base_self, hbn]
      simp only [replacementFor, hb.base, this, Bool.false_eq_true, if_false]
    · simp at h

theorem substAll_vars_some {tbl : RegTable} :
    ∀ (e : Expression) {e' : Expression}, substAll tbl e = some e' →
      ∀ v ∈ e.inputVars, (replacementFor tbl v).isSome := by
  intro e
  induction e with
  | Var w =>
    intro e' h v hv
    simp only [Expression.inputVars, List.mem_singleton] at hv
    subst hv
    simp only [substAll] at h
    cases hr : replacementFor tbl v with
    | none => simp [hr] at h
    | some o => simp
  | Const b x => intro _ _ v hv; simp [Expression.inputVars] at hv
  | Unknown d s => intro _ _ v hv; simp [Expression.inputVars] at hv
  | BinOp op l r ihl ihr =>
    intro e' h v hv
    simp only [substAll, Option.bind_eq_bind] at h
    cases hl : substAll tbl l with
    | none => simp [hl] at h
    | some l' =>
      cases hr : substAll tbl r with
      | none => simp [hl, hr] at h
      | some r' =>
        simp only [Expression.inputVars, List.mem_append] at hv
        rcases hv with hv | hv
        · exact ihl hl v hv
        · exact ihr hr v hv
  | UnOp op a ih =>
    intro e' h v hv
    simp only [substAll, Option.bind_eq_bind] at h
    cases ha : substAll tbl a with
    | none => simp [ha] at h
    | some a' => exact ih ha v (by simpa [Expression.inputVars] using hv)
  | Cast op s a ih =>
    intro e' h v hv
    simp only [substAll, Option.bind_eq_bind] at h
    cases ha : substAll tbl a with
    | none => simp [ha] at h
    | some a' => exact ih ha v (by simpa [Expression.inputVars] using hv)
  | Subpiece lb s a ih =>
    intro e' h v hv
    simp only [substAll, Option.bind_eq_bind] at h
    cases ha : substAll tbl a with
    | none => simp [ha] at h
    | some a' => exact ih ha v (by simpa [Expression.inputVars] using hv)

/-- with an association list that agrees with `replacementFor` on the variables of `e`, simultaneous
substitution is `substAll` -/
theorem substSim_eq_substAll {tbl : RegTable} (S : List (Variable × Expression))
    (hS : ∀ p ∈ S, replacementFor tbl p.1 = some (some p)) :
    ∀ (e : Expression) {e' : Expression},
      (∀ v ∈ e.inputVars, ∀ p, replacementFor tbl v = some (some p) → p ∈ S) →
      substAll tbl e = some e' → substSim S e = e' := by
  intro e
  induction e with
  | Var w =>
    intro e' hcov h
    simp only [substAll] at h
    simp only [substSim]
    cases hr : replacementFor tbl w with
    | none => simp [hr] at h
    | some o =>
      cases o with
      | none =>
        simp only [hr, Option.some.injEq] at h
        have : S.find? (fun p => p.1 == w) = none := by
          rw [List.find?_eq_none]
          intro q hq hqw
          simp only [beq_iff_eq] at hqw
          have := hS q hq
          rw [hqw, hr] at this
          simp at this
        simp [this, h]
      | some p =>
        simp only [hr, Option.some.injEq] at h
        have hp := hcov w (by simp [Expression.inputVars]) p hr
        have hk := replacementFor_key hr
        cases hf : S.find? (fun q => q.1 == w) with
        | none =>
          rw [List.find?_eq_none] at hf
          exact absurd (by simpa using hk) (hf p hp)
        | some q =>
          have hq := List.find?_some hf
          simp only [beq_iff_eq] at hq
          have := hS q (List.mem_of_find?_eq_some hf)
          rw [hq, hr] at this
          simp only [Option.some.injEq] at this
          simp [← this, h]
  | Const b x => intro e' _ h; simpa [substAll, substSim] using h
  | Unknown d s => intro e' _ h; simpa [substAll, substSim] using h
  | BinOp op l r ihl ihr =>
    intro e' hcov h
    simp only [substAll, Option.bind_eq_bind] at h
    cases hl : substAll tbl l with
    | none => simp [hl] at h
    | some l' =>
      cases hr : substAll tbl r with
      | none => simp [hl, hr] at h
      | some r' =>
        simp [hl, hr] at h
        subst h
        simp only [substSim]
        rw [ihl (fun v hv => hcov v (by simp [Expression.inputVars, hv])) hl,
          ihr (fun v hv => hcov v (by simp [Expression.inputVars, hv])) hr]
  | UnOp op a ih =>
    intro e' hcov h
    simp only [substAll, Option.bind_eq_bind] at h
    cases ha : substAll tbl a with
    | none => simp [ha] at h
    | some a' =>
      simp [ha] at h; subst h
      simp only [substSim]
      rw [ih (fun v hv => hcov v (by simpa [Expression.inputVars] using hv)) ha]
  | Cast op s a ih =>
    intro e' hcov h
    simp only [substAll, Option.bind_eq_bind] at h
    cases ha : substAll tbl a with
    | none => simp [ha] at h
    | some a' =>
      simp [ha] at h; subst h
      simp only [substSim]
      rw [ih (fun v hv => hcov v (by simpa [Expression.inputVars] using hv)) ha]
  | Subpiece lb s a ih =>
    intro e' hcov h
    simp only [substAll, Option.bind_eq_bind] at h
    cases ha : substAll tbl a with
    | none => simp [ha] at h
    | some a' =>
      simp [ha] at h; subst h
      simp only [substSim]
      rw [ih (fun v hv => hcov v (by simpa [Expression.inputVars] using hv)) ha]

/-- **C11-substitution.** `replace_input_subregister` (collect the replacement pairs of all input
variables, then substitute them one after the other) computes the simultaneous replacement `substAll`:
a replacement only mentions a base register, and base registers are never replaced. -/
theorem replaceInputSubregister_eq {tbl : RegTable} (ht : tableOk tbl = true) (e : Expression) {e' : Expression}
    (h : substAll tbl e = some e') : replaceInputSubregister tbl e = some e' := by
  obtain ⟨pairs, hp⟩ := mapOpt_isSome (replacementFor tbl) e.inputVars (substAll_vars_some e h)
  obtain ⟨h1, h2⟩ := mapOpt_some _ _ _ hp
  simp only [replaceInputSubregister, hp, Option.bind_eq_bind, Option.bind_some, Option.some.injEq]
  rw [foldl_option]
  have hS : ∀ p ∈ pairs.filterMap id, replacementFor tbl p.1 = some (some p) := by
    intro p hp'
    simp only [List.mem_filterMap, id_eq, exists_eq_right] at hp'
    obtain ⟨a, _, hfa⟩ := h2 (some p) hp'
    have := replacementFor_key (k := p.1) (r := p.2) (v := a) (by simpa using hfa)
    rw [this]; exact hfa
  rw [foldl_substVar]
  · apply substSim_eq_substAll _ hS e _ h
    intro v hv p hvp
    obtain ⟨y, hy, hfy⟩ := h1 v hv
    rw [hvp] at hfy
    simp only [Option.some.injEq] at hfy
    subst hfy
    simp [List.mem_filterMap, hy]
  · intro p hp' u hu q hq hqu
    have hp1 := hS p hp'
    have hq1 := hS q hq
    have := replacement_base_fixed ht (v := p.1) (k := p.1) (r := p.2) hp1 u hu
    rw [← hqu, hq1] at this
    simp at this

end CweModel.C11
