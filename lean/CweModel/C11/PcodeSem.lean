/-
C11 — REFERENCE semantics of a P-Code block (the SPECIFICATION; trusted, DESIGN.md section 4).

Written from the P-Code reference manual, independently of the lifting code:

* register varnodes live in a BYTE-addressed register file: the register table gives every register
  `(name, base_register, lsb, size)`; a varnode `(name, size)` denotes the bytes `[lsb, lsb+size)` of the
  base register (a varnode may be smaller than the register the extractor named it after — Ghidra names a
  varnode after the smallest register containing it). Reading extracts those bytes, writing replaces them
  and leaves every other byte of the base register unchanged. Registers unknown to the table are independent.
* temporaries (`is_virtual`) are independent variables identified by name and size;
* constant varnodes denote their hex value truncated to the varnode size;
* RAM varnodes (`address`) are IMPLICIT memory accesses of `size` bytes at the constant address:
  as an input a load, as an output a store;
* the operation semantics is `CweModel.Ref` (Base/Bv.lean); the meaning of each mnemonic is the
  hand-written table `opKind` below (e.g. INT_SRIGHT = arithmetic shift right). The table used by the
  lifting code is extracted from the Rust source and PROVED equal to this one (`Props.lean`).

The register file is represented by a `Sem.State` (Base/IRSem.lean) that holds BASE registers and
temporaries only, so that a P-Code state and the state of the lifted IR can be compared directly.
Observables are those of `Sem`: load/store events (address, size, value) in program order and the jump
decision with a snapshot of all base registers and of memory.

Core-only.
-/
import CweModel.Base.IRSem
import CweModel.C11.PcodeSyntax

namespace CweModel.C11
open CweModel CweModel.IR CweModel.Sem CweModel.Gen.PcodeOps

/-! ### bytes of a register -/

/-- the bytes `[lsb, lsb+size)` of `b` -/
def extractBytes (b : Bv) (lsb size : Nat) : Bv := Bv.ofBytes size (b.toNat / 2 ^ (8 * lsb))

/-- `b` with the bytes `[lsb, lsb+size)` replaced by (the low `size` bytes of) `x` -/
def replaceBytes (b : Bv) (lsb size : Nat) (x : Nat) : Bv :=
  Bv.ofNat b.w (b.toNat % 2 ^ (8 * lsb) + (x % 2 ^ (8 * size)) * 2 ^ (8 * lsb)
    + (b.toNat / 2 ^ (8 * (lsb + size))) * 2 ^ (8 * (lsb + size)))

/-! ### the register table -/

abbrev RegTable := List Pcode.RegisterProperties

/-- lookup by name; for a (malformed) table with duplicate names the LAST entry counts, like the
`HashMap` the lifting code collects the table into -/
def regGet (tbl : RegTable) (name : String) : Option Pcode.RegisterProperties :=
  tbl.reverse.find? (fun r => r.register == name)

/-- where a varnode lives: bytes `[lsb, lsb+size)` of the register variable `base` -/
structure Loc where
  base : Variable
  lsb : Nat
  size : Nat
deriving Repr, DecidableEq

/-- location of the register varnode `(name, size)` -/
def regLoc (tbl : RegTable) (name : String) (size : Nat) : Option Loc :=
  match regGet tbl name with
  | none => some ⟨⟨name, size, false⟩, 0, size⟩
  | some r =>
    match regGet tbl r.baseRegister with
    | none => none
    | some b => if r.lsb + size ≤ b.size then some ⟨⟨b.register, b.size, false⟩, r.lsb, size⟩ else none

def readLoc (σ : State) (l : Loc) : Bv := extractBytes (σ.getReg l.base) l.lsb l.size

def writeLoc (σ : State) (l : Loc) (x : Bv) : State :=
  σ.setReg l.base (replaceBytes (σ.getReg l.base) l.lsb l.size x.toNat)

/-! ### varnodes -/

/-- value of a hex string (`_` separators are skipped, as `apint::from_str_radix` does); `none` if empty,
starting/ending with `_`, or containing a non-hex character -/
def parseHex (s : String) : Option Nat :=
  let cs := s.toList
  if cs.isEmpty || cs.head? == some '_' || cs.getLast? == some '_' then none
  else cs.foldl (fun acc c =>
    match acc with
    | none => none
    | some n => if c == '_' then some n else match Proto.hexDigit c with
      | some d => some (16 * n + d)
      | none => none) (some 0)

inductive VarKind where
  | reg (name : String)
  | tmp (name : String)
  | const (val : Nat)
  | ram (addr : Nat)
  | bad
deriving Repr, DecidableEq

def Pcode.Var.kind (v : Pcode.Var) : VarKind :=
  match v.name, v.value, v.address with
  | some n, none, none => if v.isVirtual then .tmp n else .reg n
  | none, some h, none => match parseHex h with | some x => .const x | none => .bad
  | none, none, some h => match parseHex h with | some x => .ram x | none => .bad
  | _, _, _ => .bad

/-- read a varnode: value and the implicit load it performs -/
def readVar (tbl : RegTable) (σ : State) (v : Pcode.Var) : Option (Bv × List Event) :=
  match v.kind with
  | .reg n => do let l ← regLoc tbl n v.size; some (readLoc σ l, [])
  | .tmp n => some (σ.getReg ⟨n, v.size, true⟩, [])
  | .const x => some (Bv.ofBytes v.size x, [])
  | .ram a =>
    let addr := σ.wrapAddr a
    let val := σ.readMem addr v.size
    some (Bv.ofBytes v.size val, [.load addr v.size val])
  | .bad => none

/-- write a varnode (the value must have exactly the varnode's size) -/
def writeVar (tbl : RegTable) (σ : State) (v : Pcode.Var) (x : Bv) : Option (State × List Event) :=
  if x.w != 8 * v.size then none else
  match v.kind with
  | .reg n => do let l ← regLoc tbl n v.size; some (writeLoc σ l x, [])
  | .tmp n => some (σ.setReg ⟨n, v.size, true⟩ x, [])
  | .ram a =>
    let addr := σ.wrapAddr a
    some (σ.writeMem addr v.size x.toNat, [.store addr v.size x.toNat])
  | .const _ => none
  | .bad => none

/-! ### operations -/

/-- what a mnemonic means (P-Code reference manual) -/
inductive OpKind where
  | copy | load | store | subpiece
  | bin (op : BinOpType)
  | un (op : UnOpType)
  | cast (op : CastOpType)
deriving Repr, DecidableEq

def opKind : ExpressionType → OpKind
  | .COPY => .copy
  | .LOAD => .load
  | .STORE => .store
  | .PIECE => .bin .Piece
  | .SUBPIECE => .subpiece
  | .POPCOUNT => .cast .PopCount
  | .LZCOUNT => .cast .LzCount
  | .INT_EQUAL => .bin .IntEqual
  | .INT_NOTEQUAL => .bin .IntNotEqual
  | .INT_LESS => .bin .IntLess
  | .INT_SLESS => .bin .IntSLess
  | .INT_LESSEQUAL => .bin .IntLessEqual
  | .INT_SLESSEQUAL => .bin .IntSLessEqual
  | .INT_ADD => .bin .IntAdd
  | .INT_SUB => .bin .IntSub
  | .INT_CARRY => .bin .IntCarry
  | .INT_SCARRY => .bin .IntSCarry
  | .INT_SBORROW => .bin .IntSBorrow
  | .INT_XOR => .bin .IntXOr
  | .INT_AND => .bin .IntAnd
  | .INT_OR => .bin .IntOr
  | .INT_LEFT => .bin .IntLeft
  | .INT_RIGHT => .bin .IntRight
  | .INT_SRIGHT => .bin .IntSRight
  | .INT_MULT => .bin .IntMult
  | .INT_DIV => .bin .IntDiv
  | .INT_REM => .bin .IntRem
  | .INT_SDIV => .bin .IntSDiv
  | .INT_SREM => .bin .IntSRem
  | .BOOL_XOR => .bin .BoolXOr
  | .BOOL_AND => .bin .BoolAnd
  | .BOOL_OR => .bin .BoolOr
  | .FLOAT_EQUAL => .bin .FloatEqual
  | .FLOAT_NOTEQUAL => .bin .FloatNotEqual
  | .FLOAT_LESS => .bin .FloatLess
  | .FLOAT_LESSEQUAL => .bin .FloatLessEqual
  | .FLOAT_ADD => .bin .FloatAdd
  | .FLOAT_SUB => .bin .FloatSub
  | .FLOAT_MULT => .bin .FloatMult
  | .FLOAT_DIV => .bin .FloatDiv
  | .INT_NEGATE => .un .IntNegate
  | .INT_2COMP => .un .Int2Comp
  | .BOOL_NEGATE => .un .BoolNegate
  | .FLOAT_NEG => .un .FloatNegate
  | .FLOAT_ABS => .un .FloatAbs
  | .FLOAT_SQRT => .un .FloatSqrt
  | .FLOAT_CEIL => .un .FloatCeil
  | .FLOAT_FLOOR => .un .FloatFloor
  | .FLOAT_ROUND => .un .FloatRound
  | .FLOAT_NAN => .un .FloatNaN
  | .INT_ZEXT => .cast .IntZExt
  | .INT_SEXT => .cast .IntSExt
  | .INT2FLOAT => .cast .Int2Float
  | .FLOAT2FLOAT => .cast .Float2Float
  | .TRUNC => .cast .Trunc

/-- the byte offset operand of SUBPIECE must be a constant varnode -/
def constOperand (v : Pcode.Var) : Option Nat :=
  match v.kind with
  | .const x => some (x % 2 ^ (8 * v.size))
  | _ => none

/-- value and implicit load of an optional operand -/
def readOpt (tbl : RegTable) (σ : State) : Option Pcode.Var → Option (Option Bv × List Event)
  | none => some (none, [])
  | some v => do
    let (x, e) ← readVar tbl σ v
    some (some x, e)

/-- the effect of an instruction once its operand values are known -/
inductive Action where
  | write (out : Pcode.Var) (x : Bv)
  | load (out : Pcode.Var) (addr : Bv)
  | store (addr : Bv) (x : Bv)

/-- the pure part of an instruction: from the operand values to its effect; `none` = the reference
semantics does not define the instruction (float operation, division by zero, operand sizes outside the
operation's domain, missing operand) -/
def compute (d : Pcode.Def) (a₀ a₁ a₂ : Option Bv) : Option Action :=
  match opKind d.rhs.mnemonic with
  | .load => do some (.load (← d.lhs) (← a₁))
  | .store => do some (.store (← a₁) (← a₂))
  | .copy => do some (.write (← d.lhs) (← a₀))
  | .subpiece => do
    let out ← d.lhs
    let low ← constOperand (← d.rhs.input1)
    some (.write out (← resToOpt (Ref.subpieceOp low out.size (← a₀))))
  | .bin op => do
    let out ← d.lhs
    some (.write out (← resToOpt (Ref.binOp op (← a₀) (← a₁))))
  | .un op => do
    let out ← d.lhs
    some (.write out (← resToOpt (Ref.unOp op (← a₀))))
  | .cast op => do
    let out ← d.lhs
    some (.write out (← resToOpt (Ref.cast op out.size (← a₀))))

def perform (tbl : RegTable) (σ : State) : Action → Option (State × List Event)
  | .write out x => writeVar tbl σ out x
  | .load out addr => do
    let val := σ.readMem addr.toNat out.size
    let (σ', e) ← writeVar tbl σ out (Bv.ofBytes out.size val)
    some (σ', .load addr.toNat out.size val :: e)
  | .store addr x => some (σ.writeMem addr.toNat x.bytes x.toNat, [.store addr.toNat x.bytes x.toNat])

/-- one P-Code instruction with an output or a memory effect (everything but the branch instructions):
read the operands in order (RAM operands are implicit loads), compute, perform the effect -/
def execDef (tbl : RegTable) (σ : State) (d : Pcode.Def) : Option (State × List Event) := do
  let (a₀, e₀) ← readOpt tbl σ d.rhs.input0
  let (a₁, e₁) ← readOpt tbl σ d.rhs.input1
  let (a₂, e₂) ← readOpt tbl σ d.rhs.input2
  let act ← compute d a₀ a₁ a₂
  let (σ', e) ← perform tbl σ act
  some (σ', e₀ ++ e₁ ++ e₂ ++ e)

def execDefs (tbl : RegTable) (σ : State) : List (Term Pcode.Def) → Option (State × List Event)
  | [] => some (σ, [])
  | d :: ds => do
    let (σ₁, e₁) ← execDef tbl σ d.term
    let (σ₂, e₂) ← execDefs tbl σ₁ ds
    some (σ₂, e₁ ++ e₂)

/-! ### branch instructions -/

def Pcode.Label.direct? : Pcode.Label → Option Tid
  | .Direct t => some t
  | .Indirect _ => none

def Pcode.Label.indirect? : Pcode.Label → Option Pcode.Var
  | .Direct _ => none
  | .Indirect v => some v

/-- the return target of a call: absent, or a direct label -/
def callReturn (c : Pcode.Call) : Option (Option Tid) :=
  match c.ret with
  | none => some none
  | some l => do let t ← l.direct?; some (some t)

/-- the branch instructions at the end of a block, in order (a CBRANCH that is not taken falls through to
the next one). Same observables as `Sem.execJmps`. `none` = undefined (malformed jump). -/
def execJmps (tbl : RegTable) (env : Env) (σ : State) (calls : Nat) :
    List (Term Pcode.Jmp) → Option (List Event × Next)
  | [] => some ([.deadEnd (σ.snapshot env.physRegs)], .stop)
  | j :: rest =>
    let afterCall (ev : Event) (r : Option Tid) : List Event × Next :=
      match r with
      | none => ([ev, .deadEnd (σ.snapshot env.physRegs)], .stop)
      | some rt => ([ev], .goto rt (havoc σ env.physRegs env.sp j.tid.id calls) (calls + 1))
    match j.term.mnemonic with
    | .BRANCH => do
      let t ← (← j.term.goto).direct?
      some ([], .goto t σ calls)
    | .CBRANCH => do
      let t ← (← j.term.goto).direct?
      let (c, e) ← readVar tbl σ (← j.term.condition)
      if c.toNat != 0 then some (e, .goto t σ calls)
      else do
        let (e', n) ← execJmps tbl env σ calls rest
        some (e ++ e', n)
    | .BRANCHIND => do
      let (v, e) ← readVar tbl σ (← (← j.term.goto).indirect?)
      some (e ++ [.jumpInd j.tid.id v.toNat (σ.snapshot env.physRegs)], .stop)
    | .CALL => do
      let c ← j.term.call
      let t ← (← c.target).direct?
      let r ← callReturn c
      some (afterCall (.call j.tid.id t.id (σ.snapshot env.physRegs)) r)
    | .CALLIND => do
      let c ← j.term.call
      let (v, e) ← readVar tbl σ (← (← c.target).indirect?)
      let r ← callReturn c
      let (e', n) := afterCall (.callInd j.tid.id v.toNat (σ.snapshot env.physRegs)) r
      some (e ++ e', n)
    | .CALLOTHER => do
      let c ← j.term.call
      let r ← callReturn c
      some (afterCall (.callOther j.tid.id (← c.callString) (σ.snapshot env.physRegs)) r)
    | .RETURN => do
      let (v, e) ← readVar tbl σ (← (← j.term.goto).indirect?)
      some (e ++ [.ret v.toNat (σ.snapshot env.physRegs)], .stop)

/-- the observable effect of one block: events of the instructions, the state after them, events and
decision of the branch instructions -/
structure BlkEffect where
  events : List Event
  after : State
  jmpEvents : List Event
  next : Next

def execBlk (tbl : RegTable) (env : Env) (σ : State) (b : Pcode.Blk) (calls : Nat := 0) : Option BlkEffect := do
  let (σ₁, e₁) ← execDefs tbl σ b.defs
  let (e₂, n) ← execJmps tbl env σ₁ calls b.jmps
  some ⟨e₁, σ₁, e₂, n⟩

/-- run the blocks of a function (same shape as `Sem.runBlocks`): `fuel` bounds the number of executed
blocks; a jump to a block that is not in the list ends the trace with the same `stuck` event as in `Sem`;
`none` = the reference semantics does not define some executed instruction or jump -/
def runBlocks (tbl : RegTable) (env : Env) (blocks : List (Term Pcode.Blk)) :
    Nat → Tid → State → Nat → Option (List Event)
  | 0, _, _, _ => some [.outOfFuel]
  | fuel + 1, cur, σ, calls =>
    match blocks.find? (fun b => b.tid == cur) with
    | none => some [.stuck s!"no block {cur.id}"]
    | some b => do
      let (σ₁, evs) ← execDefs tbl σ b.term.defs
      let (evs₂, n) ← execJmps tbl env σ₁ calls b.term.jmps
      match n with
      | .stop => some (evs ++ evs₂)
      | .goto t σ₂ calls₂ => do
        let rest ← runBlocks tbl env blocks fuel t σ₂ calls₂
        some (evs ++ evs₂ ++ rest)

/-- trace of a function whose entry block is the first of `blocks` (as `Sem.runSub`) -/
def runSub (tbl : RegTable) (env : Env) (blocks : List (Term Pcode.Blk)) (σ : State) (fuel : Nat) :
    Option (List Event) :=
  match blocks with
  | [] => some [.deadEnd (σ.snapshot env.physRegs)]
  | b :: _ => runBlocks tbl env blocks fuel b.tid σ 0

/-- the base registers of the table as IR variables (the physical registers of the lifted program) -/
def baseRegs (tbl : RegTable) : List Variable :=
  (tbl.filter (fun r => r.register == r.baseRegister)).map (fun r => ⟨r.register, r.size, false⟩)

end CweModel.C11

/-! ### what the extractor can emit (the domain of the property; hypotheses of the theorems) -/
namespace CweModel.C11
open CweModel CweModel.IR CweModel.Sem CweModel.Gen.PcodeOps

/-- names of the temporaries the lifting introduces (`$load_temp<i>` for the three inputs of an
instruction resp. for jump number `i` of a block, `loaded_value` for loads into sub-registers);
Ghidra's own temporaries are called `$U<offset>` -/
def liftTempNames : List String := ["loaded_value", "$load_temp0", "$load_temp1", "$load_temp2"]

/-- the register table is consistent: unique names, positive sizes, every base register is listed, is its
own base at lsb 0, and contains its sub-registers, which are strictly smaller (no second name for a whole
base register); no register is called like a temporary of the lifting -/
def tableOk (tbl : RegTable) : Bool :=
  (tbl.map (·.register)).eraseDups.length == tbl.length &&
  liftTempNames.all (fun n => (regGet tbl n).isNone) &&
  tbl.all (fun r =>
    decide (0 < r.size) &&
    match regGet tbl r.baseRegister with
    | none => false
    | some b => b.baseRegister == b.register && b.lsb == 0 && decide (r.lsb + r.size ≤ b.size) &&
                (if r.register == r.baseRegister then r.lsb == 0 && r.size == b.size else decide (r.size < b.size)))

/-- a varnode as the extractor writes it: exactly one of name / value / address, a parsable hex string,
positive size, no name of a lifting temporary, a register varnode is not larger than the register it is
named after (Ghidra names a varnode after the smallest register that contains it) -/
def varOk (tbl : RegTable) (v : Pcode.Var) : Bool :=
  decide (0 < v.size) &&
  match v.kind with
  | .bad => false
  | .reg n => !liftTempNames.contains n && (regLoc tbl n v.size).isSome &&
              (match regGet tbl n with | some r => decide (v.size ≤ r.size) | none => true)
  | .tmp n => !liftTempNames.contains n && (regGet tbl n).isNone
  | .const _ => true
  | .ram _ => true

def Pcode.Var.isRam (v : Pcode.Var) : Bool := match v.kind with | .ram _ => true | _ => false
def Pcode.Var.isConst (v : Pcode.Var) : Bool := match v.kind with | .const _ => true | _ => false

def optVarOk (tbl : RegTable) (v : Option Pcode.Var) : Bool :=
  match v with
  | some v => varOk tbl v
  | none => false

/-- an absent operand, or a well formed one -/
def optVarOk? (tbl : RegTable) (v : Option Pcode.Var) : Bool :=
  match v with
  | some v => varOk tbl v
  | none => true

/-- `u64::from_str_radix(s, 16)`: hex digits only, fits 64 bits (a leading `+` is not modelled) -/
def parseHexU64 (s : String) : Option Nat :=
  if s.toList.any (· == '_') then none else
  match parseHex s with
  | some x => if x < 2 ^ 64 then some x else none
  | none => none

/-- the byte offset of a SUBPIECE is a plain hex number that fits its (at most 8 byte) varnode, so that the
value Rust reads with `u64::from_str_radix` is the value of the varnode -/
def subpieceOffsetOk (c : Pcode.Var) : Bool :=
  decide (c.size ≤ 8) && (constOperand c).isSome &&
  (match c.value with | some h => parseHexU64 h == constOperand c | none => false)

/-- an instruction as the extractor writes it: all operands are well formed, the operands the mnemonic
needs are present; the output of a LOAD is a register or temporary; the offset of SUBPIECE is a constant -/
def defOk (tbl : RegTable) (d : Pcode.Def) : Bool :=
  optVarOk? tbl d.rhs.input0 && optVarOk? tbl d.rhs.input1 && optVarOk? tbl d.rhs.input2 &&
  match opKind d.rhs.mnemonic with
  | .load => (match d.lhs with | some o => varOk tbl o && !o.isRam | none => false) && d.rhs.input1.isSome
  | .store => d.rhs.input1.isSome && d.rhs.input2.isSome
  | k =>
    (match d.lhs with | some o => varOk tbl o | none => false) && d.rhs.input0.isSome &&
    (match k with
     | .bin _ => d.rhs.input1.isSome
     | .subpiece => (match d.rhs.input1 with | some c => subpieceOffsetOk c | none => false)
     | _ => true)

def jmpOk (tbl : RegTable) (j : Pcode.Jmp) : Bool :=
  match j.mnemonic with
  | .BRANCH => (match j.goto with | some (.Direct _) => true | _ => false)
  | .CBRANCH => (match j.goto with | some (.Direct _) => true | _ => false) &&
                (match j.condition with | some c => varOk tbl c && !c.isRam | none => false)
  | .BRANCHIND => (match j.goto with | some (.Indirect v) => varOk tbl v | _ => false)
  | .RETURN => (match j.goto with | some (.Indirect v) => varOk tbl v && !v.isRam | _ => false)
  | .CALL => (match j.call with
              | some c => (match c.target with | some (.Direct _) => true | _ => false) && (callReturn c).isSome
              | none => false)
  | .CALLIND => (match j.call with
              | some c => (match c.target with | some (.Indirect v) => varOk tbl v | _ => false) && (callReturn c).isSome
              | none => false)
  | .CALLOTHER => (match j.call with
              | some c => c.callString.isSome && (callReturn c).isSome
              | none => false)

/-- the plugin ends a block with no jump, one jump, or the pair CBRANCH + fall-through BRANCH -/
def jmpsShapeOk (js : List (Term Pcode.Jmp)) : Bool :=
  match js with
  | [] => true
  | [j] => decide (j.term.mnemonic ≠ .CBRANCH)
  | [c, b] => decide (c.term.mnemonic = .CBRANCH) && decide (b.term.mnemonic = .BRANCH)
  | _ => false

def blkOk (tbl : RegTable) (b : Pcode.Blk) : Bool :=
  b.defs.all (fun d => defOk tbl d.term) && b.jmps.all (fun j => jmpOk tbl j.term) && jmpsShapeOk b.jmps

/-- a function whose entry block is among its blocks (others are emptied by `normalize`) -/
def subHasEntry (s : Term Pcode.Sub) : Bool :=
  s.term.blocks.isEmpty || s.term.blocks.any (fun b => b.tid.address == s.tid.address)

def projectOk (p : Pcode.Project) : Bool :=
  tableOk p.registerProperties && decide (0 < p.pointerSize) &&
  p.program.subs.all (fun s => s.term.blocks.all (fun b => blkOk p.registerProperties b.term))

end CweModel.C11
