/-
C11 — whole functions: the per-block theorem chained over the blocks of a function
(runBlocks_sim, liftSub_sim): P-Code execution is insensitive to lifting temporaries, block lookup by
term identifier, induction on the fuel; liftProject_subs ties the functions of the lifted program to
liftBlocks.
-/
import CweModel.C11.Props
set_option linter.unusedSimpArgs false
set_option linter.unusedVariables false
namespace CweModel.C11
open CweModel CweModel.IR CweModel.Sem CweModel.Gen.PcodeOps CweModel.C11.Lift

variable {T : Variable → Prop}

/-! ### P-Code execution only depends on the registers the code mentions -/

def DefAvoids (T : Variable → Prop) (d : Pcode.Def) : Prop :=
  OptAvoids T d.rhs.input0 ∧ OptAvoids T d.rhs.input1 ∧ OptAvoids T d.rhs.input2

theorem execDef_congr (hT : ∀ u, T u → u.isTemp = true) {tbl : RegTable} {σ ρ : State} (h : Agree T σ ρ)
    {d : Pcode.Def} (hd : DefAvoids T d) {σ' : State} {ev : List Event} (hx : execDef tbl σ d = some (σ', ev)) :
    ∃ ρ', execDef tbl ρ d = some (ρ', ev) ∧ Agree T σ' ρ' := by
  simp only [execDef, Option.bind_eq_bind] at hx ⊢
  rw [← readOpt_congr hT h hd.1, ← readOpt_congr hT h hd.2.1, ← readOpt_congr hT h hd.2.2]
  cases hr₀ : readOpt tbl σ d.rhs.input0 with
  | none => simp [hr₀] at hx
  | some q₀ =>
  cases hr₁ : readOpt tbl σ d.rhs.input1 with
  | none => simp [hr₀, hr₁] at hx
  | some q₁ =>
  cases hr₂ : readOpt tbl σ d.rhs.input2 with
  | none => simp [hr₀, hr₁, hr₂] at hx
  | some q₂ =>
  cases hc : compute d q₀.1 q₁.1 q₂.1 with
  | none => simp [hr₀, hr₁, hr₂, hc] at hx
  | some act =>
  cases hp : perform tbl σ act with
  | none => simp [hr₀, hr₁, hr₂, hc, hp] at hx
  | some qp =>
  simp only [hr₀, hr₁, hr₂, hc, hp, Option.bind_some, Option.some.injEq, Prod.mk.injEq] at hx
  obtain ⟨rfl, rfl⟩ := hx
  obtain ⟨ρ', hρ, hag⟩ := perform_congr hT h (σ' := qp.1) (ev := qp.2) (by simpa using hp)
  exact ⟨ρ', by simp [hc, hρ], hag⟩

theorem execDefs_congr (hT : ∀ u, T u → u.isTemp = true) {tbl : RegTable} :
    ∀ (ds : List (Term Pcode.Def)) {σ ρ σ' : State} {ev : List Event}, Agree T σ ρ →
      (∀ d ∈ ds, DefAvoids T d.term) → execDefs tbl σ ds = some (σ', ev) →
      ∃ ρ', execDefs tbl ρ ds = some (ρ', ev) ∧ Agree T σ' ρ' := by
  intro ds
  induction ds with
  | nil =>
    intro σ ρ σ' ev h _ hx
    simp [execDefs] at hx
    obtain ⟨rfl, rfl⟩ := hx
    exact ⟨ρ, rfl, h⟩
  | cons d ds ih =>
    intro σ ρ σ' ev h hav hx
    simp only [execDefs, Option.bind_eq_bind] at hx
    cases hd : execDef tbl σ d.term with
    | none => simp [hd] at hx
    | some p =>
      obtain ⟨σ₁, e₁⟩ := p
      cases hr : execDefs tbl σ₁ ds with
      | none => simp [hd, hr] at hx
      | some q =>
        obtain ⟨σ₂, e₂⟩ := q
        simp only [hd, hr, Option.bind_some, Option.some.injEq, Prod.mk.injEq] at hx
        obtain ⟨rfl, rfl⟩ := hx
        obtain ⟨ρ₁, h1, hag₁⟩ := execDef_congr hT h (hav d (by simp)) hd
        obtain ⟨ρ₂, h2, hag₂⟩ := ih hag₁ (fun d' hd' => hav d' (by simp [hd'])) hr
        exact ⟨ρ₂, by simp [execDefs, h1, h2], hag₂⟩

def JmpAvoids (T : Variable → Prop) (j : Pcode.Jmp) : Prop := ∀ v, jmpOperand j = some v → VarAvoids T v

theorem execJmps_congr (hT : ∀ u, T u → u.isTemp = true) {tbl : RegTable} (env : Env)
    (hphys : ∀ v ∈ env.physRegs, ¬ T v) {σ ρ : State} (h : Agree T σ ρ) :
    ∀ (js : List (Term Pcode.Jmp)) (c : Nat) {ev : List Event} {n : Next}, (∀ j ∈ js, JmpAvoids T j.term) →
      execJmps tbl env σ c js = some (ev, n) →
      ∃ n', execJmps tbl env ρ c js = some (ev, n') ∧ NextAgree T n n' := by
  have hsnap := snapshot_agree h env.physRegs hphys
  intro js
  induction js with
  | nil =>
    intro c ev n _ hx
    simp only [execJmps, Option.some.injEq, Prod.mk.injEq] at hx ⊢
    obtain ⟨rfl, rfl⟩ := hx
    exact ⟨.stop, ⟨by rw [hsnap], rfl⟩, .stop⟩
  | cons j rest ih =>
    intro c ev n hav hx
    have havj := hav j (by simp)
    unfold execJmps at hx ⊢
    cases hm : j.term.mnemonic with
    | BRANCH =>
      simp only [hm, Option.bind_eq_bind] at hx ⊢
      cases hg : j.term.goto with
      | none => simp [hg] at hx
      | some l =>
        cases hd : l.direct? with
        | none => simp [hg, hd] at hx
        | some t =>
          simp only [hg, hd, Option.bind_some, Option.some.injEq, Prod.mk.injEq] at hx ⊢
          obtain ⟨rfl, rfl⟩ := hx
          exact ⟨_, ⟨rfl, rfl⟩, .goto h⟩
    | CBRANCH =>
      simp only [hm, Option.bind_eq_bind] at hx ⊢
      cases hg : j.term.goto with
      | none => simp [hg] at hx
      | some l =>
        cases hd : l.direct? with
        | none => simp [hg, hd] at hx
        | some t =>
          cases hcnd : j.term.condition with
          | none => simp [hg, hd, hcnd] at hx
          | some v =>
            simp only [hg, hd, hcnd, Option.bind_some] at hx ⊢
            rw [← readVar_congr hT h (havj v (by simp [jmpOperand, hm, hcnd]))]
            cases hr : readVar tbl σ v with
            | none => simp [hr] at hx
            | some q =>
              obtain ⟨x, e⟩ := q
              simp only [hr, Option.bind_some] at hx ⊢
              by_cases htk : (x.toNat != 0) = true
              · simp only [htk, if_true, Option.some.injEq, Prod.mk.injEq] at hx ⊢
                obtain ⟨rfl, rfl⟩ := hx
                exact ⟨_, ⟨rfl, rfl⟩, .goto h⟩
              · simp only [htk, Bool.false_eq_true, if_false] at hx ⊢
                cases hrest : execJmps tbl env σ c rest with
                | none => simp [hrest] at hx
                | some q' =>
                  obtain ⟨e', n0⟩ := q'
                  simp only [hrest, Option.bind_some, Option.some.injEq, Prod.mk.injEq] at hx
                  obtain ⟨rfl, rfl⟩ := hx
                  obtain ⟨n', h1, h2⟩ := ih c (fun j' hj' => hav j' (by simp [hj'])) hrest
                  exact ⟨n', by simp [h1], h2⟩
    | BRANCHIND =>
      simp only [hm, Option.bind_eq_bind] at hx ⊢
      cases hg : j.term.goto with
      | none => simp [hg] at hx
      | some l =>
        cases hd : l.indirect? with
        | none => simp [hg, hd] at hx
        | some v =>
          simp only [hg, hd, Option.bind_some] at hx ⊢
          rw [← readVar_congr hT h (havj v (by simp [jmpOperand, hm, hg, hd]))]
          cases hr : readVar tbl σ v with
          | none => simp [hr] at hx
          | some q =>
            obtain ⟨x, e⟩ := q
            simp only [hr, Option.bind_some, Option.some.injEq, Prod.mk.injEq] at hx ⊢
            obtain ⟨rfl, rfl⟩ := hx
            exact ⟨.stop, ⟨by rw [hsnap], rfl⟩, .stop⟩
    | RETURN =>
      simp only [hm, Option.bind_eq_bind] at hx ⊢
      cases hg : j.term.goto with
      | none => simp [hg] at hx
      | some l =>
        cases hd : l.indirect? with
        | none => simp [hg, hd] at hx
        | some v =>
          simp only [hg, hd, Option.bind_some] at hx ⊢
          rw [← readVar_congr hT h (havj v (by simp [jmpOperand, hm, hg, hd]))]
          cases hr : readVar tbl σ v with
          | none => simp [hr] at hx
          | some q =>
            obtain ⟨x, e⟩ := q
            simp only [hr, Option.bind_some, Option.some.injEq, Prod.mk.injEq] at hx ⊢
            obtain ⟨rfl, rfl⟩ := hx
            exact ⟨.stop, ⟨by rw [hsnap], rfl⟩, .stop⟩
    | CALL =>
      simp only [hm, Option.bind_eq_bind] at hx ⊢
      cases hc : j.term.call with
      | none => simp [hc] at hx
      | some cl =>
        cases htg : cl.target with
        | none => simp [hc, htg] at hx
        | some l =>
          cases hd : l.direct? with
          | none => simp [hc, htg, hd] at hx
          | some t =>
            cases hret : callReturn cl with
            | none => simp [hc, htg, hd, hret] at hx
            | some r =>
              simp only [hc, htg, hd, hret, Option.bind_some, Option.some.injEq] at hx ⊢
              cases r with
              | none =>
                simp only [Prod.mk.injEq] at hx ⊢
                obtain ⟨rfl, rfl⟩ := hx
                exact ⟨.stop, ⟨by rw [hsnap], rfl⟩, .stop⟩
              | some rt =>
                simp only [Prod.mk.injEq] at hx ⊢
                obtain ⟨rfl, rfl⟩ := hx
                exact ⟨_, ⟨by rw [hsnap], rfl⟩, .goto (havoc_agree h _ _ _ _)⟩
    | CALLIND =>
      simp only [hm, Option.bind_eq_bind] at hx ⊢
      cases hc : j.term.call with
      | none => simp [hc] at hx
      | some cl =>
        cases htg : cl.target with
        | none => simp [hc, htg] at hx
        | some l =>
          cases hd : l.indirect? with
          | none => simp [hc, htg, hd] at hx
          | some v =>
            simp only [hc, htg, hd, Option.bind_some] at hx ⊢
            rw [← readVar_congr hT h (havj v (by simp [jmpOperand, hm, hc, htg, hd]))]
            cases hr : readVar tbl σ v with
            | none => simp [hr] at hx
            | some q =>
              obtain ⟨x, e⟩ := q
              cases hret : callReturn cl with
              | none => simp [hr, hret] at hx
              | some r =>
                simp only [hr, hret, Option.bind_some, Option.some.injEq] at hx ⊢
                cases r with
                | none =>
                  simp only [Prod.mk.injEq] at hx ⊢
                  obtain ⟨rfl, rfl⟩ := hx
                  exact ⟨.stop, ⟨by rw [hsnap], rfl⟩, .stop⟩
                | some rt =>
                  simp only [Prod.mk.injEq] at hx ⊢
                  obtain ⟨rfl, rfl⟩ := hx
                  exact ⟨_, ⟨by rw [hsnap], rfl⟩, .goto (havoc_agree h _ _ _ _)⟩
    | CALLOTHER =>
      simp only [hm, Option.bind_eq_bind] at hx ⊢
      cases hc : j.term.call with
      | none => simp [hc] at hx
      | some cl =>
        cases hret : callReturn cl with
        | none => simp [hc, hret] at hx
        | some r =>
          cases hcs : cl.callString with
          | none => simp [hc, hret, hcs] at hx
          | some desc =>
            simp only [hc, hret, hcs, Option.bind_some, Option.some.injEq] at hx ⊢
            cases r with
            | none =>
              simp only [Prod.mk.injEq] at hx ⊢
              obtain ⟨rfl, rfl⟩ := hx
              exact ⟨.stop, ⟨by rw [hsnap], rfl⟩, .stop⟩
            | some rt =>
              simp only [Prod.mk.injEq] at hx ⊢
              obtain ⟨rfl, rfl⟩ := hx
              exact ⟨_, ⟨by rw [hsnap], rfl⟩, .goto (havoc_agree h _ _ _ _)⟩


/-! ### in-domain code never mentions a lifting temporary -/

theorem isLiftTemp_temp : ∀ u, IsLiftTemp u → u.isTemp = true := fun _ h => h.1

theorem varOk_avoids_lift {tbl : RegTable} {v : Pcode.Var} (h : varOk tbl v = true) : VarAvoids IsLiftTemp v := by
  intro n hk hT
  unfold varOk at h
  simp only [hk, Bool.and_eq_true, Bool.not_eq_true', decide_eq_true_eq] at h
  have h2 := h.2.1
  simp [List.contains_iff_mem] at h2
  exact h2 hT.2

theorem optVarOk_avoids_lift {tbl : RegTable} {o : Option Pcode.Var} (h : optVarOk? tbl o = true) :
    OptAvoids IsLiftTemp o := by
  intro v hv; subst hv; exact varOk_avoids_lift h

theorem defOk_avoids {tbl : RegTable} {d : Pcode.Def} (h : defOk tbl d = true) : DefAvoids IsLiftTemp d := by
  unfold defOk at h
  simp only [Bool.and_eq_true] at h
  exact ⟨optVarOk_avoids_lift h.1.1.1, optVarOk_avoids_lift h.1.1.2, optVarOk_avoids_lift h.1.2⟩

theorem jmpOk_avoids {tbl : RegTable} {j : Pcode.Jmp} (h : jmpOk tbl j = true) : JmpAvoids IsLiftTemp j := by
  intro v hv
  unfold jmpOperand at hv
  unfold jmpOk at h
  cases hm : j.mnemonic <;> simp only [hm] at hv h
  · simp at hv
  · simp only [Bool.and_eq_true] at h
    rw [hv] at h
    simp only [Bool.and_eq_true] at h
    exact varOk_avoids_lift h.2.1
  · cases hg : j.goto with
    | none => simp [hg] at hv
    | some l =>
      cases l with
      | Direct t => simp [hg, Pcode.Label.indirect?] at hv
      | Indirect w => simp [hg, Pcode.Label.indirect?] at hv h; subst hv; exact varOk_avoids_lift h
  · simp at hv
  · cases hc : j.call with
    | none => simp [hc] at hv
    | some cl =>
      cases ht : cl.target with
      | none => simp [hc, ht] at hv
      | some l =>
        cases l with
        | Direct t => simp [hc, ht, Pcode.Label.indirect?] at hv
        | Indirect w => simp [hc, ht, Pcode.Label.indirect?] at hv h; subst hv; exact varOk_avoids_lift h.1
  · simp at hv
  · cases hg : j.goto with
    | none => simp [hg] at hv
    | some l =>
      cases l with
      | Direct t => simp [hg, Pcode.Label.indirect?] at hv
      | Indirect w => simp [hg, Pcode.Label.indirect?] at hv h; subst hv; exact varOk_avoids_lift h.1

/-! ### the state a block of the IR hands to its successor -/

/-- what is needed of an IR state to run a lifted block from it -/
def Ready (ptr : Nat) (ρ : State) : Prop := WellTyped ρ ∧ ρ.ptrBytes = ptr

def NextOk (P : State → Prop) : Next → Prop
  | .goto _ ρ _ => P ρ
  | .stop => True

theorem havoc_ready {ptr : Nat} {ρ : State} (h : Ready ptr ρ) (regs : List Variable) (sp : Variable) (site : String)
    (n : Nat) : Ready ptr (havoc ρ regs sp site n) := by
  unfold havoc
  generalize ρ.seed = sd
  induction regs generalizing ρ with
  | nil => exact h
  | cons v vs ih =>
    simp only [List.foldl_cons]
    by_cases hv : v == sp
    · simp only [hv, if_true]; exact ih h
    · simp only [hv, Bool.false_eq_true, if_false]
      exact ih ⟨h.1.setReg _ _ rfl, h.2⟩

theorem sem_execJmps_next {ptr : Nat} (env : Env) :
    ∀ (js : List (Term Jmp)) {ρ : State} (c : Nat) {ev : List Event} {n : Next}, Ready ptr ρ →
      Sem.execJmps env ρ c js = (ev, n) → NextOk (Ready ptr) n := by
  intro js
  induction js with
  | nil => intro ρ c ev n _ hx; simp [Sem.execJmps] at hx; rw [← hx.2]; trivial
  | cons j rest ih =>
    intro ρ c ev n hρ hx
    unfold Sem.execJmps at hx
    cases hj : j.term with
    | Branch t => simp [hj] at hx; rw [← hx.2]; exact hρ
    | CBranch t cnd =>
      simp only [hj] at hx
      cases he : eval ρ cnd with
      | none => simp [he] at hx; rw [← hx.2]; trivial
      | some v =>
        simp only [he] at hx
        by_cases htk : (v.toNat != 0) = true
        · simp [htk] at hx; rw [← hx.2]; exact hρ
        · simp only [htk, Bool.false_eq_true, if_false] at hx; exact ih c hρ hx
    | BranchInd e =>
      simp only [hj] at hx
      cases he : eval ρ e <;> simp [he] at hx <;> rw [← hx.2] <;> trivial
    | Return e =>
      simp only [hj] at hx
      cases he : eval ρ e <;> simp [he] at hx <;> rw [← hx.2] <;> trivial
    | Call t r =>
      simp only [hj] at hx
      cases r with
      | none => simp at hx; rw [← hx.2]; trivial
      | some rt => simp at hx; rw [← hx.2]; exact havoc_ready hρ _ _ _ _
    | CallInd e r =>
      simp only [hj] at hx
      cases he : eval ρ e with
      | none => simp [he] at hx; rw [← hx.2]; trivial
      | some v =>
        cases r with
        | none => simp [he] at hx; rw [← hx.2]; trivial
        | some rt => simp [he] at hx; rw [← hx.2]; exact havoc_ready hρ _ _ _ _
    | CallOther d r =>
      simp only [hj] at hx
      cases r with
      | none => simp at hx; rw [← hx.2]; trivial
      | some rt => simp at hx; rw [← hx.2]; exact havoc_ready hρ _ _ _ _

/-! ### block lookup -/

theorem find_liftBlocks {tbl : RegTable} {ptr : Nat} :
    ∀ (blocks : List (Term Pcode.Blk)) {iblocks : List (Term Blk)}, liftBlocks tbl ptr blocks = some iblocks →
      ∀ cur : Tid,
        (blocks.find? (fun b => b.tid == cur) = none ∧ iblocks.find? (fun b => b.tid == cur) = none) ∨
        (∃ b ib, blocks.find? (fun b => b.tid == cur) = some b ∧ b ∈ blocks ∧ liftBlk tbl ptr b.term = some ib ∧
          iblocks.find? (fun b => b.tid == cur) = some ⟨b.tid, ib⟩) := by
  intro blocks
  induction blocks with
  | nil => intro iblocks h cur; simp [liftBlocks, mapOpt] at h; subst h; exact Or.inl ⟨rfl, rfl⟩
  | cons b bs ih =>
    intro iblocks h cur
    simp only [liftBlocks, mapOpt, Option.bind_eq_bind] at h
    cases hb : liftBlk tbl ptr b.term with
    | none => simp [hb] at h
    | some ib =>
      cases hbs : liftBlocks tbl ptr bs with
      | none => simp only [liftBlocks, Option.bind_eq_bind] at hbs; simp [hb, hbs] at h
      | some ibs =>
        have hbs' := hbs
        simp only [liftBlocks, Option.bind_eq_bind] at hbs'
        simp [hb, hbs'] at h
        subst h
        by_cases hc : (b.tid == cur) = true
        · exact Or.inr ⟨b, ib, by simp [List.find?_cons, hc], by simp, hb, by simp [List.find?_cons, hc]⟩
        · have hc' : (b.tid == cur) = false := by simpa using hc
          rcases ih hbs cur with ⟨h1, h2⟩ | ⟨b', ib', h1, h2, h3, h4⟩
          · exact Or.inl ⟨by simp [List.find?_cons, hc', h1], by simp [List.find?_cons, hc', h2]⟩
          · exact Or.inr ⟨b', ib', by simp [List.find?_cons, hc', h1], by simp [h2], h3,
              by simp [List.find?_cons, hc', h4]⟩


/-! ### whole functions -/

/-- **C11-function (blocks of a function, any entry, any fuel).** If the P-Code reference interpreter,
run over the in-domain blocks of a function from block `cur`, defines a trace, then `Sem.runBlocks` over the
lifted blocks produces EXACTLY that trace from every IR state that agrees with the P-Code state up to lifting
temporaries: same loads/stores, calls, indirect jumps, returns and dead ends with the same snapshots of base
registers and memory, same block sequence, same `stuck`/out-of-fuel endings. -/
theorem runBlocks_sim {tbl : RegTable} (ht : tableOk tbl = true) {ptr : Nat} (hp0 : 0 < ptr) (env : Env)
    (hphys : ∀ v ∈ env.physRegs, v.isTemp = false) (blocks : List (Term Pcode.Blk))
    (hok : ∀ b ∈ blocks, blkOk tbl b.term = true) {iblocks : List (Term Blk)}
    (hl : liftBlocks tbl ptr blocks = some iblocks) :
    ∀ (fuel : Nat) (cur : Tid) {σ ρ : State} (calls : Nat) {tr : List Event},
      Agree IsLiftTemp σ ρ → WellTyped ρ → ρ.ptrBytes = ptr →
      runBlocks tbl env blocks fuel cur σ calls = some tr →
      Sem.runBlocks env iblocks fuel cur ρ calls = tr := by
  have hphys' : ∀ v ∈ env.physRegs, ¬ IsLiftTemp v := fun v hv hT => by
    have := hT.1; rw [hphys v hv] at this; simp at this
  intro fuel
  induction fuel with
  | zero =>
    intro cur σ ρ calls tr _ _ _ hx
    simp only [runBlocks, Option.some.injEq] at hx
    subst hx
    rfl
  | succ fuel ih =>
    intro cur σ ρ calls tr hag hρ hptr hx
    unfold runBlocks at hx
    unfold Sem.runBlocks
    rcases find_liftBlocks blocks hl cur with ⟨h1, h2⟩ | ⟨b, ib, h1, hmem, h3, h4⟩
    · simp only [h1, Option.some.injEq] at hx
      subst hx
      simp [h2]
    · simp only [h1, Option.bind_eq_bind] at hx
      have hbok := hok b hmem
      cases hd : execDefs tbl σ b.term.defs with
      | none => simp [hd] at hx
      | some p =>
        obtain ⟨σ₁, evs⟩ := p
        cases hj : execJmps tbl env σ₁ calls b.term.jmps with
        | none => simp [hd, hj] at hx
        | some q =>
          obtain ⟨evs₂, n⟩ := q
          simp only [hd, hj, Option.bind_some] at hx
          -- the same block run from the IR state
          have hbok' := hbok
          unfold blkOk at hbok'
          simp only [Bool.and_eq_true, List.all_eq_true] at hbok'
          obtain ⟨ρa, hda, haga⟩ := execDefs_congr isLiftTemp_temp b.term.defs hag
            (fun d hd' => defOk_avoids (hbok'.1.1 d hd')) hd
          obtain ⟨na, hja, hna⟩ := execJmps_congr isLiftTemp_temp env hphys' haga b.term.jmps calls
            (fun j hj' => jmpOk_avoids (hbok'.1.2 j hj')) hj
          have hblk : execBlk tbl env ρ b.term calls = some ⟨evs, ρa, evs₂, na⟩ := by
            simp [execBlk, hda, hja]
          obtain ⟨ib', ρ₁, ev₁, ev₂, n', g1, g2, g3, g4, g5, g6, g7, g8⟩ :=
            liftBlk_sim_gen ht hp0 env hphys b.term hbok hρ hptr calls hblk
          rw [h3] at g1
          simp only [Option.some.injEq] at g1
          subst g1
          simp only at g4 g5 g6
          simp only [h4, g2, g3]
          have hnext := sem_execJmps_next (ptr := ptr) env ib.jmps calls ⟨g7, g8⟩ g3
          cases n with
          | stop =>
            simp only [Option.some.injEq] at hx
            subst hx
            cases hna with
            | stop => cases g6 with
              | stop => simp only; exact g4
          | goto t σ₂ c₂ =>
            cases hrest : runBlocks tbl env blocks fuel t σ₂ c₂ with
            | none => simp [hrest] at hx
            | some rest =>
              simp only [hrest, Option.bind_some, Option.some.injEq] at hx
              subst hx
              cases hna with
              | goto hag₂a => cases g6 with
                | goto hag₂ =>
                  simp only
                  have hagf := (hag₂a.trans hag₂).mono (fun _ h => h.elim id id)
                  rw [ih t c₂ hagf hnext.1 hnext.2 hrest, g4]

/-- **C11-function (the property at function level).** For every in-domain P-Code function (entry block
first, as `into_ir_sub_term` arranges it), every well-typed initial state with the project's pointer size and
every fuel: if the P-Code reference interpreter defines a trace, `Sem.runSub` over the lifted IR function
produces exactly the same trace. -/
theorem liftSub_sim {tbl : RegTable} (ht : tableOk tbl = true) {ptr : Nat} (hp0 : 0 < ptr) (env : Env)
    (hphys : ∀ v ∈ env.physRegs, v.isTemp = false) (blocks : List (Term Pcode.Blk))
    (hok : ∀ b ∈ blocks, blkOk tbl b.term = true) {iblocks : List (Term Blk)}
    (hl : liftBlocks tbl ptr blocks = some iblocks) (name : String) (cc : Option String)
    {σ : State} (hσ : WellTyped σ) (hptr : σ.ptrBytes = ptr) (fuel : Nat) {tr : List Event}
    (hx : runSub tbl env blocks σ fuel = some tr) :
    Sem.runSub env { name := name, blocks := iblocks, callingConvention := cc } σ fuel = tr := by
  unfold runSub at hx
  unfold Sem.runSub
  cases blocks with
  | nil =>
    simp [liftBlocks, mapOpt] at hl
    subst hl
    simp only [Option.some.injEq] at hx
    subst hx
    rfl
  | cons b bs =>
    have hl' := hl
    simp only [liftBlocks, mapOpt, Option.bind_eq_bind] at hl'
    cases hb : liftBlk tbl ptr b.term with
    | none => simp [hb] at hl'
    | some ib =>
      cases hbs : mapOpt (fun b : Term Pcode.Blk => (liftBlk tbl ptr b.term).bind fun r => some (⟨b.tid, r⟩ : Term Blk)) bs with
      | none => simp [hb, hbs] at hl'
      | some ibs =>
        simp [hb, hbs] at hl'
        subst hl'
        simp only at hx ⊢
        exact runBlocks_sim ht hp0 env hphys (b :: bs) hok hl fuel b.tid 0 (Agree.refl σ) hσ hptr hx


/-- a list all of whose elements are images under `f` has a preimage list -/
theorem mapOpt_preimage {α β} (f : α → Option β) (src : List α) :
    ∀ (l : List β), (∀ y ∈ l, ∃ a ∈ src, f a = some y) → ∃ pre, mapOpt f pre = some l ∧ ∀ a ∈ pre, a ∈ src := by
  intro l
  induction l with
  | nil => intro _; exact ⟨[], rfl, by simp⟩
  | cons y ys ih =>
    intro h
    obtain ⟨a, ha, hfa⟩ := h y (by simp)
    obtain ⟨pre, hp, hm⟩ := ih (fun y' hy' => h y' (by simp [hy']))
    refine ⟨a :: pre, by simp [mapOpt, hfa, hp], ?_⟩
    intro x hx
    rcases List.mem_cons.mp hx with rfl | hx
    · exact ha
    · exact hm x hx

theorem liftBlocks_compose {tbl : RegTable} {ptr : Nat} :
    ∀ (pbs : List (Term Pcode.Blk)) {nbs : List (Term Pcode.Blk)} {rbs fbs : List (Term Blk)},
      mapOpt (fun b : Term Pcode.Blk => (addLoadDefs ptr b.term).bind fun r => some (⟨b.tid, r⟩ : Term Pcode.Blk)) pbs = some nbs →
      mapOpt (fun b : Term Pcode.Blk => (blkToIr ptr b.term).bind fun r => some (⟨b.tid, r⟩ : Term Blk)) nbs = some rbs →
      mapOpt (fun b : Term Blk => (replaceSubregisterInBlock tbl b.term).bind fun r => some (⟨b.tid, r⟩ : Term Blk)) rbs = some fbs →
      liftBlocks tbl ptr pbs = some fbs := by
  intro pbs
  induction pbs with
  | nil =>
    intro nbs rbs fbs h1 h2 h3
    simp [mapOpt] at h1; subst h1
    simp [mapOpt] at h2; subst h2
    simp [mapOpt] at h3; subst h3
    rfl
  | cons b bs ih =>
    intro nbs rbs fbs h1 h2 h3
    simp only [mapOpt, Option.bind_eq_bind] at h1
    cases ha : addLoadDefs ptr b.term with
    | none => simp [ha] at h1
    | some nb =>
      cases hbs : mapOpt (fun b : Term Pcode.Blk => (addLoadDefs ptr b.term).bind fun r => some (⟨b.tid, r⟩ : Term Pcode.Blk)) bs with
      | none => simp [ha, hbs] at h1
      | some nbs' =>
        simp [ha, hbs] at h1; subst h1
        simp only [mapOpt, Option.bind_eq_bind] at h2
        cases hb : blkToIr ptr nb with
        | none => simp [hb] at h2
        | some rb =>
          cases hrs : mapOpt (fun b : Term Pcode.Blk => (blkToIr ptr b.term).bind fun r => some (⟨b.tid, r⟩ : Term Blk)) nbs' with
          | none => simp [hb, hrs] at h2
          | some rbs' =>
            simp [hb, hrs] at h2; subst h2
            simp only [mapOpt, Option.bind_eq_bind] at h3
            cases hr : replaceSubregisterInBlock tbl rb with
            | none => simp [hr] at h3
            | some fb =>
              cases hfs : mapOpt (fun b : Term Blk => (replaceSubregisterInBlock tbl b.term).bind fun r => some (⟨b.tid, r⟩ : Term Blk)) rbs' with
              | none => simp [hr, hfs] at h3
              | some fbs' =>
                simp [hr, hfs] at h3; subst h3
                have := ih hbs hrs hfs
                simp only [liftBlocks, Option.bind_eq_bind] at this
                have hlb : liftBlk tbl ptr b.term = some fb := by simp [liftBlk, ha, hb, hr]
                simp only [liftBlocks, mapOpt, Option.bind_eq_bind, hlb, Option.bind_some, this]

/-- **C11-program (functions).** Every function of the program produced by `parse_pcode_project_to_ir_project`
is `liftBlocks` of a list of blocks of the P-Code function with the same term identifier (its blocks with the
entry block moved to the front, or none if no block starts at the function's address) — the setting of
`liftSub_sim`. -/
theorem liftProject_subs {p : Pcode.Project} {prog : Program} (h : liftProject p = some prog) :
    ∀ s ∈ prog.subs, ∃ ps ∈ p.program.subs, ps.tid = s.tid ∧ ps.term.name = s.term.name ∧
      ∃ pbs, (∀ b ∈ pbs, b ∈ ps.term.blocks) ∧
        liftBlocks p.registerProperties p.pointerSize pbs = some s.term.blocks := by
  intro s hs
  simp only [liftProject, Option.bind_eq_bind] at h
  cases h1 : mapOpt (normalizeSub p.pointerSize) p.program.subs with
  | none => simp [h1] at h
  | some nsubs =>
  cases h2 : mapOpt (subToIr p.pointerSize) nsubs with
  | none => simp [h1, h2] at h
  | some irsubs =>
  cases h3 : mapOpt (replaceSubregisterInSub p.registerProperties) irsubs with
  | none => simp [h1, h2, h3] at h
  | some fsubs =>
  simp only [h1, h2, h3, Option.bind_some, Option.some.injEq] at h
  subst h
  simp only at hs
  have hs' : s ∈ fsubs := by
    rcases mem_foldl_btreeInsert hs with h | h
    · simp at h
    · exact h
  obtain ⟨s1, hs1, hf1⟩ := (mapOpt_some _ _ _ h3).2 s hs'
  simp only [replaceSubregisterInSub, Option.bind_eq_bind] at hf1
  cases hb1 : mapOpt (fun b : Term Blk => (replaceSubregisterInBlock p.registerProperties b.term).bind
      fun r => some (⟨b.tid, r⟩ : Term Blk)) s1.term.blocks with
  | none => simp [hb1] at hf1
  | some fblocks =>
  simp only [hb1, Option.bind_some, Option.some.injEq] at hf1
  subst hf1
  obtain ⟨s2, hs2, hf2⟩ := (mapOpt_some _ _ _ h2).2 s1 hs1
  simp only [subToIr, Option.bind_eq_bind] at hf2
  cases hblk : entryFirst s2 with
  | none => simp [hblk] at hf2
  | some blocks =>
  simp only [hblk, Option.bind_some] at hf2
  cases hir : mapOpt (fun b : Term Pcode.Blk => (blkToIr p.pointerSize b.term).bind
      fun r => some (⟨b.tid, r⟩ : Term Blk)) blocks with
  | none => simp [hir] at hf2
  | some irBlocks =>
  simp only [hir, Option.bind_some, Option.some.injEq] at hf2
  subst hf2
  have hsub : ∀ b ∈ blocks, b ∈ s2.term.blocks := by
    intro b2 hb2m
    unfold entryFirst at hblk
    split at hblk
    · simp at hblk; subst hblk; simp at hb2m
    · split at hblk
      · split at hblk
        · simp at hblk; subst hblk; exact mem_swapToFront hb2m
        · simp at hblk
      · simp at hblk; subst hblk; exact hb2m
  obtain ⟨s3, hs3, hf3⟩ := (mapOpt_some _ _ _ h1).2 s2 hs2
  simp only [normalizeSub, Option.bind_eq_bind] at hf3
  cases hnb : mapOpt (fun b : Term Pcode.Blk => (addLoadDefs p.pointerSize b.term).bind
      fun r => some (⟨b.tid, r⟩ : Term Pcode.Blk)) s3.term.blocks with
  | none => simp [hnb] at hf3
  | some nblocks =>
  simp only [hnb, Option.bind_some, Option.some.injEq] at hf3
  subst hf3
  simp only at hsub hb1 ⊢
  have hpre : ∀ y ∈ blocks, ∃ a ∈ s3.term.blocks,
      (fun b : Term Pcode.Blk => (addLoadDefs p.pointerSize b.term).bind fun r => some (⟨b.tid, r⟩ : Term Pcode.Blk)) a = some y := by
    intro y hy
    have hy' := hsub y hy
    have hyn : y ∈ nblocks := by
      split at hy'
      · simp at hy'
      · exact hy'
    exact (mapOpt_some _ _ _ hnb).2 y hyn
  obtain ⟨pbs, hp1, hp2⟩ := mapOpt_preimage _ s3.term.blocks blocks hpre
  exact ⟨s3, hs3, rfl, rfl, pbs, hp2, liftBlocks_compose pbs hp1 hir hb1⟩


/-- the lifting of a function exists as soon as every block is in the domain and has SOME defined execution -/
theorem liftBlocks_exists {tbl : RegTable} (ht : tableOk tbl = true) {ptr : Nat} (hp0 : 0 < ptr) (env : Env)
    (hphys : ∀ v ∈ env.physRegs, v.isTemp = false) (blocks : List (Term Pcode.Blk))
    (hok : ∀ b ∈ blocks, blkOk tbl b.term = true)
    (hex : ∀ b ∈ blocks, ∃ σ, WellTyped σ ∧ σ.ptrBytes = ptr ∧ (execBlk tbl env σ b.term).isSome = true) :
    ∃ iblocks, liftBlocks tbl ptr blocks = some iblocks := by
  unfold liftBlocks
  apply mapOpt_isSome
  intro b hb
  obtain ⟨σ, hσ, hptr, hx⟩ := hex b hb
  obtain ⟨eff, heff⟩ := Option.isSome_iff_exists.mp hx
  obtain ⟨ib, _, _, _, _, h1, _⟩ := liftBlk_sim ht hp0 env hphys b.term (hok b hb) hσ hptr heff
  simp [h1]

/-! ### non-vacuity of `liftSub_sim`: a 2-block function with a conditional branch (loop back or fall to the
returning block), sub-register writes and an implicit RAM load -/

def exTbl2 : RegTable :=
  [⟨"RAX", "RAX", 0, 8⟩, ⟨"EAX", "RAX", 0, 4⟩, ⟨"AH", "RAX", 1, 1⟩, ⟨"AL", "RAX", 0, 1⟩, ⟨"RSP", "RSP", 0, 8⟩,
   ⟨"ZF", "ZF", 0, 1⟩]

def exFun : List (Term Pcode.Blk) :=
  [⟨⟨"blk_1000", "1000"⟩,
    { defs := [ins "i0" (rv "AH" 1) .INT_ADD (rv "AL" 1) (some (mv "00404000" 1)),
               ins "i1" (rv "ZF" 1) .INT_LESS (rv "AH" 1) (some (cv "80" 1))],
      jmps := [⟨⟨"i2", "1000"⟩, { mnemonic := .CBRANCH, goto := some (.Direct ⟨"blk_1010", "1010"⟩),
                                  condition := some (rv "ZF" 1) }⟩,
               ⟨⟨"i3", "1000"⟩, { mnemonic := .BRANCH, goto := some (.Direct ⟨"blk_1000", "1000"⟩) }⟩] }⟩,
   ⟨⟨"blk_1010", "1010"⟩,
    { defs := [ins "j0" (rv "EAX" 4) .INT_SRIGHT (rv "EAX" 4) (some (cv "3" 4)),
               ins "j1" (rv "RAX" 8) .INT_ZEXT (rv "EAX" 4) none],
      jmps := [⟨⟨"j2", "1010"⟩, { mnemonic := .RETURN, goto := some (.Indirect (rv "RSP" 8)) }⟩] }⟩]

def exEnv2 : Env := { physRegs := baseRegs exTbl2, sp := ⟨"RSP", 8, false⟩ }

theorem exFun_ok : ∀ b ∈ exFun, blkOk exTbl2 b.term = true := by decide
theorem exFun_runs : (runSub exTbl2 exEnv2 exFun exState 6).isSome = true := by decide
theorem exFun_blocks_run : ∀ b ∈ exFun, (execBlk exTbl2 exEnv2 exState b.term).isSome = true := by decide

example : ∃ iblocks tr, liftBlocks exTbl2 8 exFun = some iblocks ∧ runSub exTbl2 exEnv2 exFun exState 6 = some tr ∧
    Sem.runSub exEnv2 { name := "f", blocks := iblocks } exState 6 = tr := by
  obtain ⟨iblocks, hl⟩ := liftBlocks_exists (by decide) (by decide : 0 < 8) exEnv2 (baseRegs_nontemp exTbl2) exFun
    exFun_ok (fun b hb => ⟨exState, WellTyped.initial exState rfl, rfl, exFun_blocks_run b hb⟩)
  obtain ⟨tr, hr⟩ := Option.isSome_iff_exists.mp exFun_runs
  exact ⟨iblocks, tr, hl, hr, liftSub_sim (by decide) (by decide : 0 < 8) exEnv2 (baseRegs_nontemp exTbl2) exFun exFun_ok
    hl "f" none (WellTyped.initial exState rfl) rfl 6 hr⟩


end CweModel.C11
