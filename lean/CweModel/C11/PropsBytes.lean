/-
C11 — byte-level lemmas: SUBPIECE extracts bytes; the three PIECE shapes built by
`piece_base_register_assignment_expression_together` denote "base with bytes [lsb, lsb+size) replaced".
-/
import CweModel.C11.Lift
namespace CweModel.C11
open CweModel CweModel.IR CweModel.Sem CweModel.Gen.PcodeOps CweModel.C11.Lift

theorem _root_.CweModel.Bv.toNat_lt (b : Bv) : b.toNat < 2 ^ b.w := b.v.isLt

@[simp] theorem _root_.CweModel.Bv.ofNat_w (w n : Nat) : (Bv.ofNat w n).w = w := rfl
@[simp] theorem _root_.CweModel.Bv.ofNat_toNat (w n : Nat) : (Bv.ofNat w n).toNat = n % 2 ^ w := by
  simp [Bv.ofNat, Bv.toNat]
@[simp] theorem _root_.CweModel.Bv.ofBytes_w (s n : Nat) : (Bv.ofBytes s n).w = 8 * s := rfl
@[simp] theorem _root_.CweModel.Bv.ofBytes_toNat (s n : Nat) : (Bv.ofBytes s n).toNat = n % 2 ^ (8 * s) := by
  simp [Bv.ofBytes]

theorem _root_.CweModel.Bv.ext_nat {a b : Bv} (hw : a.w = b.w) (hv : a.toNat = b.toNat) : a = b := Bv.ext' hw hv

theorem extractBytes_w (b : Bv) (l s : Nat) : (extractBytes b l s).w = 8 * s := rfl
theorem extractBytes_toNat (b : Bv) (l s : Nat) :
    (extractBytes b l s).toNat = b.toNat / 2 ^ (8 * l) % 2 ^ (8 * s) := by simp [extractBytes]
theorem replaceBytes_w (b : Bv) (l s x : Nat) : (replaceBytes b l s x).w = b.w := rfl

/-- SUBPIECE of the reference semantics extracts bytes -/
theorem subpieceOp_extract (a : Bv) (l s : Nat) (h₁ : 8 * l < a.w) (h₂ : 8 * s ≤ a.w) :
    Ref.subpieceOp l s a = .val (extractBytes a l s) := by
  simp only [Ref.subpieceOp, h₁, h₂, and_self, if_true]
  rfl

theorem piece_val (a b : Bv) :
    Ref.binOp .Piece a b = .val ⟨a.w + b.w, BitVec.ofNat (a.w + b.w) (a.toNat * 2 ^ b.w + b.toNat)⟩ := rfl

/-- the number denoted by "b with bytes [l, l+s) replaced by x" -/
def replaceVal (b l s x : Nat) : Nat :=
  b % 2 ^ (8 * l) + (x % 2 ^ (8 * s)) * 2 ^ (8 * l) + (b / 2 ^ (8 * (l + s))) * 2 ^ (8 * (l + s))

theorem replaceBytes_toNat (b : Bv) (l s x : Nat) :
    (replaceBytes b l s x).toNat = replaceVal b.toNat l s x % 2 ^ b.w := by
  simp [replaceBytes, replaceVal]

theorem pow8_add (a b : Nat) : 2 ^ (8 * (a + b)) = 2 ^ (8 * a) * 2 ^ (8 * b) := by
  rw [Nat.mul_add, Nat.pow_add]

theorem replaceVal_lt (b l s x B : Nat) (hb : b < 2 ^ (8 * B)) (h : l + s ≤ B) :
    replaceVal b l s x < 2 ^ (8 * B) := by
  unfold replaceVal
  obtain ⟨k, rfl⟩ : ∃ k, B = l + s + k := ⟨B - (l + s), by omega⟩
  have hq : b / 2 ^ (8 * (l + s)) < 2 ^ (8 * k) := by
    apply Nat.div_lt_of_lt_mul
    rw [← pow8_add]; exact hb
  have h1 : b % 2 ^ (8 * l) < 2 ^ (8 * l) := Nat.mod_lt _ (Nat.pow_pos (by omega))
  have h2 : x % 2 ^ (8 * s) < 2 ^ (8 * s) := Nat.mod_lt _ (Nat.pow_pos (by omega))
  rw [pow8_add (l + s) k, pow8_add l s]
  rw [pow8_add l s] at hq
  generalize 2 ^ (8 * l) = L at *
  generalize 2 ^ (8 * s) = S at *
  generalize 2 ^ (8 * k) = K at *
  generalize b % L = r at *
  generalize x % S = y at *
  generalize b / (L * S) = q at *
  have : r + y * L + q * (L * S) < L * S * K := by
    have : q + 1 ≤ K := hq
    have : (q + 1) * (L * S) ≤ K * (L * S) := Nat.mul_le_mul_right _ this
    have : y + 1 ≤ S := h2
    have : (y + 1) * L ≤ S * L := Nat.mul_le_mul_right _ this
    have e1 : (q + 1) * (L * S) = q * (L * S) + L * S := by rw [Nat.add_mul, Nat.one_mul]
    have e2 : (y + 1) * L = y * L + L := by rw [Nat.add_mul, Nat.one_mul]
    have e3 : S * L = L * S := Nat.mul_comm _ _
    have e4 : K * (L * S) = L * S * K := Nat.mul_comm _ _
    omega
  exact this

theorem pow8_pos (a : Nat) : 0 < 2 ^ (8 * a) := Nat.pow_pos (by omega)

theorem div_pow8_lt (b m n : Nat) (hb : b < 2 ^ (8 * (m + n))) : b / 2 ^ (8 * m) < 2 ^ (8 * n) := by
  apply Nat.div_lt_of_lt_mul
  rw [← pow8_add]; exact hb

/-- value of the high part + new bytes (no wrap-around) -/
theorem hi_x_lt (q x s k : Nat) (hq : q < 2 ^ (8 * k)) (hx : x < 2 ^ (8 * s)) :
    q * 2 ^ (8 * s) + x < 2 ^ (8 * k + 8 * s) := by
  rw [Nat.pow_add]
  generalize 2 ^ (8 * s) = S at *
  generalize 2 ^ (8 * k) = K at *
  have : (q + 1) * S ≤ K * S := Nat.mul_le_mul_right _ hq
  rw [Nat.add_mul, Nat.one_mul] at this
  omega

/-- shape `lsb = 0`: PIECE(SUBPIECE(base, s, B-s), x) -/
theorem piece_low (b x : Bv) (B s : Nat) (hb : b.w = 8 * B) (hx : x.w = 8 * s) (hs : s < B) :
    (do let hi ← resToOpt (Ref.subpieceOp s (B - s) b); resToOpt (Ref.binOp .Piece hi x))
      = some (replaceBytes b 0 s x.toNat) := by
  rw [subpieceOp_extract b s (B - s) (by omega) (by omega)]
  simp only [resToOpt, piece_val, Option.bind_eq_bind, Option.bind_some]
  congr 1
  have hbB : b.toNat < 2 ^ (8 * B) := by have := b.toNat_lt; rwa [hb] at this
  have hbl : b.toNat < 2 ^ (8 * (s + (B - s))) := by
    have e : s + (B - s) = B := by omega
    rw [e]; exact hbB
  have hxl : x.toNat < 2 ^ (8 * s) := by have := x.toNat_lt; rwa [hx] at this
  have hq := div_pow8_lt b.toNat s (B - s) hbl
  have hr : replaceVal b.toNat 0 s x.toNat < 2 ^ b.w := by
    rw [hb]; exact replaceVal_lt _ _ _ _ _ hbB (by omega)
  apply Bv.ext_nat
  · simp only [extractBytes_w, replaceBytes_w]; omega
  · rw [replaceBytes_toNat, Nat.mod_eq_of_lt hr]
    show (((extractBytes b s (B - s)).toNat * 2 ^ x.w + x.toNat) % 2 ^ ((extractBytes b s (B - s)).w + x.w)) = _
    rw [extractBytes_toNat, Nat.mod_eq_of_lt hq, hx, extractBytes_w,
      Nat.mod_eq_of_lt (hi_x_lt _ _ _ _ hq hxl)]
    simp [replaceVal, Nat.mod_eq_of_lt hxl, Nat.mod_one]
    omega


/-- shape `lsb > 0`, `lsb + size = base size`: PIECE(x, SUBPIECE(base, 0, l)) -/
theorem piece_top (b x : Bv) (B l s : Nat) (hb : b.w = 8 * B) (hx : x.w = 8 * s) (hl : 0 < l) (hB : l + s = B) :
    (do let lo ← resToOpt (Ref.subpieceOp 0 l b); resToOpt (Ref.binOp .Piece x lo))
      = some (replaceBytes b l s x.toNat) := by
  rw [subpieceOp_extract b 0 l (by omega) (by omega)]
  simp only [resToOpt, piece_val, Option.bind_eq_bind, Option.bind_some]
  congr 1
  have hbB : b.toNat < 2 ^ (8 * B) := by have := b.toNat_lt; rwa [hb] at this
  have hxl : x.toNat < 2 ^ (8 * s) := by have := x.toNat_lt; rwa [hx] at this
  have hr : replaceVal b.toNat l s x.toNat < 2 ^ b.w := by
    rw [hb]; exact replaceVal_lt _ _ _ _ _ hbB (by omega)
  have hlo : b.toNat % 2 ^ (8 * l) < 2 ^ (8 * l) := Nat.mod_lt _ (pow8_pos l)
  apply Bv.ext_nat
  · simp only [extractBytes_w, replaceBytes_w]; omega
  · rw [replaceBytes_toNat, Nat.mod_eq_of_lt hr]
    show ((x.toNat * 2 ^ (extractBytes b 0 l).w + (extractBytes b 0 l).toNat) % 2 ^ (x.w + (extractBytes b 0 l).w)) = _
    rw [extractBytes_toNat, extractBytes_w, hx]
    have e0 : b.toNat / 2 ^ (8 * 0) = b.toNat := by simp
    rw [e0, Nat.mod_eq_of_lt (hi_x_lt _ _ _ _ hxl hlo)]
    have hz : b.toNat / 2 ^ (8 * (l + s)) = 0 := by
      rw [hB]; exact Nat.div_eq_of_lt hbB
    simp [replaceVal, Nat.mod_eq_of_lt hxl, hz]
    omega

/-- shape `lsb > 0`, `lsb + size < base size`: PIECE(PIECE(SUBPIECE(base, l+s, B-(l+s)), x), SUBPIECE(base, 0, l)) -/
theorem piece_mid (b x : Bv) (B l s : Nat) (hb : b.w = 8 * B) (hx : x.w = 8 * s) (hl : 0 < l) (hB : l + s < B) :
    (do let hi ← resToOpt (Ref.subpieceOp (l + s) (B - (l + s)) b)
        let hx ← resToOpt (Ref.binOp .Piece hi x)
        let lo ← resToOpt (Ref.subpieceOp 0 l b)
        resToOpt (Ref.binOp .Piece hx lo))
      = some (replaceBytes b l s x.toNat) := by
  rw [subpieceOp_extract b (l + s) (B - (l + s)) (by omega) (by omega),
    subpieceOp_extract b 0 l (by omega) (by omega)]
  simp only [resToOpt, piece_val, Option.bind_eq_bind, Option.bind_some]
  congr 1
  have hbB : b.toNat < 2 ^ (8 * B) := by have := b.toNat_lt; rwa [hb] at this
  have hbl : b.toNat < 2 ^ (8 * ((l + s) + (B - (l + s)))) := by
    have e : (l + s) + (B - (l + s)) = B := by omega
    rw [e]; exact hbB
  have hxl : x.toNat < 2 ^ (8 * s) := by have := x.toNat_lt; rwa [hx] at this
  have hq := div_pow8_lt b.toNat (l + s) (B - (l + s)) hbl
  have hr : replaceVal b.toNat l s x.toNat < 2 ^ b.w := by
    rw [hb]; exact replaceVal_lt _ _ _ _ _ hbB (by omega)
  have hlo : b.toNat % 2 ^ (8 * l) < 2 ^ (8 * l) := Nat.mod_lt _ (pow8_pos l)
  have hin := hi_x_lt _ _ _ _ hq hxl
  apply Bv.ext_nat
  · simp only [extractBytes_w, replaceBytes_w]; omega
  · rw [replaceBytes_toNat, Nat.mod_eq_of_lt hr]
    show (((((extractBytes b (l + s) (B - (l + s))).toNat * 2 ^ x.w + x.toNat)
        % 2 ^ ((extractBytes b (l + s) (B - (l + s))).w + x.w)) * 2 ^ (extractBytes b 0 l).w
        + (extractBytes b 0 l).toNat) % 2 ^ (((extractBytes b (l + s) (B - (l + s))).w + x.w) + (extractBytes b 0 l).w)) = _
    rw [extractBytes_toNat, extractBytes_toNat, extractBytes_w, extractBytes_w, hx, Nat.mod_eq_of_lt hq,
      Nat.mod_eq_of_lt hin]
    have e0 : b.toNat / 2 ^ (8 * 0) = b.toNat := by simp
    rw [e0]
    have e8 : 8 * (B - (l + s)) + 8 * s = 8 * (B - (l + s) + s) := by omega
    rw [e8] at hin ⊢
    rw [Nat.mod_eq_of_lt (hi_x_lt _ _ _ _ hin hlo)]
    simp only [replaceVal, Nat.mod_eq_of_lt hxl]
    rw [pow8_add l s, Nat.add_mul]
    generalize 2 ^ (8 * l) = L
    generalize 2 ^ (8 * s) = S
    generalize b.toNat / (L * S) = q
    generalize b.toNat % L = r
    have e1 : q * S * L = q * (L * S) := by rw [Nat.mul_assoc, Nat.mul_comm S L]
    omega

end CweModel.C11
