/-
C11 — def layer: `replace_subregister_in_block` on raw lifted defs. Raw IR with the byte-aliasing semantics
(`execDefA`) and the substituted IR with the plain semantics (`Sem.execDefs`) have the same effect.
-/
import CweModel.C11.PropsState
set_option linter.unusedSimpArgs false
set_option linter.unusedVariables false

namespace CweModel.C11
open CweModel CweModel.IR CweModel.Sem CweModel.Gen.PcodeOps CweModel.C11.Lift

/-! ### aliasing semantics of raw defs -/

def writeVarA (tbl : RegTable) (σ : State) (v : Variable) (x : Bv) : Option State :=
  if x.w != 8 * v.size then none
  else if v.isTemp then some (σ.setReg v x)
  else (regLoc tbl v.name v.size).map (fun l => writeLoc σ l x)

def execDefA (tbl : RegTable) (σ : State) : Def → Option (State × List Event)
  | .Assign v e => do
    let x ← evalA tbl σ e
    let σ' ← writeVarA tbl σ v x
    some (σ', [])
  | .Load v a => do
    let addr ← evalA tbl σ a
    let val := σ.readMem addr.toNat v.size
    let σ' ← writeVarA tbl σ v (Bv.ofBytes v.size val)
    some (σ', [.load addr.toNat v.size val])
  | .Store a e => do
    let addr ← evalA tbl σ a
    let x ← evalA tbl σ e
    some (σ.writeMem addr.toNat x.bytes x.toNat, [.store addr.toNat x.bytes x.toNat])

def execDefsA (tbl : RegTable) (σ : State) : List (Term Def) → Option (State × List Event)
  | [] => some (σ, [])
  | d :: ds => do
    let (σ₁, e₁) ← execDefA tbl σ d.term
    let (σ₂, e₂) ← execDefsA tbl σ₁ ds
    some (σ₂, e₁ ++ e₂)

/-- variables of raw IR as the lifting of in-domain P-Code produces them -/
structure VarOkA (tbl : RegTable) (v : Variable) : Prop where
  size_pos : 0 < v.size
  temp_fresh : v.isTemp = true → regGet tbl v.name = none
  not_lift : ¬ IsLoadedValue v
  fits : ∀ r, v.isTemp = false → regGet tbl v.name = some r → v.size ≤ r.size

def ExprOkA (tbl : RegTable) (e : Expression) : Prop := ∀ v ∈ e.inputVars, VarOkA tbl v

def DefOkA (tbl : RegTable) : Def → Prop
  | .Assign v e => VarOkA tbl v ∧ ExprOkA tbl e
  | .Load v a => VarOkA tbl v ∧ ExprOkA tbl a
  | .Store a e => ExprOkA tbl a ∧ ExprOkA tbl e

theorem ExprOkA.exprOk {tbl : RegTable} {e : Expression} (h : ExprOkA tbl e) : ExprOk tbl e :=
  fun v hv => ⟨(h v hv).size_pos, (h v hv).temp_fresh⟩

theorem regLoc_base_nontemp {tbl : RegTable} {n : String} {s : Nat} {l : Loc} (h : regLoc tbl n s = some l) :
    l.base.isTemp = false := by
  unfold regLoc at h
  cases hr : regGet tbl n with
  | none => simp [hr] at h; subst h; rfl
  | some r =>
    simp only [hr] at h
    cases hb : regGet tbl r.baseRegister with
    | none => simp [hb] at h
    | some b =>
      simp only [hb] at h
      split at h
      · simp at h; subst h; rfl
      · simp at h

theorem not_liftTemp_of_nontemp {v : Variable} (h : v.isTemp = false) : ¬ IsLoadedValue v := by
  intro hl; rw [hl.1] at h; simp at h

/-- evaluation only looks at registers that are not lifting temporaries -/
theorem evalA_congr {tbl : RegTable} {σ ρ : State} (h : Agree IsLoadedValue σ ρ) :
    ∀ e : Expression, (∀ v ∈ e.inputVars, ¬ IsLoadedValue v) → evalA tbl σ e = evalA tbl ρ e := by
  intro e
  induction e with
  | Var v =>
    intro hv
    have hnl := hv v (by simp [Expression.inputVars])
    simp only [evalA, readVarA]
    by_cases ht : v.isTemp = true
    · simp [ht, h.regs v hnl]
    · simp only [ht, Bool.false_eq_true, if_false]
      cases hl : regLoc tbl v.name v.size with
      | none => simp
      | some l =>
        simp only [Option.map_some, readLoc]
        rw [h.regs l.base (not_liftTemp_of_nontemp (regLoc_base_nontemp hl))]
  | Const b x => intro _; rfl
  | Unknown d s => intro _; simp [evalA, h.seed]
  | BinOp op l r ihl ihr =>
    intro hv
    simp only [evalA]
    rw [ihl (fun v hv' => hv v (by simp [Expression.inputVars, hv'])),
      ihr (fun v hv' => hv v (by simp [Expression.inputVars, hv']))]
  | UnOp op a ih => intro hv; simp only [evalA]; rw [ih (fun v hv' => hv v (by simpa [Expression.inputVars] using hv'))]
  | Cast op s a ih => intro hv; simp only [evalA]; rw [ih (fun v hv' => hv v (by simpa [Expression.inputVars] using hv'))]
  | Subpiece lb s a ih => intro hv; simp only [evalA]; rw [ih (fun v hv' => hv v (by simpa [Expression.inputVars] using hv'))]

/-- **C11-input.** `replace_input_subregister` preserves the value of an expression: evaluated over
base registers (in any state that agrees up to lifting temporaries) it yields the value the raw expression
has under register aliasing. -/
theorem input_sound {tbl : RegTable} (ht : tableOk tbl = true) {σ ρ : State} (hag : Agree IsLoadedValue σ ρ) (hρ : WellTyped ρ)
    {e : Expression} (hok : ExprOkA tbl e) {x : Bv} (h : evalA tbl σ e = some x) :
    ∃ e', replaceInputSubregister tbl e = some e' ∧ eval ρ e' = some x := by
  rw [evalA_congr hag e (fun v hv => (hok v hv).not_lift)] at h
  obtain ⟨e', h1, h2⟩ := substAll_sound ht hρ e hok.exprOk h
  exact ⟨e', replaceInputSubregister_eq ht e h1, h2⟩

/-- what a write to a raw IR variable does, by the classification `outputSubregister` of the lifting -/
theorem writeVarA_cases {tbl : RegTable} (ht : tableOk tbl = true) {σ : State} (hσ : WellTyped σ)
    {v : Variable} (hv : VarOkA tbl v) {x : Bv} {σ' : State} (h : writeVarA tbl σ v x = some σ') :
    x.w = 8 * v.size ∧
    ((outputSubregister tbl v = some none ∧ σ' = σ.setReg v x) ∨
     (∃ r b, outputSubregister tbl v = some (some (r, b)) ∧ regGet tbl v.name = some r ∧ EntryOk tbl r b ∧
        v.isTemp = false ∧ r.lsb + v.size ≤ b.size ∧ v.size < b.size ∧
        σ' = σ.setReg ⟨b.register, b.size, false⟩
          (replaceBytes (σ.getReg ⟨b.register, b.size, false⟩) r.lsb v.size x.toNat))) := by
  unfold writeVarA at h
  by_cases hw : x.w = 8 * v.size
  · refine ⟨hw, ?_⟩
    have hw' : (x.w != 8 * v.size) = false := by simp [hw]
    simp only [hw', Bool.false_eq_true, if_false] at h
    by_cases htmp : v.isTemp = true
    · simp only [htmp, if_true, Option.some.injEq] at h
      left
      exact ⟨by simp [outputSubregister, hv.temp_fresh htmp], h.symm⟩
    · have hvf : v.isTemp = false := by simpa using htmp
      have hveq : (⟨v.name, v.size, false⟩ : Variable) = v := by cases v; simp_all
      simp only [htmp, Bool.false_eq_true, if_false] at h
      cases hr : regGet tbl v.name with
      | none =>
        left
        simp only [regLoc, hr, Option.map_some, Option.some.injEq] at h
        refine ⟨by simp [outputSubregister, hr], ?_⟩
        rw [← h, writeLoc]
        simp only [hveq]
        rw [replaceBytes_full _ _ _ (hσ v) hw]
      | some r =>
        obtain ⟨b, hb⟩ := tableOk_get ht hr
        have hrn := regGet_name hr
        have hbn := regGet_name hb.base
        simp only [regLoc, hr, hb.base] at h
        by_cases hin : r.lsb + v.size ≤ b.size
        · simp only [hin, if_true, Option.map_some, Option.some.injEq] at h
          by_cases hsub : isSubregisterAssignment v b = true
          · right
            refine ⟨r, b, by simp [outputSubregister, hr, hb.base, hsub], rfl, hb, hvf, hin, ?_, ?_⟩
            · simp only [isSubregisterAssignment, Bool.or_eq_true, bne_iff_ne, ne_eq, decide_eq_true_eq] at hsub
              rcases hsub with hne | hlt
              · have : r.register ≠ r.baseRegister := by rw [hrn, ← hbn]; exact hne
                have := hb.proper this
                have := hv.fits r hvf hr
                omega
              · exact hlt
            · rw [← h]; rfl
          · left
            have hsub' : isSubregisterAssignment v b = false := by simpa using hsub
            refine ⟨by simp [outputSubregister, hr, hb.base, hsub'], ?_⟩
            simp only [isSubregisterAssignment, Bool.or_eq_false_iff, bne_eq_false_iff_eq,
              decide_eq_false_iff_not, Nat.not_lt] at hsub'
            have hself : r.register = r.baseRegister := by rw [hrn, ← hbn]; exact hsub'.1
            obtain ⟨hl0, hsz⟩ := hb.whole hself
            have hvs : v.size = b.size := by omega
            have hbv : (⟨b.register, b.size, false⟩ : Variable) = v := by
              rw [← hsub'.1, ← hvs]; exact hveq
            rw [← h, writeLoc]
            simp only [hbv, hl0]
            rw [replaceBytes_full _ _ _ (hσ v) hw]
        · simp [hin] at h
  · have hw' : (x.w != 8 * v.size) = true := by simp [hw]
    simp [hw'] at h


/-! ### simulation of `replace_subregister_in_block` on defs -/

theorem execDefs_single (ρ : State) (d : Term Def) : Sem.execDefs ρ [d] = (Sem.execDef ρ d.term).map (fun p => (p.1, p.2 ++ [])) := by
  simp only [Sem.execDefs, Option.bind_eq_bind]
  cases h : Sem.execDef ρ d.term with
  | none => rfl
  | some p => obtain ⟨a, b⟩ := p; rfl

theorem exec_assign (ρ : State) (t : Tid) (v : Variable) (e : Expression) (x : Bv)
    (he : eval ρ e = some x) (hw : x.w = 8 * v.size) :
    Sem.execDefs ρ [⟨t, .Assign v e⟩] = some (ρ.setReg v x, []) := by
  simp [Sem.execDefs, Sem.execDef, he, hw]

/-- a sub-register assignment that is not fused with a following cast, and plain assignments -/
theorem assign_nofuse {tbl : RegTable} (ht : tableOk tbl = true) {σ ρ : State} (hag : Agree IsLoadedValue σ ρ)
    (hσ : WellTyped σ) (hρ : WellTyped ρ) (t : Tid) (v : Variable) (e : Expression)
    (hv : VarOkA tbl v) (he : ExprOkA tbl e) (next : Option (Term Def))
    {σ₁ : State} {ev : List Event} (hx : execDefA tbl σ (.Assign v e) = some (σ₁, ev))
    (hnf : ∀ r b, outputSubregister tbl v = some (some (r, b)) → isNextDefCastToBase tbl v next = false) :
    ∃ out ρ₁, replaceStep tbl ⟨t, .Assign v e⟩ next = some (out, false) ∧
      Sem.execDefs ρ out = some (ρ₁, ev) ∧ Agree IsLoadedValue σ₁ ρ₁ ∧ WellTyped σ₁ ∧ WellTyped ρ₁ := by
  simp only [execDefA, Option.bind_eq_bind] at hx
  cases hxe : evalA tbl σ e with
  | none => simp [hxe] at hx
  | some x =>
    cases hwr : writeVarA tbl σ v x with
    | none => simp [hxe, hwr] at hx
    | some σ' =>
      simp only [hxe, hwr, Option.bind_some, Option.some.injEq, Prod.mk.injEq] at hx
      obtain ⟨rfl, rfl⟩ := hx
      obtain ⟨e', he1, he2⟩ := input_sound ht hag hρ he hxe
      obtain ⟨hw, hcase⟩ := writeVarA_cases ht hσ hv hwr
      rcases hcase with ⟨hout, rfl⟩ | ⟨r, b, hout, hr, hb, hvf, hin, hlt, rfl⟩
      · refine ⟨[⟨t, .Assign v e'⟩], ρ.setReg v x, ?_, exec_assign ρ t v e' x he2 hw, hag.setReg v x,
          hσ.setReg v x hw, hρ.setReg v x hw⟩
        simp [replaceStep, replaceInputsDef, he1, hout]
      · have hnf' := hnf r b hout
        let bv : Variable := ⟨b.register, b.size, false⟩
        have hbl : ¬ IsLoadedValue bv := not_liftTemp_of_nontemp rfl
        have hpe := eval_pieceTogether ρ e' b.register b.size r.lsb v.size x he2 (hρ bv) hw hin hlt
        have hreg : ρ.getReg bv = σ.getReg bv := (hag.regs bv hbl).symm
        have hzw : (replaceBytes (σ.getReg bv) r.lsb v.size x.toNat).w = 8 * bv.size := by
          rw [replaceBytes_w]; exact hσ bv
        refine ⟨[⟨t, .Assign bv (pieceTogether e' b.register b.size r.lsb v.size)⟩],
          ρ.setReg bv (replaceBytes (σ.getReg bv) r.lsb v.size x.toNat), ?_, ?_, hag.setReg _ _,
          hσ.setReg _ _ hzw, hρ.setReg _ _ hzw⟩
        · simp [replaceStep, replaceInputsDef, he1, hout, hnf']
          rfl
        · apply exec_assign
          · rw [hpe, hreg]
          · exact hzw


/-- what `is_next_def_cast_to_base_register` establishes -/
theorem fuse_facts {tbl : RegTable} {v : Variable} {next : Option (Term Def)}
    (h : isNextDefCastToBase tbl v next = true) :
    ∃ t w op sz reg ireg, next = some ⟨t, .Assign w (.Cast op sz (.Var v))⟩ ∧ regGet tbl w.name = some reg ∧
      regGet tbl v.name = some ireg ∧ ireg.register ≠ ireg.baseRegister ∧ ireg.baseRegister = reg.register ∧
      w.size = reg.size := by
  unfold isNextDefCastToBase at h
  split at h
  · rename_i t w op sz cv
    split at h
    · rename_i reg ireg hreg hireg
      simp only [Bool.and_eq_true, beq_iff_eq, bne_iff_ne, ne_eq, decide_eq_true_eq] at h
      obtain ⟨⟨⟨hcv, hne⟩, hbase⟩, hsz⟩ := h
      subst hcv
      exact ⟨t, w, op, sz, reg, ireg, rfl, hreg, hireg, hne, hbase, hsz⟩
    · simp at h
  · simp at h

/-- the second half of the cast-to-base idiom under the aliasing semantics: the cast reads back exactly the
value just written to the sub-register and overwrites the whole base register -/
theorem fuse_tail {tbl : RegTable} (ht : tableOk tbl = true) {σ : State} (hσ : WellTyped σ)
    {v : Variable} {x : Bv} (hw : x.w = 8 * v.size)
    {ireg b : Pcode.RegisterProperties} (hireg : regGet tbl v.name = some ireg) (hb : EntryOk tbl ireg b)
    (hvf : v.isTemp = false) (hin : ireg.lsb + v.size ≤ b.size)
    {tn : Tid} {w : Variable} {op : CastOpType} {sz : Nat}
    (hnok : DefOkA tbl (.Assign w (.Cast op sz (.Var v))))
    (hf : isNextDefCastToBase tbl v (some ⟨tn, .Assign w (.Cast op sz (.Var v))⟩) = true)
    {σ₂ : State} {ev₂ : List Event}
    (hx₂ : execDefA tbl (σ.setReg ⟨b.register, b.size, false⟩
        (replaceBytes (σ.getReg ⟨b.register, b.size, false⟩) ireg.lsb v.size x.toNat))
        (.Assign w (.Cast op sz (.Var v))) = some (σ₂, ev₂)) :
    ∃ y, w = ⟨b.register, b.size, false⟩ ∧ resToOpt (Ref.cast op sz x) = some y ∧ y.w = 8 * b.size ∧ ev₂ = [] ∧
      σ₂ = (σ.setReg ⟨b.register, b.size, false⟩
        (replaceBytes (σ.getReg ⟨b.register, b.size, false⟩) ireg.lsb v.size x.toNat)).setReg
          ⟨b.register, b.size, false⟩ y := by
  obtain ⟨tn', w', op', sz', reg, ireg', hnext, hreg, hireg', hne, hbase, hwsz⟩ := fuse_facts hf
  simp only [Option.some.injEq, Term.mk.injEq, Def.Assign.injEq, Expression.Cast.injEq, true_and] at hnext
  obtain ⟨_, rfl, rfl, rfl, _⟩ := hnext
  rw [hireg] at hireg'
  simp only [Option.some.injEq] at hireg'
  subst hireg'
  have hwn := regGet_name hreg
  -- the target of the cast is the full base register of `v`
  have hb_reg : reg = b := by
    have := hb.base
    rw [hbase, hwn, hreg] at this
    exact (Option.some.inj this)
  subst hb_reg
  have hwt : w.isTemp = false := by
    cases hwt : w.isTemp with
    | false => rfl
    | true => have := hnok.1.temp_fresh hwt; rw [hreg] at this; simp at this
  have hw_eq : w = ⟨reg.register, reg.size, false⟩ := by
    cases w; simp_all
  subst hw_eq
  have hloc : regLoc tbl v.name v.size = some ⟨⟨reg.register, reg.size, false⟩, ireg.lsb, v.size⟩ := by
    simp [regLoc, hireg, hb.base, hin]
  have hback : readVarA tbl (σ.setReg ⟨reg.register, reg.size, false⟩
      (replaceBytes (σ.getReg ⟨reg.register, reg.size, false⟩) ireg.lsb v.size x.toNat)) v = some x := by
    simp only [readVarA, hvf, Bool.false_eq_true, if_false, hloc, Option.map_some, readLoc, getReg_setReg,
      if_true]
    rw [extract_replace _ reg.size _ _ _ (hσ _) hw hin]
  simp only [execDefA, evalA, hback, Option.bind_eq_bind, Option.bind_some] at hx₂
  cases hy : resToOpt (Ref.cast op sz x) with
  | none => simp [hy] at hx₂
  | some y =>
    simp only [hy, Option.bind_some] at hx₂
    cases hwr₂ : writeVarA tbl (σ.setReg ⟨reg.register, reg.size, false⟩
        (replaceBytes (σ.getReg ⟨reg.register, reg.size, false⟩) ireg.lsb v.size x.toNat))
        ⟨reg.register, reg.size, false⟩ y with
    | none => simp [hwr₂] at hx₂
    | some σ'' =>
      simp only [hwr₂, Option.bind_some, Option.some.injEq, Prod.mk.injEq] at hx₂
      obtain ⟨rfl, rfl⟩ := hx₂
      have hz : (replaceBytes (σ.getReg ⟨reg.register, reg.size, false⟩) ireg.lsb v.size x.toNat).w
          = 8 * (⟨reg.register, reg.size, false⟩ : Variable).size := by
        rw [replaceBytes_w]; exact hσ _
      have hσ₁ := hσ.setReg _ _ hz
      obtain ⟨hyw, hcase₂⟩ := writeVarA_cases ht hσ₁ hnok.1 hwr₂
      rcases hcase₂ with ⟨_, rfl⟩ | ⟨r', b', _, hr', hb', _, _, hlt', _⟩
      · exact ⟨y, rfl, rfl, hyw, rfl, rfl⟩
      · exfalso
        simp only at hr'
        rw [hreg] at hr'
        simp only [Option.some.injEq] at hr'
        subst hr'
        have := hb'.base
        rw [hb.base_self, hreg] at this
        simp only [Option.some.injEq] at this
        subst this
        simp at hlt'

/-- a fused next def exists only behind a proper sub-register -/
theorem fuse_is_sub {tbl : RegTable} (ht : tableOk tbl = true) {v : Variable} {next : Option (Term Def)}
    (hf : isNextDefCastToBase tbl v next = true) : outputSubregister tbl v ≠ some none := by
  obtain ⟨tn, w, op, sz, reg, ireg, hnext, hreg, hireg, hne, hbase, hwsz⟩ := fuse_facts hf
  obtain ⟨b, hb⟩ := tableOk_get ht hireg
  have hbn := regGet_name hb.base
  have hvn := regGet_name hireg
  have : isSubregisterAssignment v b = true := by
    simp only [isSubregisterAssignment, Bool.or_eq_true, bne_iff_ne, ne_eq, decide_eq_true_eq]
    left; rw [← hvn, hbn]; exact hne
  simp [outputSubregister, hireg, hb.base, this]

/-- the cast-to-base idiom: `sub = e; BASE = CAST(sub)` is fused into `BASE = CAST(e)` -/
theorem assign_fuse {tbl : RegTable} (ht : tableOk tbl = true) {σ ρ : State} (hag : Agree IsLoadedValue σ ρ)
    (hσ : WellTyped σ) (hρ : WellTyped ρ) (t : Tid) (v : Variable) (e : Expression)
    (hv : VarOkA tbl v) (he : ExprOkA tbl e) (n : Term Def) (hn : DefOkA tbl n.term)
    {σ₁ σ₂ : State} {ev₁ ev₂ : List Event} (hx : execDefA tbl σ (.Assign v e) = some (σ₁, ev₁))
    (hx₂ : execDefA tbl σ₁ n.term = some (σ₂, ev₂))
    (hf : isNextDefCastToBase tbl v (some n) = true) :
    ∃ out ρ₂, replaceStep tbl ⟨t, .Assign v e⟩ (some n) = some (out, true) ∧
      Sem.execDefs ρ out = some (ρ₂, ev₁ ++ ev₂) ∧ Agree IsLoadedValue σ₂ ρ₂ ∧ WellTyped σ₂ ∧ WellTyped ρ₂ := by
  obtain ⟨tn, w, op, sz, reg, ireg, hnext, hreg, hireg, hne, hbase, hwsz⟩ := fuse_facts hf
  simp only [Option.some.injEq] at hnext
  subst hnext
  simp only [execDefA, Option.bind_eq_bind] at hx
  cases hxe : evalA tbl σ e with
  | none => simp [hxe] at hx
  | some x =>
    cases hwr : writeVarA tbl σ v x with
    | none => simp [hxe, hwr] at hx
    | some σ' =>
      simp only [hxe, hwr, Option.bind_some, Option.some.injEq, Prod.mk.injEq] at hx
      obtain ⟨rfl, rfl⟩ := hx
      obtain ⟨e', he1, he2⟩ := input_sound ht hag hρ he hxe
      obtain ⟨hw, hcase⟩ := writeVarA_cases ht hσ hv hwr
      rcases hcase with ⟨hout, _⟩ | ⟨r, b, hout, hr, hb, hvf, hin, hlt, rfl⟩
      · exact absurd hout (fuse_is_sub ht hf)
      · obtain ⟨y, rfl, hy, hyw, rfl, rfl⟩ := fuse_tail ht hσ hw hr hb hvf hin hn hf hx₂
        have hz : (replaceBytes (σ.getReg ⟨b.register, b.size, false⟩) r.lsb v.size x.toNat).w
            = 8 * (⟨b.register, b.size, false⟩ : Variable).size := by
          rw [replaceBytes_w]; exact hσ _
        refine ⟨[⟨tn, .Assign ⟨b.register, b.size, false⟩ (.Cast op sz e')⟩],
          ρ.setReg ⟨b.register, b.size, false⟩ y, ?_, ?_, ?_, (hσ.setReg _ _ hz).setReg _ _ hyw,
          hρ.setReg _ _ hyw⟩
        · simp [replaceStep, replaceInputsDef, he1, hout, hf, Expression.substVar]
        · simp only [List.append_nil]
          apply exec_assign _ _ _ _ _ _ hyw
          simp [eval, he2, hy]
        · refine ⟨hag.seed, hag.ptr, hag.endian, hag.mem, fun u hu => ?_⟩
          rw [getReg_setReg, getReg_setReg, getReg_setReg]
          by_cases hu' : u = ⟨b.register, b.size, false⟩
          · simp [hu']
          · simp [hu', hag.regs u hu]

theorem execDefs_cons (ρ : State) (d : Term Def) (ds : List (Term Def)) {ρ₁ ρ₂ : State} {e₁ e₂ : List Event}
    (h₁ : Sem.execDef ρ d.term = some (ρ₁, e₁)) (h₂ : Sem.execDefs ρ₁ ds = some (ρ₂, e₂)) :
    Sem.execDefs ρ (d :: ds) = some (ρ₂, e₁ ++ e₂) := by
  simp [Sem.execDefs, h₁, h₂]

theorem isLiftTemp_loaded (s : Nat) : IsLoadedValue ⟨"loaded_value", s, true⟩ := ⟨rfl, rfl⟩

theorem exec_load {σ ρ : State} (hag : Agree IsLoadedValue σ ρ) (t : Tid) (v : Variable) (a : Expression) (addr : Bv)
    (ha : eval ρ a = some addr) :
    Sem.execDef ρ (.Load v a) = some (ρ.setReg v (Bv.ofBytes v.size (σ.readMem addr.toNat v.size)),
      [.load addr.toNat v.size (σ.readMem addr.toNat v.size)]) := by
  simp [Sem.execDef, ha, hag.readMem]

/-- loads into plain registers and loads into sub-registers that are not fused with a following cast -/
theorem load_nofuse {tbl : RegTable} (ht : tableOk tbl = true) {σ ρ : State} (hag : Agree IsLoadedValue σ ρ)
    (hσ : WellTyped σ) (hρ : WellTyped ρ) (t : Tid) (v : Variable) (a : Expression)
    (hv : VarOkA tbl v) (ha : ExprOkA tbl a) (next : Option (Term Def))
    {σ₁ : State} {ev : List Event} (hx : execDefA tbl σ (.Load v a) = some (σ₁, ev))
    (hnf : ∀ r b, outputSubregister tbl v = some (some (r, b)) → isNextDefCastToBase tbl v next = false) :
    ∃ out ρ₁, replaceStep tbl ⟨t, .Load v a⟩ next = some (out, false) ∧
      Sem.execDefs ρ out = some (ρ₁, ev) ∧ Agree IsLoadedValue σ₁ ρ₁ ∧ WellTyped σ₁ ∧ WellTyped ρ₁ := by
  simp only [execDefA, Option.bind_eq_bind] at hx
  cases hxa : evalA tbl σ a with
  | none => simp [hxa] at hx
  | some addr =>
    cases hwr : writeVarA tbl σ v (Bv.ofBytes v.size (σ.readMem addr.toNat v.size)) with
    | none => simp [hxa, hwr] at hx
    | some σ' =>
      simp only [hxa, hwr, Option.bind_some, Option.some.injEq, Prod.mk.injEq] at hx
      obtain ⟨rfl, rfl⟩ := hx
      obtain ⟨a', ha1, ha2⟩ := input_sound ht hag hρ ha hxa
      obtain ⟨hw, hcase⟩ := writeVarA_cases ht hσ hv hwr
      rcases hcase with ⟨hout, rfl⟩ | ⟨r, b, hout, hr, hb, hvf, hin, hlt, rfl⟩
      · refine ⟨[⟨t, .Load v a'⟩], ρ.setReg v (Bv.ofBytes v.size (σ.readMem addr.toNat v.size)), ?_, ?_,
          hag.setReg _ _, hσ.setReg _ _ hw, hρ.setReg _ _ hw⟩
        · simp [replaceStep, replaceInputsDef, ha1, hout]
        · have := execDefs_cons ρ ⟨t, .Load v a'⟩ [] (exec_load hag t v a' addr ha2) rfl
          simpa using this
      · have hnf' := hnf r b hout
        let x := Bv.ofBytes v.size (σ.readMem addr.toNat v.size)
        let tmp : Variable := ⟨"loaded_value", v.size, true⟩
        let bv : Variable := ⟨b.register, b.size, false⟩
        have htl : IsLoadedValue tmp := isLiftTemp_loaded v.size
        have hρa : WellTyped (ρ.setReg tmp x) := hρ.setReg tmp x rfl
        have haga : Agree IsLoadedValue σ (ρ.setReg tmp x) := hag.setTempRight tmp htl x
        have hne : bv ≠ tmp := by
          intro h
          have := congrArg Variable.isTemp h
          simp [bv, tmp] at this
        have hgb : (ρ.setReg tmp x).getReg bv = σ.getReg bv := by
          rw [getReg_setReg]; simp only [hne, if_false]
          exact (hag.regs bv (not_liftTemp_of_nontemp rfl)).symm
        have hev : eval (ρ.setReg tmp x) (.Var tmp) = some x := by simp [eval, getReg_setReg]
        have hpe := eval_pieceTogether (ρ.setReg tmp x) (.Var tmp) b.register b.size r.lsb v.size x hev
          (hρa bv) hw hin hlt
        have hzw : (replaceBytes (σ.getReg bv) r.lsb v.size x.toNat).w = 8 * bv.size := by
          rw [replaceBytes_w]; exact hσ bv
        refine ⟨[⟨t, .Load tmp a'⟩, ⟨t.withIdSuffix "_cast_to_base", .Assign bv
            (pieceTogether (.Var tmp) b.register b.size r.lsb v.size)⟩],
          (ρ.setReg tmp x).setReg bv (replaceBytes (σ.getReg bv) r.lsb v.size x.toNat), ?_, ?_,
          haga.setReg _ _, hσ.setReg _ _ hzw, hρa.setReg _ _ hzw⟩
        · simp [replaceStep, replaceInputsDef, ha1, hout, hnf']
          repeat' constructor
        · have h2 := exec_assign (ρ.setReg tmp x) (t.withIdSuffix "_cast_to_base") bv
            (pieceTogether (.Var tmp) b.register b.size r.lsb v.size)
            (replaceBytes (σ.getReg bv) r.lsb v.size x.toNat) (by rw [hpe, hgb]) hzw
          have := execDefs_cons ρ ⟨t, .Load tmp a'⟩ _ (exec_load hag t tmp a' addr ha2) h2
          simpa using this


/-- the cast-to-base idiom behind a load: `sub = *a; BASE = CAST(sub)` becomes
`loaded_value = *a; BASE = CAST(loaded_value)` -/
theorem load_fuse {tbl : RegTable} (ht : tableOk tbl = true) {σ ρ : State} (hag : Agree IsLoadedValue σ ρ)
    (hσ : WellTyped σ) (hρ : WellTyped ρ) (t : Tid) (v : Variable) (a : Expression)
    (hv : VarOkA tbl v) (ha : ExprOkA tbl a) (n : Term Def) (hn : DefOkA tbl n.term)
    {σ₁ σ₂ : State} {ev₁ ev₂ : List Event} (hx : execDefA tbl σ (.Load v a) = some (σ₁, ev₁))
    (hx₂ : execDefA tbl σ₁ n.term = some (σ₂, ev₂))
    (hf : isNextDefCastToBase tbl v (some n) = true) :
    ∃ out ρ₂, replaceStep tbl ⟨t, .Load v a⟩ (some n) = some (out, true) ∧
      Sem.execDefs ρ out = some (ρ₂, ev₁ ++ ev₂) ∧ Agree IsLoadedValue σ₂ ρ₂ ∧ WellTyped σ₂ ∧ WellTyped ρ₂ := by
  obtain ⟨tn, w, op, sz, reg, ireg, hnext, hreg, hireg, hne, hbase, hwsz⟩ := fuse_facts hf
  simp only [Option.some.injEq] at hnext
  subst hnext
  simp only [execDefA, Option.bind_eq_bind] at hx
  cases hxa : evalA tbl σ a with
  | none => simp [hxa] at hx
  | some addr =>
    cases hwr : writeVarA tbl σ v (Bv.ofBytes v.size (σ.readMem addr.toNat v.size)) with
    | none => simp [hxa, hwr] at hx
    | some σ' =>
      simp only [hxa, hwr, Option.bind_some, Option.some.injEq, Prod.mk.injEq] at hx
      obtain ⟨rfl, rfl⟩ := hx
      obtain ⟨a', ha1, ha2⟩ := input_sound ht hag hρ ha hxa
      obtain ⟨hw, hcase⟩ := writeVarA_cases ht hσ hv hwr
      rcases hcase with ⟨hout, _⟩ | ⟨r, b, hout, hr, hb, hvf, hin, hlt, rfl⟩
      · exact absurd hout (fuse_is_sub ht hf)
      · obtain ⟨y, rfl, hy, hyw, rfl, rfl⟩ := fuse_tail ht hσ hw hr hb hvf hin hn hf hx₂
        let x := Bv.ofBytes v.size (σ.readMem addr.toNat v.size)
        let tmp : Variable := ⟨"loaded_value", v.size, true⟩
        have htl : IsLoadedValue tmp := isLiftTemp_loaded v.size
        have hρa : WellTyped (ρ.setReg tmp x) := hρ.setReg tmp x rfl
        have haga : Agree IsLoadedValue σ (ρ.setReg tmp x) := hag.setTempRight tmp htl x
        have hz : (replaceBytes (σ.getReg ⟨b.register, b.size, false⟩) r.lsb v.size x.toNat).w
            = 8 * (⟨b.register, b.size, false⟩ : Variable).size := by
          rw [replaceBytes_w]; exact hσ _
        refine ⟨[⟨t, .Load tmp a'⟩, ⟨tn, .Assign ⟨b.register, b.size, false⟩ (.Cast op sz (.Var tmp))⟩],
          (ρ.setReg tmp x).setReg ⟨b.register, b.size, false⟩ y, ?_, ?_, ?_, (hσ.setReg _ _ hz).setReg _ _ hyw,
          hρa.setReg _ _ hyw⟩
        · simp [replaceStep, replaceInputsDef, ha1, hout, hf, Expression.substVar]
          rfl
        · have h2 := exec_assign (ρ.setReg tmp x) tn ⟨b.register, b.size, false⟩ (.Cast op sz (.Var tmp)) y
            (by simp [eval, getReg_setReg]; exact hy) hyw
          have := execDefs_cons ρ ⟨t, .Load tmp a'⟩ _ (exec_load hag t tmp a' addr ha2) h2
          simpa using this
        · refine ⟨haga.seed, haga.ptr, haga.endian, haga.mem, fun u hu => ?_⟩
          rw [getReg_setReg, getReg_setReg, getReg_setReg]
          by_cases hu' : u = ⟨b.register, b.size, false⟩
          · simp [hu']
          · simp [hu', haga.regs u hu]

theorem store_step {tbl : RegTable} (ht : tableOk tbl = true) {σ ρ : State} (hag : Agree IsLoadedValue σ ρ)
    (hσ : WellTyped σ) (hρ : WellTyped ρ) (t : Tid) (a e : Expression)
    (ha : ExprOkA tbl a) (he : ExprOkA tbl e) (next : Option (Term Def))
    {σ₁ : State} {ev : List Event} (hx : execDefA tbl σ (.Store a e) = some (σ₁, ev)) :
    ∃ out ρ₁, replaceStep tbl ⟨t, .Store a e⟩ next = some (out, false) ∧
      Sem.execDefs ρ out = some (ρ₁, ev) ∧ Agree IsLoadedValue σ₁ ρ₁ ∧ WellTyped σ₁ ∧ WellTyped ρ₁ := by
  simp only [execDefA, Option.bind_eq_bind] at hx
  cases hxa : evalA tbl σ a with
  | none => simp [hxa] at hx
  | some addr =>
    cases hxe : evalA tbl σ e with
    | none => simp [hxa, hxe] at hx
    | some x =>
      simp only [hxa, hxe, Option.bind_some, Option.some.injEq, Prod.mk.injEq] at hx
      obtain ⟨rfl, rfl⟩ := hx
      obtain ⟨a', ha1, ha2⟩ := input_sound ht hag hρ ha hxa
      obtain ⟨e', he1, he2⟩ := input_sound ht hag hρ he hxe
      refine ⟨[⟨t, .Store a' e'⟩], ρ.writeMem addr.toNat x.bytes x.toNat, ?_, ?_, hag.writeMem _ _ _,
        hσ.writeMem _ _ _, hρ.writeMem _ _ _⟩
      · simp [replaceStep, replaceInputsDef, ha1, he1]
      · simp [Sem.execDefs, Sem.execDef, ha2, he2]


theorem execDefs_append (ρ : State) (a b : List (Term Def)) {ρ₁ ρ₂ : State} {e₁ e₂ : List Event}
    (h₁ : Sem.execDefs ρ a = some (ρ₁, e₁)) (h₂ : Sem.execDefs ρ₁ b = some (ρ₂, e₂)) :
    Sem.execDefs ρ (a ++ b) = some (ρ₂, e₁ ++ e₂) := by
  induction a generalizing ρ e₁ with
  | nil => simp [Sem.execDefs] at h₁; obtain ⟨rfl, rfl⟩ := h₁; simpa using h₂
  | cons d ds ih =>
    simp only [Sem.execDefs, Option.bind_eq_bind] at h₁
    cases hd : Sem.execDef ρ d.term with
    | none => simp [hd] at h₁
    | some p =>
      obtain ⟨ρa, ea⟩ := p
      cases hds : Sem.execDefs ρa ds with
      | none => simp [hd, hds] at h₁
      | some q =>
        obtain ⟨ρb, eb⟩ := q
        simp [hd, hds] at h₁
        obtain ⟨rfl, rfl⟩ := h₁
        have := ih ρa hds
        simp [Sem.execDefs, hd, this, List.append_assoc]

theorem replaceDefs_nil (tbl : RegTable) : replaceDefs tbl [] = some [] := by
  unfold replaceDefs; rfl

theorem replaceDefs_cons (tbl : RegTable) (d : Term Def) (rest : List (Term Def)) :
    replaceDefs tbl (d :: rest) = (do
      let (out, consumed) ← replaceStep tbl d rest.head?
      let tail ← replaceDefs tbl (if consumed then rest.tail else rest)
      some (out ++ tail)) := by
  rw [replaceDefs]

/-- **C11-substitution of a block.** `replace_subregister_in_block` on the defs of a block: raw lifted defs
under the byte-aliasing semantics and the substituted defs under the plain IR semantics have the same
events and lead to states that agree on every register except lifting temporaries. -/
theorem replaceDefs_sim {tbl : RegTable} (ht : tableOk tbl = true) :
    ∀ (n : Nat) (ds : List (Term Def)), ds.length ≤ n → ∀ {σ ρ σ' : State} {ev : List Event},
      (∀ d ∈ ds, DefOkA tbl d.term) → Agree IsLoadedValue σ ρ → WellTyped σ → WellTyped ρ →
      execDefsA tbl σ ds = some (σ', ev) →
      ∃ ds' ρ', replaceDefs tbl ds = some ds' ∧ Sem.execDefs ρ ds' = some (ρ', ev) ∧ Agree IsLoadedValue σ' ρ' ∧
        WellTyped σ' ∧ WellTyped ρ' := by
  intro n
  induction n with
  | zero =>
    intro ds hlen σ ρ σ' ev _ hag hσ hρ hx
    have : ds = [] := List.eq_nil_of_length_eq_zero (by omega)
    subst this
    simp [execDefsA] at hx
    obtain ⟨rfl, rfl⟩ := hx
    exact ⟨[], ρ, replaceDefs_nil tbl, rfl, hag, hσ, hρ⟩
  | succ n ih =>
    intro ds hlen σ ρ σ' ev hok hag hσ hρ hx
    cases ds with
    | nil =>
      simp [execDefsA] at hx
      obtain ⟨rfl, rfl⟩ := hx
      exact ⟨[], ρ, replaceDefs_nil tbl, rfl, hag, hσ, hρ⟩
    | cons d rest =>
      obtain ⟨t, dt⟩ := d
      simp only [execDefsA, Option.bind_eq_bind] at hx
      cases hd : execDefA tbl σ dt with
      | none => simp [hd] at hx
      | some p =>
        obtain ⟨σ₁, e₁⟩ := p
        cases hr : execDefsA tbl σ₁ rest with
        | none => simp [hd, hr] at hx
        | some q =>
          obtain ⟨σ₂, e₂⟩ := q
          simp only [hd, hr, Option.bind_some, Option.some.injEq, Prod.mk.injEq] at hx
          obtain ⟨rfl, rfl⟩ := hx
          have hokd : DefOkA tbl dt := hok ⟨t, dt⟩ (by simp)
          have hokr : ∀ d ∈ rest, DefOkA tbl d.term := fun d hd' => hok d (by simp [hd'])
          have hlenr : rest.length ≤ n := by simp at hlen; omega
          -- the step does not consume the next def
          have nofuse : ∀ {out : List (Term Def)} {ρ₁ : State},
              replaceStep tbl ⟨t, dt⟩ rest.head? = some (out, false) → Sem.execDefs ρ out = some (ρ₁, e₁) →
              Agree IsLoadedValue σ₁ ρ₁ → WellTyped σ₁ → WellTyped ρ₁ →
              ∃ ds' ρ', replaceDefs tbl (⟨t, dt⟩ :: rest) = some ds' ∧ Sem.execDefs ρ ds' = some (ρ', e₁ ++ e₂) ∧
                Agree IsLoadedValue σ₂ ρ' ∧ WellTyped σ₂ ∧ WellTyped ρ' := by
            intro out ρ₁ hstep hexec hag₁ hσ₁ hρ₁
            obtain ⟨ds', ρ', h1, h2, h3, h4, h5⟩ := ih rest hlenr hokr hag₁ hσ₁ hρ₁ hr
            exact ⟨out ++ ds', ρ', by simp [replaceDefs_cons, hstep, h1], execDefs_append ρ out ds' hexec h2,
              h3, h4, h5⟩
          -- the step consumes the next def
          have fuse : ∀ (nd : Term Def) (rest' : List (Term Def)), rest = nd :: rest' →
              ∀ {out : List (Term Def)} {σm ρ₂ : State} {ea eb : List Event},
              execDefA tbl σ₁ nd.term = some (σm, ea) → execDefsA tbl σm rest' = some (σ₂, eb) → e₂ = ea ++ eb →
              replaceStep tbl ⟨t, dt⟩ (some nd) = some (out, true) → Sem.execDefs ρ out = some (ρ₂, e₁ ++ ea) →
              Agree IsLoadedValue σm ρ₂ → WellTyped σm → WellTyped ρ₂ →
              ∃ ds' ρ', replaceDefs tbl (⟨t, dt⟩ :: rest) = some ds' ∧ Sem.execDefs ρ ds' = some (ρ', e₁ ++ e₂) ∧
                Agree IsLoadedValue σ₂ ρ' ∧ WellTyped σ₂ ∧ WellTyped ρ' := by
            intro nd rest' hrest out σm ρ₂ ea eb hnd hrest' he₂ hstep hexec hag₂ hσm hρ₂
            subst hrest
            have hlen' : rest'.length ≤ n := by simp at hlenr; omega
            obtain ⟨ds', ρ', h1, h2, h3, h4, h5⟩ :=
              ih rest' hlen' (fun d hd' => hokr d (by simp [hd'])) hag₂ hσm hρ₂ hrest'
            refine ⟨out ++ ds', ρ', by simp [replaceDefs_cons, hstep, h1], ?_, h3, h4, h5⟩
            have := execDefs_append ρ out ds' hexec h2
            rw [this, he₂, List.append_assoc]
          -- split the execution of `rest` when its head is consumed
          have splitRest : ∀ (nd : Term Def), rest.head? = some nd →
              ∃ rest' σm ea eb, rest = nd :: rest' ∧ execDefA tbl σ₁ nd.term = some (σm, ea) ∧
                execDefsA tbl σm rest' = some (σ₂, eb) ∧ e₂ = ea ++ eb := by
            intro nd hnd
            cases rest with
            | nil => simp at hnd
            | cons nd' rest' =>
              simp at hnd; subst hnd
              simp only [execDefsA, Option.bind_eq_bind] at hr
              cases h1 : execDefA tbl σ₁ nd'.term with
              | none => simp [h1] at hr
              | some p1 =>
                obtain ⟨σm, ea⟩ := p1
                cases h2 : execDefsA tbl σm rest' with
                | none => simp [h1, h2] at hr
                | some p2 =>
                  obtain ⟨σe, eb⟩ := p2
                  simp [h1, h2] at hr
                  obtain ⟨rfl, rfl⟩ := hr
                  exact ⟨rest', σm, ea, eb, rfl, rfl, h2, rfl⟩
          cases dt with
          | Store a e =>
            obtain ⟨out, ρ₁, h1, h2, h3, h4, h5⟩ := store_step ht hag hσ hρ t a e hokd.1 hokd.2 rest.head? hd
            exact nofuse h1 h2 h3 h4 h5
          | Assign v e =>
            by_cases hf : isNextDefCastToBase tbl v rest.head? = true
            · obtain ⟨tn, w, op, sz, reg, ireg, hnext, _⟩ := fuse_facts hf
              obtain ⟨rest', σm, ea, eb, hrest, hnd, hrest', he₂⟩ := splitRest _ hnext
              rw [hnext] at hf
              obtain ⟨out, ρ₂, h1, h2, h3, h4, h5⟩ := assign_fuse ht hag hσ hρ t v e hokd.1 hokd.2 _
                (hokr _ (by rw [hrest]; simp)) hd hnd hf
              exact fuse _ rest' hrest hnd hrest' he₂ h1 h2 h3 h4 h5
            · have hf' : isNextDefCastToBase tbl v rest.head? = false := by simpa using hf
              obtain ⟨out, ρ₁, h1, h2, h3, h4, h5⟩ := assign_nofuse ht hag hσ hρ t v e hokd.1 hokd.2 rest.head? hd
                (fun _ _ _ => hf')
              exact nofuse h1 h2 h3 h4 h5
          | Load v a =>
            by_cases hf : isNextDefCastToBase tbl v rest.head? = true
            · obtain ⟨tn, w, op, sz, reg, ireg, hnext, _⟩ := fuse_facts hf
              obtain ⟨rest', σm, ea, eb, hrest, hnd, hrest', he₂⟩ := splitRest _ hnext
              rw [hnext] at hf
              obtain ⟨out, ρ₂, h1, h2, h3, h4, h5⟩ := load_fuse ht hag hσ hρ t v a hokd.1 hokd.2 _
                (hokr _ (by rw [hrest]; simp)) hd hnd hf
              exact fuse _ rest' hrest hnd hrest' he₂ h1 h2 h3 h4 h5
            · have hf' : isNextDefCastToBase tbl v rest.head? = false := by simpa using hf
              obtain ⟨out, ρ₁, h1, h2, h3, h4, h5⟩ := load_nofuse ht hag hσ hρ t v a hokd.1 hokd.2 rest.head? hd
                (fun _ _ _ => hf')
              exact nofuse h1 h2 h3 h4 h5

end CweModel.C11
