/-
C11 — the SIZE part of the extractor domain:
* `pcodeDefSized` / `pcodeJmpSized` / `pcodeBlkSized` / `projectSized`: the operand sizes of a P-Code
  instruction are consistent with its operation (what Ghidra guarantees for the P-Code it emits; P-Code
  reference manual).
The typing walk on the lifted IR is the one of property C12 (`CweModel.C12.WellSizedBlk`, C12/Model.lean):
`C12.liftBlk_wellSized` / `C12.lift_wellSized` (C12/Lift.lean) prove that the model of the lifting maps
in-domain, size-consistent P-Code to size-consistent IR; the C11 driver evaluates the C12 checker on the REAL
lifted blocks and reports ill-sized lifted IR for size-consistent P-Code as a specification failure.

Core-only.
-/
import CweModel.C11.PcodeSem

namespace CweModel.C11
open CweModel CweModel.IR CweModel.Gen.PcodeOps

/-- operand sizes required by a binary operation (`same`: equal operand sizes) -/
def binSameSize : BinOpType → Bool
  | .Piece | .IntLeft | .IntRight | .IntSRight => false
  | _ => true

def binBoolOperands : BinOpType → Bool
  | .BoolXOr | .BoolAnd | .BoolOr => true
  | _ => false

/-- size of the result of a binary operation on operands of `a` and `b` bytes -/
def binResultSize (op : BinOpType) (a b : Nat) : Nat :=
  match op with
  | .Piece => a + b
  | .IntEqual | .IntNotEqual | .IntLess | .IntSLess | .IntLessEqual | .IntSLessEqual
  | .IntCarry | .IntSCarry | .IntSBorrow | .BoolXOr | .BoolOr | .BoolAnd
  | .FloatEqual | .FloatNotEqual | .FloatLess | .FloatLessEqual => 1
  | _ => a

def unResultSize (op : UnOpType) (a : Nat) : Nat := match op with | .FloatNaN => 1 | _ => a

def vsize (v : Option Pcode.Var) : Nat := match v with | some v => v.size | none => 0

/-- operand sizes of a P-Code instruction are consistent with its operation -/
def pcodeDefSized (ptr : Nat) (d : Pcode.Def) : Bool :=
  let o := vsize d.lhs
  let a := vsize d.rhs.input0
  let b := vsize d.rhs.input1
  match opKind d.rhs.mnemonic with
  | .load => b == ptr
  | .store => b == ptr
  | .copy => o == a
  | .subpiece =>
    (match d.rhs.input1 with
     | some c => (match constOperand c with | some low => decide (low + o ≤ a) && decide (c.size ≤ 8) | none => false)
     | none => false)
  | .bin op => (!binSameSize op || a == b) && (!binBoolOperands op || a == 1) && o == binResultSize op a b
  | .un op => (op != .BoolNegate || a == 1) && o == unResultSize op a
  | .cast op => (match op with | .IntZExt | .IntSExt => decide (a ≤ o) | _ => true)

def pcodeJmpSized (ptr : Nat) (j : Pcode.Jmp) : Bool :=
  match j.mnemonic with
  | .CBRANCH => vsize j.condition == 1
  | .BRANCHIND | .RETURN => (match j.goto with | some (.Indirect v) => v.size == ptr | _ => false)
  | .CALLIND => (match j.call with | some c => (match c.target with | some (.Indirect v) => v.size == ptr | _ => false) | none => false)
  | _ => true

def pcodeBlkSized (ptr : Nat) (b : Pcode.Blk) : Bool :=
  b.defs.all (fun d => pcodeDefSized ptr d.term) && b.jmps.all (fun j => pcodeJmpSized ptr j.term)

/-- the size part of the extractor domain for a whole project (pointer size = size of the stack pointer
register) -/
def projectSized (p : Pcode.Project) : Bool :=
  p.program.subs.all (fun s => s.term.blocks.all (fun b => pcodeBlkSized p.pointerSize b.term))

end CweModel.C11
