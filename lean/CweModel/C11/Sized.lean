/-
C11 — size consistency (local stand-in for C12's `wellSizedProgram`, which does not exist yet):
* `pcodeDefSized`: the operand sizes of a P-Code instruction are consistent with its operation
  (what Ghidra guarantees for the P-Code it emits);
* `irDefSized` / `irJmpSized`: the typing walk of property C12 on lifted defs and jumps.
The driver reports ill-sized lifted IR for size-consistent P-Code as a specification failure.

Core-only.
-/
import CweModel.C11.PcodeSem

namespace CweModel.C11
open CweModel CweModel.IR CweModel.Gen.PcodeOps

/-- operand sizes required by a binary operation (`same`: equal operand sizes) -/
def binSameSize : BinOpType → Bool
  | .Piece | .IntLeft | .IntRight | .IntSRight => false
  | _ => true

def binBoolOperands : BinOpType → Bool
  | .BoolXOr | .BoolAnd | .BoolOr => true
  | _ => false

/-- size of the result of a binary operation on operands of `a` and `b` bytes -/
def binResultSize (op : BinOpType) (a b : Nat) : Nat :=
  match op with
  | .Piece => a + b
  | .IntEqual | .IntNotEqual | .IntLess | .IntSLess | .IntLessEqual | .IntSLessEqual
  | .IntCarry | .IntSCarry | .IntSBorrow | .BoolXOr | .BoolOr | .BoolAnd
  | .FloatEqual | .FloatNotEqual | .FloatLess | .FloatLessEqual => 1
  | _ => a

def unResultSize (op : UnOpType) (a : Nat) : Nat := match op with | .FloatNaN => 1 | _ => a

/-- typing walk over an IR expression -/
def irSized : Expression → Bool
  | .Var v => decide (0 < v.size)
  | .Const b _ => decide (0 < b)
  | .BinOp op l r =>
    irSized l && irSized r && (!binSameSize op || l.bytesize == r.bytesize) &&
    (!binBoolOperands op || l.bytesize == 1)
  | .UnOp op a => irSized a && (op != .BoolNegate || a.bytesize == 1)
  | .Cast op s a =>
    irSized a && decide (0 < s) && (match op with | .IntZExt | .IntSExt => decide (a.bytesize ≤ s) | _ => true)
  | .Unknown _ s => decide (0 < s)
  | .Subpiece lb s a => irSized a && decide (0 < s) && decide (lb + s ≤ a.bytesize)

def irDefSized (ptr : Nat) : Def → Bool
  | .Assign v e => irSized e && v.size == e.bytesize
  | .Load v a => irSized a && decide (0 < v.size) && a.bytesize == ptr
  | .Store a e => irSized a && irSized e && a.bytesize == ptr

def irJmpSized (ptr : Nat) : Jmp → Bool
  | .CBranch _ c => irSized c && c.bytesize == 1
  | .BranchInd e | .CallInd e _ | .Return e => irSized e && e.bytesize == ptr
  | _ => true

def irBlkSized (ptr : Nat) (b : Blk) : Bool :=
  b.defs.all (fun d => irDefSized ptr d.term) && b.jmps.all (fun j => irJmpSized ptr j.term)

def vsize (v : Option Pcode.Var) : Nat := match v with | some v => v.size | none => 0

/-- operand sizes of a P-Code instruction are consistent with its operation -/
def pcodeDefSized (ptr : Nat) (d : Pcode.Def) : Bool :=
  let o := vsize d.lhs
  let a := vsize d.rhs.input0
  let b := vsize d.rhs.input1
  match opKind d.rhs.mnemonic with
  | .load => b == ptr
  | .store => b == ptr
  | .copy => o == a
  | .subpiece =>
    (match d.rhs.input1 with
     | some c => (match constOperand c with | some low => decide (low + o ≤ a) && decide (c.size ≤ 8) | none => false)
     | none => false)
  | .bin op => (!binSameSize op || a == b) && (!binBoolOperands op || a == 1) && o == binResultSize op a b
  | .un op => (op != .BoolNegate || a == 1) && o == unResultSize op a
  | .cast op => (match op with | .IntZExt | .IntSExt => decide (a ≤ o) | _ => true)

def pcodeJmpSized (ptr : Nat) (j : Pcode.Jmp) : Bool :=
  match j.mnemonic with
  | .CBRANCH => vsize j.condition == 1
  | .BRANCHIND | .RETURN => (match j.goto with | some (.Indirect v) => v.size == ptr | _ => false)
  | .CALLIND => (match j.call with | some c => (match c.target with | some (.Indirect v) => v.size == ptr | _ => false) | none => false)
  | _ => true

def pcodeBlkSized (ptr : Nat) (b : Pcode.Blk) : Bool :=
  b.defs.all (fun d => pcodeDefSized ptr d.term) && b.jmps.all (fun j => pcodeJmpSized ptr j.term)

end CweModel.C11
