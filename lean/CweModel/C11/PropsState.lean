/-
C11 — state lemmas: agreement of two states up to the temporaries the lifting introduces, memory
reads/writes under agreement, byte replacement round trips, evaluation of `pieceTogether`.
-/
import CweModel.C11.PropsExpr
set_option linter.unusedSimpArgs false
set_option linter.unusedVariables false

namespace CweModel.C11
open CweModel CweModel.IR CweModel.Sem CweModel.Gen.PcodeOps CweModel.C11.Lift

/-- a temporary introduced by the lifting -/
def IsLiftTemp (v : Variable) : Prop := v.isTemp = true ∧ v.name ∈ liftTempNames

/-- the temporary of `replace_subregister_in_block` for loads into sub-registers -/
def IsLoadedValue (v : Variable) : Prop := v.isTemp = true ∧ v.name = "loaded_value"

/-- the temporaries of `add_load_defs_for_implicit_ram_access` -/
def IsLoadTemp (v : Variable) : Prop := v.isTemp = true ∧ v.name ∈ ["$load_temp0", "$load_temp1", "$load_temp2"]

/-- the two states have the same memory and agree on every register except those in `T` -/
structure Agree (T : Variable → Prop) (σ ρ : State) : Prop where
  seed : σ.seed = ρ.seed
  ptr : σ.ptrBytes = ρ.ptrBytes
  endian : σ.littleEndian = ρ.littleEndian
  mem : σ.mem = ρ.mem
  regs : ∀ v, ¬ T v → σ.getReg v = ρ.getReg v

variable {T : Variable → Prop}

theorem Agree.refl (σ : State) : Agree T σ σ := ⟨rfl, rfl, rfl, rfl, fun _ _ => rfl⟩

theorem Agree.bytes {σ ρ : State} (h : Agree T σ ρ) (a : Nat) : σ.getByte a = ρ.getByte a := by
  unfold State.getByte State.memDefault
  rw [h.mem, h.seed]

/-! ### memory -/

theorem getByte_setByte (σ : State) (a b c : Nat) :
    (σ.setByte a b).getByte c = if c = a then b else σ.getByte c := by
  unfold State.setByte State.getByte
  by_cases h : c = a
  · subst h; simp
  · have hne : ((a, b).1 == c) = false := by simp; exact fun e => h e.symm
    simp only [h, if_false, List.find?_cons, hne]
    rw [find_filter]
    · rfl
    · intro p hp
      simp only [beq_iff_eq] at hp
      simp only [bne_iff_ne, ne_eq, hp]
      exact h

@[simp] theorem getReg_setByte (σ : State) (a b : Nat) (v : Variable) : (σ.setByte a b).getReg v = σ.getReg v := rfl
@[simp] theorem seed_setByte (σ : State) (a b : Nat) : (σ.setByte a b).seed = σ.seed := rfl
@[simp] theorem ptr_setByte (σ : State) (a b : Nat) : (σ.setByte a b).ptrBytes = σ.ptrBytes := rfl
@[simp] theorem endian_setByte (σ : State) (a b : Nat) : (σ.setByte a b).littleEndian = σ.littleEndian := rfl
@[simp] theorem seed_setReg (σ : State) (v : Variable) (x : Bv) : (σ.setReg v x).seed = σ.seed := rfl
@[simp] theorem ptr_setReg (σ : State) (v : Variable) (x : Bv) : (σ.setReg v x).ptrBytes = σ.ptrBytes := rfl
@[simp] theorem endian_setReg (σ : State) (v : Variable) (x : Bv) : (σ.setReg v x).littleEndian = σ.littleEndian := rfl
@[simp] theorem getByte_setReg (σ : State) (v : Variable) (x : Bv) (a : Nat) : (σ.setReg v x).getByte a = σ.getByte a := rfl

theorem Agree.setByte {σ ρ : State} (h : Agree T σ ρ) (a b : Nat) : Agree T (σ.setByte a b) (ρ.setByte a b) :=
  ⟨h.seed, h.ptr, h.endian, by simp only [State.setByte, h.mem], fun v hv => h.regs v hv⟩

theorem WellTyped.setByte {σ : State} (h : WellTyped σ) (a b : Nat) : WellTyped (σ.setByte a b) := fun v => h v

/-- writing the same bytes through the same address/byte-order functions keeps agreement -/
theorem Agree.foldSetByte {σ ρ : State} (h : Agree T σ ρ) (f g : Nat → Nat) :
    ∀ (l : List Nat), Agree T (l.foldl (fun s i => s.setByte (f i) (g i)) σ) (l.foldl (fun s i => s.setByte (f i) (g i)) ρ) := by
  intro l
  induction l generalizing σ ρ with
  | nil => exact h
  | cons i l ih => simp only [List.foldl_cons]; exact ih (h.setByte _ _)

theorem WellTyped.foldSetByte {σ : State} (h : WellTyped σ) (f g : Nat → Nat) :
    ∀ (l : List Nat), WellTyped (l.foldl (fun s i => s.setByte (f i) (g i)) σ) := by
  intro l
  induction l generalizing σ with
  | nil => exact h
  | cons i l ih => simp only [List.foldl_cons]; exact ih (h.setByte _ _)

theorem Agree.writeMem {σ ρ : State} (h : Agree T σ ρ) (a n val : Nat) :
    Agree T (σ.writeMem a n val) (ρ.writeMem a n val) := by
  unfold State.writeMem State.wrapAddr
  rw [← h.ptr, ← h.endian]
  exact h.foldSetByte _ _ _

theorem WellTyped.writeMem {σ : State} (h : WellTyped σ) (a n val : Nat) : WellTyped (σ.writeMem a n val) := by
  unfold State.writeMem
  exact h.foldSetByte _ _ _

theorem Agree.readMem {σ ρ : State} (h : Agree T σ ρ) (a n : Nat) : σ.readMem a n = ρ.readMem a n := by
  unfold State.readMem State.wrapAddr
  simp only [h.bytes, h.ptr, h.endian]

theorem Agree.wrapAddr {σ ρ : State} (h : Agree T σ ρ) (a : Nat) : σ.wrapAddr a = ρ.wrapAddr a := by
  unfold State.wrapAddr; rw [h.ptr]

theorem foldSetByte_getReg (f g : Nat → Nat) (v : Variable) :
    ∀ (l : List Nat) (σ : State), (l.foldl (fun s i => s.setByte (f i) (g i)) σ).getReg v = σ.getReg v := by
  intro l
  induction l with
  | nil => intro σ; rfl
  | cons i l ih => intro σ; simp only [List.foldl_cons]; rw [ih]; rfl

theorem getReg_writeMem (σ : State) (a n val : Nat) (v : Variable) : (σ.writeMem a n val).getReg v = σ.getReg v := by
  unfold State.writeMem
  exact foldSetByte_getReg _ _ _ _ _

/-! ### registers -/

theorem Agree.setReg {σ ρ : State} (h : Agree T σ ρ) (v : Variable) (x : Bv) : Agree T (σ.setReg v x) (ρ.setReg v x) :=
  ⟨h.seed, h.ptr, h.endian, h.mem, fun u hu => by
    rw [getReg_setReg, getReg_setReg]
    by_cases e : u = v
    · simp [e]
    · simp [e, h.regs u hu]⟩

/-- the lifted code may additionally set a lifting temporary -/
theorem Agree.setTempRight {σ ρ : State} (h : Agree T σ ρ) (t : Variable) (ht : T t) (x : Bv) :
    Agree T σ (ρ.setReg t x) :=
  ⟨h.seed, h.ptr, h.endian, h.mem, fun u hu => by
    rw [getReg_setReg]
    have : u ≠ t := fun e => hu (e ▸ ht)
    simp [this, h.regs u hu]⟩

theorem Agree.setTempLeft {σ ρ : State} (h : Agree T σ ρ) (t : Variable) (ht : T t) (x : Bv) :
    Agree T (σ.setReg t x) ρ :=
  ⟨h.seed, h.ptr, h.endian, h.mem, fun u hu => by
    rw [getReg_setReg]
    have : u ≠ t := fun e => hu (e ▸ ht)
    simp [this, h.regs u hu]⟩

theorem Agree.trans {T₁ T₂ : Variable → Prop} {σ ρ τ : State} (h₁ : Agree T₁ σ ρ) (h₂ : Agree T₂ ρ τ) :
    Agree (fun v => T₁ v ∨ T₂ v) σ τ :=
  ⟨h₁.seed.trans h₂.seed, h₁.ptr.trans h₂.ptr, h₁.endian.trans h₂.endian,
   h₁.mem.trans h₂.mem,
   fun v hv => (h₁.regs v (fun h => hv (Or.inl h))).trans (h₂.regs v (fun h => hv (Or.inr h)))⟩

theorem Agree.mono {T' : Variable → Prop} {σ ρ : State} (h : Agree T σ ρ) (hT : ∀ v, T v → T' v) : Agree T' σ ρ :=
  ⟨h.seed, h.ptr, h.endian, h.mem, fun v hv => h.regs v (fun ht => hv (hT v ht))⟩

theorem Agree.symm {σ ρ : State} (h : Agree T σ ρ) : Agree T ρ σ :=
  ⟨h.seed.symm, h.ptr.symm, h.endian.symm, h.mem.symm, fun v hv => (h.regs v hv).symm⟩

/-! ### byte replacement round trips -/

theorem replaceBytes_full (b : Bv) (s : Nat) (x : Bv) (hb : b.w = 8 * s) (hx : x.w = 8 * s) :
    replaceBytes b 0 s x.toNat = x := by
  apply Bv.ext_nat
  · simp [replaceBytes_w, hb, hx]
  · have hxl : x.toNat < 2 ^ (8 * s) := by have := x.toNat_lt; rwa [hx] at this
    have hbl : b.toNat < 2 ^ (8 * s) := by have := b.toNat_lt; rwa [hb] at this
    rw [replaceBytes_toNat, hb]
    simp [replaceVal, Nat.mod_eq_of_lt hxl, Nat.div_eq_of_lt hbl, Nat.mod_one]

theorem extract_replace (b : Bv) (B l s : Nat) (x : Bv) (hb : b.w = 8 * B) (hx : x.w = 8 * s) (h : l + s ≤ B) :
    extractBytes (replaceBytes b l s x.toNat) l s = x := by
  have hxl : x.toNat < 2 ^ (8 * s) := by have := x.toNat_lt; rwa [hx] at this
  have hbl : b.toNat < 2 ^ (8 * B) := by have := b.toNat_lt; rwa [hb] at this
  apply Bv.ext_nat
  · simp [extractBytes_w, hx]
  · rw [extractBytes_toNat, replaceBytes_toNat, hb, Nat.mod_eq_of_lt (replaceVal_lt _ _ _ _ _ hbl h)]
    simp only [replaceVal, Nat.mod_eq_of_lt hxl]
    rw [pow8_add l s]
    have hlo : b.toNat % 2 ^ (8 * l) < 2 ^ (8 * l) := Nat.mod_lt _ (pow8_pos l)
    generalize 2 ^ (8 * l) = L at *
    generalize 2 ^ (8 * s) = S at *
    generalize b.toNat / (L * S) = q
    generalize b.toNat % L = r at *
    have hL : 0 < L := by omega
    have e : r + x.toNat * L + q * (L * S) = r + L * (x.toNat + q * S) := by
      rw [Nat.mul_add, Nat.mul_comm L x.toNat, Nat.mul_comm L (q * S), Nat.mul_assoc, Nat.mul_comm S L, Nat.add_assoc]
    rw [e, Nat.add_mul_div_left _ _ hL, Nat.div_eq_of_lt hlo, Nat.zero_add, Nat.add_mul_mod_self_right,
      Nat.mod_eq_of_lt hxl]

/-! ### `pieceTogether` -/

/-- **C11-piece.** The three shapes of `piece_base_register_assignment_expression_together` (sub-register
at the bottom, in the middle, at the top of the base register) all evaluate to the base register with
exactly the bytes `[lsb, lsb+size)` replaced by the assigned value. -/
theorem eval_pieceTogether (σ : State) (e : Expression) (bn : String) (B l s : Nat) (x : Bv)
    (he : eval σ e = some x) (hbw : (σ.getReg ⟨bn, B, false⟩).w = 8 * B) (hxw : x.w = 8 * s)
    (hin : l + s ≤ B) (hproper : s < B) :
    eval σ (pieceTogether e bn B l s) = some (replaceBytes (σ.getReg ⟨bn, B, false⟩) l s x.toNat) := by
  unfold pieceTogether
  by_cases h1 : (decide (l > 0) && (l + s == B)) = true
  · simp only [h1, if_true]
    simp only [Bool.and_eq_true, decide_eq_true_eq, beq_iff_eq] at h1
    have := piece_top (σ.getReg ⟨bn, B, false⟩) x B l s hbw hxw h1.1 h1.2
    simp only [eval, he, Option.bind_eq_bind, Option.bind_some]
    simpa [Option.bind_eq_bind] using this
  · simp only [h1, Bool.false_eq_true, if_false]
    by_cases h2 : l > 0
    · simp only [h2, decide_true, if_true]
      have hlt : l + s < B := by
        simp only [Bool.and_eq_true, decide_eq_true_eq, beq_iff_eq, not_and] at h1
        have := h1 h2; omega
      have := piece_mid (σ.getReg ⟨bn, B, false⟩) x B l s hbw hxw h2 hlt
      simp only [eval, he, Option.bind_eq_bind, Option.bind_some]
      simpa [Option.bind_eq_bind, Option.bind_assoc] using this
    · have hl0 : l = 0 := by omega
      subst hl0
      simp only [Nat.lt_irrefl, decide_false, Bool.false_eq_true, if_false]
      have := piece_low (σ.getReg ⟨bn, B, false⟩) x B s hbw hxw hproper
      simp only [eval, he, Option.bind_eq_bind, Option.bind_some]
      simpa [Option.bind_eq_bind] using this

/-- non-vacuity: AH := 0x12 (middle shape) in any well-typed state -/
example (σ : State) (hw : WellTyped σ) :
    eval σ (pieceTogether (.Const 1 0x12) "RAX" 8 1 1)
      = some (replaceBytes (σ.getReg ⟨"RAX", 8, false⟩) 1 1 (Bv.ofBytes 1 0x12).toNat) :=
  eval_pieceTogether σ _ "RAX" 8 1 1 (Bv.ofBytes 1 0x12) rfl (hw _) rfl (by omega) (by omega)

end CweModel.C11
