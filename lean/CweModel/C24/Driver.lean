/- C24 model driver: executes the model and the executable specification on harness cases. -/
import CweModel.Base.Proto
import CweModel.C24.Model
open Lean CweModel.Proto CweModel.IR CweModel.Reach

namespace CweModel.C24

def showTid (t : Tid) : String := if t.address == "UNKNOWN" then t.id else s!"{t.id}@{t.address}"
def showTids (ts : List Tid) : String := "[" ++ ",".intercalate (ts.map showTid) ++ "]"

def sameSet (a b : List Tid) : Bool := a.all (fun x => decide (x ∈ b)) && b.all (fun x => decide (x ∈ a))

/-- the first element of `a` that is not in `b` -/
def firstMissing (a b : List Tid) : Option Tid := a.find? (fun x => !decide (x ∈ b))

def parseEdge (j : Json) : Except String (Tid × Tid × Tid) := do
  match ← j.getArr? with
  | #[a, b, c] => return (← parseTid a, ← parseTid b, ← parseTid c)
  | _ => throw "edge triple expected"

def handleE (line : String) : Except String String := do
  let j ← Json.parse line
  let prog ← parseProgram (← field j "prog")
  let src ← parseTid (← field j "src")
  let g := getProgramCallgraph prog
  -- the call graph itself: node weights and (source, target, call tid) in index order
  let implNodes ← mapM' parseTid (← arrF j "nodes")
  let implEdges ← mapM' parseEdge (← arrF j "edges")
  let modelEdges := g.edges.map (fun e => (e.src, e.dst, e.w.call))
  let mut tags : List String := []
  let mut nonempty := 0
  let mut panics := 0
  for q in ← arrF j "queries" do
    let tgt ← parseTid (← field q "tgt")
    let implJ ← field q "impl"
    let model := findCallSequencesToTarget g src tgt
    let inGraph := decide (src ∈ g.nodes) && decide (tgt ∈ g.nodes)
    let spec := if inGraph then specResult g src tgt else none
    let qs := s!"{showTid src}->{showTid tgt}"
    match implJ with
    | .str s =>
      -- panic of the real code: specified exactly when source or target is no function
      panics := panics + 1
      if inGraph then
        return s!"spec class=callseq-panic expected=result impl={s} query={qs}"
      if model.isSome then
        return s!"diff class=callseq-panic model=result impl={s} query={qs}"
    | _ =>
      let impl ← mapM' parseTid (← implJ.getArr?).toList
      if !inGraph then
        return s!"spec class=callseq-nopanic expected=panic impl={showTids impl} query={qs}"
      match spec with
      | none => return s!"bad spec-closure-not-closed query={qs}"
      | some exp =>
        if let some t := firstMissing exp impl then
          return s!"spec class=callseq-missing expected={showTids exp} impl={showTids impl} missing={showTid t} query={qs}"
        if let some t := firstMissing impl exp then
          return s!"spec class=callseq-extra expected={showTids exp} impl={showTids impl} extra={showTid t} query={qs}"
      match model with
      | none => return s!"diff class=callseq-nopanic model=panic impl={showTids impl} query={qs}"
      | some m =>
        if !sameSet m impl then
          return s!"diff class=callseq model={showTids m} impl={showTids impl} query={qs}"
      if !impl.isEmpty then nonempty := nonempty + 1
  -- all queries agree with specification and model; the graph must be the model's graph as well
  if implNodes != g.nodes || implEdges != modelEdges then
    return s!"diff class=callgraph model={g.nodes.length}n/{g.edges.length}e impl={implNodes.length}n/{implEdges.length}e"
  if nonempty > 0 then tags := "nonempty" :: tags
  if panics > 0 then tags := "panics" :: tags
  if g.edges.any (fun e => e.src == e.dst) then tags := "selfcall" :: tags
  return "ok " ++ " ".intercalate (s!"subs{g.nodes.length}" :: tags)

end CweModel.C24

def main : IO Unit := CweModel.Proto.runDriver (CweModel.Proto.guarded CweModel.C24.handleE)
