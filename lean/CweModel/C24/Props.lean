/-
C24 — property theorems. Statement of the property:

  For every program and every pair of functions, the call-sequence query returns exactly those
  direct calls between internal functions that lie on some call-graph path from the source
  function to the target function.
-/
import CweModel.C24.Model
open CweModel.IR CweModel.Reach

namespace CweModel.C24

/-! ### the DFS passes -/

/-- the node part of a pass is the shared stack DFS of `Base/Reach` -/
theorem pass_fst (adj : Tid → List CallEdge) (far : CallEdge → Tid) (f : Nat) (st vis : List Tid)
    (es : List Nat) :
    (pass adj far f st vis es).1 = (dfs (fun n => (adj n).map far) f st vis).2 := by
  induction f generalizing st vis es with
  | zero => simp [pass, dfs]
  | succ f ih =>
    cases st with
    | nil => simp [pass, dfs]
    | cons n st =>
      simp only [pass, dfs]
      split
      · exact ih ..
      · exact ih ..

/-- the edge part of a pass: exactly the ids of the edges incident to a visited node -/
theorem pass_snd (adj : Tid → List CallEdge) (far : CallEdge → Tid) (f : Nat) (st vis : List Tid)
    (es : List Nat) (hinv : ∀ i, i ∈ es ↔ ∃ n ∈ vis, ∃ e ∈ adj n, e.w.id = i) :
    ∀ i, i ∈ (pass adj far f st vis es).2 ↔
      ∃ n ∈ (pass adj far f st vis es).1, ∃ e ∈ adj n, e.w.id = i := by
  induction f generalizing st vis es with
  | zero => simpa [pass] using hinv
  | succ f ih =>
    cases st with
    | nil => simpa [pass] using hinv
    | cons n st =>
      simp only [pass]
      split
      · exact ih _ _ _ hinv
      · apply ih
        intro i
        simp only [List.mem_append, List.mem_map, List.mem_cons, hinv i]
        constructor
        · rintro (⟨e, he, rfl⟩ | ⟨m, hm, e, he, rfl⟩)
          · exact ⟨n, .inl rfl, e, he, rfl⟩
          · exact ⟨m, .inr hm, e, he, rfl⟩
        · rintro ⟨m, rfl | hm, e, he, rfl⟩
          · exact .inl ⟨e, he, rfl⟩
          · exact .inr ⟨m, hm, e, he, rfl⟩

theorem mem_outEdges {g : CallGraph} {n : Tid} {e : CallEdge} : e ∈ outEdges g n ↔ e ∈ g.edges ∧ e.src = n := by
  simp [outEdges, List.mem_filter]
theorem mem_inEdges {g : CallGraph} {n : Tid} {e : CallEdge} : e ∈ inEdges g n ↔ e ∈ g.edges ∧ e.dst = n := by
  simp [inEdges, List.mem_filter]

/-- forward pass: ids of the edges whose source is reachable from `src` -/
theorem fwd_iff (g : CallGraph) (src : Tid) (i : Nat) :
    i ∈ (pass (outEdges g) (·.dst) (passFuel g) [src] [] []).2 ↔
      ∃ e ∈ g.edges, e.w.id = i ∧ GReach g.edges src e.src := by
  rw [pass_snd _ _ _ _ _ _ (by simp), pass_fst]
  have hfin : (dfs (succs g.edges) (passFuel g) [src] []).1 = [] :=
    dfs_fuel_sufficient g.edges (·.src) (succs g.edges) (fun n => by simp [succs]) [src] _ (by simp [passFuel]; omega)
  have hm := mem_dfs_iff (succs g.edges) (passFuel g) [src] hfin
  show (∃ n ∈ (dfs (succs g.edges) (passFuel g) [src] []).2, _) ↔ _
  constructor
  · rintro ⟨n, hn, e, he, rfl⟩
    obtain ⟨s, hs, hr⟩ := (hm n).mp hn
    simp at hs; subst hs
    obtain ⟨h1, h2⟩ := mem_outEdges.mp he
    exact ⟨e, h1, rfl, h2 ▸ hr⟩
  · rintro ⟨e, he, rfl, hr⟩
    exact ⟨e.src, (hm _).mpr ⟨src, by simp, hr⟩, e, mem_outEdges.mpr ⟨he, rfl⟩, rfl⟩

/-- backward pass: ids of the edges from whose target `tgt` is reachable -/
theorem bwd_iff (g : CallGraph) (tgt : Tid) (i : Nat) :
    i ∈ (pass (inEdges g) (·.src) (passFuel g) [tgt] [] []).2 ↔
      ∃ e ∈ g.edges, e.w.id = i ∧ GReach g.edges e.dst tgt := by
  rw [pass_snd _ _ _ _ _ _ (by simp), pass_fst]
  have hfin : (dfs (preds g.edges) (passFuel g) [tgt] []).1 = [] :=
    dfs_fuel_sufficient g.edges (·.dst) (preds g.edges) (fun n => by simp [preds]) [tgt] _ (by simp [passFuel]; omega)
  have hm := mem_dfs_iff (preds g.edges) (passFuel g) [tgt] hfin
  show (∃ n ∈ (dfs (preds g.edges) (passFuel g) [tgt] []).2, _) ↔ _
  constructor
  · rintro ⟨n, hn, e, he, rfl⟩
    obtain ⟨s, hs, hr⟩ := (hm n).mp hn
    simp at hs; subst hs
    obtain ⟨h1, h2⟩ := mem_inEdges.mp he
    exact ⟨e, h1, rfl, h2 ▸ (reach_preds_iff _ _ _).mp hr⟩
  · rintro ⟨e, he, rfl, hr⟩
    exact ⟨e.dst, (hm _).mpr ⟨tgt, by simp, (reach_preds_iff _ _ _).mpr hr⟩, e, mem_inEdges.mpr ⟨he, rfl⟩, rfl⟩

/-- petgraph's invariant: the edge with `EdgeIndex` i is the i-th edge -/
def WfIds (g : CallGraph) : Prop := ∀ e ∈ g.edges, g.edges[e.w.id]? = some e

/-- **C24-graph-level.** For every call graph with consistent edge ids and all `src`, `tgt`: the
two DFS passes and the edge-id intersection return exactly the call Tids of the edges whose
source is reachable from `src` and from whose target `tgt` is reachable. -/
theorem findFromNodeToTarget_iff (g : CallGraph) (hg : WfIds g) (src tgt x : Tid) :
    x ∈ findFromNodeToTarget g src tgt ↔
      ∃ e ∈ g.edges, e.w.call = x ∧ GReach g.edges src e.src ∧ GReach g.edges e.dst tgt := by
  simp only [findFromNodeToTarget, List.mem_filterMap]
  constructor
  · rintro ⟨i, hf, hx⟩
    split at hx
    next hb =>
      obtain ⟨e1, he1, hid1, hr1⟩ := (fwd_iff g src i).mp hf
      obtain ⟨e2, he2, hid2, hr2⟩ := (bwd_iff g tgt i).mp hb
      have h1 := hg e1 he1; rw [hid1] at h1
      have h2 := hg e2 he2; rw [hid2] at h2
      have : e1 = e2 := by rw [h1] at h2; exact Option.some.inj h2
      subst this
      rw [h1] at hx
      simp at hx
      exact ⟨e1, he1, hx, hr1, hr2⟩
    next => simp at hx
  · rintro ⟨e, he, hx, hr1, hr2⟩
    refine ⟨e.w.id, (fwd_iff g src _).mpr ⟨e, he, rfl, hr1⟩, ?_⟩
    rw [if_pos ((bwd_iff g tgt _).mpr ⟨e, he, rfl, hr2⟩), hg e he]
    simp [hx]

/-- **C24-on-path.** The same, phrased with explicit paths: `x` is returned iff some chain of
call-graph edges from `src` to `tgt` contains an edge whose call Tid is `x`. -/
theorem findFromNodeToTarget_on_path (g : CallGraph) (hg : WfIds g) (src tgt x : Tid) :
    x ∈ findFromNodeToTarget g src tgt ↔
      ∃ es, Path g.edges src es tgt ∧ ∃ e ∈ es, e.w.call = x := by
  rw [findFromNodeToTarget_iff g hg]
  constructor
  · rintro ⟨e, he, hx, h1, h2⟩
    obtain ⟨es, hp, hm⟩ := on_path_iff.mpr ⟨he, h1, h2⟩
    exact ⟨es, hp, e, hm, hx⟩
  · rintro ⟨es, hp, e, hm, hx⟩
    obtain ⟨he, h1, h2⟩ := on_path_iff.mp ⟨es, hp, hm⟩
    exact ⟨e, he, hx, h1, h2⟩

/-- **C24-panic.** The query panics exactly when the source or the target is not a function of
the program (node of the graph); otherwise it returns. -/
theorem findCallSequences_none_iff (g : CallGraph) (src tgt : Tid) :
    findCallSequencesToTarget g src tgt = none ↔ src ∉ g.nodes ∨ tgt ∉ g.nodes := by
  unfold findCallSequencesToTarget
  split
  next h => simp [h.1, h.2]
  next h => simp only [true_iff]; exact Decidable.not_and_iff_or_not.mp h

theorem findCallSequences_some (g : CallGraph) (src tgt : Tid) (h1 : src ∈ g.nodes) (h2 : tgt ∈ g.nodes) :
    findCallSequencesToTarget g src tgt = some (findFromNodeToTarget g src tgt) := by
  simp [findCallSequencesToTarget, h1, h2]

/-! ### the call graph of a program -/

theorem edges_getElem? (p : Program) (i : Nat) :
    (getProgramCallgraph p).edges[i]? =
      ((p.subs.flatMap (callsOfSub (p.subs.map (·.tid))))[i]?).map
        (fun r => (⟨r.1, r.2.1, ⟨i, r.2.2⟩⟩ : CallEdge)) := by
  simp only [getProgramCallgraph, List.getElem?_map, List.getElem?_zipIdx]
  cases (p.subs.flatMap (callsOfSub (p.subs.map (·.tid))))[i]? <;> simp

/-- **C24-edge-ids.** The edge ids of the constructed graph are the positions in the edge list. -/
theorem wfIds_getProgramCallgraph (p : Program) : WfIds (getProgramCallgraph p) := by
  intro e he
  obtain ⟨i, hi⟩ := List.getElem?_of_mem he
  have h := edges_getElem? p i
  rw [hi] at h
  cases hr : (p.subs.flatMap (callsOfSub (p.subs.map (·.tid))))[i]? with
  | none => rw [hr] at h; simp at h
  | some r =>
    rw [hr] at h
    simp at h
    subst h
    exact hi

/-- **C24-one-edge-per-call.** Reading off (source, target, call Tid) of the edges in id order gives
exactly the list of `Jmp::Call`s with internal target, in program order: one edge per call. -/
theorem edges_triples (p : Program) :
    (getProgramCallgraph p).edges.map (fun e => (e.src, e.dst, e.w.call)) =
      p.subs.flatMap (callsOfSub (p.subs.map (·.tid))) := by
  apply List.ext_getElem?
  intro i
  rw [List.getElem?_map, edges_getElem?]
  cases (p.subs.flatMap (callsOfSub (p.subs.map (·.tid))))[i]? <;> simp

theorem nodes_getProgramCallgraph (p : Program) : (getProgramCallgraph p).nodes = p.subs.map (·.tid) := rfl

theorem mem_callsOfSub {nodes : List Tid} {s : Term Sub} {a b t : Tid} :
    (a, b, t) ∈ callsOfSub nodes s ↔
      s.tid = a ∧ ∃ blk ∈ s.term.blocks, ∃ j ∈ blk.term.jmps, j.tid = t ∧ (∃ ret, j.term = .Call b ret) ∧ b ∈ nodes := by
  simp only [callsOfSub, List.mem_filterMap, List.mem_flatMap]
  constructor
  · rintro ⟨j, ⟨blk, hb, hj⟩, h⟩
    split at h
    next target ret heq =>
      split at h
      next hn =>
        simp only [Option.some.injEq, Prod.mk.injEq] at h
        obtain ⟨h1, h2, h3⟩ := h
        subst h2
        exact ⟨h1, blk, hb, j, hj, h3, ⟨ret, heq⟩, hn⟩
      next => simp at h
    next => simp at h
  · rintro ⟨h1, blk, hb, j, hj, h3, ⟨ret, heq⟩, hn⟩
    refine ⟨j, ⟨blk, hb, hj⟩, ?_⟩
    rw [heq]
    simp [hn, h1, h3]

/-- **C24-edges.** The graph has an edge `a → b` carrying call Tid `t` iff `t` is a direct call from
function `a` to the internal function `b`. -/
theorem edge_iff_directCall (p : Program) (a b t : Tid) :
    (∃ e ∈ (getProgramCallgraph p).edges, e.src = a ∧ e.dst = b ∧ e.w.call = t) ↔ DirectCall p a b t := by
  have h : (∃ e ∈ (getProgramCallgraph p).edges, e.src = a ∧ e.dst = b ∧ e.w.call = t) ↔
      (a, b, t) ∈ (getProgramCallgraph p).edges.map (fun e => (e.src, e.dst, e.w.call)) := by
    simp [List.mem_map]
  rw [h, edges_triples]
  simp only [List.mem_flatMap, mem_callsOfSub, DirectCall, List.mem_map]

theorem mem_callees (p : Program) (a b : Tid) :
    b ∈ callees p a ↔ b ∈ succs (getProgramCallgraph p).edges a := by
  rw [mem_succs]
  have : (∃ e ∈ (getProgramCallgraph p).edges, e.src = a ∧ e.dst = b) ↔
      ∃ t, (a, b, t) ∈ (getProgramCallgraph p).edges.map (fun e => (e.src, e.dst, e.w.call)) := by
    simp only [List.mem_map, Prod.mk.injEq]
    constructor
    · rintro ⟨e, he, h1, h2⟩; exact ⟨e.w.call, e, he, h1, h2, rfl⟩
    · rintro ⟨t, e, he, h1, h2, _⟩; exact ⟨e, he, h1, h2⟩
  rw [this, edges_triples]
  simp only [callees, List.mem_filterMap]
  constructor
  · rintro ⟨r, hr, h⟩
    split at h
    next h1 => simp at h; exact ⟨r.2.2, by rw [← h1, ← h]; exact hr⟩
    next => simp at h
  · rintro ⟨t, h⟩
    exact ⟨(a, b, t), h, by simp⟩

theorem callReach_iff (p : Program) (a b : Tid) :
    CallReach p a b ↔ GReach (getProgramCallgraph p).edges a b :=
  ⟨Reach.congr (fun x y h => (mem_callees p x y).mp h), Reach.congr (fun x y h => (mem_callees p x y).mpr h)⟩

/-- **C24 (main theorem).** For every program `p` and all functions `src`, `tgt` of `p`: the
call-sequence query on the program's call graph returns, and it returns exactly the Tids of the
direct calls between internal functions that lie on some call-graph path from `src` to `tgt`. -/
theorem callSequences_exact (p : Program) (src tgt : Tid)
    (hs : src ∈ p.subs.map (·.tid)) (ht : tgt ∈ p.subs.map (·.tid)) :
    ∃ r, findCallSequencesToTarget (getProgramCallgraph p) src tgt = some r ∧
      ∀ x, x ∈ r ↔ OnCallPath p src tgt x := by
  refine ⟨_, findCallSequences_some _ src tgt hs ht, ?_⟩
  intro x
  rw [findFromNodeToTarget_iff _ (wfIds_getProgramCallgraph p)]
  simp only [OnCallPath, callReach_iff]
  constructor
  · rintro ⟨e, he, hx, h1, h2⟩
    exact ⟨e.src, e.dst, (edge_iff_directCall p _ _ _).mp ⟨e, he, rfl, rfl, hx⟩, h1, h2⟩
  · rintro ⟨a, b, hd, h1, h2⟩
    obtain ⟨e, he, rfl, rfl, hx⟩ := (edge_iff_directCall p _ _ _).mpr hd
    exact ⟨e, he, hx, h1, h2⟩

/-- **C24-panic (program level).** The query panics iff source or target is not a function. -/
theorem callSequences_panic_iff (p : Program) (src tgt : Tid) :
    findCallSequencesToTarget (getProgramCallgraph p) src tgt = none ↔
      src ∉ p.subs.map (·.tid) ∨ tgt ∉ p.subs.map (·.tid) :=
  findCallSequences_none_iff _ src tgt

/-! ### the executable specification used by the driver -/

theorem closeN_mono (next : Tid → List Tid) (k : Nat) (S : List Tid) : ∀ x ∈ S, x ∈ closeN next k S := by
  induction k generalizing S with
  | zero => intro x hx; exact hx
  | succ k ih =>
    intro x hx
    exact ih _ x (List.mem_eraseDups.mpr (List.mem_append_left _ hx))

theorem closeN_sound (next : Tid → List Tid) (k : Nat) (S : List Tid) :
    ∀ x ∈ closeN next k S, ∃ s ∈ S, Reach next s x := by
  induction k generalizing S with
  | zero => intro x hx; exact ⟨x, hx, .refl x⟩
  | succ k ih =>
    intro x hx
    obtain ⟨s, hs, hr⟩ := ih _ x hx
    rcases List.mem_append.mp (List.mem_eraseDups.mp hs) with h | h
    · exact ⟨s, h, hr⟩
    · obtain ⟨a, ha, hsa⟩ := List.mem_flatMap.mp h
      exact ⟨a, ha, Reach.head hsa hr⟩

theorem closedB_complete (next : Tid → List Tid) (S : List Tid) (h : closedB next S = true)
    {a b : Tid} (ha : a ∈ S) (hr : Reach next a b) : b ∈ S := by
  simp only [closedB, List.all_eq_true, decide_eq_true_eq] at h
  exact Reach.closed (P := (· ∈ S)) (fun x y hx hy => h x hx y hy) hr ha

/-- **C24-spec.** Whenever the executable specification answers, its answer is the declarative
one (same right-hand side as `findFromNodeToTarget_iff`). -/
theorem specResult_iff (g : CallGraph) (src tgt : Tid) (r : List Tid) (h : specResult g src tgt = some r)
    (x : Tid) :
    x ∈ r ↔ ∃ e ∈ g.edges, e.w.call = x ∧ GReach g.edges src e.src ∧ GReach g.edges e.dst tgt := by
  simp only [specResult] at h
  split at h
  next hc =>
    simp only [Bool.and_eq_true] at hc
    simp only [Option.some.injEq] at h
    subst h
    simp only [List.mem_map, List.mem_filter, Bool.and_eq_true, decide_eq_true_eq]
    constructor
    · rintro ⟨e, ⟨he, hF, hB⟩, hx⟩
      obtain ⟨s, hs, hr1⟩ := closeN_sound _ _ _ _ hF
      obtain ⟨t, ht, hr2⟩ := closeN_sound _ _ _ _ hB
      simp at hs ht; subst hs; subst ht
      exact ⟨e, he, hx, hr1, (reach_preds_iff _ _ _).mp hr2⟩
    · rintro ⟨e, he, hx, hr1, hr2⟩
      refine ⟨e, ⟨he, ?_, ?_⟩, hx⟩
      · exact closedB_complete _ _ hc.1 (closeN_mono _ _ _ _ (by simp)) hr1
      · exact closedB_complete _ _ hc.2 (closeN_mono _ _ _ _ (by simp)) ((reach_preds_iff _ _ _).mpr hr2)
  next => simp at h

/-- model and executable specification agree as sets (for graphs with consistent ids) -/
theorem model_eq_spec (g : CallGraph) (hg : WfIds g) (src tgt : Tid) (r : List Tid)
    (h : specResult g src tgt = some r) (x : Tid) : x ∈ findFromNodeToTarget g src tgt ↔ x ∈ r := by
  rw [findFromNodeToTarget_iff g hg, specResult_iff g src tgt r h]

/-! ### non-vacuity: a concrete program

`f0` calls `f1` twice and itself once, `f1` calls `f2` and an extern symbol, `f2` calls `f0`
(cycle) and calls through a pointer, `f3` calls `f0`; nobody calls `f3`. -/

private def mkCall (t tgt : String) : Term Jmp := ⟨⟨t, "UNKNOWN"⟩, .Call ⟨tgt, "UNKNOWN"⟩ none⟩
private def mkSub (t : String) (jmps : List (Term Jmp)) : Term Sub :=
  ⟨⟨t, "UNKNOWN"⟩, { name := t, blocks := [⟨⟨t ++ "_b", "UNKNOWN"⟩, { defs := [], jmps := jmps }⟩] }⟩

def exProgram : Program :=
  { subs := [mkSub "f0" [mkCall "c1" "f1", mkCall "c2" "f1", mkCall "c3" "f0"],
             mkSub "f1" [mkCall "c4" "f2", mkCall "c5" "ext"],
             mkSub "f2" [mkCall "c6" "f0", ⟨⟨"c7", "UNKNOWN"⟩, .CallInd (.Var ⟨"RAX", 8, false⟩) none⟩],
             mkSub "f3" [mkCall "c8" "f0"]]
    externSymbols := [], entryPoints := [] }

example : (getProgramCallgraph exProgram).edges.length = 6 := by decide
example : findCallSequencesToTarget (getProgramCallgraph exProgram) ⟨"f0", "UNKNOWN"⟩ ⟨"f1", "UNKNOWN"⟩
    = some ([⟨"c6", "UNKNOWN"⟩, ⟨"c4", "UNKNOWN"⟩, ⟨"c1", "UNKNOWN"⟩, ⟨"c2", "UNKNOWN"⟩, ⟨"c3", "UNKNOWN"⟩]) := by decide
example : findCallSequencesToTarget (getProgramCallgraph exProgram) ⟨"f0", "UNKNOWN"⟩ ⟨"f3", "UNKNOWN"⟩ = some [] := by
  decide
example : findCallSequencesToTarget (getProgramCallgraph exProgram) ⟨"f0", "UNKNOWN"⟩ ⟨"ext", "UNKNOWN"⟩ = none := by
  decide
/-- the hypotheses of the main theorem hold for the example, and the statement gives a concrete fact -/
example : OnCallPath exProgram ⟨"f3", "UNKNOWN"⟩ ⟨"f2", "UNKNOWN"⟩ ⟨"c4", "UNKNOWN"⟩ := by
  obtain ⟨r, h1, h2⟩ := callSequences_exact exProgram ⟨"f3", "UNKNOWN"⟩ ⟨"f2", "UNKNOWN"⟩ (by decide) (by decide)
  refine (h2 _).mp ?_
  have : findCallSequencesToTarget (getProgramCallgraph exProgram) ⟨"f3", "UNKNOWN"⟩ ⟨"f2", "UNKNOWN"⟩ =
      some [⟨"c6", "UNKNOWN"⟩, ⟨"c4", "UNKNOWN"⟩, ⟨"c1", "UNKNOWN"⟩, ⟨"c2", "UNKNOWN"⟩, ⟨"c3", "UNKNOWN"⟩, ⟨"c8", "UNKNOWN"⟩] := by
    decide
  rw [this] at h1
  cases h1
  decide

end CweModel.C24
