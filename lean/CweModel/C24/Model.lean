/-
C24 — model of `analysis/callgraph.rs`: `get_program_callgraph` and
`find_call_sequences_to_target` (with `find_call_sequences_from_node_to_target`).

A petgraph `NodeIndex` is identified with the `Tid` stored at the node: the nodes are created from
the keys of the `BTreeMap<Tid, Term<Sub>>`, which are pairwise distinct, so `NodeIndex ↔ Tid` is a
bijection (and the canonical JSON of `Program` guarantees key = `sub.tid`). Edge ids are kept:
petgraph numbers edges in insertion order, the model stores that number in the edge weight and the
intersection of the two edge sets is taken on the ids, as in the code.
-/
import CweModel.Base.IRInst
import CweModel.Base.Reach
open CweModel.IR CweModel.Reach

namespace CweModel.C24

/-- weight of a call-graph edge: petgraph's `EdgeIndex` and the Tid of the `Jmp::Call` term
(the code stores `&Term<Jmp>`; only `.tid` is ever read) -/
structure CallW where
  id : Nat
  call : Tid
deriving Repr, DecidableEq

abbrev CallEdge := Edge Tid CallW

/-- `CallGraph = DiGraph<Tid, &Term<Jmp>>` -/
structure CallGraph where
  nodes : List Tid
  edges : List CallEdge
deriving Repr

/-- inner loops of `get_program_callgraph` for one sub: `(source, target, tid of the jump)` for each
`Jmp::Call { target, .. }` of each block (ALL jumps of the block are inspected, in order) whose
target is a key of `tid_to_node_index_map`. -/
def callsOfSub (nodes : List Tid) (s : Term Sub) : List (Tid × Tid × Tid) :=
  (s.term.blocks.flatMap (·.term.jmps)).filterMap fun j =>
    match j.term with
    | .Call target _ => if target ∈ nodes then some (s.tid, target, j.tid) else none
    | _ => none

/-- `get_program_callgraph` -/
def getProgramCallgraph (p : Program) : CallGraph :=
  let nodes := p.subs.map (·.tid)
  let raw := p.subs.flatMap (callsOfSub nodes)
  { nodes := nodes
    edges := raw.zipIdx.map fun ri => ⟨ri.1.1, ri.1.2.1, ⟨ri.2, ri.1.2.2⟩⟩ }

/-- `edges_directed(node, Outgoing)` (as a set; petgraph's iteration order is irrelevant for the result) -/
def outEdges (g : CallGraph) (n : Tid) : List CallEdge := g.edges.filter (fun e => decide (e.src = n))
/-- `edges_directed(node, Incoming)` -/
def inEdges (g : CallGraph) (n : Tid) : List CallEdge := g.edges.filter (fun e => decide (e.dst = n))

/-- One `while let Some(node) = stack.pop()` loop of `find_call_sequences_from_node_to_target`:
`adj n` are the edges incident to `n` in the direction of the pass, `far e` the neighbour at the
other end. State: stack (top first), visited node set, collected edge-id set. -/
def pass (adj : Tid → List CallEdge) (far : CallEdge → Tid) :
    Nat → List Tid → List Tid → List Nat → List Tid × List Nat
  | 0, _, vis, es => (vis, es)
  | _ + 1, [], vis, es => (vis, es)
  | f + 1, n :: st, vis, es =>
    if n ∈ vis then pass adj far f st vis es
    else pass adj far f ((adj n).map far ++ st) (n :: vis) ((adj n).map (·.w.id) ++ es)

/-- iterations after which both loops have certainly ended (`Reach.dfs_fuel_sufficient`) -/
def passFuel (g : CallGraph) : Nat := g.edges.length + 2

/-- `find_call_sequences_from_node_to_target`: two passes, intersection of the edge-id sets, map to
the call Tids (`callgraph[*edge].tid`). The result is a `BTreeSet<Tid>`; the model returns a list
that is read as a set. -/
def findFromNodeToTarget (g : CallGraph) (src tgt : Tid) : List Tid :=
  let fwd := (pass (outEdges g) (·.dst) (passFuel g) [src] [] []).2
  let bwd := (pass (inEdges g) (·.src) (passFuel g) [tgt] [] []).2
  fwd.filterMap fun i => if i ∈ bwd then (g.edges[i]?).map (·.w.call) else none

/-- `find_call_sequences_to_target`; `none` = `panic!("Function TID not found in call graph.")` -/
def findCallSequencesToTarget (g : CallGraph) (src tgt : Tid) : Option (List Tid) :=
  if src ∈ g.nodes ∧ tgt ∈ g.nodes then some (findFromNodeToTarget g src tgt) else none

/-! ### Specification -/

/-- `a` directly calls the internal function `b` by the call instruction `t` -/
def DirectCall (p : Program) (a b t : Tid) : Prop :=
  ∃ s ∈ p.subs, s.tid = a ∧ ∃ blk ∈ s.term.blocks, ∃ j ∈ blk.term.jmps,
    j.tid = t ∧ (∃ ret, j.term = .Call b ret) ∧ ∃ s' ∈ p.subs, s'.tid = b

/-- internal functions directly called by `a` (successor function of the call graph) -/
def callees (p : Program) (a : Tid) : List Tid :=
  (p.subs.flatMap (callsOfSub (p.subs.map (·.tid)))).filterMap
    fun r => if r.1 = a then some r.2.1 else none

/-- `b` is reachable from `a` in the call graph: a chain of ≥ 0 direct internal calls -/
abbrev CallReach (p : Program) (a b : Tid) : Prop := Reach (callees p) a b

/-- Declarative specification (the property): `t` is a direct call between internal functions that
lies on some call-graph path from `src` to `tgt`. -/
def OnCallPath (p : Program) (src tgt t : Tid) : Prop :=
  ∃ a b, DirectCall p a b t ∧ CallReach p src a ∧ CallReach p b tgt

/-- naive closure: `k` rounds of adding all successors of the current set -/
def closeN (next : Tid → List Tid) : Nat → List Tid → List Tid
  | 0, S => S
  | k + 1, S => closeN next k ((S ++ S.flatMap next).eraseDups)

/-- the set is closed under `next` (certificate check for the naive closure) -/
def closedB (next : Tid → List Tid) (S : List Tid) : Bool :=
  S.all fun a => (next a).all fun b => decide (b ∈ S)

/-- Executable specification: naive forward closure of the source, naive backward closure of the
target, both iterated `#nodes + 1` rounds, then all call edges from the first into the second set.
`none` if one of the closures is not closed (never happens; then nothing is claimed). -/
def specResult (g : CallGraph) (src tgt : Tid) : Option (List Tid) :=
  let k := g.nodes.length + 1
  let F := closeN (succs g.edges) k [src]
  let B := closeN (preds g.edges) k [tgt]
  if closedB (succs g.edges) F && closedB (preds g.edges) B then
    some ((g.edges.filter fun e => decide (e.src ∈ F) && decide (e.dst ∈ B)).map (·.w.call))
  else none

end CweModel.C24
