/-
C07 — theorems.

Property C07: "For every graph and every monotone transfer system over a finite-height join lattice,
running the solver from given start values terminates with the least assignment that contains the
start values and is closed under all edge transfers, whatever node priority order is used. With a
step bound, no node is processed more often than the bound, and the solver reports 'stabilized'
only when the returned assignment is closed under all edge transfers."

Structure of the proof:
* `CweModel.Base.Fix` proves the statement for an abstract machine in which the node taken from the
  worklist and the order of its out-edges are ARBITRARY (`run_least`, `run_unique`, `runN_bound`,
  `exists_stabilized_run`, `BRun.steps_le`, `bounded_closed_of_stabilized`, `bounded_between`).
* This file proves that the function-by-function model of the Rust code (`Model.lean`: priorities,
  `BTreeSet` worklist, largest priority first, petgraph edge order) refines that machine for EVERY
  priority list in which each node occurs (`compute_run`, `loop_run`), and concludes the property
  for the model (`compute_least`, `compute_terminates`, `compute_order_independent`,
  `bounded_steps_le`, `bounded_stabilized_closed`, `bounded_between_start_and_least`,
  `bounded_terminates`, `resume_least`).
* `kleene_least` justifies the executable specification the driver evaluates on the
  implementation's output.
-/
import CweModel.C07.Model
namespace CweModel.C07
open CweModel.Fix

variable {V : Type}

/-! ### Worklist-set helpers -/

theorem mem_insertSet {x p : Nat} {l : List Nat} : x ∈ insertSet p l ↔ x = p ∨ x ∈ l := by
  unfold insertSet
  split
  · constructor
    · exact Or.inr
    · rintro (rfl | h)
      · assumption
      · exact h
  · exact List.mem_cons

theorem maxPrio_mem : ∀ {l : List Nat} {p : Nat}, maxPrio l = some p → p ∈ l := by
  intro l
  induction l with
  | nil => intro p h; cases h
  | cons a rest ih =>
    intro p h
    simp only [maxPrio] at h
    cases hr : maxPrio rest with
    | none =>
      rw [hr] at h; cases h; exact List.mem_cons_self ..
    | some q =>
      rw [hr] at h; cases h
      have hq := ih hr
      by_cases hle : a ≤ q
      · rw [Nat.max_eq_right hle]; exact List.mem_cons_of_mem _ hq
      · rw [Nat.max_eq_left (by omega)]; exact List.mem_cons_self ..

theorem maxPrio_none : ∀ {l : List Nat}, maxPrio l = none → l = [] := by
  intro l h
  cases l with
  | nil => rfl
  | cons a rest =>
    simp only [maxPrio] at h
    cases hr : maxPrio rest <;> rw [hr] at h <;> cases h

/-! ### The priority tables -/

theorem nodeToIndex_some : ∀ (l : List Nat) (off node i : Nat), nodeToIndex l off node = some i →
    ∃ j, i = off + j ∧ l[j]? = some node := by
  intro l
  induction l with
  | nil => intro off node i h; cases h
  | cons x rest ih =>
    intro off node i h
    simp only [nodeToIndex] at h
    cases hr : nodeToIndex rest (off + 1) node with
    | some i' =>
      rw [hr] at h; cases h
      obtain ⟨j, hj, hget⟩ := ih _ _ _ hr
      exact ⟨j + 1, by omega, by simpa using hget⟩
    | none =>
      rw [hr] at h
      by_cases hx : x = node
      · simp [hx] at h; exact ⟨0, by omega, by simp [hx]⟩
      · simp [hx] at h

theorem nodeToIndex_isSome : ∀ (l : List Nat) (off node : Nat), node ∈ l →
    ∃ i, nodeToIndex l off node = some i := by
  intro l
  induction l with
  | nil => intro off node h; cases h
  | cons x rest ih =>
    intro off node h
    simp only [nodeToIndex]
    cases hr : nodeToIndex rest (off + 1) node with
    | some i' => exact ⟨i', rfl⟩
    | none =>
      rcases List.mem_cons.mp h with rfl | h
      · exact ⟨off, by simp⟩
      · obtain ⟨i, hi⟩ := ih (off + 1) node h
        rw [hr] at hi; cases hi

/-- `priority_to_node_list[node_priority_list[node]] = node` for every node that occurs in the
priority list -/
theorem mkNodePrio_inv (prio : List Nat) (node : Nat) (h : node ∈ prio) :
    prio.getD (mkNodePrio prio node) 0 = node := by
  obtain ⟨i, hi⟩ := nodeToIndex_isSome prio 0 node h
  obtain ⟨j, hj, hget⟩ := nodeToIndex_some prio 0 node i hi
  simp only [mkNodePrio, hi, Option.getD_some]
  have : i = j := by omega
  subst this
  simp [List.getD_eq_getElem?_getD, hget]

theorem mkNodePrio_lt (prio : List Nat) (node : Nat) (h : node ∈ prio) :
    mkNodePrio prio node < prio.length := by
  obtain ⟨i, hi⟩ := nodeToIndex_isSome prio 0 node h
  obtain ⟨j, hj, hget⟩ := nodeToIndex_some prio 0 node i hi
  simp only [mkNodePrio, hi, Option.getD_some]
  have : i = j := by omega
  subst this
  by_cases hlt : i < prio.length
  · exact hlt
  · rw [List.getElem?_eq_none (by omega)] at hget; cases hget

/-! ### Refinement: the model's loop iterations are steps of the abstract machine -/

/-- the abstract state of a `Comp`: a node is in the abstract worklist iff its priority is in the
`BTreeSet` -/
def absState (n : Nat) (c : Comp V) : State V :=
  { vals := c.vals
    wl := fun i => decide (i < n) && decide (c.nodePrio i ∈ c.worklist) }

/-- the priority tables are inverse on the nodes `< n`, and the worklist holds priorities of nodes -/
structure PrioOK (n : Nat) (c : Comp V) : Prop where
  inv : ∀ i, i < n → c.prioToNode.getD (c.nodePrio i) 0 = i
  wl  : ∀ p ∈ c.worklist, ∃ i, i < n ∧ c.nodePrio i = p

theorem PrioOK.inj {n : Nat} {c : Comp V} (h : PrioOK n c) {i j : Nat} (hi : i < n) (hj : j < n)
    (heq : c.nodePrio i = c.nodePrio j) : i = j := by
  have := h.inv i hi
  rw [heq, h.inv j hj] at this
  exact this.symm

theorem State.ext' {s t : State V} (h1 : s.vals = t.vals) (h2 : s.wl = t.wl) : s = t := by
  cases s; cases t; simp at h1 h2; simp [h1, h2]

theorem sim_setNodeValue {n : Nat} {c : Comp V} (h : PrioOK n c) {node : Nat} (hn : node < n) (v : V) :
    PrioOK n (c.setNodeValue node v) ∧
    absState n (c.setNodeValue node v) = (absState n c).setNodeValue node v := by
  constructor
  · refine ⟨h.inv, ?_⟩
    intro p hp
    rcases mem_insertSet.mp hp with rfl | hp
    · exact ⟨node, hn, rfl⟩
    · exact h.wl p hp
  · apply State.ext'
    · rfl
    · funext i
      simp only [absState, Comp.setNodeValue, State.setNodeValue]
      by_cases hi : i = node
      · subst hi; simp [hn, mem_insertSet]
      · simp only [hi, if_false]
        by_cases hin : i < n
        · have : c.nodePrio i ≠ c.nodePrio node := fun heq => hi (h.inj hin hn heq)
          simp [hin, mem_insertSet, this]
        · simp [hin]

variable [DecidableEq V]

theorem sim_mergeNodeValue (P : Problem V) {n : Nat} {c : Comp V} (h : PrioOK n c) {node : Nat}
    (hn : node < n) (v : V) :
    PrioOK n (c.mergeNodeValue P node v) ∧
    absState n (c.mergeNodeValue P node v) = mergeNodeValue P (absState n c) node v := by
  unfold Comp.mergeNodeValue mergeNodeValue
  have hv : (absState n c).vals node = c.vals node := rfl
  rw [hv]
  cases c.vals node with
  | none => exact sim_setNodeValue h hn v
  | some old =>
    dsimp only
    split
    · exact sim_setNodeValue h hn _
    · exact ⟨h, rfl⟩

theorem sim_updateEdge (P : Problem V) {n : Nat} {c : Comp V} (h : PrioOK n c) (e : Edge V)
    (he : e.dst < n) :
    PrioOK n (c.updateEdge P e) ∧ absState n (c.updateEdge P e) = updateEdge P (absState n c) e := by
  unfold Comp.updateEdge updateEdge
  have hv : (absState n c).vals e.src = c.vals e.src := rfl
  rw [hv]
  cases c.vals e.src with
  | none => exact ⟨h, rfl⟩
  | some a =>
    dsimp only
    cases e.f a with
    | none => exact ⟨h, rfl⟩
    | some x => exact sim_mergeNodeValue P h he x

theorem sim_updateEdges (P : Problem V) {n : Nat} (es : List (Edge V)) (hes : ∀ e ∈ es, e.dst < n) :
    ∀ {c : Comp V}, PrioOK n c →
      PrioOK n (es.foldl (Comp.updateEdge P) c) ∧
      absState n (es.foldl (Comp.updateEdge P) c) = updateEdges P (absState n c) es := by
  induction es with
  | nil => intro c h; exact ⟨h, rfl⟩
  | cons e es ih =>
    intro c h
    obtain ⟨h1, h2⟩ := sim_updateEdge P h e (hes e (List.mem_cons_self ..))
    obtain ⟨h3, h4⟩ := ih (fun e' he' => hes e' (List.mem_cons_of_mem _ he')) h1
    refine ⟨h3, ?_⟩
    simp only [List.foldl_cons, updateEdges] at h4 ⊢
    rw [h4, h2]

omit [DecidableEq V] in
/-- petgraph's enumeration of the out-edges is admissible -/
theorem outEdges_ok (P : Problem V) (node : Nat) : OutEdges P node (outEdges P node) := by
  constructor
  · intro e he
    have := List.mem_filter.mp (List.mem_reverse.mp he)
    exact ⟨this.1, by simpa using this.2⟩
  · intro e he hp
    exact List.mem_reverse.mpr (List.mem_filter.mpr ⟨he, by simpa using hp⟩)

theorem sim_updateNode (P : Problem V) {n : Nat} (hW : WellFormed P n) {c : Comp V} (h : PrioOK n c)
    (node : Nat) :
    PrioOK n (c.updateNode P node) ∧
    absState n (c.updateNode P node) = updateEdges P (absState n c) (outEdges P node) :=
  sim_updateEdges P _ (fun e he => (hW e ((outEdges_ok P node).1 e he).1).2) h

omit [DecidableEq V] in
/-- taking the largest priority out of the `BTreeSet` removes exactly its node from the abstract
worklist -/
theorem sim_popMax {n : Nat} {c c' : Comp V} (h : PrioOK n c) {p : Nat} (hp : c.popMax = some (p, c')) :
    let node := c.prioToNode.getD p 0
    node < n ∧ (absState n c).wl node = true ∧ PrioOK n c' ∧ absState n c' = (absState n c).remove node ∧
    c.nodePrio node = p ∧ c'.nodePrio = c.nodePrio ∧ c'.prioToNode = c.prioToNode := by
  unfold Comp.popMax at hp
  cases hm : maxPrio c.worklist with
  | none => rw [hm] at hp; cases hp
  | some q =>
    rw [hm] at hp
    simp only [Option.some.injEq, Prod.mk.injEq] at hp
    obtain ⟨rfl, rfl⟩ := hp
    have hmem := maxPrio_mem hm
    obtain ⟨i, hi, hnp⟩ := h.wl q hmem
    have hnode : c.prioToNode.getD q 0 = i := by rw [← hnp]; exact h.inv i hi
    intro node
    have hnode' : node = i := hnode
    rw [hnode']
    refine ⟨hi, ?_, ?_, ?_, hnp, rfl, rfl⟩
    · simp [absState, hi, hnp, hmem]
    · refine ⟨h.inv, ?_⟩
      intro p hp
      exact h.wl p (List.mem_filter.mp hp).1
    · apply State.ext'
      · rfl
      · funext j
        simp only [absState, State.remove]
        by_cases hj : j = i
        · subst hj; simp [hnp]
        · simp only [hj, if_false]
          by_cases hjn : j < n
          · have : c.nodePrio j ≠ q := by
              intro heq; exact hj (h.inj hjn hi (heq.trans hnp.symm))
            simp [hjn, List.mem_filter, this]
          · simp [hjn]

omit [DecidableEq V] in
theorem popMax_none {c : Comp V} (h : c.popMax = none) : c.worklist = [] := by
  unfold Comp.popMax at h
  cases hm : maxPrio c.worklist with
  | none => exact maxPrio_none hm
  | some q => rw [hm] at h; cases h

omit [DecidableEq V] in
theorem absState_stabilized {n : Nat} {c : Comp V} (h : c.worklist = []) : (absState n c).stabilized := by
  intro i; simp [absState, h]

/-- one iteration of the model's `compute` loop is a `Fix.Step` -/
theorem sim_iteration (P : Problem V) {n : Nat} (hW : WellFormed P n) {c c' : Comp V} (h : PrioOK n c)
    {p : Nat} (hp : c.popMax = some (p, c')) :
    let node := c.prioToNode.getD p 0
    PrioOK n (c'.updateNode P node) ∧ Step P (absState n c) (absState n (c'.updateNode P node)) := by
  intro node
  obtain ⟨_, hwl, hok, habs, _, _, _⟩ := sim_popMax h hp
  obtain ⟨hok2, habs2⟩ := sim_updateNode P hW hok node
  refine ⟨hok2, ?_⟩
  rw [habs2, habs]
  exact Step.mk _ node _ hwl (outEdges_ok P node)

/-- **refinement of `compute`**: if the loop of the model ends by itself, the final state is reached
by a run of the abstract machine and its worklist is empty. -/
theorem compute_run (P : Problem V) {n : Nat} (hW : WellFormed P n) :
    ∀ (fuel : Nat) (c c' : Comp V), PrioOK n c → Comp.compute P fuel c = (c', true) →
      Run P (absState n c) (absState n c') ∧ c'.worklist = [] ∧ PrioOK n c' := by
  intro fuel
  induction fuel with
  | zero =>
    intro c c' h hc
    simp only [Comp.compute, Prod.mk.injEq] at hc
    obtain ⟨rfl, hemp⟩ := hc
    exact ⟨Run.refl _ _, by simpa using hemp, h⟩
  | succ fuel ih =>
    intro c c' h hc
    simp only [Comp.compute, Comp.takeNext] at hc
    cases hp : c.popMax with
    | none =>
      rw [hp] at hc
      simp only [Prod.mk.injEq, and_true] at hc
      subst hc
      exact ⟨Run.refl _ _, popMax_none hp, h⟩
    | some pc =>
      obtain ⟨p, c1⟩ := pc
      rw [hp] at hc
      obtain ⟨hok, hstep⟩ := sim_iteration P hW h hp
      obtain ⟨hrun, hemp, hok'⟩ := ih _ _ hok hc
      exact ⟨Run.head hstep hrun, hemp, hok'⟩

omit [DecidableEq V] in
theorem absState_wlBounded (n : Nat) (c : Comp V) : WlBounded n (absState n c) := by
  intro i hi
  simp [absState] at hi
  exact hi.1

/-- **the fuel that suffices**: the loop of the model ends by itself whenever the fuel is at least
the termination measure (≤ `n·(2H+3)`). -/
theorem compute_fuel (P : Problem V) (hL : IsSemilattice P.join) {H : Nat} {rank : V → Nat}
    (hR : Ranked P H rank) {n : Nat} (hW : WellFormed P n) :
    ∀ (fuel : Nat) (c : Comp V), PrioOK n c → measure n H rank (absState n c) ≤ fuel →
      (Comp.compute P fuel c).2 = true := by
  intro fuel
  induction fuel with
  | zero =>
    intro c h hm
    simp only [Comp.compute]
    cases hp : c.popMax with
    | none => simp [popMax_none hp]
    | some pc =>
      obtain ⟨p, c1⟩ := pc
      have := (sim_iteration P hW h hp).2.measure_lt hL hR (absState_wlBounded n c)
      omega
  | succ fuel ih =>
    intro c h hm
    simp only [Comp.compute, Comp.takeNext]
    cases hp : c.popMax with
    | none => rfl
    | some pc =>
      obtain ⟨p, c1⟩ := pc
      obtain ⟨hok, hstep⟩ := sim_iteration P hW h hp
      have := hstep.measure_lt hL hR (absState_wlBounded n c)
      exact ih _ hok (by omega)

/-! ### Refinement of `compute_with_max_steps` -/

omit [DecidableEq V] in
theorem nodePrio_setNodeValue (c : Comp V) (node : Nat) (v : V) :
    (c.setNodeValue node v).nodePrio = c.nodePrio := rfl

theorem nodePrio_updateEdge (P : Problem V) (c : Comp V) (e : Edge V) :
    (c.updateEdge P e).nodePrio = c.nodePrio ∧ (c.updateEdge P e).prioToNode = c.prioToNode := by
  unfold Comp.updateEdge Comp.mergeNodeValue
  dsimp only
  repeat' split
  all_goals exact ⟨rfl, rfl⟩

theorem nodePrio_updateNode (P : Problem V) (c : Comp V) (node : Nat) :
    (c.updateNode P node).nodePrio = c.nodePrio ∧ (c.updateNode P node).prioToNode = c.prioToNode := by
  unfold Comp.updateNode
  generalize outEdges P node = es
  induction es generalizing c with
  | nil => exact ⟨rfl, rfl⟩
  | cons e es ih =>
    simp only [List.foldl_cons]
    have := nodePrio_updateEdge P c e
    have := ih (c.updateEdge P e)
    exact ⟨this.1.trans (by assumption : _ ∧ _).1, this.2.trans (by assumption : _ ∧ _).2⟩

/-- abstract state of the bounded loop -/
def absB (n : Nat) (b : BComp V) : BState V :=
  { st := absState n b.c
    steps := b.steps
    nonStab := fun i => decide (i < n) && decide (b.c.nodePrio i ∈ b.nonStab) }

omit [DecidableEq V] in
theorem BState.ext' {a b : BState V} (h1 : a.st = b.st) (h2 : a.steps = b.steps) (h3 : a.nonStab = b.nonStab) :
    a = b := by
  cases a; cases b; simp at h1 h2 h3; simp [h1, h2, h3]

/-- **refinement of `compute_with_max_steps`**: every iteration of the model's loop is a `Fix.BStep` -/
theorem loop_run (P : Problem V) {n : Nat} (hW : WellFormed P n) (k : Nat) :
    ∀ (fuel : Nat) (b b' : BComp V), PrioOK n b.c →
      (∀ q ∈ b.nonStab, ∃ i, i < n ∧ b.c.nodePrio i = q) → BComp.loop P k fuel b = (b', true) →
      BRun P k (absB n b) (absB n b') ∧ b'.c.worklist = [] ∧ PrioOK n b'.c ∧
      (∀ q ∈ b'.nonStab, ∃ i, i < n ∧ b'.c.nodePrio i = q) := by
  intro fuel
  induction fuel with
  | zero =>
    intro b b' h hns hc
    simp only [BComp.loop, Prod.mk.injEq] at hc
    obtain ⟨rfl, hemp⟩ := hc
    exact ⟨.refl _, by simpa using hemp, h, hns⟩
  | succ fuel ih =>
    intro b b' h hns hc
    simp only [BComp.loop] at hc
    cases hp : b.c.popMax with
    | none =>
      rw [hp] at hc
      simp only [Prod.mk.injEq, and_true] at hc
      subst hc
      exact ⟨.refl _, popMax_none hp, h, hns⟩
    | some pc =>
      obtain ⟨p, c1⟩ := pc
      rw [hp] at hc
      dsimp only at hc
      obtain ⟨hnode, hwl, hok1, habs1, hnp, hnp1, _⟩ := sim_popMax h hp
      generalize b.c.prioToNode.getD p 0 = node at *
      by_cases hlt : b.steps node < k
      · simp only [hlt, if_true] at hc
        obtain ⟨hok2, habs2⟩ := sim_updateNode P hW hok1 node
        have hns2 : ∀ q ∈ b.nonStab, ∃ i, i < n ∧ (c1.updateNode P node).nodePrio i = q := by
          rw [(nodePrio_updateNode P c1 _).1, hnp1]; exact hns
        obtain ⟨hrun, hemp, hok', hns'⟩ := ih _ _ hok2 hns2 hc
        refine ⟨.step ?_ hrun, hemp, hok', hns'⟩
        have hstep := BStep.process (P := P) (k := k) (absB n b) node _ hwl hlt
          (outEdges_ok P _)
        have heq : absB n { c := c1.updateNode P node,
                            steps := fun i => if i = node then b.steps i + 1 else b.steps i,
                            nonStab := b.nonStab } =
            { st := updateEdges P ((absB n b).st.remove node)
                      (outEdges P node),
              steps := fun i => if i = node then (absB n b).steps i + 1
                      else (absB n b).steps i,
              nonStab := (absB n b).nonStab } := by
          apply BState.ext'
          · show absState n (c1.updateNode P _) = _
            rw [habs2, habs1]; rfl
          · rfl
          · funext i
            show (decide (i < n) && decide ((c1.updateNode P _).nodePrio i ∈ b.nonStab)) = _
            rw [(nodePrio_updateNode P c1 _).1, hnp1]; rfl
        rw [heq]
        exact hstep
      · simp only [hlt, if_false] at hc
        have hns2 : ∀ q ∈ insertSet p b.nonStab, ∃ i, i < n ∧ c1.nodePrio i = q := by
          rw [hnp1]
          intro q hq
          rcases mem_insertSet.mp hq with rfl | hq
          · exact ⟨node, hnode, hnp⟩
          · exact hns q hq
        obtain ⟨hrun, hemp, hok', hns'⟩ := ih _ _ hok1 hns2 hc
        refine ⟨.step ?_ hrun, hemp, hok', hns'⟩
        have hstep := BStep.giveUp (P := P) (k := k) (absB n b) node hwl hlt
        have heq : absB n { c := c1, steps := b.steps, nonStab := insertSet p b.nonStab } =
            { st := (absB n b).st.remove node,
              steps := (absB n b).steps,
              nonStab := fun i => if i = node then true else (absB n b).nonStab i } := by
          apply BState.ext'
          · exact habs1
          · rfl
          · funext i
            show (decide (i < n) && decide (c1.nodePrio i ∈ insertSet p b.nonStab)) = _
            rw [hnp1]
            by_cases hi : i = node
            · subst hi; simp [hnode, mem_insertSet, hnp]
            · simp only [hi, if_false, absB]
              by_cases hin : i < n
              · have : b.c.nodePrio i ≠ p := by
                  intro heq; exact hi (h.inj hin hnode (heq.trans hnp.symm))
                simp [hin, mem_insertSet, this]
              · simp [hin]
        rw [heq]
        exact hstep

/-- the loop of the bounded variant ends by itself with fuel ≥ the termination measure -/
theorem loop_fuel (P : Problem V) (hL : IsSemilattice P.join) {H : Nat} {rank : V → Nat}
    (hR : Ranked P H rank) {n : Nat} (hW : WellFormed P n) (k : Nat) :
    ∀ (fuel : Nat) (b : BComp V), PrioOK n b.c → measure n H rank (absState n b.c) ≤ fuel →
      (BComp.loop P k fuel b).2 = true := by
  intro fuel
  induction fuel with
  | zero =>
    intro b h hm
    simp only [BComp.loop]
    cases hp : b.c.popMax with
    | none => simp [popMax_none hp]
    | some pc =>
      obtain ⟨p, c1⟩ := pc
      have := (sim_iteration P hW h hp).2.measure_lt hL hR (absState_wlBounded n b.c)
      omega
  | succ fuel ih =>
    intro b h hm
    simp only [BComp.loop]
    cases hp : b.c.popMax with
    | none => rfl
    | some pc =>
      obtain ⟨p, c1⟩ := pc
      dsimp only
      obtain ⟨hnode, hwl, hok1, habs1, _, _, _⟩ := sim_popMax h hp
      split
      · obtain ⟨hok, hstep⟩ := sim_iteration P hW h hp
        have := hstep.measure_lt hL hR (absState_wlBounded n b.c)
        exact ih _ hok (by dsimp only; omega)
      · have hlt : measure n H rank (absState n c1) + 1 ≤ measure n H rank (absState n b.c) := by
          rw [habs1]; exact measure_remove_lt hwl hnode
        exact ih _ hok1 (by dsimp only; omega)

/-! ### Start states -/

/-- a priority order of a graph with `n` nodes: every node occurs exactly once -/
structure IsPriorityOrder (n : Nat) (prio : List Nat) : Prop where
  nodup : prio.Nodup
  len   : prio.length = n
  all   : ∀ i, i < n → i ∈ prio
  lt    : ∀ x ∈ prio, x < n

theorem mkNodePrio_getElem {prio : List Nat} (hnd : prio.Nodup) {p : Nat} (hp : p < prio.length) :
    mkNodePrio prio prio[p] = p := by
  have hmem : prio[p] ∈ prio := List.getElem_mem hp
  obtain ⟨i, hi⟩ := nodeToIndex_isSome prio 0 prio[p] hmem
  obtain ⟨j, hj, hget⟩ := nodeToIndex_some prio 0 prio[p] i hi
  simp only [mkNodePrio, hi, Option.getD_some]
  have hij : i = j := by omega
  subst hij
  have hlt : i < prio.length := by
    by_cases hlt : i < prio.length
    · exact hlt
    · rw [List.getElem?_eq_none (by omega)] at hget; cases hget
  rw [List.getElem?_eq_getElem hlt] at hget
  exact (List.getElem_inj hnd).mp (Option.some.inj hget)

omit [DecidableEq V] in
theorem from_ok {n : Nat} {prio : List Nat} (hp : IsPriorityOrder n prio) (default : Option V) :
    PrioOK n (fromNodePriorityList default prio) ∧ Init (absState n (fromNodePriorityList default prio)) := by
  constructor
  · constructor
    · intro i hi
      exact mkNodePrio_inv prio i (hp.all i hi)
    · intro p hpw
      cases default with
      | none => simp [fromNodePriorityList] at hpw
      | some d =>
        have hpl : p < prio.length := by simpa [fromNodePriorityList] using hpw
        exact ⟨prio[p], hp.lt _ (List.getElem_mem hpl), mkNodePrio_getElem hp.nodup hpl⟩
  · intro i a ha
    cases default with
    | none => simp [absState, fromNodePriorityList] at ha
    | some d =>
      have hil : i < prio.length := by
        simp only [absState, fromNodePriorityList] at ha
        by_cases h : i < prio.length
        · exact h
        · simp [h] at ha
      have hin : i < n := by rw [← hp.len]; exact hil
      have := mkNodePrio_lt prio i (hp.all i hin)
      simp [absState, fromNodePriorityList, hin, this]

omit [DecidableEq V] in
theorem init_setNodeValue {s : State V} (h : Init s) (node : Nat) (v : V) : Init (s.setNodeValue node v) := by
  intro i a ha
  by_cases hi : i = node
  · simp [State.setNodeValue, hi]
  · simp only [State.setNodeValue, hi, if_false] at ha ⊢
    exact h i a ha

omit [DecidableEq V] in
theorem init_ok {n : Nat} {prio : List Nat} (hp : IsPriorityOrder n prio) (default : Option V)
    (start : List (Nat × V)) (hs : ∀ x ∈ start, x.1 < n) :
    PrioOK n (Comp.init default prio start) ∧ Init (absState n (Comp.init default prio start)) := by
  unfold Comp.init
  have := from_ok hp default
  generalize fromNodePriorityList default prio = c at this
  induction start generalizing c with
  | nil => exact this
  | cons x rest ih =>
    simp only [List.foldl_cons]
    apply ih (fun y hy => hs y (List.mem_cons_of_mem _ hy))
    obtain ⟨h1, h2⟩ := sim_setNodeValue this.1 (hs x (List.mem_cons_self ..)) x.2
    exact ⟨h1, by rw [h2]; exact init_setNodeValue this.2 _ _⟩

omit [DecidableEq V] in
theorem foldl_setNodeValue_vals (start : List (Nat × V)) : ∀ (c : Comp V),
    (start.foldl (fun c x => c.setNodeValue x.1 x.2) c).vals =
      start.foldl (fun (A : Assign V) x => fun i => if i = x.1 then some x.2 else A i) c.vals := by
  induction start with
  | nil => intro c; rfl
  | cons x rest ih => intro c; simp only [List.foldl_cons]; rw [ih]; rfl

omit [DecidableEq V] in
/-- the start values do not depend on the priority order -/
theorem init_vals (default : Option V) (prio : List Nat) (start : List (Nat × V)) :
    (Comp.init default prio start).vals = startVals default prio.length start := by
  unfold Comp.init startVals
  rw [foldl_setNodeValue_vals]
  rfl

/-! ### The property for the model of the Rust code -/

section Main
variable (P : Problem V) (hL : IsSemilattice P.join) (hM : Monotone P) {n : Nat} (hW : WellFormed P n)
include hL hW

/-- **C07 (unbounded solver, model of the Rust code).** For every problem over a join-semilattice
with monotone transfers, every priority order `prio` of the nodes, every optional default value and
every list of start values: if `compute` returns, the node values are THE least assignment that
contains the start values and is closed under all edge transfers. -/
theorem compute_least (hM : Monotone P) {prio : List Nat} (hp : IsPriorityOrder n prio) (default : Option V)
    (start : List (Nat × V)) (hs : ∀ x ∈ start, x.1 < n) (fuel : Nat) (c' : Comp V)
    (h : Comp.compute P fuel (Comp.init default prio start) = (c', true)) :
    IsLeastClosedAbove P (startVals default n start) c'.vals ∧ c'.hasStabilized = true := by
  obtain ⟨hok, hinit⟩ := init_ok hp default start hs
  obtain ⟨hrun, hemp, _⟩ := compute_run P hW fuel _ _ hok h
  have := run_least hL hM hinit hrun (absState_stabilized hemp)
  rw [show (absState n (Comp.init default prio start)).vals = _ from init_vals default prio start, hp.len] at this
  exact ⟨this, by simp [Comp.hasStabilized, hemp]⟩

/-- **C07, "whatever node priority order is used".** Two priority orders give the same result. -/
theorem compute_order_independent (hM : Monotone P) {prio₁ prio₂ : List Nat} (hp₁ : IsPriorityOrder n prio₁)
    (hp₂ : IsPriorityOrder n prio₂) (default : Option V) (start : List (Nat × V)) (hs : ∀ x ∈ start, x.1 < n)
    (fuel₁ fuel₂ : Nat) (c₁ c₂ : Comp V)
    (h₁ : Comp.compute P fuel₁ (Comp.init default prio₁ start) = (c₁, true))
    (h₂ : Comp.compute P fuel₂ (Comp.init default prio₂ start) = (c₂, true)) : c₁.vals = c₂.vals :=
  (compute_least P hL hW hM hp₁ default start hs fuel₁ c₁ h₁).1.unique hL
    (compute_least P hL hW hM hp₂ default start hs fuel₂ c₂ h₂).1

/-- **C07, termination.** Over a lattice of height `H` (rank function, see `Fix.ranked_of_chains`)
`compute` returns after at most `n·(2H+3)` iterations of its loop, for every priority order. -/
theorem compute_terminates {H : Nat} {rank : V → Nat} (hR : Ranked P H rank) {prio : List Nat}
    (hp : IsPriorityOrder n prio) (default : Option V) (start : List (Nat × V)) (hs : ∀ x ∈ start, x.1 < n)
    (fuel : Nat) (hfuel : n * (2 * H + 3) ≤ fuel) :
    (Comp.compute P fuel (Comp.init default prio start)).2 = true :=
  compute_fuel P hL hR hW fuel _ (init_ok hp default start hs).1
    (Nat.le_trans (measure_le n H rank _) hfuel)

/-- everything the bounded variant guarantees, for the model of the Rust code -/
theorem bounded_spec (hM : Monotone P) {prio : List Nat} (hp : IsPriorityOrder n prio) (default : Option V)
    (start : List (Nat × V)) (hs : ∀ x ∈ start, x.1 < n) (k fuel : Nat)
    (h : (Comp.computeWithMaxSteps P k fuel (Comp.init default prio start)).2.2 = true) :
    let r := Comp.computeWithMaxSteps P k fuel (Comp.init default prio start)
    (∀ i, r.2.1 i ≤ k) ∧
    (r.1.hasStabilized = true → IsLeastClosedAbove P (startVals default n start) r.1.vals) ∧
    Assign.le P (startVals default n start) r.1.vals ∧
    (∀ S, Closed P S → Assign.le P (startVals default n start) S → Assign.le P r.1.vals S) ∧
    PrioOK n r.1 ∧ Inv P (fun _ => false) (absState n r.1) := by
  intro r
  obtain ⟨hok, hinit⟩ := init_ok hp default start hs
  have hloop : BComp.loop P k fuel { c := Comp.init default prio start, steps := fun _ => 0, nonStab := [] } =
      ((BComp.loop P k fuel { c := Comp.init default prio start, steps := fun _ => 0, nonStab := [] }).1, true) := by
    have : (BComp.loop P k fuel { c := Comp.init default prio start, steps := fun _ => 0, nonStab := [] }).2 = true := h
    rw [← this]
  obtain ⟨hrun, hemp, hok', hns'⟩ := loop_run P hW k fuel _ _ hok (by intro q hq; cases hq) hloop
  have hstart : absB n { c := Comp.init default prio start, steps := fun _ => 0, nonStab := [] } =
      BState.start (absState n (Comp.init default prio start)) := by
    apply BState.ext'
    · rfl
    · rfl
    · funext i; simp [absB, BState.start]
  rw [hstart] at hrun
  have hfin : absState n r.1 = (absB n (BComp.loop P k fuel
      { c := Comp.init default prio start, steps := fun _ => 0, nonStab := [] }).1).finish := rfl
  have hdone := absState_stabilized (n := n) hemp
  have hsv : (absState n (Comp.init default prio start)).vals = startVals default n start := by
    rw [← hp.len]; exact init_vals default prio start
  have hbetween := bounded_between hL hM hrun
  rw [hsv] at hbetween
  refine ⟨?_, ?_, hbetween.1, hbetween.2, ⟨hok'.inv, hns'⟩, ?_⟩
  · exact hrun.steps_le (fun _ => Nat.zero_le _)
  · intro hst
    have hst' : (absState n r.1).stabilized := by
      apply absState_stabilized
      simpa [Comp.hasStabilized] using hst
    have := bounded_least_of_stabilized hL hM hinit hrun hdone (hfin ▸ hst')
    rw [hsv] at this
    exact this
  · rw [hfin]; exact hrun.finish_inv hL hinit hdone

/-- **C07, bounded variant: no node is processed more often than the bound.** (`steps[node]` is
incremented exactly when `update_node(node)` is called.) -/
theorem bounded_steps_le (hM : Monotone P) {prio : List Nat} (hp : IsPriorityOrder n prio) (default : Option V)
    (start : List (Nat × V)) (hs : ∀ x ∈ start, x.1 < n) (k fuel : Nat)
    (h : (Comp.computeWithMaxSteps P k fuel (Comp.init default prio start)).2.2 = true) (i : Nat) :
    (Comp.computeWithMaxSteps P k fuel (Comp.init default prio start)).2.1 i ≤ k :=
  (bounded_spec P hL hW hM hp default start hs k fuel h).1 i

/-- **C07, bounded variant: `has_stabilized` ⇒ closed** — and then the result is even the least
closed assignment above the start values, as for `compute`. -/
theorem bounded_stabilized_closed (hM : Monotone P) {prio : List Nat} (hp : IsPriorityOrder n prio)
    (default : Option V) (start : List (Nat × V)) (hs : ∀ x ∈ start, x.1 < n) (k fuel : Nat)
    (h : (Comp.computeWithMaxSteps P k fuel (Comp.init default prio start)).2.2 = true)
    (hst : (Comp.computeWithMaxSteps P k fuel (Comp.init default prio start)).1.hasStabilized = true) :
    Closed P (Comp.computeWithMaxSteps P k fuel (Comp.init default prio start)).1.vals ∧
    IsLeastClosedAbove P (startVals default n start)
      (Comp.computeWithMaxSteps P k fuel (Comp.init default prio start)).1.vals :=
  ⟨((bounded_spec P hL hW hM hp default start hs k fuel h).2.1 hst).1,
   (bounded_spec P hL hW hM hp default start hs k fuel h).2.1 hst⟩

/-- **C07, bounded variant: intermediate results lie between the start values and the least
solution** (every closed assignment above the start values dominates them). -/
theorem bounded_between_start_and_least (hM : Monotone P) {prio : List Nat} (hp : IsPriorityOrder n prio)
    (default : Option V) (start : List (Nat × V)) (hs : ∀ x ∈ start, x.1 < n) (k fuel : Nat)
    (h : (Comp.computeWithMaxSteps P k fuel (Comp.init default prio start)).2.2 = true) :
    Assign.le P (startVals default n start) (Comp.computeWithMaxSteps P k fuel (Comp.init default prio start)).1.vals ∧
    ∀ S, Closed P S → Assign.le P (startVals default n start) S →
      Assign.le P (Comp.computeWithMaxSteps P k fuel (Comp.init default prio start)).1.vals S :=
  ⟨(bounded_spec P hL hW hM hp default start hs k fuel h).2.2.1,
   (bounded_spec P hL hW hM hp default start hs k fuel h).2.2.2.1⟩

/-- the bounded loop ends by itself within `n·(2H+3)` iterations over a lattice of height `H` -/
theorem bounded_terminates {H : Nat} {rank : V → Nat} (hR : Ranked P H rank) {prio : List Nat}
    (hp : IsPriorityOrder n prio) (default : Option V) (start : List (Nat × V)) (hs : ∀ x ∈ start, x.1 < n)
    (k fuel : Nat) (hfuel : n * (2 * H + 3) ≤ fuel) :
    (Comp.computeWithMaxSteps P k fuel (Comp.init default prio start)).2.2 = true :=
  loop_fuel P hL hR hW k fuel _ (init_ok hp default start hs).1
    (Nat.le_trans (measure_le n H rank _) hfuel)

/-- **resuming**: `compute_with_max_steps(k)` followed by `compute()` yields the least solution of
the ORIGINAL start values (the state the bounded variant leaves behind is a valid solver state). -/
theorem resume_least (hM : Monotone P) {prio : List Nat} (hp : IsPriorityOrder n prio) (default : Option V)
    (start : List (Nat × V)) (hs : ∀ x ∈ start, x.1 < n) (k fuel fuel' : Nat)
    (h : (Comp.computeWithMaxSteps P k fuel (Comp.init default prio start)).2.2 = true) (c' : Comp V)
    (h' : Comp.compute P fuel' (Comp.computeWithMaxSteps P k fuel (Comp.init default prio start)).1 = (c', true)) :
    IsLeastClosedAbove P (startVals default n start) c'.vals := by
  obtain ⟨_, _, hge, hle, hok, hinv⟩ := bounded_spec P hL hW hM hp default start hs k fuel h
  obtain ⟨hrun, hemp, _⟩ := compute_run P hW fuel' _ _ hok h'
  exact run_least_of_between hL hM hinv hge hle hrun (absState_stabilized hemp)

end Main

/-! ### Termination of the bounded variant over ANY lattice (no finite height needed) -/

theorem length_insertSet_le (p : Nat) (l : List Nat) : (insertSet p l).length ≤ l.length + 1 := by
  unfold insertSet; split <;> simp

theorem length_updateEdge_le (P : Problem V) (c : Comp V) (e : Edge V) :
    (c.updateEdge P e).worklist.length ≤ c.worklist.length + 1 := by
  unfold Comp.updateEdge Comp.mergeNodeValue
  dsimp only
  repeat' split
  all_goals first
    | exact length_insertSet_le _ _
    | exact Nat.le_succ _

theorem length_updateEdges_le (P : Problem V) (es : List (Edge V)) : ∀ (c : Comp V),
    (es.foldl (Comp.updateEdge P) c).worklist.length ≤ c.worklist.length + es.length := by
  induction es with
  | nil => intro c; simp
  | cons e es ih =>
    intro c
    simp only [List.foldl_cons, List.length_cons]
    have := ih (c.updateEdge P e)
    have := length_updateEdge_le P c e
    omega

omit [DecidableEq V] in
theorem length_outEdges_le (P : Problem V) (node : Nat) : (outEdges P node).length ≤ P.edges.length := by
  simp only [outEdges, List.length_reverse]
  exact List.length_filter_le _ _

theorem length_filter_ne_lt {p : Nat} : ∀ {l : List Nat}, p ∈ l → (l.filter (fun q => q ≠ p)).length + 1 ≤ l.length := by
  intro l
  induction l with
  | nil => intro h; cases h
  | cons a rest ih =>
    intro h
    by_cases ha : a = p
    · subst ha
      have hd : ¬ ((fun q => decide (q ≠ a)) a = true) := by simp
      rw [List.filter_cons, if_neg hd]
      have := List.length_filter_le (fun q => decide (q ≠ a)) rest
      simp only [List.length_cons]
      omega
    · have hm : p ∈ rest := by
        rcases List.mem_cons.mp h with rfl | h
        · exact absurd rfl ha
        · exact h
      have := ih hm
      have hd : (fun q => decide (q ≠ p)) a = true := by simp [ha]
      rw [List.filter_cons, if_pos hd]
      simp only [List.length_cons]
      omega

omit [DecidableEq V] in
theorem length_popMax {c c' : Comp V} {p : Nat} (hp : c.popMax = some (p, c')) :
    c'.worklist.length + 1 ≤ c.worklist.length := by
  unfold Comp.popMax at hp
  cases hm : maxPrio c.worklist with
  | none => rw [hm] at hp; cases hp
  | some q =>
    rw [hm] at hp
    simp only [Option.some.injEq, Prod.mk.injEq] at hp
    obtain ⟨rfl, rfl⟩ := hp
    exact length_filter_ne_lt (maxPrio_mem hm)

/-- termination measure of the bounded loop: worklist size plus `(|E|+1)` for every processing step
that is still allowed -/
def bmeasure (P : Problem V) (n k : Nat) (b : BComp V) : Nat :=
  b.c.worklist.length + (P.edges.length + 1) * sumTo n (fun i => k - b.steps i)

/-- **`compute_with_max_steps` terminates over ANY lattice** (no finite height, no monotonicity, not
even the semilattice laws): its loop ends by itself within `|worklist| + (|E|+1)·n·k` iterations. -/
theorem loop_fuel_any (P : Problem V) {n : Nat} (hW : WellFormed P n) (k : Nat) :
    ∀ (fuel : Nat) (b : BComp V), PrioOK n b.c → bmeasure P n k b ≤ fuel → (BComp.loop P k fuel b).2 = true := by
  intro fuel
  induction fuel with
  | zero =>
    intro b h hm
    simp only [BComp.loop]
    cases hp : b.c.popMax with
    | none => simp [popMax_none hp]
    | some pc =>
      obtain ⟨p, c1⟩ := pc
      have := length_popMax hp
      unfold bmeasure at hm
      omega
  | succ fuel ih =>
    intro b h hm
    simp only [BComp.loop]
    cases hp : b.c.popMax with
    | none => rfl
    | some pc =>
      obtain ⟨p, c1⟩ := pc
      dsimp only
      obtain ⟨hnode, _, hok1, _, _, _, _⟩ := sim_popMax h hp
      have hlen := length_popMax hp
      generalize b.c.prioToNode.getD p 0 = node at *
      unfold bmeasure at hm
      split
      · rename_i hlt
        apply ih _ (sim_updateNode P hW hok1 node).1
        unfold bmeasure
        dsimp only
        have h1 : (c1.updateNode P node).worklist.length ≤ c1.worklist.length + P.edges.length :=
          Nat.le_trans (length_updateEdges_le P _ c1) (Nat.add_le_add_left (length_outEdges_le P node) _)
        have h2 : sumTo n (fun i => k - (if i = node then b.steps i + 1 else b.steps i)) + 1 ≤
            sumTo n (fun i => k - b.steps i) := by
          apply sumTo_lt (p := node) _ hnode
          · simp; omega
          · intro i; by_cases hi : i = node <;> simp [hi]; omega
        have h3 := Nat.mul_le_mul_left (P.edges.length + 1) h2
        rw [Nat.mul_succ] at h3
        omega
      · apply ih _ hok1
        unfold bmeasure
        dsimp only
        omega

/-- **C07, bounded variant terminates for every lattice**: `compute_with_max_steps(k)` returns after at
most `|worklist₀| + (|E|+1)·n·k` loop iterations — this is what the step bound is for. -/
theorem bounded_terminates_any_lattice (P : Problem V) {n : Nat} (hW : WellFormed P n) {prio : List Nat}
    (hp : IsPriorityOrder n prio) (default : Option V) (start : List (Nat × V)) (hs : ∀ x ∈ start, x.1 < n)
    (k fuel : Nat)
    (hfuel : (Comp.init default prio start).worklist.length + (P.edges.length + 1) * (n * k) ≤ fuel) :
    (Comp.computeWithMaxSteps P k fuel (Comp.init default prio start)).2.2 = true := by
  apply loop_fuel_any P hW k fuel _ (init_ok hp default start hs).1
  unfold bmeasure
  dsimp only
  have h1 : sumTo n (fun _ => k - 0) ≤ n * k := sumTo_bound (fun _ => by omega)
  have h2 := Nat.mul_le_mul_left (P.edges.length + 1) h1
  omega

/-! ### The executable specification of the driver -/

theorem satB_sound (P : Problem V) (S : Assign V) (e : Edge V) (h : satB P S e = true) : Sat P S e := by
  intro a x ha hx
  unfold satB at h
  rw [ha] at h
  dsimp only at h
  rw [hx] at h
  dsimp only at h
  cases hb : S e.dst with
  | none => rw [hb] at h; cases h
  | some b =>
    rw [hb] at h
    exact ⟨b, rfl, by show P.join x b = b; simpa using h⟩

/-- `closedB` decides closedness -/
theorem closedB_sound (P : Problem V) (S : Assign V) (h : closedB P S = true) : Closed P S := by
  intro e he
  exact satB_sound P S e (List.all_eq_true.mp h e he)

/-- **executable specification**: whenever the Kleene iteration of the driver ends in a closed
assignment, that assignment is the least closed assignment above the start values — the value the
theorems above say `compute` returns. -/
theorem kleene_least (P : Problem V) (hL : IsSemilattice P.join) (hM : Monotone P) (A : Assign V) :
    ∀ (fuel : Nat), closedB P (kleene P fuel A) = true → IsLeastClosedAbove P A (kleene P fuel A) := by
  have key : ∀ (fuel : Nat) (S : Assign V), Assign.le P A S →
      (∀ S', Closed P S' → Assign.le P A S' → Assign.le P S S') →
      Assign.le P A (kleene P fuel S) ∧
      (∀ S', Closed P S' → Assign.le P A S' → Assign.le P (kleene P fuel S) S') := by
    intro fuel
    induction fuel with
    | zero => intro S h1 h2; exact ⟨h1, h2⟩
    | succ fuel ih =>
      intro S h1 h2
      simp only [kleene]
      split
      · exact ⟨h1, h2⟩
      · apply ih
        · exact updateEdges_induction (P := P) (fun u => Assign.le P A u.vals)
            (fun u e _ h => Assign.le_trans hL h (updateEdge_grows P hL u e)) P.edges _ (fun _ h => h) h1
        · intro S' hS' hA
          exact updateEdges_induction (P := P) (fun u => Assign.le P u.vals S')
            (fun u e he h => updateEdge_below P hL hM S' hS' u e he h) P.edges _ (fun _ h => h) (h2 S' hS' hA)
  intro fuel hc
  obtain ⟨h1, h2⟩ := key fuel A (Assign.le_refl hL A) (fun _ _ h => h)
  exact ⟨closedB_sound P _ hc, h1, h2⟩

/-! ### The hypotheses hold for the lattices and transfers of the harness -/

theorem Lat.semilattice (lat : Lat) : IsSemilattice lat.join := by
  cases lat with
  | set => exact ⟨Nat.or_comm, Nat.or_assoc, Nat.or_self⟩
  | chain => exact ⟨Nat.max_comm, Nat.max_assoc, Nat.max_self⟩

theorem and_mono {a b : Nat} (h : a ||| b = b) (m : Nat) : (a &&& m) ||| (b &&& m) = b &&& m := by
  apply Nat.eq_of_testBit_eq
  intro i
  have := congrArg (fun x => x.testBit i) h
  simp only [Nat.testBit_or, Nat.testBit_and] at this ⊢
  cases ha : a.testBit i <;> cases hb : b.testBit i <;> cases hm : m.testBit i <;> simp_all

theorem and_zero_of_le {a b : Nat} (h : a ||| b = b) {m : Nat} (hb : b &&& m = 0) : a &&& m = 0 := by
  have := and_mono h m
  rw [hb, Nat.or_zero] at this
  exact this

theorem or3_mono {x y g ea eb : Nat} (h1 : x ||| y = y) (h2 : ea ||| eb = eb) :
    (x ||| g ||| ea) ||| (y ||| g ||| eb) = y ||| g ||| eb := by
  apply Nat.eq_of_testBit_eq
  intro i
  have h1' := congrArg (fun x => x.testBit i) h1
  have h2' := congrArg (fun x => x.testBit i) h2
  simp only [Nat.testBit_or] at h1' h2' ⊢
  cases hx : x.testBit i <;> cases hy : y.testBit i <;> cases hg : g.testBit i <;>
    cases hea : ea.testBit i <;> cases heb : eb.testBit i <;> simp_all

/-- the gen/kill/trigger transfer with blocking is monotone in the `none ≤ some` order -/
theorem setTf_monotone (keep gen trig extra block : Nat) {a b x : Nat} (hab : a ||| b = b)
    (hx : (Tf.set keep gen trig extra block).apply a = some x) :
    ∃ y, (Tf.set keep gen trig extra block).apply b = some y ∧ x ||| y = y := by
  simp only [Tf.apply] at hx ⊢
  split at hx
  · cases hx
  · rename_i hnb
    have hnb' : ¬ (block ≠ 0 ∧ b &&& block = 0) := by
      intro hc
      exact hnb ⟨hc.1, and_zero_of_le hab hc.2⟩
    simp only [hnb', if_false]
    refine ⟨_, rfl, ?_⟩
    cases hx
    apply or3_mono (and_mono hab keep)
    by_cases hta : a &&& trig = 0
    · simp [hta]
    · have htb : b &&& trig ≠ 0 := fun hc => hta (and_zero_of_le hab hc)
      simp [hta, htb]

theorem chainTf_monotone (thr mul add cap : Nat) {a b x : Nat} (hab : max a b = b)
    (hx : (Tf.chain thr mul add cap).apply a = some x) :
    ∃ y, (Tf.chain thr mul add cap).apply b = some y ∧ max x y = y := by
  simp only [Tf.apply] at hx ⊢
  have hle : a ≤ b := by omega
  split at hx
  · cases hx
  · cases hx
    have : ¬ b < thr := by omega
    simp only [this, if_false]
    refine ⟨_, rfl, ?_⟩
    have := Nat.mul_le_mul_right mul hle
    omega

/-- a transfer belongs to a lattice -/
def Tf.Matches : Lat → Tf → Prop
  | .set, .set .. => True
  | .chain, .chain .. => True
  | _, _ => False

/-- every problem the harness generates satisfies the hypotheses of the theorems -/
theorem mkProblem_monotone (lat : Lat) (es : List (Nat × Nat × Tf)) (h : ∀ x ∈ es, Tf.Matches lat x.2.2) :
    Monotone (mkProblem lat es) := by
  intro e he a b x hab hx
  simp only [mkProblem, List.mem_map] at he
  obtain ⟨⟨s, d, t⟩, hmem, rfl⟩ := he
  have hm := h _ hmem
  cases lat <;> cases t <;> simp only [Tf.Matches] at hm
  · exact setTf_monotone _ _ _ _ _ hab hx
  · exact chainTf_monotone _ _ _ _ hab hx

/-! ### Non-vacuity: all hypotheses instantiated on concrete problems -/

/-- a 3-node loop with a blocking edge over the set lattice -/
def exEdges : List (Nat × Nat × Tf) :=
  [(0, 1, .set 63 2 1 4 0), (1, 2, .set 3 0 0 0 4), (2, 0, .set 63 8 0 0 0), (1, 1, .set 63 0 2 16 0)]

example : IsSemilattice (mkProblem .set exEdges).join := Lat.semilattice .set
example : Monotone (mkProblem .set exEdges) := mkProblem_monotone .set exEdges (by simp [exEdges, Tf.Matches])
example : WellFormed (mkProblem .set exEdges) 3 := by
  intro e he; simp [mkProblem, exEdges] at he; rcases he with rfl | rfl | rfl | rfl <;> simp
example : IsPriorityOrder 3 [2, 0, 1] := ⟨by decide, rfl, by decide, by decide⟩

/-- two different priority orders, same (non-trivial) least solution; node 2 is reached only
because the blocking edge `1 → 2` opens once bit 2 has arrived at node 1 -/
example : (List.range 3).map (Comp.compute (mkProblem .set exEdges) 50 (Comp.init none [2, 0, 1] [(0, 1)])).1.vals
    = [some 11, some 31, some 3] := by decide
example : (List.range 3).map (Comp.compute (mkProblem .set exEdges) 50 (Comp.init none [0, 1, 2] [(0, 1)])).1.vals
    = [some 11, some 31, some 3] := by decide
example : (Comp.compute (mkProblem .set exEdges) 50 (Comp.init none [2, 0, 1] [(0, 1)])).2 = true := by decide
/-- the bounded variant with bound 1 gives up and says so -/
example : (Comp.computeWithMaxSteps (mkProblem .set exEdges) 1 50 (Comp.init none [2, 0, 1] [(0, 1)])).1.hasStabilized
    = false := by decide

/-- finite height: reachability (values `Bool`, join = `||`) has height 1 -/
def reachP (es : List (Nat × Nat)) : Problem Bool :=
  { edges := es.map (fun (s, d) => { src := s, dst := d, f := fun b => if b then some true else none })
    join := fun a b => a || b }

theorem reachP_semilattice (es : List (Nat × Nat)) : IsSemilattice (reachP es).join :=
  ⟨by intro a b; cases a <;> cases b <;> rfl,
   by intro a b c; cases a <;> cases b <;> cases c <;> rfl,
   by intro a; cases a <;> rfl⟩

theorem reachP_ranked (es : List (Nat × Nat)) : Ranked (reachP es) 1 (fun b => b.toNat) :=
  ⟨by intro a; cases a <;> decide,
   by intro a b; cases a <;> cases b <;> simp [Problem.le, reachP]⟩

theorem reachP_monotone (es : List (Nat × Nat)) : Monotone (reachP es) := by
  intro e he a b x hab hx
  simp only [reachP, List.mem_map] at he
  obtain ⟨⟨s, d⟩, _, rfl⟩ := he
  revert hab hx
  cases a <;> cases b <;> simp [Problem.le, reachP]

example : FiniteHeight (reachP [(0, 1)]) 1 := by
  intro l hl
  match l, hl with
  | [], _ => simp
  | [_], _ => simp
  | [_, _], _ => simp
  | a :: b :: c :: rest, h =>
    obtain ⟨h1, h2, h3, h4, _⟩ := h
    revert h1 h2 h3 h4
    cases a <;> cases b <;> cases c <;> simp [Problem.le, reachP]

/-- `compute_terminates` and `compute_least` applied: for EVERY priority order of the 4 nodes the
solver returns within `4·(2·1+3) = 20` iterations with the least closed assignment. -/
def exReach : Problem Bool := reachP [(0, 1), (1, 2), (2, 1), (3, 2)]

example (prio : List Nat) (hp : IsPriorityOrder 4 prio) :
    ∃ c', Comp.compute exReach 20 (Comp.init none prio [(0, true)]) = (c', true) ∧
      IsLeastClosedAbove exReach (startVals none 4 [(0, true)]) c'.vals := by
  have hW : WellFormed exReach 4 := by
    intro e he; simp [exReach, reachP] at he; rcases he with rfl | rfl | rfl | rfl <;> simp
  have hs : ∀ x ∈ [((0 : Nat), true)], x.1 < 4 := by simp
  have ht := compute_terminates exReach (reachP_semilattice _) hW (reachP_ranked _) hp none [(0, true)] hs 20
    (by decide)
  have heq : Comp.compute exReach 20 (Comp.init none prio [(0, true)]) =
      ((Comp.compute exReach 20 (Comp.init none prio [(0, true)])).1, true) := Prod.ext rfl ht
  exact ⟨_, heq, (compute_least exReach (reachP_semilattice _) hW (reachP_monotone _) hp none [(0, true)] hs 20 _
    heq).1⟩

/-! ### Non-vacuity of the abstract-interpretation meta-theorem -/

/-- counter analysis: concrete states are counters, the abstract value `a` describes `c ≤ a`; every
edge that is not a self-loop may increment the counter -/
def cntP : Problem Nat :=
  { edges := [⟨0, 1, fun a => some (a + 1)⟩, ⟨1, 2, fun a => some (a + 1)⟩, ⟨1, 1, fun a => some a⟩]
    join := max }

def cntS : Assign Nat := fun i => if i ≤ 2 then some i else none

example : Closed cntP cntS := by
  intro e he
  simp only [cntP, List.mem_cons, List.not_mem_nil, or_false] at he
  rcases he with rfl | rfl | rfl <;> intro a x ha hx <;> simp [cntS] at ha hx ⊢ <;> subst ha <;> subst hx <;>
    simp [Problem.le, cntP]

/-- every counter value reachable at node 2 is at most 2, and node 3 is unreachable -/
example (c : Nat)
    (hr : Reach cntP (fun i c => i = 0 ∧ c = 0) (fun e c c' => c' ≤ c + (if e.src = e.dst then 0 else 1)) 2 c) : c ≤ 2 := by
  have hcl : Closed cntP cntS := by
    intro e he
    simp only [cntP, List.mem_cons, List.not_mem_nil, or_false] at he
    rcases he with rfl | rfl | rfl <;> intro a x ha hx <;> simp [cntS] at ha hx ⊢ <;> subst ha <;> subst hx <;>
      simp [Problem.le, cntP]
  obtain ⟨a, ha, hγ⟩ := sound_of_closed (γ := fun a c => c ≤ a) (P := cntP)
    (by intro x b c h; show c ≤ max x b; omega)
    (by
      intro e he a c c' h hs
      simp only [cntP, List.mem_cons, List.not_mem_nil, or_false] at he
      rcases he with rfl | rfl | rfl <;> simp at hs ⊢ <;> omega)
    hcl (by rintro i c ⟨rfl, rfl⟩; exact ⟨0, rfl, Nat.le_refl _⟩) hr
  simp [cntS] at ha
  omega

end CweModel.C07
