/-
C07 — model of `Computation<T>` (`src/cwe_checker_lib/src/analysis/fixpoint.rs`).

The generic theory (arbitrary scheduler, arbitrary edge order) lives in `CweModel.Base.Fix`. This
file mirrors the Rust code *function by function*, including what the generic machine abstracts:
the worklist is a set of PRIORITIES (`BTreeSet<usize>`, modelled as a duplicate-free list), the node
↔ priority tables `node_priority_list` / `priority_to_node_list`, the node taken is the one with the
LARGEST priority, the out-edges are visited in petgraph's order (most recently added edge first),
and `compute_with_max_steps` keeps the `steps` counters and the `non_stabilized_nodes` set.
`Props.lean` proves that every loop iteration here is a `Fix.Step` / `Fix.BStep`, so all theorems of
`Base.Fix` apply to this model for every priority list.

`while` loops take a fuel argument; the returned flag says that the loop ended by itself (worklist
empty) and not because the fuel ran out. `Props.lean` shows which fuel always suffices.

The second half of the file is the executable specification used by the driver (`closedB`, `leB`,
`kleene`) and the two concrete value lattices the harness uses.
-/
import CweModel.Base.Fix
namespace CweModel.C07
open CweModel.Fix

variable {V : Type}

/-- `Computation<T>`; the context `fp_context` is the `Problem` passed to the functions. -/
structure Comp (V : Type) where
  /-- `node_priority_list[node]` -/
  nodePrio   : Nat → Nat
  /-- `priority_to_node_list` -/
  prioToNode : List Nat
  /-- `worklist: BTreeSet<usize>` (priorities, not nodes) -/
  worklist   : List Nat
  /-- `node_values: FnvHashMap<NodeIndex, T::NodeValue>` -/
  vals       : Assign V

/-- The `BTreeMap<&NodeIndex, usize>` filled by
`for (i, node_index) in priority_sorted_nodes.iter().enumerate() { node_to_index.insert(node_index, i) }`:
a later occurrence of a node overwrites an earlier one. `off` is the index of the head of the list. -/
def nodeToIndex : List Nat → Nat → Nat → Option Nat
  | [], _, _ => none
  | x :: rest, off, node =>
    match nodeToIndex rest (off + 1) node with
    | some i => some i
    | none => if x = node then some off else none

/-- `node_priority_list: Vec<usize> = node_to_index.values().copied().collect()`: the values in the
order of the keys. When every node `0..n-1` occurs in the list (the keys are then exactly `0..n-1`)
entry `node` is `node_to_index[node]`; that is what is modelled. (If nodes were missing the real
vector would be shifted and later indexing would be wrong or panic; a priority order lists all
nodes, the harness never leaves that domain.) -/
def mkNodePrio (prio : List Nat) (node : Nat) : Nat := (nodeToIndex prio 0 node).getD 0

/-- `Computation::from_node_priority_list`: with a default value ALL priorities `0..len` are put into
the worklist and the nodes `NodeIndex::new(i)`, `i < len`, get the default value. -/
def fromNodePriorityList (default : Option V) (prio : List Nat) : Comp V :=
  { nodePrio := mkNodePrio prio
    prioToNode := prio
    worklist := match default with
      | some _ => List.range prio.length
      | none => []
    vals := fun i => match default with
      | some d => if i < prio.length then some d else none
      | none => none }

/-- `BTreeSet::insert` -/
def insertSet (p : Nat) (l : List Nat) : List Nat := if p ∈ l then l else p :: l

/-- `set_node_value` -/
def Comp.setNodeValue (c : Comp V) (node : Nat) (v : V) : Comp V :=
  { c with
    vals := fun i => if i = node then some v else c.vals i
    worklist := insertSet (c.nodePrio node) c.worklist }

/-- what the callers do: `Computation::from_node_priority_list(ctx, default, prio)` followed by
`set_node_value(node, v)` for the start values (in list order) -/
def Comp.init (default : Option V) (prio : List Nat) (start : List (Nat × V)) : Comp V :=
  start.foldl (fun c x => c.setNodeValue x.1 x.2) (fromNodePriorityList default prio)

/-- the start assignment this produces on a graph with `n` nodes (independent of the order) -/
def startVals (default : Option V) (n : Nat) (start : List (Nat × V)) : Assign V :=
  start.foldl (fun A x => fun i => if i = x.1 then some x.2 else A i)
    (fun i => match default with
      | some d => if i < n then some d else none
      | none => none)

variable [DecidableEq V]

/-- `merge_node_value` -/
def Comp.mergeNodeValue (P : Problem V) (c : Comp V) (node : Nat) (value : V) : Comp V :=
  match c.vals node with
  | some old =>
    let merged := P.join value old
    if merged ≠ old then c.setNodeValue node merged else c
  | none => c.setNodeValue node value

/-- `update_edge` -/
def Comp.updateEdge (P : Problem V) (c : Comp V) (e : Edge V) : Comp V :=
  match c.vals e.src with
  | some a =>
    match e.f a with
    | some x => c.mergeNodeValue P e.dst x
    | none => c
  | none => c

/-- `graph.edges(node)`: petgraph walks the outgoing-edge list of the node from the most recently
added edge to the oldest; `P.edges` is in insertion (`EdgeIndex`) order. -/
def outEdges (P : Problem V) (node : Nat) : List (Edge V) :=
  (P.edges.filter (fun e => e.src = node)).reverse

/-- `update_node` -/
def Comp.updateNode (P : Problem V) (c : Comp V) (node : Nat) : Comp V :=
  (outEdges P node).foldl (Comp.updateEdge P) c

/-- `self.worklist.iter().next_back()` -/
def maxPrio : List Nat → Option Nat
  | [] => none
  | p :: rest =>
    match maxPrio rest with
    | some q => some (max p q)
    | none => some p

/-- `let priority = self.worklist.iter().next_back().cloned(); self.worklist.take(&priority)` -/
def Comp.popMax (c : Comp V) : Option (Nat × Comp V) :=
  match maxPrio c.worklist with
  | some p => some (p, { c with worklist := c.worklist.filter (fun q => q ≠ p) })
  | none => none

/-- `take_next_node_from_worklist`: remove the largest priority, return its node -/
def Comp.takeNext (c : Comp V) : Option (Nat × Comp V) :=
  match c.popMax with
  | some (p, c') => some (c.prioToNode.getD p 0, c')
  | none => none

/-- `compute`: `while let Some(node) = self.take_next_node_from_worklist() { self.update_node(node) }`.
The flag is `true` iff the loop ended because the worklist was empty. -/
def Comp.compute (P : Problem V) : Nat → Comp V → Comp V × Bool
  | 0, c => (c, c.worklist.isEmpty)
  | fuel + 1, c =>
    match c.takeNext with
    | some (node, c') => Comp.compute P fuel (c'.updateNode P node)
    | none => (c, true)

/-- loop state of `compute_with_max_steps` -/
structure BComp (V : Type) where
  c       : Comp V
  steps   : Nat → Nat
  /-- `non_stabilized_nodes` (priorities) -/
  nonStab : List Nat

/-- the `while` loop of `compute_with_max_steps` -/
def BComp.loop (P : Problem V) (k : Nat) : Nat → BComp V → BComp V × Bool
  | 0, b => (b, b.c.worklist.isEmpty)
  | fuel + 1, b =>
    match b.c.popMax with
    | some (p, c') =>
      let node := b.c.prioToNode.getD p 0
      if b.steps node < k then
        BComp.loop P k fuel
          { c := c'.updateNode P node
            steps := fun i => if i = node then b.steps i + 1 else b.steps i
            nonStab := b.nonStab }
      else
        BComp.loop P k fuel { c := c', steps := b.steps, nonStab := insertSet p b.nonStab }
    | none => (b, true)

/-- `compute_with_max_steps(max_steps)`: returns the computation (worklist := non-stabilised
priorities), the `steps` counters, and the "loop ended by itself" flag. -/
def Comp.computeWithMaxSteps (P : Problem V) (k : Nat) (fuel : Nat) (c : Comp V) : Comp V × (Nat → Nat) × Bool :=
  let r := BComp.loop P k fuel { c := c, steps := fun _ => 0, nonStab := [] }
  ({ r.1.c with worklist := r.1.nonStab }, r.1.steps, r.2)

/-- `has_stabilized` -/
def Comp.hasStabilized (c : Comp V) : Bool := c.worklist.isEmpty

/-- `get_worklist`: the nodes of the worklist in ascending PRIORITY order -/
def sortAsc (l : List Nat) : List Nat := (List.range (l.foldl max 0 + 1)).filter (fun p => p ∈ l)

def Comp.getWorklist (c : Comp V) : List Nat := (sortAsc c.worklist).map (fun p => c.prioToNode.getD p 0)

/-! ### Executable specification -/

/-- executable `Fix.Sat` -/
def satB (P : Problem V) (S : Assign V) (e : Edge V) : Bool :=
  match S e.src with
  | none => true
  | some a =>
    match e.f a with
    | none => true
    | some x =>
      match S e.dst with
      | none => false
      | some b => decide (P.join x b = b)

/-- executable `Fix.Closed` -/
def closedB (P : Problem V) (S : Assign V) : Bool := P.edges.all (satB P S)

/-- executable `Fix.Assign.le` on the nodes `< n` -/
def leB (P : Problem V) (n : Nat) (A B : Assign V) : Bool :=
  (List.range n).all fun i =>
    match A i with
    | none => true
    | some a =>
      match B i with
      | none => false
      | some b => decide (P.join a b = b)

/-- Kleene (round-robin) iteration, independent of any worklist: apply ALL edges in list order, again
and again, until the assignment is closed. -/
def kleene (P : Problem V) : Nat → Assign V → Assign V
  | 0, S => S
  | fuel + 1, S =>
    if closedB P S then S
    else kleene P fuel (updateEdges P { vals := S, wl := fun _ => false } P.edges).vals

/-! ### The two value lattices of the harness (values are `Nat`s) -/

inductive Lat where
  /-- subsets of `{0..5}` as bit sets, `merge` = union -/
  | set
  /-- the chain `0 < 1 < … < cap`, `merge` = max -/
  | chain
deriving DecidableEq, Repr

def Lat.join : Lat → Nat → Nat → Nat
  | .set => fun a b => a ||| b
  | .chain => fun a b => max a b

/-- transfer functions of the harness -/
inductive Tf where
  /-- `S ↦ (S ∩ keep) ∪ gen ∪ (if S ∩ trig ≠ ∅ then extra else ∅)`, blocked (`None`) when
  `block ≠ ∅` and `S ∩ block = ∅` -/
  | set (keep gen trig extra block : Nat)
  /-- `x ↦ min(cap, x·mul + add)`, blocked when `x < thr` -/
  | chain (thr mul add cap : Nat)
deriving Repr

def Tf.apply : Tf → Nat → Option Nat
  | .set keep gen trig extra block, s =>
    if block ≠ 0 ∧ s &&& block = 0 then none
    else some ((s &&& keep) ||| gen ||| (if s &&& trig ≠ 0 then extra else 0))
  | .chain thr mul add cap, x =>
    if x < thr then none else some (min cap (x * mul + add))

/-- a harness problem: edges `(src, dst, transfer)` in `EdgeIndex` order -/
def mkProblem (lat : Lat) (es : List (Nat × Nat × Tf)) : Problem Nat :=
  { edges := es.map (fun (s, d, t) => { src := s, dst := d, f := t.apply })
    join := lat.join }

end CweModel.C07
