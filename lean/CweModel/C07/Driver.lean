/- C07 model driver: runs the model of `Computation` and the executable specification (least closed
assignment by Kleene iteration, closedness, bounds) on the harness cases. -/
import CweModel.Base.Proto
import CweModel.C07.Model
open Lean CweModel.Proto CweModel.Fix

namespace CweModel.C07

def parseTf (a : List Json) : Except String Tf := do
  let num (j : Json) : Except String Nat := j.getNat?
  match a with
  | [k, p1, p2, p3, p4, p5] =>
    if (← k.getStr?) == "s" then return .set (← num p1) (← num p2) (← num p3) (← num p4) (← num p5)
    else throw "bad set transfer"
  | [k, p1, p2, p3, p4] =>
    if (← k.getStr?) == "c" then return .chain (← num p1) (← num p2) (← num p3) (← num p4)
    else throw "bad chain transfer"
  | _ => throw "bad transfer"

def parseEdge (j : Json) : Except String (Nat × Nat × Tf) := do
  match (← j.getArr?).toList with
  | s :: d :: rest => return (← s.getNat?, ← d.getNat?, ← parseTf rest)
  | _ => throw "bad edge"

def parsePair (j : Json) : Except String (Nat × Nat) := do
  match (← j.getArr?).toList with
  | [a, b] => return (← a.getNat?, ← b.getNat?)
  | _ => throw "bad pair"

def optNat (j : Json) : Except String (Option Nat) :=
  if j.isNull then return none else return some (← j.getNat?)

def showVals (l : List (Option Nat)) : String :=
  ",".intercalate (l.map fun | some v => toString v | none => "-")

def showNats (l : List Nat) : String := ",".intercalate (l.map toString)

def tabulate (n : Nat) (S : Assign Nat) : List (Option Nat) := (List.range n).map S

def ofList (l : List (Option Nat)) : Assign Nat := fun i => (l.getD i none)

/-- largest chain value that can occur -/
def chainTop (es : List (Nat × Nat × Tf)) (dflt : Option Nat) (start : List (Nat × Nat)) : Nat :=
  let m := es.foldl (fun m (_, _, t) => match t with | .chain _ _ _ cap => max m cap | _ => m) 0
  let m := start.foldl (fun m (_, v) => max m v) m
  max m (dflt.getD 0)

def handleE (line : String) : Except String String := do
  let j ← Json.parse line
  let lat := if (← strF j "lat") == "chain" then Lat.chain else Lat.set
  let n ← natF j "n"
  let es ← mapM' parseEdge (← arrF j "edges")
  let dflt ← optNat (← field j "def")
  let start ← mapM' parsePair (← arrF j "start")
  let prio ← mapM' (fun (x : Json) => x.getNat?) (← arrF j "prio")
  let mode ← strF j "mode"
  let k ← natF j "k"
  let shape ← strF j "shape"
  let implJ ← field j "impl"
  if let .ok s := implJ.getStr? then
    let cls := if (s.splitOn "budget").length > 1 then "nonterminating" else "panic"
    return s!"spec class={mode}-{cls} expected=returns impl={s}"
  let iVals ← mapM' optNat (← arrF implJ "vals")
  let iWl ← mapM' (fun (x : Json) => x.getNat?) (← arrF implJ "wl")
  let iStab ← boolF implJ "stab"
  let iCnt ← mapM' (fun (x : Json) => x.getNat?) (← arrF implJ "ecnt")
  -- problem and start state
  let P := mkProblem lat es
  let c0 : Comp Nat := Comp.init dflt prio start
  let startVals := tabulate n c0.vals
  let height := match lat with | .set => 6 | .chain => chainTop es dflt start
  let bound := n * (2 * height + 3)
  -- executable specification: the least closed assignment above the start values
  let L := kleene P (n * (height + 2) + 2) c0.vals
  if !(closedB P L) then throw "kleene iteration did not close (fuel)"
  let lfp := tabulate n L
  let edgeSrc := es.map (·.1)
  -- the orders produced by the real constructors must be priority orders (hypothesis `IsPriorityOrder`)
  let isPerm := prio.length == n && (List.range n).all (fun i => prio.contains i)
  if !isPerm then
    return s!"spec class=priority-list-not-a-permutation expected=permutation-of-0..{n} impl={showNats prio}"
  let tag := s!"{mode} {shape} lat-{if lat == Lat.chain then "chain" else "set"}"
  match mode with
  | "compute" =>
    let (c, fin) := c0.compute P (bound + 1)
    if !fin then throw "model: fuel exhausted in compute"
    let m := s!"{showVals (tabulate n c.vals)};wl={showNats c.getWorklist};stab={c.hasStabilized}"
    let i := s!"{showVals iVals};wl={showNats iWl};stab={iStab}"
    let e := s!"{showVals lfp};wl=;stab=true"
    if i != e then return s!"spec class=compute-not-least expected={e} impl={i} model={m}"
    if i != m then return s!"diff class=compute model={m} impl={i}"
    return s!"ok {tag}"
  | _ =>
    let (c, steps, fin) := c0.computeWithMaxSteps P k (bound + 1)
    if !fin then throw "model: fuel exhausted in compute_with_max_steps"
    let mCnt := edgeSrc.map steps
    let m := s!"{showVals (tabulate n c.vals)};wl={showNats c.getWorklist};stab={c.hasStabilized};cnt={showNats mCnt}"
    let i := s!"{showVals iVals};wl={showNats iWl};stab={iStab};cnt={showNats iCnt}"
    let iA := ofList iVals
    -- spec of the bounded variant, on the implementation's output
    if iCnt.any (fun cnt => cnt > k) then
      return s!"spec class=bounded-count expected=all<={k} impl={i}"
    if iStab != iWl.isEmpty then
      return s!"spec class=bounded-stab-vs-worklist expected=stab<->empty impl={i}"
    if iStab && !(closedB P iA) then
      return s!"spec class=bounded-stabilized-not-closed expected={showVals lfp} impl={i}"
    if !(leB P n c0.vals iA) then
      return s!"spec class=bounded-below-start expected>={showVals startVals} impl={i}"
    if !(leB P n iA L) then
      return s!"spec class=bounded-above-least expected<={showVals lfp} impl={i}"
    if iStab && iVals != lfp then
      return s!"spec class=bounded-stabilized-not-least expected={showVals lfp} impl={i}"
    if k ≥ bound && !iStab then
      return s!"spec class=bounded-not-stabilized-with-large-bound expected=stab impl={i}"
    let mut m2 := m
    let mut i2 := i
    if mode == "resume" then
      let iVals2 ← mapM' optNat (← arrF implJ "vals2")
      let iStab2 ← boolF implJ "stab2"
      let (c2, fin2) := c.compute P (bound + 1)
      if !fin2 then throw "model: fuel exhausted in resumed compute"
      m2 := m ++ s!";then={showVals (tabulate n c2.vals)};stab={c2.hasStabilized}"
      i2 := i ++ s!";then={showVals iVals2};stab={iStab2}"
      if iVals2 != lfp || !iStab2 then
        return s!"spec class=resume-not-least expected={showVals lfp} impl={i2}"
    -- Which nodes are given up and the intermediate values depend on the scheduling order, which the
    -- property leaves open: a difference to the exact mirror of the current scheduler (largest
    -- priority first, petgraph edge order) is reported as a tag, not as a failure.
    let exact := if i2 != m2 then "order-differs" else "exact"
    return s!"ok {tag} {if iStab then "stabilized" else "gave-up"} {exact}"

end CweModel.C07

def main : IO Unit := CweModel.Proto.runDriver (CweModel.Proto.guarded CweModel.C07.handleE)
