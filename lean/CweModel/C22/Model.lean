/-
C22 model: which checks a run of the command-line analyzer executes.

Mirrors `/repo/src/caller/src/main.rs` (`run_with_ghidra`, `filter_modules_for_partial_run`),
`cwe_checker_lib::get_modules` and `checkers::MODULES_LKM`. The tables (`allModules`, `modulesLkm`,
the default exclusion list, the per-module warning names) are GENERATED from the Rust source on every
run (`extract/modules.py` → `CweModel/Gen/Modules.lean`).
-/
import CweModel.Gen.Modules

namespace CweModel.C22

/-- `cwe_checker_lib::CweModule` without the function pointer -/
structure Module where
  name : String
  version : String
deriving DecidableEq, Repr, BEq

def modulesOf (t : List (String × String)) : List Module := t.map fun p => ⟨p.1, p.2⟩

/-- `cwe_checker_lib::get_modules()` -/
def allModules : List Module := modulesOf Gen.Modules.allModules

/-- `HashSet<&str>` built from an iterator: every distinct string once (iteration order is
arbitrary in the code; the model keeps the last occurrence order — the order never matters because
the warnings are sorted afterwards, see C21/C23). -/
def dedup : List String → List String
  | [] => []
  | a :: as => if as.contains a then dedup as else a :: dedup as

/-- `partial_param.split(',').collect::<HashSet<&str>>()` -/
def splitNames (param : String) : List String := dedup (param.splitOn ",")

/-- the `filter_map` closure of `filter_modules_for_partial_run`, iterated over the names:
known name ↦ the module, empty string ↦ skipped, anything else ↦ `panic!` (modelled as `.error name`) -/
def pickModules (mods : List Module) : List String → Except String (List Module)
  | [] => .ok []
  | n :: rest =>
    match mods.find? (fun m => m.name == n) with
    | some m =>
      match pickModules mods rest with
      | .ok ms => .ok (m :: ms)
      | .error e => .error e
    | none =>
      if n.isEmpty then pickModules mods rest else
      -- the panic happens at the first invalid name in (arbitrary) iteration order
      .error n

/-- `filter_modules_for_partial_run(&mut modules, partial_param)` -/
def partialSelect (mods : List Module) (param : String) : Except String (List Module) :=
  pickModules mods (splitNames param)

/-- the module selection of `run_with_ghidra`:
`if let Some(partial) … else if project.runtime_memory_image.is_lkm … else …` -/
def select (mods : List Module) (lkm excl : List String) (partialArg : Option String) (isLkm : Bool) :
    Except String (List Module) :=
  match partialArg with
  | some p => partialSelect mods p
  | none =>
    if isLkm then .ok (mods.filter (fun m => lkm.contains m.name))
    else .ok (mods.filter (fun m => excl.all (fun x => m.name != x)))

/-- `RuntimeMemoryImage::new(binary).is_lkm`: only the ET_REL branch (`from_elf_sections`) can set it, to
the conjunction "every marker section exists" (`get_section(a).is_some() && get_section(b).is_some()`,
section names generated from the source); ET_EXEC/ET_DYN (`from_elf_segments`) set `false`.
`etype` ∈ {"rel", "exec", "dyn"}, `sections` = the section names of the ELF file. -/
def isKernelModule (etype : String) (sections : List String) : Bool :=
  etype == "rel" && Gen.Modules.lkmMarkerSections.all (fun m => sections.contains m)

/-- SPECIFICATION of "the input is a Linux kernel module": a relocatable object that has BOTH the
`.modinfo` and the `.gnu.linkonce.this_module` section (what `modpost` puts into every `.ko`). -/
def specIsKernelModule (etype : String) (sections : List String) : Bool :=
  etype == "rel" && sections.contains ".modinfo" && sections.contains ".gnu.linkonce.this_module"

/-- the selection of the real tables -/
def selectReal (partialArg : Option String) (isLkm : Bool) : Except String (List Module) :=
  select allModules Gen.Modules.modulesLkm Gen.Modules.defaultExcluded partialArg isLkm

/-- `impl Display for CweModule` -/
def Module.display (m : Module) : String := "\"" ++ m.name ++ "\": \"" ++ m.version ++ "\""

/-- stdout lines of `--module-versions` -/
def versionListing (mods : List Module) : List String :=
  "[cwe_checker] module_versions:" :: mods.map Module.display

/-- names a module can put into `CweWarning.name` (generated table; the module name itself if absent) -/
def emitsOf (m : Module) : List String :=
  match Gen.Modules.emits.find? (fun e => e.1 == m.name) with
  | some e => e.2
  | none => [m.name]

/-- may module `m` have produced a warning labelled `(name, version)`? -/
def mayEmit (m : Module) (w : String × String) : Bool :=
  m.version == w.2 && (emitsOf m).contains w.1

/-- A run of the selected modules: `for module in modules { all_cwes.append(module.run(..)) }`,
observed through the `(name, version)` labels of the warnings. `run m` is the label list of module
`m` on the fixed input. -/
def runLabels (run : Module → List (String × String)) (sel : List Module) : List (String × String) :=
  sel.flatMap run

/-! ### executable specification (what the property demands, independent of the code's tables
except for the set of known checks and the kernel-module list) -/

/-- "a partial run executes exactly the listed checks" -/
def specPartial (mods : List Module) (param : String) : List Module :=
  mods.filter (fun m => (param.splitOn ",").contains m.name)

/-- "a default run executes every check except the OS-command-injection check" -/
def specDefault (mods : List Module) : List Module := mods.filter (fun m => m.name != "CWE78")

/-- The acceptance tests of the repository (`test/src/lib.rs`, `LKM_CWE`) run these checks on kernel-module
samples and expect their warnings: an independent statement of checks the kernel-module subset must contain. -/
def lkmAcceptance : List String := Gen.Modules.lkmAcceptance

/-- "a run on a Linux kernel module executes exactly the kernel-module subset" — the subset named by the
code's list, which must contain the checks of the acceptance list (so the specification does not shrink
when the code's list loses one of them) -/
def specLkm (mods : List Module) (lkm : List String) : List Module :=
  mods.filter (fun m => lkm.contains m.name || lkmAcceptance.contains m.name)

def specSelect (mods : List Module) (lkm : List String) (partialArg : Option String) (isLkm : Bool) : List Module :=
  match partialArg with
  | some p => specPartial mods p
  | none => if isLkm then specLkm mods lkm else specDefault mods

/-- the labels expected in the output of a run of `sel`, given the labels `fired` of an all-checks
run on the same input: exactly those a selected module may have produced -/
def expectedLabels (sel : List Module) (fired : List (String × String)) : List (String × String) :=
  fired.filter (fun w => sel.any (fun m => mayEmit m w))

end CweModel.C22
