/- C22 model driver: executes the selection model and the executable specification on harness cases. -/
import CweModel.Base.Proto
import CweModel.C22.Model
open Lean CweModel.Proto

namespace CweModel.C22

def parsePair (j : Json) : Except String (String × String) := do
  match (← j.getArr?).toList with
  | [a, b] => return (← a.getStr?, ← b.getStr?)
  | _ => throw "label pair expected"

def showLabels (ls : List (String × String)) : String :=
  if ls.isEmpty then "-" else ",".intercalate (ls.map fun p => p.1 ++ "@" ++ p.2)

/-- is `xs` a permutation of `ys` (multiset equality), executable -/
def isPermOf : List String → List String → Bool
  | [], ys => ys.isEmpty
  | x :: xs, ys => ys.contains x && isPermOf xs (ys.erase x)

def handleVersions (j : Json) : Except String String := do
  let impl ← field j "impl"
  let exit ← intF impl "exit"
  let out ← strF impl "out"
  let lines := (out.splitOn "\n").filter (fun l => !l.isEmpty)
  let implS := "exit:" ++ toString exit ++ "|" ++ "|".intercalate lines
  let model := versionListing allModules
  let modelS := "exit:0|" ++ "|".intercalate model
  -- spec: the listing names every known check exactly once (any order), nothing else
  let specOk := exit == 0 && (match lines with
    | hd :: rest => hd == "[cwe_checker] module_versions:" && isPermOf rest (allModules.map Module.display)
    | [] => false)
  if !specOk then return s!"spec class=module-versions expected={modelS.replace " " "_"} impl={implS.replace " " "_"}"
  if implS != modelS then return s!"diff class=module-versions model={modelS.replace " " "_"} impl={implS.replace " " "_"}"
  return "ok versions constrained"

def handleRun (j : Json) : Except String String := do
  -- the facts about the ELF file the generator produced; the classification is computed by model and spec
  let elf ← field j "elf"
  let etype ← strF elf "type"
  let sections ← mapM' (fun (x : Json) => x.getStr?) (← arrF elf "sections")
  let lkm := isKernelModule etype sections
  let specLkmFlag := specIsKernelModule etype sections
  let nMarkers := (if sections.contains ".modinfo" then 1 else 0) + (if sections.contains ".gnu.linkonce.this_module" then 1 else 0)
  let elfTag := if etype != "rel" then (if nMarkers == 2 then " elf-nonrel-both-markers" else if nMarkers == 1 then " elf-nonrel-one-marker" else "") else if nMarkers == 1 then " elf-one-marker" else if nMarkers == 0 then " elf-rel-no-marker" else " elf-kernel-module"
  let partialArg : Option String := match optF j "partial" with
    | some (.str s) => some s
    | _ => none
  let avail ← mapM' (fun x => x.getStr?) (← arrF j "avail")
  let firedOk ← boolF j "fired_ok"
  let must := match optF j "must" with
    | some v => (v.getArr?.toOption.map (fun (a : Array Json) => a.toList.filterMap (fun (x : Json) => x.getStr?.toOption))).getD []
    | none => []
  let fired ← mapM' parsePair (← arrF j "fired")
  let impl ← field j "impl"
  let exit ← intF impl "exit"
  let labels ← mapM' parsePair (← arrF impl "labels")
  let err ← strF impl "err"
  let note ← strF impl "note"
  let mode := match partialArg with
    | some _ => "partial"
    | none => if lkm then "lkm-default" else "default"
  let implS := if exit == 0 && note.isEmpty then showLabels labels else s!"exit:{exit}:{err.replace " " "_"}"
  match selectReal partialArg lkm with
  | .error _ =>
    -- the code panics with "Error: <name> is not a valid module name." for SOME invalid listed name
    let invalid := (partialArg.getD "").splitOn "," |>.filter (fun n => !n.isEmpty && !(allModules.any (·.name == n)))
    let okImpl := exit != 0 && invalid.contains err
    if okImpl then return "ok partial-invalid modelonly"
    else return s!"diff class=partial-invalid model=error impl={implS}"
  | .ok sel =>
    if !firedOk then return s!"diff class=all-checks-run-failed model=- impl={implS}"
    let specSel := specSelect allModules Gen.Modules.modulesLkm partialArg specLkmFlag
    if !(sel.all (fun m => avail.contains m.name)) || !(specSel.all (fun m => avail.contains m.name)) then
      throw "selection not covered by the all-checks run"
    let modelS := showLabels (expectedLabels sel fired)
    let specS := showLabels (expectedLabels specSel fired)
    if implS != specS then return s!"spec class={mode} expected={specS} impl={implS} model={modelS}"
    -- independent ground truth (not derived from a run of the analyzer): a selected check whose trigger
    -- sequence is in the program must have reported
    for name in must do
      match specSel.find? (fun m => m.name == name) with
      | some m =>
        if !(labels.any (fun w => mayEmit m w)) then
          return s!"spec class={mode}-selected-check-silent:{name} expected=warning-of-{name} impl={implS} model={modelS}"
      | none => pure ()
    if implS != modelS then return s!"diff class={mode} model={modelS} impl={implS}"
    let tag := if labels.isEmpty then "nowarnings" else "warnings"
    return s!"ok {mode} {tag} constrained{elfTag}"

def handleE (line : String) : Except String String := do
  let j ← Json.parse line
  match ← strF j "t" with
  | "versions" => handleVersions j
  | "run" => handleRun j
  | t => throw s!"unknown case type {t}"

end CweModel.C22

def main : IO Unit := CweModel.Proto.runDriver (CweModel.Proto.guarded CweModel.C22.handleE)
