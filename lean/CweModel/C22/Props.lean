/-
C22 — Check selection runs exactly the requested checks.

"For every input, a partial run executes exactly the listed checks, a default run executes every
check except the OS-command-injection check, a run on a Linux kernel module executes exactly the
kernel-module subset, and the module-version listing names every known check once; warnings of a
check appear only when that check was selected."

The theorems are about the model of `main.rs` (`Model.lean`) instantiated with the tables GENERATED
from the Rust source; they are re-checked whenever a table changes.
-/
import CweModel.C22.Model

namespace CweModel.C22
open CweModel.Gen.Modules

/-! ### helper lemmas -/

theorem mem_dedup (a : String) : ∀ l : List String, a ∈ dedup l ↔ a ∈ l
  | [] => by simp [dedup]
  | b :: bs => by
    unfold dedup
    by_cases h : bs.contains b = true
    · simp only [h, if_true, mem_dedup a bs, List.mem_cons]
      constructor
      · exact Or.inr
      · rintro (rfl | h')
        · exact List.contains_iff_mem.mp h
        · exact h'
    · simp only [h, Bool.false_eq_true, if_false, List.mem_cons]; rw [mem_dedup a bs]

theorem nodup_dedup : ∀ l : List String, (dedup l).Nodup
  | [] => by simp [dedup]
  | b :: bs => by
    unfold dedup
    by_cases h : bs.contains b = true
    · simp only [h, if_true]; exact nodup_dedup bs
    · simp only [h]
      have hb : b ∉ bs := fun hm => h (List.contains_iff_mem.mpr hm)
      exact List.nodup_cons.mpr ⟨fun hm => hb ((mem_dedup b bs).mp hm), nodup_dedup bs⟩

/-- names of a module list -/
def names (mods : List Module) : List String := mods.map (·.name)

theorem find_name_some {mods : List Module} {n : String} {m : Module}
    (h : mods.find? (fun m => m.name == n) = some m) : m ∈ mods ∧ m.name = n := by
  have h1 := List.mem_of_find?_eq_some h
  have h2 := List.find?_some h
  exact ⟨h1, by simpa using h2⟩

theorem find_name_none {mods : List Module} {n : String}
    (h : mods.find? (fun m => m.name == n) = none) : ∀ m ∈ mods, m.name ≠ n := by
  intro m hm
  have := List.find?_eq_none.mp h m hm
  simpa using this

/-- with pairwise different names, the module found for a name is the only one with that name -/
theorem unique_of_nodup {mods : List Module} (hn : (names mods).Nodup) {a b : Module}
    (ha : a ∈ mods) (hb : b ∈ mods) (hab : a.name = b.name) : a = b := by
  induction mods with
  | nil => cases ha
  | cons x xs ih =>
    simp only [names, List.map_cons, List.nodup_cons, List.mem_map, not_exists, not_and] at hn
    rcases List.mem_cons.mp ha with rfl | ha' <;> rcases List.mem_cons.mp hb with rfl | hb'
    · rfl
    · exact absurd hab.symm (hn.1 b hb')
    · exact absurd hab (hn.1 a ha')
    · exact ih hn.2 ha' hb'

/-! ### the partial run -/

/-- `pickModules` fails exactly if some name is neither known nor empty. -/
theorem pickModules_error_iff (mods : List Module) :
    ∀ ns : List String, (∃ e, pickModules mods ns = .error e) ↔
      ∃ n ∈ ns, n ≠ "" ∧ ∀ m ∈ mods, m.name ≠ n
  | [] => by simp [pickModules]
  | n :: rest => by
    have ih := pickModules_error_iff mods rest
    unfold pickModules
    cases hf : mods.find? (fun m => m.name == n) with
    | some m =>
      have ⟨hm, hname⟩ := find_name_some hf
      cases hr : pickModules mods rest with
      | ok ms =>
        simp only [hr] at ih
        constructor
        · rintro ⟨e, he⟩; cases he
        · rintro ⟨x, hx, hne, hall⟩
          rcases List.mem_cons.mp hx with rfl | hx'
          · exact absurd hname (hall m hm)
          · exact (ih.mpr ⟨x, hx', hne, hall⟩).elim (fun e he => by cases he)
      | error e =>
        simp only [hr] at ih
        constructor
        · intro _
          obtain ⟨x, hx, hne, hall⟩ := ih.mp ⟨e, rfl⟩
          exact ⟨x, List.mem_cons_of_mem _ hx, hne, hall⟩
        · intro _; exact ⟨e, rfl⟩
    | none =>
      have hnone := find_name_none hf
      by_cases he : n.isEmpty = true
      · simp only [he, if_true]
        rw [ih]
        have hn : n = "" := by simpa [String.isEmpty_iff] using he
        constructor
        · rintro ⟨x, hx, h⟩; exact ⟨x, List.mem_cons_of_mem _ hx, h⟩
        · rintro ⟨x, hx, hne, hall⟩
          rcases List.mem_cons.mp hx with rfl | hx'
          · exact absurd hn hne
          · exact ⟨x, hx', hne, hall⟩
      · simp only [he]
        have hn : n ≠ "" := by
          intro h; apply he; simp [h]
        constructor
        · intro _; exact ⟨n, List.mem_cons_self, hn, hnone⟩
        · intro _; exact ⟨n, rfl⟩

/-- On success `pickModules` returns exactly the modules whose name is listed. -/
theorem pickModules_mem (mods : List Module) (hn : (names mods).Nodup) :
    ∀ (ns : List String) (sel : List Module), pickModules mods ns = .ok sel →
      ∀ m, m ∈ sel ↔ m ∈ mods ∧ m.name ∈ ns
  | [], sel, h, m => by
    simp only [pickModules, Except.ok.injEq] at h; subst h; simp
  | n :: rest, sel, h, m => by
    unfold pickModules at h
    cases hf : mods.find? (fun m => m.name == n) with
    | some x =>
      have ⟨hx, hname⟩ := find_name_some hf
      rw [hf] at h
      cases hr : pickModules mods rest with
      | error e => rw [hr] at h; cases h
      | ok ms =>
        rw [hr] at h
        simp only [Except.ok.injEq] at h; subst h
        have ih := pickModules_mem mods hn rest ms hr m
        simp only [List.mem_cons, ih]
        constructor
        · rintro (rfl | ⟨hm, hmem⟩)
          · exact ⟨hx, Or.inl hname⟩
          · exact ⟨hm, Or.inr hmem⟩
        · rintro ⟨hm, (hmn | hmem)⟩
          · exact Or.inl (unique_of_nodup hn hm hx (hmn.trans hname.symm))
          · exact Or.inr ⟨hm, hmem⟩
    | none =>
      have hnone := find_name_none hf
      rw [hf] at h
      by_cases he : n.isEmpty = true
      · simp only [he, if_true] at h
        have ih := pickModules_mem mods hn rest sel h m
        rw [ih]
        constructor
        · rintro ⟨hm, hmem⟩; exact ⟨hm, List.mem_cons_of_mem _ hmem⟩
        · rintro ⟨hm, hmem⟩
          rcases List.mem_cons.mp hmem with hmn | hmem'
          · exact absurd hmn (hnone m hm)
          · exact ⟨hm, hmem'⟩
      · simp only [he] at h; cases h

/-- On success over duplicate-free names no module is selected twice. -/
theorem pickModules_nodup (mods : List Module) (hn : (names mods).Nodup) :
    ∀ (ns : List String) (sel : List Module), ns.Nodup → pickModules mods ns = .ok sel → sel.Nodup
  | [], sel, _, h => by
    simp only [pickModules, Except.ok.injEq] at h; subst h; simp
  | n :: rest, sel, hnd, h => by
    have ⟨hnot, hrest⟩ := List.nodup_cons.mp hnd
    unfold pickModules at h
    cases hf : mods.find? (fun m => m.name == n) with
    | some x =>
      have ⟨_, hname⟩ := find_name_some hf
      rw [hf] at h
      cases hr : pickModules mods rest with
      | error e => rw [hr] at h; cases h
      | ok ms =>
        rw [hr] at h
        simp only [Except.ok.injEq] at h; subst h
        refine List.nodup_cons.mpr ⟨?_, pickModules_nodup mods hn rest ms hrest hr⟩
        intro hx
        have := ((pickModules_mem mods hn rest ms hr x).mp hx).2
        exact hnot (hname ▸ this)
    | none =>
      rw [hf] at h
      by_cases he : n.isEmpty = true
      · simp only [he, if_true] at h
        exact pickModules_nodup mods hn rest sel hrest h
      · simp only [he] at h; cases h

/-- **C22-partial.** For every module table with pairwise different names and every `--partial`
argument: if the run starts, the executed checks are exactly the known checks whose name is listed
(as a set; duplicates and empty entries are irrelevant), and each is executed once. -/
theorem partialSelect_exact (mods : List Module) (hn : (names mods).Nodup) (param : String)
    (sel : List Module) (h : partialSelect mods param = .ok sel) :
    (∀ m, m ∈ sel ↔ m ∈ mods ∧ m.name ∈ param.splitOn ",") ∧ sel.Nodup := by
  unfold partialSelect splitNames at h
  refine ⟨fun m => ?_, pickModules_nodup mods hn _ sel (nodup_dedup _) h⟩
  rw [pickModules_mem mods hn _ sel h m, mem_dedup]

/-- **C22-partial-error.** The run is refused (the code panics) exactly if some listed name is
neither empty nor the name of a known check. -/
theorem partialSelect_error_iff (mods : List Module) (param : String) :
    (∃ e, partialSelect mods param = .error e) ↔
      ∃ n ∈ param.splitOn ",", n ≠ "" ∧ ∀ m ∈ mods, m.name ≠ n := by
  unfold partialSelect splitNames
  rw [pickModules_error_iff]
  constructor
  · rintro ⟨n, hn, h⟩; exact ⟨n, (mem_dedup n _).mp hn, h⟩
  · rintro ⟨n, hn, h⟩; exact ⟨n, (mem_dedup n _).mpr hn, h⟩

/-- **C22-partial-spec.** The model selection and the declarative specification
(`specPartial`: filter the known checks by membership in the list) select the same set. -/
theorem partialSelect_eq_spec (mods : List Module) (hn : (names mods).Nodup) (param : String)
    (sel : List Module) (h : partialSelect mods param = .ok sel) :
    ∀ m, m ∈ sel ↔ m ∈ specPartial mods param := by
  intro m
  rw [(partialSelect_exact mods hn param sel h).1 m]
  simp [specPartial]

/-! ### the generated tables -/

/-- **C22-names.** The names of the checks returned by `get_modules()` are pairwise different. -/
theorem allModules_names_nodup : (names allModules).Nodup := by decide

/-- **C22-default-table.** The default-run filter of `main.rs` excludes exactly `CWE78`. -/
theorem defaultExcluded_eq : defaultExcluded = ["CWE78"] := by decide

/-- **C22-default.** A default run (no `--partial`, not a kernel module) executes every known check
except the OS-command-injection check `CWE78`, each once, in the order of `get_modules()`. -/
theorem select_default :
    selectReal none false = .ok (specDefault allModules) ∧
    (∀ m, m ∈ specDefault allModules ↔ m ∈ allModules ∧ m.name ≠ "CWE78") ∧
    (specDefault allModules).Nodup := by
  refine ⟨by rfl, fun m => by simp [specDefault], ?_⟩
  decide

/-- **C22-lkm-acceptance.** Every check the repository's acceptance tests run on kernel-module samples
(`LKM_CWE` in test/src/lib.rs) is a known check and is contained in `MODULES_LKM`: the kernel-module
subset cannot silently lose a check whose warnings the acceptance tests expect. -/
theorem lkm_subset_covers_acceptance :
    ∀ c ∈ Gen.Modules.lkmAcceptance, c ∈ modulesLkm ∧ c ∈ names allModules := by decide

/-- **C22-lkm.** A run on a Linux kernel module (no `--partial`) executes exactly the known checks
named in `MODULES_LKM`. -/
theorem select_lkm :
    selectReal none true = .ok (specLkm allModules modulesLkm) ∧
    (∀ m, m ∈ specLkm allModules modulesLkm ↔ m ∈ allModules ∧ m.name ∈ modulesLkm) ∧
    (specLkm allModules modulesLkm).Nodup := by
  refine ⟨by rfl, fun m => ?_, by decide⟩
  simp only [specLkm, List.mem_filter, Bool.or_eq_true, List.contains_iff_mem]
  constructor
  · rintro ⟨hm, h | h⟩
    · exact ⟨hm, h⟩
    · exact ⟨hm, (lkm_subset_covers_acceptance m.name h).1⟩
  · rintro ⟨hm, h⟩; exact ⟨hm, Or.inl h⟩

/-- **C22-kernel-module.** The classification the kernel-module filter depends on: the code treats an
input as a Linux kernel module exactly if it is a relocatable object with BOTH marker sections — for
every ELF type and every set of section names (the marker names and the conjunction are regenerated
from `runtime_memory_image.rs`). In particular an object with only one of the two sections, an
executable or a shared object gets the default selection. -/
theorem kernelModule_classification (etype : String) (sections : List String) :
    isKernelModule etype sections = specIsKernelModule etype sections := by
  have h : lkmMarkerSections = [".modinfo", ".gnu.linkonce.this_module"] := by decide
  simp [isKernelModule, specIsKernelModule, h, Bool.and_assoc]

theorem not_kernelModule_of_missing_marker (etype : String) (sections : List String)
    (h : ".modinfo" ∉ sections ∨ ".gnu.linkonce.this_module" ∉ sections) :
    isKernelModule etype sections = false := by
  rw [kernelModule_classification]
  simp only [specIsKernelModule]
  rcases h with h | h <;> simp [h]

/-- **C22-run.** The selection of a whole run as a function of the input file and the command line:
default selection unless the file is a kernel module (both markers) or `--partial` is given. -/
theorem select_of_input (etype : String) (sections : List String) :
    selectReal none (isKernelModule etype sections) =
      if specIsKernelModule etype sections then .ok (specLkm allModules modulesLkm) else .ok (specDefault allModules) := by
  rw [kernelModule_classification]
  cases specIsKernelModule etype sections
  · exact select_default.1
  · exact select_lkm.1

/-- **C22-partial-real.** `partialSelect_exact` for the real table. -/
theorem select_partial (param : String) (sel : List Module) (h : selectReal (some param) false = .ok sel) :
    (∀ m, m ∈ sel ↔ m ∈ allModules ∧ m.name ∈ param.splitOn ",") ∧ sel.Nodup :=
  partialSelect_exact allModules allModules_names_nodup param sel h

/-- `--partial` takes precedence over the kernel-module filter. -/
theorem select_partial_lkm (param : String) : selectReal (some param) true = selectReal (some param) false := rfl

/-- **C22-versions.** The `--module-versions` listing consists of the header line followed by one
line per known check — every known check exactly once, and nothing else. -/
theorem versionListing_exact (mods : List Module) (hn : (names mods).Nodup) :
    versionListing mods = "[cwe_checker] module_versions:" :: mods.map Module.display ∧
    (versionListing mods).length = mods.length + 1 ∧
    ∀ m ∈ mods, (mods.filter (fun x => x.name == m.name)).length = 1 := by
  refine ⟨rfl, by simp [versionListing], ?_⟩
  intro m hm
  induction mods with
  | nil => cases hm
  | cons x xs ih =>
    simp only [names, List.map_cons, List.nodup_cons, List.mem_map, not_exists, not_and] at hn
    rcases List.mem_cons.mp hm with rfl | hm'
    · have : xs.filter (fun y => y.name == m.name) = [] := by
        apply List.filter_eq_nil_iff.mpr
        intro y hy; simpa using hn.1 y hy
      simp [this]
    · have hx : (x.name == m.name) = false := by
        simpa using fun h : x.name = m.name => hn.1 m hm' h.symm
      simp only [List.filter_cons, hx]
      exact ih hn.2 hm'

/-- the listing of the real table has one line per known check plus the header, and every check of the
table occurs exactly once in it (instance of `versionListing_exact`) -/
theorem versionListing_real :
    (versionListing allModules).length = allModules.length + 1 ∧
    ∀ m ∈ allModules, (allModules.filter (fun x => x.name == m.name)).length = 1 :=
  let h := versionListing_exact allModules allModules_names_nodup
  ⟨h.2.1, h.2.2⟩

/-! ### warnings only from selected checks -/

/-- **C22-warnings.** Whatever the checks compute: if every check labels its warnings with its own
version and with a name from its name list (`emitsOf`, generated from the check's source), then every
warning of a run was produced by a SELECTED check that may emit that label; a check that was not
selected contributes nothing. -/
theorem warnings_only_from_selected (run : Module → List (String × String)) (sel : List Module)
    (hrun : ∀ m w, w ∈ run m → mayEmit m w = true) :
    ∀ w ∈ runLabels run sel, ∃ m ∈ sel, w ∈ run m ∧ mayEmit m w = true := by
  intro w hw
  simp only [runLabels, List.mem_flatMap] at hw
  obtain ⟨m, hm, hwm⟩ := hw
  exact ⟨m, hm, hwm, hrun m w hwm⟩

/-- **C22-output-exact.** The labels of a run of `sel` are exactly the labels of the all-checks run
that a selected check produces: `expectedLabels` (the executable specification the driver evaluates
on the real output) is sound and complete for them, provided label ownership is unambiguous on the
fired labels. -/
theorem expectedLabels_exact (run : Module → List (String × String)) (sel all : List Module)
    (hsub : ∀ m ∈ sel, m ∈ all)
    (hrun : ∀ m w, w ∈ run m → mayEmit m w = true)
    (hunamb : ∀ m ∈ all, ∀ m' ∈ all, ∀ w, w ∈ run m → mayEmit m' w = true → m' ∈ sel → m ∈ sel) :
    ∀ w, w ∈ expectedLabels sel (runLabels run all) ↔ w ∈ runLabels run sel := by
  intro w
  simp only [expectedLabels, List.mem_filter, runLabels, List.mem_flatMap, List.any_eq_true]
  constructor
  · rintro ⟨⟨m, hm, hwm⟩, m', hm', hemit⟩
    exact ⟨m, hunamb m hm m' (hsub m' hm') w hwm hemit hm', hwm⟩
  · rintro ⟨m, hm, hwm⟩
    exact ⟨⟨m, hsub m hm, hwm⟩, m, hm, hrun m w hwm⟩

/-- In the real tables two different checks never share a label `(name, version)`: the ownership of
every label is unambiguous. -/
theorem real_labels_unambiguous :
    ∀ m ∈ allModules, ∀ m' ∈ allModules, ∀ n ∈ emitsOf m, mayEmit m' (n, m.version) = true → m' = m := by
  decide

/-! ### non-vacuity -/

-- (the examples mention no version numbers and no table sizes: a version bump or a new check must not break them)
example : (pickModules allModules (dedup ["CWE676", "", "CWE78", "CWE676"])).toOption.map (·.map (·.name)) = some ["CWE78", "CWE676"] := by
  rfl
example : pickModules allModules (dedup ["CWE676", "CWE7"]) = .error "CWE7" := by rfl
example : isKernelModule "rel" [".text", ".modinfo", ".gnu.linkonce.this_module"] = true ∧
    isKernelModule "rel" [".text", ".modinfo"] = false ∧ isKernelModule "rel" [".gnu.linkonce.this_module"] = false ∧
    isKernelModule "dyn" [".modinfo", ".gnu.linkonce.this_module"] = false := by decide
example : (specDefault allModules).length + 1 = allModules.length := by decide
example : 0 < (specLkm allModules modulesLkm).length ∧ (specLkm allModules modulesLkm).length ≤ modulesLkm.length := by decide
example : expectedLabels [⟨"Memory", "0.2"⟩] [("CWE476", "0.2"), ("CWE476", "0.3"), ("CWE415", "0.3")] = [("CWE476", "0.2")] := by
  decide
example : expectedLabels [⟨"CWE416", "0.3"⟩] [("CWE476", "0.2"), ("CWE476", "0.3"), ("CWE415", "0.3")] = [("CWE415", "0.3")] := by
  decide

end CweModel.C22
