/- C09 model driver: runs the model of `normalize_basic` and the executable specification `wfCheck`
on harness cases.

case line: {"ptid": Tid, "prog": raw program, "feat": […],
            "impl": {"out": normalised program | null, "panic": null | msg, "cfg": "ok" | "skipped" | "panic:…"}}

* model ≡ implementation: same panic behaviour; otherwise the same program, where per function the
  blocks that existed after pass 3 are compared in order and the appended blocks (clones in
  `HashSet` iteration order, then possibly the sink block) as a set.
* If the raw program satisfies `TidDiscipline` (the theorem's hypotheses), the implementation must
  not panic, `wfCheck` must hold on the IMPLEMENTATION output, and `get_program_cfg` must not panic.
-/
import CweModel.Base.Proto
import CweModel.C09.Model
open Lean CweModel.Proto CweModel.IR

namespace CweModel.C09

def tidLe (a b : Tid) : Bool := a.id < b.id || (a.id == b.id && a.address ≤ b.address)

/-- blocks `0..k` in order, the rest sorted by TID -/
def canonBlocks (k : Nat) (bs : List (Term Blk)) : List (Term Blk) :=
  bs.take k ++ (bs.drop k).mergeSort (fun a b => tidLe a.tid b.tid)

def canonSubs (ks : List Nat) (ss : List (Term Sub)) : List (Term Sub) :=
  (ss.zip ks).map (fun (s, k) => { s with term := { s.term with blocks := canonBlocks k s.term.blocks } })

/-- first function on which two programs differ -/
def firstDiff : List (Term Sub) → List (Term Sub) → String
  | [], [] => "none"
  | a :: as, b :: bs => if a == b then firstDiff as bs else
      if a.tid != b.tid then s!"sub-tid:{a.tid.id}/{b.tid.id}" else
      s!"sub:{a.tid.id}:blocks={a.term.blocks.length}/{b.term.blocks.length}:" ++
        ",".intercalate (a.term.blocks.map (·.tid.id)) ++ "/" ++ ",".intercalate (b.term.blocks.map (·.tid.id))
  | _, _ => "number-of-subs"

/-- name of the first `TidDiscipline` clause the raw program violates -/
def disciplineFailure (progTid : Tid) (p : Program) : String :=
  if dupSubPanic [progTid] p.subs then "hyp-dup-sub-tid"
  else if ¬ EntryFresh [progTid] p.subs then "hyp-entry-not-first"
  else if ¬ (Tid.artificialSinkSub ∉ progTid :: allTids p ∧ Tid.artificialSinkBlock "" ∉ progTid :: allTids p) then
    "hyp-sink-tid-used"
  else if ¬ (∀ s ∈ p.subs, ∀ b ∈ s.term.blocks, ∀ t ∈ succTids b, t ∉ baseSubs p ∧ t ∉ externTids p) then
    "hyp-jump-to-sub-or-extern"
  else if ¬ (∀ s ∈ p.subs, ∀ b ∈ s.term.blocks, ∀ t ∈ callTargets b, t ∉ blockTids p ∧ t ≠ Tid.artificialSinkBlock "") then
    "hyp-call-to-block"
  else if ¬ (∀ s ∈ baseSubs p, ∀ s' ∈ baseSubs p, s.id = s'.id → s = s') then "hyp-sub-id-twice"
  else "hyp-suffix-collision"

def handleE (line : String) : Except String String := do
  let j ← Json.parse line
  let ptid ← parseTid (← field j "ptid")
  let p ← parseProgram (← field j "prog")
  let impl ← field j "impl"
  let implPanic := (strF impl "panic").toOption
  let cfg ← strF impl "cfg"
  let hyp := decide (TidDiscipline ptid p)
  let tag := if hyp then "constrained" else "modelonly " ++ disciplineFailure ptid p
  let mPanic := normalizePanics ptid p
  match implPanic with
  | some msg =>
    let m := (msg.replace " " "_").take 60
    if hyp then return s!"spec class=normalize-panic expected=no-panic impl=panic:{m}"
    else if mPanic then return s!"ok {tag} panic"
    else return s!"diff class=panic model=no-panic impl=panic:{m}"
  | none =>
    let q ← parseProgram (← field impl "out")
    -- executable specification on the implementation output
    if hyp then
      match wfCheck ptid p q with
      | some c => return s!"spec class=wf-{c} expected=WF impl=violated"
      | none => pure ()
      if cfg != "ok" then
        return s!"spec class=cfg-panic expected=ok impl={(cfg.replace " " "_").take 80}"
    if mPanic then return s!"diff class=panic model=panic impl=no-panic"
    let m := normalizeBasic ptid p
    let ks := (stage3 ptid p).subs.map (·.term.blocks.length)
    let cm := canonSubs ks m.subs
    let ci := canonSubs ks q.subs
    if m.subs.length != q.subs.length || cm != ci then
      return s!"diff class=program model/impl={firstDiff cm ci}"
    if m.externSymbols != q.externSymbols || m.entryPoints != q.entryPoints then
      return s!"diff class=symbols model=unchanged impl=changed"
    let cloned := if m.subs.length + (p.subs.map (·.term.blocks.length)).sum <
        (m.subs.map (·.term.blocks.length)).sum then "cloned" else "noclone"
    let wfAny := if hyp then "" else (match wfCheck ptid p q with | some c => s!" outside-wf-{c}" | none => "")
    return s!"ok {tag} {cloned}{wfAny}"

end CweModel.C09

def main : IO Unit := CweModel.Proto.runDriver (CweModel.Proto.guarded CweModel.C09.handleE)
