/-
C09 — list lemmas that are not in core (no Mathlib here): `Nodup` of `flatMap`/`map`, permutations
of `flatMap`, and the last-entry-wins association list `lookupLast` that models a `HashMap`.
-/
import CweModel.C09.Model
open CweModel.IR
namespace CweModel.C09

theorem nodup_flatMap_of {α β : Type} {f : α → List β} {l : List α}
    (h1 : ∀ x ∈ l, (f x).Nodup) (h2 : l.Pairwise (fun a b => ∀ t, t ∈ f a → t ∈ f b → False)) :
    (l.flatMap f).Nodup := by
  induction l with
  | nil => simp
  | cons a l ih =>
    rw [List.pairwise_cons] at h2
    simp only [List.flatMap_cons]
    refine List.nodup_append.mpr ⟨h1 a (List.mem_cons_self ..), ih (fun x hx => h1 x (List.mem_cons_of_mem _ hx)) h2.2, ?_⟩
    intro x hx y hy hxy
    subst hxy
    obtain ⟨b, hb, hyb⟩ := List.mem_flatMap.mp hy
    exact h2.1 b hb x hx hyb

theorem nodup_of_nodup_flatMap {α β : Type} {f : α → List β} {l : List α} (h : (l.flatMap f).Nodup) :
    ∀ x ∈ l, (f x).Nodup := by
  induction l with
  | nil => simp
  | cons a l ih =>
    simp only [List.flatMap_cons] at h
    have ⟨h1, h2, _⟩ := List.nodup_append.mp h
    intro x hx
    rcases List.mem_cons.mp hx with rfl | hx
    · exact h1
    · exact ih h2 x hx

theorem pairwise_of_nodup_flatMap {α β : Type} {f : α → List β} {l : List α} (h : (l.flatMap f).Nodup) :
    l.Pairwise (fun a b => ∀ t, t ∈ f a → t ∈ f b → False) := by
  induction l with
  | nil => simp
  | cons a l ih =>
    simp only [List.flatMap_cons] at h
    have ⟨_, h2, h3⟩ := List.nodup_append.mp h
    refine List.pairwise_cons.mpr ⟨?_, ih h2⟩
    intro b hb t hta htb
    exact h3 t hta t (List.mem_flatMap.mpr ⟨b, hb, htb⟩) rfl

/-- in a duplicate-free `flatMap` an element determines the member it came from -/
theorem nodup_flatMap_inj {α β : Type} {f : α → List β} {l : List α} (h : (l.flatMap f).Nodup)
    {a b : α} (ha : a ∈ l) (hb : b ∈ l) {x : β} (hxa : x ∈ f a) (hxb : x ∈ f b) : a = b := by
  induction l with
  | nil => simp at ha
  | cons c l ih =>
    simp only [List.flatMap_cons] at h
    have ⟨_, h2, h3⟩ := List.nodup_append.mp h
    rcases List.mem_cons.mp ha with ea | ha' <;> rcases List.mem_cons.mp hb with eb | hb'
    · rw [ea, eb]
    · subst ea; exact absurd rfl (h3 x hxa x (List.mem_flatMap.mpr ⟨b, hb', hxb⟩))
    · subst eb; exact absurd rfl (h3 x hxb x (List.mem_flatMap.mpr ⟨a, ha', hxa⟩))
    · exact ih h2 ha' hb'

theorem nodup_map_of_inj {α β : Type} {f : α → β} {l : List α} (h : l.Nodup)
    (hf : ∀ a ∈ l, ∀ b ∈ l, f a = f b → a = b) : (l.map f).Nodup := by
  unfold List.Nodup at h ⊢
  rw [List.pairwise_map]
  exact h.imp_of_mem (fun ha hb hne e => hne (hf _ ha _ hb e))

theorem nodup_of_nodup_map {α β : Type} {f : α → β} {l : List α} (h : (l.map f).Nodup) : l.Nodup := by
  unfold List.Nodup at h ⊢
  rw [List.pairwise_map] at h
  exact h.imp (fun hne e => hne (congrArg f e))

theorem perm_flatMap_left {α β : Type} {f g : α → List β} {l : List α} (h : ∀ a ∈ l, (f a).Perm (g a)) :
    (l.flatMap f).Perm (l.flatMap g) := by
  induction l with
  | nil => exact .refl _
  | cons a l ih =>
    simp only [List.flatMap_cons]
    exact (h a (List.mem_cons_self ..)).append (ih (fun x hx => h x (List.mem_cons_of_mem _ hx)))

/-- `(l.flatMap (fun a => f a ++ g a)) ~ l.flatMap f ++ l.flatMap g` -/
theorem perm_flatMap_append {α β : Type} (f g : α → List β) (l : List α) :
    (l.flatMap (fun a => f a ++ g a)).Perm (l.flatMap f ++ l.flatMap g) := by
  induction l with
  | nil => exact .refl _
  | cons a l ih =>
    simp only [List.flatMap_cons]
    -- (f a ++ g a) ++ X ~ (f a ++ F) ++ (g a ++ G)
    have h1 : ((f a ++ g a) ++ l.flatMap (fun a => f a ++ g a)).Perm ((f a ++ g a) ++ (l.flatMap f ++ l.flatMap g)) :=
      ih.append_left _
    refine h1.trans ?_
    simp only [List.append_assoc]
    refine List.Perm.append_left _ ?_
    rw [← List.append_assoc, ← List.append_assoc]
    exact List.Perm.append_right _ List.perm_append_comm

theorem length_filter_flatMap_ge {α β : Type} (g : α → List β) (P : β → Bool) (l : List α) {e : α} (he : e ∈ l)
    (hP : ∀ x ∈ g e, P x = true) : (g e).length ≤ ((l.flatMap g).filter P).length := by
  induction l with
  | nil => simp at he
  | cons a l ih =>
    simp only [List.flatMap_cons, List.filter_append, List.length_append]
    rcases List.mem_cons.mp he with rfl | he
    · have : (g e).filter P = g e := List.filter_eq_self.mpr hP
      rw [this]; omega
    · have := ih he; omega

/-! ### `lookupLast` -/

theorem lookupLast_mem {β : Type} {l : List (Tid × β)} {t : Tid} {v : β} (h : lookupLast l t = some v) :
    (t, v) ∈ l := by
  unfold lookupLast at h
  cases hf : l.reverse.find? (fun e => decide (e.1 = t)) with
  | none => simp [hf] at h
  | some e =>
    rw [hf] at h
    simp only [Option.map_some, Option.some.injEq] at h
    have h1 := List.find?_some hf
    have h2 := List.mem_of_find?_eq_some hf
    simp only [decide_eq_true_eq] at h1
    rw [List.mem_reverse] at h2
    cases e with
    | mk a b => simp only at h1 h; subst h1; subst h; exact h2

theorem lookupLast_none {β : Type} {l : List (Tid × β)} {t : Tid} :
    lookupLast l t = none ↔ t ∉ l.map (·.1) := by
  unfold lookupLast
  rw [Option.map_eq_none_iff, List.find?_eq_none]
  simp only [List.mem_reverse, decide_eq_true_eq, List.mem_map, not_exists, not_and]

theorem lookupLast_isSome_of_mem {β : Type} {l : List (Tid × β)} {t : Tid} (h : t ∈ l.map (·.1)) :
    ∃ v, lookupLast l t = some v := by
  cases hl : lookupLast l t with
  | none => exact absurd h (lookupLast_none.mp hl)
  | some v => exact ⟨v, rfl⟩

theorem assoc_unique {β : Type} {l : List (Tid × β)} (hn : (l.map (·.1)).Nodup) {t : Tid} {v w : β}
    (hv : (t, v) ∈ l) (hw : (t, w) ∈ l) : v = w := by
  induction l with
  | nil => simp at hv
  | cons c l ih =>
    simp only [List.map_cons, List.nodup_cons] at hn
    rcases List.mem_cons.mp hv with e1 | e1 <;> rcases List.mem_cons.mp hw with e2 | e2
    · have := e1.trans e2.symm
      simpa using this
    · exact absurd (List.mem_map.mpr ⟨(t, w), e2, by rw [← e1]⟩) hn.1
    · exact absurd (List.mem_map.mpr ⟨(t, v), e1, by rw [← e2]⟩) hn.1
    · exact ih hn.2 e1 e2

/-- with duplicate-free keys the (last) entry found is the only one -/
theorem lookupLast_of_nodup {β : Type} {l : List (Tid × β)} (hn : (l.map (·.1)).Nodup) {t : Tid} {v : β}
    (h : (t, v) ∈ l) : lookupLast l t = some v := by
  obtain ⟨w, hw⟩ := lookupLast_isSome_of_mem (List.mem_map.mpr ⟨(t, v), h, rfl⟩)
  rw [hw, assoc_unique hn h (lookupLast_mem hw)]

end CweModel.C09
