/-
C09 — pass 5, `retarget_non_returning_calls_to_artificial_sink`, and the composition.
-/
import CweModel.C09.P4
open CweModel.IR CweModel.Reach
namespace CweModel.C09

/-! ### one jump -/

theorem retargetCall_tid (p : Program) (nr : List Tid) (sfx : String) (j : Term Jmp) :
    (retargetCall p nr sfx j).tid = j.tid := by
  unfold retargetCall; split
  · split <;> rfl
  · rfl

/-- the pass only touches `Call`s with a return target, and only their return target -/
theorem retargetCall_cases (p : Program) (nr : List Tid) (sfx : String) (j : Term Jmp) :
    retargetCall p nr sfx j = j ∨
    ∃ tgt r, j.term = .Call tgt (some r) ∧ shouldRetarget p nr sfx j.term = true ∧
      (retargetCall p nr sfx j).term = .Call tgt (some (Tid.artificialSinkBlock sfx)) := by
  unfold retargetCall
  split
  · next h =>
    match hj : j.term with
    | .Call tgt (some r) => exact .inr ⟨tgt, r, rfl, hj ▸ h, by simp⟩
    | .Call _ none => simp [hj, shouldRetarget] at h
    | .Branch _ | .BranchInd _ | .CBranch _ _ | .CallInd _ _ | .Return _ | .CallOther _ _ =>
      simp [hj, shouldRetarget] at h
  · exact .inl rfl

theorem retargetCall_isCBranch (p : Program) (nr : List Tid) (sfx : String) (j : Term Jmp) :
    Jmp.isCBranch (retargetCall p nr sfx j).term = Jmp.isCBranch j.term := by
  rcases retargetCall_cases p nr sfx j with h | ⟨tgt, r, h1, _, h3⟩
  · rw [h]
  · rw [h3, h1]; rfl

theorem retargetCall_isReturn (p : Program) (nr : List Tid) (sfx : String) (j : Term Jmp) :
    Jmp.isReturn (retargetCall p nr sfx j).term = Jmp.isReturn j.term := by
  rcases retargetCall_cases p nr sfx j with h | ⟨tgt, r, h1, _, h3⟩
  · rw [h]
  · rw [h3, h1]; rfl

theorem retargetCall_call (p : Program) (nr : List Tid) (sfx : String) (j : Term Jmp) :
    Jmp.callTarget? (retargetCall p nr sfx j).term = Jmp.callTarget? j.term := by
  rcases retargetCall_cases p nr sfx j with h | ⟨tgt, r, h1, _, h3⟩
  · rw [h]
  · rw [h3, h1]; rfl

theorem retargetCall_local (p : Program) (nr : List Tid) (sfx : String) (j : Term Jmp) (t : Tid)
    (h : Jmp.localTarget? (retargetCall p nr sfx j).term = some t) :
    Jmp.localTarget? j.term = some t ∨
      (t = Tid.artificialSinkBlock sfx ∧ shouldRetarget p nr sfx j.term = true) := by
  rcases retargetCall_cases p nr sfx j with h0 | ⟨tgt, r, h1, h2, h3⟩
  · rw [h0] at h; exact .inl h
  · rw [h3] at h
    simp only [Jmp.localTarget?, Option.some.injEq] at h
    exact .inr ⟨h.symm, h2⟩

/-! ### one block -/

/-- the block transformer of the pass -/
def retargetBlk (p : Program) (nr : List Tid) (sfx : String) (b : Term Blk) : Term Blk :=
  { b with term := { b.term with jmps := b.term.jmps.map (retargetCall p nr sfx) } }

theorem retargetBlk_tid (p : Program) (nr : List Tid) (sfx : String) (b : Term Blk) :
    (retargetBlk p nr sfx b).tid = b.tid := rfl

theorem retargetBlk_blkAll (p : Program) (nr : List Tid) (sfx : String) (b : Term Blk) :
    blkAll (retargetBlk p nr sfx b) = blkAll b := by
  simp [blkAll, blkContentTids, retargetBlk, tids, List.map_map, Function.comp_def, retargetCall_tid]

theorem retargetBlk_call (p : Program) (nr : List Tid) (sfx : String) (b : Term Blk) :
    callTargets (retargetBlk p nr sfx b) = callTargets b := by
  simp only [callTargets, retargetBlk, List.filterMap_map]
  apply filterMap_congr'
  intro j _
  exact retargetCall_call p nr sfx j

theorem retargetBlk_succ (p : Program) (nr : List Tid) (sfx : String) (b : Term Blk) (t : Tid)
    (h : t ∈ succTids (retargetBlk p nr sfx b)) :
    t ∈ succTids b ∨ (t = Tid.artificialSinkBlock sfx ∧
      b.term.jmps.any (fun j => shouldRetarget p nr sfx j.term) = true) := by
  simp only [succTids, retargetBlk, List.mem_append, List.mem_filterMap, List.mem_map] at h ⊢
  rcases h with ⟨j', ⟨j, hj, rfl⟩, hl⟩ | h
  · rcases retargetCall_local p nr sfx j t hl with h1 | ⟨h1, h2⟩
    · exact .inl (.inl ⟨j, hj, h1⟩)
    · exact .inr ⟨h1, List.any_eq_true.mpr ⟨j, hj, h2⟩⟩
  · exact .inl (.inr h)

theorem retargetBlk_hasReturn (p : Program) (nr : List Tid) (sfx : String) (b : Term Blk) :
    (retargetBlk p nr sfx b).term.jmps.any (fun j => Jmp.isReturn j.term) =
      b.term.jmps.any (fun j => Jmp.isReturn j.term) := by
  simp [retargetBlk, List.any_map, Function.comp_def, retargetCall_isReturn]

/-! ### one sub -/

/-- the flag `one_or_more_call_retargeted` -/
def retargeted (p : Program) (nr : List Tid) (s : Term Sub) : Bool :=
  s.term.blocks.any (fun b => b.term.jmps.any (fun j => shouldRetarget p nr (idSuffix s) j.term))

theorem retargetSub_tid (p : Program) (nr : List Tid) (s : Term Sub) : (retargetSub p nr s).tid = s.tid := by
  unfold retargetSub addArtificialSinkBlk
  split
  · rfl
  · simp only []
    split
    · split <;> rfl
    · rfl

theorem idSuffix_retargetSub (p : Program) (nr : List Tid) (s : Term Sub) :
    idSuffix (retargetSub p nr s) = idSuffix s := by
  unfold idSuffix; rw [retargetSub_tid]

/-- the blocks after the pass: the retargeted blocks, possibly followed by a new sink block -/
theorem retargetSub_blocks (p : Program) (nr : List Tid) (s : Term Sub) (hs : s.tid.isArtificialSinkSub = false) :
    (retargetSub p nr s).term.blocks = s.term.blocks.map (retargetBlk p nr (idSuffix s)) ∨
    ((retargetSub p nr s).term.blocks =
        s.term.blocks.map (retargetBlk p nr (idSuffix s)) ++ [artificialSinkBlk (idSuffix s)] ∧
      retargeted p nr s = true ∧
      ∀ b ∈ s.term.blocks, b.tid.isArtificialSinkBlock (idSuffix s) = false) := by
  unfold retargetSub
  simp only [hs, Bool.false_eq_true, if_false]
  split
  · next hflag =>
    unfold addArtificialSinkBlk
    split
    · exact .inl rfl
    · next hno =>
      refine .inr ⟨rfl, hflag, ?_⟩
      intro b hb
      simp only [hasArtificialSink, mapBlocks, List.any_map, Bool.not_eq_true, List.any_eq_false] at hno
      have := hno b hb
      simpa [idSuffix] using this
  · exact .inl rfl

theorem retargetSub_blocks_sink (p : Program) (nr : List Tid) (s : Term Sub) (hs : s.tid.isArtificialSinkSub = true) :
    retargetSub p nr s = s := by
  unfold retargetSub; simp [hs]

theorem retargetSub_hasReturn (p : Program) (nr : List Tid) (s : Term Sub) :
    hasReturn (retargetSub p nr s) = hasReturn s := by
  cases hs : s.tid.isArtificialSinkSub with
  | true => rw [retargetSub_blocks_sink p nr s hs]
  | false =>
    unfold hasReturn
    rcases retargetSub_blocks p nr s hs with h | ⟨h, _, _⟩
    · rw [h]; simp [List.any_map, Function.comp_def, retargetBlk_hasReturn]
    · rw [h]; simp [List.any_map, List.any_append, Function.comp_def, retargetBlk_hasReturn, artificialSinkBlk]

theorem retargetSub_entry (p : Program) (nr : List Tid) (s : Term Sub) :
    entryTid (retargetSub p nr s) = entryTid s := by
  cases hs : s.tid.isArtificialSinkSub with
  | true => rw [retargetSub_blocks_sink p nr s hs]
  | false =>
    unfold entryTid
    rcases retargetSub_blocks p nr s hs with h | ⟨h, hflag, _⟩
    · rw [h]; cases s.term.blocks <;> simp [retargetBlk_tid]
    · rw [h]
      cases hb : s.term.blocks with
      | nil => simp [retargeted, hb] at hflag
      | cons b bs => simp [retargetBlk_tid]

/-! ### the whole pass -/

theorem nonReturningSubs_retarget (p : Program) (nr : List Tid) :
    nonReturningSubs { p with subs := p.subs.map (retargetSub p nr) } = nonReturningSubs p := by
  simp only [nonReturningSubs, List.filter_map, tids, List.map_map, Function.comp_def, retargetSub_tid,
    retargetSub_hasReturn]

theorem endsWith_append (a b : String) : (a ++ b).endsWith b = true := by
  unfold String.endsWith
  rw [String.Slice.endsWith_string_iff]
  simp

/-- the sink TID of a sub is recognised by `Tid::is_artificial_sink_block` -/
theorem isArtificialSinkBlock_self (sfx : String) :
    (Tid.artificialSinkBlock sfx).isArtificialSinkBlock sfx = true := by
  simp [Tid.artificialSinkBlock, Tid.isArtificialSinkBlock, Tid.hasIdSuffix, endsWith_append]

theorem blkAll_sinkBlk (sfx : String) : blkAll (artificialSinkBlk sfx) = [Tid.artificialSinkBlock sfx] := rfl

/-- **Pass 5** (`retarget_non_returning_calls_to_artificial_sink`) turns `Inv4` into `WF`. -/
theorem pass5_wf (progTid : Tid) (p q : Program) (H : TidDiscipline progTid p) (I : Inv4 progTid p q) :
    WF progTid p (retargetNonReturning q) := by
  have hU : (allTidsB q).Nodup := (List.nodup_cons.mp I.nodup).2
  generalize hnr : nonReturningSubs q = nr
  have hq5 : retargetNonReturning q = { q with subs := q.subs.map (retargetSub q nr) } := by
    simp [retargetNonReturning, hnr]
  have hsb : Tid.artificialSinkBlock "" ∈ baseTids p := List.mem_cons_of_mem _ (List.mem_cons_self ..)
  have fresh : ∀ s ∈ q.subs, ∀ t0 ∈ baseTids p, suf s t0 ∉ progTid :: baseTids p :=
    fun s hs t0 ht0 => H.suffixFresh t0 ht0 s.tid (I.subsBase s hs)
  have hsinkEq : ∀ s : Term Sub, Tid.artificialSinkBlock (idSuffix s) = suf s (Tid.artificialSinkBlock "") :=
    fun s => (sinkBlock_suffix _).symm
  -- a TID of `s` that looks like the sink of `s` is the sink of `s`
  have sinkExact : ∀ s ∈ q.subs, ∀ t ∈ subTidsB s, t.isArtificialSinkBlock (idSuffix s) = true →
      t = Tid.artificialSinkBlock (idSuffix s) := by
    intro s hs t ht hlike
    rcases I.form s hs t ht with h | ⟨t0, ht0, rfl⟩
    · have := (H.sinkLike t h s.tid (I.subsBase s hs)).1
      rw [show sfxOf s.tid = idSuffix s from rfl, hlike] at this
      exact absurd this (by simp)
    · have := (H.sinkLike t0 ht0 s.tid (I.subsBase s hs)).2 hlike
      rw [this, hsinkEq]
  -- shape of the TIDs of a sub after the pass
  have hG : ∀ s ∈ q.subs, subTidsB (retargetSub q nr s) = subTidsB s ∨
      (subTidsB (retargetSub q nr s) = subTidsB s ++ [Tid.artificialSinkBlock (idSuffix s)] ∧
        Tid.artificialSinkBlock (idSuffix s) ∉ subTidsB s) := by
    intro s hs
    cases hsink : s.tid.isArtificialSinkSub with
    | true => rw [retargetSub_blocks_sink q nr s hsink]; exact .inl rfl
    | false =>
      rcases retargetSub_blocks q nr s hsink with h | ⟨h, _, hno⟩
      · left
        simp only [subTidsB, retargetSub_tid, h, List.flatMap_map, retargetBlk_blkAll]
      · right
        refine ⟨?_, ?_⟩
        · simp only [subTidsB, retargetSub_tid, h, List.flatMap_map, retargetBlk_blkAll, List.flatMap_append,
            List.flatMap_cons, List.flatMap_nil, blkAll_sinkBlk, List.append_nil, List.cons_append]
        · intro hmem
          have := I.sinkClone s hs hmem
          obtain ⟨b, hb, e⟩ := List.mem_map.mp this
          have h1 := hno b hb
          rw [e, isArtificialSinkBlock_self] at h1
          exact absurd h1 (by simp)
  have hallB : allTidsB (retargetNonReturning q) = q.subs.flatMap (fun s => subTidsB (retargetSub q nr s)) := by
    rw [hq5]; simp only [allTidsB, List.flatMap_map]
  have hmemG : ∀ s ∈ q.subs, ∀ x ∈ subTidsB (retargetSub q nr s),
      x ∈ subTidsB s ∨ x = suf s (Tid.artificialSinkBlock "") := by
    intro s hs x hx
    rcases hG s hs with h | ⟨h, _⟩
    · rw [h] at hx; exact .inl hx
    · rw [h] at hx
      rcases List.mem_append.mp hx with hx | hx
      · exact .inl hx
      · simp only [List.mem_singleton] at hx; exact .inr (hx.trans (hsinkEq s))
  have htids5 : tids (retargetNonReturning q).subs = tids q.subs := by
    rw [hq5]; simp [tids, List.map_map, Function.comp_def, retargetSub_tid]
  have hext5 : (retargetNonReturning q).externSymbols = q.externSymbols := by rw [hq5]
  have hsubTidsNodup : (tids q.subs).Nodup := (subTids_sublist_all q).nodup hU
  refine ⟨?_, ?_, ?_, ?_, ?_, ?_⟩
  · -- unique
    refine ((allTidsB_perm _).cons progTid).nodup_iff.mp ?_
    rw [hallB]
    refine List.nodup_cons.mpr ⟨?_, nodup_flatMap_of ?_ ?_⟩
    · intro h
      obtain ⟨s, hs, hx⟩ := List.mem_flatMap.mp h
      rcases hmemG s hs _ hx with hx | hx
      · exact (List.nodup_cons.mp I.nodup).1 (List.mem_flatMap.mpr ⟨s, hs, hx⟩)
      · exact fresh s hs _ hsb (hx ▸ List.mem_cons_self ..)
    · intro s hs
      rcases hG s hs with h | ⟨h, hn⟩
      · rw [h]; exact subTidsB_nodup hU hs
      · rw [h]
        refine List.nodup_append.mpr ⟨subTidsB_nodup hU hs, by simp, ?_⟩
        intro a ha b hb hab
        simp only [List.mem_singleton] at hb
        subst hab; subst hb; exact hn ha
    · have hp1 := pairwise_of_nodup_flatMap hU
      have hp2 : q.subs.Pairwise (fun a b => a.tid ≠ b.tid) := by
        have := hsubTidsNodup
        unfold List.Nodup tids at this
        exact List.pairwise_map.mp this
      refine (hp1.and hp2).imp_of_mem ?_
      intro a b ha hb ⟨hd, hne⟩ x hxa hxb
      have hcollide : ∀ t0 ∈ baseTids p, ∀ t0' ∈ baseTids p, suf a t0 = suf b t0' → False := by
        intro t0 ht0 t0' ht0' e
        have hid := H.suffixInj t0 ht0 t0' ht0' a.tid (I.subsBase a ha) b.tid (I.subsBase b hb) e
        exact hne (H.subIds _ (I.subsBase a ha) _ (I.subsBase b hb) hid)
      rcases hmemG a ha x hxa with hxa | hxa <;> rcases hmemG b hb x hxb with hxb | hxb
      · exact hd x hxa hxb
      · -- x ∈ subTidsB a and x = sink of b
        rcases I.form a ha x hxa with h | ⟨t0, ht0, e⟩
        · exact fresh b hb _ hsb (hxb ▸ List.mem_cons_of_mem _ h)
        · exact hcollide t0 ht0 _ hsb (e.symm.trans hxb)
      · rcases I.form b hb x hxb with h | ⟨t0, ht0, e⟩
        · exact fresh a ha _ hsb (hxa ▸ List.mem_cons_of_mem _ h)
        · exact hcollide _ hsb t0 ht0 (hxa.symm.trans e)
      · exact hcollide _ hsb _ hsb (hxa.symm.trans hxb)
  · -- entry
    intro s hs
    obtain ⟨s', hs', e1, e2⟩ := I.entry s hs
    refine ⟨retargetSub q nr s', ?_, (retargetSub_tid q nr s').trans e1, (retargetSub_entry q nr s').trans e2⟩
    rw [hq5]; exact List.mem_map.mpr ⟨s', hs', rfl⟩
  · -- localTargets
    intro s5 hs5 b5 hb5 t ht
    rw [hq5] at hs5
    obtain ⟨s, hs, rfl⟩ := List.mem_map.mp hs5
    cases hsink : s.tid.isArtificialSinkSub with
    | true =>
      rw [retargetSub_blocks_sink q nr s hsink] at hb5 ⊢
      exact I.locals s hs b5 hb5 t ht
    | false =>
      have hold : ∀ b ∈ s.term.blocks, ∀ t ∈ succTids b, t ∈ tids (s.term.blocks.map (retargetBlk q nr (idSuffix s))) := by
        intro b hb t ht
        have := I.locals s hs b hb t ht
        simpa [tids, List.map_map, Function.comp_def, retargetBlk_tid] using this
      rcases retargetSub_blocks q nr s hsink with h | ⟨h, hflag, hno⟩
      · rw [h] at hb5 ⊢
        obtain ⟨b, hb, rfl⟩ := List.mem_map.mp hb5
        rcases retargetBlk_succ q nr (idSuffix s) b t ht with h1 | ⟨h1, h2⟩
        · exact hold b hb t h1
        · -- a call was retargeted, so the sink block already existed: contradiction-free case
          -- the sub has an artificial sink (otherwise one would have been appended)
          have hflag : retargeted q nr s = true := List.any_eq_true.mpr ⟨b, hb, h2⟩
          -- unfold once more to see that `hasArtificialSink` was true
          have hhas : ∃ b0 ∈ s.term.blocks, b0.tid.isArtificialSinkBlock (idSuffix s) = true := by
            have hb := h
            unfold retargetSub at hb
            simp only [hsink, Bool.false_eq_true, if_false] at hb
            rw [show (s.term.blocks.any fun b => b.term.jmps.any fun j => shouldRetarget q nr (idSuffix s) j.term) = true
              from hflag] at hb
            simp only [if_true] at hb
            unfold addArtificialSinkBlk at hb
            split at hb
            · next hh =>
              simp only [hasArtificialSink, mapBlocks, List.any_map, List.any_eq_true] at hh
              obtain ⟨b0, hb0, e⟩ := hh
              exact ⟨b0, hb0, by simpa [idSuffix] using e⟩
            · simp only [mapBlocks] at hb
              have := congrArg List.length hb
              simp at this
          obtain ⟨b0, hb0, e⟩ := hhas
          have := sinkExact s hs b0.tid (mem_subTidsB_of_blk hb0 (List.mem_cons_self ..)) e
          rw [h1, ← this]
          exact List.mem_map.mpr ⟨retargetBlk q nr (idSuffix s) b0, List.mem_map.mpr ⟨b0, hb0, rfl⟩, rfl⟩
      · rw [h] at hb5 ⊢
        rcases List.mem_append.mp hb5 with hb5 | hb5
        · obtain ⟨b, hb, rfl⟩ := List.mem_map.mp hb5
          rcases retargetBlk_succ q nr (idSuffix s) b t ht with h1 | ⟨h1, _⟩
          · simp only [tids, List.map_append, List.mem_append]
            exact .inl (hold b hb t h1)
          · rw [h1]; simp [tids, artificialSinkBlk]
        · simp only [List.mem_singleton] at hb5
          subst hb5
          simp [succTids, artificialSinkBlk] at ht
  · -- callTargets
    intro s5 hs5 b5 hb5 t ht
    rw [htids5]
    show t ∈ tids q.subs ∨ t ∈ (retargetNonReturning q).externSymbols.map (·.tid)
    rw [hext5]
    rw [hq5] at hs5
    obtain ⟨s, hs, rfl⟩ := List.mem_map.mp hs5
    cases hsink : s.tid.isArtificialSinkSub with
    | true =>
      rw [retargetSub_blocks_sink q nr s hsink] at hb5
      exact I.calls s hs b5 hb5 t ht
    | false =>
      have hb5' : b5 ∈ s.term.blocks.map (retargetBlk q nr (idSuffix s)) ∨ b5 = artificialSinkBlk (idSuffix s) := by
        rcases retargetSub_blocks q nr s hsink with h | ⟨h, _, _⟩
        · rw [h] at hb5; exact .inl hb5
        · rw [h] at hb5
          rcases List.mem_append.mp hb5 with h | h
          · exact .inl h
          · exact .inr (by simpa using h)
      rcases hb5' with h | rfl
      · obtain ⟨b, hb, rfl⟩ := List.mem_map.mp h
        rw [retargetBlk_call] at ht
        exact I.calls s hs b hb t ht
      · simp [callTargets, artificialSinkBlk] at ht
  · -- noReturn
    intro s5 hs5 hns b5 hb5 j5 hj5
    have hnr5 : nonReturningSubs (retargetNonReturning q) = nr := by
      rw [hq5, nonReturningSubs_retarget, hnr]
    have hcnr : ∀ tgt, calleeNonReturning (retargetNonReturning q) (nonReturningSubs (retargetNonReturning q)) tgt =
        calleeNonReturning q nr tgt := by
      intro tgt
      rw [hnr5]
      simp only [calleeNonReturning, findExtern, hext5]
    rw [hq5] at hs5
    obtain ⟨s, hs, rfl⟩ := List.mem_map.mp hs5
    rw [retargetSub_tid] at hns
    have hb5' : b5 ∈ s.term.blocks.map (retargetBlk q nr (idSuffix s)) ∨ b5 = artificialSinkBlk (idSuffix s) := by
      rcases retargetSub_blocks q nr s hns with h | ⟨h, _, _⟩
      · rw [h] at hb5; exact .inl hb5
      · rw [h] at hb5
        rcases List.mem_append.mp hb5 with h | h
        · exact .inl h
        · exact .inr (by simpa using h)
    rcases hb5' with h | rfl
    · obtain ⟨b, hb, rfl⟩ := List.mem_map.mp h
      simp only [retargetBlk, List.mem_map] at hj5
      obtain ⟨j, hj, rfl⟩ := hj5
      rcases retargetCall_cases q nr (idSuffix s) j with h0 | ⟨tgt, r, h1, h2, h3⟩
      · rw [h0]
        -- unchanged jump
        match hjt : j.term with
        | .Call tgt (some r) =>
          simp only [NoRetOk, idSuffix_retargetSub]
          intro hc
          rw [hcnr] at hc
          -- not retargeted although the callee does not return: it already returned to the sink
          have hnot : shouldRetarget q nr (idSuffix s) j.term = false := by
            cases hsr : shouldRetarget q nr (idSuffix s) j.term with
            | false => rfl
            | true =>
              exfalso
              unfold retargetCall at h0
              rw [if_pos hsr, hjt] at h0
              have h4 := congrArg (·.term) h0
              simp only [hjt, Jmp.Call.injEq, Option.some.injEq, true_and] at h4
              rw [hjt] at hsr
              simp only [shouldRetarget, Bool.and_eq_true, Bool.not_eq_true'] at hsr
              rw [← h4, isArtificialSinkBlock_self] at hsr
              exact absurd hsr.1 (by simp)
          rw [hjt] at hnot
          simp only [shouldRetarget, hc, Bool.and_true, Bool.not_eq_false'] at hnot
          have hr : r ∈ succTids b := by
            simp only [succTids, List.mem_append, List.mem_filterMap]
            exact .inl ⟨j, hj, by simp [hjt, Jmp.localTarget?]⟩
          have hrb := I.locals s hs b hb r hr
          obtain ⟨br, hbr, e⟩ := List.mem_map.mp hrb
          exact sinkExact s hs r (e ▸ mem_subTidsB_of_blk hbr (List.mem_cons_self ..)) hnot
        | .Call _ none | .Branch _ | .BranchInd _ | .CBranch _ _ | .CallInd _ _ | .Return _ | .CallOther _ _ =>
          simp [NoRetOk]
      · rw [h3]
        simp only [NoRetOk, idSuffix_retargetSub]
        intro _; trivial
    · simp [artificialSinkBlk] at hj5
  · -- shape
    intro hsh s5 hs5 b5 hb5
    rw [hq5] at hs5
    obtain ⟨s, hs, rfl⟩ := List.mem_map.mp hs5
    cases hsink : s.tid.isArtificialSinkSub with
    | true =>
      rw [retargetSub_blocks_sink q nr s hsink] at hb5
      exact I.shape hsh s hs b5 hb5
    | false =>
      have hb5' : b5 ∈ s.term.blocks.map (retargetBlk q nr (idSuffix s)) ∨ b5 = artificialSinkBlk (idSuffix s) := by
        rcases retargetSub_blocks q nr s hsink with h | ⟨h, _, _⟩
        · rw [h] at hb5; exact .inl hb5
        · rw [h] at hb5
          rcases List.mem_append.mp hb5 with h | h
          · exact .inl h
          · exact .inr (by simpa using h)
      rcases hb5' with h | rfl
      · obtain ⟨b, hb, rfl⟩ := List.mem_map.mp h
        exact shapeOk_of_map (retargetCall q nr (idSuffix s)) (retargetCall_isCBranch q nr _) rfl
          (I.shape hsh s hs b hb)
      · rfl

end CweModel.C09
