/-
C09 — Basic normalization establishes the IR invariants analyses rely on.

Property (full statement): for every program as the P-Code extractor may emit it (jumps and calls to
nonexistent targets, non-entry blocks shared between functions, duplicate identifiers, calls to
non-returning functions, empty functions), basic normalization yields a program in which all term
identifiers are unique, every function still starts with its original entry block, every direct
jump, call and return target exists, and every intraprocedural target is a block of the same
function. Calls to non-returning functions return to the caller's artificial sink, and building the
control flow graph of the result never fails.

What is proved here, for ALL programs `p` (no bound on the number of functions, blocks or terms):
`TidDiscipline progTid p → WF progTid p (normalizeBasic progTid p)` and no panic, where
`TidDiscipline` makes "as the P-Code extractor may emit it" precise (TID format discipline: sub TIDs
are first occurrences, entry blocks are first occurrences, jump targets are never function/extern
TIDs and call targets never block TIDs, `NoSuffixCollision`); all of it is decidable and evaluated
by the driver on every generated program. The proof goes pass by pass:
`stage3_inv` (passes 1–3, `P1.lean`), `pass4_inv` (block duplication, `P4.lean`, uses the DFS
theorems of `Base/Reach`), `pass5_wf` (`P5.lean`).
"Building the control flow graph never fails": `WF` implies the precondition `Cfg.CfgReady` /
`Cfg.WellFormedNormalized` of the CFG model (`Base/Cfg.lean`), given the jump-shape assumption of
`graph.rs` on the raw blocks; with `C08.buildCfg_spec` this gives `normalizeBasic_cfg_ok`: the model of
`get_program_cfg` returns a graph on the normalised program. The real `get_program_cfg` is run on
every normalised program by the harness.
-/
import CweModel.C09.P5
import CweModel.Base.Cfg
import CweModel.C08.Props
open CweModel.IR CweModel.Reach
namespace CweModel.C09

/-- **C09-wf.** For every raw program obeying the TID discipline, `normalize_basic` yields a
program with unique TIDs, unchanged entry blocks, existing and function-local intraprocedural
targets, existing call targets, and non-returning calls returning to the caller's artificial sink. -/
theorem normalizeBasic_wf (progTid : Tid) (p : Program) (H : TidDiscipline progTid p) :
    WF progTid p (normalizeBasic progTid p) :=
  pass5_wf progTid p _ H (pass4_inv progTid p _ H (stage3_inv progTid p H))

/-- **C09-no-panic.** Under the same hypotheses neither `panic!("Duplicate of TID …")` in
`remove_duplicate_tids` nor the `unwrap()` in `duplicate_blocks_contained_in_several_subs` fires. -/
theorem normalizeBasic_no_panic (progTid : Tid) (p : Program) (H : TidDiscipline progTid p) :
    normalizePanics progTid p = false := by
  have I := stage3_inv progTid p H
  simp only [normalizePanics, H.noDupSub, Bool.false_or]
  generalize stage3 progTid p = q at I
  unfold clonePanics
  rw [List.any_eq_false]
  intro s hs
  rw [Bool.not_eq_true, List.any_eq_false]
  intro t ht
  have hb := reach_blocks q I.locals s hs t ht
  obtain ⟨v, hv⟩ := lookupLast_isSome_of_mem (l := blockList q) (by rw [blockList_keys]; exact hb)
  simp [hv]

/-- **C09-spec-exec.** The executable check used by the driver decides `WF`. -/
theorem wfCheck_none_iff (progTid : Tid) (p q : Program) : wfCheck progTid p q = none ↔ WF progTid p q := by
  unfold wfCheck
  constructor
  · intro h
    split at h; · simp at h
    next h1 =>
    split at h; · simp at h
    next h2 =>
    split at h; · split at h <;> simp at h
    next h3 =>
    split at h; · simp at h
    next h4 =>
    split at h; · simp at h
    next h5 =>
    split at h; · simp at h
    next h6 =>
    exact ⟨Decidable.not_not.mp h1, Decidable.not_not.mp h2, Decidable.not_not.mp h3, Decidable.not_not.mp h4,
      Decidable.not_not.mp h5, Decidable.not_not.mp h6⟩
  · intro w
    rw [if_neg (not_not_intro w.unique), if_neg (not_not_intro w.entry), if_neg (not_not_intro w.localTargets),
      if_neg (not_not_intro w.callTargets), if_neg (not_not_intro w.noReturn), if_neg (not_not_intro w.shape)]

/-! ### CFG construction does not fail -/

theorem jmpShapeOk_eq (b : Term Blk) : Cfg.jmpShapeOk b = shapeOk b := by
  unfold Cfg.jmpShapeOk shapeOk
  split <;> simp_all [Cfg.isCBranch, Jmp.isCBranch]
  next j _ _ => cases j.term <;> rfl

theorem allTidsB_eq_cfg (q : Program) : Cfg.allTids q = allTidsB q := rfl

theorem mem_succ_of_intra {b : Term Blk} {j : Term Jmp} (hj : j ∈ b.term.jmps) {t : Tid}
    (ht : t ∈ Cfg.intraTargets j) : t ∈ succTids b := by
  refine List.mem_append_left _ (List.mem_filterMap.mpr ⟨j, hj, ?_⟩)
  unfold Cfg.intraTargets at ht
  split at ht <;> simp_all [Jmp.localTarget?]

/-- **C09-cfg-ready.** A well-formed normalised program whose raw blocks had the jump shape
`graph.rs` assumes satisfies `Cfg.WellFormedNormalized`, the precondition under which the model of
`get_program_cfg` (`Base/Cfg.lean`) is shown not to fail. -/
theorem wf_wellFormedNormalized (progTid : Tid) (p q : Program) (w : WF progTid p q)
    (hsh : ∀ s ∈ p.subs, ∀ b ∈ s.term.blocks, shapeOk b = true) : Cfg.WellFormedNormalized q := by
  refine ⟨?_, ?_, ?_, ?_, ?_⟩
  · rw [allTidsB_eq_cfg]
    exact (allTidsB_perm q).nodup_iff.mpr (List.nodup_cons.mp w.unique).2
  · intro s hs b hb; rw [jmpShapeOk_eq]; exact w.shape hsh s hs b hb
  · intro s hs b hb j hj t ht
    obtain ⟨tb, htb, e⟩ := List.mem_map.mp (w.localTargets s hs b hb t (mem_succ_of_intra hj ht))
    exact ⟨tb, htb, e⟩
  · intro s hs b hb t ht
    obtain ⟨tb, htb, e⟩ := List.mem_map.mp (w.localTargets s hs b hb t (List.mem_append_right _ ht))
    exact ⟨tb, htb, e⟩
  · intro s hs b hb j hj t ht
    have : t ∈ callTargets b := by
      refine List.mem_filterMap.mpr ⟨j, hj, ?_⟩
      unfold Cfg.callTargets at ht
      split at ht <;> simp_all [Jmp.callTarget?]
    rcases w.callTargets s hs b hb t this with h | h
    · obtain ⟨s', hs', e⟩ := List.mem_map.mp h
      exact .inr ⟨s', hs', e⟩
    · left
      simp only [Cfg.isExtern, Cfg.externTids, List.any_eq_true, decide_eq_true_eq]
      exact ⟨t, h, rfl⟩

theorem wf_cfgReady (progTid : Tid) (p q : Program) (w : WF progTid p q)
    (hsh : ∀ s ∈ p.subs, ∀ b ∈ s.term.blocks, shapeOk b = true) : Cfg.CfgReady q := by
  have n := wf_wellFormedNormalized progTid p q w hsh
  have hU : (allTidsB q).Nodup := n.tidsUnique
  refine ⟨(subTids_sublist_all q).nodup hU, ?_, n.shape, n.targets, n.hints⟩
  intro s hs
  exact ((tids_sublist_blocksAll _).trans (List.sublist_cons_self _ _)).nodup (subTidsB_nodup hU hs)

/-- **C09-cfg.** `normalize_basic` establishes the precondition of CFG construction. -/
theorem normalizeBasic_cfgReady (progTid : Tid) (p : Program) (H : TidDiscipline progTid p)
    (hsh : ∀ s ∈ p.subs, ∀ b ∈ s.term.blocks, shapeOk b = true) :
    Cfg.CfgReady (normalizeBasic progTid p) ∧ Cfg.WellFormedNormalized (normalizeBasic progTid p) :=
  ⟨wf_cfgReady progTid p _ (normalizeBasic_wf progTid p H) hsh,
   wf_wellFormedNormalized progTid p _ (normalizeBasic_wf progTid p H) hsh⟩

/-- **C09-cfg-ok.** Building the control flow graph of the normalised program does not fail (model of
`get_program_cfg` in `Base/Cfg.lean`, success under `CfgReady` by `C08.buildCfg_spec`). -/
theorem normalizeBasic_cfg_ok (progTid : Tid) (p : Program) (H : TidDiscipline progTid p)
    (hsh : ∀ s ∈ p.subs, ∀ b ∈ s.term.blocks, shapeOk b = true) :
    ∃ g, Cfg.buildCfgE (normalizeBasic progTid p) = .ok g := by
  obtain ⟨g, hg, _⟩ := C08.buildCfg_spec (normalizeBasic_cfgReady progTid p H hsh).1
  exact ⟨g, hg⟩

/-! ### Non-vacuity: the hypotheses hold on a concrete raw program with every kind of defect

`Tid::is_artificial_sink_block` uses `String.startsWith/endsWith`, which do not reduce in the
kernel; `looksLikeSink` is its list form (`String.toList` of literals does reduce). -/

theorem endsWith_iff' (s pat : String) : s.endsWith pat = true ↔ pat.toList <:+ s.toList := by
  unfold String.endsWith
  rw [String.Slice.endsWith_string_iff]
  simp

theorem isArtificialSinkBlock_iff (t : Tid) (sfx : String) : t.isArtificialSinkBlock sfx = true ↔
    (artificialSinkBlockPrefix.toList <+: t.id.toList ∧ sfx.toList <:+ t.id.toList ∧ t.address = "UNKNOWN") := by
  unfold Tid.isArtificialSinkBlock Tid.hasIdSuffix
  rw [Bool.and_eq_true, Bool.and_eq_true, String.startsWith_string_iff, endsWith_iff', beq_iff_eq, and_assoc]

def looksLikeSink (t : Tid) (sfx : String) : Prop :=
  artificialSinkBlockPrefix.toList <+: t.id.toList ∧ sfx.toList <:+ t.id.toList ∧ t.address = "UNKNOWN"

instance (t : Tid) (sfx : String) : Decidable (looksLikeSink t sfx) := by unfold looksLikeSink; infer_instance

theorem sinkLike_of_lists (p : Program)
    (h : ∀ t ∈ baseTids p, ∀ s ∈ baseSubs p, ¬ looksLikeSink t (sfxOf s) ∧
      (looksLikeSink (t.withIdSuffix (sfxOf s)) (sfxOf s) → t = Tid.artificialSinkBlock "")) :
    ∀ t ∈ baseTids p, ∀ s ∈ baseSubs p,
      t.isArtificialSinkBlock (sfxOf s) = false ∧
      ((t.withIdSuffix (sfxOf s)).isArtificialSinkBlock (sfxOf s) = true → t = Tid.artificialSinkBlock "") := by
  intro t ht s hs
  have := h t ht s hs
  refine ⟨?_, fun hh => this.2 ((isArtificialSinkBlock_iff _ _).mp hh)⟩
  cases hb : t.isArtificialSinkBlock (sfxOf s) with
  | false => rfl
  | true => exact absurd ((isArtificialSinkBlock_iff _ _).mp hb) this.1

section Example
def tB (id : String) : Tid := { id := id, address := "a" }
def jm (id : String) (j : Jmp) : Term Jmp := { tid := tB id, term := j }
def bk (id : String) (jmps : List (Term Jmp)) : Term Blk := { tid := tB id, term := { defs := [], jmps := jmps } }
def sb (id : String) (blocks : List (Term Blk)) : Term Sub :=
  { tid := tB id, term := { name := id, blocks := blocks } }
def ext0 : ExternSymbol where
  tid := tB "sub_exit"
  addresses := []
  name := "exit"
  callingConvention := none
  parameters := []
  returnValues := []
  noReturn := true
  hasVarArgs := false

/-- `f1`: `b1` jumps to a nonexistent block, else to `b2` (returns). `f2`: `b3` calls the non-returning
extern `exit` with the FOREIGN block `b2` as return site and carries a duplicate of the TID `i3`. -/
def p0 : Program :=
  { subs := [sb "f1" [bk "b1" [jm "i1" (.CBranch (tB "b9") (.Var ⟨"ZF", 1, false⟩)), jm "i2" (.Branch (tB "b2"))],
                      bk "b2" [jm "i3" (.Return (.Var ⟨"RAX", 8, false⟩))]],
             sb "f2" [{ tid := tB "b3", term := { defs := [{ tid := tB "i3", term := .Assign ⟨"RAX", 8, false⟩ (.Const 8 0) }],
                                                  jmps := [jm "i4" (.Call (tB "sub_exit") (some (tB "b2")))] } }]],
    externSymbols := [ext0], entryPoints := [] }

theorem p0_kinds : (∀ s ∈ p0.subs, ∀ b ∈ s.term.blocks, ∀ t ∈ succTids b, t ∉ baseSubs p0 ∧ t ∉ externTids p0) ∧
    (∀ s ∈ p0.subs, ∀ b ∈ s.term.blocks, ∀ t ∈ callTargets b, t ∉ blockTids p0 ∧ t ≠ Tid.artificialSinkBlock "") := by
  decide
set_option maxRecDepth 100000 in
theorem p0_suffixFresh : ∀ t ∈ baseTids p0, ∀ s ∈ baseSubs p0, t.withIdSuffix (sfxOf s) ∉ tB "prog" :: baseTids p0 := by
  decide
set_option maxRecDepth 100000 in
theorem p0_suffixInj : ∀ t ∈ baseTids p0, ∀ t' ∈ baseTids p0, ∀ s ∈ baseSubs p0, ∀ s' ∈ baseSubs p0,
    t.withIdSuffix (sfxOf s) = t'.withIdSuffix (sfxOf s') → s.id = s'.id := by
  decide
set_option maxRecDepth 100000 in
theorem p0_sinkLike : ∀ t ∈ baseTids p0, ∀ s ∈ baseSubs p0, ¬ looksLikeSink t (sfxOf s) ∧
    (looksLikeSink (t.withIdSuffix (sfxOf s)) (sfxOf s) → t = Tid.artificialSinkBlock "") := by
  decide

theorem p0_discipline : TidDiscipline (tB "prog") p0 :=
  ⟨by decide, by decide, by decide, p0_kinds.1, p0_kinds.2, by decide, p0_suffixFresh, p0_suffixInj,
   sinkLike_of_lists p0 p0_sinkLike⟩

example : WF (tB "prog") p0 (normalizeBasic (tB "prog") p0) := normalizeBasic_wf _ _ p0_discipline
example : Cfg.CfgReady (normalizeBasic (tB "prog") p0) := (normalizeBasic_cfgReady _ _ p0_discipline (by decide)).1

/-- after pass 4: the dangling jump goes to (the clone of) the sink block in `f1`, `b2` is cloned into `f2`
with its jump `i3` as `i3_f2` (the duplicate def `i3` in `b3` was removed by pass 1) and the call's return
site is re-suffixed. Pass 5 then reroutes the return of the call to `exit` to `Artificial Sink Block_f2`
(`#eval` shows it; `is_artificial_sink_block` does not reduce in the kernel). -/
example : (makeBlockToSubUnique (stage3 (tB "prog") p0)).subs.map
      (fun s => (s.tid.id, s.term.blocks.map
        (fun b => (b.tid.id, (succTids b).map (·.id), blkContentTids b |>.map (·.id))))) =
    [("Artificial Sink Sub", [("Artificial Sink Block", [], [])]),
     ("f1", [("b1", ["Artificial Sink Block_f1", "b2"], ["i1", "i2"]), ("b2", [], ["i3"]),
             ("Artificial Sink Block_f1", [], [])]),
     ("f2", [("b3", ["b2_f2"], ["i4"]), ("b2_f2", [], ["i3_f2"])])] := by decide

/-- the hypotheses are needed: with a shared ENTRY block (`blk_b` is the entry of `sub_b` and listed in
the earlier `sub_a`) the entry of `sub_b` is removed by pass 1 -/
def pBad : Program :=
  { subs := [sb "sub_a" [bk "blk_a" [], bk "blk_b" []], sb "sub_b" [bk "blk_b" [], bk "blk_c" []]],
    externSymbols := [], entryPoints := [] }
example : ¬ EntryFresh [tB "prog"] pBad.subs := by decide
example : wfCheck (tB "prog") pBad (normalizeBasic (tB "prog") pBad) = some "entry" := by decide
end Example

end CweModel.C09
