/-
C09 — lemmas about passes 1–3 of `normalize_basic`
(`remove_duplicate_tids`, `add_artifical_sink`, `remove_references_to_nonexisting_tids`).
-/
import CweModel.C09.Model
open CweModel.IR CweModel.Reach
namespace CweModel.C09

/-! ### `keep` -/
theorem keep_sublist {α : Type} (known : List Tid) (ts : List (Term α)) : (keep known ts).Sublist ts := by
  induction ts generalizing known with
  | nil => simp [keep]
  | cons t ts ih =>
    simp only [keep]
    split
    · exact (ih known).cons _
    · exact (ih _).cons_cons _

theorem mem_of_mem_keep {α : Type} {known : List Tid} {ts : List (Term α)} {x : Term α}
    (h : x ∈ keep known ts) : x ∈ ts := (keep_sublist known ts).subset h

theorem keep_fresh {α : Type} (known : List Tid) (ts : List (Term α)) :
    ∀ t ∈ tids (keep known ts), t ∉ known := by
  induction ts generalizing known with
  | nil => simp [keep]
  | cons t ts ih =>
    simp only [keep]
    split
    · exact ih known
    · next hn =>
      intro x hx
      simp only [tids, List.map_cons, List.mem_cons] at hx
      rcases hx with rfl | hx
      · exact hn
      · exact fun hk => ih (t.tid :: known) x hx (List.mem_cons_of_mem _ hk)

theorem keep_nodup {α : Type} (known : List Tid) (ts : List (Term α)) : (tids (keep known ts)).Nodup := by
  induction ts generalizing known with
  | nil => simp [keep]
  | cons t ts ih =>
    simp only [keep]
    split
    · exact ih known
    · simp only [tids, List.map_cons, List.nodup_cons]
      exact ⟨fun h => keep_fresh (t.tid :: known) ts _ h (List.mem_cons_self ..), ih _⟩

theorem keep_head {α : Type} (known : List Tid) (t : Term α) (ts : List (Term α)) (h : t.tid ∉ known) :
    (keep known (t :: ts)).head? = some t := by
  simp [keep, h]

theorem keep_tids_subset {α : Type} (known : List Tid) (ts : List (Term α)) :
    ∀ t ∈ tids (keep known ts), t ∈ tids ts :=
  fun _ h => ((keep_sublist known ts).map _).subset h

/-! ### pass 1: one block -/

theorem dedupBlk_tid (known : List Tid) (b : Term Blk) : (dedupBlk known b).tid = b.tid := rfl

theorem dedupBlk_hints (known : List Tid) (b : Term Blk) :
    (dedupBlk known b).term.indirectJmpTargets = b.term.indirectJmpTargets := rfl

theorem dedupBlk_jmps_sublist (known : List Tid) (b : Term Blk) :
    (dedupBlk known b).term.jmps.Sublist b.term.jmps := keep_sublist _ _

theorem dedupBlk_content_subset (known : List Tid) (b : Term Blk) :
    ∀ t ∈ blkContentTids (dedupBlk known b), t ∈ blkContentTids b := by
  intro t ht
  simp only [blkContentTids, dedupBlk, List.mem_append] at ht ⊢
  rcases ht with h | h
  · exact .inl (keep_tids_subset _ _ _ h)
  · exact .inr (keep_tids_subset _ _ _ h)

theorem dedupBlk_content_fresh (known : List Tid) (b : Term Blk) :
    ∀ t ∈ blkContentTids (dedupBlk known b), t ∉ known := by
  intro t ht
  simp only [blkContentTids, dedupBlk, List.mem_append] at ht
  rcases ht with h | h
  · exact keep_fresh _ _ _ h
  · exact fun hk => keep_fresh _ _ _ h (List.mem_append_right _ hk)

theorem dedupBlk_content_nodup (known : List Tid) (b : Term Blk) :
    (blkContentTids (dedupBlk known b)).Nodup := by
  simp only [blkContentTids, dedupBlk]
  refine List.nodup_append.mpr ⟨keep_nodup _ _, keep_nodup _ _, ?_⟩
  intro a ha c hc hac
  subst hac
  exact keep_fresh _ _ _ hc (List.mem_append_left _ ha)

/-! ### pass 1: the blocks of one sub -/

theorem dedupContents_tids (known : List Tid) (bs : List (Term Blk)) :
    tids (dedupContents known bs) = tids bs := by
  induction bs generalizing known with
  | nil => rfl
  | cons b bs ih => simp [dedupContents, tids, dedupBlk_tid] at ih ⊢; exact ih _

theorem dedupContents_length (known : List Tid) (bs : List (Term Blk)) :
    (dedupContents known bs).length = bs.length := by
  have := congrArg List.length (dedupContents_tids known bs)
  simpa [tids] using this

theorem dedupContents_fresh (known : List Tid) (bs : List (Term Blk)) :
    ∀ t ∈ (dedupContents known bs).flatMap blkContentTids, t ∉ known := by
  induction bs generalizing known with
  | nil => simp [dedupContents]
  | cons b bs ih =>
    intro t ht
    simp only [dedupContents, List.flatMap_cons, List.mem_append] at ht
    rcases ht with h | h
    · exact dedupBlk_content_fresh _ _ _ h
    · exact fun hk => ih _ t h (List.mem_append_right _ hk)

theorem dedupContents_nodup (known : List Tid) (bs : List (Term Blk)) :
    ((dedupContents known bs).flatMap blkContentTids).Nodup := by
  induction bs generalizing known with
  | nil => simp [dedupContents]
  | cons b bs ih =>
    simp only [dedupContents, List.flatMap_cons]
    refine List.nodup_append.mpr ⟨dedupBlk_content_nodup _ _, ih _, ?_⟩
    intro a ha c hc hac
    subst hac
    exact dedupContents_fresh _ _ _ hc (List.mem_append_left _ ha)

/-- every block of the result is `dedupBlk k b` for a block `b` of the input -/
theorem mem_dedupContents {known : List Tid} {bs : List (Term Blk)} {b' : Term Blk}
    (h : b' ∈ dedupContents known bs) : ∃ k, ∃ b ∈ bs, b' = dedupBlk k b := by
  induction bs generalizing known with
  | nil => simp [dedupContents] at h
  | cons b bs ih =>
    simp only [dedupContents, List.mem_cons] at h
    rcases h with rfl | h
    · exact ⟨known, b, List.mem_cons_self .., rfl⟩
    · obtain ⟨k, b0, hb0, e⟩ := ih h
      exact ⟨k, b0, List.mem_cons_of_mem _ hb0, e⟩

theorem dedupContents_content_subset (known : List Tid) (bs : List (Term Blk)) :
    ∀ t ∈ (dedupContents known bs).flatMap blkContentTids, t ∈ bs.flatMap blkContentTids := by
  intro t ht
  obtain ⟨b', hb', htb⟩ := List.mem_flatMap.mp ht
  obtain ⟨k, b, hb, rfl⟩ := mem_dedupContents hb'
  exact List.mem_flatMap.mpr ⟨b, hb, dedupBlk_content_subset _ _ _ htb⟩

theorem dedupContents_head (known : List Tid) (bs : List (Term Blk)) :
    (dedupContents known bs).head?.map (·.tid) = bs.head?.map (·.tid) := by
  cases bs <;> simp [dedupContents, dedupBlk_tid]

/-! ### pass 1: one sub -/

theorem dedupSub_tid (known : List Tid) (s : Term Sub) : (dedupSub known s).tid = s.tid := rfl

/-- every block of the result is `dedupBlk k b` for a block `b` of the input -/
theorem mem_dedupSub_blocks {known : List Tid} {s : Term Sub} {b' : Term Blk}
    (h : b' ∈ (dedupSub known s).term.blocks) : ∃ k, ∃ b ∈ s.term.blocks, b' = dedupBlk k b := by
  obtain ⟨k, b, hb, e⟩ := mem_dedupContents h
  exact ⟨k, b, mem_of_mem_keep hb, e⟩

theorem dedupSub_subTids_subset (known : List Tid) (s : Term Sub) :
    ∀ t ∈ subTids (dedupSub known s), t ∈ subTids s := by
  intro t ht
  simp only [subTids, dedupSub, List.mem_cons, List.mem_append, dedupContents_tids] at ht ⊢
  rcases ht with h | h | h
  · exact .inl h
  · exact .inr (.inl (keep_tids_subset _ _ _ h))
  · refine .inr (.inr ?_)
    have := dedupContents_content_subset _ _ _ h
    obtain ⟨b, hb, htb⟩ := List.mem_flatMap.mp this
    exact List.mem_flatMap.mpr ⟨b, mem_of_mem_keep hb, htb⟩

theorem dedupSub_fresh (known : List Tid) (s : Term Sub) (hs : s.tid ∉ known) :
    ∀ t ∈ subTids (dedupSub known s), t ∉ known := by
  intro t ht
  simp only [subTids, dedupSub, List.mem_cons, List.mem_append, dedupContents_tids] at ht
  rcases ht with rfl | h | h
  · exact hs
  · exact fun hk => keep_fresh _ _ _ h (List.mem_cons_of_mem _ hk)
  · exact fun hk => dedupContents_fresh _ _ _ h (List.mem_append_right _ (List.mem_cons_of_mem _ hk))

theorem dedupSub_nodup (known : List Tid) (s : Term Sub) : (subTids (dedupSub known s)).Nodup := by
  simp only [subTids, dedupSub, dedupContents_tids, List.nodup_cons, List.mem_append, not_or]
  refine ⟨⟨?_, ?_⟩, List.nodup_append.mpr ⟨keep_nodup _ _, dedupContents_nodup _ _, ?_⟩⟩
  · exact fun h => keep_fresh _ _ _ h (List.mem_cons_self ..)
  · exact fun h => dedupContents_fresh _ _ _ h (List.mem_append_right _ (List.mem_cons_self ..))
  · intro a ha c hc hac
    subst hac
    exact dedupContents_fresh _ _ _ hc (List.mem_append_left _ ha)

theorem dedupSub_entry (known : List Tid) (s : Term Sub)
    (h : match s.term.blocks with | b :: _ => b.tid ∉ s.tid :: known | [] => True) :
    entryTid (dedupSub known s) = entryTid s := by
  simp only [entryTid, dedupSub, dedupContents_head]
  cases hb : s.term.blocks with
  | nil => simp [keep]
  | cons b bs =>
    rw [hb] at h
    simp only at h
    rw [keep_head _ _ _ h]
    simp

/-! ### pass 1: all subs -/

theorem dedupSubs_tids (known : List Tid) (ss : List (Term Sub)) : tids (dedupSubs known ss) = tids ss := by
  induction ss generalizing known with
  | nil => rfl
  | cons s ss ih => simp [dedupSubs, tids, dedupSub_tid] at ih ⊢; exact ih _

theorem mem_dedupSubs {known : List Tid} {ss : List (Term Sub)} {s' : Term Sub}
    (h : s' ∈ dedupSubs known ss) : ∃ k, ∃ s ∈ ss, s' = dedupSub k s := by
  induction ss generalizing known with
  | nil => simp [dedupSubs] at h
  | cons s ss ih =>
    simp only [dedupSubs, List.mem_cons] at h
    rcases h with rfl | h
    · exact ⟨known, s, List.mem_cons_self .., rfl⟩
    · obtain ⟨k, s0, hs0, e⟩ := ih h
      exact ⟨k, s0, List.mem_cons_of_mem _ hs0, e⟩

theorem dedupSubs_fresh (known : List Tid) (ss : List (Term Sub)) (hp : dupSubPanic known ss = false) :
    ∀ t ∈ (dedupSubs known ss).flatMap subTids, t ∉ known := by
  induction ss generalizing known with
  | nil => simp [dedupSubs]
  | cons s ss ih =>
    simp only [dupSubPanic, Bool.or_eq_false_iff, decide_eq_false_iff_not] at hp
    intro t ht
    simp only [dedupSubs, List.flatMap_cons, List.mem_append] at ht
    rcases ht with h | h
    · exact dedupSub_fresh _ _ hp.1 _ h
    · exact fun hk => ih _ hp.2 t h (List.mem_append_right _ hk)

theorem dedupSubs_nodup (known : List Tid) (ss : List (Term Sub)) (hp : dupSubPanic known ss = false) :
    ((dedupSubs known ss).flatMap subTids).Nodup := by
  induction ss generalizing known with
  | nil => simp [dedupSubs]
  | cons s ss ih =>
    simp only [dupSubPanic, Bool.or_eq_false_iff, decide_eq_false_iff_not] at hp
    simp only [dedupSubs, List.flatMap_cons]
    refine List.nodup_append.mpr ⟨dedupSub_nodup _ _, ih _ hp.2, ?_⟩
    intro a ha c hc hac
    subst hac
    exact dedupSubs_fresh _ _ hp.2 _ hc (List.mem_append_left _ ha)

theorem dedupSubs_subset (known : List Tid) (ss : List (Term Sub)) :
    ∀ t ∈ (dedupSubs known ss).flatMap subTids, t ∈ ss.flatMap subTids := by
  intro t ht
  obtain ⟨s', hs', hts⟩ := List.mem_flatMap.mp ht
  obtain ⟨k, s, hs, rfl⟩ := mem_dedupSubs hs'
  exact List.mem_flatMap.mpr ⟨s, hs, dedupSub_subTids_subset _ _ _ hts⟩

theorem entryFresh_mono {K K' : List Tid} (h : ∀ t ∈ K', t ∈ K) (ss : List (Term Sub))
    (hf : EntryFresh K ss) : EntryFresh K' ss := by
  induction ss generalizing K K' with
  | nil => trivial
  | cons s ss ih =>
    simp only [EntryFresh] at hf ⊢
    refine ⟨?_, ih ?_ hf.2⟩
    · have h1 := hf.1
      cases hb : s.term.blocks with
      | nil => trivial
      | cons b bs =>
        rw [hb] at h1
        simp only [List.mem_cons, not_or] at h1 ⊢
        exact ⟨h1.1, fun hk => h1.2 (h _ hk)⟩
    · intro t ht
      rcases List.mem_append.mp ht with h1 | h1
      · exact List.mem_append_left _ h1
      · exact List.mem_append_right _ (h _ h1)

theorem dedupSubs_entry (known : List Tid) (ss : List (Term Sub)) (hf : EntryFresh known ss) :
    ∀ s ∈ ss, ∃ s' ∈ dedupSubs known ss, s'.tid = s.tid ∧ entryTid s' = entryTid s := by
  induction ss generalizing known with
  | nil => simp
  | cons s ss ih =>
    simp only [EntryFresh] at hf
    intro x hx
    rcases List.mem_cons.mp hx with rfl | hx
    · exact ⟨dedupSub known x, by simp [dedupSubs], rfl, dedupSub_entry _ _ hf.1⟩
    · have hf2 : EntryFresh (subTids (dedupSub known s) ++ known) ss := by
        refine entryFresh_mono ?_ ss hf.2
        intro t ht
        rcases List.mem_append.mp ht with h1 | h1
        · exact List.mem_append_left _ (dedupSub_subTids_subset _ _ _ h1)
        · exact List.mem_append_right _ h1
      obtain ⟨s', hs', e⟩ := ih _ hf2 x hx
      exact ⟨s', by simp only [dedupSubs]; exact List.mem_cons_of_mem _ hs', e⟩

/-! ### jump shape -/

theorem shapeOk_of_sublist {b b' : Term Blk} (h : b'.term.jmps.Sublist b.term.jmps) (hb : shapeOk b = true) :
    shapeOk b' = true := by
  unfold shapeOk at hb ⊢
  generalize b.term.jmps = l at h hb
  generalize b'.term.jmps = l' at h
  match l, hb with
  | [], _ => cases h; rfl
  | [_], _ =>
    cases h with
    | cons _ h => cases h; rfl
    | cons_cons _ h => cases h; rfl
  | [j, k], hb =>
    cases h with
    | cons _ h =>
      cases h with
      | cons _ h => cases h; rfl
      | cons_cons _ h => cases h; rfl
    | cons_cons _ h =>
      cases h with
      | cons _ h => cases h; rfl
      | cons_cons _ h => cases h; exact hb

theorem shapeOk_of_map {b b' : Term Blk} (f : Term Jmp → Term Jmp)
    (hf : ∀ j, Jmp.isCBranch (f j).term = Jmp.isCBranch j.term)
    (h : b'.term.jmps = b.term.jmps.map f) (hb : shapeOk b = true) : shapeOk b' = true := by
  unfold shapeOk at hb ⊢
  rw [h]
  generalize b.term.jmps = l at hb
  match l, hb with
  | [], _ => rfl
  | [_], _ => rfl
  | [j, k], hb => simpa [hf] using hb

/-! ### pass 2: `add_artifical_sink` -/

theorem mem_insertSub {x s : Term Sub} {l : List (Term Sub)} (h : s ∈ insertSub x l) : s = x ∨ s ∈ l := by
  induction l with
  | nil => simp [insertSub] at h; exact .inl h
  | cons a l ih =>
    simp only [insertSub] at h
    split at h
    · rcases List.mem_cons.mp h with h | h
      · exact .inl h
      · exact .inr (List.mem_cons_of_mem _ h)
    · split at h
      · rcases List.mem_cons.mp h with h | h
        · exact .inl h
        · exact .inr h
      · rcases List.mem_cons.mp h with h | h
        · exact .inr (h ▸ List.mem_cons_self ..)
        · rcases ih h with h | h
          · exact .inl h
          · exact .inr (List.mem_cons_of_mem _ h)

theorem insertSub_perm (x : Term Sub) (l : List (Term Sub)) (h : x.tid ∉ tids l) :
    (insertSub x l).Perm (x :: l) := by
  induction l with
  | nil => exact .refl _
  | cons a l ih =>
    simp only [tids, List.map_cons, List.mem_cons, not_or] at h
    simp only [insertSub, if_neg h.1]
    split
    · exact .refl _
    · exact ((ih h.2).cons a).trans (List.Perm.swap x a l)

theorem subTids_sinkSub : subTids artificialSinkSub = [Tid.artificialSinkSub, Tid.artificialSinkBlock ""] := rfl

theorem sinkSub_ne_sinkBlk : Tid.artificialSinkSub ≠ Tid.artificialSinkBlock "" := by decide

/-! ### pass 3: `remove_references_to_nonexisting_tids` -/

theorem retargetJmp_tid (T : List Tid) (j : Term Jmp) : (retargetJmp T j).tid = j.tid := by
  unfold retargetJmp
  split <;> (try split) <;> (try split) <;> (try split) <;> rfl

theorem retargetJmp_isCBranch (T : List Tid) (j : Term Jmp) :
    Jmp.isCBranch (retargetJmp T j).term = Jmp.isCBranch j.term := by
  unfold retargetJmp
  split <;> (try split) <;> (try split) <;> (try split) <;> simp_all [Jmp.isCBranch]

theorem retargetJmp_local (T : List Tid) (j : Term Jmp) (t : Tid)
    (h : Jmp.localTarget? (retargetJmp T j).term = some t) :
    (t ∈ T ∧ Jmp.localTarget? j.term = some t) ∨ t = Tid.artificialSinkBlock "" := by
  unfold retargetJmp at h
  split at h
  · next e => simp [e, Jmp.localTarget?] at h
  · next e =>
    split at h
    · next hm => simp only [e, Jmp.localTarget?, Option.some.injEq] at h ⊢; exact .inl ⟨h ▸ hm, h⟩
    · simp only [Jmp.localTarget?, Option.some.injEq] at h; exact .inr h.symm
  · next e =>
    split at h
    · next hm => simp only [e, Jmp.localTarget?, Option.some.injEq] at h ⊢; exact .inl ⟨h ▸ hm, h⟩
    · simp only [Jmp.localTarget?, Option.some.injEq] at h; exact .inr h.symm
  · next e =>
    split at h
    · split at h
      · split at h
        · next hm => simp only [e, Jmp.localTarget?, Option.some.injEq] at h ⊢; exact .inl ⟨h ▸ hm, h⟩
        · simp only [Jmp.localTarget?, Option.some.injEq] at h; exact .inr h.symm
      · simp [e, Jmp.localTarget?] at h
    · simp [Jmp.localTarget?] at h
  · next e =>
    split at h
    · next hm => simp only [e, Jmp.localTarget?, Option.some.injEq] at h ⊢; exact .inl ⟨h ▸ hm, h⟩
    · simp only [Jmp.localTarget?, Option.some.injEq] at h; exact .inr h.symm
  · next e =>
    split at h
    · next hm => simp only [e, Jmp.localTarget?, Option.some.injEq] at h ⊢; exact .inl ⟨h ▸ hm, h⟩
    · simp only [Jmp.localTarget?, Option.some.injEq] at h; exact .inr h.symm
  · next h1 h2 h3 h4 h5 h6 =>
    -- remaining shapes: Return, CallInd _ none, CallOther _ none
    match hj : j.term, h with
    | .Return _, h => simp [Jmp.localTarget?] at h
    | .CallInd _ none, h => simp [Jmp.localTarget?] at h
    | .CallOther _ none, h => simp [Jmp.localTarget?] at h
    | .BranchInd _, _ => exact absurd hj (h1 _)
    | .Branch _, _ => exact absurd hj (h2 _)
    | .CBranch _ _, _ => exact absurd hj (h3 _ _)
    | .Call _ _, _ => exact absurd hj (h4 _ _)
    | .CallInd _ (some _), _ => exact absurd hj (h5 _ _)
    | .CallOther _ (some _), _ => exact absurd hj (h6 _ _)

theorem retargetJmp_call (T : List Tid) (j : Term Jmp) (t : Tid)
    (h : Jmp.callTarget? (retargetJmp T j).term = some t) :
    (t ∈ T ∧ Jmp.callTarget? j.term = some t) ∨ t = Tid.artificialSinkSub := by
  unfold retargetJmp at h
  split at h
  · next e => simp [e, Jmp.callTarget?] at h
  · split at h <;> simp [Jmp.callTarget?, *] at h
  · split at h <;> simp [Jmp.callTarget?, *] at h
  · next tgt ret e =>
    split at h
    · next hm =>
      have : t = tgt := by
        split at h
        · split at h <;> simp [Jmp.callTarget?, e] at h <;> exact h.symm
        · simp [Jmp.callTarget?, e] at h; exact h.symm
      subst this
      exact .inl ⟨hm, by simp [e, Jmp.callTarget?]⟩
    · simp only [Jmp.callTarget?, Option.some.injEq] at h; exact .inr h.symm
  · split at h <;> simp [Jmp.callTarget?, *] at h
  · split at h <;> simp [Jmp.callTarget?, *] at h
  · next h1 h2 h3 h4 h5 h6 =>
    match hj : j.term, h with
    | .Return _, h => simp [Jmp.callTarget?] at h
    | .CallInd _ none, h => simp [Jmp.callTarget?] at h
    | .CallOther _ none, h => simp [Jmp.callTarget?] at h
    | .BranchInd _, _ => exact absurd hj (h1 _)
    | .Branch _, _ => exact absurd hj (h2 _)
    | .CBranch _ _, _ => exact absurd hj (h3 _ _)
    | .Call _ _, _ => exact absurd hj (h4 _ _)
    | .CallInd _ (some _), _ => exact absurd hj (h5 _ _)
    | .CallOther _ (some _), _ => exact absurd hj (h6 _ _)

theorem cleanBlk_tid (T : List Tid) (b : Term Blk) : (cleanBlk T b).tid = b.tid := rfl

theorem cleanBlk_content (T : List Tid) (b : Term Blk) :
    blkContentTids (cleanBlk T b) = blkContentTids b := by
  simp [blkContentTids, cleanBlk, tids, List.map_map, Function.comp_def, retargetJmp_tid]

theorem cleanBlk_succ (T : List Tid) (b : Term Blk) (t : Tid) (h : t ∈ succTids (cleanBlk T b)) :
    (t ∈ T ∧ t ∈ succTids b) ∨ t = Tid.artificialSinkBlock "" := by
  simp only [succTids, cleanBlk, List.mem_append, List.mem_filterMap, List.mem_map, List.mem_filter,
    decide_eq_true_eq] at h ⊢
  rcases h with ⟨j', ⟨j, hj, rfl⟩, hl⟩ | ⟨h1, h2⟩
  · rcases retargetJmp_local T j t hl with ⟨h1, h2⟩ | h1
    · exact .inl ⟨h1, .inl ⟨j, hj, h2⟩⟩
    · exact .inr h1
  · exact .inl ⟨h2, .inr h1⟩

theorem cleanBlk_call (T : List Tid) (b : Term Blk) (t : Tid) (h : t ∈ callTargets (cleanBlk T b)) :
    (t ∈ T ∧ t ∈ callTargets b) ∨ t = Tid.artificialSinkSub := by
  simp only [callTargets, cleanBlk, List.mem_filterMap, List.mem_map] at h ⊢
  obtain ⟨j', ⟨j, hj, rfl⟩, hl⟩ := h
  rcases retargetJmp_call T j t hl with ⟨h1, h2⟩ | h1
  · exact .inl ⟨h1, j, hj, h2⟩
  · exact .inr h1

theorem mapBlocks_tid (f : Term Blk → Term Blk) (s : Term Sub) : (mapBlocks f s).tid = s.tid := rfl

theorem mapBlocks_subTids (f : Term Blk → Term Blk) (s : Term Sub)
    (h1 : ∀ b, (f b).tid = b.tid) (h2 : ∀ b, blkContentTids (f b) = blkContentTids b) :
    subTids (mapBlocks f s) = subTids s := by
  simp [subTids, mapBlocks, tids, List.map_map, Function.comp_def, h1, List.flatMap_map, h2]

theorem mapBlocks_blockTids (f : Term Blk → Term Blk) (s : Term Sub) (h1 : ∀ b, (f b).tid = b.tid) :
    tids (mapBlocks f s).term.blocks = tids s.term.blocks := by
  simp [mapBlocks, tids, List.map_map, Function.comp_def, h1]

theorem mapBlocks_entry (f : Term Blk → Term Blk) (s : Term Sub) (h1 : ∀ b, (f b).tid = b.tid) :
    entryTid (mapBlocks f s) = entryTid s := by
  simp only [entryTid, mapBlocks]
  cases s.term.blocks <;> simp [h1]

/-! ### the program after passes 1–3 -/

/-- What passes 1–3 establish (under the TID discipline of the raw program `p`). -/
structure Inv3 (progTid : Tid) (p q : Program) : Prop where
  nodup : (progTid :: allTids q).Nodup
  tidsBase : ∀ t ∈ allTids q, t ∈ baseTids p
  subsBase : ∀ t ∈ tids q.subs, t ∈ baseSubs p
  entry : ∀ s ∈ p.subs, ∃ s' ∈ q.subs, s'.tid = s.tid ∧ entryTid s' = entryTid s
  locals : ∀ s ∈ q.subs, ∀ b ∈ s.term.blocks, ∀ t ∈ succTids b, t ∈ blockTids q
  calls : ∀ s ∈ q.subs, ∀ b ∈ s.term.blocks, ∀ t ∈ callTargets b, t ∈ tids q.subs ∨ t ∈ externTids q
  externs : q.externSymbols = p.externSymbols
  shape : (∀ s ∈ p.subs, ∀ b ∈ s.term.blocks, shapeOk b = true) →
    ∀ s ∈ q.subs, ∀ b ∈ s.term.blocks, shapeOk b = true
  sinkBlk : Tid.artificialSinkBlock "" ∈ blockTids q

theorem dedupBlk_succ_subset (k : List Tid) (b : Term Blk) : ∀ t ∈ succTids (dedupBlk k b), t ∈ succTids b := by
  intro t ht
  simp only [succTids, List.mem_append] at ht ⊢
  rcases ht with h | h
  · exact .inl (((dedupBlk_jmps_sublist k b).filterMap _).subset h)
  · exact .inr h

theorem dedupBlk_call_subset (k : List Tid) (b : Term Blk) : ∀ t ∈ callTargets (dedupBlk k b), t ∈ callTargets b :=
  fun _ h => ((dedupBlk_jmps_sublist k b).filterMap _).subset h

theorem sinkSub_mem_insert (l : List (Term Sub)) : artificialSinkSub ∈ insertSub artificialSinkSub l := by
  induction l with
  | nil => simp [insertSub]
  | cons a l ih =>
    simp only [insertSub]
    split
    · exact List.mem_cons_self ..
    · split
      · exact List.mem_cons_self ..
      · exact List.mem_cons_of_mem _ ih

/-- **Passes 1–3** establish `Inv3`. -/
theorem stage3_inv (progTid : Tid) (p : Program) (H : TidDiscipline progTid p) :
    Inv3 progTid p (stage3 progTid p) := by
  -- pass 1
  have hN1 := dedupSubs_nodup [progTid] p.subs H.noDupSub
  have hF1 := dedupSubs_fresh [progTid] p.subs H.noDupSub
  have hS1 := dedupSubs_subset [progTid] p.subs
  have hT1 := dedupSubs_tids [progTid] p.subs
  have hE1 := dedupSubs_entry [progTid] p.subs H.entryFresh
  generalize hq1 : dedupSubs [progTid] p.subs = l1 at hN1 hF1 hS1 hT1 hE1
  -- pass 2
  have hsinkT : artificialSinkSub.tid ∉ tids l1 := by
    rw [hT1]
    intro h
    obtain ⟨s, hs, e⟩ := List.mem_map.mp h
    exact H.sinkFresh.1 (List.mem_cons_of_mem _ (List.mem_flatMap.mpr ⟨s, hs, by
      rw [show artificialSinkSub.tid = Tid.artificialSinkSub from rfl] at e
      rw [← e]; exact List.mem_cons_self ..⟩))
  have hperm := insertSub_perm artificialSinkSub l1 hsinkT
  have hperm2 : ((insertSub artificialSinkSub l1).flatMap subTids).Perm
      (Tid.artificialSinkSub :: Tid.artificialSinkBlock "" :: l1.flatMap subTids) := by
    have := hperm.flatMap_right subTids
    simpa [subTids_sinkSub] using this
  generalize hq2 : insertSub artificialSinkSub l1 = l2 at hperm hperm2
  have hmem2 : ∀ s ∈ l2, s = artificialSinkSub ∨ s ∈ l1 := fun s hs => by
    have := hperm.subset hs
    simpa using this
  have hsub2 : ∀ t ∈ tids l2, t ∈ baseSubs p := by
    intro t ht
    obtain ⟨s, hs, rfl⟩ := List.mem_map.mp ht
    rcases hmem2 s hs with rfl | h
    · exact List.mem_cons_self ..
    · exact List.mem_cons_of_mem _ (hT1 ▸ List.mem_map.mpr ⟨s, h, rfl⟩)
  -- pass 3
  have hstage : stage3 progTid p =
      { p with subs := l2.map (mapBlocks (cleanBlk (tids l2 ++ l2.flatMap (fun s => tids s.term.blocks) ++ externTids p))) } := by
    simp only [stage3, removeReferences, addArtificialSinkSub, removeDuplicateTids, jumpTargets, blockTids,
      externTids, hq1, hq2]
  rw [hstage]
  generalize hT : tids l2 ++ l2.flatMap (fun s => tids s.term.blocks) ++ externTids p = T
  have hall3 : allTids { p with subs := l2.map (mapBlocks (cleanBlk T)) } = l2.flatMap subTids := by
    simp only [allTids, List.flatMap_map]
    congr 1
    funext s
    exact mapBlocks_subTids _ _ (cleanBlk_tid T) (cleanBlk_content T)
  have htids3 : tids (l2.map (mapBlocks (cleanBlk T))) = tids l2 := by
    simp [tids, List.map_map, Function.comp_def, mapBlocks_tid]
  have hblk3 : blockTids { p with subs := l2.map (mapBlocks (cleanBlk T)) } = l2.flatMap (fun s => tids s.term.blocks) := by
    simp only [blockTids, List.flatMap_map]
    congr 1
    funext s
    exact mapBlocks_blockTids _ _ (cleanBlk_tid T)
  have hsinkBlkMem : Tid.artificialSinkBlock "" ∈ l2.flatMap (fun s => tids s.term.blocks) :=
    List.mem_flatMap.mpr ⟨artificialSinkSub, hq2 ▸ sinkSub_mem_insert l1, by simp [artificialSinkSub, artificialSinkBlk, tids]⟩
  have hsinkSubMem : Tid.artificialSinkSub ∈ tids l2 :=
    List.mem_map.mpr ⟨artificialSinkSub, hq2 ▸ sinkSub_mem_insert l1, rfl⟩
  -- blocks of l2 come from raw blocks
  have hraw : ∀ s2 ∈ l2, ∀ b2 ∈ s2.term.blocks,
      b2 = artificialSinkBlk "" ∨ ∃ s ∈ p.subs, ∃ b ∈ s.term.blocks, ∃ k, b2 = dedupBlk k b := by
    intro s2 hs2 b2 hb2
    rcases hmem2 s2 hs2 with rfl | h
    · left; simpa [artificialSinkSub] using hb2
    · right
      obtain ⟨k, s, hs, rfl⟩ := mem_dedupSubs (hq1 ▸ h)
      obtain ⟨k', b, hb, rfl⟩ := mem_dedupSub_blocks hb2
      exact ⟨s, hs, b, hb, k', rfl⟩
  have hblk2 : ∀ t ∈ l2.flatMap (fun s => tids s.term.blocks), t = Tid.artificialSinkBlock "" ∨ t ∈ blockTids p := by
    intro t ht
    obtain ⟨s2, hs2, hbt⟩ := List.mem_flatMap.mp ht
    obtain ⟨b2, hb2, rfl⟩ := List.mem_map.mp hbt
    rcases hraw s2 hs2 b2 hb2 with rfl | ⟨s, hs, b, hb, k, rfl⟩
    · exact .inl rfl
    · exact .inr (List.mem_flatMap.mpr ⟨s, hs, List.mem_map.mpr ⟨b, hb, rfl⟩⟩)
  refine ⟨?_, ?_, ?_, ?_, ?_, ?_, rfl, ?_, hblk3 ▸ hsinkBlkMem⟩
  · -- nodup
    rw [hall3]
    have h0 : (progTid :: Tid.artificialSinkSub :: Tid.artificialSinkBlock "" :: l1.flatMap subTids).Nodup := by
      have hs1 : Tid.artificialSinkSub ∉ progTid :: allTids p := H.sinkFresh.1
      have hs2 : Tid.artificialSinkBlock "" ∉ progTid :: allTids p := H.sinkFresh.2
      simp only [List.mem_cons, not_or] at hs1 hs2
      refine List.nodup_cons.mpr ⟨?_, List.nodup_cons.mpr ⟨?_, List.nodup_cons.mpr ⟨?_, hN1⟩⟩⟩
      · simp only [List.mem_cons, not_or]
        exact ⟨fun h => hs1.1 h.symm, fun h => hs2.1 h.symm, fun h => hF1 _ h (List.mem_cons_self ..)⟩
      · simp only [List.mem_cons, not_or]
        exact ⟨sinkSub_ne_sinkBlk, fun h => hs1.2 (hS1 _ h)⟩
      · exact fun h => hs2.2 (hS1 _ h)
    exact ((hperm2.cons progTid).nodup_iff).mpr h0
  · -- tidsBase
    rw [hall3]
    intro t ht
    have := hperm2.subset ht
    simp only [List.mem_cons] at this
    rcases this with h | h | h
    · exact h ▸ List.mem_cons_self ..
    · exact h ▸ List.mem_cons_of_mem _ (List.mem_cons_self ..)
    · exact List.mem_cons_of_mem _ (List.mem_cons_of_mem _ (hS1 _ h))
  · -- subsBase
    show ∀ t ∈ tids (l2.map (mapBlocks (cleanBlk T))), t ∈ baseSubs p
    rw [htids3]; exact hsub2
  · -- entry
    intro s hs
    obtain ⟨s1, hs1, e1, e2⟩ := hE1 s hs
    have : s1 ∈ l2 := hperm.symm.subset (List.mem_cons_of_mem _ hs1)
    exact ⟨mapBlocks (cleanBlk T) s1, List.mem_map.mpr ⟨s1, this, rfl⟩, e1,
      (mapBlocks_entry _ _ (cleanBlk_tid T)).trans e2⟩
  · -- locals
    intro s3 hs3 b3 hb3 t ht
    rw [hblk3]
    obtain ⟨s2, hs2, rfl⟩ := List.mem_map.mp hs3
    obtain ⟨b2, hb2, rfl⟩ := List.mem_map.mp hb3
    rcases cleanBlk_succ T b2 t ht with ⟨h1, h2⟩ | rfl
    · rcases hraw s2 hs2 b2 hb2 with rfl | ⟨s, hs, b, hb, k, rfl⟩
      · simp [succTids, artificialSinkBlk] at h2
      · have hk := H.localKinds s hs b hb t (dedupBlk_succ_subset k b t h2)
        rw [← hT] at h1
        simp only [List.mem_append] at h1
        rcases h1 with (h1 | h1) | h1
        · exact absurd (hsub2 t h1) hk.1
        · exact h1
        · exact absurd h1 hk.2
    · exact hsinkBlkMem
  · -- calls
    intro s3 hs3 b3 hb3 t ht
    show t ∈ tids (l2.map (mapBlocks (cleanBlk T))) ∨ t ∈ externTids p
    rw [htids3]
    obtain ⟨s2, hs2, rfl⟩ := List.mem_map.mp hs3
    obtain ⟨b2, hb2, rfl⟩ := List.mem_map.mp hb3
    rcases cleanBlk_call T b2 t ht with ⟨h1, h2⟩ | rfl
    · rcases hraw s2 hs2 b2 hb2 with rfl | ⟨s, hs, b, hb, k, rfl⟩
      · simp [callTargets, artificialSinkBlk] at h2
      · have hk := H.callKinds s hs b hb t (dedupBlk_call_subset k b t h2)
        rw [← hT] at h1
        simp only [List.mem_append] at h1
        rcases h1 with (h1 | h1) | h1
        · exact .inl h1
        · rcases hblk2 t h1 with h | h
          · exact absurd h hk.2
          · exact absurd h hk.1
        · exact .inr h1
    · exact .inl hsinkSubMem
  · -- shape
    intro hsh s3 hs3 b3 hb3
    obtain ⟨s2, hs2, rfl⟩ := List.mem_map.mp hs3
    obtain ⟨b2, hb2, rfl⟩ := List.mem_map.mp hb3
    refine shapeOk_of_map (retargetJmp T) (retargetJmp_isCBranch T) rfl ?_
    rcases hraw s2 hs2 b2 hb2 with rfl | ⟨s, hs, b, hb, k, rfl⟩
    · rfl
    · exact shapeOk_of_sublist (dedupBlk_jmps_sublist k b) (hsh s hs b hb)

end CweModel.C09
