/-
C09 — pass 4, `make_block_to_sub_mapping_unique`: the maps, the reachable-block sets (DFS of
`Base/Reach`), the clones and the re-suffixed targets.
-/
import CweModel.C09.P1
import CweModel.C09.Lists
open CweModel.IR CweModel.Reach
namespace CweModel.C09

/-! ### the TIDs in the insertion order of `generate_tid_to_sub_tid_map` -/

def blkAll (b : Term Blk) : List Tid := b.tid :: blkContentTids b
def subTidsB (s : Term Sub) : List Tid := s.tid :: s.term.blocks.flatMap blkAll
def allTidsB (p : Program) : List Tid := p.subs.flatMap subTidsB

theorem blocksAll_perm (bs : List (Term Blk)) :
    (bs.flatMap blkAll).Perm (tids bs ++ bs.flatMap blkContentTids) := by
  induction bs with
  | nil => exact .refl _
  | cons b bs ih =>
    simp only [List.flatMap_cons, blkAll, tids, List.map_cons, List.cons_append]
    refine List.Perm.cons _ ?_
    -- c ++ L ~ T ++ (c ++ C)
    refine (ih.append_left _).trans ?_
    rw [← List.append_assoc, ← List.append_assoc]
    exact List.Perm.append_right _ List.perm_append_comm

theorem subTidsB_perm (s : Term Sub) : (subTidsB s).Perm (subTids s) :=
  List.Perm.cons _ (blocksAll_perm _)

theorem allTidsB_perm (p : Program) : (allTidsB p).Perm (allTids p) :=
  perm_flatMap_left (fun s _ => subTidsB_perm s)

theorem mem_subTidsB_iff (s : Term Sub) (t : Tid) : t ∈ subTidsB s ↔ t ∈ subTids s :=
  (subTidsB_perm s).mem_iff

theorem tids_sublist_blocksAll (bs : List (Term Blk)) : (tids bs).Sublist (bs.flatMap blkAll) := by
  induction bs with
  | nil => exact .slnil
  | cons b bs ih =>
    simp only [tids, List.map_cons, List.flatMap_cons, blkAll, List.cons_append]
    exact List.Sublist.cons_cons _ ((ih.trans (List.sublist_append_right _ _)))

theorem sublist_flatMap {α β : Type} {f g : α → List β} (l : List α) (h : ∀ a, (f a).Sublist (g a)) :
    (l.flatMap f).Sublist (l.flatMap g) := by
  induction l with
  | nil => exact .slnil
  | cons a l ih => simp only [List.flatMap_cons]; exact (h a).append ih

theorem blockTids_sublist (p : Program) : (blockTids p).Sublist (allTidsB p) :=
  sublist_flatMap _ (fun _ => ((tids_sublist_blocksAll _).trans (List.sublist_cons_self _ _)))

theorem tidToSubList_keys (p : Program) : (tidToSubList p).map (·.1) = allTidsB p := by
  simp only [tidToSubList, allTidsB, List.map_flatMap, List.map_map, Function.comp_def, List.map_id']
  rfl

theorem blockList_keys (p : Program) : (blockList p).map (·.1) = blockTids p := by
  simp only [blockList, blockTids, List.map_flatMap, List.map_map, Function.comp_def, tids]

theorem mem_tidToSubList {p : Program} {t x : Tid} :
    (t, x) ∈ tidToSubList p ↔ ∃ s ∈ p.subs, s.tid = x ∧ t ∈ subTidsB s := by
  simp only [tidToSubList, List.mem_flatMap, List.mem_map, Prod.mk.injEq, subTidsB]
  constructor
  · rintro ⟨s, hs, t', ht', rfl, rfl⟩; exact ⟨s, hs, rfl, ht'⟩
  · rintro ⟨s, hs, rfl, ht⟩; exact ⟨s, hs, t, ht, rfl, rfl⟩

theorem mem_blockList {p : Program} {t : Tid} {b : Term Blk} :
    (t, b) ∈ blockList p ↔ ∃ s ∈ p.subs, b ∈ s.term.blocks ∧ b.tid = t := by
  simp only [blockList, List.mem_flatMap, List.mem_map, Prod.mk.injEq]
  constructor
  · rintro ⟨s, hs, b', hb', rfl, rfl⟩; exact ⟨s, hs, hb', rfl⟩
  · rintro ⟨s, hs, hb, rfl⟩; exact ⟨s, hs, b, hb, rfl, rfl⟩

section Unique
variable {q : Program} (hU : (allTidsB q).Nodup)
include hU

theorem toSub_of_mem {s : Term Sub} (hs : s ∈ q.subs) {t : Tid} (ht : t ∈ subTidsB s) :
    lookupLast (tidToSubList q) t = some s.tid :=
  lookupLast_of_nodup (by rw [tidToSubList_keys]; exact hU) (mem_tidToSubList.mpr ⟨s, hs, rfl, ht⟩)

omit hU in
theorem mem_of_toSub {t x : Tid} (h : lookupLast (tidToSubList q) t = some x) :
    ∃ s ∈ q.subs, s.tid = x ∧ t ∈ subTidsB s := mem_tidToSubList.mp (lookupLast_mem h)

theorem block_of_mem {s : Term Sub} (hs : s ∈ q.subs) {b : Term Blk} (hb : b ∈ s.term.blocks) :
    lookupLast (blockList q) b.tid = some b :=
  lookupLast_of_nodup (by rw [blockList_keys]; exact (blockTids_sublist q).nodup hU)
    (mem_blockList.mpr ⟨s, hs, hb, rfl⟩)

omit hU in
theorem mem_of_block {t : Tid} {b : Term Blk} (h : lookupLast (blockList q) t = some b) :
    ∃ s ∈ q.subs, b ∈ s.term.blocks ∧ b.tid = t := mem_blockList.mp (lookupLast_mem h)

theorem sub_unique {s s' : Term Sub} (hs : s ∈ q.subs) (hs' : s' ∈ q.subs) {x : Tid}
    (hx : x ∈ subTidsB s) (hx' : x ∈ subTidsB s') : s = s' :=
  nodup_flatMap_inj hU hs hs' hx hx'

theorem sub_unique_tid {s s' : Term Sub} (hs : s ∈ q.subs) (hs' : s' ∈ q.subs) (h : s.tid = s'.tid) : s = s' :=
  sub_unique hU hs hs' (List.mem_cons_self ..) (h ▸ List.mem_cons_self ..)

theorem subTidsB_nodup {s : Term Sub} (hs : s ∈ q.subs) : (subTidsB s).Nodup :=
  nodup_of_nodup_flatMap hU s hs

theorem blk_unique {s : Term Sub} (hs : s ∈ q.subs) {b b' : Term Blk} (hb : b ∈ s.term.blocks)
    (hb' : b' ∈ s.term.blocks) {x : Tid} (hx : x ∈ blkAll b) (hx' : x ∈ blkAll b') : b = b' :=
  nodup_flatMap_inj (List.nodup_cons.mp (subTidsB_nodup hU hs)).2 hb hb' hx hx'

omit hU in
theorem mem_subTidsB_of_blk {s : Term Sub} {b : Term Blk} (hb : b ∈ s.term.blocks) {x : Tid} (hx : x ∈ blkAll b) :
    x ∈ subTidsB s := List.mem_cons_of_mem _ (List.mem_flatMap.mpr ⟨b, hb, hx⟩)

theorem blk_unique_global {s s' : Term Sub} (hs : s ∈ q.subs) (hs' : s' ∈ q.subs) {b b' : Term Blk}
    (hb : b ∈ s.term.blocks) (hb' : b' ∈ s'.term.blocks) {x : Tid} (hx : x ∈ blkAll b) (hx' : x ∈ blkAll b') :
    s = s' ∧ b = b' := by
  have := sub_unique hU hs hs' (mem_subTidsB_of_blk hb hx) (mem_subTidsB_of_blk hb' hx')
  subst this
  exact ⟨rfl, blk_unique hU hs hb hb' hx hx'⟩

end Unique

/-! ### the reachable-block sets -/

def edges (p : Program) : List (Tid × Tid) :=
  (blockList p).flatMap (fun e => (succTids e.2).map (fun t => (e.1, t)))

theorem edges_length (p : Program) : (edges p).length = edgeCount p := by
  simp [edges, edgeCount, List.length_flatMap]

theorem next_deg (p : Program) (n : Tid) :
    (nextTids p n).length ≤ ((edges p).filter (fun e => decide (e.1 = n))).length := by
  unfold nextTids
  cases h : lookupLast (blockList p) n with
  | none => simp
  | some b =>
    simp only [List.length_reverse]
    have hm := lookupLast_mem h
    have := length_filter_flatMap_ge (fun e : Tid × Term Blk => (succTids e.2).map (fun t => (e.1, t)))
      (fun e => decide (e.1 = n)) (blockList p) hm (by simp)
    simpa [edges] using this

theorem reach_finished (p : Program) (s : Term Sub) :
    (dfs (nextTids p) (s.term.blocks.length + edgeCount p + 1) (tids s.term.blocks).reverse []).1 = [] :=
  dfs_fuel_sufficient (edges p) (·.1) (nextTids p) (next_deg p) _ _ (by simp [edges_length, tids])

theorem reach_start (p : Program) (s : Term Sub) : ∀ b ∈ s.term.blocks, b.tid ∈ reachSet p s := by
  intro b hb
  have := (dfs_closed (nextTids p) _ _ [] (reach_finished p s) (by simp)).1
  exact this b.tid (List.mem_reverse.mpr (List.mem_map.mpr ⟨b, hb, rfl⟩))

theorem reach_closed (p : Program) (s : Term Sub) {a t : Tid} {blk : Term Blk} (ha : a ∈ reachSet p s)
    (hl : lookupLast (blockList p) a = some blk) (ht : t ∈ succTids blk) : t ∈ reachSet p s := by
  have := (dfs_closed (nextTids p) _ _ [] (reach_finished p s) (by simp)).2
  exact this a ha t (by simp [nextTids, hl, ht])

theorem reach_nodup (p : Program) (s : Term Sub) : (reachSet p s).Nodup :=
  dfs_nodup _ _ _ _ List.nodup_nil

/-- everything in the reachable set is a block, if all intraprocedural targets are blocks -/
theorem reach_blocks (p : Program)
    (hloc : ∀ s ∈ p.subs, ∀ b ∈ s.term.blocks, ∀ t ∈ succTids b, t ∈ blockTids p)
    (s : Term Sub) (hs : s ∈ p.subs) : ∀ t ∈ reachSet p s, t ∈ blockTids p := by
  intro t ht
  rcases dfs_sound (nextTids p) _ _ [] t ht with h | ⟨s0, hs0, hr⟩
  · simp at h
  · refine Reach.closed (P := fun y => y ∈ blockTids p) ?_ hr ?_
    · intro a b _ hb
      unfold nextTids at hb
      cases hl : lookupLast (blockList p) a with
      | none => simp [hl] at hb
      | some blk =>
        simp only [hl, List.mem_reverse] at hb
        obtain ⟨s', hs', hblk, _⟩ := mem_of_block hl
        exact hloc s' hs' blk hblk b hb
    · obtain ⟨b, hb, rfl⟩ := List.mem_map.mp (List.mem_reverse.mp hs0)
      exact List.mem_flatMap.mpr ⟨s, hs, List.mem_map.mpr ⟨b, hb, rfl⟩⟩

/-! ### suffixes -/

theorem withIdSuffix_inj (sfx : String) {t t' : Tid} (h : t.withIdSuffix sfx = t'.withIdSuffix sfx) : t = t' := by
  cases t; cases t'
  simp only [Tid.withIdSuffix, Tid.mk.injEq] at h ⊢
  exact ⟨(String.append_left_inj sfx).mp h.1, h.2⟩

theorem sinkBlock_suffix (sfx : String) :
    (Tid.artificialSinkBlock "").withIdSuffix sfx = Tid.artificialSinkBlock sfx := by
  simp [Tid.withIdSuffix, Tid.artificialSinkBlock]

/-- the TID of `t` inside a clone made for `s` -/
def suf (s : Term Sub) (t : Tid) : Tid := t.withIdSuffix (idSuffix s)

theorem suf_eq (s : Term Sub) (t : Tid) : suf s t = t.withIdSuffix (sfxOf s.tid) := rfl

/-! ### clones and adjusted blocks -/

theorem filterMap_congr' {α β : Type} {f g : α → Option β} {l : List α} (h : ∀ a ∈ l, f a = g a) :
    l.filterMap f = l.filterMap g := by
  induction l with
  | nil => rfl
  | cons a l ih =>
    simp only [List.filterMap_cons, h a (List.mem_cons_self ..)]
    rw [ih (fun x hx => h x (List.mem_cons_of_mem _ hx))]

theorem clone_blkAll (sfx : String) (b : Term Blk) :
    blkAll (cloneWithSuffix sfx b) = (blkAll b).map (·.withIdSuffix sfx) := by
  simp [blkAll, blkContentTids, cloneWithSuffix, tids, List.map_map, Function.comp_def]

theorem clone_succ (sfx : String) (b : Term Blk) : succTids (cloneWithSuffix sfx b) = succTids b := by
  simp [succTids, cloneWithSuffix, List.filterMap_map, Function.comp_def]

theorem clone_call (sfx : String) (b : Term Blk) : callTargets (cloneWithSuffix sfx b) = callTargets b := by
  simp [callTargets, cloneWithSuffix, List.filterMap_map, Function.comp_def]

theorem clone_shape (sfx : String) (b : Term Blk) (h : shapeOk b = true) : shapeOk (cloneWithSuffix sfx b) = true :=
  shapeOk_of_map (fun j => { j with tid := j.tid.withIdSuffix sfx }) (fun _ => rfl) rfl h

theorem adjustJmp_tid (m : List (Tid × Tid)) (s : Term Sub) (j : Term Jmp) : (adjustJmp m s j).tid = j.tid := by
  unfold adjustJmp; split <;> rfl

theorem adjustJmp_local (m : List (Tid × Tid)) (s : Term Sub) (j : Term Jmp) :
    Jmp.localTarget? (adjustJmp m s j).term = (Jmp.localTarget? j.term).map (adjustTid m s) := by
  unfold adjustJmp; split <;> simp_all [Jmp.localTarget?]

theorem adjustJmp_call (m : List (Tid × Tid)) (s : Term Sub) (j : Term Jmp) :
    Jmp.callTarget? (adjustJmp m s j).term = Jmp.callTarget? j.term := by
  unfold adjustJmp; split <;> simp_all [Jmp.callTarget?]

theorem adjustJmp_isCBranch (m : List (Tid × Tid)) (s : Term Sub) (j : Term Jmp) :
    Jmp.isCBranch (adjustJmp m s j).term = Jmp.isCBranch j.term := by
  unfold adjustJmp; split <;> simp_all [Jmp.isCBranch]

theorem adjustBlk_tid (m : List (Tid × Tid)) (s : Term Sub) (b : Term Blk) : (adjustBlk m s b).tid = b.tid := rfl

theorem adjustBlk_blkAll (m : List (Tid × Tid)) (s : Term Sub) (b : Term Blk) :
    blkAll (adjustBlk m s b) = blkAll b := by
  simp [blkAll, blkContentTids, adjustBlk, tids, List.map_map, Function.comp_def, adjustJmp_tid]

theorem adjustBlk_succ (m : List (Tid × Tid)) (s : Term Sub) (b : Term Blk) :
    succTids (adjustBlk m s b) = (succTids b).map (adjustTid m s) := by
  simp only [succTids, adjustBlk, List.filterMap_map, List.map_append, List.map_filterMap]
  congr 1
  apply filterMap_congr'
  intro j _
  exact adjustJmp_local m s j

theorem adjustBlk_call (m : List (Tid × Tid)) (s : Term Sub) (b : Term Blk) :
    callTargets (adjustBlk m s b) = callTargets b := by
  simp only [callTargets, adjustBlk, List.filterMap_map]
  apply filterMap_congr'
  intro j _
  exact adjustJmp_call m s j

/-- the blocks that are cloned into `s` (originals) -/
def sources (q : Program) (s : Term Sub) : List (Term Blk) :=
  (reachSet q s).filterMap (fun t =>
    if lookupLast (tidToSubList q) t = some s.tid then none else lookupLast (blockList q) t)

theorem additionalBlocks_eq (q : Program) (s : Term Sub) :
    additionalBlocks q s = (sources q s).map (cloneWithSuffix (idSuffix s)) := by
  simp only [additionalBlocks, sources, List.map_filterMap]
  apply filterMap_congr'
  intro t _
  split <;> simp

theorem mem_sources {q : Program} {s : Term Sub} {b : Term Blk} :
    b ∈ sources q s ↔ ∃ t ∈ reachSet q s, lookupLast (tidToSubList q) t ≠ some s.tid ∧
      lookupLast (blockList q) t = some b := by
  simp only [sources, List.mem_filterMap]
  constructor
  · rintro ⟨t, ht, h⟩
    split at h
    · simp at h
    · next hne => exact ⟨t, ht, hne, h⟩
  · rintro ⟨t, ht, hne, h⟩
    exact ⟨t, ht, by simp [hne, h]⟩

/-- TIDs of the originals of the clones of `s` -/
def srcTids (q : Program) (s : Term Sub) : List Tid := (sources q s).flatMap blkAll

theorem uniqueSub_tid (q : Program) (s : Term Sub) : (uniqueSub q s).tid = s.tid := rfl

theorem uniqueSub_blockTids (q : Program) (s : Term Sub) :
    tids (uniqueSub q s).term.blocks = tids s.term.blocks ++ (sources q s).map (fun b => suf s b.tid) := by
  simp [uniqueSub, tids, List.map_map, Function.comp_def, adjustBlk_tid, additionalBlocks_eq, cloneWithSuffix, suf]

theorem uniqueSub_subTidsB (q : Program) (s : Term Sub) :
    subTidsB (uniqueSub q s) = subTidsB s ++ (srcTids q s).map (suf s) := by
  simp only [subTidsB, uniqueSub, List.flatMap_map, adjustBlk_blkAll, List.flatMap_append, additionalBlocks_eq,
    clone_blkAll, srcTids, List.map_flatMap, List.cons_append]
  rfl

theorem additionalBlocks_of_empty (q : Program) (s : Term Sub) (h : s.term.blocks = []) :
    additionalBlocks q s = [] := by
  simp [additionalBlocks, reachSet, h, tids, dfs]

theorem uniqueSub_entry (q : Program) (s : Term Sub) : entryTid (uniqueSub q s) = entryTid s := by
  simp only [entryTid, uniqueSub]
  cases h : s.term.blocks with
  | nil => simp [additionalBlocks_of_empty q s h]
  | cons b bs => simp [adjustBlk_tid]

section Pass4
variable {q : Program} (hU : (allTidsB q).Nodup)
include hU

omit hU in
theorem source_is_block {s : Term Sub} {b : Term Blk} (hb : b ∈ sources q s) :
    ∃ s2 ∈ q.subs, b ∈ s2.term.blocks ∧ b.tid ∈ reachSet q s ∧
      lookupLast (tidToSubList q) b.tid ≠ some s.tid := by
  obtain ⟨t, ht, hne, hl⟩ := mem_sources.mp hb
  obtain ⟨s2, hs2, hb2, rfl⟩ := mem_of_block hl
  exact ⟨s2, hs2, hb2, ht, hne⟩

omit hU in
theorem srcTids_mem {s : Term Sub} {x : Tid} (hx : x ∈ srcTids q s) : x ∈ allTidsB q := by
  obtain ⟨b, hb, hxb⟩ := List.mem_flatMap.mp hx
  obtain ⟨s2, hs2, hb2, _, _⟩ := source_is_block hb
  exact List.mem_flatMap.mpr ⟨s2, hs2, mem_subTidsB_of_blk hb2 hxb⟩

theorem srcTids_nodup (s : Term Sub) : (srcTids q s).Nodup := by
  refine nodup_flatMap_of ?_ ?_
  · intro b hb
    obtain ⟨s2, hs2, hb2, _, _⟩ := source_is_block hb
    exact nodup_of_nodup_flatMap (List.nodup_cons.mp (subTidsB_nodup hU hs2)).2 b hb2
  · unfold sources
    rw [List.pairwise_filterMap]
    refine (reach_nodup q s).imp ?_
    intro t t' hne b hb b' hb' x hx hx'
    split at hb
    · simp at hb
    · split at hb'
      · simp at hb'
      · obtain ⟨s2, hs2, hb2, e⟩ := mem_of_block hb
        obtain ⟨s2', hs2', hb2', e'⟩ := mem_of_block hb'
        have := (blk_unique_global hU hs2 hs2' hb2 hb2' hx hx').2
        exact hne (by rw [← e, ← e', this])

/-- the sink clone: a clone whose TID is the sub's artificial sink TID is a block -/
theorem srcTids_block {s : Term Sub} {t0 : Tid} (ht0 : t0 ∈ srcTids q s)
    (hblk : t0 ∈ blockTids q) : suf s t0 ∈ tids (uniqueSub q s).term.blocks := by
  obtain ⟨b, hb, hxb⟩ := List.mem_flatMap.mp ht0
  obtain ⟨s2, hs2, hb2, _, _⟩ := source_is_block hb
  obtain ⟨s3, hs3, hbt3⟩ := List.mem_flatMap.mp hblk
  obtain ⟨b3, hb3, rfl⟩ := List.mem_map.mp hbt3
  have := (blk_unique_global hU hs2 hs3 hb2 hb3 hxb (List.mem_cons_self ..)).2
  subst this
  rw [uniqueSub_blockTids]
  exact List.mem_append_right _ (List.mem_map.mpr ⟨b, hb, rfl⟩)

/-- **targets become local**: after the pass every intraprocedural target of a block of `s` is a
block of `s` -/
theorem uniqueSub_locals
    (hloc : ∀ s ∈ q.subs, ∀ b ∈ s.term.blocks, ∀ t ∈ succTids b, t ∈ blockTids q)
    {s : Term Sub} (hs : s ∈ q.subs) :
    ∀ b ∈ (uniqueSub q s).term.blocks, ∀ t ∈ succTids b, t ∈ tids (uniqueSub q s).term.blocks := by
  intro b4 hb4 t4 ht4
  simp only [uniqueSub, List.mem_map] at hb4
  obtain ⟨b', hb', rfl⟩ := hb4
  rw [adjustBlk_succ] at ht4
  obtain ⟨t, ht, rfl⟩ := List.mem_map.mp ht4
  -- `t` is in the reachable set of `s` and is a block of the program
  have key : t ∈ reachSet q s ∧ t ∈ blockTids q := by
    rcases List.mem_append.mp hb' with h | h
    · exact ⟨reach_closed q s (reach_start q s b' h) (block_of_mem hU hs h) ht, hloc s hs b' h t ht⟩
    · rw [additionalBlocks_eq] at h
      obtain ⟨b0, hb0, rfl⟩ := List.mem_map.mp h
      rw [clone_succ] at ht
      obtain ⟨t0, ht0, _, hl⟩ := mem_sources.mp hb0
      obtain ⟨s2, hs2, hb2, _⟩ := mem_of_block hl
      exact ⟨reach_closed q s ht0 hl ht, hloc s2 hs2 b0 hb2 t ht⟩
  obtain ⟨s2, hs2, htb⟩ := List.mem_flatMap.mp key.2
  obtain ⟨bt, hbt, rfl⟩ := List.mem_map.mp htb
  have hto : lookupLast (tidToSubList q) bt.tid = some s2.tid :=
    toSub_of_mem hU hs2 (mem_subTidsB_of_blk hbt (List.mem_cons_self ..))
  rw [uniqueSub_blockTids]
  unfold adjustTid
  split
  · next h =>
    rw [hto] at h
    have : s2 = s := sub_unique_tid hU hs2 hs (Option.some.inj h)
    subst this
    exact List.mem_append_left _ (List.mem_map.mpr ⟨bt, hbt, rfl⟩)
  · next h =>
    refine List.mem_append_right _ (List.mem_map.mpr ⟨bt, ?_, rfl⟩)
    exact mem_sources.mpr ⟨bt.tid, key.1, h, block_of_mem hU hs2 hbt⟩

end Pass4

/-! ### the program after pass 4 -/

/-- What pass 4 establishes on top of `Inv3`. -/
structure Inv4 (progTid : Tid) (p q : Program) : Prop where
  nodup : (progTid :: allTidsB q).Nodup
  subsBase : ∀ s ∈ q.subs, s.tid ∈ baseSubs p
  entry : ∀ s ∈ p.subs, ∃ s' ∈ q.subs, s'.tid = s.tid ∧ entryTid s' = entryTid s
  locals : ∀ s ∈ q.subs, ∀ b ∈ s.term.blocks, ∀ t ∈ succTids b, t ∈ tids s.term.blocks
  calls : ∀ s ∈ q.subs, ∀ b ∈ s.term.blocks, ∀ t ∈ callTargets b, t ∈ tids q.subs ∨ t ∈ externTids q
  externs : q.externSymbols = p.externSymbols
  shape : (∀ s ∈ p.subs, ∀ b ∈ s.term.blocks, shapeOk b = true) →
    ∀ s ∈ q.subs, ∀ b ∈ s.term.blocks, shapeOk b = true
  /-- every TID of a sub is a TID of the raw program (or a sink TID), or such a TID with the sub's suffix -/
  form : ∀ s ∈ q.subs, ∀ t ∈ subTidsB s, t ∈ baseTids p ∨ ∃ t0 ∈ baseTids p, t = suf s t0
  /-- the clone of the sink block is a block -/
  sinkClone : ∀ s ∈ q.subs, Tid.artificialSinkBlock (idSuffix s) ∈ subTidsB s →
    Tid.artificialSinkBlock (idSuffix s) ∈ tids s.term.blocks

theorem subTids_sublist_all (q : Program) : (tids q.subs).Sublist (allTidsB q) := by
  unfold allTidsB tids
  induction q.subs with
  | nil => exact .slnil
  | cons a l ih =>
    simp only [List.map_cons, List.flatMap_cons, subTidsB, List.cons_append]
    exact List.Sublist.cons_cons _ (ih.trans (List.sublist_append_right _ _))

/-- **Pass 4** (`make_block_to_sub_mapping_unique`) turns `Inv3` into `Inv4`. -/
theorem pass4_inv (progTid : Tid) (p q : Program) (H : TidDiscipline progTid p) (I : Inv3 progTid p q) :
    Inv4 progTid p (makeBlockToSubUnique q) := by
  have hUp : (progTid :: allTidsB q).Nodup := ((allTidsB_perm q).cons progTid).nodup_iff.mpr I.nodup
  have hU : (allTidsB q).Nodup := (List.nodup_cons.mp hUp).2
  have hbaseT : ∀ x ∈ allTidsB q, x ∈ baseTids p := fun x hx => I.tidsBase x ((allTidsB_perm q).subset hx)
  have hsubB : ∀ s ∈ q.subs, s.tid ∈ baseSubs p := fun s hs => I.subsBase _ (List.mem_map.mpr ⟨s, hs, rfl⟩)
  have fresh : ∀ s ∈ q.subs, ∀ t0 ∈ baseTids p, suf s t0 ∉ progTid :: baseTids p :=
    fun s hs t0 ht0 => H.suffixFresh t0 ht0 s.tid (hsubB s hs)
  have hsrcB : ∀ s, ∀ t0 ∈ srcTids q s, t0 ∈ baseTids p := fun s t0 h => hbaseT _ (srcTids_mem h)
  have hall : allTidsB (makeBlockToSubUnique q) =
      q.subs.flatMap (fun s => subTidsB s ++ (srcTids q s).map (suf s)) := by
    simp only [allTidsB, makeBlockToSubUnique, List.flatMap_map, uniqueSub_subTidsB]
  have hsubTidsNodup : (tids q.subs).Nodup := (subTids_sublist_all q).nodup hU
  refine ⟨?_, ?_, ?_, ?_, ?_, I.externs, ?_, ?_, ?_⟩
  · -- nodup
    rw [hall]
    refine List.nodup_cons.mpr ⟨?_, nodup_flatMap_of ?_ ?_⟩
    · intro h
      obtain ⟨s, hs, hx⟩ := List.mem_flatMap.mp h
      rcases List.mem_append.mp hx with hx | hx
      · exact (List.nodup_cons.mp hUp).1 (List.mem_flatMap.mpr ⟨s, hs, hx⟩)
      · obtain ⟨t0, ht0, e⟩ := List.mem_map.mp hx
        exact fresh s hs t0 (hsrcB s t0 ht0) (e ▸ List.mem_cons_self ..)
    · intro s hs
      refine List.nodup_append.mpr ⟨subTidsB_nodup hU hs, ?_, ?_⟩
      · exact nodup_map_of_inj (srcTids_nodup hU s) (fun a _ b _ e => withIdSuffix_inj _ e)
      · intro a ha b hb hab
        obtain ⟨t0, ht0, e⟩ := List.mem_map.mp hb
        subst hab
        exact fresh s hs t0 (hsrcB s t0 ht0)
          (e ▸ List.mem_cons_of_mem _ (hbaseT _ (List.mem_flatMap.mpr ⟨s, hs, ha⟩)))
    · have hp1 := pairwise_of_nodup_flatMap hU
      have hp2 : q.subs.Pairwise (fun a b => a.tid ≠ b.tid) := by
        have := hsubTidsNodup
        unfold List.Nodup tids at this
        exact List.pairwise_map.mp this
      refine (hp1.and hp2).imp_of_mem ?_
      intro a b ha hb ⟨hd, hne⟩ x hxa hxb
      rcases List.mem_append.mp hxa with hxa | hxa <;> rcases List.mem_append.mp hxb with hxb | hxb
      · exact hd x hxa hxb
      · obtain ⟨t0, ht0, e⟩ := List.mem_map.mp hxb
        exact fresh b hb t0 (hsrcB b t0 ht0)
          (e ▸ List.mem_cons_of_mem _ (hbaseT _ (List.mem_flatMap.mpr ⟨a, ha, hxa⟩)))
      · obtain ⟨t0, ht0, e⟩ := List.mem_map.mp hxa
        exact fresh a ha t0 (hsrcB a t0 ht0)
          (e ▸ List.mem_cons_of_mem _ (hbaseT _ (List.mem_flatMap.mpr ⟨b, hb, hxb⟩)))
      · obtain ⟨t0, ht0, e⟩ := List.mem_map.mp hxa
        obtain ⟨t0', ht0', e'⟩ := List.mem_map.mp hxb
        have hid := H.suffixInj t0 (hsrcB a t0 ht0) t0' (hsrcB b t0' ht0') a.tid (hsubB a ha) b.tid (hsubB b hb)
          (by rw [← suf_eq, ← suf_eq, e, e'])
        exact hne (H.subIds _ (hsubB a ha) _ (hsubB b hb) hid)
  · -- subsBase
    intro s4 hs4
    obtain ⟨s, hs, rfl⟩ := List.mem_map.mp hs4
    exact hsubB s hs
  · -- entry
    intro s hs
    obtain ⟨s', hs', e1, e2⟩ := I.entry s hs
    exact ⟨uniqueSub q s', List.mem_map.mpr ⟨s', hs', rfl⟩, e1, (uniqueSub_entry q s').trans e2⟩
  · -- locals
    intro s4 hs4
    obtain ⟨s, hs, rfl⟩ := List.mem_map.mp hs4
    exact uniqueSub_locals hU I.locals hs
  · -- calls
    intro s4 hs4 b4 hb4 t ht
    obtain ⟨s, hs, rfl⟩ := List.mem_map.mp hs4
    have htids : tids (makeBlockToSubUnique q).subs = tids q.subs := by
      simp [makeBlockToSubUnique, tids, List.map_map, Function.comp_def, uniqueSub_tid]
    rw [htids]
    show t ∈ tids q.subs ∨ t ∈ externTids q
    simp only [uniqueSub, List.mem_map] at hb4
    obtain ⟨b', hb', rfl⟩ := hb4
    rw [adjustBlk_call] at ht
    rcases List.mem_append.mp hb' with h | h
    · exact I.calls s hs b' h t ht
    · rw [additionalBlocks_eq] at h
      obtain ⟨b0, hb0, rfl⟩ := List.mem_map.mp h
      rw [clone_call] at ht
      obtain ⟨s2, hs2, hb2, _, _⟩ := source_is_block hb0
      exact I.calls s2 hs2 b0 hb2 t ht
  · -- shape
    intro hsh s4 hs4 b4 hb4
    obtain ⟨s, hs, rfl⟩ := List.mem_map.mp hs4
    simp only [uniqueSub, List.mem_map] at hb4
    obtain ⟨b', hb', rfl⟩ := hb4
    refine shapeOk_of_map (adjustJmp (tidToSubList q) s) (adjustJmp_isCBranch _ s) rfl ?_
    rcases List.mem_append.mp hb' with h | h
    · exact I.shape hsh s hs b' h
    · rw [additionalBlocks_eq] at h
      obtain ⟨b0, hb0, rfl⟩ := List.mem_map.mp h
      obtain ⟨s2, hs2, hb2, _, _⟩ := source_is_block hb0
      exact clone_shape _ _ (I.shape hsh s2 hs2 b0 hb2)
  · -- form
    intro s4 hs4 t ht
    obtain ⟨s, hs, rfl⟩ := List.mem_map.mp hs4
    rw [uniqueSub_subTidsB] at ht
    rcases List.mem_append.mp ht with h | h
    · exact .inl (hbaseT _ (List.mem_flatMap.mpr ⟨s, hs, h⟩))
    · obtain ⟨t0, ht0, e⟩ := List.mem_map.mp h
      exact .inr ⟨t0, hsrcB s t0 ht0, e.symm⟩
  · -- sinkClone
    intro s4 hs4 ht
    obtain ⟨s, hs, rfl⟩ := List.mem_map.mp hs4
    have hsink : Tid.artificialSinkBlock (idSuffix (uniqueSub q s)) = suf s (Tid.artificialSinkBlock "") :=
      (sinkBlock_suffix _).symm
    rw [hsink] at ht ⊢
    rw [uniqueSub_subTidsB] at ht
    have hsb : Tid.artificialSinkBlock "" ∈ baseTids p := List.mem_cons_of_mem _ (List.mem_cons_self ..)
    rcases List.mem_append.mp ht with h | h
    · exact absurd (List.mem_cons_of_mem _ (hbaseT _ (List.mem_flatMap.mpr ⟨s, hs, h⟩))) (fresh s hs _ hsb)
    · obtain ⟨t0, ht0, e⟩ := List.mem_map.mp h
      have := withIdSuffix_inj _ e
      subst this
      exact srcTids_block hU ht0 I.sinkBlk

end CweModel.C09
