/-
C09 — model of `Project::normalize_basic` (intermediate_representation/project.rs) and the
specification of the IR invariants it has to establish.

Every pass is a total function on `Program` (in the order `normalize_basic` runs them):

  1. `removeDuplicateTids`      ← `Project::remove_duplicate_tids`            (panic ↦ `dupSubPanic`)
  2. `addArtificialSinkSub`     ← `Project::add_artifical_sink`
  3. `removeReferences`         ← `Project::remove_references_to_nonexisting_tids`
                                   (`Term<Blk>::remove_nonexisting_indirect_jump_targets`,
                                    `Term<Jmp>::retarget_nonexisting_jump_targets_to_artificial_sink`)
  4. `makeBlockToSubUnique`     ← `make_block_to_sub_mapping_unique`           (unwrap panic ↦ `clonePanics`)
  5. `retargetNonReturning`     ← `Project::retarget_non_returning_calls_to_artificial_sink`
                                   (`find_non_returning_subs`, `Term<Sub>::add_artifical_sink`)

Modelling conventions: the `BTreeMap<Tid, Term<Sub>>` is the list of its values in key order and the
key of a sub is its own `tid` (that is how `pcode::Program::into_ir_program` builds the map); a
`HashSet<Tid>` is a list used only through membership; a `HashMap` filled by repeated `insert` is an
association list whose LAST entry for a key wins. Log messages are not modelled.
The order in which `make_block_to_sub_mapping_unique` appends the clones of one sub is the iteration
order of a `HashSet` in Rust (unspecified); the model appends them in DFS discovery order and the
driver compares the appended blocks as a set.
-/
import CweModel.Base.IR
import CweModel.Base.Reach
open CweModel.IR CweModel.Reach

namespace CweModel.C09

/-- the derived `BEq Tid` is lawful (needed for `Decidable (t ∈ l)`; not provided by `Base/IR`) -/
instance : LawfulBEq Tid where
  eq_of_beq {a b} h := by
    cases a; cases b
    simp only [BEq.beq] at h
    revert h
    simp [instBEqTid.beq]
  rfl {a} := by
    cases a; simp [BEq.beq, instBEqTid.beq]

/-- the TIDs of a list of terms -/
abbrev tids {α : Type} (l : List (Term α)) : List Tid := l.map (·.tid)

/-! ## Pass 1 — `remove_duplicate_tids` -/

/-- `if known_tids.insert(t.tid) { filtered.push(t) }` over a list: the first occurrence of a TID
(w.r.t. everything seen so far) is kept, later ones are REMOVED (not renamed). -/
def keep {α : Type} : List Tid → List (Term α) → List (Term α)
  | _, [] => []
  | known, t :: ts => if t.tid ∈ known then keep known ts else t :: keep (t.tid :: known) ts

/-- TIDs of the defs and jmps of a block (in the order the pass visits them) -/
def blkContentTids (b : Term Blk) : List Tid := tids b.term.defs ++ tids b.term.jmps

/-- inner loop body for one (kept) block: filter its defs, then its jmps -/
def dedupBlk (known : List Tid) (b : Term Blk) : Term Blk :=
  let defs := keep known b.term.defs
  let jmps := keep (tids defs ++ known) b.term.jmps
  { b with term := { b.term with defs := defs, jmps := jmps } }

/-- `for block in sub.term.blocks.iter_mut() { … }` (second loop over the kept blocks) -/
def dedupContents : List Tid → List (Term Blk) → List (Term Blk)
  | _, [] => []
  | known, b :: bs => dedupBlk known b :: dedupContents (blkContentTids (dedupBlk known b) ++ known) bs

/-- all TIDs of a sub in the order the pass inserts them into `known_tids`:
sub, its blocks, then defs/jmps block by block -/
def subTids (s : Term Sub) : List Tid :=
  s.tid :: (tids s.term.blocks ++ s.term.blocks.flatMap blkContentTids)

/-- loop body for one sub (after its own TID went into `known_tids`) -/
def dedupSub (known : List Tid) (s : Term Sub) : Term Sub :=
  let blks := keep (s.tid :: known) s.term.blocks
  { s with term := { s.term with blocks := dedupContents (tids blks ++ s.tid :: known) blks } }

/-- `for sub in self.program.term.subs.values_mut()`; `known` = everything inserted so far
(as a set: the TIDs of all terms kept so far plus the program TID) -/
def dedupSubs : List Tid → List (Term Sub) → List (Term Sub)
  | _, [] => []
  | known, s :: ss => dedupSub known s :: dedupSubs (subTids (dedupSub known s) ++ known) ss

/-- `panic!("Duplicate of TID {} encountered.")`: the TID of a sub is already known -/
def dupSubPanic : List Tid → List (Term Sub) → Bool
  | _, [] => false
  | known, s :: ss => decide (s.tid ∈ known) || dupSubPanic (subTids (dedupSub known s) ++ known) ss

def removeDuplicateTids (progTid : Tid) (p : Program) : Program :=
  { p with subs := dedupSubs [progTid] p.subs }

/-! ## Pass 2 — `Project::add_artifical_sink` -/

/-- `Term::<Blk>::artificial_sink(suffix)` -/
def artificialSinkBlk (suffix : String) : Term Blk :=
  { tid := Tid.artificialSinkBlock suffix, term := { defs := [], jmps := [], indirectJmpTargets := [] } }

/-- `Term::<Sub>::artificial_sink()` -/
def artificialSinkSub : Term Sub :=
  { tid := Tid.artificialSinkSub,
    term := { name := "Artificial Sink Sub", blocks := [artificialSinkBlk ""], callingConvention := none } }

/-- `BTreeMap::insert(x.tid, x)` on the key-ordered value list (an equal key is replaced) -/
def insertSub (x : Term Sub) : List (Term Sub) → List (Term Sub)
  | [] => [x]
  | s :: ss =>
    if x.tid = s.tid then x :: ss
    else if Tid.lt x.tid s.tid then x :: s :: ss
    else s :: insertSub x ss

def addArtificialSinkSub (p : Program) : Program := { p with subs := insertSub artificialSinkSub p.subs }

/-! ## Pass 3 — `remove_references_to_nonexisting_tids` -/

def blockTids (p : Program) : List Tid := p.subs.flatMap (fun s => tids s.term.blocks)
def externTids (p : Program) : List Tid := p.externSymbols.map (·.tid)

/-- `find_all_jump_targets`: sub TIDs, block TIDs and extern symbol TIDs -/
def jumpTargets (p : Program) : List Tid := tids p.subs ++ blockTids p ++ externTids p

/-- `Term<Jmp>::retarget_nonexisting_jump_targets_to_artificial_sink` (match arms in source order) -/
def retargetJmp (targets : List Tid) (j : Term Jmp) : Term Jmp :=
  match j.term with
  | .BranchInd _ => j
  | .Branch t => if t ∈ targets then j else { j with term := .Branch (Tid.artificialSinkBlock "") }
  | .CBranch t c => if t ∈ targets then j else { j with term := .CBranch (Tid.artificialSinkBlock "") c }
  | .Call tgt ret =>
    if tgt ∈ targets then
      match ret with
      | some r => if r ∈ targets then j else { j with term := .Call tgt (some (Tid.artificialSinkBlock "")) }
      | none => j
    else { j with term := .Call Tid.artificialSinkSub none }
  | .CallInd e (some r) =>
    if r ∈ targets then j else { j with term := .CallInd e (some (Tid.artificialSinkBlock "")) }
  | .CallOther d (some r) =>
    if r ∈ targets then j else { j with term := .CallOther d (some (Tid.artificialSinkBlock "")) }
  | _ => j

/-- `remove_nonexisting_indirect_jump_targets` followed by the jump loop, for one block -/
def cleanBlk (targets : List Tid) (b : Term Blk) : Term Blk :=
  { b with term := { b.term with
      jmps := b.term.jmps.map (retargetJmp targets)
      indirectJmpTargets := b.term.indirectJmpTargets.filter (fun t => decide (t ∈ targets)) } }

def mapBlocks (f : Term Blk → Term Blk) (s : Term Sub) : Term Sub :=
  { s with term := { s.term with blocks := s.term.blocks.map f } }

def removeReferences (p : Program) : Program :=
  { p with subs := p.subs.map (mapBlocks (cleanBlk (jumpTargets p))) }

/-! ## Pass 4 — `make_block_to_sub_mapping_unique` -/

/-- `HashMap::get` after a sequence of `insert`s: the last entry with that key -/
def lookupLast {β : Type} (l : List (Tid × β)) (t : Tid) : Option β :=
  (l.reverse.find? (fun e => decide (e.1 = t))).map (·.2)

/-- `generate_tid_to_sub_tid_map` (insertion order: sub, then per block: block, defs, jmps) -/
def tidToSubList (p : Program) : List (Tid × Tid) :=
  p.subs.flatMap (fun s =>
    (s.tid :: s.term.blocks.flatMap (fun b => b.tid :: blkContentTids b)).map (fun t => (t, s.tid)))

/-- `generate_block_tid_to_block_term_map` -/
def blockList (p : Program) : List (Tid × Term Blk) :=
  p.subs.flatMap (fun s => s.term.blocks.map (fun b => (b.tid, b)))

/-- `get_intraprocedural_target_or_return_block_tid` -/
def Jmp.localTarget? : Jmp → Option Tid
  | .BranchInd _ | .Return _ => none
  | .Branch t => some t
  | .CBranch t _ => some t
  | .Call _ r | .CallInd _ r | .CallOther _ r => r

/-- what the DFS pushes for one block: targets of its jmps, then its indirect jump targets -/
def succTids (b : Term Blk) : List Tid :=
  b.term.jmps.filterMap (fun j => Jmp.localTarget? j.term) ++ b.term.indirectJmpTargets

/-- successor function of the DFS (TIDs without a block have no successors); reversed because the
Rust worklist is a stack that is pushed in order and popped from the end -/
def nextTids (p : Program) (t : Tid) : List Tid :=
  match lookupLast (blockList p) t with
  | some b => (succTids b).reverse
  | none => []

/-- number of edges of the whole block graph (bounds the DFS fuel) -/
def edgeCount (p : Program) : Nat := ((blockList p).map (fun e => (succTids e.2).length)).sum

/-- `generate_sub_tid_to_contained_block_tids_map` for one sub: DFS from ALL blocks of the sub -/
def reachSet (p : Program) (s : Term Sub) : List Tid :=
  (dfs (nextTids p) (s.term.blocks.length + edgeCount p + 1) (tids s.term.blocks).reverse []).2

/-- `Term<Blk>::clone_with_tid_suffix`: targets are left unchanged -/
def cloneWithSuffix (sfx : String) (b : Term Blk) : Term Blk :=
  { tid := b.tid.withIdSuffix sfx,
    term := { defs := b.term.defs.map (fun d => { d with tid := d.tid.withIdSuffix sfx })
              jmps := b.term.jmps.map (fun j => { j with tid := j.tid.withIdSuffix sfx })
              indirectJmpTargets := b.term.indirectJmpTargets } }

/-- `Term<Sub>::id_suffix` / `format!("_{}", sub.tid)` -/
def idSuffix (s : Term Sub) : String := "_" ++ s.tid.id

/-- `duplicate_blocks_contained_in_several_subs` for one sub -/
def additionalBlocks (p : Program) (s : Term Sub) : List (Term Blk) :=
  (reachSet p s).filterMap (fun t =>
    if lookupLast (tidToSubList p) t = some s.tid then none
    else (lookupLast (blockList p) t).map (cloneWithSuffix (idSuffix s)))

/-- the `.unwrap()` on `block_tid_to_block_map.get(block_tid)` fails: a reachable TID that does not
belong to the sub is not a block at all -/
def clonePanics (p : Program) : Bool :=
  p.subs.any (fun s => (reachSet p s).any (fun t =>
    decide (lookupLast (tidToSubList p) t ≠ some s.tid) && (lookupLast (blockList p) t).isNone))

/-- one target in `append_jump_targets_with_sub_suffix_when_target_block_was_duplicated` -/
def adjustTid (m : List (Tid × Tid)) (s : Term Sub) (t : Tid) : Tid :=
  if lookupLast m t = some s.tid then t else t.withIdSuffix (idSuffix s)

def adjustJmp (m : List (Tid × Tid)) (s : Term Sub) (j : Term Jmp) : Term Jmp :=
  match j.term with
  | .BranchInd _ | .Return _ => j
  | .Branch t => { j with term := .Branch (adjustTid m s t) }
  | .CBranch t c => { j with term := .CBranch (adjustTid m s t) c }
  | .Call tgt r => { j with term := .Call tgt (r.map (adjustTid m s)) }
  | .CallInd e r => { j with term := .CallInd e (r.map (adjustTid m s)) }
  | .CallOther d r => { j with term := .CallOther d (r.map (adjustTid m s)) }

def adjustBlk (m : List (Tid × Tid)) (s : Term Sub) (b : Term Blk) : Term Blk :=
  { b with term := { b.term with
      jmps := b.term.jmps.map (adjustJmp m s)
      indirectJmpTargets := b.term.indirectJmpTargets.map (adjustTid m s) } }

/-- all maps are computed on the program BEFORE any block is added -/
def uniqueSub (p : Program) (s : Term Sub) : Term Sub :=
  { s with term := { s.term with
      blocks := (s.term.blocks ++ additionalBlocks p s).map (adjustBlk (tidToSubList p) s) } }

def makeBlockToSubUnique (p : Program) : Program := { p with subs := p.subs.map (uniqueSub p) }

/-! ## Pass 5 — `retarget_non_returning_calls_to_artificial_sink` -/

def Jmp.isReturn : Jmp → Bool
  | .Return _ => true
  | _ => false

def hasReturn (s : Term Sub) : Bool := s.term.blocks.any (fun b => b.term.jmps.any (fun j => Jmp.isReturn j.term))

/-- `find_non_returning_subs` -/
def nonReturningSubs (p : Program) : List Tid :=
  tids (p.subs.filter (fun s => !(hasReturn s || s.tid.isArtificialSinkSub)))

def findExtern (p : Program) (t : Tid) : Option ExternSymbol := p.externSymbols.find? (fun e => decide (e.tid = t))

/-- the callee is an extern symbol marked `no_return`, or (not an extern symbol and) a sub of the
program without a return instruction -/
def calleeNonReturning (p : Program) (nr : List Tid) (tgt : Tid) : Bool :=
  match findExtern p tgt with
  | some e => e.noReturn
  | none => decide (tgt ∈ nr)

/-- the jump is a `Call` with a return target that is rerouted by the pass -/
def shouldRetarget (p : Program) (nr : List Tid) (sfx : String) : Jmp → Bool
  | .Call tgt (some r) => !r.isArtificialSinkBlock sfx && calleeNonReturning p nr tgt
  | _ => false

def retargetCall (p : Program) (nr : List Tid) (sfx : String) (j : Term Jmp) : Term Jmp :=
  if shouldRetarget p nr sfx j.term then
    match j.term with
    | .Call tgt _ => { j with term := .Call tgt (some (Tid.artificialSinkBlock sfx)) }
    | _ => j
  else j

/-- `Term<Sub>::has_artifical_sink` -/
def hasArtificialSink (s : Term Sub) : Bool :=
  s.term.blocks.any (fun b => b.tid.isArtificialSinkBlock (idSuffix s))

/-- `Term<Sub>::add_artifical_sink` -/
def addArtificialSinkBlk (s : Term Sub) : Term Sub :=
  if hasArtificialSink s then s
  else { s with term := { s.term with blocks := s.term.blocks ++ [artificialSinkBlk (idSuffix s)] } }

/-- loop body for one sub -/
def retargetSub (p : Program) (nr : List Tid) (s : Term Sub) : Term Sub :=
  if s.tid.isArtificialSinkSub then s
  else
    let s' := mapBlocks (fun b => { b with term := { b.term with
                jmps := b.term.jmps.map (retargetCall p nr (idSuffix s)) } }) s
    if s.term.blocks.any (fun b => b.term.jmps.any (fun j => shouldRetarget p nr (idSuffix s) j.term))
    then addArtificialSinkBlk s' else s'

def retargetNonReturning (p : Program) : Program :=
  { p with subs := p.subs.map (retargetSub p (nonReturningSubs p)) }

/-! ## `normalize_basic` -/

/-- the program after passes 1–3 -/
def stage3 (progTid : Tid) (p : Program) : Program :=
  removeReferences (addArtificialSinkSub (removeDuplicateTids progTid p))

def normalizeBasic (progTid : Tid) (p : Program) : Program :=
  retargetNonReturning (makeBlockToSubUnique (stage3 progTid p))

/-- `normalize_basic` panics (duplicate sub TID in pass 1, or `unwrap` on a non-block in pass 4) -/
def normalizePanics (progTid : Tid) (p : Program) : Bool :=
  dupSubPanic [progTid] p.subs || clonePanics (stage3 progTid p)

/-! ## Specification: the invariants later analyses rely on -/

/-- every TID of the program (subs, blocks, defs, jmps) -/
def allTids (p : Program) : List Tid := p.subs.flatMap subTids

/-- call targets of direct calls in a block -/
def Jmp.callTarget? : Jmp → Option Tid
  | .Call t _ => some t
  | _ => none

def callTargets (b : Term Blk) : List Tid := b.term.jmps.filterMap (fun j => Jmp.callTarget? j.term)

/-- "Calls to non-returning functions return to the caller's artificial sink" for one jump of sub `s` -/
def NoRetOk (q : Program) (s : Term Sub) : Jmp → Prop
  | .Call tgt (some r) =>
    calleeNonReturning q (nonReturningSubs q) tgt = true → r = Tid.artificialSinkBlock (idSuffix s)
  | _ => True

instance (q : Program) (s : Term Sub) (j : Jmp) : Decidable (NoRetOk q s j) := by
  unfold NoRetOk; split <;> infer_instance

def Jmp.isCBranch : Jmp → Bool
  | .CBranch _ _ => true
  | _ => false

/-- input assumption of `graph.rs` ("zero, one or two jumps; in the case of two the first one is a
conditional jump"; more than two make `get_program_cfg` panic) -/
def shapeOk (b : Term Blk) : Bool :=
  match b.term.jmps with
  | [] | [_] => true
  | [j, _] => Jmp.isCBranch j.term
  | _ => false

/-- TID of the first block (`none` for an empty function) -/
def entryTid (s : Term Sub) : Option Tid := s.term.blocks.head?.map (·.tid)

/-- **The IR invariants** of the normalised program `q` obtained from the raw program `p`. -/
structure WF (progTid : Tid) (p q : Program) : Prop where
  /-- all term identifiers are unique -/
  unique : (progTid :: allTids q).Nodup
  /-- every function is still there and still starts with its original entry block -/
  entry : ∀ s ∈ p.subs, ∃ s' ∈ q.subs, s'.tid = s.tid ∧ entryTid s' = entryTid s
  /-- every direct jump target, return target and indirect-jump hint exists and is a block of the
  same function -/
  localTargets : ∀ s ∈ q.subs, ∀ b ∈ s.term.blocks, ∀ t ∈ succTids b, t ∈ tids s.term.blocks
  /-- every call target is a function or an extern symbol -/
  callTargets : ∀ s ∈ q.subs, ∀ b ∈ s.term.blocks, ∀ t ∈ callTargets b, t ∈ tids q.subs ∨ t ∈ externTids q
  /-- calls to non-returning callees return to the caller's artificial sink -/
  noReturn : ∀ s ∈ q.subs, s.tid.isArtificialSinkSub = false →
    ∀ b ∈ s.term.blocks, ∀ j ∈ b.term.jmps, NoRetOk q s j.term
  /-- the jump shape `get_program_cfg` assumes is not destroyed (if the raw blocks had it) -/
  shape : (∀ s ∈ p.subs, ∀ b ∈ s.term.blocks, shapeOk b = true) →
    ∀ s ∈ q.subs, ∀ b ∈ s.term.blocks, shapeOk b = true

/-- executable form: the name of the first violated clause -/
def wfCheck (progTid : Tid) (p q : Program) : Option String :=
  if ¬ (progTid :: allTids q).Nodup then some "unique"
  else if ¬ (∀ s ∈ p.subs, ∃ s' ∈ q.subs, s'.tid = s.tid ∧ entryTid s' = entryTid s) then some "entry"
  else if ¬ (∀ s ∈ q.subs, ∀ b ∈ s.term.blocks, ∀ t ∈ succTids b, t ∈ tids s.term.blocks) then
    (if (∀ s ∈ q.subs, ∀ b ∈ s.term.blocks, ∀ t ∈ succTids b, t ∈ blockTids q) then some "target-foreign"
     else some "target-missing")
  else if ¬ (∀ s ∈ q.subs, ∀ b ∈ s.term.blocks, ∀ t ∈ callTargets b, t ∈ tids q.subs ∨ t ∈ externTids q) then
    some "call-target"
  else if ¬ (∀ s ∈ q.subs, s.tid.isArtificialSinkSub = false →
      ∀ b ∈ s.term.blocks, ∀ j ∈ b.term.jmps, NoRetOk q s j.term) then some "noreturn"
  else if ¬ ((∀ s ∈ p.subs, ∀ b ∈ s.term.blocks, shapeOk b = true) →
      ∀ s ∈ q.subs, ∀ b ∈ s.term.blocks, shapeOk b = true) then some "jmp-shape"
  else none

/-! ## Hypotheses on the raw program ("as the P-Code extractor may emit it")

All of them are decidable; the driver evaluates them on every generated program and only then
demands `WF` of the implementation output. -/

/-- the entry block of every function is the FIRST term with its TID (so pass 1 keeps it) -/
def EntryFresh : List Tid → List (Term Sub) → Prop
  | _, [] => True
  | known, s :: ss =>
    (match s.term.blocks with
     | b :: _ => b.tid ∉ s.tid :: known
     | [] => True) ∧ EntryFresh (subTids s ++ known) ss

instance : (known : List Tid) → (ss : List (Term Sub)) → Decidable (EntryFresh known ss)
  | _, [] => isTrue trivial
  | known, s :: ss => by
    unfold EntryFresh
    have := instDecidableEntryFresh (subTids s ++ known) ss
    cases s.term.blocks <;> infer_instance

/-- TIDs and subs of the raw program together with the artificial sink sub and block -/
def baseTids (p : Program) : List Tid := Tid.artificialSinkSub :: Tid.artificialSinkBlock "" :: allTids p
def baseSubs (p : Program) : List Tid := Tid.artificialSinkSub :: tids p.subs

/-- the suffix `make_block_to_sub_mapping_unique` appends for sub TID `s` -/
def sfxOf (s : Tid) : String := "_" ++ s.id

/-- Hypotheses on the TIDs of the raw program. -/
structure TidDiscipline (progTid : Tid) (p : Program) : Prop where
  /-- no sub TID repeats an earlier TID (pass 1 would panic) -/
  noDupSub : dupSubPanic [progTid] p.subs = false
  /-- entry blocks are first occurrences -/
  entryFresh : EntryFresh [progTid] p.subs
  /-- the reserved artificial-sink TIDs are not used by the raw program -/
  sinkFresh : Tid.artificialSinkSub ∉ progTid :: allTids p ∧ Tid.artificialSinkBlock "" ∉ progTid :: allTids p
  /-- jump/return targets and indirect-jump hints are never TIDs of functions or extern symbols -/
  localKinds : ∀ s ∈ p.subs, ∀ b ∈ s.term.blocks, ∀ t ∈ succTids b, t ∉ baseSubs p ∧ t ∉ externTids p
  /-- call targets are never TIDs of blocks -/
  callKinds : ∀ s ∈ p.subs, ∀ b ∈ s.term.blocks, ∀ t ∈ callTargets b,
    t ∉ blockTids p ∧ t ≠ Tid.artificialSinkBlock ""
  /-- sub IDs determine sub TIDs (the address is a function of the ID) -/
  subIds : ∀ s ∈ baseSubs p, ∀ s' ∈ baseSubs p, s.id = s'.id → s = s'
  /-- **NoSuffixCollision**: a TID plus `"_" ++ subId` is never an existing TID … -/
  suffixFresh : ∀ t ∈ baseTids p, ∀ s ∈ baseSubs p, t.withIdSuffix (sfxOf s) ∉ progTid :: baseTids p
  /-- … and suffixing is injective across subs -/
  suffixInj : ∀ t ∈ baseTids p, ∀ t' ∈ baseTids p, ∀ s ∈ baseSubs p, ∀ s' ∈ baseSubs p,
    t.withIdSuffix (sfxOf s) = t'.withIdSuffix (sfxOf s') → s.id = s'.id
  /-- only the clone of the sink block looks like the artificial sink block of a sub -/
  sinkLike : ∀ t ∈ baseTids p, ∀ s ∈ baseSubs p,
    t.isArtificialSinkBlock (sfxOf s) = false ∧
    ((t.withIdSuffix (sfxOf s)).isArtificialSinkBlock (sfxOf s) = true → t = Tid.artificialSinkBlock "")

instance (progTid : Tid) (p : Program) : Decidable (TidDiscipline progTid p) :=
  decidable_of_iff
    (dupSubPanic [progTid] p.subs = false ∧ EntryFresh [progTid] p.subs ∧
     (Tid.artificialSinkSub ∉ progTid :: allTids p ∧ Tid.artificialSinkBlock "" ∉ progTid :: allTids p) ∧
     (∀ s ∈ p.subs, ∀ b ∈ s.term.blocks, ∀ t ∈ succTids b, t ∉ baseSubs p ∧ t ∉ externTids p) ∧
     (∀ s ∈ p.subs, ∀ b ∈ s.term.blocks, ∀ t ∈ callTargets b, t ∉ blockTids p ∧ t ≠ Tid.artificialSinkBlock "") ∧
     (∀ s ∈ baseSubs p, ∀ s' ∈ baseSubs p, s.id = s'.id → s = s') ∧
     (∀ t ∈ baseTids p, ∀ s ∈ baseSubs p, t.withIdSuffix (sfxOf s) ∉ progTid :: baseTids p) ∧
     (∀ t ∈ baseTids p, ∀ t' ∈ baseTids p, ∀ s ∈ baseSubs p, ∀ s' ∈ baseSubs p,
        t.withIdSuffix (sfxOf s) = t'.withIdSuffix (sfxOf s') → s.id = s'.id) ∧
     (∀ t ∈ baseTids p, ∀ s ∈ baseSubs p,
        t.isArtificialSinkBlock (sfxOf s) = false ∧
        ((t.withIdSuffix (sfxOf s)).isArtificialSinkBlock (sfxOf s) = true → t = Tid.artificialSinkBlock "")))
    ⟨fun ⟨a, b, c, d, e, f, g, h, i⟩ => ⟨a, b, c, d, e, f, g, h, i⟩,
     fun ⟨a, b, c, d, e, f, g, h, i⟩ => ⟨a, b, c, d, e, f, g, h, i⟩⟩

end CweModel.C09
