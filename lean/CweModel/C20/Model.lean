/-
C20 — model of `parse_format_string_parameters`
(`src/cwe_checker_lib/src/utils/arguments.rs`, after the `fix:` commit that added the `%%`
alternative) and the specification grammar of the property.

The Rust function is

    re = Regex::new(r"%%|%[+\-#0]{0,1}\d*[\.]?\d*([cC…sS]|hi|hd|…|LA)")
    re.captures_iter(s)                       -- leftmost, non-overlapping matches
      .filter_map(|cap| cap.get(1))           -- a `%%` match has no group 1: skipped
      .map(|spec| { dt = Datatype::from(spec); size = if dt is Char {int size} else {size(dt)} })
    any Long/LongLong/LongDouble  ->  Err,  else Ok(list)

`scan` is a hand-written scanner with the semantics the `regex` crate gives that literal
(leftmost-first alternation, greedy repetition, non-overlapping `captures_iter`, Unicode `\d`).
Why a greedy, non-backtracking scanner is exact for THIS regex: after `%`, a successful match
splits the rest into `p ++ spec`, where `p ∈ [+\-#0]?\d*\.?\d*` contains no letter and every
`spec` alternative starts with an ASCII letter, so `p` is forced to be the whole run of
flag/digit/dot characters before the first other character; the only ambiguity inside `p` (a
leading `0` is a flag or a width digit) does not change which strings match nor where the match
ends, and no `spec` alternative is a proper prefix of a different one that could match at the same
place (`[cC…]` has no `h`,`l`,`L`; `li` vs `lli` differ in the 2nd character). A failed attempt at
position `i` makes the regex engine retry at `i+1`; a match ending at `j` resumes at `j`.
The pieces the scanner is built from (`flagChars`, `singleSpecs`, `multiSpecs`) are the pieces
`regexChars` is rendered from, and `Props.regex_literal_is_scanner_regex` proves that rendering
is character-for-character the literal extracted from the Rust source (`Gen.C20.formatRegexChars`).
The specifier→datatype table, the size lookup and the Unicode digit table are extracted, too.
-/
import CweModel.Gen.C20Regex

namespace CweModel.C20
open CweModel.Gen.C20

/-! ### the regex, as data -/

/-- `[+\-#0]` -/
def flagChars : List Char := ['+', '-', '#', '0']

/-- `[cCdiouxXeEfFgGaAnpsS]` -/
def singleSpecs : List Char :=
  ['c', 'C', 'd', 'i', 'o', 'u', 'x', 'X', 'e', 'E', 'f', 'F', 'g', 'G', 'a', 'A', 'n', 'p', 's', 'S']

/-- `hi|hd|hu|li|ld|lu|lli|lld|llu|lf|lg|le|la|lF|lG|lE|lA|Lf|Lg|Le|La|LF|LG|LE|LA`, in order -/
def multiSpecs : List (List Char) :=
  [['h','i'], ['h','d'], ['h','u'], ['l','i'], ['l','d'], ['l','u'],
   ['l','l','i'], ['l','l','d'], ['l','l','u'],
   ['l','f'], ['l','g'], ['l','e'], ['l','a'], ['l','F'], ['l','G'], ['l','E'], ['l','A'],
   ['L','f'], ['L','g'], ['L','e'], ['L','a'], ['L','F'], ['L','G'], ['L','E'], ['L','A']]

/-- the regex text the scanner implements, rendered from the same pieces -/
def regexChars : List Char :=
  ['%', '%', '|', '%', '['] ++ flagChars.flatMap (fun c => if c = '-' then ['\\', '-'] else [c])
    ++ [']', '{', '0', ',', '1', '}', '\\', 'd', '*', '[', '\\', '.', ']', '?', '\\', 'd', '*', '(', '[']
    ++ singleSpecs ++ [']']
    ++ multiSpecs.flatMap (fun s => '|' :: s) ++ [')']

/-- `\d` in Unicode mode: general category `Decimal_Number` -/
def isDigit (c : Char) : Bool :=
  decimalRanges.any (fun r => decide (r.1 ≤ c.toNat) && decide (c.toNat ≤ r.2))

/-! ### the scanner -/

/-- first alternative of `alts` that is a prefix of `s` (leftmost-first alternation);
returns the alternative and the rest of the input -/
def firstPrefix : List (List Char) → List Char → Option (List Char × List Char)
  | [], _ => none
  | p :: ps, s => if p.isPrefixOf s then some (p, s.drop p.length) else firstPrefix ps s

/-- the capture group `([cC…sS]|hi|…|LA)` at the head of `s` -/
def matchSpec (s : List Char) : Option (List Char × List Char) :=
  match s with
  | [] => none
  | c :: rest => if singleSpecs.contains c then some ([c], rest) else firstPrefix multiSpecs s

/-- `[+\-#0]{0,1}` (greedy) -/
def dropFlag : List Char → List Char
  | [] => []
  | c :: rest => if flagChars.contains c then rest else c :: rest

/-- `[\.]?` (greedy) -/
def dropDot : List Char → List Char
  | [] => []
  | c :: rest => if c = '.' then rest else c :: rest

/-- the second alternative of the regex after its leading `%`:
`[+\-#0]{0,1}\d*[\.]?\d*(spec)`; returns (group 1, rest of the input after the match) -/
def matchConv (s : List Char) : Option (List Char × List Char) :=
  matchSpec ((dropDot ((dropFlag s).dropWhile isDigit)).dropWhile isDigit)

/-- `captures_iter` + `filter_map(group 1)`: the list of captured specifiers, in order.
`skip` = number of characters still belonging to the previous match. -/
def scanAux : Nat → List Char → List (List Char)
  | _, [] => []
  | k + 1, _ :: rest => scanAux k rest
  | 0, c :: rest =>
    if c = '%' then
      if rest.head? = some '%' then scanAux 1 rest   -- `%%`: a match without group 1, skipped
      else
        match matchConv rest with
        | some (sp, rem) => sp :: scanAux (rest.length - rem.length) rest
        | none => scanAux 0 rest                    -- no match starts here: retry at the next position
    else scanAux 0 rest

def scan (s : List Char) : List (List Char) := scanAux 0 s

/-! ### datatypes and sizes -/

/-- `Datatype::from(String)`: lookup in the extracted arms; `none` = the panicking `_` arm -/
def datatypeFrom (spec : List Char) : Option Datatype :=
  (specTable.find? (fun e => e.1 == spec)).map (·.2)

/-- the closure body of `.map(|specifier| …)`: char is promoted to the integer size -/
def paramOf (p : DatatypeProperties) (spec : List Char) : Option (Datatype × Nat) :=
  (datatypeFrom spec).map fun dt =>
    (dt, if dt = Datatype.Char then getSizeFromDataType p Datatype.Integer else getSizeFromDataType p dt)

def mapParams (p : DatatypeProperties) : List (List Char) → Option (List (Datatype × Nat))
  | [] => some []
  | s :: ss =>
    match paramOf p s, mapParams p ss with
    | some x, some xs => some (x :: xs)
    | _, _ => none

/-- `matches!(data_type, Long | LongLong | LongDouble)` -/
def notYetParsable (dt : Datatype) : Bool :=
  dt = Datatype.Long || dt = Datatype.LongLong || dt = Datatype.LongDouble

inductive Res where
  | ok (l : List (Datatype × Nat))
  | err
  | panic
deriving DecidableEq, Repr

/-- `parse_format_string_parameters` -/
def parse (p : DatatypeProperties) (s : List Char) : Res :=
  match mapParams p (scan s) with
  | none => .panic
  | some l => if l.any (fun e => notYetParsable e.1) then .err else .ok l

/-! ### Specification: the grammar of the property

`fmt ::= (lit | "%%" | conv)*`,
`conv ::= "%" flag? width? precision? (len conv-char)` with one optional flag out of `+ - # 0`,
`width ::= digit*`, `precision ::= "." digit*`, and the listed length/conversion combinations
(`Supported`). Not in the supported grammar (and not matched by the regex): `*` widths, several
flags, the space flag, `hh`/`j`/`z`/`t`, `h`/`l`/`ll` with `o x X c s n p`.
-/

inductive Flag where | plus | minus | hash | zero
deriving DecidableEq, Repr

def Flag.char : Flag → Char
  | .plus => '+' | .minus => '-' | .hash => '#' | .zero => '0'

inductive Len where | no | h | l | ll | L
deriving DecidableEq, Repr

def Len.chars : Len → List Char
  | .no => [] | .h => ['h'] | .l => ['l'] | .ll => ['l', 'l'] | .L => ['L']

inductive Cv where
  | c | C | d | i | o | u | x | X | e | E | f | F | g | G | a | A | n | p | s | S
deriving DecidableEq, Repr

def Cv.char : Cv → Char
  | .c => 'c' | .C => 'C' | .d => 'd' | .i => 'i' | .o => 'o' | .u => 'u' | .x => 'x' | .X => 'X'
  | .e => 'e' | .E => 'E' | .f => 'f' | .F => 'F' | .g => 'g' | .G => 'G' | .a => 'a' | .A => 'A'
  | .n => 'n' | .p => 'p' | .s => 's' | .S => 'S'

/-- `d i u`: the integer conversions that have `h`/`l`/`ll` forms in the supported grammar -/
def Cv.isDIU : Cv → Bool
  | .d | .i | .u => true
  | _ => false

def Cv.isFloat : Cv → Bool
  | .e | .E | .f | .F | .g | .G | .a | .A => true
  | _ => false

/-- The documented data type of a conversion (`none` = not in the supported grammar).
Written independently of the extracted table: characters are `Char`, strings and `%n` are
pointers, every floating conversion is a `Double` (float → double promotion; `l` has no effect on
them), `h` integers are promoted to `Integer`, `l`/`ll`/`L` give Long / LongLong / LongDouble.
`%p` is documented by the code's own table as `Integer` (noted in DESIGN.md C20). -/
def docType : Len → Cv → Option Datatype
  | .no, cv =>
    some (match cv with
      | .c | .C => Datatype.Char
      | .s | .S | .n => Datatype.Pointer
      | .e | .E | .f | .F | .g | .G | .a | .A => Datatype.Double
      | .d | .i | .o | .u | .x | .X | .p => Datatype.Integer)
  | .h, cv => if cv.isDIU then some Datatype.Integer else none
  | .l, cv => if cv.isDIU then some Datatype.Long else if cv.isFloat then some Datatype.Double else none
  | .ll, cv => if cv.isDIU then some Datatype.LongLong else none
  | .L, cv => if cv.isFloat then some Datatype.LongDouble else none

/-- The documented size of an argument of the given type in the variadic argument list:
`char` arguments are promoted to `int`. Written out per type, independent of the extracted
`getSizeFromDataType`. -/
def docSize (p : DatatypeProperties) : Datatype → Nat
  | .Char => p.integer_size
  | .Integer => p.integer_size
  | .Pointer => p.pointer_size
  | .Double => p.double_size
  | .Long => p.long_size
  | .LongLong => p.long_long_size
  | .LongDouble => p.long_double_size
  | .Float => p.float_size
  | .Short => p.short_size

/-- one ASCII decimal digit -/
def digitChar (d : Fin 10) : Char := Char.ofNat (48 + d.val)

structure Conv where
  flag  : Option Flag
  width : List (Fin 10)
  prec  : Option (List (Fin 10))
  len   : Len
  cv    : Cv
deriving DecidableEq, Repr

def Conv.Supported (c : Conv) : Prop := (docType c.len c.cv).isSome = true

instance (c : Conv) : Decidable c.Supported := by unfold Conv.Supported; infer_instance

inductive Item where
  | lit (c : Char)       -- any character but `%`
  | esc                  -- `%%`
  | conv (c : Conv)
deriving DecidableEq, Repr

def Item.WF : Item → Prop
  | .lit c => c ≠ '%'
  | .esc => True
  | .conv c => c.Supported

instance (i : Item) : Decidable i.WF := by cases i <;> unfold Item.WF <;> infer_instance

/-- a derivation of the grammar -/
def WF (items : List Item) : Prop := ∀ i ∈ items, i.WF

instance (items : List Item) : Decidable (WF items) := by unfold WF; infer_instance

def Conv.specChars (c : Conv) : List Char := c.len.chars ++ [c.cv.char]

def Conv.flagText (c : Conv) : List Char :=
  match c.flag with | none => [] | some f => [f.char]

def Conv.precText (c : Conv) : List Char :=
  match c.prec with | none => [] | some ds => '.' :: ds.map digitChar

/-- the text of a conversion after its `%` -/
def Conv.tail (c : Conv) : List Char :=
  c.flagText ++ c.width.map digitChar ++ c.precText ++ c.specChars

def Item.render : Item → List Char
  | .lit c => [c]
  | .esc => ['%', '%']
  | .conv c => '%' :: c.tail

/-- the format string a derivation denotes -/
def render (items : List Item) : List Char := items.flatMap Item.render

/-- the arguments the format consumes: one entry per conversion, in order -/
def conversions (p : DatatypeProperties) : List Item → List (Datatype × Nat)
  | [] => []
  | .conv c :: rest =>
    match docType c.len c.cv with
    | some dt => (dt, docSize p dt) :: conversions p rest
    | none => conversions p rest
  | _ :: rest => conversions p rest

def Conv.isLong (c : Conv) : Bool :=
  match docType c.len c.cv with
  | some dt => notYetParsable dt
  | none => false

/-- the derivation contains a long / long long / long double conversion -/
def hasLong : List Item → Bool
  | [] => false
  | .conv c :: rest => c.isLong || hasLong rest
  | _ :: rest => hasLong rest

/-- executable specification: expected result for a grammar derivation -/
def specParse (p : DatatypeProperties) (items : List Item) : Res :=
  if hasLong items then .err else .ok (conversions p items)

end CweModel.C20
