/- C20 model driver: runs the scanner model and the grammar specification on harness cases.

case line: {"s": format string, "p": {DatatypeProperties sizes}, "items": [derivation]?, "impl": result}
  items: {"t": "literal text"} | {"e": 1} | {"f": flag, "w": digits, "p": null|digits, "l": len, "c": conv}
  impl : "ok:Integer/4,Pointer/8" | "err" | "panic:…"
With a derivation (grammar stream) the implementation output is compared with the executable
specification `specParse`; without one (malformed stream) only model ≡ implementation is required. -/
import CweModel.Base.Proto
import CweModel.C20.Model
open Lean CweModel.Proto CweModel.Gen.C20

namespace CweModel.C20

def dtName : Datatype → String
  | .Char => "Char" | .Double => "Double" | .Float => "Float" | .Integer => "Integer"
  | .LongDouble => "LongDouble" | .LongLong => "LongLong" | .Long => "Long"
  | .Pointer => "Pointer" | .Short => "Short"

def showRes : Res → String
  | .ok l => "ok:" ++ ",".intercalate (l.map fun e => s!"{dtName e.1}/{e.2}")
  | .err => "err"
  | .panic => "panic"

def parseProps (j : Json) : Except String DatatypeProperties := do
  return { char_size := ← natF j "char_size", double_size := ← natF j "double_size",
           float_size := ← natF j "float_size", integer_size := ← natF j "integer_size",
           long_double_size := ← natF j "long_double_size", long_long_size := ← natF j "long_long_size",
           long_size := ← natF j "long_size", pointer_size := ← natF j "pointer_size",
           short_size := ← natF j "short_size" }

def parseDigits (s : String) : Except String (List (Fin 10)) :=
  mapM' (fun c : Char =>
    if h : 48 ≤ c.toNat ∧ c.toNat < 58 then .ok ⟨c.toNat - 48, by omega⟩ else .error "bad digit") s.toList

def parseCv (s : String) : Except String Cv :=
  match s with
  | "c" => .ok .c | "C" => .ok .C | "d" => .ok .d | "i" => .ok .i | "o" => .ok .o | "u" => .ok .u
  | "x" => .ok .x | "X" => .ok .X | "e" => .ok .e | "E" => .ok .E | "f" => .ok .f | "F" => .ok .F
  | "g" => .ok .g | "G" => .ok .G | "a" => .ok .a | "A" => .ok .A | "n" => .ok .n | "p" => .ok .p
  | "s" => .ok .s | "S" => .ok .S
  | _ => .error s!"bad conversion {s}"

def parseItem (j : Json) : Except String (List Item) := do
  if let some t := optF j "t" then
    return (← t.getStr?).toList.map Item.lit
  if (optF j "e").isSome then
    return [Item.esc]
  let flag ← match ← strF j "f" with
    | "" => pure none | "+" => pure (some Flag.plus) | "-" => pure (some Flag.minus)
    | "#" => pure (some Flag.hash) | "0" => pure (some Flag.zero)
    | f => throw s!"bad flag {f}"
  let width ← parseDigits (← strF j "w")
  let prec ← match optF j "p" with
    | some (.str ds) => do pure (some (← parseDigits ds))
    | _ => pure none
  let len ← match ← strF j "l" with
    | "" => pure Len.no | "h" => pure Len.h | "l" => pure Len.l | "ll" => pure Len.ll | "L" => pure Len.L
    | l => throw s!"bad length {l}"
  let cv ← parseCv (← strF j "c")
  return [Item.conv { flag, width, prec, len, cv }]

/-- what kind of difference there is between the expected and the observed result -/
def diffKind (expected impl : String) : String :=
  if impl.startsWith "panic" then "panic"
  else if (expected == "err") != (impl == "err") then "long"
  else
    let f (s : String) := ((s.drop 3).toString.splitOn ",").filter (· ≠ "")
    let e := f expected
    let i := f impl
    if e.length != i.length then "count"
    else if e.map (fun x => (x.splitOn "/").head!) != i.map (fun x => (x.splitOn "/").head!) then "type"
    else "size"

def bucket (n : Nat) : String := if n ≥ 3 then "3+" else toString n

def handleE (line : String) : Except String String := do
  let j ← Json.parse line
  let s := (← strF j "s").toList
  let p ← parseProps (← field j "p")
  let impl ← strF j "impl"
  let model := showRes (parse p s)
  match optF j "items" with
  | some (.arr itemsJ) =>
    let items := (← mapM' parseItem itemsJ.toList).flatten
    if ¬ decide (WF items) then throw "derivation is not well-formed"
    if render items != s then throw "derivation does not render to the format string"
    let expected := showRes (specParse p items)
    let esc := if items.contains Item.esc then "esc" else "plain"
    if impl != expected then
      return s!"spec class={esc}-{diffKind expected impl} expected={expected} impl={impl} model={model}"
    if impl != model then
      return s!"diff class=grammar-{esc} model={model} impl={impl}"
    let lg := if hasLong items then " long" else ""
    return s!"ok grammar constrained {esc}{lg} nconv={bucket (scan s).length}"
  | _ =>
    if impl != model then
      return s!"diff class=malformed model={model} impl={impl}"
    return s!"ok malformed modelonly nconv={bucket (scan s).length}"

end CweModel.C20

def main : IO Unit := CweModel.Proto.runDriver (CweModel.Proto.guarded CweModel.C20.handleE)
