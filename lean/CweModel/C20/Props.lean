/-
C20 — property theorems. Statement of the property:

  For every format string made of literal text, '%%' escapes and conversion specifications in
  the supported grammar (one optional flag, optional width and precision, the listed conversion
  and length forms), the extracted variadic parameter list is, in order, one entry per
  argument-consuming conversion with its documented data type and size; format strings with
  long/long long/long double conversions are rejected rather than mis-parsed.

`Model.lean` holds the scanner model of the (repaired) Rust code and the grammar; here:
  * the regex literal found in the Rust source is the regex the scanner is built from,
  * every specifier the scanner can capture has an arm in the extracted `Datatype::from` table
    (the `_ => panic!` arm is unreachable),
  * for EVERY derivation of the grammar the scanner returns exactly the conversions of the
    derivation, in order, with the documented types and sizes, or `Err` if one of them is long.
-/
import CweModel.C20.Model

namespace CweModel.C20
open CweModel.Gen.C20

/-! ### the generated tables against the hand-written pieces -/

/-- **C20-regex.** The regex literal extracted from the Rust source is, character for character,
the regex the scanner implements (`%%|%[+\-#0]{0,1}\d*[\.]?\d*([cC…sS]|hi|…|LA)` rendered from
`flagChars`, `singleSpecs`, `multiSpecs`). -/
theorem regex_literal_is_scanner_regex : formatRegexChars = regexChars := by decide

/-- every string the capture group can yield -/
def allSpecs : List (List Char) := singleSpecs.map (fun c => [c]) ++ multiSpecs

theorem allSpecs_have_datatype : ∀ sp ∈ allSpecs, (datatypeFrom sp).isSome = true := by decide

/-- ASCII digits are `\d`; `%`, `.`, the flags other than `0` and the specifier letters are not -/
theorem isDigit_digitChar (d : Fin 10) : isDigit (digitChar d) = true := by
  revert d; decide

/-! ### the scanner on single items -/

theorem scanAux_skip (xs rest : List Char) : scanAux xs.length (xs ++ rest) = scanAux 0 rest := by
  induction xs with
  | nil => rfl
  | cons x xs ih => simpa [scanAux] using ih

theorem scanAux_lit (c : Char) (h : c ≠ '%') (rest : List Char) :
    scanAux 0 (c :: rest) = scanAux 0 rest := by
  simp [scanAux, h]

theorem scanAux_esc (rest : List Char) : scanAux 0 ('%' :: '%' :: rest) = scanAux 0 rest := by
  simp [scanAux]

/-- at a `%` that is not followed by `%` the second alternative of the regex is tried -/
theorem scanAux_pct_some (r sp rem : List Char) (h : r.head? ≠ some '%')
    (hm : matchConv r = some (sp, rem)) :
    scanAux 0 ('%' :: r) = sp :: scanAux (r.length - rem.length) r := by
  rw [scanAux]
  simp only [↓reduceIte, h, hm]

/-- the head of the list is neither a `\d` nor a flag character (and the list is not empty) -/
def Stop (z : List Char) : Prop :=
  ∃ c r, z = c :: r ∧ isDigit c = false ∧ c ∉ flagChars ∧ c ≠ '%'

theorem dropWhile_digits (ds : List (Fin 10)) (z : List Char) (hz : Stop z) :
    (ds.map digitChar ++ z).dropWhile isDigit = z := by
  induction ds with
  | nil =>
    obtain ⟨c, r, rfl, hc, _, _⟩ := hz
    simp [hc]
  | cons d ds ih => simpa [List.dropWhile, isDigit_digitChar] using ih

theorem dropFlag_digits (ds : List (Fin 10)) (z : List Char) (hz : Stop z) :
    (dropFlag (ds.map digitChar ++ z)).dropWhile isDigit = z := by
  cases ds with
  | nil =>
    obtain ⟨c, r, rfl, hc, hf, _⟩ := hz
    simp [dropFlag, hf, hc]
  | cons d ds =>
    simp only [List.map_cons, List.cons_append, dropFlag]
    split
    · exact dropWhile_digits ds z hz
    · exact dropWhile_digits (d :: ds) z hz

theorem dropFlag_flag (f : Flag) (y : List Char) : dropFlag (f.char :: y) = y := by
  cases f <;> simp [dropFlag, Flag.char, flagChars]

theorem stop_dot (y : List Char) : Stop ('.' :: y) := ⟨'.', y, rfl, by decide, by decide, by decide⟩

theorem stop_spec' (len : Len) (cv : Cv) (h : (docType len cv).isSome = true) (rest : List Char) :
    Stop (len.chars ++ [cv.char] ++ rest) := by
  cases len <;> cases cv <;>
    first
    | (simp [docType, Cv.isDIU, Cv.isFloat] at h; done)
    | exact ⟨_, _, rfl, by decide, by decide, by decide⟩

theorem stop_spec (c : Conv) (h : c.Supported) (rest : List Char) : Stop (c.specChars ++ rest) :=
  stop_spec' c.len c.cv h rest

theorem head_ne_pct_of_stop {z : List Char} (hz : Stop z) : z.head? ≠ some '%' := by
  obtain ⟨c, r, rfl, _, _, hp⟩ := hz
  simpa using hp

/-- the capture group reads exactly the specifier of a supported conversion, whatever follows -/
theorem matchSpec_spec' (len : Len) (cv : Cv) (h : (docType len cv).isSome = true) (rest : List Char) :
    matchSpec (len.chars ++ [cv.char] ++ rest) = some (len.chars ++ [cv.char], rest) := by
  cases len <;> cases cv <;>
    first
    | (simp [docType, Cv.isDIU, Cv.isFloat] at h; done)
    | simp [Len.chars, Cv.char, matchSpec, singleSpecs, multiSpecs, firstPrefix]

theorem matchSpec_spec (c : Conv) (h : c.Supported) (rest : List Char) :
    matchSpec (c.specChars ++ rest) = some (c.specChars, rest) :=
  matchSpec_spec' c.len c.cv h rest

theorem dropDot_spec' (len : Len) (cv : Cv) (rest : List Char) :
    dropDot (len.chars ++ [cv.char] ++ rest) = len.chars ++ [cv.char] ++ rest := by
  cases len <;> cases cv <;> rfl

theorem dropDot_spec (c : Conv) (_h : c.Supported) (rest : List Char) :
    dropDot (c.specChars ++ rest) = c.specChars ++ rest :=
  dropDot_spec' c.len c.cv rest

/-- after the optional flag and the width the scanner stands at the precision or the specifier -/
theorem flag_width (c : Conv) (z : List Char) (hz : Stop z) :
    (dropFlag (c.flagText ++ (c.width.map digitChar ++ z))).dropWhile isDigit
      = z := by
  unfold Conv.flagText
  cases hf : c.flag with
  | none => simpa using dropFlag_digits c.width z hz
  | some f =>
    simp only [List.cons_append, List.nil_append, dropFlag_flag]
    exact dropWhile_digits c.width z hz

theorem matchConv_conv (c : Conv) (h : c.Supported) (rest : List Char) :
    matchConv (c.tail ++ rest) = some (c.specChars, rest) := by
  have hs := stop_spec c h rest
  unfold matchConv Conv.tail Conv.precText
  cases hp : c.prec with
  | none =>
    simp only [List.append_assoc, List.nil_append]
    rw [flag_width c _ hs]
    rw [dropDot_spec c h rest]
    obtain ⟨x, r, hx, hd, _, _⟩ := hs
    rw [hx]
    simp only [List.dropWhile, hd]
    rw [← hx]; exact matchSpec_spec c h rest
  | some ds =>
    simp only [List.append_assoc, List.cons_append]
    rw [flag_width c _ (stop_dot _)]
    simp only [dropDot, ↓reduceIte]
    rw [dropWhile_digits ds _ hs]
    exact matchSpec_spec c h rest

theorem tail_ne_pct (c : Conv) (h : c.Supported) (rest : List Char) : (c.tail ++ rest).head? ≠ some '%' := by
  have hs := stop_spec c h rest
  unfold Conv.tail Conv.flagText Conv.precText
  cases hf : c.flag with
  | some f => cases f <;> simp [Flag.char]
  | none =>
    cases hw : c.width with
    | cons d ds =>
      have := isDigit_digitChar d
      simp only [List.nil_append, List.map_cons, List.cons_append, List.head?_cons, ne_eq, Option.some.injEq]
      intro e
      rw [e] at this
      revert this; decide
    | nil =>
      cases hp : c.prec with
      | some ps => simp
      | none =>
        simp only [List.map_nil, List.append_nil, List.nil_append]
        exact head_ne_pct_of_stop hs

/-- a supported conversion followed by anything: exactly its specifier is captured and the scan
resumes right behind it -/
theorem scanAux_conv (c : Conv) (h : c.Supported) (rest : List Char) :
    scanAux 0 ('%' :: c.tail ++ rest) = c.specChars :: scanAux 0 rest := by
  rw [List.cons_append, scanAux_pct_some _ _ _ (tail_ne_pct c h rest) (matchConv_conv c h rest)]
  have : (c.tail ++ rest).length - rest.length = c.tail.length := by simp
  rw [this, scanAux_skip]

/-! ### the scanner on derivations -/

/-- the specifier strings of the conversions of a derivation, in order -/
def specStrings : List Item → List (List Char)
  | [] => []
  | .conv c :: rest => c.specChars :: specStrings rest
  | _ :: rest => specStrings rest

/-- **C20-scan.** On the rendering of ANY derivation of the grammar the leftmost non-overlapping
scan captures exactly the specifiers of the derivation's conversions, in order: literal text
(even text that looks like a specifier) and `%%` contribute nothing. -/
theorem scan_render (items : List Item) (hwf : WF items) : scan (render items) = specStrings items := by
  unfold scan
  induction items with
  | nil => rfl
  | cons it items ih =>
    have hit : it.WF := hwf it (List.mem_cons_self ..)
    have ih' := ih (fun i hi => hwf i (List.mem_cons_of_mem _ hi))
    simp only [render, List.flatMap_cons] at ih' ⊢
    cases it with
    | lit c => simpa [Item.render, specStrings, scanAux_lit c hit] using ih'
    | esc => simpa [Item.render, specStrings, scanAux_esc] using ih'
    | conv c =>
      simp only [Item.render, specStrings]
      rw [scanAux_conv c hit, ih']

/-! ### data types and sizes -/

/-- the extracted `Datatype::from` table gives every supported conversion its documented type -/
theorem datatypeFrom_doc (len : Len) (cv : Cv) (h : (docType len cv).isSome = true) :
    datatypeFrom (len.chars ++ [cv.char]) = docType len cv := by
  revert h
  cases len <;> cases cv <;> decide

/-- the extracted size lookup with the char promotion is the documented size -/
theorem size_doc (p : DatatypeProperties) (dt : Datatype) :
    (if dt = Datatype.Char then getSizeFromDataType p Datatype.Integer else getSizeFromDataType p dt)
      = docSize p dt := by
  cases dt <;> rfl

theorem paramOf_conv (p : DatatypeProperties) (c : Conv) (dt : Datatype) (h : docType c.len c.cv = some dt) :
    paramOf p c.specChars = some (dt, docSize p dt) := by
  have := datatypeFrom_doc c.len c.cv (by rw [h]; rfl)
  simp only [paramOf, Conv.specChars, this, h, Option.map_some, size_doc]

theorem mapParams_specStrings (p : DatatypeProperties) (items : List Item) (hwf : WF items) :
    mapParams p (specStrings items) = some (conversions p items) := by
  induction items with
  | nil => rfl
  | cons it items ih =>
    have hit : it.WF := hwf it (List.mem_cons_self ..)
    have ih' := ih (fun i hi => hwf i (List.mem_cons_of_mem _ hi))
    cases it with
    | lit c => simpa [specStrings, conversions] using ih'
    | esc => simpa [specStrings, conversions] using ih'
    | conv c =>
      obtain ⟨dt, hdt⟩ := Option.isSome_iff_exists.mp hit
      simp only [specStrings, conversions, mapParams, paramOf_conv p c dt hdt, ih', hdt]

theorem any_long_conversions (p : DatatypeProperties) (items : List Item) :
    (conversions p items).any (fun e => notYetParsable e.1) = hasLong items := by
  induction items with
  | nil => rfl
  | cons it items ih =>
    cases it with
    | lit c => simpa [conversions, hasLong] using ih
    | esc => simpa [conversions, hasLong] using ih
    | conv c =>
      simp only [conversions, hasLong, Conv.isLong]
      cases hdt : docType c.len c.cv with
      | none => simpa using ih
      | some dt => simp [ih]

/-! ### the property -/

/-- The model of `parse_format_string_parameters` on a derivation is the executable specification. -/
theorem parse_render_eq_spec (p : DatatypeProperties) (items : List Item) (hwf : WF items) :
    parse p (render items) = specParse p items := by
  simp only [parse, scan_render items hwf, mapParams_specStrings p items hwf, any_long_conversions, specParse]

/-- **C20-parse.** For every derivation of the grammar without long/long long/long double
conversions, the extracted parameter list is, in order, one entry per conversion with its
documented data type and size (nothing for literal text and `%%`). -/
theorem parse_grammar (p : DatatypeProperties) (items : List Item) (hwf : WF items)
    (hl : hasLong items = false) : parse p (render items) = .ok (conversions p items) := by
  rw [parse_render_eq_spec p items hwf, specParse, hl]; rfl

/-- **C20-long.** A derivation containing a long, long long or long double conversion is rejected
(`Err`), whatever else it contains. -/
theorem parse_long_rejected (p : DatatypeProperties) (items : List Item) (hwf : WF items)
    (hl : hasLong items = true) : parse p (render items) = .err := by
  rw [parse_render_eq_spec p items hwf, specParse, hl]; rfl

/-- `conversions` has exactly one entry per conversion item of the derivation (this is what
"one entry per argument-consuming conversion" means; order is the order of the items). -/
theorem conversions_length (p : DatatypeProperties) (items : List Item) (hwf : WF items) :
    (conversions p items).length = (items.filter (fun i => match i with | .conv _ => true | _ => false)).length := by
  induction items with
  | nil => rfl
  | cons it items ih =>
    have hit : it.WF := hwf it (List.mem_cons_self ..)
    have ih' := ih (fun i hi => hwf i (List.mem_cons_of_mem _ hi))
    cases it with
    | lit c => simpa [conversions] using ih'
    | esc => simpa [conversions] using ih'
    | conv c =>
      obtain ⟨dt, hdt⟩ := Option.isSome_iff_exists.mp hit
      simp [conversions, hdt, ih']

/-! ### the `_ => panic!` arm of `Datatype::from` is unreachable, for ALL strings -/

theorem firstPrefix_mem {alts : List (List Char)} {s sp r : List Char}
    (h : firstPrefix alts s = some (sp, r)) : sp ∈ alts := by
  induction alts with
  | nil => simp [firstPrefix] at h
  | cons a as ih =>
    simp only [firstPrefix] at h
    split at h
    · simp only [Option.some.injEq, Prod.mk.injEq] at h; simp [h.1]
    · exact List.mem_cons_of_mem _ (ih h)

theorem matchSpec_mem {s sp r : List Char} (h : matchSpec s = some (sp, r)) : sp ∈ allSpecs := by
  unfold matchSpec at h
  split at h
  · cases h
  · split at h
    · rename_i c rest hc
      simp only [Option.some.injEq, Prod.mk.injEq] at h
      rw [← h.1]
      exact List.mem_append_left _ (List.mem_map.mpr ⟨c, List.contains_iff_mem.mp hc, rfl⟩)
    · exact List.mem_append_right _ (firstPrefix_mem h)

theorem scanAux_mem (k : Nat) (s : List Char) : ∀ sp ∈ scanAux k s, sp ∈ allSpecs := by
  induction s generalizing k with
  | nil => intro sp h; simp [scanAux] at h
  | cons c rest ih =>
    cases k with
    | succ k => simpa [scanAux] using ih k
    | zero =>
      intro sp h
      rw [scanAux] at h
      split at h
      · split at h
        · exact ih _ sp h
        · split at h
          · rename_i sp' rem hm
            rcases List.mem_cons.mp h with rfl | h'
            · exact matchSpec_mem hm
            · exact ih _ sp h'
          · exact ih _ sp h
      · exact ih _ sp h

theorem mapParams_isSome (p : DatatypeProperties) (l : List (List Char)) (h : ∀ sp ∈ l, sp ∈ allSpecs) :
    (mapParams p l).isSome = true := by
  induction l with
  | nil => rfl
  | cons sp l ih =>
    have h1 := allSpecs_have_datatype sp (h sp (List.mem_cons_self ..))
    have h2 := ih (fun x hx => h x (List.mem_cons_of_mem _ hx))
    obtain ⟨dt, hdt⟩ := Option.isSome_iff_exists.mp h1
    obtain ⟨xs, hxs⟩ := Option.isSome_iff_exists.mp h2
    simp [mapParams, paramOf, hdt, hxs]

/-- **C20-total.** For EVERY string (grammatical or not) the captured specifiers all have an arm in
`Datatype::from`: the model never reaches the panicking `_` arm. -/
theorem parse_never_panics (p : DatatypeProperties) (s : List Char) : parse p s ≠ .panic := by
  have h := mapParams_isSome p (scan s) (scanAux_mem 0 s)
  obtain ⟨xs, hxs⟩ := Option.isSome_iff_exists.mp h
  unfold parse
  rw [hxs]
  simp only
  split <;> simp

/-! ### non-vacuity: concrete derivations -/

/-- `"100%%d %s"` (defect D6): literal `100`, `%%`, literal `d `, conversion `%s` -/
def d6 : List Item :=
  [.lit '1', .lit '0', .lit '0', .esc, .lit 'd', .lit ' ',
   .conv { flag := none, width := [], prec := none, len := .no, cv := .s }]

def x64 : DatatypeProperties :=
  { char_size := 1, double_size := 8, float_size := 4, integer_size := 4, long_double_size := 8,
    long_long_size := 8, long_size := 8, pointer_size := 8, short_size := 2 }

example : WF d6 := by decide
example : render d6 = ['1', '0', '0', '%', '%', 'd', ' ', '%', 's'] := by decide
example : hasLong d6 = false := by decide
example : parse x64 (render d6) = .ok [(Datatype.Pointer, 8)] := by decide

/-- `"%-08.3lf|%hd%c%lld"` -/
def mixed : List Item :=
  [.conv { flag := some .minus, width := [0, 8], prec := some [3], len := .l, cv := .f }, .lit '|',
   .conv { flag := none, width := [], prec := none, len := .h, cv := .d },
   .conv { flag := none, width := [], prec := none, len := .no, cv := .c },
   .conv { flag := none, width := [], prec := none, len := .ll, cv := .d }]

example : WF mixed := by decide
example : hasLong mixed = true := by decide
example : parse x64 (render mixed) = .err := by decide
example : parse x64 (render (mixed.dropLast)) = .ok [(Datatype.Double, 8), (Datatype.Integer, 4), (Datatype.Char, 4)] := by
  decide
/-- outside the grammar nothing is claimed: `%lx` is not matched at all -/
example : parse x64 ['%', 'l', 'x'] = .ok [] := by decide

end CweModel.C20
