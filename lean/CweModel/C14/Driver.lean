/- C14 driver: evaluates the proved oracle (`solveB`), the restricted notion (`solveR`) and the
register model (`solveM`) on the project of each harness case and compares them with the parameters
reported by the real `compute_function_signatures`. -/
import CweModel.Base.Proto
import CweModel.C14.Model
open Lean CweModel.Proto CweModel.IR CweModel.Reach

namespace CweModel.C14

def subset (a b : List Nat) : Bool := a.all b.contains
def showRegs (U : List Variable) (l : List Nat) : String :=
  "[" ++ ",".intercalate (l.map fun i => ((U[i]?).map (·.name)).getD s!"#{i}") ++ "]"

/-- kinds of the nodes that make `r` exposed in `f` (reachable goal nodes) -/
def goalKinds (P : FProg) (T : Tables) (f r : Nat) (goal : Nat → Bool) (calleeTag : Bool) : List String :=
  let n := P.size f
  let reach := reachable (edgesOf (nextR P T f r) n) [0]
  ((reach.filter goal).map fun m =>
    match P.node f m with
    | none => "?"
    | some nd => if calleeTag && !nd.reads.contains r then "callee-path" else nd.kind).eraseDups

def kindRank : List String :=
  ["assign", "load", "store", "cbranch", "call-extern", "callind", "branchind", "call-internal",
   "return", "call-extern-noreturn", "callee-path"]

def bestKind (ks : List String) : String :=
  match kindRank.find? ks.contains with
  | some k => k
  | none => ks.headD "none"

/-- no `Store` of a plain register anywhere (then the id of a parameter register can only reach another
place through an instruction that reads the register, and model = implementation is expected) -/
def noSpill (p : Project) : Bool :=
  p.program.subs.all fun s => s.term.blocks.all fun b => b.term.defs.all fun d =>
    match d.term with
    | .Store _ (.Var _) => false
    | _ => true

/-- `true` was used while the repair of `lost-read-at-exit` (/repo 21184aa) was not yet in /repo: accept the
signatures of the unrepaired analysis as well and keep their misses under the then known class -/
def interim : Bool := false

def handleE (line : String) : Except String String := do
  let j ← Json.parse line
  let p ← parseProject (← field j "project")
  let implJ ← field j "impl"
  if let .ok s := implJ.getStr? then
    return s!"spec class=impl-{s.take 70} expected=signatures impl={s.take 80}"
  let U := regUniverse p
  let nregs := U.length
  let P := compile p
  let fuel := P.length * (nregs + 1) + 2
  let (TB, fixB) := solveB P nregs fuel (Tables.empty P.length)
  -- the analysis' own view: an indirect call reads all parameter registers (`extra`)
  let P' : FProg := P.map fun fn => { fn with nodes := fn.nodes.map fun nd => { nd with reads := nd.reads ++ nd.extra } }
  let (TR, fixR) := solveR P' nregs fuel (Tables.empty P.length)
  if !fixB || !fixR then throw "summary iteration did not reach a fixpoint"
  -- the same without "a return register the callee leaves untouched survives an internal call"
  let Pn := compileWith p false
  let Pn' : FProg := Pn.map fun fn => { fn with nodes := fn.nodes.map fun nd => { nd with reads := nd.reads ++ nd.extra } }
  let (TRn, _) := solveR Pn' nregs fuel (Tables.empty P.length)
  let implSubs ← implJ.getArr?
  let mut tags : List String := []
  let mut diffs : List String := []
  let mut specs : List (String × String) := []
  let mut idx := 0
  for s in p.program.subs do
    let f := idx
    idx := idx + 1
    let some ij := implSubs.toList.find? (fun ij => (strF ij "tid").toOption == some s.tid.id)
      | throw s!"no implementation output for {s.tid.id}"
    let names ← (← arrF ij "regs").mapM (fun x => x.getStr?)
    let impl := (names.filterMap fun n => let i := U.findIdx (·.name == n); if i < nregs then some i else none)
    let params := ((P[f]?).map (·.params)).getD []
    let specB := (TB.summ f).filter params.contains
    let sigOld := params.filter fun r => flaggedB P TR f r (fun _ => true)
    let sigX := params.filter fun r => flaggedXB P TR f r
    let sigX' := params.filter fun r => flaggedXB P' TR f r
    let sigOld' := params.filter fun r => flaggedB P' TR f r (fun _ => true)
    -- model
    let nn := P.size f
    let σ := solveM P TR f (nn * (2 * nregs + 2) + 2) (startSol P f)
    let closed := closedB P TR f σ && (sweep P TR f σ == σ)
    let modelNew := maskToList nregs (allFlagsX P f σ)
    let modelOld := maskToList nregs (allFlags σ)
    let useNew := !interim || subset modelNew impl
    let model := if useNew then modelNew else modelOld
    let sigR := if useNew then sigX else sigOld
    let sigR' := if useNew then sigX' else sigOld'
    let mret := (maskToList nregs (retFlags P f σ))
    let missing := specB.filter (fun r => !impl.contains r)
    for r in missing do
      if sigX.contains r then
        let k := bestKind (goalKinds P TR f r (goalX P TR f r) false)
        if interim && !sigOld.contains r then
          specs := specs ++ [("lost-read-at-exit", s!"{s.tid.id}:{showRegs U [r]}:{k}")]
        else
          let k := if flaggedXB Pn TRn f r then k else "after-call"
          specs := specs ++ [(s!"missed-{k}", s!"{s.tid.id}:{showRegs U [r]}")]
      else
        specs := specs ++ [("lost-read-in-callee", s!"{s.tid.id}:{showRegs U [r]}")]
    if !closed then diffs := diffs ++ [s!"{s.tid.id}:model-not-closed"]
    if !subset sigR sigR' || !subset sigR' model || !subset model sigR' then
      diffs := diffs ++ [s!"{s.tid.id}:oracleR={showRegs U sigR}/oracleR'={showRegs U sigR'}/model={showRegs U model}"]
    if !subset mret (TR.summ f) || !subset (TR.summ f) mret then
      diffs := diffs ++ [s!"{s.tid.id}:summaryR={showRegs U (TR.summ f)}/modelret={showRegs U mret}"]
    if !subset model impl then
      diffs := diffs ++ [s!"{s.tid.id}:model={showRegs U model}/impl={showRegs U impl}"]
    else if noSpill p && !subset impl model then
      diffs := diffs ++ [s!"{s.tid.id}:nospill:model={showRegs U model}/impl={showRegs U impl}"]
    tags := tags ++ [if specB.isEmpty then "fn-noparams" else "fn-params",
                     if subset impl model then "fn-model=impl" else "fn-model<impl"]
    if specB.length != sigR.length then tags := tags ++ ["fn-B>R"]
    if sigX.any (fun r => !flaggedXB Pn TRn f r) then tags := tags ++ ["fn-read-after-preserving-call"]
    if modelNew.length != modelOld.length then tags := tags ++ [if useNew then "fn-exit-reads-recorded" else "fn-exit-reads-lost"]
  match specs with
  | (cls, d) :: _ =>
    -- the most ordinary class first
    let pick := (specs.find? (fun (c, _) => c.startsWith "missed-")).getD (cls, d)
    return s!"spec class={pick.1} expected=reported:{pick.2} all={specs.map (·.2)}".replace "\n" " "
  | [] =>
    match diffs with
    | d :: _ => return s!"diff class=model-vs-impl model={d} impl=see-case"
    | [] => return "ok " ++ " ".intercalate (tags ++ [if noSpill p then "nospill" else "spill"])

end CweModel.C14

def main : IO Unit := CweModel.Proto.runDriver (CweModel.Proto.guarded CweModel.C14.handleE)
