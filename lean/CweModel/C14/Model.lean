/-
C14 — function signatures never miss a register parameter.

Anchors: `analysis/function_signature/mod.rs` (`compute_function_signatures`,
`extract_fn_signatures_from_fixpoint`), `context/mod.rs` (`update_def`, `update_jump`,
`specialize_conditional`, `update_call_stub`, `update_return`), `state/mod.rs`
(`set_read_flag_for_input_ids_of_expression`, `merge`), `state/call_handling/mod.rs`
(`handle_generic_extern_symbol`, `handle_unknown_function_stub`, `clear_non_callee_saved_register`,
`merge_parameter_access`, `get_params_of_current_function`).

This file contains
 §1 *flow programs*: the reading of an IR project that the specification is stated on — per function
    a list of instruction nodes with the registers the instruction READS, the registers it
    OVERWRITES, its successors and (for calls to internal functions) the callee;
 §2 `compile : Project → FProg` (the definition of "read"/"overwritten" per IR instruction);
 §3 the SPECIFICATION: `Exposed P f n r` (inductive, interprocedural: some path from node `n` of
    function `f` reads register `r` before any instruction on the path overwrites it; a call to an
    internal function reads what the callee exposes; control continues behind a call only if the
    callee can return, `CanRet`), and its table-relative path form `ExposedT`;
 §4 the executable ORACLE: backward reachability (`Base.Reach.coreachable`) in the graph of
    `r`-preserving edges, call summaries computed by Kleene iteration (`iterB`);
 §5 the restricted notions `FlaggedT` / `FlaggedX` (reads the analysis records by design: `FlaggedX` =
    every read performed by an instruction of the function itself — since the repair of
    `extract_fn_signatures_from_fixpoint` also by instructions without successor — plus the reads of a
    callee that lie on a path that returns (`FlaggedT` with the can-return target, used for the summaries));
 §6 the MODEL of the register fragment of `function_signature::State`: per node the set of parameter
    registers that still hold their entry-value id (`holds`) and the set of ids whose read flag is set
    (`flags`), as a `Base.Fix.Problem`.

What "read" and "overwritten" mean (decided by reading the code, see `compile`):
 * `Assign v e` reads the input variables of `e`, overwrites `v`; `Load v a` reads the inputs of `a`,
   overwrites `v`; `Store a e` reads the inputs of `a` and of `e`, EXCEPT a register spill: a stored
   plain register `Store a (Var x)` is not a read of `x` if the address `a` is a slot of the function's
   own stack frame on EVERY path ("prevent flagging callee-saved registers as parameters"). If on
   SOME path reaching the store the address is a value that is certainly not derived from the stack
   pointer (the entry value of another register, a constant, a call result, or arithmetic on such
   values) the store writes `x` to caller-visible memory and IS a read of `x` (`mayNonStack`, a forward
   may-analysis of "stack pointer ± constant" / "certainly not stack" / "unknown" per register, §2).
   Addresses that are only "unknown" (loaded values, masked stack pointers) are not demanded.
 * `CBranch` reads the inputs of its condition, `BranchInd`/`Return`/`CallInd` those of the target.
 * a call to an extern symbol reads the input variables of its declared parameters (register
   expressions, and address expressions of stack parameters); a call to an internal function reads
   what the callee exposes at its entry.
 * every call overwrites all registers that are not callee-saved in the callee's calling convention
   (`clear_non_callee_saved_register`) — EXCEPT, for a call to an internal function, a RETURN register
   of the callee's calling convention that the callee may leave untouched: if some returning path of
   the callee does not overwrite it (`presRegs`, Kleene iteration over the functions), the register
   still holds the caller's value behind the call (`compute_return_values_of_call` translates the
   callee's entry id of the register back to the caller's value). Control continues at the return
   block only if the callee can return (extern: `!no_return`; internal: a `Return` is reachable).
Registers are numbered by their position in `regUniverse` (all parameter registers of all calling
conventions of the project).
-/
import CweModel.Base.IR
import CweModel.Base.Reach
import CweModel.Base.Fix

namespace CweModel.C14
open CweModel.IR CweModel.Reach

/-! ## §1 Flow programs -/

structure FNode where
  /-- registers read by the instruction itself -/
  reads : List Nat := []
  /-- registers the analysis additionally assumes to be read (indirect call: all parameter registers
  of the standard calling convention, `handle_unknown_function_stub`); used by the model only -/
  extra : List Nat := []
  /-- registers whose value is overwritten when control leaves the node -/
  kills : List Nat := []
  /-- successor nodes in the same function (for calls: the return block) -/
  succ  : List Nat := []
  /-- callee (index of an internal function) -/
  call  : Option Nat := none
  isRet : Bool := false
  /-- instruction kind (only used to classify failures) -/
  kind  : String := ""
deriving Repr, DecidableEq, Inhabited

structure FFn where
  nodes : List FNode
  /-- parameter registers of the function's calling convention (without the stack register) -/
  params : List Nat := []
deriving Repr, DecidableEq, Inhabited

abbrev FProg := List FFn

def FProg.node (P : FProg) (f n : Nat) : Option FNode := (P[f]?).bind (·.nodes[n]?)
def FProg.size (P : FProg) (f : Nat) : Nat := ((P[f]?).map (·.nodes.length)).getD 0

/-- call summaries: `cr[g]` = "`g` can return", `sm[g]` = registers a call to `g` reads -/
structure Tables where
  cr : List Bool
  sm : List (List Nat)
deriving Repr, DecidableEq, Inhabited

def Tables.canRet (T : Tables) (g : Nat) : Bool := T.cr.getD g false
def Tables.summ (T : Tables) (g : Nat) : List Nat := T.sm.getD g []
def Tables.empty (n : Nat) : Tables := ⟨List.replicate n false, List.replicate n []⟩

/-- successors along which control can actually continue -/
def feasSucc (P : FProg) (T : Tables) (f n : Nat) : List Nat :=
  match P.node f n with
  | none => []
  | some nd =>
    match nd.call with
    | none => nd.succ
    | some g => if T.canRet g then nd.succ else []

/-- … that in addition keep the value of `r` -/
def nextR (P : FProg) (T : Tables) (f r n : Nat) : List Nat :=
  match P.node f n with
  | none => []
  | some nd => if nd.kills.contains r then [] else feasSucc P T f n

def isRetNode (P : FProg) (f n : Nat) : Bool :=
  match P.node f n with
  | none => false
  | some nd => nd.isRet

/-- node `m` reads `r` (itself, or through the summary of its callee) -/
def goalB (P : FProg) (T : Tables) (f r m : Nat) : Bool :=
  match P.node f m with
  | none => false
  | some nd => nd.reads.contains r || (match nd.call with | some g => (T.summ g).contains r | none => false)

/-! ## §3 Specification -/

/-- **`CanRet P f n`**: from node `n` of function `f` a `Return` can be reached (calls on the way return). -/
inductive CanRet (P : FProg) : Nat → Nat → Prop where
  | ret {f n : Nat} {nd : FNode} : P.node f n = some nd → nd.isRet = true → CanRet P f n
  | step {f n q : Nat} {nd : FNode} : P.node f n = some nd → nd.call = none → q ∈ nd.succ →
      CanRet P f q → CanRet P f n
  | call {f n q g : Nat} {nd : FNode} : P.node f n = some nd → nd.call = some g → CanRet P g 0 →
      q ∈ nd.succ → CanRet P f q → CanRet P f n

/-- **`Exposed P f n r`** (the property's "can be read on some path before being overwritten", started
at node `n`; the function's parameters are `Exposed P f 0 r`). -/
inductive Exposed (P : FProg) : Nat → Nat → Nat → Prop where
  | read {f n r : Nat} {nd : FNode} : P.node f n = some nd → r ∈ nd.reads → Exposed P f n r
  | callee {f n r g : Nat} {nd : FNode} : P.node f n = some nd → nd.call = some g →
      Exposed P g 0 r → Exposed P f n r
  | step {f n q r : Nat} {nd : FNode} : P.node f n = some nd → r ∉ nd.kills → nd.call = none →
      q ∈ nd.succ → Exposed P f q r → Exposed P f n r
  | stepCall {f n q r g : Nat} {nd : FNode} : P.node f n = some nd → r ∉ nd.kills → nd.call = some g →
      CanRet P g 0 → q ∈ nd.succ → Exposed P f q r → Exposed P f n r

/-- path form relative to call summaries `T` -/
def CanRetT (P : FProg) (T : Tables) (f n : Nat) : Prop :=
  ∃ m, Reach (feasSucc P T f) n m ∧ isRetNode P f m = true

def ExposedT (P : FProg) (T : Tables) (f n r : Nat) : Prop :=
  ∃ m, Reach (nextR P T f r) n m ∧ goalB P T f r m = true

/-! ## §4 Oracle -/

/-- the edge list of a successor function on the nodes `0..n-1` -/
def edgesOf (next : Nat → List Nat) (n : Nat) : Graph Nat Unit :=
  (List.range n).flatMap (fun a => (next a).map (fun b => (⟨a, b, ()⟩ : Edge Nat Unit)))

/-- nodes of `0..n-1` from which a node satisfying `goal` is reachable along `next` -/
def coreach (next : Nat → List Nat) (n : Nat) (goal : Nat → Bool) : List Nat :=
  coreachable (edgesOf next n) ((List.range n).filter goal)

def canRetNodes (P : FProg) (T : Tables) (f : Nat) : List Nat :=
  coreach (feasSucc P T f) (P.size f) (isRetNode P f)

def canRetB (P : FProg) (T : Tables) (f : Nat) : Bool := (canRetNodes P T f).contains 0

def exposedNodes (P : FProg) (T : Tables) (f r : Nat) : List Nat :=
  coreach (nextR P T f r) (P.size f) (goalB P T f r)

def exposedB (P : FProg) (T : Tables) (f r : Nat) : Bool := (exposedNodes P T f r).contains 0

/-- one round of the summary computation (`nregs` = size of the register universe) -/
def roundB (P : FProg) (nregs : Nat) (T : Tables) : Tables :=
  { cr := (List.range P.length).map (canRetB P T),
    sm := (List.range P.length).map (fun f => (List.range nregs).filter (exposedB P T f)) }

def iterB (P : FProg) (nregs : Nat) : Nat → Tables
  | 0 => Tables.empty P.length
  | k + 1 => roundB P nregs (iterB P nregs k)

/-- iterate until the tables are stable (at most `fuel` rounds); returns the tables and whether
they are a fixpoint of `roundB` -/
def solveB (P : FProg) (nregs : Nat) : Nat → Tables → Tables × Bool
  | 0, T => (T, decide (roundB P nregs T = T))
  | fuel + 1, T =>
    let T' := roundB P nregs T
    if T' = T then (T, true) else solveB P nregs fuel T'

/-! ## §5 What the analysis can record by design -/

/-- `m` reads `r` and has a successor `m'` (where the read flag is recorded) with `tgt m'` -/
def goalR (P : FProg) (T : Tables) (f r : Nat) (tgt : Nat → Bool) (m : Nat) : Bool :=
  goalB P T f r m && (feasSucc P T f m).any tgt

def FlaggedT (P : FProg) (T : Tables) (f r : Nat) (tgt : Nat → Bool) : Prop :=
  ∃ m, Reach (nextR P T f r) 0 m ∧ goalR P T f r tgt m = true

def flaggedB (P : FProg) (T : Tables) (f r : Nat) (tgt : Nat → Bool) : Bool :=
  (coreach (nextR P T f r) (P.size f) (goalR P T f r tgt)).contains 0

/-- `m` reads `r` itself (any instruction, with or without successor), or through the summary of its
callee when the call has a successor (the callee returns) -/
def goalX (P : FProg) (T : Tables) (f r m : Nat) : Bool :=
  (match P.node f m with | some nd => nd.reads.contains r | none => false) ||
  goalR P T f r (fun _ => true) m

/-- the reads the (repaired) analysis records in the signature of `f` -/
def FlaggedX (P : FProg) (T : Tables) (f r : Nat) : Prop :=
  ∃ m, Reach (nextR P T f r) 0 m ∧ goalX P T f r m = true

def flaggedXB (P : FProg) (T : Tables) (f r : Nat) : Bool :=
  (coreach (nextR P T f r) (P.size f) (goalX P T f r)).contains 0

/-- one round for the restricted notion: `sm[g]` = parameter registers of `g` read in `g` on a path
that returns (`get_params_of_current_function` of the callee state at the return site) -/
def roundR (P : FProg) (nregs : Nat) (T : Tables) : Tables :=
  { cr := (List.range P.length).map (canRetB P T),
    sm := (List.range P.length).map (fun f =>
      let cr := canRetNodes P T f
      let params := ((P[f]?).map (·.params)).getD []
      (List.range nregs).filter (fun r => params.contains r && flaggedB P T f r (fun m => cr.contains m))) }

def solveR (P : FProg) (nregs : Nat) : Nat → Tables → Tables × Bool
  | 0, T => (T, decide (roundR P nregs T = T))
  | fuel + 1, T =>
    let T' := roundR P nregs T
    if T' = T then (T, true) else solveR P nregs fuel T'

/-! ## §6 Model of the register fragment of `function_signature::State` -/

/-- bit set of a list of register numbers -/
def maskOf (l : List Nat) : Nat := l.foldl (fun m i => m ||| (1 <<< i)) 0

/-- `holds`: parameter registers whose value still references the id of their own entry value
(`State::new` puts `id(r)` into register `r`); `flags`: ids whose access pattern has a flag set
(`tracked_ids`, `AccessPattern::is_accessed`). Both as bit sets. -/
structure St where
  holds : Nat
  flags : Nat
deriving Repr, DecidableEq, Inhabited

/-- `State::merge`: registers merge their values (an id held on either side is held: `DataDomain::merge`
keeps the relative targets of both sides, `MergeTopStrategy` keeps non-`Top` values), access patterns
are merged flag-wise (`UnionMergeStrategy`, `AccessPattern::merge`) -/
def St.join (a b : St) : St := ⟨a.holds ||| b.holds, a.flags ||| b.flags⟩

/-- the effect of one instruction on the state that flows to a successor:
`set_read_flag_for_input_ids_of_expression` (a read register that still holds its entry id gets its
read flag set), then `set_register` / `clear_non_callee_saved_register` for the overwritten registers. -/
def transfer (readMask killMask : Nat) (s : St) : St :=
  ⟨s.holds ^^^ (s.holds &&& killMask), s.flags ||| (s.holds &&& readMask)⟩

def readMaskOf (T : Tables) (nd : FNode) : Nat :=
  maskOf (nd.reads ++ nd.extra ++ (match nd.call with | some g => T.summ g | none => []))

/-- the fixpoint problem of function `f`: one edge per feasible successor -/
def problem (P : FProg) (T : Tables) (f : Nat) : Fix.Problem St :=
  { edges := (List.range (P.size f)).flatMap (fun n =>
      match P.node f n with
      | none => []
      | some nd => (feasSucc P T f n).map (fun q =>
          (⟨n, q, fun s => some (transfer (readMaskOf T nd) (maskOf nd.kills) s)⟩ : Fix.Edge St))),
    join := St.join }

/-- start state of the entry node (`State::new`): every parameter register holds its id, no flags -/
def initSt (P : FProg) (f : Nat) : St := ⟨maskOf (((P[f]?).map (·.params)).getD []), 0⟩

abbrev Sol := List (Option St)

def Sol.get (σ : Sol) (n : Nat) : Option St := (σ[n]?).join

def joinOpt (x : St) : Option St → St
  | none => x
  | some b => St.join x b

/-- one sweep over all edges (chaotic iteration; the order does not matter for the least solution) -/
def sweep (P : FProg) (T : Tables) (f : Nat) (σ : Sol) : Sol :=
  (problem P T f).edges.foldl (fun σ e =>
    match Sol.get σ e.src with
    | none => σ
    | some a =>
      match e.f a with
      | none => σ
      | some x => σ.set e.dst (some (joinOpt x (Sol.get σ e.dst)))) σ

def solveM (P : FProg) (T : Tables) (f : Nat) : Nat → Sol → Sol
  | 0, σ => σ
  | fuel + 1, σ =>
    let σ' := sweep P T f σ
    if σ' = σ then σ else solveM P T f fuel σ'

def startSol (P : FProg) (f : Nat) : Sol :=
  (List.range (P.size f)).map (fun n => if n = 0 then some (initSt P f) else none)

/-- executable closedness check (`Fix.Closed`) -/
def closedB (P : FProg) (T : Tables) (f : Nat) (σ : Sol) : Bool :=
  (problem P T f).edges.all (fun e =>
    match Sol.get σ e.src with
    | none => true
    | some a =>
      match e.f a with
      | none => true
      | some x =>
        match Sol.get σ e.dst with
        | none => false
        | some b => St.join x b = b)

/-- `extract_fn_signatures_from_fixpoint`: merge the access patterns of ALL node states -/
def addFlags (m : Nat) : Option St → Nat
  | some s => m ||| s.flags
  | none => m
def allFlags (σ : Sol) : Nat := σ.foldl addFlags 0

/-- flags at the `Return` nodes (what a caller sees of the callee: the state at the return site) -/
def retFlags (P : FProg) (f : Nat) (σ : Sol) : Nat :=
  (List.range (P.size f)).foldl (fun m n =>
    if isRetNode P f n then (match Sol.get σ n with | some s => m ||| s.flags | none => m) else m) 0

/-- registers the instruction itself reads (without the summary of a callee) -/
def localMask (nd : FNode) : Nat := maskOf (nd.reads ++ nd.extra)

/-- `Context::get_state_after_jump_accesses` + `merge_with_fn_sig_of_state`: the flags of a node state
after the read accesses of the node's own instruction -/
def exitFlags (nd : FNode) (s : St) : Nat := s.flags ||| (s.holds &&& localMask nd)

/-- `extract_fn_signatures_from_fixpoint` (after the repair): merge the access patterns of all node
states and, for every node state, also the accesses of the instruction at that node — so that the
reads of instructions without successor (return target, indirect jump without known target, call that
does not return) are part of the signature -/
def exitFlagsAt (P : FProg) (f n : Nat) (s : St) : Nat :=
  match P.node f n with
  | some nd => exitFlags nd s
  | none => s.flags

def contribX (P : FProg) (f : Nat) (σ : Sol) (n : Nat) : Nat :=
  match Sol.get σ n with
  | some s => exitFlagsAt P f n s
  | none => 0

def allFlagsX (P : FProg) (f : Nat) (σ : Sol) : Nat :=
  (List.range σ.length).foldl (fun m n => m ||| contribX P f σ n) 0

def maskToList (nregs m : Nat) : List Nat := (List.range nregs).filter (fun i => m.testBit i)

/-! ## §2 Compilation of an IR project -/

/-- `CallingConvention::get_all_parameter_register` -/
def ccAllParams (cc : CallingConvention) : List Variable :=
  cc.integerParameterRegister ++ cc.floatParameterRegister.flatMap (·.inputVars)

/-- `Project::get_standard_calling_convention` -/
def standardCc (p : Project) : Option CallingConvention :=
  (p.callingConventions.find? (·.name == "__stdcall")).orElse fun _ =>
  (p.callingConventions.find? (·.name == "__cdecl")).orElse fun _ =>
  p.callingConventions.find? (·.name == "__thiscall")

/-- `Project::get_specific_calling_convention` -/
def specificCc (p : Project) (name : Option String) : Option CallingConvention :=
  (name.bind fun n => p.callingConventions.find? (·.name == n)).orElse fun _ => standardCc p

/-- all parameter registers of all calling conventions, without duplicates, without the stack register -/
def regUniverse (p : Project) : List Variable :=
  ((p.callingConventions.flatMap ccAllParams).filter (· != p.stackPointerRegister)).eraseDups

def regIdx (U : List Variable) (vs : List Variable) : List Nat :=
  (vs.filterMap (fun v => let i := U.idxOf v; if i < U.length then some i else none)).eraseDups

/-- registers of the universe that are NOT callee-saved in `cc` -/
def clobbered (U : List Variable) (cc : Option CallingConvention) : List Nat :=
  match cc with
  | none => []
  | some cc => (List.range U.length).filter (fun i => match U[i]? with
      | some v => !cc.calleeSavedRegister.contains v
      | none => false)

def argReads : Arg → List Variable
  | .Register e _ => e.inputVars
  | .Stack a _ _ => a.inputVars

def blockSize (b : Term Blk) : Nat := b.term.defs.length + 1 + b.term.jmps.length

/-- index of the first node of the block with tid `t` in a sub with blocks `bs` -/
def blockStart (bs : List (Term Blk)) (t : Tid) : Option Nat :=
  go bs 0
where
  go : List (Term Blk) → Nat → Option Nat
    | [], _ => none
    | b :: rest, off => if b.tid == t then some off else go rest (off + blockSize b)

/-! ### which stored plain registers are spills? -/

/-- what a value may be: the stack pointer ± constant, certainly not derived from the stack pointer,
or unknown (may-flags) -/
structure Cls where
  stack : Bool
  non : Bool
  unk : Bool
deriving DecidableEq, Repr, Inhabited

def Cls.join (a b : Cls) : Cls := ⟨a.stack || b.stack, a.non || b.non, a.unk || b.unk⟩
def Cls.onlyNon : Cls := ⟨false, true, false⟩
def Cls.onlyStack : Cls := ⟨true, false, false⟩
def Cls.onlyUnk : Cls := ⟨false, false, true⟩

/-- classes of the variables `vars` (aligned lists) -/
abbrev ClsEnv := List Cls

def clsGet (vars : List Variable) (env : ClsEnv) (v : Variable) : Cls :=
  let i := vars.idxOf v
  env.getD i Cls.onlyUnk

def clsSet (vars : List Variable) (env : ClsEnv) (v : Variable) (c : Cls) : ClsEnv :=
  env.set (vars.idxOf v) c

/-- entry values: the stack pointer is the stack, every other register holds a non-stack value -/
def clsEntry (sp : Variable) (vars : List Variable) : ClsEnv :=
  vars.map fun v => if v == sp then Cls.onlyStack else Cls.onlyNon

def exprCls (vars : List Variable) (env : ClsEnv) : Expression → Cls
  | .Var v => clsGet vars env v
  | .Const _ _ => Cls.onlyNon
  | .BinOp .IntAdd l (.Const _ _) => exprCls vars env l
  | .BinOp .IntSub l (.Const _ _) => exprCls vars env l
  | .BinOp .IntAdd (.Const _ _) r => exprCls vars env r
  | e =>
    if e.inputVars.all (fun v => clsGet vars env v == Cls.onlyNon) &&
       (match e with | .Unknown _ _ => false | _ => true) then Cls.onlyNon else Cls.onlyUnk

def clsDef (vars : List Variable) (env : ClsEnv) (d : Def) : ClsEnv :=
  match d with
  | .Assign v e => clsSet vars env v (exprCls vars env e)
  | .Load v _ => clsSet vars env v Cls.onlyUnk
  | .Store _ _ => env

/-- after a call: the stack pointer and callee-saved registers keep their value, everything else holds
a value produced by the callee (not a slot of this frame) -/
def clsAfterCall (sp : Variable) (saved : List Variable) (vars : List Variable) (env : ClsEnv) : ClsEnv :=
  (vars.zip env).map fun (v, c) => if v == sp || saved.contains v then c else Cls.onlyNon

/-- (target block index, environment) pairs leaving a block -/
def clsOut (returns : Tid → Bool) (sp : Variable) (saved vars : List Variable) (bs : List (Term Blk)) (b : Term Blk)
    (env : ClsEnv) : List (Nat × ClsEnv) :=
  let idx (t : Tid) : List Nat := (bs.findIdx? (·.tid == t)).toList
  let one (j : Jmp) : List (Nat × ClsEnv) :=
    match j with
    | .Branch t | .CBranch t _ => (idx t).map (·, env)
    | .BranchInd _ => (b.term.indirectJmpTargets.flatMap idx).map (·, env)
    | .Call t (some r) => if returns t then (idx r).map (·, clsAfterCall sp saved vars env) else []
    | .CallInd _ (some r) => (idx r).map (·, clsAfterCall sp saved vars env)
    | _ => []
  (b.term.jmps.take 2).flatMap (fun j => one j.term)

def clsSweep (returns : Tid → Bool) (sp : Variable) (saved vars : List Variable) (bs : List (Term Blk)) (st : List (Option ClsEnv)) :
    List (Option ClsEnv) :=
  (List.range bs.length).foldl (fun st i =>
    match bs[i]?, (st[i]?).join with
    | some b, some env =>
      let envEnd := b.term.defs.foldl (fun e d => clsDef vars e d.term) env
      (clsOut returns sp saved vars bs b envEnd).foldl (fun st (t, e) =>
        st.set t (some (match (st[t]?).join with
          | some old => List.zipWith Cls.join old e
          | none => e))) st
    | _, _ => st) st

def clsSolve (returns : Tid → Bool) (sp : Variable) (saved vars : List Variable) (bs : List (Term Blk)) :
    Nat → List (Option ClsEnv) → List (Option ClsEnv)
  | 0, st => st
  | fuel + 1, st =>
    let st' := clsSweep returns sp saved vars bs st
    if st' = st then st else clsSolve returns sp saved vars bs fuel st'

/-- tids of the `Store a (Var x)` defs of a function whose address may be a non-stack value on some
path (`returns t`: control continues behind a call to `t`) -/
def nonSpillStores (p : Project) (returns : Tid → Bool) (s : Term Sub) : List Tid :=
  let bs := s.term.blocks
  let sp := p.stackPointerRegister
  let saved := match standardCc p with | some cc => cc.calleeSavedRegister | none => []
  let defVars (d : Def) : List Variable := match d with
    | .Assign v e => v :: e.inputVars
    | .Load v a => v :: a.inputVars
    | .Store a e => a.inputVars ++ e.inputVars
  let vars := (sp :: bs.flatMap fun b => b.term.defs.flatMap fun d => defVars d.term).eraseDups
  let start : List (Option ClsEnv) := (List.range bs.length).map fun i => if i = 0 then some (clsEntry sp vars) else none
  let sol := clsSolve returns sp saved vars bs (bs.length * (3 * vars.length + 1) + 2) start
  (List.range bs.length).flatMap fun i =>
    match bs[i]?, (sol[i]?).join with
    | some b, some env =>
      (b.term.defs.foldl (fun (acc : ClsEnv × List Tid) d =>
        let hit := match d.term with
          | .Store a (.Var _) => (exprCls vars acc.1 a).non
          | _ => false
        (clsDef vars acc.1 d.term, if hit then d.tid :: acc.2 else acc.2)) (env, [])).2
    | _, _ => []

def compileDef (U : List Variable) (nonSpill : List Tid) (me : Nat) (t : Tid) (d : Def) : FNode :=
  match d with
  | .Assign v e => { reads := regIdx U e.inputVars, kills := regIdx U [v], succ := [me + 1], kind := "assign" }
  | .Load v a => { reads := regIdx U a.inputVars, kills := regIdx U [v], succ := [me + 1], kind := "load" }
  | .Store a e =>
    let vr := match e with
      | .Var x => if nonSpill.contains t then [x] else []
      | _ => e.inputVars
    { reads := regIdx U (a.inputVars ++ vr), succ := [me + 1], kind := "store" }

/-- return registers of a calling convention (`compute_return_values_of_call`) -/
def ccReturnRegs (cc : CallingConvention) : List Variable :=
  cc.integerReturnRegister ++ cc.floatReturnRegister.flatMap (·.inputVars)

def compileJmp (p : Project) (U : List Variable) (pres : Nat → List Nat) (bs : List (Term Blk)) (b : Term Blk)
    (me : Nat) (hasNext : Bool) (j : Jmp) : FNode :=
  let tgt (t : Tid) : List Nat := (blockStart bs t).toList
  let ret (r : Option Tid) : List Nat := match r with | some t => tgt t | none => []
  match j with
  | .Branch t => { succ := tgt t, kind := "branch" }
  | .CBranch t c => { reads := regIdx U c.inputVars, succ := tgt t ++ (if hasNext then [me + 1] else []), kind := "cbranch" }
  | .BranchInd e => { reads := regIdx U e.inputVars, succ := b.term.indirectJmpTargets.flatMap tgt, kind := "branchind" }
  | .Return e => { reads := regIdx U e.inputVars, isRet := true, kind := "return" }
  | .CallOther _ _ => { kind := "callother" }
  | .CallInd e r =>
    { reads := regIdx U e.inputVars,
      extra := match standardCc p with | some cc => regIdx U (ccAllParams cc) | none => [],
      kills := clobbered U (standardCc p),
      succ := match standardCc p with | some _ => ret r | none => [],
      kind := "callind" }
  | .Call t r =>
    match p.program.findExtern t with
    | some s =>
      let cc := match s.callingConvention with
        | some n => p.callingConventions.find? (·.name == n)
        | none => standardCc p
      { reads := regIdx U (s.parameters.flatMap argReads), kills := clobbered U cc,
        succ := if s.noReturn then [] else ret r,
        kind := if s.noReturn then "call-extern-noreturn" else "call-extern" }
    | none =>
      match p.program.subs.findIdx? (·.tid == t) with
      | some g =>
        let cc := specificCc p ((p.program.subs[g]?).bind (·.term.callingConvention))
        { kills := (clobbered U cc).filter (fun r => !(pres g).contains r),
          succ := match cc with | some _ => ret r | none => [],
          call := some g, kind := "call-internal" }
      | none => { kind := "call-unknown" }

/-- does the analysis reach this jump (as second jump of a block) through a `Jump` edge that also
carries the condition of the first jump (`Edge::Jump(jump, Some(untaken_conditional))`)? Calls and
returns leave the `BlkEnd` node through their own edges, which do not evaluate the condition. -/
def viaCondEdge : Jmp → Bool
  | .Branch _ | .BranchInd _ | .CBranch _ _ => true
  | _ => false

/-- nodes of a block: one per `Def`, the `BlkEnd` node, one per `Jmp` (at most two).
For `[CBranch c t, j]`: the `CBranch` node reads `c` and leads to `t`; `j` is reached from the
`CBranch` node if the analysis records the read of `c` on the way to `j` (`viaCondEdge`), otherwise
directly from `BlkEnd` (for the specification both are the same: a `CBranch` overwrites nothing). -/
def compileBlock (p : Project) (U : List Variable) (nonSpill : List Tid) (pres : Nat → List Nat) (bs : List (Term Blk)) (off : Nat) (b : Term Blk) : List FNode :=
  let nd := b.term.defs.length
  let nj := b.term.jmps.length
  let defs := (List.range nd).zipWith (fun i d => compileDef U nonSpill (off + i) d.tid d.term) b.term.defs
  let second : Option Jmp := match b.term.jmps with
    | j0 :: j1 :: _ => (match j0.term with | .CBranch _ _ => some j1.term | _ => none)
    | _ => none
  let direct : Bool := match second with | some j => !viaCondEdge j | none => false
  let blkEnd : FNode :=
    { succ := (if nj > 0 then [off + nd + 1] else []) ++ (if direct then [off + nd + 2] else []), kind := "blkend" }
  let jmps := (List.range nj).zipWith (fun i j =>
    compileJmp p U pres bs b (off + nd + 1 + i) (i == 0 && second.isSome && !direct) j.term) b.term.jmps
  defs ++ [blkEnd] ++ jmps

def compileSub (p : Project) (U : List Variable) (nonSpill : List Tid) (pres : Nat → List Nat) (s : Term Sub) : FFn :=
  let bs := s.term.blocks
  let rec go : List (Term Blk) → Nat → List FNode
    | [], _ => []
    | b :: rest, off => compileBlock p U nonSpill pres bs off b ++ go rest (off + blockSize b)
  { nodes := go bs 0,
    params := match specificCc p s.term.callingConvention with
      | some cc => regIdx U (ccAllParams cc)
      | none => [] }

/-- return registers (of the function's own calling convention, as register numbers) that function `g`
may leave untouched: some path from its entry to a `Return` overwrites the register nowhere — one round
relative to the flow program `P` (whose internal-call nodes already spare what their callees preserve) -/
def presRound (p : Project) (U : List Variable) (P : FProg) (T : Tables) (g : Nat) : List Nat :=
  let cc := specificCc p ((p.program.subs[g]?).bind (·.term.callingConvention))
  let rets := match cc with | some cc => regIdx U (ccReturnRegs cc) | none => []
  rets.filter fun r => (coreach (nextR P T g r) (P.size g) (isRetNode P g)).contains 0

/-- The compilation has three passes, because the control structure (successors, callees, returns) does
not depend on what is read or overwritten: (1) which calls return (`solveB` on the structure);
(2) which return registers each function may leave untouched (`presRound`, iterated from "none" until
stable); (3) the spill analysis, which decides which stored plain registers are reads. -/
def compileWith (p : Project) (usePres : Bool) : FProg :=
  let U := regUniverse p
  let comp (nonSpill : Term Sub → List Tid) (pres : Nat → List Nat) : FProg :=
    p.program.subs.map fun s => compileSub p U (nonSpill s) pres s
  let P0 := comp (fun _ => []) (fun _ => [])
  let T0 := (solveB P0 0 (P0.length + 2) (Tables.empty P0.length)).1
  let returns (t : Tid) : Bool :=
    match p.program.findExtern t with
    | some s => !s.noReturn
    | none => match p.program.subs.findIdx? (·.tid == t) with
      | some g => T0.canRet g
      | none => false
  let rec iter : Nat → List (List Nat) → List (List Nat)
    | 0, pr => pr
    | fuel + 1, pr =>
      let P := comp (fun _ => []) (fun g => pr.getD g [])
      let pr' := (List.range P0.length).map (presRound p U P T0)
      if pr' = pr then pr else iter fuel pr'
  let pr := if usePres then iter (P0.length * (U.length + 1) + 2) (List.replicate P0.length []) else List.replicate P0.length []
  comp (nonSpillStores p returns) (fun g => pr.getD g [])

def compile (p : Project) : FProg := compileWith p true

end CweModel.C14
