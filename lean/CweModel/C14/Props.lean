/-
C14 — theorems.

Property: "For every function, each parameter register of the function's calling convention whose
entry value can be read on some path from the function entry before being overwritten is reported
as a parameter of the function."

PROVED here (for ALL flow programs, i.e. all IR projects through `compile`):
 * the oracle is correct: the tables computed by `solveB` (backward reachability per register +
   Kleene iteration of the call summaries) contain register `r` for function `f` IFF
   `Exposed P f 0 r` (the inductive path definition, interprocedural) — `oracle_correct`,
   `oracle_canRet_correct`; per round / relative to given summaries: `exposedB_iff`, `canRetB_iff`,
   `flaggedB_iff` ("MOP = MFP" for this gen/kill problem is reachability in the graph of
   `r`-preserving edges);
 * the model of the register fragment of `function_signature::State` is sound for every read performed
   by an instruction of the function itself (with or without control-flow successor — the latter since
   the repair of `extract_fn_signatures_from_fixpoint`) and for callee reads on a returning path
   (`FlaggedX`): every closed assignment of the model's fixpoint problem has the register in the
   extracted signature — `model_sound`, through `Base.Fix.sound_of_closed` (`path_below`) with
   `transfer_mono` ("sound_step") and `join_upper` ("merge keeps flags").
NOT proved, and FALSE for the real analysis (known finding `lost-read-in-callee`): `Exposed → reported`
for reads of a callee on a path that does not return (or a callee that never returns / a tail call).
`gap_example` exhibits this difference between `Exposed` and `FlaggedX`.
The real analysis (~3700 lines) is VALIDATED against the oracle, not modelled beyond this fragment.
-/
import CweModel.C14.Model

namespace CweModel.C14
open CweModel.Reach

/-! ### nodes -/

theorem node_lt {P : FProg} {f n : Nat} {nd : FNode} (h : P.node f n = some nd) :
    f < P.length ∧ n < P.size f := by
  unfold FProg.node at h
  unfold FProg.size
  cases hf : P[f]? with
  | none => simp [hf] at h
  | some fn =>
    simp only [hf, Option.bind_some] at h
    have h1 : f < P.length := by
      rcases List.getElem?_eq_some_iff.mp hf with ⟨h1, _⟩; exact h1
    have h2 : n < fn.nodes.length := by
      rcases List.getElem?_eq_some_iff.mp h with ⟨h2, _⟩; exact h2
    simpa using ⟨h1, h2⟩

theorem node_none {P : FProg} {f n : Nat} (h : P.size f ≤ n) : P.node f n = none := by
  cases hn : P.node f n with
  | none => rfl
  | some nd => have := (node_lt hn).2; omega

theorem feasSucc_none {P : FProg} {T : Tables} {f n : Nat} (h : P.size f ≤ n) : feasSucc P T f n = [] := by
  simp [feasSucc, node_none h]

theorem nextR_none {P : FProg} {T : Tables} {f r n : Nat} (h : P.size f ≤ n) : nextR P T f r n = [] := by
  simp [nextR, node_none h]

theorem isRetNode_lt {P : FProg} {f n : Nat} (h : isRetNode P f n = true) : n < P.size f := by
  cases hn : P.node f n with
  | none => simp [isRetNode, hn] at h
  | some nd => exact (node_lt hn).2

theorem goalB_lt {P : FProg} {T : Tables} {f r n : Nat} (h : goalB P T f r n = true) : n < P.size f := by
  cases hn : P.node f n with
  | none => simp [goalB, hn] at h
  | some nd => exact (node_lt hn).2

theorem mem_feasSucc {P : FProg} {T : Tables} {f a b : Nat} :
    b ∈ feasSucc P T f a ↔ ∃ nd, P.node f a = some nd ∧ b ∈ nd.succ ∧
      (nd.call = none ∨ ∃ g, nd.call = some g ∧ T.canRet g = true) := by
  unfold feasSucc
  cases hn : P.node f a with
  | none => simp
  | some nd =>
    cases hc : nd.call with
    | none => simp [hc]
    | some g =>
      by_cases hg : T.canRet g = true
      · simp [hc, hg]
      · simp [hc, hg]

theorem mem_nextR {P : FProg} {T : Tables} {f r a b : Nat} :
    b ∈ nextR P T f r a ↔ ∃ nd, P.node f a = some nd ∧ r ∉ nd.kills ∧ b ∈ feasSucc P T f a := by
  unfold nextR
  cases hn : P.node f a with
  | none => simp
  | some nd =>
    by_cases hk : r ∈ nd.kills
    · simp [hk]
    · simp [hk]

/-! ### reachability in the tabulated graph = reachability along the successor function -/

theorem mem_succs_edgesOf {next : Nat → List Nat} {n a b : Nat} :
    b ∈ succs (edgesOf next n) a ↔ a < n ∧ b ∈ next a := by
  rw [mem_succs]
  constructor
  · rintro ⟨e, he, h1, h2⟩
    simp only [edgesOf, List.mem_flatMap, List.mem_range, List.mem_map] at he
    obtain ⟨a', ha', b', hb', rfl⟩ := he
    simp only at h1 h2
    subst h1; subst h2
    exact ⟨ha', hb'⟩
  · rintro ⟨ha, hb⟩
    refine ⟨⟨a, b, ()⟩, ?_, rfl, rfl⟩
    simp only [edgesOf, List.mem_flatMap, List.mem_range, List.mem_map]
    exact ⟨a, ha, b, hb, rfl⟩

theorem reach_edgesOf {next : Nat → List Nat} {n : Nat} (hnext : ∀ a, n ≤ a → next a = []) {a b : Nat} :
    Reach (succs (edgesOf next n)) a b ↔ Reach next a b := by
  constructor
  · exact Reach.congr (fun x y h => (mem_succs_edgesOf.mp h).2)
  · refine Reach.congr (fun x y h => mem_succs_edgesOf.mpr ⟨?_, h⟩)
    by_cases hx : x < n
    · exact hx
    · rw [hnext x (by omega)] at h; cases h

/-- **Backward reachability is exact**: a node is in `coreach next n goal` iff some path along `next`
leads from it to a goal node. -/
theorem mem_coreach_iff {next : Nat → List Nat} {n : Nat} {goal : Nat → Bool}
    (hnext : ∀ a, n ≤ a → next a = []) (hgoal : ∀ m, goal m = true → m < n) (x : Nat) :
    x ∈ coreach next n goal ↔ ∃ m, Reach next x m ∧ goal m = true := by
  unfold coreach
  rw [mem_coreachable_iff]
  constructor
  · rintro ⟨t, ht, hr⟩
    simp only [List.mem_filter, List.mem_range] at ht
    exact ⟨t, (reach_edgesOf hnext).mp hr, ht.2⟩
  · rintro ⟨m, hr, hg⟩
    refine ⟨m, ?_, (reach_edgesOf hnext).mpr hr⟩
    simp only [List.mem_filter, List.mem_range]
    exact ⟨hgoal m hg, hg⟩

/-! ### the oracle relative to call summaries -/

theorem mem_canRetNodes_iff (P : FProg) (T : Tables) (f n : Nat) :
    n ∈ canRetNodes P T f ↔ CanRetT P T f n :=
  mem_coreach_iff (fun _ h => feasSucc_none h) (fun _ h => isRetNode_lt h) n

/-- **C14-canRet-round.** -/
theorem canRetB_iff (P : FProg) (T : Tables) (f : Nat) : canRetB P T f = true ↔ CanRetT P T f 0 := by
  simp only [canRetB, List.contains_iff_mem]
  exact mem_canRetNodes_iff P T f 0

/-- **C14-oracle-round** ("MOP = MFP" relative to given call summaries): the backward reachability
computation answers `true` for `(f, r)` iff some path from the entry of `f` that keeps the value of `r`
leads to an instruction reading `r`. -/
theorem exposedB_iff (P : FProg) (T : Tables) (f r : Nat) : exposedB P T f r = true ↔ ExposedT P T f 0 r := by
  simp only [exposedB, exposedNodes, List.contains_iff_mem]
  exact mem_coreach_iff (fun _ h => nextR_none h) (fun _ h => goalB_lt h) 0

theorem goalR_lt {P : FProg} {T : Tables} {f r n : Nat} {tgt : Nat → Bool}
    (h : goalR P T f r tgt n = true) : n < P.size f := by
  simp only [goalR, Bool.and_eq_true] at h
  exact goalB_lt h.1

/-- **C14-flagged-round.** the same for the reads the analysis can record -/
theorem flaggedB_iff (P : FProg) (T : Tables) (f r : Nat) (tgt : Nat → Bool) :
    flaggedB P T f r tgt = true ↔ FlaggedT P T f r tgt := by
  simp only [flaggedB, List.contains_iff_mem]
  exact mem_coreach_iff (fun _ h => nextR_none h) (fun _ h => goalR_lt h) 0

theorem goalX_lt {P : FProg} {T : Tables} {f r n : Nat} (h : goalX P T f r n = true) : n < P.size f := by
  simp only [goalX, Bool.or_eq_true] at h
  rcases h with h | h
  · cases hn : P.node f n with
    | none => simp [hn] at h
    | some nd => exact (node_lt hn).2
  · exact goalR_lt h

/-- **C14-flaggedX-round.** … and for the reads the repaired analysis records in a signature -/
theorem flaggedXB_iff (P : FProg) (T : Tables) (f r : Nat) :
    flaggedXB P T f r = true ↔ FlaggedX P T f r := by
  simp only [flaggedXB, List.contains_iff_mem]
  exact mem_coreach_iff (fun _ h => nextR_none h) (fun _ h => goalX_lt h) 0

/-! ### soundness of the summary iteration -/

/-- the tables only contain facts that hold by the inductive definitions -/
def TablesSound (P : FProg) (T : Tables) : Prop :=
  (∀ g, T.canRet g = true → CanRet P g 0) ∧ (∀ g r, r ∈ T.summ g → Exposed P g 0 r)

/-- a property closed under backward steps holds at the start of every path into it -/
theorem reach_back {next : Nat → List Nat} {Q : Nat → Prop} (hstep : ∀ a b, b ∈ next a → Q b → Q a)
    {n m : Nat} (h : Reach next n m) : Q m → Q n := by
  induction h with
  | refl => exact id
  | tail _ hs ih => exact fun hq => ih (hstep _ _ hs hq)

theorem canRetT_sound {P : FProg} {T : Tables} (hT : TablesSound P T) {f n : Nat}
    (h : CanRetT P T f n) : CanRet P f n := by
  obtain ⟨m, hr, hm⟩ := h
  refine reach_back (Q := fun k => CanRet P f k) ?_ hr ?_
  · intro a b hb hq
    obtain ⟨nd, hn, hb, hc⟩ := mem_feasSucc.mp hb
    rcases hc with hc | ⟨g, hc, hg⟩
    · exact .step hn hc hb hq
    · exact .call hn hc (hT.1 g hg) hb hq
  · cases hn : P.node f m with
    | none => simp [isRetNode, hn] at hm
    | some nd => simp only [isRetNode, hn] at hm; exact .ret hn hm

theorem exposedT_sound {P : FProg} {T : Tables} (hT : TablesSound P T) {f n r : Nat}
    (h : ExposedT P T f n r) : Exposed P f n r := by
  obtain ⟨m, hr, hm⟩ := h
  refine reach_back (Q := fun k => Exposed P f k r) ?_ hr ?_
  · intro a b hb hq
    obtain ⟨nd, hn, hk', hb⟩ := mem_nextR.mp hb
    obtain ⟨nd', hn', hb, hc⟩ := mem_feasSucc.mp hb
    rw [hn] at hn'; cases hn'
    rcases hc with hc | ⟨g, hc, hg⟩
    · exact .step hn hk' hc hb hq
    · exact .stepCall hn hk' hc (hT.1 g hg) hb hq
  · cases hn : P.node f m with
    | none => simp [goalB, hn] at hm
    | some nd =>
      simp only [goalB, hn, Bool.or_eq_true] at hm
      rcases hm with hm | hm
      · exact .read hn (by simpa using hm)
      · cases hc : nd.call with
        | none => simp [hc] at hm
        | some g =>
          simp only [hc] at hm
          exact .callee hn hc (hT.2 g r (by simpa using hm))

theorem getD_map_range {α : Type} (n g : Nat) (fn : Nat → α) (d : α) :
    ((List.range n).map fn).getD g d = if g < n then fn g else d := by
  simp only [List.getD_eq_getElem?_getD, List.getElem?_map]
  by_cases h : g < n <;> simp [h]

theorem roundB_canRet (P : FProg) (nregs : Nat) (T : Tables) (g : Nat) :
    (roundB P nregs T).canRet g = (decide (g < P.length) && canRetB P T g) := by
  simp only [Tables.canRet, roundB, getD_map_range]
  by_cases h : g < P.length <;> simp [h]

theorem roundB_summ (P : FProg) (nregs : Nat) (T : Tables) (g r : Nat) :
    r ∈ (roundB P nregs T).summ g ↔ g < P.length ∧ r < nregs ∧ exposedB P T g r = true := by
  simp only [Tables.summ, roundB, getD_map_range]
  by_cases h : g < P.length <;> simp [h, List.mem_filter]

theorem roundB_sound {P : FProg} {nregs : Nat} {T : Tables} (hT : TablesSound P T) :
    TablesSound P (roundB P nregs T) := by
  constructor
  · intro g hg
    rw [roundB_canRet] at hg
    simp only [Bool.and_eq_true, decide_eq_true_eq] at hg
    exact canRetT_sound hT ((canRetB_iff P T g).mp hg.2)
  · intro g r hr
    rw [roundB_summ] at hr
    exact exposedT_sound hT ((exposedB_iff P T g r).mp hr.2.2)

theorem empty_sound (P : FProg) : TablesSound P (Tables.empty P.length) := by
  constructor
  · intro g hg
    simp [Tables.canRet, Tables.empty, List.getD_eq_getElem?_getD, List.getElem?_replicate] at hg
    split at hg <;> simp at hg
  · intro g r hr
    simp [Tables.summ, Tables.empty, List.getD_eq_getElem?_getD, List.getElem?_replicate] at hr
    split at hr <;> simp at hr

/-- **C14-iteration-sound.** every Kleene iterate only contains true facts -/
theorem iterB_sound (P : FProg) (nregs : Nat) (k : Nat) : TablesSound P (iterB P nregs k) := by
  induction k with
  | zero => exact empty_sound P
  | succ k ih => exact roundB_sound ih

/-! ### completeness of a fixpoint -/

theorem canRet_fn_lt {P : FProg} {f n : Nat} (h : CanRet P f n) : f < P.length := by
  cases h with
  | ret hn _ => exact (node_lt hn).1
  | step hn _ _ _ => exact (node_lt hn).1
  | call hn _ _ _ _ => exact (node_lt hn).1

theorem exposed_fn_lt {P : FProg} {f n r : Nat} (h : Exposed P f n r) : f < P.length := by
  cases h with
  | read hn _ => exact (node_lt hn).1
  | callee hn _ _ => exact (node_lt hn).1
  | step hn _ _ _ _ => exact (node_lt hn).1
  | stepCall hn _ _ _ _ _ => exact (node_lt hn).1

theorem canRet_complete {P : FProg} {nregs : Nat} {T : Tables} (hfix : roundB P nregs T = T)
    {f n : Nat} (h : CanRet P f n) : CanRetT P T f n := by
  induction h with
  | ret hn hr => exact ⟨_, .refl _, by simp [isRetNode, hn, hr]⟩
  | step hn hc hq _ ih =>
    obtain ⟨m, hr, hm⟩ := ih
    exact ⟨m, Reach.head (mem_feasSucc.mpr ⟨_, hn, hq, Or.inl hc⟩) hr, hm⟩
  | @call f n q g nd hn hc hg hq _ ihg ih =>
    obtain ⟨m, hr, hm⟩ := ih
    have hgT : T.canRet g = true := by
      rw [← hfix, roundB_canRet]
      simp only [Bool.and_eq_true, decide_eq_true_eq]
      exact ⟨canRet_fn_lt hg, (canRetB_iff P T g).mpr ihg⟩
    exact ⟨m, Reach.head (mem_feasSucc.mpr ⟨_, hn, hq, Or.inr ⟨g, hc, hgT⟩⟩) hr, hm⟩

theorem exposed_complete {P : FProg} {nregs : Nat} {T : Tables} (hfix : roundB P nregs T = T)
    {f n r : Nat} (hr : r < nregs) (h : Exposed P f n r) : ExposedT P T f n r := by
  induction h with
  | read hn hrd => exact ⟨_, .refl _, by simp [goalB, hn, hrd]⟩
  | @callee f n r g nd hn hc hg ih =>
    have ih := ih hr
    have hsm : r ∈ T.summ g := by
      rw [← hfix, roundB_summ]
      exact ⟨exposed_fn_lt hg, hr, (exposedB_iff P T g r).mpr ih⟩
    exact ⟨_, .refl _, by simp [goalB, hn, hc, hsm]⟩
  | step hn hk hc hq _ ih =>
    obtain ⟨m, hre, hm⟩ := ih hr
    exact ⟨m, Reach.head (mem_nextR.mpr ⟨_, hn, hk, mem_feasSucc.mpr ⟨_, hn, hq, Or.inl hc⟩⟩) hre, hm⟩
  | @stepCall f n q r g nd hn hk hc hg hq _ ih =>
    obtain ⟨m, hre, hm⟩ := ih hr
    have hgT : T.canRet g = true := by
      rw [← hfix, roundB_canRet]
      simp only [Bool.and_eq_true, decide_eq_true_eq]
      exact ⟨canRet_fn_lt hg, (canRetB_iff P T g).mpr (canRet_complete hfix hg)⟩
    exact ⟨m, Reach.head (mem_nextR.mpr ⟨_, hn, hk, mem_feasSucc.mpr ⟨_, hn, hq, Or.inr ⟨g, hc, hgT⟩⟩⟩) hre, hm⟩

/-! ### the solver -/

theorem solveB_spec (P : FProg) (nregs : Nat) (fuel : Nat) (T : Tables) (hT : ∃ k, T = iterB P nregs k) :
    (∃ k, (solveB P nregs fuel T).1 = iterB P nregs k) ∧
    ((solveB P nregs fuel T).2 = true → roundB P nregs (solveB P nregs fuel T).1 = (solveB P nregs fuel T).1) := by
  induction fuel generalizing T with
  | zero => simp only [solveB]; exact ⟨hT, fun h => of_decide_eq_true h⟩
  | succ fuel ih =>
    simp only [solveB]
    by_cases h : roundB P nregs T = T
    · rw [if_pos h]; exact ⟨hT, fun _ => h⟩
    · rw [if_neg h]
      obtain ⟨k, hk⟩ := hT
      exact ih _ ⟨k + 1, by rw [hk]; rfl⟩

/-- **C14-oracle (MOP = MFP).** If the summary iteration reports a fixpoint, its table of function `f`
contains register `r` EXACTLY IF `r` is exposed at the entry of `f`: some path from the function entry
(descending into callees, continuing behind calls that can return) reads `r` before any instruction
on the path overwrites it. -/
theorem oracle_correct (P : FProg) (nregs fuel : Nat) (T : Tables)
    (h : solveB P nregs fuel (Tables.empty P.length) = (T, true)) {f r : Nat}
    (hf : f < P.length) (hr : r < nregs) : r ∈ T.summ f ↔ Exposed P f 0 r := by
  have hs := solveB_spec P nregs fuel (Tables.empty P.length) ⟨0, rfl⟩
  rw [h] at hs
  obtain ⟨⟨k, hk⟩, hfix⟩ := hs
  have hfix := hfix rfl
  simp only at hk hfix
  constructor
  · intro hm
    have := iterB_sound P nregs k
    rw [← hk] at this
    exact this.2 f r hm
  · intro he
    rw [← hfix, roundB_summ]
    exact ⟨hf, hr, (exposedB_iff P T f r).mpr (exposed_complete hfix hr he)⟩

/-- **C14-oracle-canRet.** … and its `cr` table is exactly `CanRet` at the entry. -/
theorem oracle_canRet_correct (P : FProg) (nregs fuel : Nat) (T : Tables)
    (h : solveB P nregs fuel (Tables.empty P.length) = (T, true)) {f : Nat} (hf : f < P.length) :
    T.canRet f = true ↔ CanRet P f 0 := by
  have hs := solveB_spec P nregs fuel (Tables.empty P.length) ⟨0, rfl⟩
  rw [h] at hs
  obtain ⟨⟨k, hk⟩, hfix⟩ := hs
  have hfix := hfix rfl
  simp only at hk hfix
  constructor
  · intro hm
    have := iterB_sound P nregs k
    rw [← hk] at this
    exact this.1 f hm
  · intro he
    rw [← hfix, roundB_canRet]
    simp only [Bool.and_eq_true, decide_eq_true_eq]
    exact ⟨hf, (canRetB_iff P T f).mpr (canRet_complete hfix he)⟩

/-! ### bit sets -/

theorem or_eq_iff (x y : Nat) : x ||| y = y ↔ ∀ i, x.testBit i = true → y.testBit i = true := by
  constructor
  · intro h i hi
    rw [← h, Nat.testBit_or, hi, Bool.true_or]
  · intro h
    apply Nat.eq_of_testBit_eq
    intro i
    rw [Nat.testBit_or]
    cases hx : x.testBit i
    · simp
    · simp [h i hx]

theorem testBit_maskOf_aux (l : List Nat) (m i : Nat) :
    (l.foldl (fun m i => m ||| (1 <<< i)) m).testBit i = (m.testBit i || l.contains i) := by
  induction l generalizing m with
  | nil => simp
  | cons a l ih =>
    rw [List.foldl_cons, ih, Nat.testBit_or, Nat.one_shiftLeft, Nat.testBit_two_pow, List.contains_cons]
    by_cases h : a = i
    · subst h; simp
    · have h1 : (i == a) = false := by simp; omega
      simp [h, h1]

theorem testBit_maskOf (l : List Nat) (i : Nat) : (maskOf l).testBit i = l.contains i := by
  simp [maskOf, testBit_maskOf_aux]

/-- the order of the model: bitwise inclusion of both components (`merge(a, b) = b`) -/
def St.le (a b : St) : Prop := St.join a b = b

theorem St.le_iff (a b : St) : St.le a b ↔
    (∀ i, a.holds.testBit i = true → b.holds.testBit i = true) ∧
    (∀ i, a.flags.testBit i = true → b.flags.testBit i = true) := by
  cases a; cases b
  simp only [St.le, St.join, St.mk.injEq, or_eq_iff]

/-- **C14-merge-keeps-flags.** `merge` is an upper bound: whatever one side holds/flags, the merged
state holds/flags. -/
theorem join_upper (c x b : St) (h : St.le c x) : St.le c (St.join x b) := by
  rw [St.le_iff] at h ⊢
  simp only [St.join, Nat.testBit_or, Bool.or_eq_true]
  exact ⟨fun i hi => Or.inl (h.1 i hi), fun i hi => Or.inl (h.2 i hi)⟩

theorem transfer_holds (rm km : Nat) (s : St) (i : Nat) :
    (transfer rm km s).holds.testBit i = (s.holds.testBit i && !km.testBit i) := by
  simp only [transfer, Nat.testBit_xor, Nat.testBit_and]
  cases s.holds.testBit i <;> cases km.testBit i <;> rfl

theorem transfer_flags (rm km : Nat) (s : St) (i : Nat) :
    (transfer rm km s).flags.testBit i = (s.flags.testBit i || (s.holds.testBit i && rm.testBit i)) := by
  simp only [transfer, Nat.testBit_or, Nat.testBit_and]

/-- **C14-sound-step.** the instruction transfer is monotone: a state that over-approximates the
registers still holding their entry id and the flags set so far keeps doing so. -/
theorem transfer_mono (rm km : Nat) {c a : St} (h : St.le c a) : St.le (transfer rm km c) (transfer rm km a) := by
  rw [St.le_iff] at h ⊢
  constructor
  · intro i
    rw [transfer_holds, transfer_holds]
    simp only [Bool.and_eq_true]
    exact fun hi => ⟨h.1 i hi.1, hi.2⟩
  · intro i
    rw [transfer_flags, transfer_flags]
    simp only [Bool.or_eq_true, Bool.and_eq_true]
    rintro (hi | hi)
    · exact Or.inl (h.2 i hi)
    · exact Or.inr ⟨h.1 i hi.1, hi.2⟩

/-! ### model soundness through the abstract-interpretation meta-theorem -/

theorem mem_problem_edges {P : FProg} {T : Tables} {f : Nat} {e : Fix.Edge St} :
    e ∈ (problem P T f).edges ↔ ∃ nd, P.node f e.src = some nd ∧ e.dst ∈ feasSucc P T f e.src ∧
      e.f = fun s => some (transfer (readMaskOf T nd) (maskOf nd.kills) s) := by
  simp only [problem, List.mem_flatMap, List.mem_range]
  constructor
  · rintro ⟨n, _, he⟩
    cases hn : P.node f n with
    | none => simp [hn] at he
    | some nd =>
      simp only [hn, List.mem_map] at he
      obtain ⟨q, hq, rfl⟩ := he
      exact ⟨nd, hn, hq, rfl⟩
  · rintro ⟨nd, hn, hq, hf⟩
    refine ⟨e.src, (node_lt hn).2, ?_⟩
    simp only [hn, List.mem_map]
    refine ⟨e.dst, hq, ?_⟩
    cases e; simp_all

/-- the exact state along one path: registers not yet overwritten, reads flagged so far -/
def pathInit (P : FProg) (f : Nat) (i : Nat) (c : St) : Prop := i = 0 ∧ c = initSt P f
def pathStep (e : Fix.Edge St) (c c' : St) : Prop := e.f c = some c'

/-- along a path that keeps `r`, the exact path state still holds `r` -/
theorem path_holds {P : FProg} {T : Tables} {f r : Nat} (hinit : (initSt P f).holds.testBit r = true)
    {m : Nat} (h : Reach (nextR P T f r) 0 m) :
    ∃ c, Fix.Reach (problem P T f) (pathInit P f) pathStep m c ∧ c.holds.testBit r = true := by
  induction h with
  | refl => exact ⟨initSt P f, .start ⟨rfl, rfl⟩, hinit⟩
  | @tail b m _ hs ih =>
    obtain ⟨c, hc, hh⟩ := ih
    obtain ⟨nd, hn, hk, hs⟩ := mem_nextR.mp hs
    let e : Fix.Edge St := ⟨b, m, fun s => some (transfer (readMaskOf T nd) (maskOf nd.kills) s)⟩
    have he : e ∈ (problem P T f).edges := mem_problem_edges.mpr ⟨nd, hn, hs, rfl⟩
    refine ⟨transfer (readMaskOf T nd) (maskOf nd.kills) c, Fix.Reach.step (e := e) he hc rfl, ?_⟩
    rw [transfer_holds, hh, testBit_maskOf]
    simp [hk]

/-- the meta-theorem (`Base.Fix.sound_of_closed`): every exact path state is below the value of a closed
assignment at its node -/
theorem path_below {P : FProg} {T : Tables} {f : Nat} {S : Fix.Assign St}
    (hS : Fix.Closed (problem P T f) S) (h0 : ∃ a, S 0 = some a ∧ St.le (initSt P f) a)
    {m : Nat} {c : St} (hc : Fix.Reach (problem P T f) (pathInit P f) pathStep m c) :
    ∃ a, S m = some a ∧ St.le c a :=
  Fix.sound_of_closed (P := problem P T f) (γ := fun a c => St.le c a)
    (init := pathInit P f) (cstep := pathStep)
    (fun x b c hx => join_upper c x b hx)
    (by
      intro e he a c c' hγ hstep
      obtain ⟨nd', _, _, hf⟩ := mem_problem_edges.mp he
      simp only [pathStep, hf, Option.some.injEq] at hstep
      subst hstep
      exact ⟨_, by rw [hf], transfer_mono _ _ hγ⟩)
    hS
    (by
      rintro i c ⟨rfl, rfl⟩
      exact h0)
    hc

/-- **C14-model-sound-edges.** Reads recorded on an outgoing edge (`FlaggedT`: the reading instruction
has a successor; for a call to an internal function: the callee's summary) are flagged in the state of
that successor. -/
theorem model_sound_edges {P : FProg} {T : Tables} {f r : Nat} {S : Fix.Assign St}
    (hS : Fix.Closed (problem P T f) S) (h0 : ∃ a, S 0 = some a ∧ St.le (initSt P f) a)
    (hparam : (initSt P f).holds.testBit r = true)
    (h : FlaggedT P T f r (fun _ => true)) : ∃ n a, S n = some a ∧ a.flags.testBit r = true := by
  obtain ⟨m, hr, hg⟩ := h
  simp only [goalR, Bool.and_eq_true, List.any_eq_true] at hg
  obtain ⟨hgoal, m', hm', _⟩ := hg
  obtain ⟨c, hc, hh⟩ := path_holds (T := T) hparam hr
  cases hn : P.node f m with
  | none => simp [goalB, hn] at hgoal
  | some nd =>
    let e : Fix.Edge St := ⟨m, m', fun s => some (transfer (readMaskOf T nd) (maskOf nd.kills) s)⟩
    have he : e ∈ (problem P T f).edges := mem_problem_edges.mpr ⟨nd, hn, hm', rfl⟩
    have hc' : Fix.Reach (problem P T f) (pathInit P f) pathStep m'
        (transfer (readMaskOf T nd) (maskOf nd.kills) c) := Fix.Reach.step (e := e) he hc rfl
    obtain ⟨a, ha, hle⟩ := path_below hS h0 hc'
    refine ⟨m', a, ha, ?_⟩
    apply ((St.le_iff _ _).mp hle).2 r
    rw [transfer_flags, hh]
    have : (readMaskOf T nd).testBit r = true := by
      simp only [goalB, hn, Bool.or_eq_true] at hgoal
      rw [readMaskOf, testBit_maskOf]
      simp only [List.contains_iff_mem, List.mem_append] at hgoal ⊢
      rcases hgoal with hgoal | hgoal
      · exact Or.inl (Or.inl hgoal)
      · cases hcall : nd.call with
        | none => simp [hcall] at hgoal
        | some g => simp only [hcall] at hgoal; exact Or.inr (by simpa using hgoal)
    simp [this]

/-- **C14-model-sound.** Let `S` be ANY closed assignment (post-fixpoint) of the model's fixpoint problem
of function `f` whose entry value covers the start state (every parameter register holds its id).
If register `r` is a parameter register of `f` and is read on a path from the entry before being
overwritten — by ANY instruction of `f` itself, with or without control-flow successor, or by a callee
on a path that returns (`FlaggedX`) — then for some node the flags of its state after the accesses of
its instruction (`exitFlagsAt`, what `extract_fn_signatures_from_fixpoint` merges) contain `r`. -/
theorem model_sound {P : FProg} {T : Tables} {f r : Nat} {S : Fix.Assign St}
    (hS : Fix.Closed (problem P T f) S) (h0 : ∃ a, S 0 = some a ∧ St.le (initSt P f) a)
    (hparam : (initSt P f).holds.testBit r = true)
    (h : FlaggedX P T f r) : ∃ n a, S n = some a ∧ (exitFlagsAt P f n a).testBit r = true := by
  obtain ⟨m, hr, hg⟩ := h
  simp only [goalX, Bool.or_eq_true] at hg
  rcases hg with hg | hg
  · -- the instruction at `m` reads `r` itself
    cases hn : P.node f m with
    | none => simp [hn] at hg
    | some nd =>
      simp only [hn] at hg
      obtain ⟨c, hc, hh⟩ := path_holds (T := T) hparam hr
      obtain ⟨a, ha, hle⟩ := path_below hS h0 hc
      refine ⟨m, a, ha, ?_⟩
      have hah : a.holds.testBit r = true := ((St.le_iff _ _).mp hle).1 r hh
      have hmask : (localMask nd).testBit r = true := by
        rw [localMask, testBit_maskOf]
        simp only [List.contains_iff_mem, List.mem_append] at hg ⊢
        exact Or.inl hg
      simp [exitFlagsAt, hn, exitFlags, Nat.testBit_or, Nat.testBit_and, hah, hmask]
  · -- recorded on an edge
    obtain ⟨n, a, ha, hbit⟩ := model_sound_edges hS h0 hparam ⟨m, hr, hg⟩
    refine ⟨n, a, ha, ?_⟩
    unfold exitFlagsAt
    cases hn : P.node f n with
    | none => exact hbit
    | some nd => simp [exitFlags, Nat.testBit_or, hbit]

/-! ### executable checks used by the driver mean what they say -/

theorem closedB_closed {P : FProg} {T : Tables} {f : Nat} {σ : Sol} (h : closedB P T f σ = true) :
    Fix.Closed (problem P T f) (Sol.get σ) := by
  intro e he a x ha hx
  simp only [closedB, List.all_eq_true] at h
  have := h e he
  simp only [ha, hx] at this
  cases hb : Sol.get σ e.dst with
  | none => simp [hb] at this
  | some b =>
    simp only [hb, decide_eq_true_eq] at this
    exact ⟨b, rfl, this⟩

theorem testBit_allFlags_aux (σ : Sol) (m0 r : Nat) :
    (σ.foldl addFlags m0).testBit r = true ↔
      m0.testBit r = true ∨ ∃ s, some s ∈ σ ∧ s.flags.testBit r = true := by
  induction σ generalizing m0 with
  | nil => simp
  | cons v σ ih =>
    rw [List.foldl_cons, ih]
    cases v with
    | none => simp [addFlags]
    | some s =>
      simp only [addFlags, Nat.testBit_or, Bool.or_eq_true, List.mem_cons, Option.some.injEq]
      constructor
      · rintro ((h | h) | ⟨s', hs', h⟩)
        · exact Or.inl h
        · exact Or.inr ⟨s, Or.inl rfl, h⟩
        · exact Or.inr ⟨s', Or.inr hs', h⟩
      · rintro (h | ⟨s', rfl | hs', h⟩)
        · exact Or.inl (Or.inl h)
        · exact Or.inl (Or.inr h)
        · exact Or.inr ⟨s', hs', h⟩

theorem testBit_foldl_or (l : List Nat) (g : Nat → Nat) (m0 r : Nat) :
    (l.foldl (fun m n => m ||| g n) m0).testBit r = true ↔
      m0.testBit r = true ∨ ∃ n ∈ l, (g n).testBit r = true := by
  induction l generalizing m0 with
  | nil => simp
  | cons a l ih =>
    rw [List.foldl_cons, ih]
    simp only [Nat.testBit_or, Bool.or_eq_true, List.mem_cons]
    constructor
    · rintro ((h | h) | ⟨n, hn, h⟩)
      · exact Or.inl h
      · exact Or.inr ⟨a, Or.inl rfl, h⟩
      · exact Or.inr ⟨n, Or.inr hn, h⟩
    · rintro (h | ⟨n, rfl | hn, h⟩)
      · exact Or.inl (Or.inl h)
      · exact Or.inl (Or.inr h)
      · exact Or.inr ⟨n, hn, h⟩

theorem testBit_allFlagsX (P : FProg) (f : Nat) (σ : Sol) (r : Nat) :
    (allFlagsX P f σ).testBit r = true ↔
      ∃ n s, Sol.get σ n = some s ∧ (exitFlagsAt P f n s).testBit r = true := by
  unfold allFlagsX
  rw [testBit_foldl_or]
  simp only [Nat.zero_testBit, Bool.false_eq_true, false_or, List.mem_range]
  constructor
  · rintro ⟨n, _, h⟩
    unfold contribX at h
    cases hs : Sol.get σ n with
    | none => simp [hs] at h
    | some s => simp only [hs] at h; exact ⟨n, s, hs, h⟩
  · rintro ⟨n, s, hs, h⟩
    refine ⟨n, ?_, by simp [contribX, hs, h]⟩
    simp only [Sol.get] at hs
    cases hx : σ[n]? with
    | none => simp [hx] at hs
    | some v => exact (List.getElem?_eq_some_iff.mp hx).1

/-- **C14-model-sound-exec.** the form evaluated by the driver: if `closedB` accepts the computed
solution, the signature extracted from it (`allFlagsX`) contains every parameter register that the
oracle `flaggedXB` finds. -/
theorem model_sound_exec {P : FProg} {T : Tables} {f r : Nat} {σ : Sol}
    (hcl : closedB P T f σ = true) (h0 : ∃ a, Sol.get σ 0 = some a ∧ St.le (initSt P f) a)
    (hparam : (initSt P f).holds.testBit r = true)
    (h : flaggedXB P T f r = true) : (allFlagsX P f σ).testBit r = true := by
  obtain ⟨n, a, ha, hbit⟩ := model_sound (closedB_closed hcl) h0 hparam ((flaggedXB_iff P T f r).mp h)
  exact (testBit_allFlagsX P f σ r).mpr ⟨n, a, ha, hbit⟩

/-! ### non-vacuity -/

/-- f0: `if (r0) goto L else goto M; L: r1 := r2; call f1; M: return r3`; f1: `r4 := r0; return` -/
def exP : FProg :=
  [ { nodes := [ { reads := [0], succ := [1, 4], kind := "cbranch" },
                 { reads := [2], kills := [1], succ := [2], kind := "assign" },
                 { kills := [0, 1, 2, 3], succ := [3], call := some 1, kind := "call-internal" },
                 { succ := [4], kind := "branch" },
                 { reads := [3], isRet := true, kind := "return" } ],
      params := [0, 1, 2, 3] },
    { nodes := [ { reads := [0], kills := [4], succ := [1], kind := "assign" },
                 { isRet := true, kind := "return" } ],
      params := [0, 1, 2, 3] } ]

def exT : Tables := ⟨[true, true], [[0, 2, 3], [0]]⟩
def exTR : Tables := ⟨[true, true], [[0, 2], [0]]⟩
theorem exT_eq : solveB exP 5 8 (Tables.empty exP.length) = (exT, true) := by decide +kernel
theorem exTR_eq : solveR exP 5 8 (Tables.empty exP.length) = (exTR, true) := by decide +kernel

example : Exposed exP 0 0 3 := (oracle_correct exP 5 8 exT exT_eq (by decide) (by decide)).mp (by decide)
example : Exposed exP 0 0 0 := (oracle_correct exP 5 8 exT exT_eq (by decide) (by decide)).mp (by decide)
example : ¬ Exposed exP 0 0 1 := fun h =>
  absurd ((oracle_correct exP 5 8 exT exT_eq (by decide) (by decide)).mpr h) (by decide)

/-- register 3 is read only by the `return` (no successor): recorded since the repair -/
example : FlaggedX exP exTR 0 3 := (flaggedXB_iff _ _ _ _).mp (by decide +kernel)
example : ¬ FlaggedT exP exTR 0 3 (fun _ => true) := fun h => absurd ((flaggedB_iff _ _ _ _ _).mpr h) (by decide +kernel)

/-- the model's solution of `exP` is closed and its signature is exactly registers 0, 2 and 3 -/
example : closedB exP exTR 0 (solveM exP exTR 0 20 (startSol exP 0)) = true := by decide
example : maskToList 5 (allFlagsX exP 0 (solveM exP exTR 0 20 (startSol exP 0))) = [0, 2, 3] := by decide +kernel
example : (allFlagsX exP 0 (solveM exP exTR 0 20 (startSol exP 0))).testBit 3 = true :=
  model_sound_exec (P := exP) (T := exTR) (f := 0) (by decide +kernel)
    ⟨initSt exP 0, by decide +kernel, by unfold St.le; decide +kernel⟩ (by decide +kernel) (by decide +kernel)

/-- f0: `call f1; return`; f1: `if … goto R; L: r0 := r2; goto L; R: return` — the callee reads
register 2 only on a path that does not return -/
def exQ : FProg :=
  [ { nodes := [ { kills := [0, 1], succ := [1], call := some 1, kind := "call-internal" },
                 { isRet := true, kind := "return" } ],
      params := [0, 1, 2] },
    { nodes := [ { succ := [1, 2], kind := "cbranch" },
                 { reads := [2], kills := [0], succ := [1], kind := "assign" },
                 { isRet := true, kind := "return" } ],
      params := [0, 1, 2] } ]
def exQT : Tables := ⟨[true, true], [[2], [2]]⟩
def exQTR : Tables := ⟨[true, true], [[], []]⟩
theorem exQT_eq : solveB exQ 3 8 (Tables.empty exQ.length) = (exQT, true) := by decide +kernel
theorem exQTR_eq : solveR exQ 3 8 (Tables.empty exQ.length) = (exQTR, true) := by decide +kernel

/-- **the remaining gap** (known finding `lost-read-in-callee`): register 2 is exposed at the entry of
the caller `f0` (the callee reads it), but the analysis cannot record it in `f0` by design, because the
caller only imports what the callee's RETURN site has flagged. -/
theorem gap_example : Exposed exQ 0 0 2 ∧ ¬ FlaggedX exQ exQTR 0 2 :=
  ⟨(oracle_correct exQ 3 8 exQT exQT_eq (by decide) (by decide)).mp (by decide),
   fun h => absurd ((flaggedXB_iff _ _ _ _).mpr h) (by decide +kernel)⟩

end CweModel.C14
