/-
C18 — lemmas about the byte memory and register file of the reference interpreter
(`CweModel.Sem.State`, Base/IRSem.lean): read-after-write and framing for `writeMem`/`readMem`,
`getReg`/`setReg`. Core-only.
-/
import CweModel.Base.IRSem

set_option linter.unusedSimpArgs false
set_option linter.unusedVariables false

namespace CweModel.C18
open CweModel CweModel.IR

instance : LawfulBEq Variable where
  rfl := by intro a; cases a; simp [BEq.beq, instBEqVariable.beq]
  eq_of_beq := by
    intro a b h; cases a; cases b
    simp [BEq.beq, instBEqVariable.beq] at h
    simp [h]

/-- searching in a filtered list: the filter does not matter if it keeps everything searched for -/
theorem find_filter {α} (l : List α) (p q : α → Bool) (h : ∀ a, p a = true → q a = true) :
    (l.filter q).find? p = l.find? p := by
  induction l with
  | nil => rfl
  | cons a l ih =>
    cases hq : q a <;> cases hp : p a
    · simp [List.filter_cons, hq, List.find?_cons, hp, ih]
    · have := h a hp; simp [hq] at this
    · simp [List.filter_cons, hq, List.find?_cons, hp, ih]
    · simp [List.filter_cons, hq, List.find?_cons, hp]

/-- searching in a filtered list finds the same element if that element is kept -/
theorem find_filter_some {α} (l : List α) (p q : α → Bool) (c : α) (h : l.find? p = some c) (hq : q c = true) :
    (l.filter q).find? p = some c := by
  induction l with
  | nil => simp at h
  | cons a l ih =>
    cases hp : p a
    · have h' : l.find? p = some c := by simpa [List.find?_cons, hp] using h
      cases hqa : q a
      · simp [List.filter_cons, hqa, ih h']
      · simp [List.filter_cons, hqa, List.find?_cons, hp, ih h']
    · have hc : a = c := by simpa [List.find?_cons, hp] using h
      subst hc
      simp [List.filter_cons, hq, List.find?_cons, hp]

namespace SemL
open Sem

/-! ### registers -/

theorem getReg_setReg_same (σ : State) (v : Variable) (x : Bv) : (σ.setReg v x).getReg v = x := by
  simp [State.setReg, State.getReg]

theorem getReg_setReg_ne (σ : State) (v w : Variable) (x : Bv) (h : w ≠ v) :
    (σ.setReg v x).getReg w = σ.getReg w := by
  have hvw : ¬ v = w := fun e => h e.symm
  unfold State.setReg State.getReg
  dsimp only
  rw [List.find?_cons_of_neg (by simpa using hvw), find_filter]
  · rfl
  · intro p hp
    simp only [beq_iff_eq] at hp
    simp [hp, h]

/-! ### bytes -/

theorem getByte_setByte (σ : State) (a b x : Nat) :
    (σ.setByte a b).getByte x = if x = a then b else σ.getByte x := by
  unfold State.setByte State.getByte
  by_cases h : x = a
  · subst h; simp
  · have ha : ¬ a = x := fun e => h e.symm
    dsimp only
    rw [List.find?_cons_of_neg (by simpa using ha), find_filter]
    · simp only [h, if_false]; rfl
    · intro p hp; simp at hp ⊢; omega

/-- writing the bytes `f 0, …, f (n-1)` to the addresses `g 0, …, g (n-1)` -/
def wr (g f : Nat → Nat) (σ : State) (n : Nat) : State :=
  (List.range n).foldl (fun s i => s.setByte (g i) (f i)) σ

theorem wr_succ (g f : Nat → Nat) (σ : State) (n : Nat) :
    wr g f σ (n + 1) = (wr g f σ n).setByte (g n) (f n) := by
  simp [wr, List.range_succ, List.foldl_append]

theorem wr_fields (g f : Nat → Nat) (σ : State) (n : Nat) :
    (wr g f σ n).seed = σ.seed ∧ (wr g f σ n).regs = σ.regs ∧
    (wr g f σ n).littleEndian = σ.littleEndian ∧ (wr g f σ n).ptrBytes = σ.ptrBytes := by
  induction n with
  | zero => simp [wr]
  | succ n ih => rw [wr_succ]; simpa [State.setByte] using ih

theorem getByte_wr_miss (g f : Nat → Nat) (σ : State) (n x : Nat) (h : ∀ i, i < n → g i ≠ x) :
    (wr g f σ n).getByte x = σ.getByte x := by
  induction n with
  | zero => simp [wr]
  | succ n ih =>
    rw [wr_succ, getByte_setByte]
    have : x ≠ g n := fun e => h n (by omega) e.symm
    simp only [this, if_false]
    exact ih (fun i hi => h i (by omega))

theorem getByte_wr_hit (g f : Nat → Nat) (σ : State) (n j : Nat) (hj : j < n)
    (hinj : ∀ i, i < n → i ≠ j → g i ≠ g j) :
    (wr g f σ n).getByte (g j) = f j := by
  induction n with
  | zero => omega
  | succ n ih =>
    rw [wr_succ, getByte_setByte]
    by_cases hjn : j = n
    · subst hjn; simp
    · have : g j ≠ g n := fun e => hinj n (by omega) (fun e' => hjn e'.symm) e.symm
      simp only [this, if_false]
      exact ih (by omega) (fun i hi hne => hinj i (by omega) hne)

theorem writeMem_eq_wr (σ : State) (a n val : Nat) :
    σ.writeMem a n val =
      wr (fun i => σ.wrapAddr (a + i))
         (fun i => val / 256 ^ (if σ.littleEndian then i else n - 1 - i) % 256) σ n := rfl


/-! ### multi-byte values -/

def fold256 (acc : Nat) (bs : List Nat) : Nat := bs.foldl (fun acc b => acc * 256 + b) acc

theorem div_pow_add (val k n : Nat) : val / 256 ^ k / 256 ^ n = val / 256 ^ (k + n) := by
  rw [Nat.div_div_eq_div_mul, Nat.pow_add]

/-- big endian digit list, most significant first -/
theorem fold256_be (val k : Nat) : ∀ (n acc : Nat),
    fold256 acc ((List.range n).map (fun i => val / 256 ^ (k + (n - 1 - i)) % 256)) =
      acc * 256 ^ n + val / 256 ^ k % 256 ^ n := by
  intro n
  induction n with
  | zero => intro acc; simp [fold256, Nat.mod_one]
  | succ n ih =>
    intro acc
    rw [List.range_succ_eq_map, List.map_cons, List.map_map]
    have hrest : (List.range n).map ((fun i => val / 256 ^ (k + (n + 1 - 1 - i)) % 256) ∘ Nat.succ) =
        (List.range n).map (fun i => val / 256 ^ (k + (n - 1 - i)) % 256) := by
      apply List.map_congr_left
      intro i hi
      have : i < n := List.mem_range.mp hi
      simp only [Function.comp]
      congr 3
      omega
    rw [hrest]
    show fold256 (acc * 256 + val / 256 ^ (k + (n + 1 - 1 - 0)) % 256) _ = _
    rw [ih, Nat.mod_pow_succ, div_pow_add]
    simp only [Nat.add_sub_cancel, Nat.sub_zero, Nat.pow_succ]
    rw [Nat.add_mul, Nat.mul_assoc, Nat.mul_comm 256 (256 ^ n)]
    generalize val / 256 ^ (k + n) % 256 = d
    generalize val / 256 ^ k % 256 ^ n = r
    rw [Nat.mul_comm d]
    omega

/-- little endian digit list, reversed = most significant first -/
theorem fold256_le (val : Nat) : ∀ (n acc : Nat),
    fold256 acc ((List.range n).map (fun i => val / 256 ^ i % 256)).reverse =
      acc * 256 ^ n + val % 256 ^ n := by
  intro n
  induction n with
  | zero => intro acc; simp [fold256, Nat.mod_one]
  | succ n ih =>
    intro acc
    rw [List.range_succ, List.map_append, List.reverse_append]
    show fold256 (acc * 256 + val / 256 ^ n % 256) ([] ++ _) = _
    rw [List.nil_append, ih, Nat.mod_pow_succ]
    simp only [Nat.pow_succ]
    rw [Nat.add_mul, Nat.mul_assoc, Nat.mul_comm 256 (256 ^ n)]
    generalize val / 256 ^ n % 256 = d
    generalize val % 256 ^ n = r
    rw [Nat.mul_comm d]
    omega

theorem readMem_eq (σ : State) (a n : Nat) :
    σ.readMem a n =
      fold256 0 (if σ.littleEndian then ((List.range n).map (fun i => σ.getByte (σ.wrapAddr (a + i)))).reverse
                 else (List.range n).map (fun i => σ.getByte (σ.wrapAddr (a + i)))) := rfl

/-- `readMem` only looks at the bytes of the range -/
theorem readMem_congr (σ τ : State) (a n : Nat) (hle : τ.littleEndian = σ.littleEndian)
    (hp : τ.ptrBytes = σ.ptrBytes)
    (h : ∀ i, i < n → τ.getByte (σ.wrapAddr (a + i)) = σ.getByte (σ.wrapAddr (a + i))) :
    τ.readMem a n = σ.readMem a n := by
  have hw : ∀ x, τ.wrapAddr x = σ.wrapAddr x := fun x => by simp [State.wrapAddr, hp]
  have hl : (List.range n).map (fun i => τ.getByte (τ.wrapAddr (a + i))) =
      (List.range n).map (fun i => σ.getByte (σ.wrapAddr (a + i))) := by
    apply List.map_congr_left
    intro i hi
    rw [hw]; exact h i (List.mem_range.mp hi)
  rw [readMem_eq, readMem_eq, hl, hle]

theorem wrap64 (σ : State) (hp : σ.ptrBytes = 8) (x : Nat) : σ.wrapAddr x = x % 2 ^ 64 := by
  simp [State.wrapAddr, hp]

/-- read after write, same address and size (64-bit addresses) -/
theorem readMem_writeMem_same (σ : State) (hp : σ.ptrBytes = 8) (a n val : Nat) (hn : n ≤ 2 ^ 64) :
    (σ.writeMem a n val).readMem a n = val % 256 ^ n := by
  rw [writeMem_eq_wr]
  generalize hf : (fun i => val / 256 ^ (if σ.littleEndian then i else n - 1 - i) % 256) = f
  generalize hg : (fun i => σ.wrapAddr (a + i)) = g
  obtain ⟨_, _, hle, hpb⟩ := wr_fields g f σ n
  have hw : ∀ x, (wr g f σ n).wrapAddr x = σ.wrapAddr x := fun x => by simp [State.wrapAddr, hpb]
  have hl : (List.range n).map (fun i => (wr g f σ n).getByte ((wr g f σ n).wrapAddr (a + i))) =
      (List.range n).map f := by
    apply List.map_congr_left
    intro j hj
    have hj' : j < n := List.mem_range.mp hj
    rw [hw]
    have := getByte_wr_hit g f σ n j hj' (by
      intro i hi hne
      rw [← hg]
      simp only [wrap64 σ hp]
      omega)
    rw [← hg] at this ⊢
    exact this
  rw [readMem_eq, hl, hle, ← hf]
  cases hE : σ.littleEndian
  · simp only [Bool.false_eq_true, if_false]
    have := fold256_be val 0 n 0
    simpa using this
  · simp only [if_true]
    have := fold256_le val n 0
    simpa using this

/-- a write does not change what is read from a disjoint range -/
theorem readMem_writeMem_frame (σ : State) (a n val b m : Nat)
    (hdisj : ∀ i j, i < n → j < m → σ.wrapAddr (a + i) ≠ σ.wrapAddr (b + j)) :
    (σ.writeMem a n val).readMem b m = σ.readMem b m := by
  rw [writeMem_eq_wr]
  obtain ⟨_, _, hle, hpb⟩ := wr_fields (fun i => σ.wrapAddr (a + i))
    (fun i => val / 256 ^ (if σ.littleEndian then i else n - 1 - i) % 256) σ n
  apply readMem_congr _ _ _ _ hle hpb
  intro j hj
  apply getByte_wr_miss
  intro i hi
  exact hdisj i j hi hj

theorem getReg_writeMem (σ : State) (a n val : Nat) (v : Variable) :
    (σ.writeMem a n val).getReg v = σ.getReg v := by
  rw [writeMem_eq_wr]
  obtain ⟨hs, hr, _, _⟩ := wr_fields (fun i => σ.wrapAddr (a + i))
    (fun i => val / 256 ^ (if σ.littleEndian then i else n - 1 - i) % 256) σ n
  simp only [State.getReg, State.regDefault, hs, hr]

theorem ptrBytes_writeMem (σ : State) (a n val : Nat) : (σ.writeMem a n val).ptrBytes = σ.ptrBytes := by
  rw [writeMem_eq_wr]; exact (wr_fields _ _ σ n).2.2.2

theorem readMem_setReg (σ : State) (v : Variable) (x : Bv) (a n : Nat) :
    (σ.setReg v x).readMem a n = σ.readMem a n := rfl

end SemL
end CweModel.C18
