/-
C18 — model of the two constant-argument checkers
`checkers/cwe_560.rs` (umask with chmod-style argument) and `checkers/cwe_467.rs` (sizeof on pointer)
and of the block-local pointer-inference state they evaluate the call parameters with
(`analysis/pointer_inference/state/access_handling.rs`, `abstract_domain/data*.rs`,
`abstract_domain/interval*.rs`, `abstract_domain/mem_region.rs`,
`analysis/pointer_inference/object*/`), "PI-lite".

What the real code does (both checkers, identically): for every call site of the symbol(s),
  `state = State::new(stack_register, block.tid, {})`  — NOT a pointer-inference result: a fresh state that
  only knows `SP = stack_id + 0` — then every `Def` of the block is applied with `handle_store`,
  `handle_register_assign`, `handle_load`, and the parameter is evaluated with `eval_parameter_arg`.

PI-lite restriction of the value domain (`Data = DataDomain<IntervalDomain>`):
* only ONE abstract identifier can occur in such a state (the stack id; the global-memory id needs
  `known_global_addresses`, which is empty), so `relative_values` is an `Option`,
* an `IntervalDomain` is either a singleton `single b`, or LUMPED into `many bytes top` ("some interval
  with more than one value", `top = true`: certainly the `Top` interval). In the expression language of
  the correspondence run (constants, copies, add/sub/mult/shifts/and/or/xor, 2-complement/negate,
  zero/sign extension, low subpieces; no widening hints arise) the lump is closed under all operations
  and decides exactly the same observable (is the parameter a known constant, and which) as the real
  intervals; the three places where the lump cannot know (`subpiece` with `low_byte ≠ 0` of a
  non-singleton, access through a stack pointer whose offset is a bounded non-singleton interval) are
  marked `-- lump` and avoided by the generator,
* the runtime memory image is empty (as in `verif_harness::ir::project_x64`): reads of global
  constants fail.
Everything else (sizes, the top flag, the treatment of absolute/relative/top parts, the exact
(wrapping) arithmetic of `Interval::add/sub/signed_mul/int_2_comp` on singletons, `x XOR x`, cell clearing in `MemRegion::add`,
read-after-write only for equal sizes, …) mirrors the Rust code function by function.

The second half is the SPECIFICATION: `cp…`, a constant propagation written against the P-Code
reference semantics `CweModel.Ref` — "the block computes the parameter as a constant from constants
alone" — and the two decisions. `Props.lean` proves it sound w.r.t. the reference interpreter
(`Sem.execDefs`) and proves that the model decides exactly these constants.
-/
import CweModel.Base.IRSem
import CweModel.C01.Model
import CweModel.Gen.C18Consts

namespace CweModel.C18
open CweModel CweModel.IR

/-! ## bit-vector helpers (`intermediate_representation/bitvector.rs`) -/

def bvZero (bytes : Nat) : Bv := ⟨8 * bytes, 0⟩

/-- `signed_add_overflow_checked`: `None` iff `(rhs.sign_bit, self ≤ₛ result)` is `(true,true)` or
`(false,false)`. Different widths make the real code panic; the model answers `none`. -/
def addChecked (x y : Bv) : Option Bv :=
  if h : x.w = y.w then
    let yv : BitVec x.w := h ▸ y.v
    if yv.msb == x.v.sle (x.v + yv) then none else some ⟨x.w, x.v + yv⟩
  else none

/-- `signed_sub_overflow_checked`: `None` iff `(rhs.sign_bit, self ≥ₛ result)` is `(true,true)` or
`(false,false)`. -/
def subChecked (x y : Bv) : Option Bv :=
  if h : x.w = y.w then
    let yv : BitVec x.w := h ▸ y.v
    if yv.msb == (x.v - yv).sle x.v then none else some ⟨x.w, x.v - yv⟩
  else none

/-- `signed_mult_with_overflow_flag` on widths ≤ 64 (the caller `Interval::signed_mul` returns `Top`
for wider ones before calling it): the product and the overflow flag. -/
def mulFlag (x y : Bv) : Option (Bv × Bool) :=
  if h : x.w = y.w then
    let yv : BitVec x.w := h ▸ y.v
    if x.v == 0 then some (⟨x.w, 0⟩, false)
    else
      let r := x.v * yv
      let minusOneTimesMin := x.v == -1#x.w && yv == BitVec.intMin x.w
      some (⟨x.w, r⟩, minusOneTimesMin || r.sdiv x.v != yv)
  else none

/-- `ApInt::try_to_u64` -/
def tryToU64 (b : Bv) : Option Nat := if b.toNat < 2 ^ 64 then some b.toNat else none

/-! ## lumped `IntervalDomain` -/

inductive Itv where
  | single (b : Bv)
  | many (bytes : Nat) (top : Bool)
deriving Inhabited

namespace Itv

def bytes : Itv → Nat
  | single b => b.bytes
  | many n _ => n

/-- certainly the `Top` interval -/
def isTopC : Itv → Bool
  | many _ t => t
  | _ => false

def isSingle : Itv → Bool
  | single _ => true
  | _ => false

/-- `IntervalDomain::add` / `Interval::add` (repaired): two singletons give the singleton of the wrapping
sum, also when it overflows as a signed addition (different widths make the real code panic; the model
answers `Top`); otherwise a signed overflow of a bound gives `Top`; `Top` plus anything overflows at
one of its bounds. -/
def add (a b : Itv) : Itv :=
  match a, b with
  | single x, single y =>
    if h : x.w = y.w then single ⟨x.w, x.v + h ▸ y.v⟩ else many x.bytes true
  | _, _ => many a.bytes (a.isTopC || b.isTopC)

/-- `IntervalDomain::sub` / `Interval::sub` (repaired like `add`) -/
def sub (a b : Itv) : Itv :=
  match a, b with
  | single x, single y =>
    if h : x.w = y.w then single ⟨x.w, x.v - h ▸ y.v⟩ else many x.bytes true
  | _, _ => many a.bytes (a.isTopC || b.isTopC)

def isZero : Itv → Bool
  | single x => x.toNat == 0
  | _ => false

/-- `IntervalDomain::signed_mul` / `Interval::signed_mul` (repaired): wider than 64 bit → `Top`; two
singletons give the singleton of the wrapping product, also when it overflows; otherwise any
overflowing product of bounds → `Top`; a factor `[0,0]` makes all four products zero. -/
def mul (a b : Itv) : Itv :=
  if 8 * a.bytes > 64 then many a.bytes true else
  match a, b with
  | single x, single y =>
    if h : x.w = y.w then single ⟨x.w, x.v * h ▸ y.v⟩ else many x.bytes true
  | _, _ =>
    if a.isZero || b.isZero then single (bvZero a.bytes)
    else many a.bytes (a.isTopC || b.isTopC)

/-- `IntervalDomain::shift_left`: a singleton amount `< width` multiplies with `1 << amount` (exact on
singletons of at most 64 bit), a singleton amount `≥ width` gives zero, anything else `Top`. -/
def shiftLeft (a b : Itv) : Itv :=
  match b with
  | single y =>
    match a with
    | single x =>       -- widths are whole bytes: `bytesize().as_bit_length()` is the width
      if y.toNat < x.w then a.mul (single ⟨x.w, 1#x.w <<< y.toNat⟩) else single ⟨x.w, 0⟩
    | many n _ =>
      if y.toNat < 8 * n then a.mul (single ⟨8 * n, 1#(8 * n) <<< y.toNat⟩) else single (bvZero n)
  | many _ _ => many a.bytes true

/-- the first arm of `IntervalDomain::bin_op` (comparisons, and/or/xor, right shifts, divisions, float):
exact `Bitvector::bin_op` on two singletons, `Top` otherwise -/
def firstArm (op : BinOpType) (a b : Itv) : Itv :=
  match a, b with
  | single x, single y =>
    match Impl.binOp op x y with
    | .val r => single r
    | _ => many (C01.binOpBytesize op x.bytes y.bytes) true
  | _, _ => many (C01.binOpBytesize op a.bytes b.bytes) true

/-- `IntervalDomain::bin_op` -/
def binOp (op : BinOpType) (a b : Itv) : Itv :=
  match op with
  | .IntAdd => a.add b
  | .IntSub => a.sub b
  | .IntMult => a.mul b
  | .IntLeft => a.shiftLeft b
  | .Piece => many (a.bytes + b.bytes) false          -- not generated
  | _ => firstArm op a b

/-- `IntervalDomain::un_op` -/
def unOp (op : UnOpType) (a : Itv) : Itv :=
  match op with
  | .Int2Comp =>
    match a with
    | single x => single ⟨x.w, -x.v⟩          -- repaired: also `-MIN = MIN`
    | many n t => many n t
  | .IntNegate =>
    match a with
    | single x => single ⟨x.w, ~~~x.v⟩
    | many n _ => many n true
  | .BoolNegate =>
    match a with
    | single x => if x.w == 8 && x.toNat == 0 then single ⟨8, 1⟩ else single ⟨8, 0⟩
    | many n _ => many n true
  | .FloatNaN => many 1 true
  | _ => many a.bytes true

/-- `IntervalDomain::cast` -/
def cast (op : CastOpType) (size : Nat) (a : Itv) : Itv :=
  match op with
  | .IntZExt =>
    if a.bytes == size then a else
    match a with
    | single x => single ⟨8 * size, x.v.setWidth (8 * size)⟩
    | many _ _ => many size false
  | .IntSExt =>
    if a.bytes == size then a else
    match a with
    | single x => single ⟨8 * size, x.v.signExtend (8 * size)⟩
    | many _ _ => many size false
  | .PopCount | .LzCount =>
    match a with
    | single x =>
      match Impl.cast op size x with
      | .val r => single r
      | _ => many size true
    | many n _ =>       -- repaired: `Top` if the bit length of the operand is not a signed value of the result
      many size (decide (8 * size ≤ 64) && (8 * n) >>> (8 * size - 1) != 0)
  | _ => many size true

/-- `IntervalDomain::subpiece`: `subpiece_higher(low_byte)` if `low_byte ≠ 0`, then
`subpiece_lower(size)` if still wider than `size` -/
def subpiece (low size : Nat) (a : Itv) : Itv :=
  let hi : Itv :=
    if low = 0 then a else
    match a with
    | single x => single ⟨8 * (x.bytes - low), (x.v >>> (8 * low)).setWidth (8 * (x.bytes - low))⟩
    | many n _ => many (n - low) false                     -- lump
  if hi.bytes > size then
    match hi with
    | single x => single ⟨8 * size, x.v.setWidth (8 * size)⟩
    | many _ t => many size t
  else hi

/-- `IntervalDomain::merge` (`signed_merge_and_widen`), as far as the lump can tell -/
def merge (a b : Itv) : Itv :=
  match a, b with
  | single x, single y => if x == y then single x else many x.bytes false
  | _, _ => many a.bytes (a.isTopC || b.isTopC)

def tryToBitvec : Itv → Option Bv
  | single b => some b
  | _ => none

end Itv

/-! ## `DataDomain<IntervalDomain>` with at most one abstract identifier (the stack id) -/

structure AData where
  size : Nat
  rel : Option Itv := none
  abs : Option Itv := none
  top : Bool := false
deriving Inhabited

namespace AData

def isEmpty (d : AData) : Bool := d.rel.isNone && d.abs.isNone && !d.top
def newEmpty (size : Nat) : AData := { size := size }
def newTop (size : Nat) : AData := { size := size, top := true }
/-- `AbstractDomain::is_top` -/
def isTop (d : AData) : Bool := d.rel.isNone && d.abs.isNone && d.top
/-- `From<T>` -/
def ofItv (i : Itv) : AData := { size := i.bytes, abs := some i }
/-- `From<Bitvector>` -/
def const (b : Bv) : AData := ofItv (.single b)
/-- `from_target(stack_id, offset)` -/
def fromTarget (off : Itv) : AData := { size := off.bytes, rel := some off }
/-- a pointer into the stack frame with a known offset -/
def sp (off : Bv) : AData := fromTarget (.single off)

def getIfAbsoluteValue (d : AData) : Option Itv := if d.rel.isNone && !d.top then d.abs else none
def getIfAbsoluteValueOrTop (d : AData) : Option Itv := if d.rel.isNone then d.abs else none
def getIfUniqueTarget (d : AData) : Option Itv := if d.abs.isNone && !d.top then d.rel else none

/-- `add_offset` -/
def addOffset (d : AData) (o : Itv) : AData :=
  { d with rel := d.rel.map (·.binOp .IntAdd o), abs := d.abs.map (·.binOp .IntAdd o) }
/-- `subtract_offset` -/
def subtractOffset (d : AData) (o : Itv) : AData :=
  { d with rel := d.rel.map (·.binOp .IntSub o), abs := d.abs.map (·.binOp .IntSub o) }

/-- `preserve_relative_targets_for_binop` -/
def preserveRelativeTargets (a b : AData) : AData :=
  if a.isEmpty || b.isEmpty then newEmpty a.size else
  { size := a.size,
    rel := if a.rel.isSome || b.rel.isSome then some (.many a.size true) else none,
    abs := some (.many a.size true),
    top := a.top || b.top }

/-- `compute_add` -/
def computeAdd (a b : AData) : AData :=
  match a.getIfAbsoluteValueOrTop with
  | some o => { b.addOffset o with top := b.top || a.top }
  | none =>
    match b.getIfAbsoluteValueOrTop with
    | some o => { a.addOffset o with top := a.top || b.top }
    | none => preserveRelativeTargets a b

/-- `compute_sub` (with `compute_sub_if_offset_through_pointer_subtraction`; both pointers can only
point to the stack id here) -/
def computeSub (a b : AData) : AData :=
  if a.isEmpty || b.isEmpty then newEmpty a.size
  else if b.rel.isNone then
    let o := b.abs.getD (.many a.size true)
    let r := a.subtractOffset o
    { r with top := r.top || b.top }
  else
    match a.getIfUniqueTarget, b.getIfUniqueTarget with
    | some lo, some ro => { size := a.size, abs := some (lo.binOp .IntSub ro) }
    | _, _ => preserveRelativeTargets a b

/-- `RegisterDomain::bin_op` of `DataDomain` -/
def binOp (op : BinOpType) (a b : AData) : AData :=
  match a.getIfAbsoluteValue, b.getIfAbsoluteValue with
  | some l, some r => ofItv (l.binOp op r)
  | _, _ =>
    match op with
    | .IntAdd => computeAdd a b
    | .IntSub => computeSub a b
    | .IntAnd | .IntOr | .IntXOr => preserveRelativeTargets a b
    | .IntEqual | .IntNotEqual | .IntLess | .IntLessEqual | .IntSLess | .IntSLessEqual
    | .IntCarry | .IntSCarry | .IntSBorrow | .BoolXOr | .BoolOr | .BoolAnd | .FloatEqual
    | .FloatNotEqual | .FloatLess | .FloatLessEqual =>
      if a.isEmpty || b.isEmpty then newEmpty 1 else ofItv (.many 1 true)
    | .IntMult | .IntDiv | .IntSDiv | .IntRem | .IntSRem | .IntLeft | .IntRight | .IntSRight
    | .FloatAdd | .FloatSub | .FloatMult | .FloatDiv =>
      if a.isEmpty || b.isEmpty then newEmpty a.size else newTop a.size
    | .Piece =>
      if a.isEmpty || b.isEmpty then newEmpty (a.size + b.size) else newTop (a.size + b.size)

/-- `RegisterDomain::un_op` of `DataDomain` -/
def unOp (op : UnOpType) (a : AData) : AData :=
  { size := (match op with | .BoolNegate | .FloatNaN => 1 | _ => a.size),
    rel := none, abs := a.abs.map (·.unOp op), top := a.top || a.rel.isSome }

/-- `RegisterDomain::subpiece` of `DataDomain` -/
def subpiece (low size : Nat) (a : AData) : AData :=
  if low = 0 ∧ size = a.size then a
  else { size := size, rel := none, abs := a.abs.map (·.subpiece low size), top := a.top || a.rel.isSome }

/-- `RegisterDomain::cast` of `DataDomain` -/
def cast (op : CastOpType) (size : Nat) (a : AData) : AData :=
  { size := size, rel := none, abs := a.abs.map (·.cast op size), top := a.top || a.rel.isSome }

def optMerge (a b : Option Itv) : Option Itv :=
  match a, b with
  | some x, some y => some (x.merge y)
  | some x, none => some x
  | none, y => y

/-- `AbstractDomain::merge` of `DataDomain` -/
def merge (a b : AData) : AData :=
  { size := a.size, rel := optMerge a.rel b.rel, abs := optMerge a.abs b.abs, top := a.top || b.top }

/-- `TryToBitvec` of `DataDomain` -/
def tryToBitvec (d : AData) : Option Bv :=
  if d.rel.isSome || d.top then none else
  match d.abs with
  | some i => i.tryToBitvec
  | none => none

end AData

/-! ## the stack object: `MemRegion<Data>` behind `AbstractObject` / `AbstractObjectList` -/

/-- cells of the stack `MemRegion` (BTreeMap offset ↦ value); the cells of a `MemRegion` never overlap
(`insert_at_byte_index` clears before it inserts). -/
abbrev Cells := List (Int × AData)

/-- `MemRegion::clear_interval`: the real code looks at the LAST cell starting before `pos` and at all
cells starting inside `[pos, pos+size)`; as cells never overlap, the last cell before `pos` is the only
one starting before `pos` that can reach into the interval. -/
def clearInterval (cs : Cells) (pos : Int) (size : Nat) : Cells :=
  cs.filter fun c =>
    !((decide (c.1 < pos) && decide (c.1 + (c.2.size : Int) > pos)) ||
      (decide (pos ≤ c.1) && decide (c.1 < pos + (size : Int))))

/-- `MemRegion::add` / `insert_at_byte_index`: `Top` values are not stored -/
def memAdd (cs : Cells) (v : AData) (pos : Int) : Cells :=
  let cs' := clearInterval cs pos v.size
  if v.isTop then cs' else (pos, v) :: cs'

/-- `MemRegion::get`: a cell at exactly this offset with exactly this size, else `Top` -/
def memGet (cs : Cells) (pos : Int) (size : Nat) : AData :=
  match cs.find? (fun c => c.1 == pos) with
  | some c => if c.2.size == size then c.2 else AData.newTop size
  | none => AData.newTop size

/-- `MemRegion::mark_all_values_as_top` -/
def markAllTop (cs : Cells) : Cells :=
  (cs.map fun c => (c.1, c.2.merge (AData.newTop c.2.size))).filter fun c => !c.2.isTop

/-- offset of a cell: `Int::from(position).try_to_i64()` -/
def offsetOf (b : Bv) : Int := b.v.toInt

/-- `AbstractObject::set_value` on the (unique) stack object -/
def objectSetValue (cs : Cells) (v : AData) (off : Itv) : Cells :=
  match off with
  | .single o => memAdd cs v (offsetOf o)
  | .many _ _ => markAllTop cs                               -- lump (a bounded interval marks only its range)

/-- `AbstractObject::merge_value` -/
def objectMergeValue (cs : Cells) (v : AData) (off : Itv) : Cells :=
  match off with
  | .single o => memAdd cs ((memGet cs (offsetOf o) v.size).merge v) (offsetOf o)
  | .many _ _ => markAllTop cs                               -- lump

/-- `AbstractObjectList::set_value` -/
def listSetValue (cs : Cells) (ptr v : AData) : Cells :=
  match ptr.getIfUniqueTarget with
  | some off => objectSetValue cs v off
  | none =>
    match ptr.rel with
    | some off => objectMergeValue cs v off
    | none => cs

/-- `AbstractObjectList::get_value` -/
def listGetValue (cs : Cells) (addr : AData) (size : Nat) : AData :=
  let m : AData :=
    match addr.rel with
    | some (.single o) => (AData.newEmpty size).merge (memGet cs (offsetOf o) size)
    | some (.many _ _) => { AData.newEmpty size with top := true }
    | none => AData.newEmpty size
  if addr.top then { m with top := true } else m

/-! ## `State` (pointer_inference/state) -/

structure St where
  regs : List (Variable × AData)
  cells : Cells

/-- `State::new(stack_register, tid, {})` -/
def St.init (sp : Variable) : St :=
  { regs := [(sp, AData.sp (bvZero sp.size))], cells := [] }

/-- `get_register` -/
def St.getReg (s : St) (v : Variable) : AData :=
  match s.regs.find? (fun p => p.1 == v) with
  | some p => p.2
  | none => AData.newTop v.size

/-- `set_register`: `Top` values are removed from the map -/
def St.setReg (s : St) (v : Variable) (d : AData) : St :=
  if d.isTop then { s with regs := s.regs.filter (fun p => p.1 != v) }
  else { s with regs := (v, d) :: s.regs.filter (fun p => p.1 != v) }

/-- `eval` (`eval_recursive`; `replace_if_global_pointer` is the identity because
`known_global_addresses` is empty) -/
def St.eval (s : St) : Expression → AData
  | .Var v => s.getReg v
  | .Const b x => AData.const (Bv.ofBytes b x)
  | .BinOp op l r =>
    if op = .IntXOr ∧ l = r then AData.const (bvZero l.bytesize)
    else (s.eval l).binOp op (s.eval r)
  | .UnOp op a => (s.eval a).unOp op
  | .Cast op sz a => (s.eval a).cast op sz
  | .Unknown _ sz => AData.newTop sz
  | .Subpiece lb sz a => (s.eval a).subpiece lb sz

/-- `load_value_from_address` with the empty memory image; `none` = `Err` -/
def St.loadValueFromAddress (s : St) (addr : AData) (size : Nat) : Option AData :=
  let fromGlobal : AData :=
    match addr.abs with
    | some (.single _) => AData.newEmpty size          -- `global_memory.read` fails: no segments
    | some (.many _ true) => AData.newTop size
    | some (.many _ false) => AData.newEmpty size      -- lump: bounded interval, `is_interval_readable` fails
    | none => AData.newEmpty size
  let r := fromGlobal.merge (listGetValue s.cells addr size)
  let r := if addr.top then { r with top := true } else r
  if r.isEmpty then none else some r

/-- `handle_register_assign` -/
def St.handleAssign (s : St) (v : Variable) (e : Expression) : St := s.setReg v (s.eval e)

/-- `handle_load` -/
def St.handleLoad (s : St) (v : Variable) (a : Expression) : St :=
  match s.loadValueFromAddress (s.eval a) v.size with
  | some d => s.setReg v d
  | none => s.setReg v (AData.newTop v.size)

/-- `handle_store` (the result of the global-memory writeability test is ignored by both checkers) -/
def St.handleStore (s : St) (a e : Expression) : St :=
  { s with cells := listSetValue s.cells (s.eval a) (s.eval e) }

def St.handleDef (s : St) : Def → St
  | .Assign v e => s.handleAssign v e
  | .Load v a => s.handleLoad v a
  | .Store a e => s.handleStore a e

/-- `compute_block_end_state` (cwe_467.rs) = the loop of `get_umask_permission_arg` (cwe_560.rs) -/
def blockEndState (sp : Variable) (defs : List (Term Def)) : St :=
  defs.foldl (fun s d => s.handleDef d.term) (St.init sp)

/-- `eval_parameter_arg` -/
def St.evalParameterArg (s : St) : Arg → Option AData
  | .Register e _ => some (s.eval e)
  | .Stack a size _ => s.loadValueFromAddress (s.eval a) size

/-- the constant the state knows for a parameter: `eval_parameter_arg(..)?.try_to_bitvec()?.try_to_u64()?` -/
def St.paramConst (s : St) (p : Arg) : Option Nat :=
  match s.evalParameterArg p with
  | some d =>
    match d.tryToBitvec with
    | some b => tryToU64 b
    | none => none
  | none => none

/-! ## the checkers -/

/-- `is_chmod_style_arg` -/
def isChmodStyleArg (arg : Nat) : Bool :=
  decide (arg > Gen.C18.umaskUpper) && decide (arg ≠ Gen.C18.chmodUpper)

/-- `get_umask_permission_arg` -/
def umaskPermissionArg (sp : Variable) (blk : Term Blk) (sym : ExternSymbol) : Option Nat :=
  match sym.parameters with
  | [p] => (blockEndState sp blk.term.defs).paramConst p
  | _ => none

/-- `check_for_pointer_sized_arg` -/
def pointerSizedArg (sp : Variable) (blk : Term Blk) (sym : ExternSymbol) : Bool :=
  let st := blockEndState sp blk.term.defs
  sym.parameters.any fun p => st.paramConst p == some sp.size

/-- `get_symbol_map`: for each name the first extern symbol (in key order) with that name -/
def symbolMap (p : Program) (names : List String) : List ExternSymbol :=
  names.filterMap fun n => p.externSymbols.find? (fun s => s.name == n)

/-- `get_callsites` of all subs in key order: (sub, block, jump, symbol) -/
def callsites (p : Program) (syms : List ExternSymbol) : List (Term Sub × Term Blk × Term Jmp × ExternSymbol) :=
  p.subs.flatMap fun sub => sub.term.blocks.flatMap fun blk => blk.term.jmps.filterMap fun j =>
    match j.term with
    | .Call target _ =>
      match syms.find? (fun s => s.tid == target) with
      | some s => some (sub, blk, j, s)
      | none => none
    | _ => none

def octDigits : Nat → Nat → List Char
  | 0, _ => []
  | fuel + 1, n => if n < 8 then [Char.ofNat (48 + n)] else octDigits fuel (n / 8) ++ [Char.ofNat (48 + n % 8)]

/-- `{:#o}` -/
def fmtOct (n : Nat) : String := "0o" ++ String.ofList (octDigits 64 n)

/-- one observable output line of a checker run -/
def showWarn (j : Term Jmp) (description : String) (other : String) : String :=
  s!"W|{j.tid.id}|{j.tid.address}|{description}|{other}"

/-- what `cwe_560::check_cwe` does at one call site -/
inductive Verdict560 where
  | warn (arg : Nat)        -- `cwes.push(generate_cwe_warning(..))`
  | silent                  -- argument determined, not chmod-style
  | undetermined            -- `Err(..)`: log message "Could not determine umask argument"

def verdict560 (sp : Variable) (blk : Term Blk) (sym : ExternSymbol) : Verdict560 :=
  match umaskPermissionArg sp blk sym with
  | some arg => if isChmodStyleArg arg then .warn arg else .silent
  | none => .undetermined

/-- `cwe_560::check_cwe`: warnings and "Could not determine umask argument" log locations, in order -/
def check560 (proj : Project) : List String :=
  let syms := symbolMap proj.program [Gen.C18.umaskSymbol]
  (callsites proj.program syms).filterMap fun (sub, blk, j, sym) =>
    match verdict560 proj.stackPointerRegister blk sym with
    | .warn arg =>
      some (showWarn j s!"(Use of umask() with chmod-style Argument) Function {sub.term.name} calls umask with argument {fmtOct arg}"
        (fmtOct arg))
    | .silent => none
    | .undetermined => some s!"L|{j.tid.id}"

/-- `cwe_467::check_cwe` -/
def check467 (proj : Project) (symbols : List String) : List String :=
  let syms := symbolMap proj.program symbols
  (callsites proj.program syms).filterMap fun (_, blk, j, sym) =>
    if pointerSizedArg proj.stackPointerRegister blk sym then
      some (showWarn j s!"(Use of sizeof on a Pointer Type) sizeof on pointer at {j.tid.address} ({sym.name})." "")
    else none

/-! ## SPECIFICATION

`cp`: "the block computes the value as a constant from constants alone", written against the P-Code
reference semantics. A symbolic value is a constant or the entry stack pointer plus a constant.
`strict = true` additionally demands that no `IntAdd/IntSub/IntMult/IntLeft/Int2Comp` step overflows as
a SIGNED operation — before the repair of `Interval::add/sub/signed_mul/int_2_comp` the only sub-fragment
in which the real code kept constants (fixed finding `signed-overflow-top`). The theorems are stated for
the full fragment (`strict = false`); the driver still evaluates `strict = true` to count how many of the
generated constant computations overflow (verdict tag `overflow`).
-/

inductive SVal where
  | c (b : Bv)
  | sp (off : BitVec 64)

structure KCell where
  pos : Int
  size : Nat
  val : SVal

structure K where
  regs : List (Variable × SVal) := []
  cells : List KCell := []

def K.getReg (k : K) (v : Variable) : Option SVal :=
  match k.regs.find? (fun p => p.1 == v) with
  | some p => some p.2
  | none => none

def K.forget (k : K) (v : Variable) : K := { k with regs := k.regs.filter (fun p => p.1 != v) }
def K.setReg (k : K) (v : Variable) (s : SVal) : K :=
  { k with regs := (v, s) :: k.regs.filter (fun p => p.1 != v) }

/-- offsets and sizes for which machine addresses do not wrap around -/
def inBounds (pos : Int) (size : Nat) : Bool :=
  decide (-(2 ^ 62 : Int) ≤ pos) && decide (pos < 2 ^ 62) && decide (0 < size) && decide (size ≤ 2 ^ 32)

def K.getCell (k : K) (pos : Int) (size : Nat) : Option SVal :=
  match k.cells.find? (fun c => c.pos == pos) with
  | some c => if c.size == size then some c.val else none
  | none => none

/-- forget every cell that shares a byte with `[pos, pos+size)` -/
def K.clear (k : K) (pos : Int) (size : Nat) : K :=
  { k with cells := k.cells.filter fun c =>
      !((decide (c.pos < pos) && decide (c.pos + (c.size : Int) > pos)) ||
        (decide (pos ≤ c.pos) && decide (c.pos < pos + (size : Int)))) }

/-- operand sizes for which the operation is defined (`C01.WellSizedBin`) -/
def cpBinSized (op : BinOpType) (a b : Bv) : Bool :=
  match op with
  | .IntLeft | .IntRight | .IntSRight => decide (b.toNat < 2 ^ 64)
  | _ => decide (a.w = b.w)

/-- the binary operations of the fragment; `strict`: no signed overflow in add/sub/mult/left shift -/
def cpBinInFrag (strict : Bool) (op : BinOpType) (a b : Bv) : Bool :=
  match op with
  | .IntAdd => !strict || (addChecked a b).isSome
  | .IntSub => !strict || (subChecked a b).isSome
  | .IntMult => decide (a.w ≤ 64) && (!strict || (match mulFlag a b with | some (_, false) => true | _ => false))
  | .IntLeft =>
    decide (a.w ≤ 64) &&
    (!strict || decide (a.w ≤ b.toNat) ||
      (match mulFlag a ⟨a.w, 1#a.w <<< b.toNat⟩ with | some (_, false) => true | _ => false))
  | .IntRight | .IntSRight | .IntAnd | .IntOr | .IntXOr => true
  | _ => false

/-- the operations of the fragment on two constants: the reference value, on byte-sized operands of
admissible sizes -/
def cpBin (strict : Bool) (op : BinOpType) (a b : Bv) : Option Bv :=
  if cpBinSized op a b && cpBinInFrag strict op a b && decide (a.w = 8 * a.bytes) then
    Sem.resToOpt (Ref.binOp op a b)
  else none

def cpUn (strict : Bool) (op : UnOpType) (a : Bv) : Option Bv :=
  match op with
  | .Int2Comp => if strict && a.v == BitVec.intMin a.w then none else Sem.resToOpt (Ref.unOp op a)
  | .IntNegate => Sem.resToOpt (Ref.unOp op a)
  | _ => none

def cpCast (op : CastOpType) (size : Nat) (a : Bv) : Option Bv :=
  match op with
  | .IntZExt | .IntSExt =>
    if a.w = 8 * a.bytes ∧ a.w ≤ 8 * size then Sem.resToOpt (Ref.cast op size a) else none
  | _ => none

/-- low subpieces (the `EDI` of `RDI`) -/
def cpSubpiece (low size : Nat) (a : Bv) : Option Bv :=
  if low = 0 ∧ 0 < size ∧ a.w = 8 * a.bytes ∧ 8 * size ≤ a.w then Sem.resToOpt (Ref.subpieceOp low size a)
  else none

def cpExpr (strict : Bool) (k : K) : Expression → Option SVal
  | .Var v => k.getReg v
  | .Const b x => some (.c (Bv.ofBytes b x))
  | .BinOp op l r =>
    match cpExpr strict k l, cpExpr strict k r with
    | some (.c a), some (.c b) =>
      if op = .IntXOr ∧ l = r then
        (if a.w = 8 * l.bytesize then some (.c (bvZero l.bytesize)) else none)
      else (cpBin strict op a b).map .c
    | some (.sp o), some (.c b) =>
      if h : b.w = 64 then
        match op with
        | .IntAdd => if strict && (addChecked ⟨64, o⟩ b).isNone then none else some (.sp (o + h ▸ b.v))
        | .IntSub => if strict && (subChecked ⟨64, o⟩ b).isNone then none else some (.sp (o - h ▸ b.v))
        | _ => none
      else none
    | some (.c a), some (.sp o) =>
      if h : a.w = 64 then
        match op with
        | .IntAdd => if strict && (addChecked ⟨64, o⟩ a).isNone then none else some (.sp (h ▸ a.v + o))
        | _ => none
      else none
    | some (.sp o₁), some (.sp o₂) =>
      match op with
      | .IntSub =>
        if strict && (subChecked ⟨64, o₁⟩ ⟨64, o₂⟩).isNone then none else some (.c ⟨64, o₁ - o₂⟩)
      | _ => none
    | _, _ => none
  | .UnOp op a =>
    match cpExpr strict k a with
    | some (.c x) => (cpUn strict op x).map .c
    | _ => none
  | .Cast op sz a =>
    match cpExpr strict k a with
    | some (.c x) => (cpCast op sz x).map .c
    | _ => none
  | .Unknown _ _ => none
  | .Subpiece lb sz a =>
    match cpExpr strict k a with
    | some (.c x) => (cpSubpiece lb sz x).map .c
    | _ => none

def SVal.bytes : SVal → Nat
  | .c b => b.bytes
  | .sp _ => 8

/-- the width is a whole number of bytes -/
def SVal.byteSized : SVal → Bool
  | .c b => decide (b.w = 8 * b.bytes)
  | .sp _ => true

/-- one definition. A store is tracked when it writes a known value to a known, in-bounds stack
address; after any other store nothing is known about the stack frame any more (the written range is
not known). Loads and assignments of unknown values only forget the target register. -/
def cpDef (strict : Bool) (k : K) : Def → K
  | .Assign v e =>
    match cpExpr strict k e with
    | some s => k.setReg v s
    | none => k.forget v
  | .Load v a =>
    match cpExpr strict k a with
    | some (.sp o) =>
      match k.getCell o.toInt v.size with
      | some s => k.setReg v s
      | none => k.forget v
    | _ => k.forget v
  | .Store a e =>
    match cpExpr strict k a, cpExpr strict k e with
    | some (.sp o), some s =>
      if inBounds o.toInt s.bytes && s.byteSized then
        { (k.clear o.toInt s.bytes) with
          cells := ⟨o.toInt, s.bytes, s⟩ :: (k.clear o.toInt s.bytes).cells }
      else { k with cells := [] }
    | _, _ => { k with cells := [] }

def cpDefs (strict : Bool) (k : K) (defs : List (Term Def)) : K :=
  defs.foldl (fun k d => cpDef strict k d.term) k

/-- the state at the start of a block: only the stack pointer is known -/
def K.init (sp : Variable) : K := { regs := [(sp, .sp 0)] }

/-- the constant a parameter is computed to -/
def cpParam (strict : Bool) (k : K) : Arg → Option Bv
  | .Register e _ =>
    match cpExpr strict k e with
    | some (.c b) => some b
    | _ => none
  | .Stack a size _ =>
    match cpExpr strict k a with
    | some (.sp o) =>
      match k.getCell o.toInt size with
      | some (.c b) => some b
      | _ => none
    | _ => none

/-- "the block computes the parameter as the constant `b` from constants alone" -/
def blockConst (strict : Bool) (sp : Variable) (defs : List (Term Def)) (p : Arg) : Option Bv :=
  cpParam strict (cpDefs strict (K.init sp) defs) p

/-- the umask decision of the property, on the constant's value -/
def spec560 (k : Nat) : Bool := decide (k > Gen.C18.umaskUpper ∧ k ≠ Gen.C18.chmodUpper)

/-- the sizeof-on-pointer decision of the property on the parameter values -/
def spec467 (ptrBytes : Nat) (ks : List Nat) : Bool := ks.any (· == ptrBytes)

/-! ### parameter value in the reference interpreter -/

def semParam (σ : Sem.State) : Arg → Option Bv
  | .Register e _ => Sem.eval σ e
  | .Stack a size _ =>
    match Sem.eval σ a with
    | some addr => some (Bv.ofBytes size (σ.readMem addr.toNat size))
    | none => none

end CweModel.C18
