/-
C18 — the constant propagation `cp…` of Model.lean (the formal reading of "the block computes the
parameter as a constant from constants alone") is SOUND for the reference interpreter: whatever `cp`
claims about a register, a stack cell or a parameter holds in every state `Sem.execDefs` reaches from
every initial state.
-/
import CweModel.C18.Model
import CweModel.C18.Mem
import CweModel.C01.Props

set_option linter.unusedSimpArgs false
set_option linter.unusedVariables false

namespace CweModel.C18
open CweModel CweModel.IR

/-- concrete value of a symbolic value, given the stack pointer at the start of the block -/
def conc (sp0 : BitVec 64) : SVal → Bv
  | .c b => b
  | .sp o => ⟨64, sp0 + o⟩

/-- machine address of the byte at signed offset `pos` from the entry stack pointer -/
def cellAddr (sp0 : BitVec 64) (pos : Int) : Nat := (sp0 + BitVec.ofInt 64 pos).toNat

/-- what `cp` knows is true in the interpreter state `σ` -/
structure Rel (sp0 : BitVec 64) (k : K) (σ : Sem.State) : Prop where
  regs : ∀ v sv, k.getReg v = some sv → σ.getReg v = conc sp0 sv
  cells : ∀ c, c ∈ k.cells → inBounds c.pos c.size = true ∧ (conc sp0 c.val).w = 8 * c.size ∧
      σ.readMem (cellAddr sp0 c.pos) c.size = (conc sp0 c.val).toNat
  ptr : σ.ptrBytes = 8

theorem bv_eta (b : Bv) : (⟨b.w, b.v⟩ : Bv) = b := by cases b; rfl

/-- rewriting the width of a bit-vector along an equation -/
theorem bv_cast_eq {w w' : Nat} (h : w = w') (v : BitVec w) (v' : BitVec w') (hv : v.toNat = v'.toNat) :
    (⟨w, v⟩ : Bv) = ⟨w', v'⟩ := Bv.ext' h hv

theorem sameW_val (a b : Bv) (h : a.w = b.w) (f : {w : Nat} → BitVec w → BitVec w → Res) :
    sameW a b f = f a.v (h ▸ b.v) := by
  simp [sameW, h]

/-- **evaluation**: a value `cp` computes for an expression is the value the interpreter computes -/
theorem cpExpr_sound (strict : Bool) (sp0 : BitVec 64) (k : K) (σ : Sem.State) (hr : Rel sp0 k σ) :
    ∀ (e : Expression) (sv : SVal), cpExpr strict k e = some sv → Sem.eval σ e = some (conc sp0 sv) := by
  intro e
  induction e with
  | Var v => intro sv h; simp only [cpExpr] at h; simp only [Sem.eval]; rw [hr.regs v sv h]
  | Const b x => intro sv h; simp only [cpExpr] at h; cases h; rfl
  | Unknown d s => intro sv h; simp [cpExpr] at h
  | UnOp op a ih =>
    intro sv h
    simp only [cpExpr] at h
    split at h
    · next x hx =>
      have := ih _ hx
      simp only [Option.map_eq_some_iff] at h
      obtain ⟨r, hr', rfl⟩ := h
      simp only [Sem.eval, this, conc, Option.bind_eq_bind, Option.bind_some, bind]
      cases op with
      | Int2Comp =>
        simp only [cpUn] at hr'
        split at hr'
        · cases hr'
        · exact hr'
      | IntNegate => simpa only [cpUn] using hr'
      | _ => simp [cpUn] at hr'
    · simp at h
  | Cast op sz a ih =>
    intro sv h
    simp only [cpExpr] at h
    split at h
    · next x hx =>
      have := ih _ hx
      simp only [Option.map_eq_some_iff] at h
      obtain ⟨r, hr', rfl⟩ := h
      simp only [Sem.eval, this, conc, Option.bind_eq_bind, Option.bind_some, bind]
      cases op with
      | IntZExt => simp only [cpCast] at hr'; split at hr' <;> first | exact hr' | cases hr'
      | IntSExt => simp only [cpCast] at hr'; split at hr' <;> first | exact hr' | cases hr'
      | _ => simp [cpCast] at hr'
    · simp at h
  | Subpiece lb sz a ih =>
    intro sv h
    simp only [cpExpr] at h
    split at h
    · next x hx =>
      have := ih _ hx
      simp only [Option.map_eq_some_iff] at h
      obtain ⟨r, hr', rfl⟩ := h
      simp only [Sem.eval, this, conc, Option.bind_eq_bind, Option.bind_some, bind]
      simp only [cpSubpiece] at hr'
      split at hr'
      · exact hr'
      · cases hr'
    · simp at h
  | BinOp op l r ihl ihr =>
    intro sv h
    simp only [cpExpr] at h
    split at h
    · next a b ha hb =>
      have ea := ihl _ ha
      have eb := ihr _ hb
      simp only [Sem.eval, ea, eb, conc, Option.bind_eq_bind, Option.bind_some, bind]
      split at h
      · next hx =>
        obtain ⟨rfl, rfl⟩ := hx
        rw [ha] at hb
        cases hb
        split at h
        · next hw =>
          cases h
          obtain ⟨aw, av⟩ := a
          simp only at hw
          subst hw
          simp [Ref.binOp, sameW, valV, Sem.resToOpt, conc, bvZero]
        · cases h
      · simp only [Option.map_eq_some_iff] at h
        obtain ⟨r', h1, rfl⟩ := h
        simp only [cpBin] at h1
        split at h1
        · exact h1
        · cases h1
    · next o b ho hb =>
      have ea := ihl _ ho
      have eb := ihr _ hb
      simp only [Sem.eval, ea, eb, conc, Option.bind_eq_bind, Option.bind_some, bind]
      obtain ⟨bw, bv⟩ := b
      split at h
      · next hw =>
        simp only at hw
        subst hw
        cases op <;> simp only at h <;> (try cases h)
        · split at h
          · cases h
          · cases h
            simp only [Ref.binOp, sameW, valV, Sem.resToOpt, dite_true, ← C01.add_eq, BitVec.add_assoc]
        · split at h
          · cases h
          · cases h
            simp only [Ref.binOp, sameW, valV, Sem.resToOpt, dite_true, ← C01.sub_eq]
            congr 2
            bv_omega
      · cases h
    · next a o ha ho =>
      have ea := ihl _ ha
      have eb := ihr _ ho
      simp only [Sem.eval, ea, eb, conc, Option.bind_eq_bind, Option.bind_some, bind]
      obtain ⟨aw, av⟩ := a
      split at h
      · next hw =>
        simp only at hw
        subst hw
        cases op <;> simp only at h <;> (try cases h)
        split at h
        · cases h
        · cases h
          simp only [Ref.binOp, sameW, valV, Sem.resToOpt, dite_true, ← C01.add_eq]
          congr 2
          rw [BitVec.add_comm av, BitVec.add_assoc, BitVec.add_comm o]
      · cases h
    · next o₁ o₂ h1 h2 =>
      have ea := ihl _ h1
      have eb := ihr _ h2
      simp only [Sem.eval, ea, eb, conc, Option.bind_eq_bind, Option.bind_some, bind]
      cases op <;> simp only at h <;> (try cases h)
      split at h
      · cases h
      · cases h
        simp only [Ref.binOp, sameW, valV, Sem.resToOpt, dite_true, ← C01.sub_eq]
        congr 2
        bv_omega
    · simp at h


/-! ### the bookkeeping of `K` -/

theorem K.getReg_setReg (k : K) (v w : Variable) (s : SVal) :
    (k.setReg v s).getReg w = if w = v then some s else k.getReg w := by
  unfold K.setReg K.getReg
  by_cases h : w = v
  · subst h; simp
  · have hvw : ¬ v = w := fun e => h e.symm
    dsimp only
    rw [List.find?_cons_of_neg (by simpa using hvw), find_filter]
    · simp [h]
    · intro p hp
      simp only [beq_iff_eq] at hp
      simp [hp, h]

theorem K.getReg_forget (k : K) (v w : Variable) :
    (k.forget v).getReg w = if w = v then none else k.getReg w := by
  unfold K.forget K.getReg
  by_cases h : w = v
  · subst h
    have : (k.regs.filter (fun p => p.1 != w)).find? (fun p => p.1 == w) = none := by
      rw [List.find?_eq_none]
      intro p hp
      simp only [List.mem_filter, bne_iff_ne, ne_eq] at hp
      simp [hp.2]
    simp [this]
  · dsimp only
    rw [find_filter]
    · simp [h]
    · intro p hp
      simp only [beq_iff_eq] at hp
      simp [hp, h]

theorem K.getCell_mem (k : K) (pos : Int) (n : Nat) (sv : SVal) (h : k.getCell pos n = some sv) :
    ∃ c, c ∈ k.cells ∧ c.pos = pos ∧ c.size = n ∧ c.val = sv := by
  unfold K.getCell at h
  split at h
  · next c hc =>
    split at h
    · next hs =>
      cases h
      have hm := List.mem_of_find?_eq_some hc
      have hp := List.find?_some hc
      exact ⟨c, hm, by simpa using hp, by simpa using hs, rfl⟩
    · cases h
  · cases h

/-- two byte ranges of in-bounds cells that do not intersect as integer ranges have different
machine addresses -/
theorem cellAddr_ne (sp0 : BitVec 64) (p q : Int) (n m i j : Nat)
    (hp : inBounds p n = true) (hq : inBounds q m = true) (hi : i < n) (hj : j < m)
    (hne : p + (i : Int) ≠ q + (j : Int)) :
    (cellAddr sp0 p + i) % 2 ^ 64 ≠ (cellAddr sp0 q + j) % 2 ^ 64 := by
  simp only [inBounds, Bool.and_eq_true, decide_eq_true_eq] at hp hq
  simp only [cellAddr, BitVec.toNat_add, BitVec.toNat_ofInt]
  have h1 := sp0.isLt
  generalize sp0.toNat = s at *
  have e1 : ((p % (2 ^ 64 : Nat) : Int).toNat : Int) = p % (2 ^ 64 : Nat) :=
    Int.toNat_of_nonneg (Int.emod_nonneg _ (by decide))
  have e2 : ((q % (2 ^ 64 : Nat) : Int).toNat : Int) = q % (2 ^ 64 : Nat) :=
    Int.toNat_of_nonneg (Int.emod_nonneg _ (by decide))
  generalize (p % (2 ^ 64 : Nat) : Int).toNat = P at *
  generalize (q % (2 ^ 64 : Nat) : Int).toNat = Q at *
  omega

/-- the byte ranges `[p, p+n)` and `[q, q+m)` do not intersect (the test of `K.clear`) -/
def disjointCell (p : Int) (n : Nat) (q : Int) (m : Nat) : Bool :=
  !((decide (q < p) && decide (q + (m : Int) > p)) || (decide (p ≤ q) && decide (q < p + (n : Int))))

theorem K.mem_clear (k : K) (pos : Int) (n : Nat) (c : KCell) (h : c ∈ (k.clear pos n).cells) :
    c ∈ k.cells ∧ disjointCell pos n c.pos c.size = true := by
  simp only [K.clear, List.mem_filter] at h
  exact ⟨h.1, h.2⟩


theorem Rel.setReg_known {sp0 : BitVec 64} {k : K} {σ : Sem.State} (hr : Rel sp0 k σ) (v : Variable)
    (sv : SVal) : Rel sp0 (k.setReg v sv) (σ.setReg v (conc sp0 sv)) where
  regs := by
    intro w s h
    rw [K.getReg_setReg] at h
    by_cases hw : w = v
    · subst hw; simp only [if_true] at h; cases h; exact SemL.getReg_setReg_same _ _ _
    · simp only [hw, if_false] at h
      rw [SemL.getReg_setReg_ne _ _ _ _ hw]; exact hr.regs w s h
  cells := hr.cells
  ptr := hr.ptr

theorem Rel.forget {sp0 : BitVec 64} {k : K} {σ : Sem.State} (hr : Rel sp0 k σ) (v : Variable) (x : Bv) :
    Rel sp0 (k.forget v) (σ.setReg v x) where
  regs := by
    intro w s h
    rw [K.getReg_forget] at h
    by_cases hw : w = v
    · simp [hw] at h
    · simp only [hw, if_false] at h
      rw [SemL.getReg_setReg_ne _ _ _ _ hw]; exact hr.regs w s h
  cells := hr.cells
  ptr := hr.ptr

theorem Rel.forgetCells {sp0 : BitVec 64} {k : K} {σ : Sem.State} (hr : Rel sp0 k σ) (a n val : Nat) :
    Rel sp0 { k with cells := [] } (σ.writeMem a n val) where
  regs := by
    intro w s h
    rw [SemL.getReg_writeMem]; exact hr.regs w s h
  cells := by intro c hc; simp at hc
  ptr := by rw [SemL.ptrBytes_writeMem]; exact hr.ptr

theorem conc_toNat_lt (sp0 : BitVec 64) (sv : SVal) : (conc sp0 sv).toNat < 2 ^ (conc sp0 sv).w :=
  (conc sp0 sv).v.isLt

theorem ofBytes_toNat (b : Bv) (n : Nat) (h : b.w = 8 * n) : Bv.ofBytes n b.toNat = b := by
  obtain ⟨w, v⟩ := b
  simp only at h
  subst h
  simp [Bv.ofBytes, Bv.ofNat, Bv.toNat]

theorem conc_bytes (sp0 : BitVec 64) (s : SVal) : (conc sp0 s).bytes = s.bytes := by
  cases s with
  | c b => rfl
  | sp o => simp [conc, Bv.bytes, SVal.bytes]

theorem conc_width (sp0 : BitVec 64) (s : SVal) (h : s.byteSized = true) : (conc sp0 s).w = 8 * s.bytes := by
  cases s with
  | c b => simpa [SVal.byteSized, SVal.bytes, conc] using h
  | sp o => rfl

theorem pow256 (n : Nat) : 256 ^ n = 2 ^ (8 * n) := by
  rw [Nat.pow_mul]

theorem disjointCell_ne (p : Int) (n : Nat) (q : Int) (m : Nat) (h : disjointCell p n q m = true)
    (i j : Nat) (hi : i < n) (hj : j < m) : p + (i : Int) ≠ q + (j : Int) := by
  simp only [disjointCell, Bool.not_eq_true', Bool.or_eq_false_iff, Bool.and_eq_false_iff,
    decide_eq_false_iff_not] at h
  omega

/-- **one definition**: what `cp` knows after a definition holds in the interpreter state after it -/
theorem cpDef_sound (strict : Bool) (sp0 : BitVec 64) (k : K) (σ σ' : Sem.State) (d : Def)
    (evs : List Sem.Event) (hr : Rel sp0 k σ) (hx : Sem.execDef σ d = some (σ', evs)) :
    Rel sp0 (cpDef strict k d) σ' := by
  cases d with
  | Assign v e =>
    simp only [Sem.execDef, Option.bind_eq_bind, Option.bind_eq_some_iff, bind] at hx
    obtain ⟨x, hxe, hx⟩ := hx
    split at hx
    · cases hx
    · cases hx
      simp only [cpDef]
      split
      · next s hs =>
        have := cpExpr_sound strict sp0 k σ hr e s hs
        rw [hxe] at this
        cases this
        exact hr.setReg_known v s
      · exact hr.forget v x
  | Load v a =>
    simp only [Sem.execDef, Option.bind_eq_bind, Option.bind_eq_some_iff, bind] at hx
    obtain ⟨addr, hae, hx⟩ := hx
    cases hx
    simp only [cpDef]
    split
    · next o ho =>
      split
      · next s hs =>
        have ha := cpExpr_sound strict sp0 k σ hr a _ ho
        rw [hae] at ha
        cases ha
        obtain ⟨c, hc, hp, hn, hv⟩ := K.getCell_mem k _ _ _ hs
        obtain ⟨_, hw, hread⟩ := hr.cells c hc
        have : Bv.ofBytes v.size (σ.readMem (conc sp0 (SVal.sp o)).toNat v.size) = conc sp0 s := by
          subst hv
          rw [← hn] at *
          have e : (conc sp0 (SVal.sp o)).toNat = cellAddr sp0 c.pos := by
            simp only [conc, Bv.toNat, cellAddr, hp, BitVec.ofInt_toInt]
          rw [e, hread]
          exact ofBytes_toNat _ _ hw
        rw [this]
        exact hr.setReg_known v s
      · exact hr.forget v _
    · exact hr.forget v _
  | Store a e =>
    simp only [Sem.execDef, Option.bind_eq_bind, Option.bind_eq_some_iff, bind] at hx
    obtain ⟨addr, hae, x, hxe, hx⟩ := hx
    cases hx
    simp only [cpDef]
    split
    · next o s ho hs =>
      split
      · next hb =>
        simp only [Bool.and_eq_true] at hb
        obtain ⟨hin, hbs⟩ := hb
        have ha := cpExpr_sound strict sp0 k σ hr a _ ho
        rw [hae] at ha
        cases ha
        have hv := cpExpr_sound strict sp0 k σ hr e _ hs
        rw [hxe] at hv
        cases hv
        have haddr : (conc sp0 (SVal.sp o)).toNat = cellAddr sp0 o.toInt := by
          simp only [conc, Bv.toNat, cellAddr, BitVec.ofInt_toInt]
        have hsz : inBounds o.toInt s.bytes = true := hin
        simp only [inBounds, Bool.and_eq_true, decide_eq_true_eq] at hin
        rw [conc_bytes, haddr]
        refine ⟨?_, ?_, ?_⟩
        · intro w s' h
          rw [SemL.getReg_writeMem]
          exact hr.regs w s' h
        · intro c hc
          simp only [List.mem_cons] at hc
          rcases hc with rfl | hc
          · refine ⟨hsz, conc_width sp0 s hbs, ?_⟩
            show (σ.writeMem _ _ _).readMem (cellAddr sp0 o.toInt) s.bytes = _
            rw [SemL.readMem_writeMem_same σ hr.ptr _ _ _ (by omega)]
            apply Nat.mod_eq_of_lt
            have := conc_toNat_lt sp0 s
            rw [conc_width sp0 s hbs] at this
            rw [pow256]; exact this
          · obtain ⟨hmem, hdis⟩ := K.mem_clear k _ _ c hc
            obtain ⟨hcb, hcw, hcr⟩ := hr.cells c hmem
            refine ⟨hcb, hcw, ?_⟩
            rw [SemL.readMem_writeMem_frame]
            · exact hcr
            · intro i j hi hj
              rw [SemL.wrap64 σ hr.ptr, SemL.wrap64 σ hr.ptr]
              exact cellAddr_ne sp0 _ _ _ _ i j hsz hcb hi hj (disjointCell_ne _ _ _ _ hdis i j hi hj)
        · rw [SemL.ptrBytes_writeMem]; exact hr.ptr
      · exact hr.forgetCells _ _ _
    · exact hr.forgetCells _ _ _


theorem cpDefs_sound (strict : Bool) (sp0 : BitVec 64) :
    ∀ (defs : List (Term Def)) (k : K) (σ σ' : Sem.State) (evs : List Sem.Event),
      Rel sp0 k σ → Sem.execDefs σ defs = some (σ', evs) → Rel sp0 (cpDefs strict k defs) σ' := by
  intro defs
  induction defs with
  | nil =>
    intro k σ σ' evs hr hx
    simp only [Sem.execDefs] at hx
    cases hx
    exact hr
  | cons d ds ih =>
    intro k σ σ' evs hr hx
    simp only [Sem.execDefs, Option.bind_eq_bind, Option.bind_eq_some_iff, bind] at hx
    obtain ⟨⟨σ₁, e₁⟩, h1, ⟨σ₂, e₂⟩, h2, hx⟩ := hx
    cases hx
    have hr1 := cpDef_sound strict sp0 k σ σ₁ d.term e₁ hr h1
    exact ih _ _ _ _ hr1 h2

/-- initial states: 64-bit addresses, the stack pointer register holds some 64-bit value -/
structure GoodInit (sp : Variable) (sp0 : BitVec 64) (σ : Sem.State) : Prop where
  ptr : σ.ptrBytes = 8
  spVal : σ.getReg sp = ⟨64, sp0⟩

theorem Rel.init {sp : Variable} {sp0 : BitVec 64} {σ : Sem.State} (h : GoodInit sp sp0 σ) :
    Rel sp0 (K.init sp) σ where
  regs := by
    intro v sv hv
    simp only [K.init, K.getReg] at hv
    by_cases hvs : sp = v
    · subst hvs
      simp at hv
      cases hv
      simp [conc, h.spVal]
    · simp [List.find?_cons, hvs] at hv
  cells := by intro c hc; simp [K.init] at hc
  ptr := h.ptr

theorem cpParam_sound (strict : Bool) (sp0 : BitVec 64) (k : K) (σ : Sem.State) (hr : Rel sp0 k σ)
    (p : Arg) (b : Bv) (h : cpParam strict k p = some b) : semParam σ p = some b := by
  cases p with
  | Register e dt =>
    simp only [cpParam] at h
    split at h
    · next b' he =>
      cases h
      simpa [semParam, conc] using cpExpr_sound strict sp0 k σ hr e _ he
    · cases h
  | Stack a size dt =>
    simp only [cpParam] at h
    split at h
    · next o ho =>
      split at h
      · next b' hc =>
        cases h
        have ha := cpExpr_sound strict sp0 k σ hr a _ ho
        obtain ⟨c, hcm, hp, hn, hv⟩ := K.getCell_mem k _ _ _ hc
        obtain ⟨_, hw, hread⟩ := hr.cells c hcm
        simp only [semParam, ha]
        have e : (conc sp0 (SVal.sp o)).toNat = cellAddr sp0 c.pos := by
          simp only [conc, Bv.toNat, cellAddr, hp, BitVec.ofInt_toInt]
        rw [e, ← hn, hread, hv]
        rw [hv] at hw
        exact congrArg some (ofBytes_toNat _ _ hw)
      · cases h
    · cases h

/-- **C18-const-sound.** If the block "computes the parameter as the constant `b` from constants
alone" (`blockConst`, with or without the no-signed-overflow restriction), then in the reference
interpreter the parameter has the value `b` after the block's definitions — from EVERY initial state
(any register contents, any memory, any value of the stack pointer). -/
theorem blockConst_sound (strict : Bool) (sp : Variable) (defs : List (Term Def)) (p : Arg) (b : Bv)
    (h : blockConst strict sp defs p = some b)
    (σ σ' : Sem.State) (sp0 : BitVec 64) (evs : List Sem.Event)
    (hinit : GoodInit sp sp0 σ) (hx : Sem.execDefs σ defs = some (σ', evs)) :
    semParam σ' p = some b :=
  cpParam_sound strict sp0 _ σ' (cpDefs_sound strict sp0 defs _ σ σ' evs (Rel.init hinit) hx) p b h

end CweModel.C18
