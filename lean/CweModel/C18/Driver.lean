/- C18 model driver: runs the model of CWE560/CWE467, the constant-propagation specification and the
reference interpreter on the analysed project of each harness case and compares with the warnings of
the real modules.

case line: {"proj": <canonical project JSON, as analysed>, "syms": [CWE467 symbols], "seed": n,
            "impl": {"c560": [lines], "c467": [lines]}}      (or "impl": "panic:…")
lines: "W|<jmp tid>|<address>|<description>|<umask_arg>" for a warning, "L|<jmp tid>" for the
"Could not determine umask argument" log message of CWE560.
-/
import CweModel.Base.Proto
import CweModel.C18.Model
open Lean CweModel.Proto CweModel.IR

namespace CweModel.C18

/-- a violation of the full statement at one call site. Sites whose constant computation overflows as a
signed operation keep the class of the (fixed) finding `signed-overflow-top-*`, so that a regression of
the repair of `Interval::add/sub/signed_mul/int_2_comp` is recognisable. -/
structure Fail where
  text : String

def linesFor (ls : List String) (tid : String) : List String :=
  ls.filter fun l => match l.splitOn "|" with
    | _ :: t :: _ => t == tid
    | _ => false

def hasWarn (ls : List String) (tid : String) : Bool :=
  (linesFor ls tid).any (·.startsWith "W|")

def warnArg (ls : List String) (tid : String) : Option String :=
  match (linesFor ls tid).filter (·.startsWith "W|") with
  | l :: _ => (l.splitOn "|").getLast?
  | [] => none

/-- value of a parameter in the reference interpreter after the block's definitions -/
def concreteParam (proj : Project) (seed : Nat) (defs : List (Term Def)) (p : Arg) : Option Bv :=
  let σ₀ : Sem.State := { seed := seed, ptrBytes := proj.stackPointerRegister.size, littleEndian := true }
  match Sem.execDefs σ₀ defs with
  | some (σ, _) => semParam σ p
  | none => none

structure Acc where
  fails : List Fail := []
  bad : Option String := none
  constrained : Nat := 0
  ovf : Nat := 0

def spec560Site (proj : Project) (seed : Nat) (impl _model : List String) (acc : Acc)
    (site : Term Sub × Term Blk × Term Jmp × ExternSymbol) : Acc :=
  let (_, blk, j, sym) := site
  match sym.parameters with
  | [p] =>
    let sp := proj.stackPointerRegister
    match blockConst false sp blk.term.defs p with
    | none => acc
    | some b =>
      match concreteParam proj seed blk.term.defs p with
      | none => { acc with bad := some s!"interpreter stuck in {blk.tid.id}" }
      | some kc =>
        if kc.toNat != b.toNat || kc.w != b.w then
          { acc with bad := some s!"cp-vs-interpreter {blk.tid.id} cp={b} sem={kc}" }
        else if kc.toNat ≥ 2 ^ 64 then acc
        else
          let strictSame := (blockConst true sp blk.term.defs p).isSome
          let expected := spec560 kc.toNat
          let got := hasWarn impl j.tid.id
          let argOk := !got || warnArg impl j.tid.id == some (fmtOct kc.toNat)
          let acc := { acc with constrained := acc.constrained + 1, ovf := acc.ovf + (if strictSame then 0 else 1) }
          if expected == got && argOk then acc
          else
            let cls :=
              if !strictSame && expected && !got then "signed-overflow-top-560"
              else if !argOk then "umask-arg"
              else if expected then "umask-missed" else "umask-false-warning"
            { acc with fails := acc.fails ++ [⟨
                s!"spec class={cls} expected={if expected then "warn" else "nowarn"}:{fmtOct kc.toNat} impl={linesFor impl j.tid.id} site={j.tid.id}"⟩] }
  | _ => acc

def spec467Site (proj : Project) (seed : Nat) (impl _model : List String) (acc : Acc)
    (site : Term Sub × Term Blk × Term Jmp × ExternSymbol) : Acc :=
  let (_, blk, j, sym) := site
  let sp := proj.stackPointerRegister
  let full := sym.parameters.map (blockConst false sp blk.term.defs)
  let strict := sym.parameters.map (blockConst true sp blk.term.defs)
  -- every constant the specification claims must be the interpreter's value
  let mismatch := (sym.parameters.zip full).any fun (p, k) =>
    match k with
    | some b =>
      match concreteParam proj seed blk.term.defs p with
      | some kc => kc.toNat != b.toNat || kc.w != b.w
      | none => true
    | none => false
  if mismatch then { acc with bad := some s!"cp-vs-interpreter {blk.tid.id}" } else
  let concrete := (sym.parameters.zip full).map fun (p, k) =>
    match k with
    | some _ => (concreteParam proj seed blk.term.defs p).map (·.toNat)
    | none => none
  let known := concrete.filterMap id
  let hit := spec467 sp.size known
  let allKnown := concrete.all (·.isSome)
  let expected : Option Bool := if hit then some true else if allKnown && !sym.parameters.isEmpty then some false else none
  match expected with
  | none => acc
  | some e =>
    let strictSame := (full.zip strict).all fun (a, b) => a.isSome == b.isSome
    let got := hasWarn impl j.tid.id
    let acc := { acc with constrained := acc.constrained + 1, ovf := acc.ovf + (if strictSame then 0 else 1) }
    if e == got then acc
    else
      let cls := if !strictSame && e then "signed-overflow-top-467" else if e then "ptrsize-missed" else "ptrsize-false-warning"
      { acc with fails := acc.fails ++ [⟨
          s!"spec class={cls} expected={if e then "warn" else "nowarn"}:{known} impl={linesFor impl j.tid.id} site={j.tid.id}"⟩] }

def strList (j : Json) : Except String (List String) := do
  let a ← j.getArr?
  mapM' (·.getStr?) a.toList

def handleE (line : String) : Except String String := do
  let j ← Json.parse line
  let proj ← parseProject (← field j "proj")
  let syms ← strList (← field j "syms")
  let seed := (natF j "seed").toOption.getD 1
  let implJ ← field j "impl"
  let m560 := check560 proj
  let m467 := check467 proj syms
  match implJ with
  | .str s => return s!"diff class=panic model={m560}{m467} impl={s}"
  | _ =>
  let i560 ← strList (← field implJ "c560")
  let i467 ← strList (← field implJ "c467")
  let sites560 := callsites proj.program (symbolMap proj.program [Gen.C18.umaskSymbol])
  let sites467 := callsites proj.program (symbolMap proj.program syms)
  let acc := sites560.foldl (spec560Site proj seed i560 m560) {}
  let acc := sites467.foldl (spec467Site proj seed i467 m467) acc
  match acc.bad with
  | some b => return "bad " ++ b
  | none =>
  match acc.fails with
  | f :: _ => return f.text
  | [] =>
  if m560 != i560 then return s!"diff class=c560 model={m560} impl={i560}"
  if m467 != i467 then return s!"diff class=c467 model={m467} impl={i467}"
  do
    let tags := (if acc.constrained > 0 then "constrained" else "modelonly")
      ++ (if i560.any (·.startsWith "W|") then " warn560" else "")
      ++ (if i560.any (·.startsWith "L|") then " log560" else "")
      ++ (if i467.isEmpty then "" else " warn467")
      ++ (if acc.ovf > 0 then " overflow" else "")
    return s!"ok {tags}"

end CweModel.C18

def main : IO Unit := CweModel.Proto.runDriver (CweModel.Proto.guarded CweModel.C18.handleE)
