/-
C18 — Constant-argument checkers decide on the argument's actual value.

Property (full statement): when the block containing a call to umask (or to a configured
allocation-like function) computes the call's parameter as a constant from constants alone
(`blockConst false sp defs p = some b`: assignments, copies, integer arithmetic on constants, stores
to and loads from `SP + c`), the umask check warns exactly when that constant exceeds 0o177 and differs
from 0o777, and the sizeof-on-pointer check warns exactly when some parameter equals the pointer size.

What is proved (for ALL blocks, parameters, initial register files, memories and stack pointer values):
* `blockConst_sound` (Sound.lean): `blockConst strict … = some b` ⇒ the parameter has the value `b` in
  the reference interpreter after the block, from every initial state — so "computes … as a constant"
  means what it says, for the full fragment and for the strict one;
* `model_param_exact` (Exact.lean): on the STRICT fragment `blockConst true …` (no signed overflow in
  an add/sub/mult/left-shift/2-complement step) the model of the block-local pointer-inference state
  knows the parameter as exactly the singleton `b`;
* here: hence `warn560 ↔ b > 0o177 ∧ b ≠ 0o777` and `warn467 ↔ ∃ parameter, value = pointer size`, also
  phrased with the interpreter's value.
The theorems carry the suffix `_partial` because of the no-signed-overflow hypothesis: outside it the
full statement is FALSE for the real code (`Interval::add/sub/signed_mul` answer `Top` when a bound
overflows, even for singletons) — see `overflow_counterexample` below and the known finding
`signed-overflow-top-560`, `signed-overflow-top-467`.
-/
import CweModel.C18.Exact

set_option linter.unusedSimpArgs false
set_option linter.unusedVariables false

namespace CweModel.C18
open CweModel CweModel.IR

/-- **C18-consts.** The decision constants and the symbol name extracted from the Rust sources are the
ones the property names (re-checked whenever `extract/c18_consts.py` regenerates them). -/
theorem consts_are_the_property :
    Gen.C18.umaskUpper = 0o177 ∧ Gen.C18.chmodUpper = 0o777 ∧ Gen.C18.umaskSymbol = "umask" :=
  ⟨rfl, rfl, rfl⟩

/-- the model's CWE560 verdict at one call site: `get_umask_permission_arg` succeeds and
`is_chmod_style_arg` holds -/
def warn560 (sp : Variable) (defs : List (Term Def)) (p : Arg) : Bool :=
  match (blockEndState sp defs).paramConst p with
  | some k => isChmodStyleArg k
  | none => false

/-- the model's CWE467 verdict at one call site (`check_for_pointer_sized_arg`) -/
def warn467 (sp : Variable) (defs : List (Term Def)) (ps : List Arg) : Bool :=
  ps.any fun p => (blockEndState sp defs).paramConst p == some sp.size

/-- `warn560` is what `check560` prints a warning for -/
theorem umaskPermissionArg_unique (sp : Variable) (blk : Term Blk) (sym : ExternSymbol) (p : Arg)
    (h : sym.parameters = [p]) :
    umaskPermissionArg sp blk sym = (blockEndState sp blk.term.defs).paramConst p := by
  simp [umaskPermissionArg, h]

/-- at a call site of a symbol with the unique parameter `p`, `check560` emits a warning iff `warn560` -/
theorem verdict560_warn_iff (sp : Variable) (blk : Term Blk) (sym : ExternSymbol) (p : Arg)
    (h : sym.parameters = [p]) :
    (∃ arg, verdict560 sp blk sym = .warn arg) ↔ warn560 sp blk.term.defs p = true := by
  simp only [verdict560, warn560, umaskPermissionArg_unique sp blk sym p h]
  cases (blockEndState sp blk.term.defs).paramConst p with
  | none => simp
  | some k => cases hk : isChmodStyleArg k <;> simp [hk]

theorem pointerSizedArg_eq (sp : Variable) (blk : Term Blk) (sym : ExternSymbol) :
    pointerSizedArg sp blk sym = warn467 sp blk.term.defs sym.parameters := rfl

/-- the explicit, decidable fragment predicate -/
def InFragment (sp : Variable) (defs : List (Term Def)) (p : Arg) : Bool :=
  match blockConst true sp defs p with
  | some b => decide (b.toNat < 2 ^ 64)
  | none => false

theorem inFragment_iff (sp : Variable) (defs : List (Term Def)) (p : Arg) :
    InFragment sp defs p = true ↔ ∃ b, blockConst true sp defs p = some b ∧ b.toNat < 2 ^ 64 := by
  unfold InFragment
  split
  · next b hb => simp [hb]
  · next hn => simp [hn]

/-- **C18-umask (partial: no signed overflow).** In the fragment the CWE560 model warns exactly when
the constant the block computes exceeds 0o177 and differs from 0o777. -/
theorem warn560_iff_partial (sp : Variable) (hsp : sp.size = 8) (defs : List (Term Def)) (p : Arg) (b : Bv)
    (hfrag : blockConst true sp defs p = some b) (hb : b.toNat < 2 ^ 64) :
    warn560 sp defs p = true ↔ b.toNat > 0o177 ∧ b.toNat ≠ 0o777 := by
  simp only [warn560, model_paramConst sp hsp defs p b hfrag hb, isChmodStyleArg, Gen.C18.umaskUpper,
    Gen.C18.chmodUpper, Bool.and_eq_true, decide_eq_true_eq]
  constructor
  · rintro ⟨h1, h2⟩; exact ⟨of_decide_eq_true h1, of_decide_eq_true h2⟩
  · rintro ⟨h1, h2⟩; exact ⟨decide_eq_true h1, decide_eq_true h2⟩

/-- **C18-umask, against the reference interpreter (partial).** For every initial state (any
registers, memory, stack pointer) from which the interpreter executes the block: the CWE560 model warns
exactly when the VALUE THE INTERPRETER COMPUTES for the parameter exceeds 0o177 and differs from 0o777. -/
theorem warn560_iff_sem_partial (sp : Variable) (hsp : sp.size = 8) (defs : List (Term Def)) (p : Arg)
    (hfrag : InFragment sp defs p = true)
    (σ σ' : Sem.State) (sp0 : BitVec 64) (evs : List Sem.Event)
    (hinit : GoodInit sp sp0 σ) (hx : Sem.execDefs σ defs = some (σ', evs)) :
    warn560 sp defs p = true ↔ ∃ v, semParam σ' p = some v ∧ v.toNat > 0o177 ∧ v.toNat ≠ 0o777 := by
  obtain ⟨b, hfb, hb⟩ := (inFragment_iff sp defs p).mp hfrag
  have hs := blockConst_sound true sp defs p b hfb σ σ' sp0 evs hinit hx
  rw [warn560_iff_partial sp hsp defs p b hfb hb, hs]
  constructor
  · intro h; exact ⟨b, rfl, h⟩
  · rintro ⟨v, hv, h⟩; cases hv; exact h

/-- **C18-sizeof (partial: no signed overflow).** If every parameter of the call is in the fragment, the
CWE467 model warns exactly when some parameter's constant equals the pointer size. -/
theorem warn467_iff_partial (sp : Variable) (hsp : sp.size = 8) (defs : List (Term Def)) (ps : List Arg)
    (hfrag : ∀ p, p ∈ ps → InFragment sp defs p = true) :
    warn467 sp defs ps = true ↔
      ∃ p, p ∈ ps ∧ ∃ b, blockConst true sp defs p = some b ∧ b.toNat = sp.size := by
  simp only [warn467, List.any_eq_true, beq_iff_eq]
  constructor
  · rintro ⟨p, hp, h⟩
    obtain ⟨b, hfb, hb⟩ := (inFragment_iff sp defs p).mp (hfrag p hp)
    rw [model_paramConst sp hsp defs p b hfb hb] at h
    exact ⟨p, hp, b, hfb, by simpa using h⟩
  · rintro ⟨p, hp, b, hfb, h⟩
    obtain ⟨b', hfb', hb'⟩ := (inFragment_iff sp defs p).mp (hfrag p hp)
    rw [hfb] at hfb'
    cases hfb'
    exact ⟨p, hp, by rw [model_paramConst sp hsp defs p b hfb hb', h]⟩

/-- **C18-sizeof, against the reference interpreter (partial).** -/
theorem warn467_iff_sem_partial (sp : Variable) (hsp : sp.size = 8) (defs : List (Term Def)) (ps : List Arg)
    (hfrag : ∀ p, p ∈ ps → InFragment sp defs p = true)
    (σ σ' : Sem.State) (sp0 : BitVec 64) (evs : List Sem.Event)
    (hinit : GoodInit sp sp0 σ) (hx : Sem.execDefs σ defs = some (σ', evs)) :
    warn467 sp defs ps = true ↔ ∃ p, p ∈ ps ∧ ∃ v, semParam σ' p = some v ∧ v.toNat = sp.size := by
  rw [warn467_iff_partial sp hsp defs ps hfrag]
  constructor
  · rintro ⟨p, hp, b, hfb, h⟩
    exact ⟨p, hp, b, blockConst_sound true sp defs p b hfb σ σ' sp0 evs hinit hx, h⟩
  · rintro ⟨p, hp, v, hv, h⟩
    obtain ⟨b, hfb, hb⟩ := (inFragment_iff sp defs p).mp (hfrag p hp)
    have := blockConst_sound true sp defs p b hfb σ σ' sp0 evs hinit hx
    rw [this] at hv
    injection hv with hv
    subst hv
    exact ⟨p, hp, b, hfb, h⟩


/-! ### examples: the hypotheses are satisfiable, the boundaries are where the property puts them -/

namespace Example

def rsp : Variable := { name := "RSP", size := 8 }
def rdi : Variable := { name := "RDI", size := 8 }
def rax : Variable := { name := "RAX", size := 8 }
def t4 : Variable := { name := "$T", size := 4, isTemp := true }
def tm (id : String) (d : Def) : Term Def := { tid := { id := id }, term := d }

/-- `sub rsp,0x10 ; mov dword [rsp+8], c ; mov eax,[rsp+8] ; add eax,1 ; mov edi,eax ; call umask` -/
def viaStack (c : Nat) : List (Term Def) :=
  [ tm "d1" (.Assign rsp (.BinOp .IntSub (.Var rsp) (.Const 8 0x10))),
    tm "d2" (.Store (.BinOp .IntAdd (.Var rsp) (.Const 8 8)) (.Const 4 c)),
    tm "d3" (.Load t4 (.BinOp .IntAdd (.Var rsp) (.Const 8 8))),
    tm "d4" (.Assign rdi (.Cast .IntZExt 8 (.BinOp .IntAdd (.Var t4) (.Const 4 1)))) ]
/-- the 4-byte register parameter `EDI` -/
def edi : Arg := .Register (.Subpiece 0 4 (.Var rdi)) none

-- 0o177 + 1 = 0o200: in the fragment, computed as 0o200, the model warns
example : blockConst true rsp (viaStack 0o177) edi = some ⟨32, 0o200⟩ := by rfl
example : InFragment rsp (viaStack 0o177) edi = true := by decide
example : warn560 rsp (viaStack 0o177) edi = true := by decide
/-- the theorem applies to it -/
example : warn560 rsp (viaStack 0o177) edi = true ↔ (0o200 > 0o177 ∧ 0o200 ≠ 0o777) :=
  warn560_iff_partial rsp rfl (viaStack 0o177) edi ⟨32, 0o200⟩ (by rfl) (by decide)
-- 0o176 + 1 = 0o177: in the fragment, no warning; 0o776 + 1 = 0o777: no warning; 0o775 + 1: warning
example : InFragment rsp (viaStack 0o176) edi = true ∧ warn560 rsp (viaStack 0o176) edi = false := by decide
example : InFragment rsp (viaStack 0o776) edi = true ∧ warn560 rsp (viaStack 0o776) edi = false := by decide
example : InFragment rsp (viaStack 0o775) edi = true ∧ warn560 rsp (viaStack 0o775) edi = true := by decide

/-- `malloc(8)` with a stack parameter: `mov qword [rsp+8], 2 ; shl … 2` -/
def mallocDefs : List (Term Def) :=
  [ tm "d1" (.Assign rax (.BinOp .IntLeft (.Const 8 2) (.Const 1 2))),
    tm "d2" (.Store (.BinOp .IntAdd (.Var rsp) (.Const 8 8)) (.Var rax)) ]
def stackArg : Arg := .Stack (.BinOp .IntAdd (.Var rsp) (.Const 8 8)) 8 none
example : InFragment rsp mallocDefs stackArg = true ∧ warn467 rsp mallocDefs [stackArg] = true := by decide
example : blockConst true rsp mallocDefs stackArg = some ⟨64, 8⟩ := by rfl

/-- an unknown input: not in the fragment, and the model does not decide it as a constant -/
def unknownDefs : List (Term Def) := [ tm "d1" (.Assign rdi (.BinOp .IntAdd (.Var rax) (.Const 8 0o777))) ]
example : InFragment rsp unknownDefs edi = false ∧ (blockEndState rsp unknownDefs).paramConst edi = none := by
  decide

/-- **the known finding**: `mov edi, 0x80000000 ; add edi, 0x80000080` computes 0x80 = 0o200 from constants
alone (full fragment: `blockConst false`), the property demands a warning, but the addition overflows as a
signed addition, `Interval::add` answers `Top`, and the check cannot determine the argument. -/
def overflowDefs : List (Term Def) :=
  [ tm "d1" (.Assign rdi (.Cast .IntZExt 8 (.BinOp .IntAdd (.Const 4 0x80000000) (.Const 4 0x80000080)))) ]
theorem overflow_counterexample :
    (blockConst false rsp overflowDefs edi).map (·.toNat) = some 0o200 ∧ spec560 0o200 = true ∧
    InFragment rsp overflowDefs edi = false ∧ warn560 rsp overflowDefs edi = false := by decide

end Example

end CweModel.C18
