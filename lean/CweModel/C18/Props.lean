/-
C18 — Constant-argument checkers decide on the argument's actual value.

Property (full statement): when the block containing a call to umask (or to a configured
allocation-like function) computes the call's parameter as a constant from constants alone
(`blockConst false sp defs p = some b`: assignments, copies, integer arithmetic on constants, stores
to and loads from `SP + c`), the umask check warns exactly when that constant exceeds 0o177 and differs
from 0o777, and the sizeof-on-pointer check warns exactly when some parameter equals the pointer size.

What is proved (for ALL blocks, parameters, initial register files, memories and stack pointer values):
* `blockConst_sound` (Sound.lean): `blockConst strict … = some b` ⇒ the parameter has the value `b` in
  the reference interpreter after the block, from every initial state — so "computes … as a constant"
  means what it says;
* `model_param_exact` (Exact.lean): on the fragment `blockConst false …` — INCLUDING add/sub/mult/
  left-shift/2-complement steps that overflow as signed operations — the model of the block-local
  pointer-inference state knows the parameter as exactly the singleton `b`;
* here: hence `warn560 ↔ b > 0o177 ∧ b ≠ 0o777` and `warn467 ↔ ∃ parameter, value = pointer size`, also
  phrased with the interpreter's value.
History: before the repair of `Interval::add/sub/signed_mul/int_2_comp` (they answered `Top` when a bound
overflowed, even for singletons) these theorems needed a no-signed-overflow hypothesis
(`blockConst true`, suffix `_partial`) and the full statement was false for the real code (fixed findings
`signed-overflow-top-560`, `signed-overflow-top-467`; the former counterexample is `overflow_now_decided`
below).
-/
import CweModel.C18.Exact

set_option linter.unusedSimpArgs false
set_option linter.unusedVariables false

namespace CweModel.C18
open CweModel CweModel.IR

/-- **C18-consts.** The decision constants and the symbol name extracted from the Rust sources are the
ones the property names (re-checked whenever `extract/c18_consts.py` regenerates them). -/
theorem consts_are_the_property :
    Gen.C18.umaskUpper = 0o177 ∧ Gen.C18.chmodUpper = 0o777 ∧ Gen.C18.umaskSymbol = "umask" :=
  ⟨rfl, rfl, rfl⟩

/-- the model's CWE560 verdict at one call site: `get_umask_permission_arg` succeeds and
`is_chmod_style_arg` holds -/
def warn560 (sp : Variable) (defs : List (Term Def)) (p : Arg) : Bool :=
  match (blockEndState sp defs).paramConst p with
  | some k => isChmodStyleArg k
  | none => false

/-- the model's CWE467 verdict at one call site (`check_for_pointer_sized_arg`) -/
def warn467 (sp : Variable) (defs : List (Term Def)) (ps : List Arg) : Bool :=
  ps.any fun p => (blockEndState sp defs).paramConst p == some sp.size

/-- `warn560` is what `check560` prints a warning for -/
theorem umaskPermissionArg_unique (sp : Variable) (blk : Term Blk) (sym : ExternSymbol) (p : Arg)
    (h : sym.parameters = [p]) :
    umaskPermissionArg sp blk sym = (blockEndState sp blk.term.defs).paramConst p := by
  simp [umaskPermissionArg, h]

/-- at a call site of a symbol with the unique parameter `p`, `check560` emits a warning iff `warn560` -/
theorem verdict560_warn_iff (sp : Variable) (blk : Term Blk) (sym : ExternSymbol) (p : Arg)
    (h : sym.parameters = [p]) :
    (∃ arg, verdict560 sp blk sym = .warn arg) ↔ warn560 sp blk.term.defs p = true := by
  simp only [verdict560, warn560, umaskPermissionArg_unique sp blk sym p h]
  cases (blockEndState sp blk.term.defs).paramConst p with
  | none => simp
  | some k => cases hk : isChmodStyleArg k <;> simp [hk]

theorem pointerSizedArg_eq (sp : Variable) (blk : Term Blk) (sym : ExternSymbol) :
    pointerSizedArg sp blk sym = warn467 sp blk.term.defs sym.parameters := rfl

/-- the explicit, decidable fragment predicate: the block computes the parameter as a constant from
constants alone (signed overflows included) and the constant fits 64 bit -/
def InFragment (sp : Variable) (defs : List (Term Def)) (p : Arg) : Bool :=
  match blockConst false sp defs p with
  | some b => decide (b.toNat < 2 ^ 64)
  | none => false

theorem inFragment_iff (sp : Variable) (defs : List (Term Def)) (p : Arg) :
    InFragment sp defs p = true ↔ ∃ b, blockConst false sp defs p = some b ∧ b.toNat < 2 ^ 64 := by
  unfold InFragment
  split
  · next b hb => simp [hb]
  · next hn => simp [hn]

/-- **C18-umask.** When the block computes the parameter as the constant `b` from constants alone
(signed overflows included), the CWE560 model warns exactly when `b` exceeds 0o177 and differs from
0o777. -/
theorem warn560_iff (sp : Variable) (hsp : sp.size = 8) (defs : List (Term Def)) (p : Arg) (b : Bv)
    (hfrag : blockConst false sp defs p = some b) (hb : b.toNat < 2 ^ 64) :
    warn560 sp defs p = true ↔ b.toNat > 0o177 ∧ b.toNat ≠ 0o777 := by
  simp only [warn560, model_paramConst false sp hsp defs p b hfrag hb, isChmodStyleArg, Gen.C18.umaskUpper,
    Gen.C18.chmodUpper, Bool.and_eq_true, decide_eq_true_eq]
  constructor
  · rintro ⟨h1, h2⟩; exact ⟨of_decide_eq_true h1, of_decide_eq_true h2⟩
  · rintro ⟨h1, h2⟩; exact ⟨decide_eq_true h1, decide_eq_true h2⟩

/-- **C18-umask, against the reference interpreter.** For every initial state (any
registers, memory, stack pointer) from which the interpreter executes the block: the CWE560 model warns
exactly when the VALUE THE INTERPRETER COMPUTES for the parameter exceeds 0o177 and differs from 0o777. -/
theorem warn560_iff_sem (sp : Variable) (hsp : sp.size = 8) (defs : List (Term Def)) (p : Arg)
    (hfrag : InFragment sp defs p = true)
    (σ σ' : Sem.State) (sp0 : BitVec 64) (evs : List Sem.Event)
    (hinit : GoodInit sp sp0 σ) (hx : Sem.execDefs σ defs = some (σ', evs)) :
    warn560 sp defs p = true ↔ ∃ v, semParam σ' p = some v ∧ v.toNat > 0o177 ∧ v.toNat ≠ 0o777 := by
  obtain ⟨b, hfb, hb⟩ := (inFragment_iff sp defs p).mp hfrag
  have hs := blockConst_sound false sp defs p b hfb σ σ' sp0 evs hinit hx
  rw [warn560_iff sp hsp defs p b hfb hb, hs]
  constructor
  · intro h; exact ⟨b, rfl, h⟩
  · rintro ⟨v, hv, h⟩; cases hv; exact h

/-- **C18-sizeof.** If every parameter of the call is in the fragment (computed from constants alone,
signed overflows included), the CWE467 model warns exactly when some parameter's constant equals the
pointer size. -/
theorem warn467_iff (sp : Variable) (hsp : sp.size = 8) (defs : List (Term Def)) (ps : List Arg)
    (hfrag : ∀ p, p ∈ ps → InFragment sp defs p = true) :
    warn467 sp defs ps = true ↔
      ∃ p, p ∈ ps ∧ ∃ b, blockConst false sp defs p = some b ∧ b.toNat = sp.size := by
  simp only [warn467, List.any_eq_true, beq_iff_eq]
  constructor
  · rintro ⟨p, hp, h⟩
    obtain ⟨b, hfb, hb⟩ := (inFragment_iff sp defs p).mp (hfrag p hp)
    rw [model_paramConst false sp hsp defs p b hfb hb] at h
    exact ⟨p, hp, b, hfb, by simpa using h⟩
  · rintro ⟨p, hp, b, hfb, h⟩
    obtain ⟨b', hfb', hb'⟩ := (inFragment_iff sp defs p).mp (hfrag p hp)
    rw [hfb] at hfb'
    cases hfb'
    exact ⟨p, hp, by rw [model_paramConst false sp hsp defs p b hfb hb', h]⟩

/-- **C18-sizeof, against the reference interpreter.** -/
theorem warn467_iff_sem (sp : Variable) (hsp : sp.size = 8) (defs : List (Term Def)) (ps : List Arg)
    (hfrag : ∀ p, p ∈ ps → InFragment sp defs p = true)
    (σ σ' : Sem.State) (sp0 : BitVec 64) (evs : List Sem.Event)
    (hinit : GoodInit sp sp0 σ) (hx : Sem.execDefs σ defs = some (σ', evs)) :
    warn467 sp defs ps = true ↔ ∃ p, p ∈ ps ∧ ∃ v, semParam σ' p = some v ∧ v.toNat = sp.size := by
  rw [warn467_iff sp hsp defs ps hfrag]
  constructor
  · rintro ⟨p, hp, b, hfb, h⟩
    exact ⟨p, hp, b, blockConst_sound false sp defs p b hfb σ σ' sp0 evs hinit hx, h⟩
  · rintro ⟨p, hp, v, hv, h⟩
    obtain ⟨b, hfb, hb⟩ := (inFragment_iff sp defs p).mp (hfrag p hp)
    have := blockConst_sound false sp defs p b hfb σ σ' sp0 evs hinit hx
    rw [this] at hv
    injection hv with hv
    subst hv
    exact ⟨p, hp, b, hfb, h⟩


/-! ### examples: the hypotheses are satisfiable, the boundaries are where the property puts them -/

namespace Example

def rsp : Variable := { name := "RSP", size := 8 }
def rdi : Variable := { name := "RDI", size := 8 }
def rax : Variable := { name := "RAX", size := 8 }
def t4 : Variable := { name := "$T", size := 4, isTemp := true }
def tm (id : String) (d : Def) : Term Def := { tid := { id := id }, term := d }

/-- `sub rsp,0x10 ; mov dword [rsp+8], c ; mov eax,[rsp+8] ; add eax,1 ; mov edi,eax ; call umask` -/
def viaStack (c : Nat) : List (Term Def) :=
  [ tm "d1" (.Assign rsp (.BinOp .IntSub (.Var rsp) (.Const 8 0x10))),
    tm "d2" (.Store (.BinOp .IntAdd (.Var rsp) (.Const 8 8)) (.Const 4 c)),
    tm "d3" (.Load t4 (.BinOp .IntAdd (.Var rsp) (.Const 8 8))),
    tm "d4" (.Assign rdi (.Cast .IntZExt 8 (.BinOp .IntAdd (.Var t4) (.Const 4 1)))) ]
/-- the 4-byte register parameter `EDI` -/
def edi : Arg := .Register (.Subpiece 0 4 (.Var rdi)) none

-- 0o177 + 1 = 0o200: in the fragment, computed as 0o200, the model warns
example : blockConst false rsp (viaStack 0o177) edi = some ⟨32, 0o200⟩ := by rfl
example : InFragment rsp (viaStack 0o177) edi = true := by decide
example : warn560 rsp (viaStack 0o177) edi = true := by decide
/-- the theorem applies to it -/
example : warn560 rsp (viaStack 0o177) edi = true ↔ (0o200 > 0o177 ∧ 0o200 ≠ 0o777) :=
  warn560_iff rsp rfl (viaStack 0o177) edi ⟨32, 0o200⟩ (by rfl) (by decide)
-- 0o176 + 1 = 0o177: in the fragment, no warning; 0o776 + 1 = 0o777: no warning; 0o775 + 1: warning
example : InFragment rsp (viaStack 0o176) edi = true ∧ warn560 rsp (viaStack 0o176) edi = false := by decide
example : InFragment rsp (viaStack 0o776) edi = true ∧ warn560 rsp (viaStack 0o776) edi = false := by decide
example : InFragment rsp (viaStack 0o775) edi = true ∧ warn560 rsp (viaStack 0o775) edi = true := by decide

/-- `malloc(8)` with a stack parameter: `mov qword [rsp+8], 2 ; shl … 2` -/
def mallocDefs : List (Term Def) :=
  [ tm "d1" (.Assign rax (.BinOp .IntLeft (.Const 8 2) (.Const 1 2))),
    tm "d2" (.Store (.BinOp .IntAdd (.Var rsp) (.Const 8 8)) (.Var rax)) ]
def stackArg : Arg := .Stack (.BinOp .IntAdd (.Var rsp) (.Const 8 8)) 8 none
example : InFragment rsp mallocDefs stackArg = true ∧ warn467 rsp mallocDefs [stackArg] = true := by decide
example : blockConst false rsp mallocDefs stackArg = some ⟨64, 8⟩ := by rfl

/-- an unknown input: not in the fragment, and the model does not decide it as a constant -/
def unknownDefs : List (Term Def) := [ tm "d1" (.Assign rdi (.BinOp .IntAdd (.Var rax) (.Const 8 0o777))) ]
example : InFragment rsp unknownDefs edi = false ∧ (blockEndState rsp unknownDefs).paramConst edi = none := by
  decide

/-- **the former known finding** (fixed): `mov edi, 0x80000000 ; add edi, 0x80000080` computes 0x80 = 0o200
from constants alone, the property demands a warning. The addition overflows as a signed addition
(`blockConst true` does not accept it); `Interval::add` used to answer `Top` and the check could not
determine the argument. Since the repair the sum of two singletons is exact: the block is in the fragment
and the model warns. -/
def overflowDefs : List (Term Def) :=
  [ tm "d1" (.Assign rdi (.Cast .IntZExt 8 (.BinOp .IntAdd (.Const 4 0x80000000) (.Const 4 0x80000080)))) ]
theorem overflow_now_decided :
    (blockConst false rsp overflowDefs edi).map (·.toNat) = some 0o200 ∧ spec560 0o200 = true ∧
    blockConst true rsp overflowDefs edi = none ∧
    InFragment rsp overflowDefs edi = true ∧ warn560 rsp overflowDefs edi = true := by decide
/-- the theorem applies to it -/
example : warn560 rsp overflowDefs edi = true ↔ (0o200 > 0o177 ∧ 0o200 ≠ 0o777) :=
  warn560_iff rsp rfl overflowDefs edi ⟨32, 0o200⟩ (by rfl) (by decide)

/-- `malloc(0x8000000000000000 + 0x8000000000000008)` = `malloc(8)`: pointer-sized after a signed overflow;
`-MIN` and an overflowing product / shift are kept as well -/
def overflowMalloc : List (Term Def) :=
  [ tm "d1" (.Assign rdi (.BinOp .IntAdd (.Const 8 0x8000000000000000) (.Const 8 0x8000000000000008))) ]
def rdiArg : Arg := .Register (.Var rdi) none
example : InFragment rsp overflowMalloc rdiArg = true ∧ blockConst true rsp overflowMalloc rdiArg = none ∧
    warn467 rsp overflowMalloc [rdiArg] = true := by decide
def overflowMisc : List (Term Def) :=
  [ tm "d1" (.Assign rax (.UnOp .Int2Comp (.Const 8 0x8000000000000000))),
    tm "d2" (.Assign rdi (.BinOp .IntAdd (.BinOp .IntMult (.Var rax) (.Const 8 3))
      (.BinOp .IntLeft (.Const 8 0x4000000000000001) (.Const 1 3)))) ]
example : (blockConst false rsp overflowMisc rdiArg).map (·.toNat) = some 0x8000000000000008 ∧
    blockConst true rsp overflowMisc rdiArg = none ∧
    (blockEndState rsp overflowMisc).paramConst rdiArg = some 0x8000000000000008 := by decide

end Example

end CweModel.C18
