/-
C18 — EXACTNESS of the model on the fragment: whatever the constant propagation `cp…` knows (constants
and stack addresses computed from constants alone — with or without signed overflows: the theorems hold
for every value of `strict`, in particular for the full fragment `strict := false`), the block-local
pointer-inference state of the model knows as the same singleton value.
Exactness on singletons is `C01.binOp_eq_ref` & co.; read-after-write of stack cells is the `MemRegion`
cell discipline.
-/
import CweModel.C18.Sound

set_option linter.unusedSimpArgs false
set_option linter.unusedVariables false

namespace CweModel.C18
open CweModel CweModel.IR

/-- the abstract value of a symbolic value -/
def embed : SVal → AData
  | .c b => AData.const b
  | .sp o => AData.sp ⟨64, o⟩

theorem resToOpt_some (r : Res) (b : Bv) (h : Sem.resToOpt r = some b) : r = .val b := by
  cases r <;> simp [Sem.resToOpt] at h
  rw [h]

theorem bytes_of_width (b : Bv) (n : Nat) (h : b.w = 8 * n) : b.bytes = n := by
  simp only [Bv.bytes, h]; omega

/-! ### singleton intervals -/

theorem itv_add_exact (a b r : Bv) (hw : a.w = b.w) (href : Ref.binOp .IntAdd a b = .val r) :
    Itv.add (.single a) (.single b) = .single r := by
  obtain ⟨aw, av⟩ := a
  obtain ⟨bw, bv⟩ := b
  simp only at hw
  subst hw
  simp only [Ref.binOp, sameW, valV, dite_true, ← C01.add_eq] at href
  cases href
  simp [Itv.add]

theorem itv_sub_exact (a b r : Bv) (hw : a.w = b.w) (href : Ref.binOp .IntSub a b = .val r) :
    Itv.sub (.single a) (.single b) = .single r := by
  obtain ⟨aw, av⟩ := a
  obtain ⟨bw, bv⟩ := b
  simp only at hw
  subst hw
  simp only [Ref.binOp, sameW, valV, dite_true, ← C01.sub_eq] at href
  cases href
  simp [Itv.sub]

/-- the product of two singletons of at most 64 bit is the reference product (also when it overflows) -/
theorem itv_mul_exact (a b r : Bv) (hw8 : a.w = 8 * a.bytes) (hw : a.w ≤ 64) (hwe : a.w = b.w)
    (href : Ref.binOp .IntMult a b = .val r) :
    Itv.mul (.single a) (.single b) = .single r := by
  have hb : ¬ 8 * (Itv.single a).bytes > 64 := by simp only [Itv.bytes]; omega
  obtain ⟨aw, av⟩ := a
  obtain ⟨bw, bv⟩ := b
  simp only at hwe hw
  subst hwe
  have : ¬ aw > 64 := by omega
  simp only [Ref.binOp, this, if_false, sameW, valV, dite_true, ← C01.mul_eq] at href
  cases href
  simp only [Itv.mul, hb, if_false, dite_true]

theorem mul_one_shl (w n : Nat) (x : BitVec w) : x * (1#w <<< n) = x <<< n := by
  rw [BitVec.shiftLeft_eq_mul_twoPow x n]; rfl

theorem itv_shl_exact (a b r : Bv) (hw8 : a.w = 8 * a.bytes) (hw : a.w ≤ 64) (hb : b.toNat < 2 ^ 64)
    (href : Ref.binOp .IntLeft a b = .val r) :
    Itv.shiftLeft (.single a) (.single b) = .single r := by
  simp only [Ref.binOp, hb, if_true, valV] at href
  rw [C01.Ref.shl_clamp, ← C01.shl_eq] at href
  simp only [Impl.shl] at href
  simp only [Itv.shiftLeft]
  by_cases hn : b.toNat < a.w
  · simp only [hn, if_true] at href ⊢
    cases href
    apply itv_mul_exact a ⟨a.w, 1#a.w <<< b.toNat⟩ _ hw8 hw rfl
    obtain ⟨aw, av⟩ := a
    have : ¬ aw > 64 := by simp only at hw; omega
    simp only [Ref.binOp, this, if_false, sameW, valV, dite_true, ← C01.mul_eq, mul_one_shl]
  · simp only [hn, if_false] at href ⊢
    cases href
    rfl

theorem itv_binOp_exact (strict : Bool) (op : BinOpType) (a b r : Bv) (h : cpBin strict op a b = some r) :
    Itv.binOp op (.single a) (.single b) = .single r := by
  simp only [cpBin] at h
  split at h
  · next hc =>
    simp only [Bool.and_eq_true, decide_eq_true_eq] at hc
    obtain ⟨⟨hsz, hfr⟩, hw⟩ := hc
    have href := resToOpt_some _ _ h
    have hfirst : C01.WellSizedBin op a b → Itv.firstArm op (.single a) (.single b) = .single r := by
      intro hws
      simp only [Itv.firstArm, C01.binOp_eq_ref op a b hws, href]
    cases op <;> simp only [cpBinInFrag, Bool.false_eq_true] at hfr <;>
      simp only [cpBinSized, decide_eq_true_eq] at hsz
    case IntAdd =>
      simp only [Itv.binOp]
      exact itv_add_exact a b r hsz href
    case IntSub =>
      simp only [Itv.binOp]
      exact itv_sub_exact a b r hsz href
    case IntMult =>
      simp only [Bool.and_eq_true, decide_eq_true_eq] at hfr
      simp only [Itv.binOp]
      exact itv_mul_exact a b r hw hfr.1 hsz href
    case IntLeft =>
      simp only [Bool.and_eq_true, decide_eq_true_eq] at hfr
      simp only [Itv.binOp]
      exact itv_shl_exact a b r hw hfr.1 hsz href
    case IntRight => exact hfirst hsz
    case IntSRight => exact hfirst hsz
    case IntAnd => exact hfirst hsz
    case IntOr => exact hfirst hsz
    case IntXOr => exact hfirst hsz
  · cases h


/-! ### `Data` values that are constants -/

theorem data_binOp_const (strict : Bool) (op : BinOpType) (a b r : Bv) (h : cpBin strict op a b = some r) :
    (AData.const a).binOp op (AData.const b) = AData.const r := by
  simp only [AData.binOp, AData.const, AData.ofItv, AData.getIfAbsoluteValue, Option.isNone_none,
    Bool.not_false, Bool.and_self, if_true, itv_binOp_exact strict op a b r h]

theorem data_unOp_const (strict : Bool) (op : UnOpType) (a r : Bv) (h : cpUn strict op a = some r) :
    (AData.const a).unOp op = AData.const r := by
  obtain ⟨aw, av⟩ := a
  cases op with
  | IntNegate =>
    simp only [cpUn] at h
    have := resToOpt_some _ _ h
    simp only [Ref.unOp, valV, ← C01.not_eq] at this
    cases this
    simp [AData.unOp, AData.const, AData.ofItv, Itv.unOp, Itv.bytes, Bv.bytes]
  | Int2Comp =>
    simp only [cpUn] at h
    split at h
    · cases h
    · next hc =>
      have := resToOpt_some _ _ h
      simp only [Ref.unOp, valV, ← C01.neg_eq] at this
      cases this
      simp [AData.unOp, AData.const, AData.ofItv, Itv.unOp, Itv.bytes, Bv.bytes]
  | _ => simp [cpUn] at h

theorem data_cast_const (op : CastOpType) (sz : Nat) (a r : Bv) (h : cpCast op sz a = some r) :
    (AData.const a).cast op sz = AData.const r := by
  obtain ⟨aw, av⟩ := a
  cases op with
  | IntZExt =>
    simp only [cpCast] at h
    split at h
    · next hc =>
      obtain ⟨hw8, hle⟩ := hc
      have := resToOpt_some _ _ h
      simp only [Ref.cast, hle, if_true, valV, ← C01.zext_eq] at this
      cases this
      have hb : (Bv.bytes ⟨aw, av⟩) = (aw + 7) / 8 := rfl
      simp only [AData.cast, AData.const, AData.ofItv, Itv.cast, Itv.bytes, Option.map_some,
        Option.isSome_none, Bool.or_self]
      by_cases hs : ((aw + 7) / 8 == sz) = true
      · simp only [hb, hs, if_true]
        have : aw = 8 * sz := by simp only [beq_iff_eq] at hs; rw [hb] at hw8; omega
        subst this
        simp [Bv.bytes]
        omega
      · simp only [hb, hs, if_false]
        simp [Bv.bytes]
        omega
    · cases h
  | IntSExt =>
    simp only [cpCast] at h
    split at h
    · next hc =>
      obtain ⟨hw8, hle⟩ := hc
      have := resToOpt_some _ _ h
      simp only [Ref.cast, hle, if_true, valV, ← C01.sext_eq _ _ hle] at this
      cases this
      have hb : (Bv.bytes ⟨aw, av⟩) = (aw + 7) / 8 := rfl
      simp only [AData.cast, AData.const, AData.ofItv, Itv.cast, Itv.bytes, Option.map_some,
        Option.isSome_none, Bool.or_self]
      by_cases hs : ((aw + 7) / 8 == sz) = true
      · simp only [hb, hs, if_true]
        have : aw = 8 * sz := by simp only [beq_iff_eq] at hs; rw [hb] at hw8; omega
        subst this
        simp [Bv.bytes]
        omega
      · simp only [hb, hs, if_false]
        simp [Bv.bytes]
        omega
    · cases h
  | _ => simp [cpCast] at h


theorem data_subpiece_const (low sz : Nat) (a r : Bv) (h : cpSubpiece low sz a = some r) :
    (AData.const a).subpiece low sz = AData.const r := by
  obtain ⟨aw, av⟩ := a
  simp only [cpSubpiece] at h
  split at h
  · next hc =>
    obtain ⟨rfl, hpos, hw8, hle⟩ := hc
    have := resToOpt_some _ _ h
    have hle' : 8 * sz ≤ aw := hle
    have hcond : 8 * 0 < aw ∧ 8 * sz ≤ aw := ⟨by omega, hle⟩
    simp only [Ref.subpieceOp, hcond, and_self, if_true, valV, ← C01.subpiece_eq, Impl.subpiece,
      Nat.mul_zero, BitVec.ushiftRight_zero] at this
    cases this
    have hb : (Bv.bytes ⟨aw, av⟩) = (aw + 7) / 8 := rfl
    simp only [hb] at hw8
    simp only [AData.subpiece, AData.const, AData.ofItv, Itv.bytes, hb, true_and]
    by_cases hs : sz = (aw + 7) / 8
    · simp only [hs, if_true]
      have : aw = 8 * ((aw + 7) / 8) := hw8
      generalize (aw + 7) / 8 = n at *
      subst this
      subst hs
      simp [Bv.bytes]
      omega
    · simp only [hs, if_false]
      have hlt : (aw + 7) / 8 > sz := by omega
      simp [Itv.subpiece, Itv.bytes, hb, hlt, Bv.bytes]
      omega
  · cases h


/-! ### stack addresses -/

theorem data_sp_add_const (o bv : BitVec 64) :
    (AData.sp ⟨64, o⟩).binOp .IntAdd (AData.const ⟨64, bv⟩) = AData.sp ⟨64, o + bv⟩ := by
  simp [AData.binOp, AData.sp, AData.fromTarget, AData.const, AData.ofItv, AData.getIfAbsoluteValue,
    AData.computeAdd, AData.getIfAbsoluteValueOrTop, AData.addOffset, Itv.binOp, Itv.add,
    Itv.bytes, Bv.bytes]

theorem data_sp_sub_const (o bv : BitVec 64) :
    (AData.sp ⟨64, o⟩).binOp .IntSub (AData.const ⟨64, bv⟩) = AData.sp ⟨64, o - bv⟩ := by
  simp [AData.binOp, AData.sp, AData.fromTarget, AData.const, AData.ofItv, AData.getIfAbsoluteValue,
    AData.computeSub, AData.isEmpty, AData.subtractOffset, Itv.binOp, Itv.sub,
    Itv.bytes, Bv.bytes]

theorem data_const_add_sp (o av : BitVec 64) :
    (AData.const ⟨64, av⟩).binOp .IntAdd (AData.sp ⟨64, o⟩) = AData.sp ⟨64, av + o⟩ := by
  simp [AData.binOp, AData.sp, AData.fromTarget, AData.const, AData.ofItv, AData.getIfAbsoluteValue,
    AData.computeAdd, AData.getIfAbsoluteValueOrTop, AData.addOffset, Itv.binOp, Itv.add,
    Itv.bytes, Bv.bytes, BitVec.add_comm]

theorem data_sp_sub_sp (o₁ o₂ : BitVec 64) :
    (AData.sp ⟨64, o₁⟩).binOp .IntSub (AData.sp ⟨64, o₂⟩) = AData.const ⟨64, o₁ - o₂⟩ := by
  simp [AData.binOp, AData.sp, AData.fromTarget, AData.const, AData.ofItv, AData.getIfAbsoluteValue,
    AData.computeSub, AData.isEmpty, AData.getIfUniqueTarget, Itv.binOp, Itv.sub,
    Itv.bytes, Bv.bytes]

/-! ### the invariant between the constant propagation and the model state -/

structure Inv (k : K) (s : St) : Prop where
  regs : ∀ v sv, k.getReg v = some sv → s.getReg v = embed sv
  cells : ∀ c, c ∈ k.cells → 0 < c.size ∧ (∃ m, m ∈ s.cells ∧ m.1 = c.pos) ∧
    (∀ m, m ∈ s.cells → m.1 = c.pos → m.2 = embed c.val ∧ m.2.size = c.size)

/-- **evaluation**: on expressions the constant propagation evaluates (any `strict`, in particular the
full fragment), the model's `eval` returns exactly that constant / stack address -/
theorem eval_exact (strict : Bool) (k : K) (s : St) (hr : ∀ v sv, k.getReg v = some sv → s.getReg v = embed sv) :
    ∀ (e : Expression) (sv : SVal), cpExpr strict k e = some sv → s.eval e = embed sv := by
  intro e
  induction e with
  | Var v => intro sv h; simp only [cpExpr] at h; simp only [St.eval]; exact hr v sv h
  | Const b x => intro sv h; simp only [cpExpr] at h; cases h; rfl
  | Unknown d sz => intro sv h; simp [cpExpr] at h
  | UnOp op a ih =>
    intro sv h
    simp only [cpExpr] at h
    split at h
    · next x hx =>
      simp only [Option.map_eq_some_iff] at h
      obtain ⟨r, hr', rfl⟩ := h
      simp only [St.eval, ih _ hx, embed]
      exact data_unOp_const strict op x r hr'
    · simp at h
  | Cast op sz a ih =>
    intro sv h
    simp only [cpExpr] at h
    split at h
    · next x hx =>
      simp only [Option.map_eq_some_iff] at h
      obtain ⟨r, hr', rfl⟩ := h
      simp only [St.eval, ih _ hx, embed]
      exact data_cast_const op sz x r hr'
    · simp at h
  | Subpiece lb sz a ih =>
    intro sv h
    simp only [cpExpr] at h
    split at h
    · next x hx =>
      simp only [Option.map_eq_some_iff] at h
      obtain ⟨r, hr', rfl⟩ := h
      simp only [St.eval, ih _ hx, embed]
      exact data_subpiece_const lb sz x r hr'
    · simp at h
  | BinOp op l r ihl ihr =>
    intro sv h
    simp only [cpExpr] at h
    split at h
    · next a b ha hb =>
      split at h
      · next hx =>
        split at h
        · cases h
          simp only [St.eval, hx, and_self, if_true, embed]
        · cases h
      · next hx =>
        simp only [Option.map_eq_some_iff] at h
        obtain ⟨r', h1, rfl⟩ := h
        simp only [St.eval, hx, if_false, ihl _ ha, ihr _ hb, embed]
        exact data_binOp_const strict op a b r' h1
    · next o b ho hb =>
      obtain ⟨bw, bv⟩ := b
      split at h
      · next hw =>
        simp only at hw
        subst hw
        have hne : ¬ (op = BinOpType.IntXOr ∧ l = r) := by
          rintro ⟨_, rfl⟩
          rw [ho] at hb; cases hb
        cases op <;> simp only at h <;> (try cases h)
        · split at h
          · cases h
          · next hc =>
            cases h
            simp only [St.eval, hne, if_false, ihl _ ho, ihr _ hb, embed]
            exact data_sp_add_const _ _
        · split at h
          · cases h
          · next hc =>
            cases h
            simp only [St.eval, hne, if_false, ihl _ ho, ihr _ hb, embed]
            exact data_sp_sub_const _ _
      · cases h
    · next a o ha ho =>
      obtain ⟨aw, av⟩ := a
      split at h
      · next hw =>
        simp only at hw
        subst hw
        have hne : ¬ (op = BinOpType.IntXOr ∧ l = r) := by
          rintro ⟨_, rfl⟩
          rw [ho] at ha; cases ha
        cases op <;> simp only at h <;> (try cases h)
        split at h
        · cases h
        · next hc =>
          cases h
          simp only [St.eval, hne, if_false, ihl _ ha, ihr _ ho, embed]
          exact data_const_add_sp _ _
      · cases h
    · next o₁ o₂ h1 h2 =>
      cases op <;> simp only at h <;> (try cases h)
      split at h
      · cases h
      · next hc =>
        cases h
        have hne : ¬ (BinOpType.IntSub = BinOpType.IntXOr ∧ l = r) := by
          rintro ⟨hh, _⟩; cases hh
        simp only [St.eval, hne, if_false, ihl _ h1, ihr _ h2, embed]
        exact data_sp_sub_sp _ _
    · simp at h


/-! ### registers and cells of the model state -/

theorem embed_not_top (sv : SVal) : (embed sv).isTop = false := by
  cases sv <;> simp [embed, AData.const, AData.sp, AData.ofItv, AData.fromTarget, AData.isTop]

theorem embed_size (sv : SVal) : (embed sv).size = sv.bytes := by
  cases sv <;> simp [embed, AData.const, AData.sp, AData.ofItv, AData.fromTarget, Itv.bytes, SVal.bytes, Bv.bytes]

theorem St.getReg_setReg_same (s : St) (v : Variable) (d : AData) (h : d.isTop = false) :
    (s.setReg v d).getReg v = d := by
  simp [St.setReg, St.getReg, h]

theorem St.getReg_setReg_ne (s : St) (v w : Variable) (d : AData) (h : w ≠ v) :
    (s.setReg v d).getReg w = s.getReg w := by
  have hvw : ¬ v = w := fun e => h e.symm
  have hf : (s.regs.filter (fun p => p.1 != v)).find? (fun p => p.1 == w) = s.regs.find? (fun p => p.1 == w) := by
    apply find_filter
    intro p hp
    simp only [beq_iff_eq] at hp
    simp [hp, h]
  cases ht : d.isTop
  · simp only [St.setReg, ht, Bool.false_eq_true, if_false, St.getReg]
    rw [List.find?_cons_of_neg (by simpa using hvw), hf]
  · simp only [St.setReg, ht, if_true, St.getReg]
    rw [hf]

theorem St.cells_setReg (s : St) (v : Variable) (d : AData) : (s.setReg v d).cells = s.cells := by
  unfold St.setReg; split <;> rfl

theorem merge_empty (n : Nat) (d : AData) (h : d.size = n) : (AData.newEmpty n).merge d = d := by
  cases d
  simp only at h
  subst h
  simp [AData.merge, AData.newEmpty, AData.optMerge]

theorem Inv.setReg_known {k : K} {s : St} (hi : Inv k s) (v : Variable) (sv : SVal) :
    Inv (k.setReg v sv) (s.setReg v (embed sv)) where
  regs := by
    intro w s' h
    rw [K.getReg_setReg] at h
    by_cases hw : w = v
    · subst hw; simp only [if_true] at h; cases h
      exact St.getReg_setReg_same _ _ _ (embed_not_top _)
    · simp only [hw, if_false] at h
      rw [St.getReg_setReg_ne _ _ _ _ hw]; exact hi.regs w s' h
  cells := by rw [St.cells_setReg]; exact hi.cells

theorem Inv.forget {k : K} {s : St} (hi : Inv k s) (v : Variable) (d : AData) :
    Inv (k.forget v) (s.setReg v d) where
  regs := by
    intro w s' h
    rw [K.getReg_forget] at h
    by_cases hw : w = v
    · simp [hw] at h
    · simp only [hw, if_false] at h
      rw [St.getReg_setReg_ne _ _ _ _ hw]; exact hi.regs w s' h
  cells := by rw [St.cells_setReg]; exact hi.cells

/-- a known cell is read back exactly -/
theorem Inv.memGet {k : K} {s : St} (hi : Inv k s) (pos : Int) (n : Nat) (sv : SVal)
    (h : k.getCell pos n = some sv) : memGet s.cells pos n = embed sv := by
  obtain ⟨c, hc, hp, hn, hv⟩ := K.getCell_mem k pos n sv h
  obtain ⟨_, ⟨m, hm, hmp⟩, hall⟩ := hi.cells c hc
  unfold C18.memGet
  have hsome : (s.cells.find? (fun c => c.1 == pos)).isSome = true := by
    rw [List.find?_isSome]
    exact ⟨m, hm, by simp [hmp, hp]⟩
  cases hf : s.cells.find? (fun c => c.1 == pos) with
  | none => simp [hf] at hsome
  | some m' =>
    have hm' := List.mem_of_find?_eq_some hf
    have hp' : m'.1 = pos := by simpa using List.find?_some hf
    obtain ⟨hval, hsz⟩ := hall m' hm' (by rw [hp', hp])
    have hsz' : (embed sv).size = n := by rw [← hv, ← hval, hsz, hn]
    simp only [hval, hv, hsz', beq_self_eq_true, if_true]

theorem load_sp_exact {k : K} {s : St} (hi : Inv k s) (o : BitVec 64) (n : Nat) (sv : SVal)
    (h : k.getCell o.toInt n = some sv) :
    s.loadValueFromAddress (AData.sp ⟨64, o⟩) n = some (embed sv) := by
  have hg := hi.memGet _ _ _ h
  obtain ⟨c, hc, hp, hn, hv⟩ := K.getCell_mem k _ _ _ h
  obtain ⟨_, ⟨m, hm, hmp⟩, hall⟩ := hi.cells c hc
  have hsz : (embed sv).size = n := by
    obtain ⟨hval, hs⟩ := hall m hm hmp
    rw [← hv, ← hval, hs, hn]
  have hne : (embed sv).isEmpty = false := by
    cases sv <;> simp [embed, AData.const, AData.sp, AData.ofItv, AData.fromTarget, AData.isEmpty]
  simp only [St.loadValueFromAddress, AData.sp, AData.fromTarget, listGetValue, offsetOf, hg,
    merge_empty n _ hsz, Bool.false_eq_true, if_false, hne]


theorem store_sp_cells (cs : Cells) (o : BitVec 64) (sv : SVal) :
    listSetValue cs (AData.sp ⟨64, o⟩) (embed sv) =
      (o.toInt, embed sv) :: clearInterval cs o.toInt sv.bytes := by
  simp [listSetValue, AData.sp, AData.fromTarget, AData.getIfUniqueTarget, objectSetValue, memAdd,
    embed_not_top, embed_size, offsetOf]

theorem mem_clearInterval (cs : Cells) (pos : Int) (n : Nat) (m : Int × AData) :
    m ∈ clearInterval cs pos n ↔ m ∈ cs ∧ disjointCell pos n m.1 m.2.size = true := by
  simp only [clearInterval, List.mem_filter, disjointCell]

/-- **one definition** keeps the invariant -/
theorem cpDef_exact (strict : Bool) (k : K) (s : St) (d : Def) (hi : Inv k s) :
    Inv (cpDef strict k d) (s.handleDef d) := by
  cases d with
  | Assign v e =>
    simp only [cpDef, St.handleDef, St.handleAssign]
    split
    · next sv hs => rw [eval_exact strict k s hi.regs e sv hs]; exact hi.setReg_known v sv
    · exact hi.forget v _
  | Load v a =>
    simp only [cpDef, St.handleDef, St.handleLoad]
    split
    · next o ho =>
      rw [eval_exact strict k s hi.regs a _ ho]
      split
      · next sv hs =>
        simp only [embed, load_sp_exact hi o v.size sv hs]
        exact hi.setReg_known v sv
      · split <;> exact hi.forget v _
    · split <;> exact hi.forget v _
  | Store a e =>
    simp only [cpDef, St.handleDef, St.handleStore]
    split
    · next o sv ho hs =>
      split
      · next hb =>
        simp only [Bool.and_eq_true] at hb
        obtain ⟨hin, _⟩ := hb
        simp only [inBounds, Bool.and_eq_true, decide_eq_true_eq] at hin
        rw [eval_exact strict k s hi.regs a _ ho, eval_exact strict k s hi.regs e _ hs]
        show Inv _ { s with cells := listSetValue s.cells (AData.sp ⟨64, o⟩) (embed sv) }
        rw [store_sp_cells]
        refine ⟨hi.regs, ?_⟩
        intro c hc
        simp only [List.mem_cons] at hc
        rcases hc with rfl | hc
        · refine ⟨hin.1.2, ⟨(o.toInt, embed sv), by simp, rfl⟩, ?_⟩
          intro m hm hmp
          simp only [List.mem_cons] at hm
          rcases hm with rfl | hm
          · exact ⟨rfl, embed_size sv⟩
          · rw [mem_clearInterval] at hm
            obtain ⟨_, hd⟩ := hm
            simp only [disjointCell, Bool.not_eq_true', Bool.or_eq_false_iff, Bool.and_eq_false_iff,
              decide_eq_false_iff_not] at hd
            simp only at hmp
            omega
        · obtain ⟨hmem, hdis⟩ := K.mem_clear k _ _ c hc
          obtain ⟨hpos, ⟨m, hm, hmp⟩, hall⟩ := hi.cells c hmem
          have hne : c.pos ≠ o.toInt := by
            simp only [disjointCell, Bool.not_eq_true', Bool.or_eq_false_iff, Bool.and_eq_false_iff,
              decide_eq_false_iff_not] at hdis
            omega
          refine ⟨hpos, ⟨m, ?_, hmp⟩, ?_⟩
          · simp only [List.mem_cons]
            right
            rw [mem_clearInterval]
            refine ⟨hm, ?_⟩
            rw [hmp, (hall m hm hmp).2]
            exact hdis
          · intro m' hm' hmp'
            simp only [List.mem_cons] at hm'
            rcases hm' with rfl | hm'
            · exact absurd hmp'.symm hne
            · rw [mem_clearInterval] at hm'
              exact hall m' hm'.1 hmp'
      · exact ⟨hi.regs, by intro c hc; simp at hc⟩
    · exact ⟨hi.regs, by intro c hc; simp at hc⟩

theorem cpDefs_exact (strict : Bool) : ∀ (defs : List (Term Def)) (k : K) (s : St), Inv k s →
    Inv (cpDefs strict k defs) (defs.foldl (fun s d => s.handleDef d.term) s) := by
  intro defs
  induction defs with
  | nil => intro k s hi; exact hi
  | cons d ds ih =>
    intro k s hi
    simp only [cpDefs, List.foldl_cons]
    exact ih _ _ (cpDef_exact strict k s d.term hi)

theorem St.init_eq (sp : Variable) (h : sp.size = 8) :
    St.init sp = { regs := [(sp, AData.sp ⟨64, 0⟩)], cells := [] } := by
  obtain ⟨spn, sps, spt⟩ := sp
  simp only at h
  subst h
  rfl

theorem Inv.init (sp : Variable) (h : sp.size = 8) : Inv (K.init sp) (St.init sp) where
  regs := by
    rw [St.init_eq sp h]
    intro v sv hv
    simp only [K.init, K.getReg] at hv
    by_cases hvs : sp = v
    · subst hvs
      simp at hv
      cases hv
      simp [St.getReg, embed]
    · simp [List.find?_cons, hvs] at hv
  cells := by intro c hc; simp [K.init] at hc

theorem tryToBitvec_const (b : Bv) : (AData.const b).tryToBitvec = some b := by
  simp [AData.tryToBitvec, AData.const, AData.ofItv, Itv.tryToBitvec]

/-- **C18-model-exact.** If the block computes the parameter as the constant `b` from constants
alone (`blockConst strict`, for `strict = false` the full fragment including signed overflows), then the
block-end state of the model evaluates the parameter to exactly the singleton `b`: `try_to_bitvec`
succeeds with `b`. -/
theorem model_param_exact (strict : Bool) (sp : Variable) (hsp : sp.size = 8) (defs : List (Term Def)) (p : Arg)
    (b : Bv) (h : blockConst strict sp defs p = some b) :
    ∃ d, (blockEndState sp defs).evalParameterArg p = some d ∧ d.tryToBitvec = some b := by
  have hi : Inv (cpDefs strict (K.init sp) defs) (blockEndState sp defs) :=
    cpDefs_exact strict defs _ _ (Inv.init sp hsp)
  simp only [blockConst] at h
  cases p with
  | Register e dt =>
    simp only [cpParam] at h
    split at h
    · next b' he =>
      cases h
      refine ⟨_, rfl, ?_⟩
      rw [eval_exact strict _ _ hi.regs e _ he]
      exact tryToBitvec_const b
    · cases h
  | Stack a size dt =>
    simp only [cpParam] at h
    split at h
    · next o ho =>
      split at h
      · next b' hc =>
        cases h
        refine ⟨AData.const b, ?_, tryToBitvec_const b⟩
        simp only [St.evalParameterArg, eval_exact strict _ _ hi.regs a _ ho, embed]
        exact load_sp_exact hi o size _ hc
      · cases h
    · cases h

/-- the model's constant for the parameter (`…try_to_bitvec()?.try_to_u64()?`) -/
theorem model_paramConst (strict : Bool) (sp : Variable) (hsp : sp.size = 8) (defs : List (Term Def)) (p : Arg)
    (b : Bv) (h : blockConst strict sp defs p = some b) (hb : b.toNat < 2 ^ 64) :
    (blockEndState sp defs).paramConst p = some b.toNat := by
  obtain ⟨d, h1, h2⟩ := model_param_exact strict sp hsp defs p b h
  simp [St.paramConst, h1, h2, tryToU64, hb]

end CweModel.C18
