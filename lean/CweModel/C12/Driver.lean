/- C12 model driver: runs the executable `WellSized` checker on the output of the REAL normalization
(spec evaluation on the implementation output) and compares the output with the composed pass models of C10.
Second stream (`"pcode"` lines; theorems `lift_wellSized`, `lift_then_normalize_wellSized`): evaluates the
extractor domain (`C11.projectOk`, `C11.projectSized`) on the generated P-Code project and runs the checker
on the REAL lifted program and on the REAL lifted-and-`normalize()`d program. -/
import CweModel.Base.Proto
import CweModel.C12.Model
import CweModel.C10.Propagation
import CweModel.C11.Sized
open Lean CweModel.Proto CweModel.IR

namespace CweModel.C12

def spReg : Variable := { name := "RSP", size := 8 }
def physRegs : List Variable :=
  (["RAX", "RBX", "RCX", "RDX", "RSI", "RDI", "RBP", "RSP", "R8", "R9", "R10", "R11", "R12", "R13", "R14", "R15"].map
    fun n => ({ name := n, size := 8 } : Variable)) ++
  (["ZF", "CF", "SF", "OF"].map fun n => ({ name := n, size := 1 } : Variable))

def normalizeOptimizeModel (arch : String) (p : Program) : Program := C10.normalizeOptimize arch spReg physRegs p

/-- the P-Code stream: P-Code project, real lifted program, real lifted and normalized program -/
def handlePcode (j : Json) : Except String String := do
  let p ← C11.Pcode.parseProject (← field j "pcode")
  let ptr := p.pointerSize
  let dom := C11.projectOk p
  let sized := C11.projectSized p
  let lj ← field j "lifted"
  match lj.getStr? with
  | .ok _ =>
    -- no lifted program (a panic of the lifting inside the domain is reported by the check of C11)
    return s!"ok pcode no-lifted-program {if dom && sized then "in-domain" else "out-of-domain"}"
  | .error _ =>
    let lifted ← parseProgram lj
    if !(dom && sized) then
      return s!"ok pcode modelonly {if dom then "pcode-ill-sized" else "out-of-domain"}"
    match firstIllSized lifted ptr with
    | some (t, r) => return s!"spec class=lifted-illsized-{r} expected=well-sized-lifted-program impl=term={t}"
    | none =>
      if !Model.wellSizedProgram lifted ptr then
        return "spec class=lifted-illsized expected=well-sized-lifted-program impl=checker-disagrees"
      let nj ← field j "norm"
      match nj.getStr? with
      | .ok msg => return s!"spec class=normalize-panic-after-lifting expected=normalized-program impl={msg}"
      | .error _ =>
        let norm ← parseProgram nj
        match firstIllSized norm ptr with
        | some (t, r) => return s!"spec class=normalized-illsized-{r} expected=well-sized-normalized-program impl=term={t}"
        | none =>
          if !Model.wellSizedProgram norm ptr then
            return "spec class=normalized-illsized expected=well-sized-normalized-program impl=checker-disagrees"
          return "ok pcode constrained lifted-well-sized normalized-well-sized"

def handleE (line : String) : Except String String := do
  let j ← Json.parse line
  if (j.getObjVal? "pcode").isOk then return ← handlePcode j
  let arch ← strF j "arch"
  let pb ← parseProgram (← field j "pb")
  let ptr := spReg.size
  let wsIn := Model.wellSizedProgram pb ptr
  let oj ← field j "out"
  match oj.getStr? with
  | .ok msg =>
    -- a panic of the normalization on a well-sized program is a violation ("no value")
    if wsIn then return s!"spec class=panic expected=well-sized-program impl={msg}"
    else return "ok illsized-input panic"
  | .error _ =>
    let out ← parseProgram oj
    let m := normalizeOptimizeModel arch pb
    if !wsIn then
      return (if m == out then "ok illsized-input modelonly" else "diff class=model-illsized-input model≠impl")
    match firstIllSized out ptr with
    | some (t, r) => return s!"spec class=illsized-{r} expected=well-sized impl=term={t}"
    | none =>
      if !Model.wellSizedProgram out ptr then return "spec class=illsized expected=well-sized impl=checker-disagrees"
      if m == out then return "ok constrained model-syntactic"
      -- textual differences come from the HashMap iteration order of the block-local insertion
      -- (see C10/Propagation.lean); the model output has to be well-sized as well
      else if Model.wellSizedProgram m ptr then return "ok constrained model-textual-difference"
      else return "diff class=model-illsized model-output-ill-sized"

end CweModel.C12

def main : IO Unit := CweModel.Proto.runDriver (CweModel.Proto.guarded CweModel.C12.handleE)
