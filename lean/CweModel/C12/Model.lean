/-
C12 — size consistency of the IR: the typing walk `WellSized` of the property (declarative `Prop` and
the executable checker `wellSized… : … → Bool`), lifted from expressions to defs, jumps, blocks,
functions and programs (with the pointer size).

  "every expression in the lifted and fully normalized program is well-sized: operands of same-size
   operations have equal sizes, piece/subpiece/extension sizes are consistent with their operands,
   every assignment stores a value of the assigned variable's size, and every load/store address has
   pointer size."

The sizes are the ones `Expression::bytesize` (intermediate_representation/expression.rs; Lean:
`Expression.bytesize` in Base/IR.lean) computes. The operation classes follow the P-Code manual:

* same-size operations (integer arithmetic/bitwise/comparison/carry, float arithmetic/comparison):
  both operands have the same size;
* shifts: no relation between the sizes of value and amount; `Piece`: none (result = sum);
* boolean operations (`BoolAnd/Or/XOr`, `BoolNegate`): operands are 1 byte (the size `bytesize`
  reports for the result);
* `IntZExt/IntSExt`: the operand is not larger than the result; the other casts: no relation;
* `Subpiece`: the extracted bytes `[low, low+size)` lie inside the operand, `size > 0`;
* every variable, constant, cast and unknown has a non-zero size.

Exported for the other properties: `CweModel.C12.Model.wellSizedProgram : Program → Nat → Bool`.
Core-only.
-/
import CweModel.Base.IR

namespace CweModel.C12
open CweModel.IR

/-- how an operation constrains the sizes of its two operands -/
inductive BinClass where
  | same      -- both operands have equal sizes
  | bool      -- both operands are 1 byte
  | free      -- no relation (shifts, piece)
deriving DecidableEq, Repr

def binClass : BinOpType → BinClass
  | .Piece | .IntLeft | .IntRight | .IntSRight => .free
  | .BoolXOr | .BoolAnd | .BoolOr => .bool
  | _ => .same

/-- size condition of a binary operation on operand sizes `l`, `r` -/
def binSizesOk (op : BinOpType) (l r : Nat) : Prop :=
  match binClass op with
  | .same => l = r
  | .bool => l = 1 ∧ r = 1
  | .free => True

instance (op : BinOpType) (l r : Nat) : Decidable (binSizesOk op l r) := by
  unfold binSizesOk; cases binClass op <;> infer_instance

def unSizeOk (op : UnOpType) (a : Nat) : Prop :=
  match op with
  | .BoolNegate => a = 1
  | _ => True

instance (op : UnOpType) (a : Nat) : Decidable (unSizeOk op a) := by
  unfold unSizeOk; cases op <;> infer_instance

def castSizeOk (op : CastOpType) (size a : Nat) : Prop :=
  match op with
  | .IntZExt | .IntSExt => a ≤ size
  | _ => True

instance (op : CastOpType) (size a : Nat) : Decidable (castSizeOk op size a) := by
  unfold castSizeOk; cases op <;> infer_instance

/-- **the typing walk of the property** -/
def WellSized : Expression → Prop
  | .Var v => 0 < v.size
  | .Const b _ => 0 < b
  | .BinOp op l r => WellSized l ∧ WellSized r ∧ binSizesOk op l.bytesize r.bytesize
  | .UnOp op a => WellSized a ∧ unSizeOk op a.bytesize
  | .Cast op s a => WellSized a ∧ 0 < s ∧ castSizeOk op s a.bytesize
  | .Unknown _ s => 0 < s
  | .Subpiece lb s a => WellSized a ∧ 0 < s ∧ lb + s ≤ a.bytesize

instance decWellSized : (e : Expression) → Decidable (WellSized e)
  | .Var _ => by unfold WellSized; infer_instance
  | .Const _ _ => by unfold WellSized; infer_instance
  | .BinOp _ l r => by
    unfold WellSized
    have := decWellSized l; have := decWellSized r; infer_instance
  | .UnOp _ a => by unfold WellSized; have := decWellSized a; infer_instance
  | .Cast _ _ a => by unfold WellSized; have := decWellSized a; infer_instance
  | .Unknown _ _ => by unfold WellSized; infer_instance
  | .Subpiece _ _ a => by unfold WellSized; have := decWellSized a; infer_instance

/-- executable checker (the form the drivers run) -/
def wellSizedExpr (e : Expression) : Bool := decide (WellSized e)

/-- a well-sized expression of a given size -/
def WellSizedAs (e : Expression) (n : Nat) : Prop := WellSized e ∧ e.bytesize = n

instance (e : Expression) (n : Nat) : Decidable (WellSizedAs e n) := by
  unfold WellSizedAs; infer_instance

/-- defs: an assignment stores a value of the variable's size; load/store addresses have pointer size -/
def WellSizedDef (ptr : Nat) : Def → Prop
  | .Assign v e => 0 < v.size ∧ WellSizedAs e v.size
  | .Load v a => 0 < v.size ∧ WellSizedAs a ptr
  | .Store a e => WellSizedAs a ptr ∧ WellSized e

instance (ptr : Nat) (d : Def) : Decidable (WellSizedDef ptr d) := by
  cases d <;> (unfold WellSizedDef; infer_instance)

/-- jumps: a branch condition is one byte, indirect jump/call/return targets have pointer size -/
def WellSizedJmp (ptr : Nat) : Jmp → Prop
  | .Branch _ | .Call _ _ | .CallOther _ _ => True
  | .BranchInd e | .CallInd e _ | .Return e => WellSizedAs e ptr
  | .CBranch _ c => WellSizedAs c 1

instance (ptr : Nat) (j : Jmp) : Decidable (WellSizedJmp ptr j) := by
  cases j <;> (unfold WellSizedJmp; infer_instance)

def WellSizedBlk (ptr : Nat) (b : Blk) : Prop :=
  (∀ d ∈ b.defs, WellSizedDef ptr d.term) ∧ (∀ j ∈ b.jmps, WellSizedJmp ptr j.term)

instance (ptr : Nat) (b : Blk) : Decidable (WellSizedBlk ptr b) := by
  unfold WellSizedBlk; infer_instance

def WellSizedSub (ptr : Nat) (s : Sub) : Prop := ∀ b ∈ s.blocks, WellSizedBlk ptr b.term

instance (ptr : Nat) (s : Sub) : Decidable (WellSizedSub ptr s) := by
  unfold WellSizedSub; infer_instance

def WellSizedProgram (p : Program) (ptr : Nat) : Prop := ∀ s ∈ p.subs, WellSizedSub ptr s.term

instance (p : Program) (ptr : Nat) : Decidable (WellSizedProgram p ptr) := by
  unfold WellSizedProgram; infer_instance

namespace Model
/-- the exported executable checker -/
def wellSizedProgram (p : Program) (ptr : Nat) : Bool := decide (WellSizedProgram p ptr)
end Model

/-! ### diagnostics for the drivers: the first ill-sized term of a program -/

/-- a short canonical description of why an expression is ill-sized (operation + kind) -/
def illSizedReason : Expression → Option String
  | .Var v => if v.size = 0 then some "var-size0" else none
  | .Const b _ => if b = 0 then some "const-size0" else none
  | .BinOp op l r =>
    match illSizedReason l with
    | some x => some x
    | none =>
      match illSizedReason r with
      | some x => some x
      | none => if binSizesOk op l.bytesize r.bytesize then none else some s!"binop-{op.name}"
  | .UnOp op a =>
    match illSizedReason a with
    | some x => some x
    | none => if unSizeOk op a.bytesize then none else some s!"unop-{op.name}"
  | .Cast op s a =>
    match illSizedReason a with
    | some x => some x
    | none => if 0 < s ∧ castSizeOk op s a.bytesize then none else some s!"cast-{op.name}"
  | .Unknown _ s => if s = 0 then some "unknown-size0" else none
  | .Subpiece lb s a =>
    match illSizedReason a with
    | some x => some x
    | none => if 0 < s ∧ lb + s ≤ a.bytesize then none else some "subpiece"

def illSizedAs (e : Expression) (n : Nat) (what : String) : Option String :=
  match illSizedReason e with
  | some x => some x
  | none => if e.bytesize = n then none else some what

def illSizedDef (ptr : Nat) : Def → Option String
  | .Assign v e => if v.size = 0 then some "var-size0" else illSizedAs e v.size "assign-size"
  | .Load v a => if v.size = 0 then some "var-size0" else illSizedAs a ptr "load-address-size"
  | .Store a e => (illSizedAs a ptr "store-address-size").orElse (fun _ => illSizedReason e)

def illSizedJmp (ptr : Nat) : Jmp → Option String
  | .Branch _ | .Call _ _ | .CallOther _ _ => none
  | .BranchInd e => illSizedAs e ptr "branchind-size"
  | .CallInd e _ => illSizedAs e ptr "callind-size"
  | .Return e => illSizedAs e ptr "return-size"
  | .CBranch _ c => illSizedAs c 1 "condition-size"

/-- first ill-sized term: (term id, reason) -/
def firstIllSized (p : Program) (ptr : Nat) : Option (String × String) :=
  p.subs.findSome? fun s => s.term.blocks.findSome? fun b =>
    (b.term.defs.findSome? fun d => (illSizedDef ptr d.term).map (fun r => (d.tid.id, r))).orElse fun _ =>
    (b.term.jmps.findSome? fun j => (illSizedJmp ptr j.term).map (fun r => (j.tid.id, r)))

end CweModel.C12
